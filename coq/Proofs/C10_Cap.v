(* Proofs/C10_Cap.v -- property C10, the raise cap of the abstract menu along sampled histories:
   a raise edge on the menu needs n_raises <= MAX_RAISE_REPEATS; hence every betting round of a
   sampled history whose rounds fit the subgame window has at most MAX_RAISE_REPEATS + 1 raise
   edges; with the original subgame (walk from the root) the cap is not enforced. *)
From Coq Require Import ZArith NArith List Bool Lia.
From RP Require Import Base.Bits Gen.GenLib Gen.GenFixes Gen.GenAbstract Model.Codec Model.Showdown Model.Game
                       Model.Tree Spec.SpecMenu Spec.SpecTree.
Import ListNotations.
Open Scope Z_scope.

(* ---------- the menu ---------- *)
Lemma opt_map_all_in : forall (A B : Type) (f : A -> option (list B)) l ls x,
  opt_map_all f l = Some ls -> In x (concat ls) -> exists a y, In a l /\ f a = Some y /\ In x y.
Proof.
  intros A B f l. induction l as [|a r IH]; intros ls x Hl Hx.
  - cbn in Hl. injection Hl as <-. contradiction Hx.
  - cbn in Hl. destruct (f a) as [y|] eqn:Hfa; [|discriminate Hl].
    change (fold_right (fun x acc => match f x, acc with Some y, Some r => Some (y :: r) | _, _ => None end)
                       (Some []) r) with (opt_map_all f r) in Hl.
    destruct (opt_map_all f r) as [lr|] eqn:Hr; [|discriminate Hl].
    injection Hl as <-. cbn [concat] in Hx. apply in_app_or in Hx. destruct Hx as [Hx|Hx].
    + exists a, y. split; [left; reflexivity|]. split; assumption.
    + destruct (IH lr x eq_refl Hx) as (a' & y' & Ha' & Hf' & Hx').
      exists a', y'. split; [right; exact Ha'|]. split; assumption.
Qed.

Lemma choices_raise_room : forall g n m a b,
  choices g n = Some m -> In (ERaise a b) m -> n <= MAX_RAISE_REPEATS.
Proof.
  intros g n m a b Hm Hin. unfold choices in Hm.
  destruct (opt_map_all (expand g n) (legal g)) as [ls|] eqn:Hls; [|discriminate Hm].
  injection Hm as <-.
  destruct (opt_map_all_in _ _ _ _ _ _ Hls Hin) as (act & y & _ & Hexp & Hy).
  destruct act as [h| |c| |c|c|c]; cbn [expand] in Hexp; try discriminate Hexp;
    injection Hexp as <-; try (destruct Hy as [Hy|[]]; discriminate Hy).
  unfold raises in Hy. destruct (Z.ltb_spec MAX_RAISE_REPEATS n) as [_|Hle]; [contradiction Hy|exact Hle].
Qed.

Theorem raise_needs_room : forall g h m a b,
  node_menu g h = Some m -> In (ERaise a b) m -> n_raises h <= MAX_RAISE_REPEATS.
Proof. intros g h m a b Hm Hin. exact (choices_raise_room g (n_raises h) m a b Hm Hin). Qed.

(* ---------- per-round counters as a left fold ---------- *)
Definition rstep (f : edge -> bool) (cb : Z * Z) (e : edge) : Z * Z :=
  match e with
  | EDraw => (0, Z.max (fst cb) (snd cb))
  | _ => (if f e then fst cb + 1 else fst cb, snd cb)
  end.
Definition runs (f : edge -> bool) (h : list edge) (cb : Z * Z) : Z * Z := fold_left (rstep f) h cb.
Definition cur (f : edge -> bool) (h : list edge) : Z := fst (runs f h (0, 0)).
Definition best (f : edge -> bool) (h : list edge) : Z := snd (runs f h (0, 0)).

Lemma aux_runs : forall f h c b,
  max_per_round_aux f h c b = Z.max (fst (runs f h (c, b))) (snd (runs f h (c, b))).
Proof.
  intros f h. induction h as [|e r IH]; intros c b; [reflexivity|].
  destruct e; cbn [max_per_round_aux runs fold_left rstep fst snd]; apply IH.
Qed.

Lemma max_per_round_cur_best : forall f h, max_per_round_aux f h 0 0 = Z.max (cur f h) (best f h).
Proof. intros f h. apply aux_runs. Qed.

Lemma runs_snoc : forall f h e cb, runs f (h ++ [e]) cb = rstep f (runs f h cb) e.
Proof. intros f h e cb. unfold runs. rewrite fold_left_app. reflexivity. Qed.

Lemma cur_snoc : forall f h e,
  cur f (h ++ [e]) = match e with EDraw => 0 | _ => if f e then cur f h + 1 else cur f h end.
Proof. intros f h e. unfold cur. rewrite runs_snoc. destruct e; reflexivity. Qed.
Lemma best_snoc : forall f h e,
  best f (h ++ [e]) = match e with EDraw => Z.max (cur f h) (best f h) | _ => best f h end.
Proof. intros f h e. unfold best, cur. rewrite runs_snoc. destruct e; reflexivity. Qed.

(* the statistic never decreases when the history grows *)
Lemma max_per_round_snoc_le : forall f h e,
  max_per_round_aux f h 0 0 <= max_per_round_aux f (h ++ [e]) 0 0.
Proof.
  intros f h e. rewrite !max_per_round_cur_best, cur_snoc, best_snoc.
  destruct e; try destruct (f _); lia.
Qed.

(* the model's aggressive-edge statistic is the instance f = is_aggro *)
Lemma max_raises_aux_eq : forall h c b, max_raises_aux h c b = max_per_round_aux is_aggro h c b.
Proof. induction h as [|e r IH]; intros c b; [reflexivity|]. destruct e; cbn; apply IH. Qed.

(* ---------- the current round, read backwards from the node ---------- *)
Definition cur_round (h : list edge) : list edge := take_while is_choice (rev h).

Lemma cur_round_snoc : forall h e,
  cur_round (h ++ [e]) = if is_choice e then e :: cur_round h else [].
Proof. intros h e. unfold cur_round. rewrite rev_app_distr. reflexivity. Qed.

Lemma cur_count : forall f h, cur f h = Z.of_nat (length (filter f (cur_round h))).
Proof.
  intros f h. induction h as [|e h IH] using rev_ind; [reflexivity|].
  rewrite cur_snoc, cur_round_snoc, IH.
  destruct e; cbn [is_choice filter length]; try reflexivity;
    destruct (f _); cbn [length]; lia.
Qed.

Lemma filter_take_while : forall (A : Type) (f : A -> bool) l, filter f (take_while f l) = take_while f l.
Proof.
  intros A f l. induction l as [|x r IH]; [reflexivity|].
  cbn [take_while]. destruct (f x) eqn:Hx; [|reflexivity]. cbn [filter]. rewrite Hx, IH. reflexivity.
Qed.

Lemma cur_choice_length : forall h, cur is_choice h = Z.of_nat (length (cur_round h)).
Proof. intros h. rewrite cur_count. unfold cur_round. rewrite filter_take_while. reflexivity. Qed.

(* the repaired subgame is the current round truncated to the window *)
Lemma subgame_cur_round : forall h, subgame h = firstn depth_cap (cur_round h).
Proof. intros h. reflexivity. Qed.

(* as long as the current round fits the window the count is exact *)
Lemma n_raises_exact : forall h,
  cur is_choice h <= MAX_DEPTH_SUBGAME -> n_raises h = cur is_aggro h.
Proof.
  intros h Hlen. unfold n_raises. rewrite subgame_cur_round, cur_count.
  rewrite cur_choice_length in Hlen.
  rewrite firstn_all2; [reflexivity|]. unfold depth_cap. lia.
Qed.

(* in general the count never exceeds the number of aggressive edges of the round *)
Lemma filter_firstn_le : forall (A : Type) (f : A -> bool) n l,
  (length (filter f (firstn n l)) <= length (filter f l))%nat.
Proof.
  intros A f n. induction n as [|n IH]; intros l; [cbn; lia|].
  destruct l as [|x r]; [cbn; lia|]. cbn [firstn filter]. specialize (IH r).
  destruct (f x); cbn [length]; lia.
Qed.
Lemma n_raises_le : forall h, n_raises h <= cur is_aggro h.
Proof.
  intros h. unfold n_raises. rewrite subgame_cur_round, cur_count.
  pose proof (filter_firstn_le edge is_aggro depth_cap (cur_round h)). lia.
Qed.
Lemma n_raises_nonneg : forall h, 0 <= n_raises h.
Proof. intros h. unfold n_raises. lia. Qed.

Lemma raise_is_aggro : forall e, is_raise_edge e = true -> is_aggro e = true.
Proof. intros e H. destruct e; try discriminate H; reflexivity. Qed.

Lemma cur_raise_le_aggro : forall h, cur is_raise_edge h <= cur is_aggro h.
Proof.
  intros h. induction h as [|e h IH] using rev_ind; [cbn; lia|].
  rewrite !cur_snoc. destruct e; cbn [is_raise_edge is_aggro]; lia.
Qed.

Lemma cur_nonneg : forall f h, 0 <= cur f h.
Proof. intros f h. rewrite cur_count. lia. Qed.

Lemma round_length_cur : forall h, max_round_length h <= MAX_DEPTH_SUBGAME -> cur is_choice h <= MAX_DEPTH_SUBGAME.
Proof. intros h H. unfold max_round_length in H. rewrite max_per_round_cur_best in H. lia. Qed.

Lemma round_length_prefix : forall h e, max_round_length (h ++ [e]) <= MAX_DEPTH_SUBGAME ->
  max_round_length h <= MAX_DEPTH_SUBGAME.
Proof.
  intros h e H. pose proof (max_per_round_snoc_le is_choice h e) as Hle.
  unfold max_round_length in *. lia.
Qed.

(* ---------- the cap ---------- *)
Lemma raise_cap_inv : forall h, sampled_history h -> max_round_length h <= MAX_DEPTH_SUBGAME ->
  cur is_raise_edge h <= MAX_RAISE_REPEATS + 1 /\ best is_raise_edge h <= MAX_RAISE_REPEATS + 1.
Proof.
  intros h Hs. induction Hs as [|h g m e Hs IH Hm Hin|h Hs IH]; intros Hlen.
  - cbn. unfold MAX_RAISE_REPEATS. lia.
  - pose proof (round_length_prefix h e Hlen) as Hlen'.
    destruct (IH Hlen') as [Hc Hb].
    rewrite cur_snoc, best_snoc.
    destruct e as [| | | |a b|]; cbn [is_raise_edge]; try (split; lia).
    + split; [unfold MAX_RAISE_REPEATS|]; lia.
    + pose proof (raise_needs_room g h m a b Hm Hin) as Hroom.
      rewrite (n_raises_exact h (round_length_cur h Hlen')) in Hroom.
      pose proof (cur_raise_le_aggro h). split; lia.
  - pose proof (round_length_prefix h EDraw Hlen) as Hlen'.
    destruct (IH Hlen') as [Hc Hb].
    rewrite cur_snoc, best_snoc. split; [unfold MAX_RAISE_REPEATS|]; lia.
Qed.

Theorem raise_cap : forall h, sampled_history h -> max_round_length h <= MAX_DEPTH_SUBGAME ->
  max_raise_edges_per_round h <= MAX_RAISE_REPEATS + 1.
Proof.
  intros h Hs Hlen. destruct (raise_cap_inv h Hs Hlen) as [Hc Hb].
  unfold max_raise_edges_per_round. rewrite max_per_round_cur_best. lia.
Qed.

(* ---------- checking concrete histories by computation ---------- *)
Definition edge_eqb (a b : edge) : bool :=
  match a, b with
  | EDraw, EDraw | EFold, EFold | ECheck, ECheck | ECall, ECall | EShove, EShove => true
  | ERaise n d, ERaise n' d' => (n =? n') && (d =? d')
  | _, _ => false
  end.
Lemma edge_eqb_true : forall a b, edge_eqb a b = true -> a = b.
Proof.
  intros a b H. destruct a, b; cbn in H; try reflexivity; try discriminate H.
  apply andb_prop in H. destruct H as [H1 H2]. apply Z.eqb_eq in H1, H2. subst. reflexivity.
Qed.
Definition on_menu (g : game) (h : list edge) (e : edge) : bool :=
  match node_menu g h with Some m => existsb (edge_eqb e) m | None => false end.
Lemma on_menu_sound : forall g h e, on_menu g h e = true -> exists m, node_menu g h = Some m /\ In e m.
Proof.
  intros g h e H. unfold on_menu in H. destruct (node_menu g h) as [m|]; [|discriminate H].
  exists m. split; [reflexivity|]. apply existsb_exists in H. destruct H as (x & Hx & He).
  apply edge_eqb_true in He. subst x. exact Hx.
Qed.
(* every edge of es is a deal or on the menu of g for the history so far *)
Fixpoint sampled_from (g : game) (pre es : list edge) : bool :=
  match es with
  | [] => true
  | e :: r => (match e with EDraw => true | _ => on_menu g pre e end) && sampled_from g (pre ++ [e]) r
  end.
Lemma sampled_from_sound : forall g es pre, sampled_history pre -> sampled_from g pre es = true ->
  sampled_history (pre ++ es).
Proof.
  intros g es. induction es as [|e r IH]; intros pre Hp H.
  - rewrite app_nil_r. exact Hp.
  - cbn [sampled_from] in H. apply andb_prop in H. destruct H as [He Hr].
    replace (pre ++ e :: r) with ((pre ++ [e]) ++ r) by (rewrite <- app_assoc; reflexivity).
    apply IH; [|exact Hr].
    destruct e; try (destruct (on_menu_sound g pre _ He) as (m & Hm & Hin); eapply sh_choice; eassumption).
    apply sh_deal. exact Hp.
Qed.

(* ---------- the hypothesis on the round length cannot be dropped ----------
   sampled_history only records the menu discipline (any game state may stand behind a node);
   after MAX_RAISE_REPEATS + 1 raises, MAX_DEPTH_SUBGAME checks push the raises out of the window
   of Node::subgame and the menu offers raises again. *)
Definition ex_check_state : game :=      (* a flop state in which the player to act may check or bet *)
  mkGame [mkSeat Betting 98 0 2 3%N; mkSeat Betting 98 0 2 12%N] 4 112%N 0 1.
Definition ex_long_round : list edge :=
  repeat (ERaise 1 1) 4 ++ repeat ECheck 16 ++ [ERaise 1 1].


Lemma long_round_sampled : sampled_history ex_long_round.
Proof. apply (sampled_from_sound ex_check_state ex_long_round [] sh_root). vm_compute. reflexivity. Qed.
Lemma long_round_raises : max_raise_edges_per_round ex_long_round = MAX_RAISE_REPEATS + 2.
Proof. vm_compute. reflexivity. Qed.
Lemma long_round_length : max_round_length ex_long_round = MAX_DEPTH_SUBGAME + 5.
Proof. vm_compute. reflexivity. Qed.

Theorem raise_cap_needs_short_rounds :
  ~ (forall h, sampled_history h -> max_raise_edges_per_round h <= MAX_RAISE_REPEATS + 1).
Proof.
  intros H. specialize (H ex_long_round long_round_sampled). rewrite long_round_raises in H.
  unfold MAX_RAISE_REPEATS in H. lia.
Qed.

(* ---------- the original subgame (walk from the root) does not enforce the cap ---------- *)
Lemma subgame_with_fix : forall h, subgame_with SUBGAME_FROM_NODE h = subgame h.
Proof. intros h. reflexivity. Qed.
Lemma n_raises_with_fix : forall h, n_raises_with SUBGAME_FROM_NODE h = n_raises h.
Proof. intros h. reflexivity. Qed.

Definition ex_fix_history : list edge :=
  [ERaise 1 1; ECall; EDraw; ERaise 1 1; ERaise 1 1; ERaise 1 1; ERaise 1 1].

(* the flop round of ex_fix_history already holds MAX_RAISE_REPEATS + 1 raises; the repaired count
   sees all of them, the original one only the pre-flop raise, so that on any flop state the
   raise sizes are still offered *)
Lemma raise_cap_needs_fix_ex :
  n_raises_with false ex_fix_history = 1 /\
  n_raises_with true ex_fix_history = MAX_RAISE_REPEATS + 1 /\
  max_raise_edges_per_round ex_fix_history = MAX_RAISE_REPEATS + 1 /\
  (forall g, street g = 1 ->
     raises g (n_raises_with false ex_fix_history) = FLOP_RAISES /\
     raises g (n_raises_with true ex_fix_history) = []).
Proof.
  split; [vm_compute; reflexivity|]. split; [vm_compute; reflexivity|]. split; [vm_compute; reflexivity|].
  intros g Hg.
  change (n_raises_with false ex_fix_history) with 1.
  change (n_raises_with true ex_fix_history) with 4.
  unfold raises. rewrite Hg. split; reflexivity.
Qed.
