(* Proofs/C07_BucketF32_s02.v -- shard: rows 405 <= sum < 496, every 0 <= won <= sum, by evaluation (check_pair). *)
From Coq Require Import ZArith.
From RP Require Import Model.BucketF32 Proofs.C07_BucketF32_chk.
Open Scope Z_scope.
Lemma block : check_block 405 496 = true.
Proof. vm_compute. reflexivity. Qed.
Lemma rows : forall sum won, 405 <= sum < 496 -> 0 <= won <= sum -> pair_ok won sum.
Proof. exact (check_block_ok 405 496 ltac:(discriminate) block). Qed.
