(* Proofs/C01_Bits.v -- bit-level lemmas linking a 52-bit hand mask to its card list,
   rank counts, rank mask and per-suit rank masks. *)
From Coq Require Import NArith List Bool Lia.
From RP Require Import Base.Bits Gen.GenCards Model.Codec Model.Evaluator Spec.SpecPoker Spec.SpecHand
  Proofs.C01_Lists Proofs.C01_Abs.
Import ListNotations.
Open Scope N_scope.

(* ---------- generic list helpers ---------- *)
Lemma nseq_in : forall m i k, i <= k -> k < i + N.of_nat m -> In k (nseq m i).
Proof.
  induction m as [|m IH]; intros i k H1 H2; [lia|].
  cbn [nseq In]. destruct (N.eq_dec i k) as [->|Hne]; [left; reflexivity|].
  right. apply IH; lia.
Qed.

Lemma forallb_nseq : forall (P : N -> bool) n, forallb P (nseq n 0) = true ->
  forall j, j < N.of_nat n -> P j = true.
Proof.
  intros P n H j Hj. rewrite forallb_forall in H. apply H. apply nseq_in; lia.
Qed.

Lemma in_nseq : forall m i k, In k (nseq m i) -> i <= k /\ k < i + N.of_nat m.
Proof.
  induction m as [|m IH]; intros i k H; [destruct H|].
  cbn [nseq In] in H. destruct H as [<-|H]; [lia|]. apply IH in H. lia.
Qed.

Lemma filter_flat_map : forall (A B : Type) (f : B -> bool) (g : A -> list B) l,
  filter f (flat_map g l) = flat_map (fun x => filter f (g x)) l.
Proof.
  intros A B f g l. induction l as [|x l IH]; [reflexivity|].
  cbn [flat_map]. rewrite filter_app, IH. reflexivity.
Qed.

Lemma map_flat_map : forall (A B C : Type) (f : B -> C) (g : A -> list B) l,
  map f (flat_map g l) = flat_map (fun x => map f (g x)) l.
Proof.
  intros A B C f g l. induction l as [|x l IH]; [reflexivity|].
  cbn [flat_map]. rewrite map_app, IH. reflexivity.
Qed.

Lemma flat_map_ext_in : forall (A B : Type) (f g : A -> list B) l,
  (forall x, In x l -> f x = g x) -> flat_map f l = flat_map g l.
Proof.
  intros A B f g l H. induction l as [|x l IH]; [reflexivity|].
  cbn [flat_map]. rewrite (H x (or_introl eq_refl)), IH; [reflexivity|].
  intros y Hy. apply H. right; exact Hy.
Qed.

Lemma flat_map_if_filter : forall (g : N -> bool) l,
  flat_map (fun r => if g r then [r] else []) l = filter g l.
Proof.
  intros g l. induction l as [|x l IH]; [reflexivity|].
  cbn [flat_map filter]. rewrite IH. destruct (g x); reflexivity.
Qed.

Lemma filter_filter : forall (A : Type) (f g : A -> bool) l,
  filter f (filter g l) = filter (fun x => g x && f x) l.
Proof.
  intros A f g l. induction l as [|x l IH]; [reflexivity|].
  cbn [filter]. destruct (g x); cbn [filter andb]; rewrite IH; reflexivity.
Qed.

Lemma filter_length_mono : forall (A : Type) (f g : A -> bool) l,
  (forall x, In x l -> f x = true -> g x = true) -> (length (filter f l) <= length (filter g l))%nat.
Proof.
  intros A f g l H. induction l as [|x l IH]; [cbn; lia|].
  cbn [filter]. assert (length (filter f l) <= length (filter g l))%nat as IH'.
  { apply IH. intros y Hy. apply H. right; exact Hy. }
  specialize (H x (or_introl eq_refl)).
  destruct (f x); destruct (g x); cbn [length]; try lia.
  all: specialize (H eq_refl); discriminate.
Qed.

(* ---------- bits_from / popcount as filters ---------- *)
Lemma bits_from_filter : forall n i x,
  bits_from n i (N.shiftr x i) = filter (N.testbit x) (nseq n i).
Proof.
  induction n as [|n IH]; intros i x; [reflexivity|].
  cbn [bits_from nseq filter].
  rewrite <- N.bit0_odd, N.shiftr_spec', N.add_0_l.
  rewrite N.div2_spec, N.shiftr_shiftr, IH.
  destruct (N.testbit x i); reflexivity.
Qed.

Lemma set_bits64_filter : forall x, set_bits64 x = filter (N.testbit x) (nseq 64 0).
Proof. intros x. unfold set_bits64. rewrite <- (N.shiftr_0_r x) at 1. apply bits_from_filter. Qed.

Lemma popcount_upto_length : forall n i x, popcount_upto n x = N.of_nat (length (bits_from n i x)).
Proof.
  induction n as [|n IH]; intros i x; [reflexivity|].
  cbn [popcount_upto bits_from]. rewrite app_length, Nat2N.inj_add, <- (IH (i + 1)).
  destruct (N.odd x); reflexivity.
Qed.

Lemma popcount64_length : forall x, popcount64 x = N.of_nat (length (set_bits64 x)).
Proof. intros x. apply popcount_upto_length. Qed.

Lemma set_bits64_land : forall a b, set_bits64 (N.land a b) = filter (N.testbit a) (set_bits64 b).
Proof.
  intros a b. rewrite !set_bits64_filter, filter_filter.
  apply filter_ext. intros i. rewrite N.land_spec. apply andb_comm.
Qed.

Lemma set_bits64_lt : forall x i, In i (set_bits64 x) -> i < 64 /\ N.testbit x i = true.
Proof.
  intros x i H. rewrite set_bits64_filter in H. apply filter_In in H.
  destruct H as [H1 H2]. apply in_nseq in H1. split; [cbn in H1; lia|exact H2].
Qed.

(* ---------- the hand as 16 groups of four card indices ---------- *)
Definition quad (r : N) : list N := [4 * r; 4 * r + 1; 4 * r + 2; 4 * r + 3].
Definition nb (h r : N) : N := N.of_nat (length (filter (N.testbit h) (quad r))).

Lemma nseq64_quads : nseq 64 0 = flat_map quad (nseq 16 0).
Proof. vm_compute. reflexivity. Qed.

Lemma hand_cards_quads : forall h, hand_cards h = flat_map (fun r => filter (N.testbit h) (quad r)) (nseq 16 0).
Proof.
  intros h. unfold hand_cards. rewrite set_bits64_filter, nseq64_quads. apply filter_flat_map.
Qed.

Lemma le12_cases : forall r, r <= 12 ->
  r = 0 \/ r = 1 \/ r = 2 \/ r = 3 \/ r = 4 \/ r = 5 \/ r = 6 \/ r = 7 \/ r = 8 \/ r = 9 \/ r = 10 \/ r = 11 \/ r = 12.
Proof. intros r H. lia. Qed.

Lemma set_bits64_rank_window : forall r, r <= 12 -> set_bits64 (N.shiftl 15 (4 * r)) = quad r.
Proof.
  intros r Hr. apply le12_cases in Hr.
  repeat (destruct Hr as [Hr|Hr]; [subst r; vm_compute; reflexivity|]).
  subst r; vm_compute; reflexivity.
Qed.

Lemma cnt_nb : forall h r, r <= 12 -> cnt h r = nb h r.
Proof.
  intros h r Hr. unfold cnt, nb.
  rewrite popcount64_length, N.land_comm, set_bits64_land, set_bits64_rank_window by exact Hr.
  reflexivity.
Qed.

Lemma nb_le4 : forall h r, nb h r <= 4.
Proof.
  intros h r. unfold nb, quad. cbn [filter].
  repeat match goal with |- context [if ?c then _ else _] => destruct c end; cbn [length]; lia.
Qed.

(* ---------- consequences of h being inside the deck mask ---------- *)
Lemma in_mask_bit : forall d h i, N.land h (hand_mask d) = h ->
  N.testbit h i = true -> N.testbit (hand_mask d) i = true.
Proof.
  intros d h i Hm Hb. rewrite <- Hm, N.land_spec in Hb. apply andb_prop in Hb. apply Hb.
Qed.

Lemma mask_bit_lt52 : forall d i, N.testbit (hand_mask d) i = true -> i < 52.
Proof.
  intros d i H. destruct (N.lt_ge_cases i 52) as [Hlt|Hge]; [exact Hlt|].
  rewrite N.bits_above_log2 in H; [discriminate|].
  apply N.lt_le_trans with (2 := Hge). destruct d; vm_compute; reflexivity.
Qed.

Lemma mask_bit_short : forall i, N.testbit (hand_mask Short) i = true -> 16 <= i.
Proof.
  intros i H. destruct (N.lt_ge_cases i 16) as [Hlt|Hge]; [|exact Hge].
  assert (forallb (fun i => negb (N.testbit (hand_mask Short) i)) (nseq 16 0) = true) as Hc
    by (vm_compute; reflexivity).
  pose proof (forallb_nseq _ _ Hc i Hlt) as Hn. cbv beta in Hn. rewrite H in Hn. discriminate.
Qed.

Lemma hand_bit_lt52 : forall d h i, N.land h (hand_mask d) = h -> N.testbit h i = true -> i < 52.
Proof. intros d h i Hm Hb. apply (mask_bit_lt52 d). apply (in_mask_bit d h i Hm Hb). Qed.

Lemma hand_bit_high_false : forall d h i, N.land h (hand_mask d) = h -> 52 <= i -> N.testbit h i = false.
Proof.
  intros d h i Hm Hi. destruct (N.testbit h i) eqn:Hb; [|reflexivity].
  pose proof (hand_bit_lt52 d h i Hm Hb). lia.
Qed.

Lemma quad_high_empty : forall d h r, N.land h (hand_mask d) = h -> 13 <= r ->
  filter (N.testbit h) (quad r) = [].
Proof.
  intros d h r Hm Hr. unfold quad. cbn [filter].
  rewrite !(hand_bit_high_false d h) by (try exact Hm; lia). reflexivity.
Qed.

Lemma quad_short_empty : forall h r, N.land h (hand_mask Short) = h -> r < 4 ->
  filter (N.testbit h) (quad r) = [].
Proof.
  intros h r Hm Hr. unfold quad. cbn [filter].
  assert (forall i, i < 16 -> N.testbit h i = false) as Hf.
  { intros i Hi. destruct (N.testbit h i) eqn:Hb; [|reflexivity].
    pose proof (mask_bit_short i (in_mask_bit Short h i Hm Hb)). lia. }
  rewrite !Hf by lia. reflexivity.
Qed.

(* ---------- rank list of the hand = expansion of the count vector ---------- *)
Lemma rank_of_quad : forall r k, k < 4 -> rank_of (4 * r + k) = r.
Proof.
  intros r k Hk. unfold rank_of. rewrite N.mul_comm, N.div_add_l by discriminate.
  rewrite N.div_small by exact Hk. lia.
Qed.

Lemma suit_of_quad : forall r k, k < 4 -> suit_of (4 * r + k) = k.
Proof.
  intros r k Hk. unfold suit_of. rewrite N.add_comm, N.mul_comm, N.mod_add by discriminate.
  apply N.mod_small. exact Hk.
Qed.

Lemma ranks_of_quad : forall h r,
  map rank_of (filter (N.testbit h) (quad r)) = repeat r (length (filter (N.testbit h) (quad r))).
Proof.
  intros h r. unfold quad. cbn [filter].
  assert (rank_of (4 * r) = r) as H0 by (rewrite <- (N.add_0_r (4 * r)); apply rank_of_quad; lia).
  repeat match goal with |- context [if ?c then _ else _] => destruct c end;
    cbn [map length repeat]; rewrite ?H0, ?rank_of_quad by lia; reflexivity.
Qed.

Lemma nseq16_split : nseq 16 0 = nseq 13 0 ++ [13; 14; 15].
Proof. reflexivity. Qed.

Lemma flat_map_high_nil : forall (A : Type) (g : N -> list A),
  g 13 = [] -> g 14 = [] -> g 15 = [] -> flat_map g (nseq 16 0) = flat_map g (nseq 13 0).
Proof.
  intros A g H13 H14 H15. rewrite nseq16_split, flat_map_app. cbn [flat_map].
  rewrite H13, H14, H15. cbn [app]. apply app_nil_r.
Qed.

Lemma in_nseq13 : forall r, In r (nseq 13 0) -> r <= 12.
Proof. intros r H. apply in_nseq in H. cbn in H. lia. Qed.

Lemma hand_ranks_expand : forall d h, N.land h (hand_mask d) = h ->
  map rank_of (hand_cards h) = expand (cvec h).
Proof.
  intros d h Hm. rewrite hand_cards_quads, map_flat_map.
  rewrite flat_map_high_nil by (rewrite (quad_high_empty d h) by (try exact Hm; lia); reflexivity).
  unfold expand. apply flat_map_ext_in. intros r Hr. apply in_nseq13 in Hr.
  rewrite ranks_of_quad, nthN_cvec, cnt_nb by exact Hr. unfold nb. rewrite Nat2N.id. reflexivity.
Qed.

Lemma sumN_expand_length : forall (f : N -> N) l,
  N.of_nat (length (flat_map (fun r => repeat r (N.to_nat (f r))) l)) = sumN (map f l).
Proof.
  intros f l. induction l as [|x l IH]; [reflexivity|].
  cbn [flat_map map sumN fold_right]. rewrite app_length, Nat2N.inj_add, repeat_length, N2Nat.id.
  fold (sumN (map f l)). rewrite IH. reflexivity.
Qed.

Lemma cvec_length : forall h, length (cvec h) = 13%nat.
Proof. intros h. unfold cvec. rewrite map_length. apply nseq_length. Qed.

Lemma cvec_sum : forall d h, N.land h (hand_mask d) = h -> sumN (cvec h) = popcount64 h.
Proof.
  intros d h Hm. rewrite popcount64_length. change (set_bits64 h) with (hand_cards h).
  rewrite <- (map_length rank_of), (hand_ranks_expand d h Hm). unfold expand.
  rewrite (flat_map_ext_in _ _ (fun r => repeat r (N.to_nat (nthN (cvec h) r)))
                           (fun r => repeat r (N.to_nat (cnt h r)))).
  - rewrite sumN_expand_length. reflexivity.
  - intros r Hr. apply in_nseq13 in Hr. rewrite nthN_cvec by exact Hr. reflexivity.
Qed.

Lemma cvec_le4 : forall h, Forall (fun x => x <= 4) (cvec h).
Proof.
  intros h. unfold cvec. apply Forall_forall. intros x Hx.
  apply in_map_iff in Hx. destruct Hx as [r [<- Hr]]. apply in_nseq13 in Hr.
  rewrite cnt_nb by exact Hr. apply nb_le4.
Qed.

Lemma cvec_short_low : forall h, N.land h (hand_mask Short) = h -> firstn 4 (cvec h) = [0; 0; 0; 0].
Proof.
  intros h Hm. unfold cvec. cbn [nseq map firstn].
  rewrite !cnt_nb by lia. unfold nb. change (0 + 1) with 1. change (1 + 1) with 2. change (2 + 1) with 3.
  rewrite !(quad_short_empty h) by (try exact Hm; lia). reflexivity.
Qed.

(* ---------- rank_mask, bit by bit ---------- *)
Lemma shiftl1_bit : forall i j, N.testbit (N.shiftl 1 i) j = (i =? j).
Proof. intros i j. rewrite N.shiftl_1_l. apply N.pow2_bits_eqb. Qed.

Lemma mask_of_bits_spec : forall l j, N.testbit (mask_of_bits l) j = existsb (N.eqb j) l.
Proof.
  intros l j. unfold mask_of_bits.
  assert (forall a, N.testbit (fold_left (fun a i => N.lor a (N.shiftl 1 i)) l a) j
                    = N.testbit a j || existsb (N.eqb j) l) as H.
  { induction l as [|x l IH]; intros a; cbn [fold_left existsb]; [rewrite orb_false_r; reflexivity|].
    rewrite IH, N.lor_spec, shiftl1_bit, (N.eqb_sym x j), orb_assoc. reflexivity. }
  rewrite H, N.bits_0. reflexivity.
Qed.

Lemma existsb_eqb_nseq : forall (f : N -> bool) n j,
  existsb (fun i => (i =? j) && f i) (nseq n 0) = (j <? N.of_nat n) && f j.
Proof.
  intros f n j.
  assert (forall m i, existsb (fun i => (i =? j) && f i) (nseq m i)
                      = (i <=? j) && (j <? i + N.of_nat m) && f j) as H.
  { induction m as [|m IH]; intros i; cbn [nseq existsb].
    - destruct (i <=? j) eqn:H1; destruct (j <? i + N.of_nat 0) eqn:H2; try reflexivity.
      apply N.leb_le in H1. apply N.ltb_lt in H2. lia.
    - rewrite IH. destruct (N.eqb_spec i j) as [->|Hne].
      + cbn [andb orb]. destruct (f j).
        * replace (j <=? j) with true by (symmetry; apply N.leb_le; lia).
          replace (j <? j + N.of_nat (S m)) with true by (symmetry; apply N.ltb_lt; lia).
          reflexivity.
        * rewrite !andb_false_r. reflexivity.
      + cbn [andb orb].
        destruct (i + 1 <=? j) eqn:H1; destruct (i <=? j) eqn:H2;
          destruct (j <? i + 1 + N.of_nat m) eqn:H3; destruct (j <? i + N.of_nat (S m)) eqn:H4; try reflexivity;
          rewrite ?N.leb_le, ?N.leb_gt, ?N.ltb_lt, ?N.ltb_ge in *; lia. }
  rewrite H. replace (0 <=? j) with true by (symmetry; apply N.leb_le; lia). reflexivity.
Qed.

Definition any4 (h j : N) : bool :=
  N.testbit h (4 * j) || N.testbit h (4 * j + 1) || N.testbit h (4 * j + 2) || N.testbit h (4 * j + 3).

Lemma rank_mask_spec : forall h j, N.testbit (rank_mask h) j = (j <? 13) && any4 h j.
Proof.
  intros h j. unfold rank_mask.
  set (x := N.land _ 300239975158033).
  assert (forall l a, N.testbit (fold_left (fun y i => N.lor y (N.land (N.shiftr x (3 * i)) (N.shiftl 1 i))) l a) j
                      = N.testbit a j || existsb (fun i => (i =? j) && N.testbit x (4 * i)) l) as H.
  { induction l as [|i l IH]; intros a; cbn [fold_left existsb]; [rewrite orb_false_r; reflexivity|].
    rewrite IH, N.lor_spec, N.land_spec, N.shiftr_spec', shiftl1_bit, orb_assoc.
    f_equal. f_equal. destruct (N.eqb_spec i j) as [->|Hne].
    - rewrite andb_true_r. cbn [andb]. f_equal. lia.
    - rewrite andb_false_r. reflexivity. }
  rewrite H, N.bits_0, orb_false_l, existsb_eqb_nseq. change (N.of_nat 13) with 13.
  destruct (j <? 13) eqn:Hj; [|reflexivity]. cbn [andb]. apply N.ltb_lt in Hj.
  unfold x. rewrite N.land_spec.
  assert (forallb (fun j => N.testbit 300239975158033 (4 * j)) (nseq 13 0) = true) as Hc
    by (vm_compute; reflexivity).
  rewrite (forallb_nseq _ _ Hc j Hj), andb_true_r.
  rewrite !N.lor_spec, !N.shiftr_spec', !N.lor_spec, !N.shiftr_spec'. unfold any4.
  replace (4 * j + 2 + 1) with (4 * j + 3) by lia.
  rewrite <- !orb_assoc. reflexivity.
Qed.

Lemma nb_pos_any4 : forall h j, (0 <? nb h j) = any4 h j.
Proof.
  intros h j. unfold nb, any4, quad. cbn [filter].
  destruct (N.testbit h (4 * j)); destruct (N.testbit h (4 * j + 1));
    destruct (N.testbit h (4 * j + 2)); destruct (N.testbit h (4 * j + 3)); reflexivity.
Qed.

Lemma rmA_spec : forall c j, N.testbit (rmA c) j = (j <? 13) && (0 <? nthN c j).
Proof.
  intros c j. unfold rmA. rewrite mask_of_bits_spec.
  destruct (existsb _ _) eqn:He.
  - apply existsb_exists in He. destruct He as [r [Hr Hj]]. apply N.eqb_eq in Hj. subst r.
    apply filter_In in Hr. destruct Hr as [Hin Hpos]. apply in_nseq13 in Hin.
    rewrite Hpos. replace (j <? 13) with true by (symmetry; apply N.ltb_lt; lia). reflexivity.
  - destruct (j <? 13) eqn:Hj; [|reflexivity]. destruct (0 <? nthN c j) eqn:Hp; [|reflexivity].
    apply N.ltb_lt in Hj. exfalso.
    assert (existsb (N.eqb j) (filter (fun r => 0 <? nthN c r) (nseq 13 0)) = true) as Ht.
    { apply existsb_exists. exists j. split; [|apply N.eqb_refl].
      apply filter_In. split; [|exact Hp].
      apply nseq_in; [lia|]. change (N.of_nat 13) with 13. lia. }
    rewrite Ht in He. discriminate.
Qed.

Theorem rank_mask_rmA : forall h, rank_mask h = rmA (cvec h).
Proof.
  intros h. apply N.bits_inj. intros j. rewrite rank_mask_spec, rmA_spec.
  destruct (j <? 13) eqn:Hj; [|reflexivity]. apply N.ltb_lt in Hj. cbn [andb].
  rewrite nthN_cvec, cnt_nb by lia. symmetry. apply nb_pos_any4.
Qed.

Lemma rank_mask_lt : forall h, rank_mask h < 8192.
Proof.
  intros h. assert (rank_mask h = rank_mask h mod 2 ^ 13) as H.
  { apply N.bits_inj. intros j. destruct (N.lt_ge_cases j 13) as [Hj|Hj].
    - rewrite N.mod_pow2_bits_low by exact Hj. reflexivity.
    - rewrite N.mod_pow2_bits_high by exact Hj. rewrite rank_mask_spec.
      replace (j <? 13) with false by (symmetry; apply N.ltb_ge; exact Hj). reflexivity. }
  rewrite H. apply N.mod_lt. discriminate.
Qed.

(* ---------- suits ---------- *)
Lemma hand_of_suit_bit : forall d h s i, N.land h (hand_mask d) = h ->
  N.testbit (hand_of_suit d h s) i = N.testbit h i && N.testbit (suit_mask s) i.
Proof.
  intros d h s i Hm. unfold hand_of_suit, hand_of_u64. rewrite !N.land_spec.
  destruct (N.testbit h i) eqn:Hb; [|reflexivity].
  rewrite (in_mask_bit d h i Hm Hb), andb_true_r. reflexivity.
Qed.

Lemma suit_mask_bit : forall s j k, s < 4 -> j < 13 -> k < 4 ->
  N.testbit (suit_mask s) (4 * j + k) = (k =? s).
Proof.
  intros s j k Hs Hj Hk.
  assert (forallb (fun s => forallb (fun j => forallb (fun k =>
            Bool.eqb (N.testbit (suit_mask s) (4 * j + k)) (k =? s)) (nseq 4 0)) (nseq 13 0)) (nseq 4 0) = true) as Hc
    by (vm_compute; reflexivity).
  pose proof (forallb_nseq _ _ Hc s Hs) as H1. cbv beta in H1.
  pose proof (forallb_nseq _ _ H1 j Hj) as H2. cbv beta in H2.
  pose proof (forallb_nseq _ _ H2 k Hk) as H3. cbv beta in H3.
  apply Bool.eqb_prop in H3. exact H3.
Qed.

Lemma lt4_cases : forall s, s < 4 -> s = 0 \/ s = 1 \/ s = 2 \/ s = 3.
Proof. intros s H. lia. Qed.

Lemma any4_suit : forall d h s j, N.land h (hand_mask d) = h -> s < 4 -> j < 13 ->
  any4 (hand_of_suit d h s) j = N.testbit h (4 * j + s).
Proof.
  intros d h s j Hm Hs Hj. unfold any4.
  rewrite <- (N.add_0_r (4 * j)) at 1.
  rewrite !(hand_of_suit_bit d h s) by exact Hm.
  rewrite !suit_mask_bit by lia.
  apply lt4_cases in Hs. destruct Hs as [Hs|[Hs|[Hs|Hs]]]; subst s; cbn [N.eqb Pos.eqb];
    rewrite ?andb_false_r, ?andb_true_r, ?orb_false_r, ?orb_false_l; reflexivity.
Qed.

Lemma suit_rank_mask_spec : forall d h s j, N.land h (hand_mask d) = h -> s < 4 ->
  N.testbit (rank_mask (hand_of_suit d h s)) j = (j <? 13) && N.testbit h (4 * j + s).
Proof.
  intros d h s j Hm Hs. rewrite rank_mask_spec.
  destruct (j <? 13) eqn:Hj; [|reflexivity]. apply N.ltb_lt in Hj. cbn [andb].
  apply (any4_suit d); assumption.
Qed.

Lemma rbits_filter : forall m, rbits m = filter (N.testbit m) (nseq 16 0).
Proof. intros m. unfold rbits. rewrite <- (N.shiftr_0_r m) at 1. apply bits_from_filter. Qed.

Lemma suited_quad : forall h r s, s < 4 ->
  map rank_of (suited s (filter (N.testbit h) (quad r))) = if N.testbit h (4 * r + s) then [r] else [].
Proof.
  intros h r s Hs. unfold suited. rewrite filter_filter. unfold quad. cbn [filter].
  assert (suit_of (4 * r) = 0) as H0 by (rewrite <- (N.add_0_r (4 * r)); apply suit_of_quad; lia).
  assert (rank_of (4 * r) = r) as R0 by (rewrite <- (N.add_0_r (4 * r)); apply rank_of_quad; lia).
  rewrite H0, !suit_of_quad by lia.
  apply lt4_cases in Hs. destruct Hs as [Hs|[Hs|[Hs|Hs]]]; subst s; cbn [N.eqb Pos.eqb];
    rewrite ?andb_false_r, ?andb_true_r, ?N.add_0_r;
    match goal with |- context [N.testbit h ?i] => destruct (N.testbit h i) end;
    cbn [map]; rewrite ?R0, ?rank_of_quad by lia; reflexivity.
Qed.

Lemma suited_flat_map : forall s (g : N -> list N) l,
  suited s (flat_map g l) = flat_map (fun x => suited s (g x)) l.
Proof. intros s g l. unfold suited. apply filter_flat_map. Qed.

Theorem suited_ranks : forall d h s, N.land h (hand_mask d) = h -> s < 4 ->
  map rank_of (suited s (hand_cards h)) = rbits (rank_mask (hand_of_suit d h s)).
Proof.
  intros d h s Hm Hs. rewrite hand_cards_quads, suited_flat_map, map_flat_map.
  rewrite (flat_map_ext_in _ _ _ (fun r => if N.testbit h (4 * r + s) then [r] else []))
    by (intros r _; apply suited_quad; exact Hs).
  rewrite flat_map_if_filter, rbits_filter.
  apply filter_ext_in. intros j Hj. apply in_nseq in Hj. cbn in Hj.
  rewrite (suit_rank_mask_spec d h s j Hm Hs).
  destruct (j <? 13) eqn:H13; [reflexivity|]. apply N.ltb_ge in H13.
  cbn [andb]. apply (hand_bit_high_false d h); [exact Hm|lia].
Qed.

Lemma suit_count_length : forall d h s, N.land h (hand_mask d) = h -> s < 4 ->
  popcount64 (N.land h (suit_mask s)) = N.of_nat (length (suited s (hand_cards h))).
Proof.
  intros d h s Hm Hs. rewrite popcount64_length, N.land_comm, set_bits64_land.
  unfold suited, hand_cards. f_equal. f_equal.
  apply filter_ext_in. intros c Hc. apply set_bits64_lt in Hc. destruct Hc as [_ Hb].
  pose proof (hand_bit_lt52 d h c Hm Hb) as H52.
  assert (forallb (fun s => forallb (fun c =>
            Bool.eqb (N.testbit (suit_mask s) c) (suit_of c =? s)) (nseq 52 0)) (nseq 4 0) = true) as Hchk
    by (vm_compute; reflexivity).
  pose proof (forallb_nseq _ _ Hchk s Hs) as H1. cbv beta in H1.
  pose proof (forallb_nseq _ _ H1 c H52) as H2. cbv beta in H2.
  apply Bool.eqb_prop in H2. exact H2.
Qed.

Lemma suited_disjoint : forall s t cs, s <> t ->
  (length (suited s cs) + length (suited t cs) <= length cs)%nat.
Proof.
  intros s t cs Hne. induction cs as [|c cs IH]; [cbn; lia|].
  unfold suited in *. cbn [filter].
  destruct (N.eqb_spec (suit_of c) s) as [H1|H1]; destruct (N.eqb_spec (suit_of c) t) as [H2|H2];
    cbn [length]; try lia.
  all: exfalso; apply Hne; congruence.
Qed.

Lemma suit_ranks_sub : forall d h s, N.land h (hand_mask d) = h -> s < 4 ->
  (length (rbits (rank_mask (hand_of_suit d h s))) <= length (rbits (rank_mask h)))%nat.
Proof.
  intros d h s Hm Hs. rewrite !rbits_filter. apply filter_length_mono.
  intros j _ Hj. rewrite (suit_rank_mask_spec d h s j Hm Hs) in Hj. rewrite rank_mask_spec.
  destruct (j <? 13); [|discriminate]. cbn [andb] in *. unfold any4.
  apply lt4_cases in Hs. destruct Hs as [Hs|[Hs|[Hs|Hs]]]; subst s;
    rewrite ?N.add_0_r in Hj; rewrite Hj, ?orb_true_r; reflexivity.
Qed.
