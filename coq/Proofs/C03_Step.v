(* Proofs/C03_Step.v -- R is preserved by every accepted action, and the potential drops *)
From Coq Require Import ZArith NArith List Bool Lia.
From RP Require Import Base.Bits Gen.GenLib Gen.GenFixes Model.Codec Model.Showdown Model.Game
                       Spec.SpecNLHE Spec.SpecGameInv Spec.SpecRel
                       Proofs.C03_Flat Proofs.C03_Settle Proofs.C03_Sym Proofs.C03_Moves.
Import ListNotations.
Open Scope Z_scope.
Ltac Zify.zify_post_hook ::= Z.div_mod_to_equations.

(* what R says while the player at seat i (Betting, ka behind, ea on the street) is to act *)
Definition CH (d : deck) (i : nat) (so : sstate) (ka ko ea eo pa po : Z) (ca co : N) (pt : Z) (bd : N)
              (t : Z) (aco : bool) (lr : Z) : Prop :=
  (i < 2)%nat /\ t mod 2 = Z.of_nat i /\
  seat_inv Betting ka ea pa /\ seat_inv so ko eo po /\
  pt = pa + po /\ S_BLIND + B_BLIND <= pt /\ pa - ea = po - eo /\ so <> Folding /\
  In (Z.of_N (hand_size bd)) [0; 3; 4; 5] /\ cards_okA i d bd ca co /\
  1 <= t - street_off bd /\ aco = (2 <=? t - street_off bd) /\ ea <= eo /\
  (t - street_off bd = 1 -> lr = 0 /\ eo - ea <= B_BLIND) /\
  (2 <= t - street_off bd -> lr = eo - ea) /\
  is_everyone_alright (GA i Betting so ka ko ea eo pa po ca co pt bd t) = false.

Ltac destructCH H :=
  destruct H as (Hi & Hmod & Hia & Hio & Hpt & Hbl & Hbase & Hso & Hbd & Hcards & Hk & Haco & Hle & Hk1 & Hk2 & Halr);
  pose proof Hia as Hia'; pose proof Hio as Hio';
  destruct Hia' as (Hka & Hsa & Hea & Hepa & Hsha & Hbta);
  destruct Hio' as (Hko & Hso' & Heo & Hepo & Hsho & Hbto);
  pose proof (seat_inv_betting_pos _ _ _ Hia) as Hkapos;
  pose proof blinds_facts as (Hsb0 & Hsbb & Hbst).

Lemma opp_cases : forall so ko eo po ka ea pa,
  seat_inv Betting ka ea pa -> seat_inv so ko eo po -> pa - ea = po - eo -> so <> Folding ->
  (so = Betting /\ 0 < ko) \/ (so = Shoving /\ ko = 0 /\ eo - ea = ka).
Proof.
  intros so ko eo po ka ea pa (Hka & Hsa & Hea & Hepa & Hsha & Hbta) (Hko & Hso' & Heo & Hepo & Hsho & Hbto) Hbase Hso.
  destruct so; [left|right|congruence].
  - split; [reflexivity|]. destruct (Z.eq_dec ko 0) as [Hz|Hz]; [exfalso; apply (Hbto Hz); reflexivity|lia].
  - specialize (Hsho eq_refl). split; [reflexivity|]. lia.
Qed.

Lemma nxt_betting : forall ko p q, 0 < ko -> nxt Betting ko p q = q.
Proof. intros ko p q H. unfold nxt. destruct (Z.eqb_spec ko 0); [lia|reflexivity]. Qed.
Lemma nxt_zero : forall so p q, nxt so 0 p q = p.
Proof. intros so p q. unfold nxt. cbn. rewrite andb_false_r. reflexivity. Qed.

Lemma SA_shoving : forall i so ka ko ea eo pa po ca co bd aca aco lr ta aw ov,
  SA i Betting so ka ko ea eo pa po ca co bd aca aco lr ta aw ov
  = SA i Shoving so ka ko ea eo pa po ca co bd aca aco lr ta aw ov.
Proof. intros. destruct i; reflexivity. Qed.

Section Steps.
Variables (d : deck) (i : nat) (so : sstate) (ka ko ea eo pa po : Z) (ca co : N) (pt : Z) (bd : N)
          (t : Z) (aco : bool) (lr : Z).
Hypothesis HCH : CH d i so ka ko ea eo pa po ca co pt bd t aco lr.
Notation g := (GA i Betting so ka ko ea eo pa po ca co pt bd t).
Notation s := (SA i Betting so ka ko ea eo pa po ca co bd false aco lr i false false).

Lemma step_fold : forall g', 0 < eo - ea ->
  act_unchecked g Fold = Some g' -> R d g' (sact s Fold) /\ potential g' + 1 <= potential g.
Proof.
  intros g' Ho Hact. destructCH HCH.
  cbn [act_unchecked] in Hact. rewrite fold_A in Hact by assumption.
  assert (Hal : is_everyone_alright (GA i Folding so ka ko ea eo pa po ca co pt bd t) = true).
  { rewrite alright_A. destruct so; try congruence; cbn; rewrite orb_true_r; reflexivity. }
  rewrite next_player_A in Hact by (try assumption; rewrite Hal; discriminate).
  rewrite Hal in Hact. injection Hact as <-.
  split.
  - rewrite sact_fold_A by assumption.
    apply R_settle_A; try assumption.
    + repeat split; try assumption; intros; congruence.
    + intros [_ H]. contradiction.
    + intros Hbb. discriminate Hbb.
    + intros H. congruence.
  - rewrite !potential_A. unfold nlive. destruct so; try congruence; cbn; lia.
Qed.

Lemma step_check : forall g', eo = ea ->
  act_unchecked g Check = Some g' -> R d g' (sact s Check) /\ potential g' + 1 <= potential g.
Proof.
  intros g' Ho Hact. destructCH HCH.
  destruct (opp_cases _ _ _ _ _ _ _ Hia Hio Hbase Hso) as [[-> Hkopos]|[-> [-> Hsh]]]; [|lia].
  cbn [act_unchecked] in Hact.
  rewrite next_player_A in Hact by (try assumption; reflexivity).
  rewrite Halr in Hact. injection Hact as <-.
  (* the ticker was not yet above the threshold *)
  assert (Htouch : (2 + street_off bd <? t) = false).
  { rewrite alright_A in Halr. unfold matchedA, shovingA in Halr. cbn in Halr.
    subst eo. replace (Z.max ea ea) with ea in Halr by lia. rewrite Z.eqb_refl in Halr.
    cbn in Halr. rewrite !orb_false_r, andb_true_r in Halr. exact Halr. }
  apply Z.ltb_ge in Htouch.
  split.
  - rewrite sact_check_A by assumption. rewrite nxt_betting by assumption.
    apply R_settle_A; try assumption.
    + intros [Hbb _]. discriminate Hbb.
    + intros _ _ _. rewrite Haco. cbn [andb]. 
      destruct (Z.ltb_spec (2 + street_off bd) (t + 1)), (Z.leb_spec 2 (t - street_off bd)); try reflexivity; lia.
    + intros _ _ Hcl. unfold seat_closed in Hcl. cbn [is_fold sstate_eqb orb andb] in Hcl.
      subst eo. replace (Z.max ea ea) with ea in Hcl by lia. rewrite Z.eqb_refl in Hcl.
      destruct (Z.eqb_spec ka 0); [lia|]. destruct (Z.eqb_spec ko 0); [lia|]. cbn in Hcl.
      rewrite andb_true_r in Hcl.
      split; [lia|]. split; [rewrite mod2_succ, Hmod; two i Hi; reflexivity|].
      right. split; [reflexivity|].
      repeat split; try congruence; try lia.
  - rewrite !potential_A. lia.
Qed.

Lemma step_call : forall g' x, 0 < eo - ea -> eo - ea < ka -> x = eo - ea ->
  act_unchecked g (Call x) = Some g' -> R d g' (sact s (Call x)) /\ potential g' + 1 <= potential g.
Proof.
  intros g' x Ho Hob Hx Hact. destructCH HCH.
  destruct (opp_cases _ _ _ _ _ _ _ Hia Hio Hbase Hso) as [[-> Hkopos]|[-> [-> Hsh]]]; [|lia].
  cbn [act_unchecked] in Hact. rewrite bet_A in Hact by (try assumption; lia).
  destruct (Z.eqb_spec (ka - x) 0) as [Hz|_]; [lia|].
  rewrite next_player_A in Hact by (try assumption; reflexivity).
  injection Hact as <-.
  assert (Hal : is_everyone_alright (GA i Betting Betting (ka - x) ko (ea + x) eo (pa + x) po ca co (pt + x) bd t)
                = (2 + street_off bd <? t)).
  { rewrite alright_A. unfold matchedA, shovingA. cbn.
    replace (ea + x) with eo by lia. replace (Z.max eo eo) with eo by lia. rewrite Z.eqb_refl.
    cbn. rewrite !orb_false_r, andb_true_r. reflexivity. }
  rewrite Hal.
  split.
  - rewrite sact_call_A by assumption. rewrite nxt_betting by assumption.
    apply R_settle_A; try assumption.
    + repeat split; try lia; intros; congruence.
    + lia.
    + lia.
    + lia.
    + intros [Hbb _]. discriminate Hbb.
    + intros _ _ _. rewrite Haco. cbn [andb].
      destruct (Z.ltb_spec (2 + street_off bd) t);
      [ destruct (Z.ltb_spec (2 + street_off bd) t), (Z.leb_spec 2 (t - street_off bd)); try reflexivity; lia
      | destruct (Z.ltb_spec (2 + street_off bd) (t + 1)), (Z.leb_spec 2 (t - street_off bd)); try reflexivity; lia ].
    + intros _ _ Hcl. unfold seat_closed in Hcl. cbn [is_fold sstate_eqb orb andb] in Hcl.
      replace (ea + x) with eo in * by lia. replace (Z.max eo eo) with eo in Hcl by lia. rewrite Z.eqb_refl in Hcl.
      destruct (Z.eqb_spec (ka - x) 0); [lia|]. destruct (Z.eqb_spec ko 0); [lia|]. cbn in Hcl.
      rewrite andb_true_r in Hcl. rewrite Hcl in Haco.
      destruct (Z.leb_spec 2 (t - street_off bd)) as [|Hk']; [discriminate Haco|].
      destruct (Z.ltb_spec (2 + street_off bd) t); [lia|].
      split; [lia|]. split; [rewrite mod2_succ, Hmod; two i Hi; reflexivity|].
      right. split; [reflexivity|].
      repeat split; try congruence; try lia.
  - rewrite !potential_A. destruct (2 + street_off bd <? t); lia.
Qed.

Lemma step_raise : forall g' x, (eo - ea) + Z.max lr B_BLIND <= x -> x <= ka - 1 ->
  act_unchecked g (Raise x) = Some g' -> R d g' (sact s (Raise x)) /\ potential g' + 1 <= potential g.
Proof.
  intros g' x Hlo Hhi Hact. destructCH HCH.
  destruct (opp_cases _ _ _ _ _ _ _ Hia Hio Hbase Hso) as [[-> Hkopos]|[-> [-> Hsh]]]; [|lia].
  cbn [act_unchecked] in Hact. rewrite bet_A in Hact by (try assumption; lia).
  destruct (Z.eqb_spec (ka - x) 0) as [Hz|_]; [lia|].
  rewrite next_player_A in Hact by (try assumption; reflexivity).
  injection Hact as <-.
  assert (Hal : is_everyone_alright (GA i Betting Betting (ka - x) ko (ea + x) eo (pa + x) po ca co (pt + x) bd t)
                = false).
  { rewrite alright_A. unfold matchedA, shovingA. cbn.
    destruct (Z.eqb_spec eo (Z.max (ea + x) eo)); [lia|]. rewrite !andb_false_r. reflexivity. }
  rewrite Hal.
  split.
  - rewrite sact_raise_A by assumption. rewrite nxt_betting by assumption.
    destruct (Z.ltb_spec (eo - ea) x); [|lia].
    apply R_settle_A; try assumption.
    + repeat split; try lia; intros; congruence.
    + lia.
    + lia.
    + lia.
    + intros [Hbb _]. discriminate Hbb.
    + intros _ _ He. lia.
    + intros _ _ _.
      split; [lia|]. split; [rewrite mod2_succ, Hmod; two i Hi; reflexivity|].
      right. split; [reflexivity|].
      repeat split; try congruence; try lia.
  - rewrite !potential_A. lia.
Qed.

Lemma step_shove : forall g' x, x = ka ->
  act_unchecked g (Shove x) = Some g' -> R d g' (sact s (Shove x)) /\ potential g' + 1 <= potential g.
Proof.
  intros g' x Hx Hact. destructCH HCH. subst x.
  cbn [act_unchecked] in Hact. rewrite bet_A in Hact by (try assumption; lia).
  replace (ka - ka) with 0 in * by lia. cbn [Z.eqb] in Hact.
  assert (Hinv : seat_inv Shoving 0 (ea + ka) (pa + ka)).
  { repeat split; try lia; intros; congruence. }
  destruct (opp_cases _ _ _ _ _ _ _ Hia Hio Hbase Hso) as [[-> Hkopos]|[-> [-> Hsh]]].
  - (* the opponent can still act *)
    assert (Hal : is_everyone_alright (GA i Shoving Betting 0 ko (ea + ka) eo (pa + ka) po ca co (pt + ka) bd t)
                  = false).
    { rewrite alright_A. unfold matchedA, shovingA. cbn.
      destruct (Z.eqb_spec eo (Z.max (ea + ka) eo)); [lia|]. rewrite !andb_false_r. reflexivity. }
    rewrite next_player_A in Hact by (try assumption; reflexivity).
    rewrite Hal in Hact. injection Hact as <-.
    split.
    + rewrite sact_shove_A by assumption. rewrite nxt_betting by assumption.
      replace (ka - ka) with 0 by lia.
      destruct (Z.ltb_spec (eo - ea) ka); [|lia].
      rewrite SA_shoving.
      apply R_settle_A; try assumption.
      * lia.
      * lia.
      * lia.
      * intros [Hbb _]. discriminate Hbb.
      * intros Hbb. discriminate Hbb.
      * intros _ _ _.
        split; [lia|]. split; [rewrite mod2_succ, Hmod; two i Hi; reflexivity|].
        right. split; [reflexivity|].
        repeat split; try congruence; try lia.
    + rewrite !potential_A. unfold nlive. cbn [is_fold sstate_eqb]. lia.
  - (* the opponent is all-in: this is a call for the rest *)
    assert (Hal : is_everyone_alright (GA i Shoving Shoving 0 0 (ea + ka) eo (pa + ka) po ca co (pt + ka) bd t)
                  = true).
    { rewrite alright_A. unfold shovingA. cbn. apply orb_true_r. }
    rewrite next_player_A in Hact by (try assumption; rewrite Hal; discriminate).
    rewrite Hal in Hact. injection Hact as <-.
    split.
    + rewrite sact_shove_A by assumption. rewrite nxt_zero.
      replace (ka - ka) with 0 by lia.
      destruct (Z.ltb_spec (eo - ea) ka); [lia|].
      rewrite SA_shoving.
      apply R_settle_A; try assumption.
      * lia.
      * lia.
      * lia.
      * intros [Hbb _]. discriminate Hbb.
      * intros Hbb. discriminate Hbb.
      * intros _ _ Hcl. unfold seat_closed in Hcl. cbn in Hcl. discriminate Hcl.
    + rewrite !potential_A. unfold nlive. cbn [is_fold sstate_eqb]. lia.
Qed.
End Steps.
