(* Proofs/C11_BetF32.v -- binary32 bet = exact floor on the whole reachable range of pots, all grid odds
   (finite reflection; the pot never exceeds N_PLAYERS * STACK by C02_no_overflow). *)
From Coq Require Import ZArith List Lia.
From RP Require Import Gen.GenLib Gen.GenAbstract Model.BetF32.
Import ListNotations.
Open Scope Z_scope.

Definition pots : list Z := map Z.of_nat (seq 0 (S (Z.to_nat (N_PLAYERS * STACK)))).
Lemma all_pots_agree : forallb bet_agrees pots = true.
Proof. vm_compute. reflexivity. Qed.
Lemma in_pots : forall p, 0 <= p <= N_PLAYERS * STACK -> In p pots.
Proof.
  intros p Hp. unfold pots. apply in_map_iff. exists (Z.to_nat p). split; [lia|].
  apply in_seq. lia.
Qed.
Theorem bet_is_floor : forall pot num den,
  0 <= pot <= N_PLAYERS * STACK -> In (num, den) all_odds -> bet_f32 pot num den = pot * num / den.
Proof.
  intros pot num den Hp Ho.
  pose proof (proj1 (forallb_forall _ _) all_pots_agree pot (in_pots pot Hp)) as H.
  unfold bet_agrees in H. pose proof (proj1 (forallb_forall _ _) H (num, den) Ho) as H2.
  apply Z.eqb_eq in H2. exact H2.
Qed.
