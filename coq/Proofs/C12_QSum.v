(* Proofs/C12_QSum.v -- finite sums of rationals (up to Qeq), qabs, prefix sums *)
From Coq Require Import NArith ZArith QArith Qabs List Bool Lia Lqa.
From RP Require Import Model.Emd Spec.SpecTransport.
Import ListNotations.
Local Open Scope Q_scope.

(* ---------- qabs ---------- *)
Lemma qabs_Qabs : forall x, qabs x = Qabs x.
Proof.
  intros [n d]. unfold qabs, Qle_bool, Qabs, Qopp. cbn [Qnum Qden].
  destruct (Z.leb_spec (0 * Z.pos d) (n * 1)) as [H|H].
  - rewrite Z.abs_eq by lia. reflexivity.
  - rewrite Z.abs_neq by lia. reflexivity.
Qed.

Global Instance qabs_wd : Proper (Qeq ==> Qeq) qabs.
Proof. intros x y Hxy. rewrite !qabs_Qabs. now rewrite Hxy. Qed.

Lemma qabs_nonneg : forall x, 0 <= qabs x.
Proof. intros x. rewrite qabs_Qabs. apply Qabs_nonneg. Qed.

Lemma qabs_sym : forall a b, qabs (a - b) == qabs (b - a).
Proof. intros a b. rewrite !qabs_Qabs. rewrite (Qabs_Qminus a b). reflexivity. Qed.

Lemma qabs_triangle3 : forall a b c, qabs (a - c) <= qabs (a - b) + qabs (b - c).
Proof.
  intros a b c. rewrite !qabs_Qabs.
  assert (E : a - c == (a - b) + (b - c)) by ring. rewrite E. apply Qabs_triangle.
Qed.

Lemma qabs_zero_iff : forall x, qabs x == 0 <-> x == 0.
Proof.
  intros x. rewrite qabs_Qabs. split; intros H.
  - destruct (Qlt_le_dec x 0) as [Hn|Hp].
    + rewrite Qabs_neg in H by lra. lra.
    + rewrite Qabs_pos in H by lra. exact H.
  - rewrite H. reflexivity.
Qed.

Lemma qabs_ge : forall x, x <= qabs x.
Proof. intros x. rewrite qabs_Qabs. apply Qle_Qabs. Qed.

Lemma qabs_ge_opp : forall x, - x <= qabs x.
Proof. intros x. rewrite qabs_Qabs. rewrite <- Qabs_opp. apply Qle_Qabs. Qed.

Lemma qabs_pos_eq : forall x, 0 <= x -> qabs x == x.
Proof. intros x H. rewrite qabs_Qabs. now apply Qabs_pos. Qed.

Lemma qabs_neg_eq : forall x, x <= 0 -> qabs x == - x.
Proof. intros x H. rewrite qabs_Qabs. now apply Qabs_neg. Qed.

Lemma qabs_0 : qabs 0 == 0.
Proof. reflexivity. Qed.

(* ---------- qnat ---------- *)
Lemma qnat_S : forall n, qnat (S n) == qnat n + 1.
Proof. intros n. unfold qnat. rewrite Nat2Z.inj_succ, <- Z.add_1_r, inject_Z_plus. reflexivity. Qed.

Lemma qnat_nonneg : forall n, 0 <= qnat n.
Proof. intros n. unfold qnat. change 0 with (inject_Z 0). rewrite <- Zle_Qle. lia. Qed.

Lemma qnat_pos : forall n, (0 < n)%nat -> 0 < qnat n.
Proof. intros n H. unfold qnat. change 0 with (inject_Z 0). rewrite <- Zlt_Qlt. lia. Qed.

Lemma qnat_0 : qnat 0 == 0.
Proof. reflexivity. Qed.

(* ---------- qsum ---------- *)
Lemma qsum_app : forall l1 l2, qsum (l1 ++ l2) == qsum l1 + qsum l2.
Proof.
  induction l1 as [|a l1 IH]; intros l2.
  - change (qsum ([] ++ l2)) with (qsum l2). change (qsum []) with 0. ring.
  - change (qsum ((a :: l1) ++ l2)) with (a + qsum (l1 ++ l2)).
    change (qsum (a :: l1)) with (a + qsum l1). rewrite IH. ring.
Qed.

Lemma qsum_cons : forall a l, qsum (a :: l) = a + qsum l.
Proof. reflexivity. Qed.

Lemma qsum_nonneg : forall l, Forall (fun x => 0 <= x) l -> 0 <= qsum l.
Proof.
  induction l as [|a l IH]; intros H.
  - cbn. lra.
  - rewrite qsum_cons. inversion H as [|? ? Ha Hl]; subst. specialize (IH Hl). lra.
Qed.

Lemma qsum_Forall2 : forall l1 l2, Forall2 Qeq l1 l2 -> qsum l1 == qsum l2.
Proof.
  intros l1 l2 H. induction H as [|a b l1 l2 Hab Hl IH].
  - reflexivity.
  - rewrite !qsum_cons, Hab, IH. reflexivity.
Qed.

(* ---------- qsum_range ---------- *)
Lemma qsum_range_0 : forall a f, qsum_range a 0 f = 0.
Proof. reflexivity. Qed.

Lemma qsum_range_cons : forall a len f, qsum_range a (S len) f = f a + qsum_range (S a) len f.
Proof. reflexivity. Qed.

Lemma qsum_range_snoc : forall len a f, qsum_range a (S len) f == qsum_range a len f + f (a + len)%nat.
Proof.
  intros len a f. unfold qsum_range. rewrite seq_S, map_app, qsum_app. cbn [map qsum fold_right]. ring.
Qed.

Lemma qsum_range_ext : forall len a f g,
  (forall k, (a <= k < a + len)%nat -> f k == g k) -> qsum_range a len f == qsum_range a len g.
Proof.
  induction len as [|len IH]; intros a f g H.
  - reflexivity.
  - rewrite !qsum_range_cons. rewrite (H a) by lia. rewrite (IH (S a) f g).
    + reflexivity.
    + intros k Hk. apply H. lia.
Qed.

Lemma qsum_range_plus : forall len a f g,
  qsum_range a len (fun k => f k + g k) == qsum_range a len f + qsum_range a len g.
Proof.
  induction len as [|len IH]; intros a f g.
  - rewrite !qsum_range_0. ring.
  - rewrite !qsum_range_cons, IH. ring.
Qed.

Lemma qsum_range_minus : forall len a f g,
  qsum_range a len (fun k => f k - g k) == qsum_range a len f - qsum_range a len g.
Proof.
  induction len as [|len IH]; intros a f g.
  - rewrite !qsum_range_0. ring.
  - rewrite !qsum_range_cons, IH. ring.
Qed.

Lemma qsum_range_scal_r : forall len a f c,
  qsum_range a len (fun k => f k * c) == qsum_range a len f * c.
Proof.
  induction len as [|len IH]; intros a f c.
  - rewrite !qsum_range_0. ring.
  - rewrite !qsum_range_cons, IH. ring.
Qed.

Lemma qsum_range_scal_l : forall len a f c,
  qsum_range a len (fun k => c * f k) == c * qsum_range a len f.
Proof.
  induction len as [|len IH]; intros a f c.
  - rewrite !qsum_range_0. ring.
  - rewrite !qsum_range_cons, IH. ring.
Qed.

Lemma qsum_range_zero : forall len a, qsum_range a len (fun _ => 0) == 0.
Proof.
  induction len as [|len IH]; intros a.
  - reflexivity.
  - rewrite qsum_range_cons, IH. ring.
Qed.

Lemma qsum_range_le : forall len a f g,
  (forall k, (a <= k < a + len)%nat -> f k <= g k) -> qsum_range a len f <= qsum_range a len g.
Proof.
  induction len as [|len IH]; intros a f g H.
  - rewrite !qsum_range_0. lra.
  - rewrite !qsum_range_cons.
    assert (H1 : f a <= g a) by (apply H; lia).
    assert (H2 : qsum_range (S a) len f <= qsum_range (S a) len g) by (apply IH; intros k Hk; apply H; lia).
    lra.
Qed.

Lemma qsum_range_nonneg : forall len a f,
  (forall k, (a <= k < a + len)%nat -> 0 <= f k) -> 0 <= qsum_range a len f.
Proof.
  intros len a f H. rewrite <- (qsum_range_zero len a). apply qsum_range_le. exact H.
Qed.

(* a sum of non-negative terms that vanishes has all its terms zero *)
Lemma qsum_range_zero_terms : forall len a f,
  (forall k, (a <= k < a + len)%nat -> 0 <= f k) -> qsum_range a len f == 0 ->
  forall k, (a <= k < a + len)%nat -> f k == 0.
Proof.
  induction len as [|len IH]; intros a f Hnn Hz k Hk.
  - lia.
  - rewrite qsum_range_cons in Hz.
    assert (H1 : 0 <= f a) by (apply Hnn; lia).
    assert (H2 : 0 <= qsum_range (S a) len f) by (apply qsum_range_nonneg; intros j Hj; apply Hnn; lia).
    destruct (Nat.eq_dec k a) as [->|Hne].
    + lra.
    + apply (IH (S a) f).
      * intros j Hj. apply Hnn. lia.
      * lra.
      * lia.
Qed.

Lemma qsum_range_swap : forall n a m b (f : nat -> nat -> Q),
  qsum_range a n (fun i => qsum_range b m (fun j => f i j)) ==
  qsum_range b m (fun j => qsum_range a n (fun i => f i j)).
Proof.
  induction n as [|n IH]; intros a m b f.
  - rewrite qsum_range_0. symmetry. apply (qsum_range_zero m b).
  - rewrite qsum_range_cons, IH.
    rewrite <- qsum_range_plus. apply qsum_range_ext. intros k _.
    rewrite qsum_range_cons. reflexivity.
Qed.

Lemma qsum_range_split : forall l1 l2 a f,
  qsum_range a (l1 + l2) f == qsum_range a l1 f + qsum_range (a + l1) l2 f.
Proof.
  intros l1 l2 a f. unfold qsum_range. rewrite seq_app, map_app, qsum_app. reflexivity.
Qed.

Lemma qsum_range_shift : forall len a f, qsum_range (S a) len f = qsum_range a len (fun k => f (S k)).
Proof.
  intros len a f. unfold qsum_range. rewrite <- seq_shift, map_map. reflexivity.
Qed.

(* sum of an indicator-weighted function: only the indices below the threshold count *)
Lemma qsum_range_indicator_lt : forall n k f, (k <= n)%nat ->
  qsum_range 0 n (fun i => if Nat.ltb i k then f i else 0) == qsum_range 0 k f.
Proof.
  intros n k f Hk. replace n with (k + (n - k))%nat by lia.
  rewrite qsum_range_split.
  rewrite (qsum_range_ext k 0 _ f).
  - rewrite (qsum_range_ext (n - k) (0 + k) _ (fun _ => 0)).
    + rewrite qsum_range_zero. ring.
    + intros i Hi. destruct (Nat.ltb_spec i k) as [H|H]; [lia|reflexivity].
  - intros i Hi. destruct (Nat.ltb_spec i k) as [H|H]; [reflexivity|lia].
Qed.

(* ---------- prefix sums ---------- *)
Lemma prefix_sum_0 : forall xs, prefix_sum xs 0 = 0.
Proof. intros xs. reflexivity. Qed.

Lemma prefix_sum_cons : forall x xs k, prefix_sum (x :: xs) (S k) = x + prefix_sum xs k.
Proof. reflexivity. Qed.

Lemma prefix_sum_nil : forall k, prefix_sum [] k = 0.
Proof. intros [|k]; reflexivity. Qed.

Lemma prefix_sum_S : forall xs k, prefix_sum xs (S k) == prefix_sum xs k + nth k xs 0.
Proof.
  induction xs as [|x xs IH]; intros k.
  - rewrite !prefix_sum_nil. destruct k; cbn [nth]; ring.
  - destruct k as [|k].
    + rewrite prefix_sum_cons, !prefix_sum_0. cbn [nth]. ring.
    + rewrite !prefix_sum_cons, IH. cbn [nth]. ring.
Qed.

Lemma prefix_sum_as_range : forall k xs, prefix_sum xs k == qsum_range 0 k (fun i => nth i xs 0).
Proof.
  induction k as [|k IH]; intros xs.
  - reflexivity.
  - rewrite prefix_sum_S, qsum_range_snoc, IH. reflexivity.
Qed.

Lemma prefix_sum_all : forall xs k, (length xs <= k)%nat -> prefix_sum xs k = qsum xs.
Proof. intros xs k H. unfold prefix_sum. now rewrite firstn_all2. Qed.

Lemma prefix_sum_mono : forall xs, Forall (fun x => 0 <= x) xs ->
  forall j k, (j <= k)%nat -> prefix_sum xs j <= prefix_sum xs k.
Proof.
  intros xs Hnn j k Hjk. induction Hjk as [|k Hjk IH].
  - lra.
  - rewrite prefix_sum_S.
    assert (0 <= nth k xs 0).
    { destruct (Nat.lt_ge_cases k (length xs)) as [Hlt|Hge].
      - rewrite Forall_forall in Hnn. apply Hnn. now apply nth_In.
      - rewrite nth_overflow by exact Hge. lra. }
    lra.
Qed.
