(* Proofs/C09_Policy.v -- property C09: Profile::policy_vector (model policy_vector_Q) never
   aborts, returns a probability distribution, and is regret matching up to the floor eps. *)
From Coq Require Import ZArith QArith Qabs List Bool Lia Lqa.
From RP Require Import Gen.GenLib Gen.GenFixes Model.RegretMatching Spec.C09Spec Proofs.C09_Sums.
Import ListNotations.
Local Open Scope Q_scope.

(* ---------- the generated flag ---------- *)

(* re-checked against the generated value: fails if the Rust divisor is not `.max(1)` any more *)
Lemma flag_true : REGRET_DIVISOR_AT_LEAST_ONE = true.
Proof. reflexivity. Qed.

(* ---------- shape of the result ---------- *)

Definition normalised (fl : list Q) : list Q := map (fun c => c / qsum fl) fl.

Lemma pv_unfold : forall eps t rs,
  policy_vector_Q eps t rs =
  let p := normalised (floored_vec eps t rs) in
  if forallb (fun x => Qle_bool 0 x && Qle_bool x (inject_Z 1)) p then Some p else None.
Proof.
  intros eps t rs. unfold policy_vector_Q, policy_vector. rewrite flag_true.
  destruct (Z.eqb_spec (Z.max t 1) 0) as [E|E]; [lia|]. reflexivity.
Qed.

Lemma floored_ge_eps : forall eps t r, eps <= floored eps t r.
Proof. intros eps t r. unfold floored. apply qmax_ge_r. Qed.

Lemma floored_vec_ge_eps : forall eps t rs c, In c (floored_vec eps t rs) -> eps <= c.
Proof.
  intros eps t rs c Hc. unfold floored_vec in Hc. apply in_map_iff in Hc.
  destruct Hc as [r [E _]]. subst c. apply floored_ge_eps.
Qed.

Lemma floored_sum_pos : forall eps t rs, 0 < eps -> rs <> [] -> 0 < qsum (floored_vec eps t rs).
Proof.
  intros eps t rs He Hne. destruct rs as [|r rs]; [contradiction|].
  apply (qsum_pos _ (floored eps t r)).
  - intros y Hy. apply floored_vec_ge_eps in Hy. lra.
  - unfold floored_vec. cbn [map]. left. reflexivity.
  - pose proof (floored_ge_eps eps t r). lra.
Qed.

(* no abort as soon as the floored values are non-negative and their sum is positive *)
Lemma pv_some : forall eps t rs,
  0 <= eps -> (rs <> [] -> 0 < qsum (floored_vec eps t rs)) ->
  policy_vector_Q eps t rs = Some (normalised (floored_vec eps t rs)).
Proof.
  intros eps t rs He Hs. rewrite pv_unfold. cbv zeta.
  assert (H : forallb (fun x => Qle_bool 0 x && Qle_bool x (inject_Z 1))
                (normalised (floored_vec eps t rs)) = true).
  { apply forallb_forall. intros x Hx. unfold normalised in Hx.
    apply in_map_iff in Hx. destruct Hx as [c [E Hc]]. subst x.
    assert (Hne : rs <> []).
    { intro E. subst rs. destruct Hc. }
    specialize (Hs Hne).
    assert (Hc0 : 0 <= c) by (apply floored_vec_ge_eps in Hc; lra).
    assert (Hcs : c <= qsum (floored_vec eps t rs)).
    { apply qsum_ge_elem; [|exact Hc]. intros y Hy. apply floored_vec_ge_eps in Hy. lra. }
    apply andb_true_intro. split; apply Qle_bool_iff.
    - apply Qle_shift_div_l; [exact Hs | lra].
    - change (inject_Z 1) with 1. apply Qle_shift_div_r; [exact Hs | lra]. }
  rewrite H. reflexivity.
Qed.

Lemma pv_some_pos : forall eps t rs, 0 < eps ->
  policy_vector_Q eps t rs = Some (normalised (floored_vec eps t rs)).
Proof.
  intros eps t rs He. apply pv_some; [lra|]. intros Hne. apply floored_sum_pos; assumption.
Qed.

Lemma pv_inv : forall eps t rs p, 0 < eps ->
  policy_vector_Q eps t rs = Some p -> p = normalised (floored_vec eps t rs).
Proof.
  intros eps t rs p He H. rewrite (pv_some_pos eps t rs He) in H. congruence.
Qed.

Lemma normalised_nth : forall eps t rs a, (a < length rs)%nat ->
  nth a (normalised (floored_vec eps t rs)) 0 =
  floored eps t (nth a rs 0) / qsum (floored_vec eps t rs).
Proof.
  intros eps t rs a Ha. unfold normalised. unfold floored_vec at 2. rewrite map_map.
  rewrite (nth_indep _ 0 (floored eps t 0 / qsum (floored_vec eps t rs))).
  - apply (map_nth (fun r => floored eps t r / qsum (floored_vec eps t rs))).
  - rewrite map_length. exact Ha.
Qed.

(* ---------- C09_no_abort ---------- *)

Lemma no_abort : forall eps t rs, 0 < eps ->
  exists p, policy_vector_Q eps t rs = Some p /\ length p = length rs.
Proof.
  intros eps t rs He. exists (normalised (floored_vec eps t rs)). split.
  - apply pv_some_pos. exact He.
  - unfold normalised, floored_vec. rewrite !map_length. reflexivity.
Qed.

(* ---------- C09_distribution ---------- *)

Lemma distribution : forall eps t rs p, 0 < eps -> rs <> [] ->
  policy_vector_Q eps t rs = Some p ->
  Forall (fun x => 0 < x /\ x <= 1) p /\ fold_left Qplus p 0 == 1.
Proof.
  intros eps t rs p He Hne H. apply pv_inv in H; [|exact He]. subst p.
  pose proof (floored_sum_pos eps t rs He Hne) as Hs.
  split.
  - apply Forall_forall. intros x Hx. unfold normalised in Hx.
    apply in_map_iff in Hx. destruct Hx as [c [E Hc]]. subst x.
    assert (Hc0 : 0 < c) by (apply floored_vec_ge_eps in Hc; lra).
    assert (Hcs : c <= qsum (floored_vec eps t rs)).
    { apply qsum_ge_elem; [|exact Hc]. intros y Hy. apply floored_vec_ge_eps in Hy. lra. }
    split.
    + apply Qlt_shift_div_l; [exact Hs | lra].
    + apply Qle_shift_div_r; [exact Hs | lra].
  - change (qsum (normalised (floored_vec eps t rs)) == 1). unfold normalised.
    rewrite (qsum_map_div Q (fun x => x)), map_id. field. lra.
Qed.

(* ---------- C09_formula ---------- *)

Lemma formula_vec : forall eps t rs p, 0 < eps ->
  policy_vector_Q eps t rs = Some p ->
  p = map (fun r => floored eps t r / qsum (floored_vec eps t rs)) rs.
Proof.
  intros eps t rs p He H. apply pv_inv in H; [|exact He]. subst p.
  unfold normalised. unfold floored_vec at 2. rewrite map_map. reflexivity.
Qed.

Lemma formula : forall eps t rs p a, 0 < eps ->
  policy_vector_Q eps t rs = Some p -> (a < length rs)%nat ->
  nth a p 0 == floored eps t (nth a rs 0) / qsum (floored_vec eps t rs).
Proof.
  intros eps t rs p a He H Ha. apply pv_inv in H; [|exact He]. subst p.
  rewrite normalised_nth by exact Ha. reflexivity.
Qed.

(* ---------- C09_uniform ---------- *)

Lemma uniform : forall eps t rs p a, 0 < eps ->
  (forall r, In r rs -> cum_regret t r <= eps) ->
  policy_vector_Q eps t rs = Some p -> (a < length rs)%nat ->
  nth a p 0 == 1 # Pos.of_nat (length rs).
Proof.
  intros eps t rs p a He Hle H Ha.
  rewrite (formula eps t rs p a He H Ha).
  assert (Hne : rs <> []) by (intro E; subst rs; cbn [length] in Ha; lia).
  assert (Hfl : forall r, In r rs -> floored eps t r = eps).
  { intros r Hr. unfold floored. apply qmax_le_r. apply Hle. exact Hr. }
  rewrite (Hfl (nth a rs 0)) by (apply nth_In; exact Ha).
  assert (Hsum : qsum (floored_vec eps t rs) == qlen rs * eps).
  { unfold floored_vec.
    rewrite (qsum_map_ext Q (floored eps t) (fun _ => eps) rs).
    - apply qsum_map_const.
    - intros r Hr. rewrite (Hfl r Hr). reflexivity. }
  rewrite Hsum. pose proof (qlen_pos rs Hne) as Hn.
  rewrite inv_pos_of_nat by (destruct rs; [contradiction | cbn [length]; lia]).
  fold (qlen rs). field. split; lra.
Qed.

Lemma nonpos_cum_regret : forall t r, r <= 0 -> cum_regret t r <= 0.
Proof.
  intros t r Hr. unfold cum_regret. apply Qle_shift_div_r; [apply divisor_pos | lra].
Qed.

(* regret matching when no regret is positive: the uniform vector *)
Lemma regret_matching_nonpos : forall rs, (forall r, In r rs -> r <= 0) ->
  regret_matching rs = map (fun _ => 1 # Pos.of_nat (length rs)) rs.
Proof.
  intros rs Hle. unfold regret_matching. cbv zeta.
  assert (Hs : Qle_bool (fold_left Qplus (map qpos rs) 0) 0 = true).
  { apply Qle_bool_iff. change (qsum (map qpos rs) <= 0).
    rewrite (qsum_map_ext Q qpos (fun _ => 0) rs).
    - rewrite qsum_map_const. lra.
    - intros r Hr. destruct (qpos_spec r) as [[_ E]|[Hp _]].
      + rewrite E. reflexivity.
      + specialize (Hle r Hr). lra. }
  rewrite Hs. reflexivity.
Qed.

Lemma uniform_no_positive : forall eps t rs p a, 0 < eps ->
  (forall r, In r rs -> r <= 0) ->
  policy_vector_Q eps t rs = Some p -> (a < length rs)%nat ->
  nth a p 0 == 1 # Pos.of_nat (length rs) /\ nth a p 0 == nth a (regret_matching rs) 0.
Proof.
  intros eps t rs p a He Hle H Ha.
  assert (Hu : nth a p 0 == 1 # Pos.of_nat (length rs)).
  { apply (uniform eps t rs p a He); try assumption.
    intros r Hr. pose proof (nonpos_cum_regret t r (Hle r Hr)). lra. }
  split; [exact Hu|]. rewrite Hu, (regret_matching_nonpos rs Hle).
  rewrite (nth_indep _ 0 ((fun _ : Q => 1 # Pos.of_nat (length rs)) 0))
    by (rewrite map_length; exact Ha).
  rewrite (map_nth (fun _ : Q => 1 # Pos.of_nat (length rs)) rs 0 a). reflexivity.
Qed.

(* ---------- C09_proportional ---------- *)

Lemma floor_bounds : forall eps t rs, 0 <= eps ->
  (forall r, qpos (cum_regret t r) <= floored eps t r /\
             floored eps t r <= qpos (cum_regret t r) + eps) /\
  qsum (pos_vec t rs) <= qsum (floored_vec eps t rs) /\
  qsum (floored_vec eps t rs) <= qsum (pos_vec t rs) + qlen rs * eps.
Proof.
  intros eps t rs He. split; [|split].
  - intros r. unfold floored. split; [apply qpos_le_qmax | apply qmax_le_qpos_plus]; exact He.
  - unfold pos_vec, floored_vec. apply qsum_map_le. intros r _.
    unfold floored. apply qpos_le_qmax. exact He.
  - unfold pos_vec, floored_vec, qlen.
    rewrite <- (qsum_map_plus_const Q (fun r => qpos (cum_regret t r)) eps rs).
    apply qsum_map_le. intros r _. unfold floored. apply qmax_le_qpos_plus. exact He.
Qed.

Lemma pos_vec_elem_le : forall t rs a, (a < length rs)%nat ->
  qpos (cum_regret t (nth a rs 0)) <= qsum (pos_vec t rs).
Proof.
  intros t rs a Ha. apply qsum_ge_elem.
  - intros y Hy. unfold pos_vec in Hy. apply in_map_iff in Hy.
    destruct Hy as [r [E _]]. subst y. apply qpos_nonneg.
  - unfold pos_vec. apply (in_map (fun r => qpos (cum_regret t r))). apply nth_In. exact Ha.
Qed.

(* pure arithmetic core of the bound *)
Lemma ratio_bound : forall c C x X n eps,
  0 <= x -> x <= c -> c <= x + eps -> 0 < X -> X <= C -> C <= X + n * eps ->
  x <= X -> 0 <= eps -> 1 <= n ->
  Qabs (c / C - x / X) <= n * eps / X.
Proof.
  intros c C x X n eps Hx0 Hxc Hcx HX HXC HCX HxX He Hn.
  assert (HC : 0 < C) by lra.
  assert (Hne : 0 <= n * eps) by (apply Qmult_le_0_compat; lra).
  assert (Hup : c / C <= (x + n * eps) / X).
  { apply Qdiv_le_cross; [exact HC | exact HX |].
    assert (H1 : c * X <= (x + eps) * X) by (apply Qmult_le_compat_r; lra).
    assert (H2 : (x + eps) * X <= (x + eps) * C).
    { rewrite (Qmult_comm (x + eps) X), (Qmult_comm (x + eps) C).
      apply Qmult_le_compat_r; lra. }
    assert (H3 : (x + eps) * C <= (x + n * eps) * C).
    { apply Qmult_le_compat_r; [|lra].
      assert (1 * eps <= n * eps) by (apply Qmult_le_compat_r; lra). lra. }
    lra. }
  assert (Hlo : (x - n * eps) / X <= c / C).
  { apply Qdiv_le_cross; [exact HX | exact HC |].
    assert (H1 : x * C <= x * (X + n * eps)).
    { rewrite (Qmult_comm x C), (Qmult_comm x (X + n * eps)).
      apply Qmult_le_compat_r; lra. }
    assert (H2 : x * (n * eps) <= C * (n * eps)) by (apply Qmult_le_compat_r; lra).
    assert (H3 : x * X <= c * X) by (apply Qmult_le_compat_r; lra).
    assert (E1 : (x - n * eps) * C == x * C - C * (n * eps)) by ring.
    assert (E2 : x * (X + n * eps) == x * X + x * (n * eps)) by ring.
    lra. }
  assert (E1 : (x + n * eps) / X == x / X + n * eps / X) by (field; lra).
  assert (E2 : (x - n * eps) / X == x / X - n * eps / X) by (field; lra).
  rewrite E1 in Hup. rewrite E2 in Hlo.
  apply Qabs_Qle_condition.
  set (u := c / C) in *. set (v := x / X) in *. set (w := n * eps / X) in *.
  split; lra.
Qed.

Lemma proportional : forall eps t rs p a, 0 < eps ->
  0 < qsum (pos_vec t rs) ->
  policy_vector_Q eps t rs = Some p -> (a < length rs)%nat ->
  Qabs (nth a p 0 - qpos (cum_regret t (nth a rs 0)) / qsum (pos_vec t rs))
    <= qlen rs * eps / qsum (pos_vec t rs).
Proof.
  intros eps t rs p a He HX H Ha.
  rewrite (formula eps t rs p a He H Ha).
  assert (Hne : rs <> []) by (intro E; subst rs; cbn [length] in Ha; lia).
  assert (He0 : 0 <= eps) by lra.
  destruct (floor_bounds eps t rs He0) as [Hb [H1 H2]].
  destruct (Hb (nth a rs 0)) as [Hb1 Hb2].
  apply ratio_bound; try assumption.
  - apply qpos_nonneg.
  - apply pos_vec_elem_le. exact Ha.
  - apply qlen_pos. exact Hne.
Qed.

(* ---------- relation with regret_matching ---------- *)

Lemma pos_vec_sum : forall t rs, qsum (pos_vec t rs) == qsum (map qpos rs) / divisor t.
Proof.
  intros t rs. unfold pos_vec.
  rewrite (qsum_map_ext Q (fun r => qpos (cum_regret t r)) (fun r => qpos r / divisor t) rs).
  - apply qsum_map_div.
  - intros r _. unfold cum_regret. apply qpos_div. apply divisor_pos.
Qed.

Lemma some_positive_sum : forall rs, (exists r, In r rs /\ 0 < r) -> 0 < qsum (map qpos rs).
Proof.
  intros rs [r [Hr Hp]]. apply (qsum_pos _ (qpos r)).
  - intros y Hy. apply in_map_iff in Hy. destruct Hy as [r' [E _]]. subst y. apply qpos_nonneg.
  - apply in_map. exact Hr.
  - pose proof (qpos_ge r). lra.
Qed.

Lemma positive_sum_some : forall rs, 0 < qsum (map qpos rs) -> exists r, In r rs /\ 0 < r.
Proof.
  induction rs as [|r rs IH]; intros H.
  - cbn [map] in H. rewrite qsum_nil in H. lra.
  - cbn [map] in H. rewrite qsum_cons in H.
    destruct (qpos_spec r) as [[_ E]|[Hp _]].
    + rewrite E in H. destruct IH as [r' [Hr' Hp']]; [lra|].
      exists r'. split; [right; exact Hr' | exact Hp'].
    + exists r. split; [left; reflexivity | exact Hp].
Qed.

Lemma some_positive_pos_vec : forall t rs,
  (exists r, In r rs /\ 0 < r) -> 0 < qsum (pos_vec t rs).
Proof.
  intros t rs Hex. rewrite pos_vec_sum.
  apply Qlt_shift_div_l; [apply divisor_pos|]. pose proof (some_positive_sum rs Hex). lra.
Qed.

Lemma regret_matching_nth : forall t rs a, (exists r, In r rs /\ 0 < r) -> (a < length rs)%nat ->
  nth a (regret_matching rs) 0 == qpos (cum_regret t (nth a rs 0)) / qsum (pos_vec t rs).
Proof.
  intros t rs a Hex Ha. pose proof (some_positive_sum rs Hex) as HS.
  unfold regret_matching. cbv zeta.
  assert (Hs : Qle_bool (fold_left Qplus (map qpos rs) 0) 0 = false).
  { destruct (Qle_bool (fold_left Qplus (map qpos rs) 0) 0) eqn:E; [|reflexivity].
    apply Qle_bool_iff in E. change (qsum (map qpos rs) <= 0) in E. lra. }
  rewrite Hs. fold (qsum (map qpos rs)).
  rewrite (nth_indep _ 0 ((fun r => qpos r / qsum (map qpos rs)) 0))
    by (rewrite map_length; exact Ha).
  rewrite (map_nth (fun r => qpos r / qsum (map qpos rs))).
  rewrite pos_vec_sum. unfold cum_regret. rewrite (qpos_div _ _ (divisor_pos t)).
  pose proof (divisor_pos t) as Hd. field. split; lra.
Qed.

Lemma close_to_regret_matching : forall eps t rs p a, 0 < eps ->
  (exists r, In r rs /\ 0 < r) ->
  policy_vector_Q eps t rs = Some p -> (a < length rs)%nat ->
  Qabs (nth a p 0 - nth a (regret_matching rs) 0) <= qlen rs * eps / qsum (pos_vec t rs).
Proof.
  intros eps t rs p a He Hex H Ha.
  rewrite (regret_matching_nth t rs a Hex Ha).
  apply proportional; try assumption. apply some_positive_pos_vec. exact Hex.
Qed.

(* the limit form eps = 0: exactly regret matching when some regret is positive *)
Lemma limit_regret_matching : forall t rs, (exists r, In r rs /\ 0 < r) ->
  exists p, policy_vector_Q 0 t rs = Some p /\ length p = length rs /\
    forall a, (a < length rs)%nat -> nth a p 0 == nth a (regret_matching rs) 0.
Proof.
  intros t rs Hex. exists (normalised (floored_vec 0 t rs)).
  assert (Hfp : floored_vec 0 t rs = pos_vec t rs) by reflexivity.
  split; [|split].
  - apply pv_some; [lra|]. intros _. rewrite Hfp. apply some_positive_pos_vec. exact Hex.
  - unfold normalised, floored_vec. rewrite !map_length. reflexivity.
  - intros a Ha. rewrite normalised_nth by exact Ha.
    rewrite (regret_matching_nth t rs a Hex Ha). rewrite Hfp. reflexivity.
Qed.

(* ---------- C09_scale_invariant ---------- *)

Lemma ratio_scale : forall (f : Q -> Q) (d x : Q) (rs : list Q), 0 < d ->
  (x / d) / qsum (map (fun b => f b / d) rs) == x / qsum (map f rs).
Proof.
  intros f d x rs Hd. rewrite qsum_map_div.
  destruct (Qeq_dec (qsum (map f rs)) 0) as [E|E].
  - rewrite E. assert (E0 : 0 / d == 0) by (field; lra). rewrite E0.
    unfold Qdiv. change (/ 0) with 0. ring.
  - field. split; [exact E | lra].
Qed.

Lemma scale_invariant : forall d1 d2 r rs, 0 < d1 -> 0 < d2 ->
  (r / d1) / qsum (map (fun b => b / d1) rs) == (r / d2) / qsum (map (fun b => b / d2) rs).
Proof.
  intros d1 d2 r rs H1 H2.
  rewrite (ratio_scale (fun b => b) d1 r rs H1), (ratio_scale (fun b => b) d2 r rs H2).
  reflexivity.
Qed.

Lemma scale_invariant_pos : forall d1 d2 r rs, 0 < d1 -> 0 < d2 ->
  qpos (r / d1) / qsum (map (fun b => qpos (b / d1)) rs) ==
  qpos (r / d2) / qsum (map (fun b => qpos (b / d2)) rs).
Proof.
  intros d1 d2 r rs H1 H2.
  assert (E : forall d, 0 < d ->
    qpos (r / d) / qsum (map (fun b => qpos (b / d)) rs) == qpos r / qsum (map qpos rs)).
  { intros d Hd. rewrite (qpos_div r d Hd).
    rewrite (qsum_map_ext Q (fun b => qpos (b / d)) (fun b => qpos b / d) rs)
      by (intros b _; apply qpos_div; exact Hd).
    apply ratio_scale. exact Hd. }
  rewrite (E d1 H1), (E d2 H2). reflexivity.
Qed.

(* the epoch counter version: for t1, t2 >= 1 the divisor is the counter itself *)
Lemma divisor_ge1 : forall t, (1 <= t)%Z -> divisor t = inject_Z t.
Proof. intros t Ht. unfold divisor. rewrite Z.max_l by lia. reflexivity. Qed.

Lemma scale_invariant_epochs : forall t1 t2 r rs,
  cum_regret t1 r / qsum (map (cum_regret t1) rs) ==
  cum_regret t2 r / qsum (map (cum_regret t2) rs).
Proof.
  intros t1 t2 r rs. unfold cum_regret.
  apply scale_invariant; apply divisor_pos.
Qed.

(* ---------- C09_needs_divisor_fix ---------- *)

Lemma policy_vector_with_generated :
  forall F f0 fadd fdiv fle flt of_Z,
  policy_vector_with F f0 fadd fdiv fle flt of_Z REGRET_DIVISOR_AT_LEAST_ONE =
  policy_vector F f0 fadd fdiv fle flt of_Z.
Proof. reflexivity. Qed.

Lemma policy_vector_with_Q_generated :
  policy_vector_with_Q REGRET_DIVISOR_AT_LEAST_ONE = policy_vector_Q.
Proof. reflexivity. Qed.

(* original divisor, fresh profile (t = 0), some positive regret: abort, whatever eps *)
Lemma unfixed_aborts : forall eps rs, (exists r, In r rs /\ 0 < r) ->
  policy_vector_with_Q false eps 0 rs = None.
Proof.
  intros eps rs [r [Hr Hp]]. unfold policy_vector_with_Q, policy_vector_with.
  change ((0 =? 0)%Z) with true. cbv iota.
  assert (H : existsb (fun r0 => Qle_bool 0 r0 && negb (Qeq_bool 0 r0)) rs = true).
  { apply existsb_exists. exists r. split; [exact Hr|].
    apply andb_true_intro. split.
    - apply Qle_bool_iff. lra.
    - destruct (Qeq_bool 0 r) eqn:E; [|reflexivity]. apply Qeq_bool_iff in E. lra. }
  rewrite H. reflexivity.
Qed.

(* the repair changes nothing once an epoch has been played *)
Lemma fix_conservative : forall eps t rs, (1 <= t)%Z ->
  policy_vector_with_Q false eps t rs = policy_vector_Q eps t rs.
Proof.
  intros eps t rs Ht. rewrite <- policy_vector_with_Q_generated. rewrite flag_true.
  unfold policy_vector_with_Q, policy_vector_with. rewrite Z.max_l by lia. reflexivity.
Qed.

(* ... nor at t = 0 when no regret is positive: both are uniform *)
Lemma fix_conservative_t0 : forall eps rs a, 0 < eps -> (forall r, In r rs -> r <= 0) ->
  (a < length rs)%nat ->
  exists p q, policy_vector_with_Q false eps 0 rs = Some p /\ policy_vector_Q eps 0 rs = Some q /\
    nth a p 0 == nth a q 0.
Proof.
  intros eps rs a He Hle Ha.
  destruct (no_abort eps 0 rs He) as [q [Hq _]].
  exists (normalised (map (fun _ => eps) rs)), q.
  assert (Hne : rs <> []) by (intro E; subst rs; cbn [length] in Ha; lia).
  split; [|split].
  - unfold policy_vector_with_Q, policy_vector_with.
    change ((0 =? 0)%Z) with true. cbv iota.
    assert (H : existsb (fun r0 => Qle_bool 0 r0 && negb (Qeq_bool 0 r0)) rs = false).
    { destruct (existsb (fun r0 => Qle_bool 0 r0 && negb (Qeq_bool 0 r0)) rs) eqn:E; [|reflexivity].
      apply existsb_exists in E. destruct E as [r [Hr E]].
      apply andb_true_iff in E. destruct E as [E1 E2].
      apply Qle_bool_iff in E1. specialize (Hle r Hr).
      assert (E3 : Qeq_bool 0 r = true) by (apply Qeq_bool_iff; lra).
      rewrite E3 in E2. discriminate. }
    rewrite H. reflexivity.
  - exact Hq.
  - destruct (uniform_no_positive eps 0 rs q a He Hle Hq Ha) as [Hu _]. rewrite Hu.
    unfold normalised. rewrite map_map.
    rewrite (nth_indep _ 0 ((fun _ : Q => eps / qsum (map (fun _ : Q => eps) rs)) 0))
      by (rewrite map_length; exact Ha).
    rewrite (map_nth (fun _ : Q => eps / qsum (map (fun _ : Q => eps) rs)) rs 0 a).
    rewrite qsum_map_const. pose proof (qlen_pos rs Hne) as Hn.
    rewrite inv_pos_of_nat by (destruct rs; [contradiction | cbn [length]; lia]).
    fold (qlen rs). field. split; lra.
Qed.

(* ---------- C09_clamp ---------- *)

Lemma clamp_ge : forall lo r, lo <= clamp lo r.
Proof.
  intros lo r. unfold clamp. destruct (Qle_bool r lo) eqn:E.
  - lra.
  - apply Qlt_le_weak. apply Qnot_le_lt. intro H. apply Qle_bool_iff in H. congruence.
Qed.

Lemma clamp_id : forall lo r, lo <= r -> clamp lo r == r.
Proof.
  intros lo r H. unfold clamp. destruct (Qle_bool r lo) eqn:E.
  - apply Qle_bool_iff in E. lra.
  - reflexivity.
Qed.

(* ---------- the floor of the code is positive ---------- *)

Lemma policy_min_positive : 0 < fconst_Q POLICY_MIN.
Proof. reflexivity. Qed.
