(* Proofs/C06_Hands.v -- C06 for the hand iterator: HandIterator::from((k, mask)) yields exactly
   [spec_hands d k mask]; the k = 0 finding; counts. *)
From Coq Require Import NArith ZArith List Bool Lia ZifyBool ZifyN ZifyNat Sorted.
From RP Require Import Base.Bits Gen.GenCards Gen.GenStreet Model.Codec Model.Hands Spec.SpecCombs Spec.SpecIter.
From RP Require Import Proofs.BitsLemmas Proofs.C15_Hand Proofs.C06_Cat Proofs.C06_Gosper Proofs.C06_Fuel
  Proofs.C06_Combs Proofs.C06_Iter.
Import ListNotations.
Open Scope N_scope.

Arguments N.add : simpl never.
Arguments N.mul : simpl never.
Arguments N.sub : simpl never.
Arguments N.shiftl : simpl never.
Arguments N.shiftr : simpl never.
Arguments N.land : simpl never.
Arguments N.lor : simpl never.
Arguments N.lxor : simpl never.
Arguments N.pow : simpl never.
Arguments N.testbit : simpl never.

(* ---------- the deck masks, bitwise ---------- *)
Definition in_deck (d : deck) (i : N) : bool :=
  match d with Standard => i <? 52 | Short => (16 <=? i) && (i <? 52) end.

Lemma testbit_hand_mask : forall d i, N.testbit (hand_mask d) i = in_deck d i.
Proof.
  intros [|] i; cbn [hand_mask in_deck].
  - change HAND_MASK_STD with (ones 52). apply testbit_ones.
  - change HAND_MASK_SHORT with (cat 16 0 (ones 36)).
    rewrite testbit_cat by reflexivity.
    destruct (N.ltb_spec i 16) as [H | H].
    + rewrite N.bits_0. destruct (N.leb_spec 16 i) as [H' | _]; [lia | reflexivity].
    + rewrite testbit_ones. destruct (N.leb_spec 16 i) as [_ | H']; [|lia].
      cbn [andb]. destruct (N.ltb_spec (i - 16) 36), (N.ltb_spec i 52); try reflexivity; lia.
Qed.

Lemma in_deck_lt : forall d i, in_deck d i = true -> i < 52.
Proof.
  intros [|] i H; cbn [in_deck] in H.
  - apply N.ltb_lt. exact H.
  - apply andb_true_iff in H. destruct H as [_ H]. apply N.ltb_lt. exact H.
Qed.

Lemma hand_mask_lt : forall d, hand_mask d < 2 ^ 52.
Proof. intros [|]; reflexivity. Qed.

Lemma testbit_iter_mask : forall d mask i,
  N.testbit (iter_mask d mask) i = match d with Standard => N.testbit mask i | Short => N.testbit mask i || (i <? 16) end.
Proof.
  intros [|] mask i; cbn [iter_mask]; [reflexivity|].
  rewrite N.lor_spec. change 65535 with (ones 16). rewrite testbit_ones. reflexivity.
Qed.

Lemma testbit_free : forall d mask i,
  N.testbit (free_cards d mask) i = in_deck d i && negb (N.testbit mask i).
Proof.
  intros d mask i. unfold free_cards.
  rewrite N.land_spec, N.lxor_spec, N.land_spec, testbit_hand_mask.
  destruct (in_deck d i), (N.testbit mask i); reflexivity.
Qed.

Lemma free_cards_lt : forall d mask, free_cards d mask < 2 ^ 52.
Proof. intros d mask. unfold free_cards. apply land_lt_pow2. apply hand_mask_lt. Qed.

Definition wf_mask (d : deck) (mask : N) : Prop := N.land mask (hand_mask d) = mask.

Lemma mask_in_deck : forall d mask, wf_mask d mask -> forall i, N.testbit mask i = true -> in_deck d i = true.
Proof.
  intros d mask Hmask i H. rewrite <- Hmask, N.land_spec, testbit_hand_mask in H.
  apply andb_true_iff in H. tauto.
Qed.

Lemma mask_lt : forall d mask, wf_mask d mask -> mask < 2 ^ 52.
Proof. intros d mask Hmask. rewrite <- Hmask, N.land_comm. apply land_lt_pow2. apply hand_mask_lt. Qed.

Lemma iter_mask_lt : forall d mask, wf_mask d mask -> iter_mask d mask < 2 ^ 52.
Proof.
  intros d mask Hmask. pose proof (mask_lt d mask Hmask) as Hlt.
  destruct d; cbn [iter_mask]; [exact Hlt|].
  apply lor_lt_pow2; [exact Hlt | reflexivity].
Qed.

(* a word lies inside the free cards iff it is below 2^52 and disjoint from the iterator's mask *)
Lemma free_iff : forall d mask z,
  (forall i, N.testbit z i = true -> N.testbit (free_cards d mask) i = true) <->
  (z < 2 ^ 52 /\ N.land z (iter_mask d mask) = 0).
Proof.
  intros d mask z. split.
  - intros H. split.
    + apply lt_pow2_of_bits. intros i Hi. destruct (N.testbit z i) eqn:E; [|reflexivity].
      apply H in E. rewrite testbit_free in E. apply andb_true_iff in E. destruct E as [E _].
      apply in_deck_lt in E. lia.
    + apply N.bits_inj. intros i. rewrite N.land_spec, N.bits_0, testbit_iter_mask.
      destruct (N.testbit z i) eqn:E; [|reflexivity]. cbn [andb].
      apply H in E. rewrite testbit_free in E. apply andb_true_iff in E. destruct E as [E1 E2].
      apply negb_true_iff in E2. rewrite E2.
      destruct d; [reflexivity|]. cbn [in_deck] in E1. cbn [orb].
      destruct (N.leb_spec 16 i) as [H16 | H16]; [|discriminate].
      destruct (N.ltb_spec i 16) as [H' | _]; [lia | reflexivity].
  - intros [Hz Hdis] i Hi.
    assert (Hi52 : i < 52).
    { destruct (N.lt_ge_cases i 52) as [H | H]; [exact H|].
      rewrite (testbit_high_lt z 52 i Hz H) in Hi. discriminate. }
    assert (Hmi : N.testbit (iter_mask d mask) i = false).
    { assert (Hb : N.testbit (N.land z (iter_mask d mask)) i = false) by (rewrite Hdis; apply N.bits_0).
      rewrite N.land_spec, Hi in Hb. exact Hb. }
    rewrite testbit_iter_mask in Hmi. rewrite testbit_free.
    destruct d; cbn [in_deck].
    + rewrite Hmi. destruct (N.ltb_spec i 52) as [_ | H]; [reflexivity | lia].
    + apply orb_false_iff in Hmi. destruct Hmi as [Hm1 Hm2]. rewrite Hm1.
      destruct (N.ltb_spec i 16) as [H | H]; [discriminate|].
      destruct (N.leb_spec 16 i) as [_ | H']; [|lia].
      destruct (N.ltb_spec i 52) as [_ | H']; [reflexivity | lia].
Qed.

Lemma hand_of_u64_free : forall d mask z,
  z < 2 ^ 52 -> N.land z (iter_mask d mask) = 0 -> hand_of_u64 d z = z.
Proof.
  intros d mask z Hz Hdis. unfold hand_of_u64. apply N.bits_inj. intros i.
  rewrite N.land_spec, testbit_hand_mask.
  destruct (N.testbit z i) eqn:E; [|reflexivity]. cbn [andb].
  assert (Hf : N.testbit (free_cards d mask) i = true).
  { apply (proj2 (free_iff d mask z)); [split; assumption | exact E]. }
  rewrite testbit_free in Hf. apply andb_true_iff in Hf. tauto.
Qed.

Definition free_desc (d : deck) (mask : N) : list N := rev (hand_cards (free_cards d mask)).

Lemma free_desc_desc : forall d mask, desc (free_desc d mask).
Proof. intros d mask. unfold free_desc. apply desc_rev. apply hand_cards_sorted. Qed.

Lemma free_desc_in : forall d mask i, In i (free_desc d mask) <-> N.testbit (free_cards d mask) i = true.
Proof.
  intros d mask i. unfold free_desc. rewrite <- in_rev. apply hand_cards_spec.
  apply pow2_52_64. apply free_cards_lt.
Qed.

Lemma spec_hands_in : forall d mask k z,
  In z (spec_hands d k mask) <-> (pc z = N.of_nat k /\ z < 2 ^ 52 /\ N.land z (iter_mask d mask) = 0).
Proof.
  intros d mask k z. unfold spec_hands. fold (free_desc d mask).
  rewrite (combs_of_spec (free_desc d mask) (free_desc_desc d mask) k z).
  unfold bits_in. split.
  - intros [Hb Hp]. split; [exact Hp|]. apply free_iff. intros i Hi. apply free_desc_in. apply Hb. exact Hi.
  - intros (Hp & Hz & Hdis). split; [|exact Hp]. intros i Hi. apply free_desc_in.
    apply (proj2 (free_iff d mask z)); [split; assumption | exact Hi].
Qed.

Lemma spec_hands_sorted : forall d mask k, StronglySorted N.lt (spec_hands d k mask).
Proof. intros d mask k. unfold spec_hands. apply combs_of_sorted. apply free_desc_desc. Qed.

Lemma spec_hands_length : forall d mask k, N.of_nat (length (spec_hands d k mask)) = choose (n_free d mask) k.
Proof.
  intros d mask k. unfold spec_hands. rewrite length_combs_of. unfold n_free. rewrite rev_length. reflexivity.
Qed.

(* ---------- theorem 3 ---------- *)
Lemma hands_enum : forall d mask k, wf_mask d mask -> (1 <= k <= 8)%nat ->
  exists it, hand_iter d (N.of_nat k) mask = Some it /\ hands_all d it (spec_hands d k mask).
Proof.
  intros d mask k Hmask Hk.
  destruct (hands_from_start d (N.of_nat k) (iter_mask d mask) ltac:(lia) ltac:(lia) (iter_mask_lt d mask Hmask)
              (spec_hands d k mask) (spec_hands_sorted d mask k) (spec_hands_in d mask k) (hand_of_u64_free d mask))
    as (x0 & Estart & Hall).
  exists (mkHiter x0 (iter_mask d mask)). split; [|exact Hall].
  unfold hand_iter.
  destruct (N.leb_spec 64 (N.of_nat k)) as [H | _]; [lia|].
  rewrite N.shiftl_1_l. fold (ones (N.of_nat k)). rewrite Estart. reflexivity.
Qed.

(* ---------- theorem 4: k = 0 yields nothing ---------- *)
Lemma hands_k0 : forall d mask, exists it, hand_iter d 0 mask = Some it /\ hand_next d it = Some None.
Proof.
  intros d mask. exists (mkHiter 0 (iter_mask d mask)). split.
  - unfold hand_iter. change (64 <=? 0) with false. cbv iota.
    change (N.shiftl 1 0 - 1) with 0.
    rewrite (repeat_until_stop0 big_fuel (skip_step (iter_mask d mask)) 0 0); [reflexivity|].
    unfold skip_step. rewrite N.land_0_l. reflexivity.
  - reflexivity.
Qed.


Lemma spec_hands_k0 : forall d mask, spec_hands d 0 mask = [0].
Proof.
  intros d mask. unfold spec_hands. induction (rev (hand_cards (free_cards d mask))) as [|c r IH].
  - reflexivity.
  - cbn [combs_of]. rewrite IH. reflexivity.
Qed.

(* ---------- the complete run and hands_take ---------- *)
Lemma hands_all_take : forall d it l, hands_all d it l ->
  forall limit, (length l < limit)%nat -> hands_take limit d it = Some l.
Proof.
  intros d it l H. induction H as [it E | it h it' r E H IH]; intros limit Hl.
  - destruct limit as [|n]; [cbn in Hl; lia|]. cbn [hands_take]. rewrite E. reflexivity.
  - destruct limit as [|n]; [cbn in Hl; lia|]. cbn [hands_take]. rewrite E.
    rewrite (IH n) by (cbn [length] in Hl; lia). reflexivity.
Qed.

Lemma hands_all_take_prefix : forall d it l, hands_all d it l ->
  forall limit, (limit <= length l)%nat -> hands_take limit d it = Some (firstn limit l).
Proof.
  intros d it l H. induction H as [it E | it h it' r E H IH]; intros limit Hl.
  - destruct limit as [|n]; [reflexivity | cbn in Hl; lia].
  - destruct limit as [|n]; [reflexivity|]. cbn [hands_take firstn]. rewrite E.
    rewrite (IH n) by (cbn [length] in Hl; lia). reflexivity.
Qed.

Lemma hands_all_deterministic : forall d it l l', hands_all d it l -> hands_all d it l' -> l = l'.
Proof.
  intros d it l l' H. revert l'. induction H as [it E | it h it' r E H IH]; intros l' H'.
  - inversion H' as [it0 E' | it0 h' it2 r' E' H2]; subst; [reflexivity | congruence].
  - inversion H' as [it0 E' | it0 h' it2 r' E' H2]; subst; [congruence|].
    rewrite E in E'. inversion E'; subst. f_equal. apply IH. exact H2.
Qed.

(* no step of a complete run panics: every call of next returns Some _ *)
Inductive hands_no_crash (d : deck) : hiter -> Prop :=
| hnc_done : forall it, hand_next d it = Some None -> hands_no_crash d it
| hnc_item : forall it h it', hand_next d it = Some (Some (h, it')) -> hands_no_crash d it' -> hands_no_crash d it.

Lemma hands_all_no_crash : forall d it l, hands_all d it l -> hands_no_crash d it.
Proof.
  intros d it l H. induction H as [it E | it h it' r E H IH].
  - apply hnc_done. exact E.
  - eapply hnc_item; eassumption.
Qed.

(* popcount64 and pc agree on the outputs *)
Lemma lt52_lt64 : forall z, z < 2 ^ 52 -> z < 2 ^ 64.
Proof. exact pow2_52_64. Qed.
