(* Proofs/C04_Fair.v -- the payout of Showdown.settle against the rational fair shares of the layered
   specification: simulation of the specification's layer iteration by the algorithm's slices. *)
From Coq Require Import ZArith NArith QArith Qabs Lqa List Bool Lia.
From RP Require Import Model.Showdown Spec.SpecPots Proofs.C04_Lists Proofs.C04_Loop Proofs.C04_Basic
  Proofs.C04_Layers.
Import ListNotations.
Open Scope Z_scope.

Ltac qz := unfold Qlt, Qle, Qeq, Qmult, Qplus, Qminus, Qopp; cbn [Qnum Qden]; lia.

(* ---------- list access ---------- *)
Lemma nth_error_map_inv : forall (A B : Type) (f : A -> B) l i y,
  nth_error (map f l) i = Some y -> exists x, nth_error l i = Some x /\ y = f x.
Proof.
  intros A B f l. induction l as [|a l IH]; intros i y H.
  - destruct i; discriminate.
  - destruct i as [|i]; cbn [map nth_error] in *.
    + injection H as <-. exists a. split; reflexivity.
    + apply IH. exact H.
Qed.

Lemma nth_error_same_length : forall (A B : Type) (l1 : list A) (l2 : list B) i y,
  length l1 = length l2 -> nth_error l2 i = Some y -> exists x, nth_error l1 i = Some x.
Proof.
  intros A B l1 l2 i y Hlen H.
  destruct (nth_error l1 i) as [x|] eqn:E; [exists x; reflexivity|].
  apply nth_error_None in E. assert (nth_error l2 i <> None) as Hn by (rewrite H; discriminate).
  apply nth_error_Some in Hn. lia.
Qed.

Lemma nth_error_combine : forall (A B : Type) (l1 : list A) (l2 : list B) i x y,
  nth_error (combine l1 l2) i = Some (x, y) -> nth_error l1 i = Some x /\ nth_error l2 i = Some y.
Proof.
  intros A B l1. induction l1 as [|a l1 IH]; intros l2 i x y H.
  - destruct i; discriminate.
  - destruct l2 as [|b l2]; [destruct i; discriminate|].
    destruct i as [|i]; cbn [combine nth_error] in *.
    + injection H as <- <-. split; reflexivity.
    + apply IH. exact H.
Qed.

Lemma In_combine_seq : forall (A : Type) (L : list A) s i y,
  In (i, y) (combine (seq s (length L)) L) -> exists j, i = (s + j)%nat /\ nth_error L j = Some y.
Proof.
  intros A L. induction L as [|a L IH]; intros s i y H.
  - destruct H.
  - cbn [length seq combine] in H. destruct H as [H|H].
    + injection H as <- <-. exists O. split; [lia|reflexivity].
    + destruct (IH (S s) i y H) as [j [Hj Hn]]. exists (S j). split; [lia|exact Hn].
Qed.

Lemma nth_error_bump : forall (F : Q * bool -> Q) acc W i a, length acc = length W ->
  nth_error acc i = Some a -> nth_error (map F (combine acc W)) i = Some (F (a, nth i W false)).
Proof.
  intros F acc. induction acc as [|x acc IH]; intros W i a Hlen H.
  - destruct i; discriminate.
  - destruct W as [|w W]; [discriminate|]. cbn [length] in Hlen.
    destruct i as [|i]; cbn [combine map nth_error nth] in *.
    + injection H as <-. reflexivity.
    + apply IH; [lia|exact H].
Qed.

Lemma last_cons : forall (A : Type) (r : list A) (hi lo : A), last (hi :: r) lo = last r hi.
Proof.
  intros A r. induction r as [|y r IH]; intros hi lo; [reflexivity|].
  change (last (hi :: y :: r) lo) with (last (y :: r) lo). rewrite (IH y lo), (IH y hi). reflexivity.
Qed.

(* ---------- winner flags and merged pots ---------- *)
Definition last_flags (prev : option (list bool)) (ws : list (list bool)) : option (list bool) :=
  fold_left (fun _ w => Some w) ws prev.
Definition differs (prev : option (list bool)) (w : list bool) : bool :=
  negb (match prev with Some p => same_flags p w | None => false end).

Lemma runs_cons : forall i prev w r,
  runs i prev (w :: r) = (if nth i w false && differs prev w then 1 else 0) + runs i (Some w) r.
Proof. reflexivity. Qed.

Lemma runs_app : forall i ws1 prev ws2,
  runs i prev (ws1 ++ ws2) = runs i prev ws1 + runs i (last_flags prev ws1) ws2.
Proof.
  intros i ws1. induction ws1 as [|w ws1 IH]; intros prev ws2.
  - cbn [app runs last_flags fold_left]. lia.
  - cbn [app]. rewrite !runs_cons, IH. unfold last_flags. cbn [fold_left]. lia.
Qed.

Lemma last_flags_app : forall ws1 prev ws2, last_flags prev (ws1 ++ ws2) = last_flags (last_flags prev ws1) ws2.
Proof. intros. unfold last_flags. apply fold_left_app. Qed.

Lemma last_flags_repeat : forall W k prev, last_flags prev (repeat W (S k)) = Some W.
Proof.
  intros W k. induction k as [|k IH]; intros prev; [reflexivity|].
  change (repeat W (S (S k))) with (W :: repeat W (S k)). unfold last_flags in *. cbn [fold_left].
  apply IH.
Qed.

Lemma same_flags_refl : forall W, same_flags W W = true.
Proof.
  intros W. unfold same_flags. induction W as [|w W IH]; [reflexivity|].
  cbn [combine forallb fst snd]. rewrite IH. destruct w; reflexivity.
Qed.

Lemma runs_repeat_same : forall i W k, runs i (Some W) (repeat W k) = 0.
Proof.
  intros i W k. induction k as [|k IH]; [reflexivity|].
  cbn [repeat]. rewrite runs_cons, IH. unfold differs. rewrite same_flags_refl. cbn [negb].
  rewrite andb_false_r. reflexivity.
Qed.

Lemma runs_block : forall i prev W k,
  runs i prev (repeat W (S k)) = (if nth i W false && differs prev W then 1 else 0).
Proof. intros. cbn [repeat]. rewrite runs_cons, runs_repeat_same. lia. Qed.

Lemma same_flags_map_diff : forall (f g : pay -> bool) l q,
  In q l -> f q <> g q -> same_flags (map f l) (map g l) = false.
Proof.
  intros f g l q. unfold same_flags. induction l as [|x l IH]; intros Hin Hd; [destruct Hin|].
  cbn [map combine forallb fst snd]. destruct Hin as [->|Hin].
  - destruct (f q), (g q); try reflexivity; exfalso; apply Hd; reflexivity.
  - rewrite (IH Hin Hd). apply andb_false_r.
Qed.

(* ---------- layer chips ---------- *)
Lemma layer_chips_capsum : forall l lo hi, layer_chips l lo hi = capsum l hi - capsum l lo.
Proof.
  intros l lo hi. unfold layer_chips, capsum.
  assert (sumZ (map (fun q => Z.min (risked q) hi) l)
          = sumZ (map (fun p => Z.min (risked p) hi - Z.min (risked p) lo) l)
            + sumZ (map (fun q => Z.min (risked q) lo) l)) as E.
  { rewrite <- sumZ_map_add. apply sumZ_map_ext. intros q _. lia. }
  lia.
Qed.

(* ---------- a block of specification layers with constant winner flags ---------- *)
Lemma fair_from_cons : forall l lo hi r acc won,
  fair_from l lo (hi :: r) acc won =
  fair_from l hi r
    (map (fun ab => if (snd ab : bool)
                    then (fst ab + (layer_chips l lo hi # 1) / (count_true (layer_winners l hi) # 1))%Q
                    else fst ab) (combine acc (layer_winners l hi)))
    (won ++ [(layer_chips l lo hi, layer_winners l hi)]).
Proof. reflexivity. Qed.

Lemma fair_from_block : forall l W n mid lo rest acc won,
  (forall hi, In hi mid -> layer_winners l hi = W) -> count_true W = n -> length acc = length W ->
  exists acc' won',
    fair_from l lo (mid ++ rest) acc won = fair_from l (last mid lo) rest acc' won' /\
    length acc' = length acc /\
    map snd won' = map snd won ++ repeat W (length mid) /\
    forall i a, nth_error acc i = Some a ->
      exists a', nth_error acc' i = Some a' /\
        (a' == a + (if nth i W false then (layer_chips l lo (last mid lo) # 1) / (n # 1) else 0))%Q.
Proof.
  intros l W n mid. induction mid as [|hi r IH]; intros lo rest acc won HW Hn Hlen.
  - exists acc, won. cbn [app last length repeat]. split; [reflexivity|]. split; [reflexivity|].
    split; [rewrite app_nil_r; reflexivity|]. intros i a Ha. exists a. split; [exact Ha|].
    rewrite layer_chips_capsum. replace (capsum l lo - capsum l lo) with 0 by lia.
    destruct (nth i W false); unfold Qdiv; ring.
  - cbn [app]. rewrite fair_from_cons. rewrite (HW hi (or_introl eq_refl)). rewrite Hn.
    set (F := fun ab : Q * bool => if (snd ab : bool) then (fst ab + (layer_chips l lo hi # 1) / (n # 1))%Q else fst ab).
    destruct (IH hi rest (map F (combine acc W)) (won ++ [(layer_chips l lo hi, W)]))
      as [acc' [won' [Hrun [Hlen' [Hwon Hacc]]]]].
    + intros x Hx. apply HW. right. exact Hx.
    + exact Hn.
    + rewrite map_length, combine_length. lia.
    + exists acc', won'. rewrite last_cons. split; [exact Hrun|].
      split; [rewrite Hlen', map_length, combine_length; lia|].
      split.
      * rewrite Hwon, map_app. cbn [map snd length repeat]. rewrite <- app_assoc. reflexivity.
      * intros i a Ha.
        pose proof (nth_error_bump F acc W i a Hlen Ha) as H1.
        destruct (Hacc i _ H1) as [a' [Ha' Heq]]. exists a'. split; [exact Ha'|].
        rewrite Heq. unfold F. cbn [fst snd]. destruct (nth i W false); [|ring].
        rewrite (layer_chips_capsum l lo (last r hi)), (layer_chips_capsum l lo hi),
                (layer_chips_capsum l hi (last r hi)).
        set (c1 := capsum l hi - capsum l lo). set (c2 := capsum l (last r hi) - capsum l hi).
        replace (capsum l (last r hi) - capsum l lo) with (c1 + c2) by (unfold c1, c2; lia).
        assert (((c1 + c2) # 1) == (c1 # 1) + (c2 # 1))%Q as E by qz.
        rewrite E. unfold Qdiv. ring.
Qed.

(* ---------- rational arithmetic of one split ---------- *)
Definition J (r : Z) (a : Q) (k : Z) : Prop :=
  0 <= k /\ (k = 0 -> r = 0 /\ (a == 0)%Q) /\
  (0 < k -> (0 < a)%Q /\ (- (k # 1) < (r # 1) - a)%Q /\ ((r # 1) - a < (k # 1))%Q).

Lemma J_win : forall r a k c n sh bo e a',
  J r a k -> 0 < n -> 0 <= bo < n -> c = n * sh + bo -> 0 < c -> 0 <= e <= 1 -> (bo <= 0 -> e = 0) ->
  (a' == a + (c # 1) / (n # 1))%Q -> J (r + sh + e) a' (k + 1).
Proof.
  intros r a k c n sh bo e a' [Hk [J0 J1]] Hn Hbo Hc Hcpos He He0 Ha'.
  set (x := ((c # 1) / (n # 1))%Q) in *.
  set (y := ((bo # 1) / (n # 1))%Q).
  assert (x == (sh # 1) + y)%Q as Hx.
  { unfold x, y. rewrite Hc. change ((n * sh + bo) # 1)%Q with (inject_Z (n * sh + bo)).
    rewrite inject_Z_plus, inject_Z_mult. unfold inject_Z. field. qz. }
  assert (0 < x)%Q as Hxpos by (unfold x; apply Qlt_shift_div_l; qz).
  assert (0 <= y)%Q as Hy0 by (unfold y; apply Qle_shift_div_l; qz).
  assert (y < 1)%Q as Hy1 by (unfold y; apply Qlt_shift_div_r; qz).
  assert (0 < bo -> (0 < y)%Q) as Hypos by (intros Hb; unfold y; apply Qlt_shift_div_l; qz).
  assert (((r + sh + e) # 1) == (r # 1) + (sh # 1) + (e # 1))%Q as Er by qz.
  assert (((k + 1) # 1) == (k # 1) + 1)%Q as Ek by qz.
  unfold J. split; [lia|]. split; [intros; lia|]. intros _.
  rewrite Er, Ek, Ha'.
  assert (e = 0 \/ (e = 1 /\ 0 < bo)) as [->|[-> Hb]] by lia.
  - destruct (Z.eq_dec k 0) as [Hk0|Hk0].
    + destruct (J0 Hk0) as [-> Ha0]. subst k. rewrite Ha0. repeat split; lra.
    + destruct (J1 ltac:(lia)) as [Ha0 [Hlo Hhi]]. repeat split; lra.
  - specialize (Hypos Hb).
    destruct (Z.eq_dec k 0) as [Hk0|Hk0].
    + destruct (J0 Hk0) as [-> Ha0]. subst k. rewrite Ha0. repeat split; lra.
    + destruct (J1 ltac:(lia)) as [Ha0 [Hlo Hhi]]. repeat split; lra.
Qed.

Lemma J_keep : forall r a k a', J r a k -> (a' == a + 0)%Q -> J r a' k.
Proof.
  intros r a k a' [Hk [J0 J1]] Ha'. unfold J. split; [exact Hk|]. split.
  - intros Hk0. destruct (J0 Hk0) as [Hr Ha]. split; [exact Hr|]. rewrite Ha', Ha. reflexivity.
  - intros Hk1. destruct (J1 Hk1) as [Ha0 [Hlo Hhi]]. rewrite Ha'. repeat split; lra.
Qed.

(* ---------- the simulation invariant ---------- *)
Section Fair.
  Variable l : list pay.
  Hypothesis Hwf : wf_ledger l = true.

  Definition flags_witness (ws : list (list bool)) (D : Z) : Prop :=
    forall W', last_flags None ws = Some W' ->
    exists (g : pay -> bool) q, W' = map g l /\ In q l /\ g q = true /\ risked q <= D.

  Definition Finv (ps : list pay) (D : Z) : Prop :=
    exists acc won,
      fair_layers l = fair_from l D (filter (fun x => D <? x) (levels l)) acc won /\
      length acc = length l /\
      flags_witness (map snd won) D /\
      (forall i p a, nth_error ps i = Some p -> nth_error acc i = Some a ->
                     J (reward p) a (runs i None (map snd won))).

  Lemma Finv_init : Forall (fun p => reward p = 0) l -> Finv l 0.
  Proof.
    intros H0. exists (map (fun _ => 0%Q) l), []. split; [|split; [|split]].
    - unfold fair_layers. f_equal. symmetry. apply filter_all_id.
      intros x Hx. apply levels_In in Hx. apply Z.ltb_lt. lia.
    - apply map_length.
    - intros W' HW. discriminate.
    - intros i p a Hp Ha. apply nth_error_map_inv in Ha. destruct Ha as [_ [_ ->]].
      rewrite Forall_forall in H0. rewrite (H0 p) by (apply nth_error_In in Hp; exact Hp).
      cbn [map runs]. unfold J. split; [lia|]. split; [intros _; split; reflexivity|lia].
  Qed.

  Lemma Finv_step : forall ps D b amt,
    Binv l ps D (Some b) -> Finv ps D -> minZ (map risked (cands ps D b)) = Some amt ->
    Finv (slice_pays ps D amt b) amt.
  Proof.
    intros ps D b amt HB [acc [won [Hrun [Hlen [Hwit Hj]]]]] Hmin.
    pose proof (B_shape _ _ _ _ HB) as Hs.
    pose proof (slice_facts_intro l ps D b amt Hs (B_pos _ _ _ _ HB) Hmin) as SF.
    destruct (slice_layers l ps D b amt _ _ _ _ HB SF) as [Hamt [Hlw Hcnt]].
    assert (slice_pays ps D amt b = give ps (mkSd ps amt D (Some b))
              (Z.quot (slice_chips ps D amt) (Z.of_nat (length (cands ps D b))))
              (Z.rem (slice_chips ps D amt) (Z.of_nat (length (cands ps D b))))) as Esp by reflexivity.
    set (c := slice_chips ps D amt) in *. set (n := Z.of_nat (length (cands ps D b))) in *.
    set (sh := Z.quot c n) in *. set (bo := Z.rem c n) in *.
    destruct SF as [Hlt [q [Hq [Hwq Hrq]]] Hmn Hc Hn Heq Hsh0 Hbo Hcpos].
    destruct (levels_step l D amt Hlt Hamt) as [Hsplit [Hlast [Hne Hmid]]].
    set (W := map (wset D b) l) in *.
    destruct (fair_from_block l W n (mid_levels l D amt) D (filter (fun x => amt <? x) (levels l)) acc won)
      as [acc' [won' [Hrun' [Hlen' [Hwon' Hacc']]]]].
    { intros hi Hhi. apply Hlw. apply Hmid. exact Hhi. }
    { rewrite Hcnt. unfold n. rewrite (cands_length l ps Hs). reflexivity. }
    { rewrite Hlen. unfold W. rewrite map_length. reflexivity. }
    rewrite Hlast in Hrun', Hacc'.
    destruct (length (mid_levels l D amt)) as [|k0] eqn:Hk0.
    { exfalso. apply Hne. destruct (mid_levels l D amt); [reflexivity|discriminate]. }
    exists acc', won'. split; [|split; [|split]].
    - rewrite Hrun, Hsplit. exact Hrun'.
    - lia.
    - intros W' HW'. rewrite Hwon', last_flags_app, last_flags_repeat in HW'. injection HW' as <-.
      exists (wset D b), q. split; [reflexivity|]. split; [exact Hq|]. split; [exact Hwq|lia].
    - intros i p' a' Hp' Ha'. rewrite Esp in Hp'.
      destruct (Forall2_nth_error_r _ _ _ _ _ _ _ (give_Forall2 ps (mkSd ps amt D (Some b)) sh bo) Hp')
        as [p [Hp [Hst [Hno Hyes]]]].
      destruct (nth_error_same_length _ _ acc acc' i a' (eq_sym Hlen') Ha') as [a Ha].
      destruct (Hacc' i a Ha) as [a'' [Ha'' Haeq]]. rewrite Ha' in Ha''. injection Ha'' as <-.
      specialize (Hj i p a Hp Ha).
      assert (nth i W false = wset D b p) as HWi.
      { unfold W. rewrite <- Hs. apply nth_map_strip; [reflexivity|exact Hp]. }
      rewrite HWi in Haeq.
      assert (differs (last_flags None (map snd won)) W = true) as Hdiff.
      { unfold differs. destruct (last_flags None (map snd won)) as [W0|] eqn:HW0; [|reflexivity].
        destruct (Hwit W0 HW0) as [g [q0 [-> [Hq0 [Hg0 Hr0]]]]].
        unfold W. rewrite (same_flags_map_diff g (wset D b) l q0 Hq0); [reflexivity|].
        rewrite Hg0. unfold wset. assert (D <? risked q0 = false) as -> by (apply Z.ltb_ge; lia).
        rewrite andb_false_r. discriminate. }
      rewrite Hwon', runs_app, runs_block, Hdiff, andb_true_r, HWi.
      rewrite is_winner_wset in Hno, Hyes.
      destruct (wset D b p) eqn:Hw.
      + destruct (Hyes eq_refl) as [e [He [He1 He0]]]. rewrite He.
        apply (J_win (reward p) a _ c n sh bo e a'); try assumption; try lia.
        rewrite Haeq. rewrite layer_chips_capsum, <- Hc. reflexivity.
      + rewrite (Hno eq_refl). rewrite Z.add_0_r. apply (J_keep _ a); assumption.
  Qed.

  (* at the end the specification's iteration is over as well *)
  Lemma Finv_final : forall ps D, Finv ps D -> (forall p, In p l -> risked p <= D) ->
    forall i p, nth_error ps i = Some p ->
    forall f, nth_error (fair_share l) i = Some f -> J (reward p) f (pots_won l i).
  Proof.
    intros ps D [acc [won [Hrun [Hlen [Hwit Hj]]]]] Hall i p Hp f Hf.
    assert (filter (fun x => D <? x) (levels l) = []) as E.
    { apply filter_nil_iff. intros x Hx. apply levels_In in Hx. destruct Hx as [_ [p0 [Hp0 [_ Hr]]]].
      specialize (Hall p0 Hp0). apply Z.ltb_ge. lia. }
    rewrite E in Hrun. cbn [fair_from] in Hrun.
    unfold fair_share in Hf. unfold pots_won. rewrite Hrun in *. cbn [fst snd] in *.
    apply (Hj i p f Hp Hf).
  Qed.
End Fair.
