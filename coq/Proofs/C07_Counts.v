(* Proofs/C07_Counts.v -- property C07, part 1: on a well-formed river observation equity_counts is
   defined and its two components are the number of holdings hero beats / does not tie with;
   ranges; the equity lies in [0, 1]. *)
From Coq Require Import NArith ZArith QArith List Bool Lia ZifyBool ZifyN ZifyNat Sorted Permutation.
From RP Require Import Base.Bits Gen.GenCards Model.Codec Model.Evaluator Model.Equity.
From RP Require Import Spec.SpecCodec Spec.SpecIsoWf Spec.SpecCombs Spec.SpecIter Spec.SpecPoker
  Spec.SpecStrength Spec.SpecHand Spec.SpecEquity.
From RP Require Import Proofs.BitsLemmas Proofs.C15_Hand Proofs.C06_Cat Proofs.C06_Hands Proofs.C06_Main
  Proofs.C06_Count.
From RP Require Proofs.C01_Main.
Import ListNotations.
Open Scope N_scope.

Arguments N.add : simpl never.
Arguments N.mul : simpl never.
Arguments N.sub : simpl never.
Arguments N.shiftl : simpl never.
Arguments N.shiftr : simpl never.
Arguments N.land : simpl never.
Arguments N.lor : simpl never.
Arguments N.lxor : simpl never.
Arguments N.pow : simpl never.
Arguments N.testbit : simpl never.

(* ---------- counting with filter ---------- *)
Definition cnt (f : N -> bool) (l : list N) : N := N.of_nat (length (filter f l)).

Lemma cnt_nil : forall f, cnt f [] = 0.
Proof. reflexivity. Qed.

Lemma cnt_cons : forall f x l, cnt f (x :: l) = (if f x then 1 else 0) + cnt f l.
Proof.
  intros f x l. unfold cnt. cbn [filter]. destruct (f x); cbn [length]; lia.
Qed.

Lemma cnt_le_length : forall f l, cnt f l <= N.of_nat (length l).
Proof.
  intros f l. induction l as [|x l IH]; [rewrite cnt_nil; cbn [length]; lia|].
  rewrite cnt_cons. cbn [length]. destruct (f x); lia.
Qed.

Lemma cnt_mono : forall (f g : N -> bool) l, (forall x, In x l -> f x = true -> g x = true) -> cnt f l <= cnt g l.
Proof.
  intros f g l. induction l as [|x l IH]; intros H; [rewrite !cnt_nil; lia|].
  rewrite !cnt_cons.
  assert (IH' : cnt f l <= cnt g l) by (apply IH; intros y Hy; apply H; right; exact Hy).
  pose proof (H x (or_introl eq_refl)) as Hx.
  destruct (f x); destruct (g x); try lia; discriminate (Hx eq_refl).
Qed.

Lemma cnt_ext_in : forall (f g : N -> bool) l, (forall x, In x l -> f x = g x) -> cnt f l = cnt g l.
Proof.
  intros f g l H. unfold cnt. rewrite (filter_ext_in f g l H). reflexivity.
Qed.

Lemma cnt_perm : forall f l l', Permutation l l' -> cnt f l = cnt f l'.
Proof.
  intros f l l' H. unfold cnt. f_equal.
  induction H as [|x l l' _ IH|x y l|l l' l'' _ IH1 _ IH2].
  - reflexivity.
  - cbn [filter]. destruct (f x); cbn [length]; rewrite IH; reflexivity.
  - cbn [filter]. destruct (f x); destruct (f y); reflexivity.
  - rewrite IH1. exact IH2.
Qed.

Lemma cnt_map : forall f (g : N -> N) l, cnt f (map g l) = cnt (fun x => f (g x)) l.
Proof.
  intros f g l. induction l as [|x l IH]; [reflexivity|].
  cbn [map]. rewrite !cnt_cons, IH. reflexivity.
Qed.

(* ---------- the fold of equity_counts is a pair of counts ---------- *)
Definition is_gt (c : comparison) : bool := match c with Gt => true | _ => false end.
Definition is_ne (c : comparison) : bool := match c with Eq => false | _ => true end.

Lemma fold_counts_gen : forall (g : option (N * N) -> N -> option (N * N)) (c : N -> comparison) l,
  (forall v w n, In v l ->
     g (Some (w, n)) v = Some (match c v with Gt => (w + 1, n + 1) | Lt => (w, n + 1) | Eq => (w, n) end)) ->
  forall w n, fold_left g l (Some (w, n))
              = Some (w + cnt (fun v => is_gt (c v)) l, n + cnt (fun v => is_ne (c v)) l).
Proof.
  intros g c l. induction l as [|x l IH]; intros H w n.
  - cbn [fold_left]. rewrite !cnt_nil. f_equal. f_equal; lia.
  - cbn [fold_left]. rewrite (H x w n (or_introl eq_refl)).
    assert (H' : forall v w n, In v l ->
       g (Some (w, n)) v = Some (match c v with Gt => (w + 1, n + 1) | Lt => (w, n + 1) | Eq => (w, n) end))
      by (intros v w' n' Hv; apply H; right; exact Hv).
    rewrite !cnt_cons. destruct (c x); rewrite (IH H'); cbn [is_gt is_ne]; f_equal; f_equal; lia.
Qed.

(* ---------- free cards ---------- *)
Lemma free_sub_iff : forall d m z,
  N.land z (free_cards d m) = z <-> (N.land z (hand_mask d) = z /\ N.land z m = 0).
Proof.
  intros d m z. rewrite !land_sub_iff. split.
  - intros H. split.
    + intros i Hi. specialize (H i Hi). rewrite testbit_free in H. rewrite testbit_hand_mask.
      apply andb_true_iff in H. tauto.
    + apply N.bits_inj. intros i. rewrite N.land_spec, N.bits_0.
      destruct (N.testbit z i) eqn:E; [|reflexivity]. specialize (H i E). rewrite testbit_free in H.
      apply andb_true_iff in H. destruct H as [_ H]. apply negb_true_iff in H. rewrite H. reflexivity.
  - intros [H1 H2] i Hi. rewrite testbit_free. rewrite <- testbit_hand_mask, (H1 i Hi).
    assert (F : N.testbit (N.land z m) i = false) by (rewrite H2; apply N.bits_0).
    rewrite N.land_spec, Hi in F. cbn [andb] in F. rewrite F. reflexivity.
Qed.

Lemma in_mask_lt52 : forall d h, N.land h (hand_mask d) = h -> h < 2 ^ 52.
Proof. intros d h H. apply (mask_lt d h H). Qed.

Lemma land_comm_zero : forall a b, N.land a b = 0 -> N.land b a = 0.
Proof. intros a b H. rewrite N.land_comm. exact H. Qed.

(* a set disjoint from a union is disjoint from each part *)
Lemma land_lor_zero : forall z a b, N.land z (N.lor a b) = 0 -> N.land z a = 0 /\ N.land z b = 0.
Proof.
  intros z a b H. split; apply N.bits_inj; intros i; rewrite N.land_spec, N.bits_0;
  assert (F : N.testbit (N.land z (N.lor a b)) i = false) by (rewrite H; apply N.bits_0);
  rewrite N.land_spec, N.lor_spec in F;
  destruct (N.testbit z i), (N.testbit a i), (N.testbit b i); try reflexivity; discriminate F.
Qed.

Lemma land_lor_zero_inv : forall z a b, N.land z a = 0 -> N.land z b = 0 -> N.land z (N.lor a b) = 0.
Proof.
  intros z a b Ha Hb. rewrite N.land_lor_distr_r, Ha, Hb. reflexivity.
Qed.

Lemma in_mask_lor : forall d a b, N.land a (hand_mask d) = a -> N.land b (hand_mask d) = b ->
  N.land (N.lor a b) (hand_mask d) = N.lor a b.
Proof. intros d a b Ha Hb. apply (wf_mask_lor d a b Ha Hb). Qed.

(* ---------- the hands of a river observation ---------- *)
Record river_ok (d : deck) (o : obs) : Prop := mkRiverOk {
  ro_pk_mask : N.land (pocket o) (hand_mask d) = pocket o;
  ro_pb_mask : N.land (public o) (hand_mask d) = public o;
  ro_disj : N.land (pocket o) (public o) = 0;
  ro_pk_size : hand_size (pocket o) = 2;
  ro_pb_size : hand_size (public o) = 5 }.

Lemma river_ok_of_wf : forall d o, wf_obs_d d o -> hand_size (public o) = 5 -> river_ok d o.
Proof.
  intros d o ((_ & _ & Hdis & Hs2 & _) & Mpk & Mpb) H5. constructor; assumption.
Qed.

Lemma hero_facts : forall d o, river_ok d o ->
  hand_add (pocket o) (public o) = Some (hero_hand o) /\
  N.land (hero_hand o) (hand_mask d) = hero_hand o /\ hand_size (hero_hand o) = 7 /\
  valid_hand d (hero_hand o).
Proof.
  intros d o [Mpk Mpb Hdis Hs2 Hs5]. unfold hero_hand.
  assert (Hm : N.land (N.lor (pocket o) (public o)) (hand_mask d) = N.lor (pocket o) (public o))
    by (apply in_mask_lor; assumption).
  assert (Hs : hand_size (N.lor (pocket o) (public o)) = 7).
  { rewrite hand_size_lor_disjoint; [lia | apply (in_mask_lt52 d); assumption
                                     | apply (in_mask_lt52 d); assumption | exact Hdis]. }
  split; [unfold hand_add; rewrite Hdis; reflexivity|].
  split; [exact Hm|]. split; [exact Hs|].
  unfold valid_hand. unfold hand_size in Hs. rewrite Hs. split; [exact Hm|]. lia.
Qed.

Lemma villain_facts : forall d o v, river_ok d o -> In v (holdings d o) ->
  N.land v (hand_mask d) = v /\ N.land v (hero_hand o) = 0 /\ hand_size v = 2 /\
  hand_add (public o) v = Some (villain_hand o v) /\ valid_hand d (villain_hand o v).
Proof.
  intros d o v Hok Hv. pose proof Hok as [Mpk Mpb Hdis Hs2 Hs5].
  unfold holdings in Hv. apply C06_spec_hands_in in Hv. destruct Hv as [Hp Hf].
  apply free_sub_iff in Hf. destruct Hf as [Mv Hd].
  pose proof Hd as Hd'. unfold hero_hand in Hd'. apply land_lor_zero in Hd'. destruct Hd' as [_ Hdb].
  apply land_comm_zero in Hdb.
  assert (Hm : N.land (N.lor (public o) v) (hand_mask d) = N.lor (public o) v)
    by (apply in_mask_lor; assumption).
  assert (Hs : hand_size (N.lor (public o) v) = 7).
  { rewrite hand_size_lor_disjoint; [unfold hand_size at 2; rewrite Hp, Hs5; reflexivity
                                     | apply (in_mask_lt52 d); assumption
                                     | apply (in_mask_lt52 d); assumption | exact Hdb]. }
  split; [exact Mv|]. split; [exact Hd|]. split; [exact Hp|].
  split; [unfold hand_add, villain_hand; rewrite Hdb; reflexivity|].
  unfold valid_hand, villain_hand. unfold hand_size in Hs. rewrite Hs. split; [exact Hm|]. lia.
Qed.

Lemma valid_strength : forall d h, valid_hand d h -> exists s, strength_of d h = Some s.
Proof.
  intros d h Hv. destruct (C01_Main.strength_is_best5 d h Hv) as (s & Hs & _). exists s. exact Hs.
Qed.

(* every showdown is defined *)
Lemma showdown_defined : forall d o v, river_ok d o -> In v (holdings d o) ->
  exists hero vs, strength_of d (hero_hand o) = Some hero /\ strength_of d (villain_hand o v) = Some vs /\
                  showdown d o v = Some (cmp_strength d hero vs).
Proof.
  intros d o v Hok Hv.
  destruct (hero_facts d o Hok) as (_ & _ & _ & Hvh).
  destruct (villain_facts d o v Hok Hv) as (_ & _ & _ & _ & Hvv).
  destruct (valid_strength d _ Hvh) as (hero & Eh). destruct (valid_strength d _ Hvv) as (vs & Ev).
  exists hero, vs. unfold showdown. rewrite Eh, Ev. repeat split.
Qed.

(* ... and is the rule-book comparison of the two seven-card hands *)
Lemma showdown_spec : forall d o v, river_ok d o -> In v (holdings d o) ->
  showdown d o v = Some (cmp_spec d (hand_cards (hero_hand o)) (hand_cards (villain_hand o v))).
Proof.
  intros d o v Hok Hv.
  destruct (hero_facts d o Hok) as (_ & _ & _ & Hvh).
  destruct (villain_facts d o v Hok Hv) as (_ & _ & _ & _ & Hvv).
  destruct (C01_Main.strength_order d _ _ Hvh Hvv) as (s1 & s2 & E1 & E2 & E).
  unfold showdown. rewrite E1, E2, E. reflexivity.
Qed.

(* ---------- equity_counts as two counts ---------- *)
Lemma equity_counts_eq : forall d o, river_ok d o ->
  equity_counts d o = Some (cnt (hero_wins d o) (holdings d o), cnt (hero_decided d o) (holdings d o)).
Proof.
  intros d o Hok.
  destruct (hero_facts d o Hok) as (Ea & _ & _ & Hvh).
  destruct (valid_strength d _ Hvh) as (hero & Eh).
  unfold equity_counts. rewrite Ea, Eh. fold (holdings d o).
  set (c := fun v => match strength_of d (villain_hand o v) with
                     | Some vs => cmp_strength d hero vs | None => Eq end).
  rewrite (fold_counts_gen _ c).
  - rewrite !N.add_0_l. f_equal. f_equal.
    + apply cnt_ext_in. intros v Hv.
      destruct (showdown_defined d o v Hok Hv) as (h' & vs & Eh' & Ev & Es).
      rewrite Eh in Eh'. injection Eh' as <-.
      unfold hero_wins, c. rewrite Es, Ev. destruct (cmp_strength d hero vs); reflexivity.
    + apply cnt_ext_in. intros v Hv.
      destruct (showdown_defined d o v Hok Hv) as (h' & vs & Eh' & Ev & Es).
      rewrite Eh in Eh'. injection Eh' as <-.
      unfold hero_decided, c. rewrite Es, Ev. destruct (cmp_strength d hero vs); reflexivity.
  - intros v w n Hv.
    destruct (villain_facts d o v Hok Hv) as (_ & _ & _ & Eadd & _).
    destruct (showdown_defined d o v Hok Hv) as (h' & vs & _ & Ev & _).
    rewrite Eadd. unfold c. rewrite Ev. destruct (cmp_strength d hero vs); reflexivity.
Qed.

Lemma holdings_length : forall d o, river_ok d o ->
  N.of_nat (length (holdings d o)) = choose (deck_size d - 7) 2.
Proof.
  intros d o Hok. destruct (hero_facts d o Hok) as (_ & Hm & Hs & _).
  unfold holdings. rewrite C06_hands_count, (n_free_eq d _ Hm), Hs. reflexivity.
Qed.

(* ---------- the theorems ---------- *)
Theorem counts_defined : forall d o, wf_obs_d d o -> hand_size (public o) = 5 ->
  exists w n, equity_counts d o = Some (w, n).
Proof.
  intros d o Hwf H5. eexists. eexists. apply equity_counts_eq. apply river_ok_of_wf; assumption.
Qed.

Theorem counts_meaning : forall d o w n, wf_obs_d d o -> hand_size (public o) = 5 ->
  equity_counts d o = Some (w, n) ->
  w = N.of_nat (length (filter (hero_wins d o) (holdings d o))) /\
  n = N.of_nat (length (filter (hero_decided d o) (holdings d o))) /\
  w <= n /\ n <= N.of_nat (length (holdings d o)) /\
  N.of_nat (length (holdings d o)) = choose (deck_size d - 7) 2.
Proof.
  intros d o w n Hwf H5 E. pose proof (river_ok_of_wf d o Hwf H5) as Hok.
  rewrite (equity_counts_eq d o Hok) in E. injection E as <- <-.
  split; [reflexivity|]. split; [reflexivity|]. split.
  - apply cnt_mono. intros v _. unfold hero_wins, hero_decided.
    destruct (showdown d o v) as [[| |]|]; intros H; try discriminate H; reflexivity.
  - split; [apply cnt_le_length | apply holdings_length; exact Hok].
Qed.

Theorem range_standard : forall o w n, wf_obs_d Standard o -> hand_size (public o) = 5 ->
  equity_counts Standard o = Some (w, n) -> w <= n /\ n <= 990.
Proof.
  intros o w n Hwf H5 E. destruct (counts_meaning Standard o w n Hwf H5 E) as (_ & _ & H1 & H2 & H3).
  split; [exact H1|]. rewrite H3 in H2. exact H2.
Qed.

Theorem range_short : forall o w n, wf_obs_d Short o -> hand_size (public o) = 5 ->
  equity_counts Short o = Some (w, n) -> w <= n /\ n <= 406.
Proof.
  intros o w n Hwf H5 E. destruct (counts_meaning Short o w n Hwf H5 E) as (_ & _ & H1 & H2 & H3).
  split; [exact H1|]. rewrite H3 in H2. exact H2.
Qed.

(* the equity is a probability; no hypothesis on the observation is needed beyond w <= n *)
Theorem equity_unit_le : forall w n, w <= n -> (0 <= equity_Q (w, n) <= 1)%Q.
Proof.
  intros w n Hwn. unfold equity_Q. cbn [fst snd].
  destruct (N.eqb_spec n 0) as [E | E].
  - split; unfold Qle; cbn; lia.
  - unfold Qle. cbn [Qnum Qden]. rewrite !Z.mul_1_r, Z.mul_1_l.
    assert (Hp : Z.pos (Pos.of_nat (N.to_nat n)) = Z.of_N n).
    { destruct n as [|q]; [contradiction E; reflexivity|].
      rewrite positive_N_nat, Pos2Nat.id. reflexivity. }
    rewrite Hp. split; lia.
Qed.

Theorem equity_unit : forall d o w n, wf_obs_d d o -> hand_size (public o) = 5 ->
  equity_counts d o = Some (w, n) -> (0 <= equity_Q (w, n) <= 1)%Q.
Proof.
  intros d o w n Hwf H5 E. apply equity_unit_le.
  apply (counts_meaning d o w n Hwf H5 E).
Qed.

Theorem showdown_spec_wf : forall d o v, wf_obs_d d o -> hand_size (public o) = 5 -> In v (holdings d o) ->
  showdown d o v = Some (cmp_spec d (hand_cards (hero_hand o)) (hand_cards (villain_hand o v))).
Proof.
  intros d o v Hwf H5. apply showdown_spec. apply river_ok_of_wf; assumption.
Qed.
