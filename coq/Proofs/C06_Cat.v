(* Proofs/C06_Cat.v -- tools for property C06: an untruncated popcount [pc], bit-field concatenation
   [cat n lo hi = lo + 2^n * hi] with its bitwise / arithmetic / popcount / order lemmas. *)
From Coq Require Import NArith ZArith List Bool Lia ZifyBool ZifyN ZifyNat Sorted.
From RP Require Import Base.Bits Proofs.BitsLemmas.
Import ListNotations.
Open Scope N_scope.

Arguments N.add : simpl never.
Arguments N.mul : simpl never.
Arguments N.sub : simpl never.
Arguments N.shiftl : simpl never.
Arguments N.shiftr : simpl never.
Arguments N.land : simpl never.
Arguments N.lor : simpl never.
Arguments N.lxor : simpl never.
Arguments N.pow : simpl never.
Arguments N.testbit : simpl never.

(* ---------- powers of two ---------- *)
Lemma pow2_pos : forall n, 0 < 2 ^ n.
Proof. intros n. apply N.neq_0_lt_0, N.pow_nonzero. discriminate. Qed.

Lemma pow2_succ : forall n, 2 ^ (n + 1) = 2 * 2 ^ n.
Proof. intros n. rewrite N.add_1_r. apply N.pow_succ_r'. Qed.

Lemma pow2_le : forall n m, n <= m -> 2 ^ n <= 2 ^ m.
Proof. intros n m H. apply N.pow_le_mono_r; [discriminate | exact H]. Qed.

Lemma pow2_lt : forall n m, n < m -> 2 ^ n < 2 ^ m.
Proof. intros n m H. apply N.pow_lt_mono_r; [reflexivity | exact H]. Qed.

Lemma pow2_lt_inv : forall n m, 2 ^ n < 2 ^ m -> n < m.
Proof. intros n m H. apply (N.pow_lt_mono_r_iff 2); [reflexivity | exact H]. Qed.

(* ---------- untruncated popcount ---------- *)
Fixpoint ppc (p : positive) : N :=
  match p with xH => 1 | xO q => ppc q | xI q => 1 + ppc q end.
Definition pc (n : N) : N := match n with 0 => 0 | Npos p => ppc p end.

Lemma ppc_pos : forall p, 0 < ppc p.
Proof. induction p as [q IH | q IH |]; cbn [ppc]; lia. Qed.

Lemma pc_pos : forall x, 0 < x -> 0 < pc x.
Proof. intros [|p] H; [lia | apply ppc_pos]. Qed.

Lemma pc_0 : pc 0 = 0. Proof. reflexivity. Qed.
Lemma pc_1 : pc 1 = 1. Proof. reflexivity. Qed.

Lemma pc_zero_iff : forall x, pc x = 0 <-> x = 0.
Proof.
  intros x. split; intros H; [|subst x; reflexivity].
  destruct (N.eq_dec x 0) as [E | NE]; [exact E|].
  assert (Hp : 0 < pc x) by (apply pc_pos; lia). lia.
Qed.

Lemma pc_bit_add : forall b m, b < 2 -> pc (b + 2 * m) = b + pc m.
Proof.
  intros b m Hb.
  assert (Hc : b = 0 \/ b = 1) by lia.
  destruct Hc as [E | E]; subst b.
  - rewrite !N.add_0_l. destruct m as [|p]; reflexivity.
  - destruct m as [|p]; reflexivity.
Qed.

Lemma pc_odd_div2 : forall x, pc x = (if N.odd x then 1 else 0) + pc (N.div2 x).
Proof. intros [|[p|p|]]; reflexivity. Qed.

Lemma div2_lt_pow2 : forall n x, x < 2 ^ (n + 1) -> N.div2 x < 2 ^ n.
Proof.
  intros n x H. rewrite pow2_succ in H. rewrite N.div2_div.
  apply N.div_lt_upper_bound; [discriminate | exact H].
Qed.

Lemma popcount_upto_pc : forall n x, x < 2 ^ N.of_nat n -> popcount_upto n x = pc x.
Proof.
  induction n as [|n IH]; intros x Hx.
  - change (2 ^ N.of_nat 0) with 1 in Hx. assert (x = 0) by lia. subst x. reflexivity.
  - cbn [popcount_upto]. rewrite (pc_odd_div2 x). f_equal. apply IH.
    apply div2_lt_pow2. replace (N.of_nat n + 1) with (N.of_nat (S n)) by lia. exact Hx.
Qed.

Lemma popcount64_pc : forall x, x < 2 ^ 64 -> popcount64 x = pc x.
Proof. intros x Hx. apply (popcount_upto_pc 64). exact Hx. Qed.

(* ---------- ones ---------- *)
Definition ones (n : N) : N := 2 ^ n - 1.

Lemma ones_N_ones : forall n, ones n = N.ones n.
Proof. intros n. unfold ones. rewrite N.ones_equiv, N.sub_1_r. reflexivity. Qed.

Lemma ones_lt : forall n, ones n < 2 ^ n.
Proof. intros n. unfold ones. pose proof (pow2_pos n). lia. Qed.

Lemma ones_succ : forall n, ones n + 1 = 2 ^ n.
Proof. intros n. unfold ones. pose proof (pow2_pos n). lia. Qed.

Lemma ones_0 : ones 0 = 0. Proof. reflexivity. Qed.

Lemma testbit_ones : forall n k, N.testbit (ones n) k = (k <? n).
Proof.
  intros n k. rewrite ones_N_ones.
  destruct (N.ltb_spec k n) as [H | H].
  - apply N.ones_spec_low. exact H.
  - apply N.ones_spec_high. exact H.
Qed.

Lemma ones64_ones : 18446744073709551615 = ones 64.
Proof. reflexivity. Qed.

(* ---------- cat ---------- *)
Definition cat (n lo hi : N) : N := lo + 2 ^ n * hi.

Lemma cat_lor : forall n lo hi, lo < 2 ^ n -> cat n lo hi = N.lor lo (N.shiftl hi n).
Proof. intros n lo hi H. rewrite lor_shiftl_add by exact H. unfold cat. lia. Qed.

Lemma testbit_cat : forall n lo hi k, lo < 2 ^ n ->
  N.testbit (cat n lo hi) k = if k <? n then N.testbit lo k else N.testbit hi (k - n).
Proof.
  intros n lo hi k H. rewrite cat_lor by exact H. rewrite N.lor_spec.
  destruct (N.ltb_spec k n) as [Hk | Hk].
  - rewrite N.shiftl_spec_low by exact Hk. apply orb_false_r.
  - rewrite (testbit_high_lt lo n k H Hk). rewrite N.shiftl_spec_high' by exact Hk. reflexivity.
Qed.

Lemma cat_0_r : forall n lo, cat n lo 0 = lo.
Proof. intros n lo. unfold cat. lia. Qed.

Lemma cat_0_0 : forall lo hi, cat 0 lo hi = lo + hi.
Proof. intros lo hi. unfold cat. change (2 ^ 0) with 1. lia. Qed.

Lemma cat_div : forall n lo hi, lo < 2 ^ n -> cat n lo hi / 2 ^ n = hi.
Proof.
  intros n lo hi H. unfold cat. pose proof (pow2_pos n) as Hp.
  rewrite N.mul_comm, N.div_add by lia. rewrite N.div_small by exact H. lia.
Qed.

Lemma cat_mod : forall n lo hi, lo < 2 ^ n -> cat n lo hi mod 2 ^ n = lo.
Proof.
  intros n lo hi H. unfold cat. pose proof (pow2_pos n) as Hp.
  rewrite N.mul_comm, N.mod_add by lia. apply N.mod_small. exact H.
Qed.

Lemma cat_div_mod : forall n x, x = cat n (x mod 2 ^ n) (x / 2 ^ n).
Proof.
  intros n x. unfold cat. pose proof (pow2_pos n) as Hp.
  rewrite N.add_comm. apply N.div_mod. lia.
Qed.

Lemma mod_pow2_lt : forall n x, x mod 2 ^ n < 2 ^ n.
Proof. intros n x. apply N.mod_lt. pose proof (pow2_pos n). lia. Qed.

Lemma cat_lt : forall n m lo hi, lo < 2 ^ n -> hi < 2 ^ m -> cat n lo hi < 2 ^ (n + m).
Proof.
  intros n m lo hi Hl Hh. unfold cat. rewrite N.pow_add_r.
  assert (2 ^ n * hi + 2 ^ n <= 2 ^ n * 2 ^ m).
  { replace (2 ^ n * hi + 2 ^ n) with (2 ^ n * (hi + 1)) by lia.
    apply N.mul_le_mono_l. lia. }
  lia.
Qed.

Lemma cat_hi_lt : forall n m lo hi, cat n lo hi < 2 ^ (n + m) -> hi < 2 ^ m.
Proof.
  intros n m lo hi H. unfold cat in H. rewrite N.pow_add_r in H.
  apply (N.mul_lt_mono_pos_l (2 ^ n)); [apply pow2_pos | lia].
Qed.

Lemma cat_assoc : forall n m l1 l2 h, cat (n + m) (cat n l1 l2) h = cat n l1 (cat m l2 h).
Proof. intros n m l1 l2 h. unfold cat. rewrite N.pow_add_r. lia. Qed.

Lemma cat_zero_zero : forall n m h, cat n 0 (cat m 0 h) = cat (n + m) 0 h.
Proof. intros n m h. unfold cat. rewrite N.pow_add_r. lia. Qed.

Lemma ones_cat : forall n m, ones (n + m) = cat n (ones n) (ones m).
Proof.
  intros n m. unfold cat, ones. rewrite N.pow_add_r.
  pose proof (pow2_pos n). pose proof (pow2_pos m).
  rewrite N.mul_sub_distr_l. nia.
Qed.

(* arithmetic steps *)
Lemma dec_cat_zero : forall n hi, 0 < hi -> cat n 0 hi - 1 = cat n (ones n) (hi - 1).
Proof.
  intros n hi H. unfold cat, ones. pose proof (pow2_pos n).
  rewrite N.mul_sub_distr_l. nia.
Qed.

Lemma dec_cat_pos : forall n lo hi, 0 < lo -> cat n lo hi - 1 = cat n (lo - 1) hi.
Proof. intros n lo hi H. unfold cat. lia. Qed.

Lemma inc_cat_ones : forall n hi, cat n (ones n) hi + 1 = cat n 0 (hi + 1).
Proof. intros n hi. unfold cat, ones. pose proof (pow2_pos n). lia. Qed.

Lemma inc_cat_lo : forall n lo hi, cat n lo hi + 1 = cat n (lo + 1) hi.
Proof. intros n lo hi. unfold cat. lia. Qed.

(* order: lexicographic with the high part first *)
Lemma cat_lt_hi : forall n l1 h1 l2 h2, l1 < 2 ^ n -> h1 < h2 -> cat n l1 h1 < cat n l2 h2.
Proof.
  intros n l1 h1 l2 h2 Hl Hh. unfold cat.
  assert (2 ^ n * h1 + 2 ^ n <= 2 ^ n * h2).
  { replace (2 ^ n * h1 + 2 ^ n) with (2 ^ n * (h1 + 1)) by lia. apply N.mul_le_mono_l. lia. }
  lia.
Qed.

Lemma cat_lt_lo : forall n l1 l2 h, l1 < l2 -> cat n l1 h < cat n l2 h.
Proof. intros n l1 l2 h H. unfold cat. lia. Qed.

(* bitwise operations *)
Lemma lor_lt_pow2 : forall n a b, a < 2 ^ n -> b < 2 ^ n -> N.lor a b < 2 ^ n.
Proof.
  intros n a b Ha Hb. apply lt_pow2_of_bits. intros k Hk.
  rewrite N.lor_spec, (testbit_high_lt a n k Ha Hk), (testbit_high_lt b n k Hb Hk). reflexivity.
Qed.

Lemma land_lt_pow2 : forall n a b, a < 2 ^ n -> N.land a b < 2 ^ n.
Proof.
  intros n a b Ha. apply lt_pow2_of_bits. intros k Hk.
  rewrite N.land_spec, (testbit_high_lt a n k Ha Hk). reflexivity.
Qed.

Lemma lxor_lt_pow2 : forall n a b, a < 2 ^ n -> b < 2 ^ n -> N.lxor a b < 2 ^ n.
Proof.
  intros n a b Ha Hb. apply lt_pow2_of_bits. intros k Hk.
  rewrite N.lxor_spec, (testbit_high_lt a n k Ha Hk), (testbit_high_lt b n k Hb Hk). reflexivity.
Qed.

Lemma lor_cat : forall n l1 h1 l2 h2, l1 < 2 ^ n -> l2 < 2 ^ n ->
  N.lor (cat n l1 h1) (cat n l2 h2) = cat n (N.lor l1 l2) (N.lor h1 h2).
Proof.
  intros n l1 h1 l2 h2 H1 H2. apply N.bits_inj. intros k.
  rewrite N.lor_spec, !testbit_cat by (try apply lor_lt_pow2; assumption).
  destruct (k <? n); rewrite N.lor_spec; reflexivity.
Qed.

Lemma land_cat : forall n l1 h1 l2 h2, l1 < 2 ^ n -> l2 < 2 ^ n ->
  N.land (cat n l1 h1) (cat n l2 h2) = cat n (N.land l1 l2) (N.land h1 h2).
Proof.
  intros n l1 h1 l2 h2 H1 H2. apply N.bits_inj. intros k.
  rewrite N.land_spec, !testbit_cat by (try apply land_lt_pow2; assumption).
  destruct (k <? n); rewrite N.land_spec; reflexivity.
Qed.

Lemma lxor_cat : forall n l1 h1 l2 h2, l1 < 2 ^ n -> l2 < 2 ^ n ->
  N.lxor (cat n l1 h1) (cat n l2 h2) = cat n (N.lxor l1 l2) (N.lxor h1 h2).
Proof.
  intros n l1 h1 l2 h2 H1 H2. apply N.bits_inj. intros k.
  rewrite N.lxor_spec, !testbit_cat by (try apply lxor_lt_pow2; assumption).
  destruct (k <? n); rewrite N.lxor_spec; reflexivity.
Qed.

Lemma shiftr_cat : forall n lo hi, lo < 2 ^ n -> N.shiftr (cat n lo hi) n = hi.
Proof. intros n lo hi H. rewrite N.shiftr_div_pow2. apply cat_div. exact H. Qed.

Lemma lor_ones_low : forall n z, z < 2 ^ n -> N.lor (ones n) z = ones n.
Proof.
  intros n z Hz. apply N.bits_inj. intros k. rewrite N.lor_spec, testbit_ones.
  destruct (N.ltb_spec k n) as [H | H]; [reflexivity|].
  apply (testbit_high_lt z n k Hz H).
Qed.

Lemma land_lxor_ones : forall w r, r < 2 ^ w -> N.land (N.lxor r (ones w)) r = 0.
Proof.
  intros w r Hr. apply N.bits_inj. intros k.
  rewrite N.land_spec, N.lxor_spec, testbit_ones, N.bits_0.
  destruct (N.ltb_spec k w) as [H | H].
  - destruct (N.testbit r k); reflexivity.
  - rewrite (testbit_high_lt r w k Hr H). reflexivity.
Qed.

(* popcount of a concatenation *)
Lemma pc_cat : forall n lo hi, lo < 2 ^ n -> pc (cat n lo hi) = pc lo + pc hi.
Proof.
  induction n as [|n IH] using N.peano_ind; intros lo hi H.
  - change (2 ^ 0) with 1 in H. assert (lo = 0) by lia. subst lo.
    rewrite cat_0_0. reflexivity.
  - rewrite <- N.add_1_r in *. rewrite pow2_succ in H.
    pose proof (N.div_mod lo 2 ltac:(discriminate)) as Hdm.
    assert (Hb : lo mod 2 < 2) by (apply N.mod_lt; discriminate).
    set (b := lo mod 2) in *. set (l' := lo / 2) in *.
    assert (Hl' : l' < 2 ^ n) by lia.
    replace (cat (n + 1) lo hi) with (b + 2 * cat n l' hi)
      by (unfold cat; rewrite pow2_succ; lia).
    rewrite pc_bit_add by exact Hb. rewrite IH by exact Hl'.
    replace lo with (b + 2 * l') by lia. rewrite pc_bit_add by exact Hb. lia.
Qed.

Lemma pc_ones : forall n, pc (ones n) = n.
Proof.
  induction n as [|n IH] using N.peano_ind.
  - reflexivity.
  - rewrite <- N.add_1_r. rewrite N.add_comm, ones_cat.
    rewrite pc_cat by (apply ones_lt). rewrite IH. change (ones 1) with 1. rewrite pc_1. lia.
Qed.

Lemma pc_pow2 : forall n, pc (2 ^ n) = 1.
Proof.
  intros n. replace (2 ^ n) with (cat n 0 1) by (unfold cat; lia).
  rewrite pc_cat by apply pow2_pos. reflexivity.
Qed.

(* below 2^n at most n bits, exactly n only for the all-ones word *)
Lemma pc_le : forall n x, x < 2 ^ n -> pc x <= n /\ (pc x = n -> x = ones n).
Proof.
  induction n as [|n IH] using N.peano_ind; intros x H.
  - change (2 ^ 0) with 1 in H. assert (x = 0) by lia. subst x. split; [cbn; lia | reflexivity].
  - rewrite <- N.add_1_r in *. rewrite pow2_succ in H.
    pose proof (N.div_mod x 2 ltac:(discriminate)) as Hdm.
    assert (Hb : x mod 2 < 2) by (apply N.mod_lt; discriminate).
    set (b := x mod 2) in *. set (x' := x / 2) in *.
    assert (Hx' : x' < 2 ^ n) by lia.
    destruct (IH x' Hx') as [Hle Heq].
    assert (Hpc : pc x = b + pc x') by (rewrite Hdm, N.add_comm; apply pc_bit_add; exact Hb).
    split; [lia|].
    intros E. assert (b = 1) by lia. assert (Ex : x' = ones n) by (apply Heq; lia).
    unfold ones in *. rewrite pow2_succ. pose proof (pow2_pos n). lia.
Qed.

Lemma pc_lt_ones : forall n x, x < ones n -> pc x < n.
Proof.
  intros n x H. pose proof (ones_lt n) as Ho.
  destruct (pc_le n x ltac:(lia)) as [Hle Heq].
  destruct (N.eq_dec (pc x) n) as [E | NE]; [|lia].
  specialize (Heq E). lia.
Qed.

(* every k-bit word is at least the lowest one *)
Lemma pc_ge_ones : forall x, ones (pc x) <= x.
Proof.
  intros x. destruct (N.le_gt_cases (ones (pc x)) x) as [H | H]; [exact H|].
  apply pc_lt_ones in H. lia.
Qed.

(* ---------- decomposition of a positive number: 0^a 1^(b+1) 0 r ---------- *)
Lemma odd_part : forall p : positive, exists a q, Npos p = 2 ^ a * (2 * q + 1).
Proof.
  induction p as [p IH | p IH |].
  - exists 0, (Npos p). change (2 ^ 0) with 1. lia.
  - destruct IH as (a & q & E). exists (a + 1), q. rewrite pow2_succ.
    change (N.pos p~0) with (2 * N.pos p). rewrite E. lia.
  - exists 0, 0. reflexivity.
Qed.

Definition gosper_shape (a b r : N) : N := cat a 0 (cat (b + 1) (ones (b + 1)) (cat 1 0 r)).

Lemma gosper_shape_arith : forall a b r,
  gosper_shape a b r = 2 ^ a * (2 ^ (b + 1) - 1) + 2 ^ (a + b + 2) * r.
Proof.
  intros a b r. unfold gosper_shape, cat, ones.
  replace (a + b + 2) with (a + ((b + 1) + 1)) by lia.
  rewrite !N.pow_add_r. change (2 ^ 1) with 2. lia.
Qed.

Lemma gosper_shape_exists : forall x, 0 < x -> exists a b r, x = gosper_shape a b r.
Proof.
  intros x Hx. destruct x as [|p]; [lia|].
  destruct (odd_part p) as (a & q & E).
  (* 2q+1+1 = 2 (q+1), q+1 > 0 *)
  assert (Hq : exists p', q + 1 = Npos p') by (destruct (q + 1) as [|p'] eqn:E'; [lia | eexists; reflexivity]).
  destruct Hq as (p' & Ep').
  destruct (odd_part p') as (c & r & E2).
  exists a, c, r. rewrite E. unfold gosper_shape. unfold cat at 1. rewrite N.add_0_l. f_equal.
  (* 2q+1 = ones(c+1) + 2^(c+1) * 2r *)
  unfold cat, ones. rewrite pow2_succ. change (2 ^ 1) with 2.
  pose proof (pow2_pos c).
  assert (2 * (q + 1) = 2 * 2 ^ c + 2 * 2 ^ c * (2 * r)) by (rewrite Ep', E2; lia).
  lia.
Qed.
