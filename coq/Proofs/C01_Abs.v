(* Proofs/C01_Abs.v -- the evaluator model only looks at the hand through
   (rank counts, rank mask, rank mask of the flush suit): abstract evaluator [SAcore]. *)
From Coq Require Import NArith List Bool Lia.
From RP Require Import Base.Bits Gen.GenCards Model.Codec Model.Evaluator.
Import ListNotations.
Open Scope N_scope.

Definition nthN (c : list N) (r : N) : N := nth (N.to_nat r) c 0.

(* the three views of a hand used by the model *)
Definition cnt (h r : N) : N := popcount64 (N.land (N.shiftl 15 (4 * r)) h).
Definition cvec (h : N) : list N := map (cnt h) (nseq 13 0).
Definition flush_mask (d : deck) (h : N) : option N :=
  option_map (fun s => rank_mask (hand_of_suit d h s)) (find_suit_of_flush h).

Definition straightA (d : deck) (ranks : N) : option N :=
  let b := ranks in
  let b := N.land b (u16 (N.shiftl b 1)) in
  let b := N.land b (u16 (N.shiftl b 1)) in
  let b := N.land b (u16 (N.shiftl b 1)) in
  let b := N.land b (u16 (N.shiftl b 1)) in
  if 0 <? b then rank_of_mask b
  else if wheel d =? N.land (wheel d) ranks then Some (lowest_straight d)
  else None.

Fixpoint n_oak_loopA (fuel : nat) (r : N) (c : list N) (n : N) (skip : option N) : option N :=
  match fuel with
  | O => None
  | S k =>
      let high := N.shiftl 15 (4 * r) in
      let skipped := match skip with Some s => negb (N.land high (N.shiftl 15 (4 * s)) =? 0) | None => false end in
      if negb skipped && (n <=? nthN c r) then Some r
      else if r =? 0 then None else n_oak_loopA k (r - 1) c n skip
  end.
Definition n_oak_skipA (c : list N) (n : N) (skip : option N) : option N := n_oak_loopA 13 12 c n skip.
Definition n_oakA (c : list N) (n : N) : option N := n_oak_skipA c n None.

Definition find_flushA (d : deck) (fl : option N) : option ranking :=
  match fl with
  | None => None
  | Some m =>
      match straightA d m with
      | Some r => Some (mkRanking StraightFlush r 0)
      | None => match rank_of_mask m with
                | Some r => Some (mkRanking Flush r 0) | None => None end
      end
  end.

Definition eval_step_runA (d : deck) (c : list N) (rm : N) (fl : option N) (s : eval_step) : option ranking :=
  match s with
  | SFlush => find_flushA d fl
  | S4 => option_map (fun r => mkRanking FourOAK r 0) (n_oakA c 4)
  | S32 => match n_oakA c 3 with
           | Some t => option_map (fun p => mkRanking FullHouse t p) (n_oak_skipA c 2 (Some t))
           | None => None end
  | SStraight => option_map (fun r => mkRanking Straight r 0) (straightA d rm)
  | S3 => option_map (fun r => mkRanking ThreeOAK r 0) (n_oakA c 3)
  | S22 => match n_oakA c 2 with
           | Some hi => match n_oak_skipA c 2 (Some hi) with
                        | Some lo => Some (mkRanking TwoPair hi lo)
                        | None => Some (mkRanking OnePair hi 0)
                        end
           | None => None end
  | S2 => option_map (fun r => mkRanking OnePair r 0) (n_oakA c 2)
  | S1 => option_map (fun r => mkRanking HighCard r 0) (n_oakA c 1)
  end.

Definition find_rankingA (d : deck) (c : list N) (rm : N) (fl : option N) : option ranking :=
  fold_left (fun acc s => match acc with Some r => Some r | None => eval_step_runA d c rm fl s end) EVAL_CHAIN None.

Definition find_kickersA (rm : N) (v : ranking) : N :=
  match N_KICKERS (rcat v) with
  | 0 => 0
  | n =>
      let excl := match rcat v with
                  | TwoPair => N.lor (N.shiftl 1 (r1 v)) (N.shiftl 1 (r2 v))
                  | _ => N.shiftl 1 (r1 v) end in
      keep_top 16 n (N.land rm (N.lxor 65535 excl))
  end.
Definition find_flush_kickersA (fl : option N) : N :=
  match fl with
  | None => 0
  | Some bits =>
      match rank_of_mask bits with
      | Some top => keep_top 16 4 (N.land bits (N.lxor 65535 (N.shiftl 1 top)))
      | None => 0
      end
  end.

Definition SAcore (d : deck) (c : list N) (rm : N) (fl : option N) : option strength :=
  match find_rankingA d c rm fl with
  | None => None
  | Some v =>
      let k := match rcat v with
               | Flush => if FLUSH_HAS_KICKERS then find_flush_kickersA fl else find_kickersA rm v
               | _ => find_kickersA rm v end in
      Some (mkStrength v k)
  end.

(* ---------- the model is SAcore of the views ---------- *)
Lemma nseq_length : forall n i, length (nseq n i) = n.
Proof. induction n as [|n IH]; intros i; cbn [nseq length]; [reflexivity|rewrite IH; reflexivity]. Qed.

Lemma nth_nseq : forall n i k, (k < n)%nat -> nth k (nseq n i) 0 = i + N.of_nat k.
Proof.
  induction n as [|n IH]; intros i k Hk; [lia|].
  cbn [nseq]. destruct k as [|k]; cbn [nth]; [lia|].
  rewrite IH by lia. lia.
Qed.

Lemma nthN_cvec : forall h r, r <= 12 -> nthN (cvec h) r = cnt h r.
Proof.
  intros h r Hr. unfold nthN, cvec.
  rewrite (nth_indep _ 0 (cnt h 0)) by (rewrite map_length, nseq_length; lia).
  rewrite map_nth. f_equal.
  rewrite nth_nseq by lia. lia.
Qed.

Lemma n_oak_loop_A : forall fuel r h n skip, r <= 12 ->
  n_oak_loop fuel r h n skip = n_oak_loopA fuel r (cvec h) n skip.
Proof.
  induction fuel as [|k IH]; intros r h n skip Hr; [reflexivity|].
  cbn [n_oak_loop n_oak_loopA]. rewrite nthN_cvec by exact Hr. fold (cnt h r).
  destruct (_ && _); [reflexivity|].
  destruct (r =? 0); [reflexivity|]. apply IH. lia.
Qed.

Lemma n_oak_skip_A : forall h n skip, find_rank_of_n_oak_skip h n skip = n_oak_skipA (cvec h) n skip.
Proof. intros. apply n_oak_loop_A. lia. Qed.
Lemma n_oak_A : forall h n, find_rank_of_n_oak h n = n_oakA (cvec h) n.
Proof. intros. apply n_oak_skip_A. Qed.

Lemma fold_left_ext : forall (A B : Type) (f g : A -> B -> A) l a,
  (forall a x, f a x = g a x) -> fold_left f l a = fold_left g l a.
Proof.
  intros A B f g l. induction l as [|x l IH]; intros a H; [reflexivity|].
  cbn [fold_left]. rewrite H. apply IH. exact H.
Qed.

Lemma straight_A : forall d hand, find_rank_of_straight d hand = straightA d (rank_mask hand).
Proof. intros d hand. unfold find_rank_of_straight, straightA. cbv zeta. reflexivity. Qed.

Lemma find_flush_A : forall d h, find_flush d h = find_flushA d (flush_mask d h).
Proof.
  intros d h. unfold find_flush, find_flushA, flush_mask.
  destruct (find_suit_of_flush h) as [s|]; cbn [option_map]; [|reflexivity].
  rewrite straight_A. reflexivity.
Qed.

Lemma eval_step_run_A : forall d h s,
  eval_step_run d h s = eval_step_runA d (cvec h) (rank_mask h) (flush_mask d h) s.
Proof.
  intros d h s. destruct s; cbn [eval_step_run eval_step_runA].
  - apply find_flush_A.
  - unfold find_4_oak. rewrite n_oak_A. reflexivity.
  - unfold find_3_oak_2_oak. rewrite n_oak_A. destruct (n_oakA (cvec h) 3); [|reflexivity].
    rewrite n_oak_skip_A. reflexivity.
  - unfold find_straight. rewrite straight_A. reflexivity.
  - unfold find_3_oak. rewrite n_oak_A. reflexivity.
  - unfold find_2_oak_2_oak. rewrite n_oak_A. destruct (n_oakA (cvec h) 2); [|reflexivity].
    rewrite n_oak_skip_A. reflexivity.
  - unfold find_2_oak. rewrite n_oak_A. reflexivity.
  - unfold find_1_oak. rewrite n_oak_A. reflexivity.
Qed.

Lemma find_ranking_A : forall d h,
  find_ranking d h = find_rankingA d (cvec h) (rank_mask h) (flush_mask d h).
Proof.
  intros d h. unfold find_ranking, find_rankingA. apply fold_left_ext.
  intros a s. destruct a; [reflexivity|]. apply eval_step_run_A.
Qed.

Lemma find_flush_kickers_A : forall d h, find_flush_kickers d h = find_flush_kickersA (flush_mask d h).
Proof.
  intros d h. unfold find_flush_kickers, find_flush_kickersA, flush_mask.
  destruct (find_suit_of_flush h) as [s|]; cbn [option_map]; [|reflexivity].
  generalize (rank_mask (hand_of_suit d h s)). intros bits. reflexivity.
Qed.

Theorem strength_of_SAcore : forall d h,
  strength_of d h = SAcore d (cvec h) (rank_mask h) (flush_mask d h).
Proof.
  intros d h. unfold strength_of, SAcore. rewrite find_ranking_A.
  destruct (find_rankingA _ _ _ _) as [v|]; [|reflexivity].
  rewrite find_flush_kickers_A. reflexivity.
Qed.

(* with a flush suit present the result only depends on that suit's rank mask *)
Definition SAflush (d : deck) (m : N) : option strength := SAcore d [] 0 (Some m).

Lemma SAcore_flush : forall d c rm m, rank_of_mask m <> None -> SAcore d c rm (Some m) = SAflush d m.
Proof.
  intros d c rm m Hm. unfold SAflush, SAcore, find_rankingA.
  assert (forall l v, fold_left (fun acc s => match acc with Some r => Some r | None => eval_step_runA d c rm (Some m) s end) l (Some v) = Some v) as Hc.
  { induction l as [|x l IH]; intros v; [reflexivity|]. cbn [fold_left]. apply IH. }
  assert (forall l v, fold_left (fun acc s => match acc with Some r => Some r | None => eval_step_runA d [] 0 (Some m) s end) l (Some v) = Some v) as H0.
  { induction l as [|x l IH]; intros v; [reflexivity|]. cbn [fold_left]. apply IH. }
  assert (exists v, find_flushA d (Some m) = Some v /\ (rcat v = Flush \/ (rcat v = StraightFlush))) as [v [Hv Hcat]].
  { unfold find_flushA. destruct (straightA d m) as [r|].
    - eexists; split; [reflexivity|]. right; reflexivity.
    - destruct (rank_of_mask m) as [r|]; [|congruence].
      eexists; split; [reflexivity|]. left; reflexivity. }
  change EVAL_CHAIN with (SFlush :: tl EVAL_CHAIN).
  cbn [fold_left eval_step_runA]. rewrite Hv, Hc, H0.
  destruct Hcat as [Hcat|Hcat]; rewrite Hcat; [reflexivity|].
  unfold find_kickersA. rewrite Hcat. reflexivity.
Qed.

(* ---------- derived views used by the enumeration ---------- *)
Definition rmA (c : list N) : N := mask_of_bits (filter (fun r => 0 <? nthN c r) (nseq 13 0)).
Definition expand (c : list N) : list N := flat_map (fun r => repeat r (N.to_nat (nthN c r))) (nseq 13 0).
Definition sumN (l : list N) : N := fold_right N.add 0 l.
Definition rbits (m : N) : list N := bits_from 16 0 m.
