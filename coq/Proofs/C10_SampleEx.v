(* Proofs/C10_SampleEx.v -- property C10, examples for the tree construction of Model/Sample.v:
     - a dealer that satisfies deal_ok on every reachable chance node, for every deck and every
       well-formed pair of hole cards (low_deal: the lowest cards of Game::deck());
     - an abstraction that satisfies abs_own_cards, two states with the same view;
     - a concrete sampled tree, by computation: the small blind has gone all-in, the big blind
       (the traverser) may call all-in or fold; after the call three chance nodes and a showdown. *)
From Coq Require Import ZArith NArith List Bool Lia QArith Sorted.
From RP Require Import Base.Bits Gen.GenLib Gen.GenFixes Gen.GenStreet Gen.GenAbstract
                       Model.Codec Model.Showdown Model.Game Model.Tree Model.Sample
                       Spec.SpecGameInv Spec.SpecSettle Spec.SpecRel Spec.SpecMenu Spec.SpecTree Spec.SpecSample
                       Proofs.BitsLemmas Proofs.C02_Cards Proofs.C03_Cards Proofs.C03_Examples
                       Proofs.C10_Cap Proofs.C10_Examples Proofs.C10_Tree
                       Proofs.C10_Grow Proofs.C10_Infosets Proofs.C10_View.
Import ListNotations.
Open Scope Z_scope.

(* ---------- a dealer: the lowest cards of the deck ---------- *)
Definition low_deal (d : deck) (g : game) (h : list edge) : N :=
  match deck_of d g, n_revealed (street g) with
  | Some dk, Some n => mask_of_bits (firstn (Z.to_nat n) (set_bits64 dk))
  | _, _ => 0%N
  end.

Lemma firstn_sorted : forall n (l : list N), StronglySorted N.lt l -> StronglySorted N.lt (firstn n l).
Proof.
  intros n l H. revert n. induction H as [|a l Hs IH Hf]; intros n.
  - rewrite firstn_nil. constructor.
  - destruct n as [|n]; [constructor|]. cbn [firstn]. constructor; [apply IH|].
    apply Forall_forall. intros x Hx. exact (proj1 (Forall_forall _ l) Hf x (in_firstn _ _ _ _ Hx)).
Qed.

Lemma low_mask_sub : forall dk n,
  N.land (mask_of_bits (firstn n (set_bits64 dk))) (N.lxor dk 18446744073709551615%N) = 0%N.
Proof.
  intros dk n. apply N.bits_inj. intros k.
  rewrite N.land_spec, N.lxor_spec, N.bits_0.
  change 18446744073709551615%N with SpecRel.ones64. rewrite ones64_testbit.
  destruct (N.testbit (mask_of_bits (firstn n (set_bits64 dk))) k) eqn:E; [|reflexivity].
  apply mask_of_bits_spec in E. apply in_firstn in E.
  rewrite (set_bits64_testbit dk k E).
  pose proof (set_bits64_lt64 dk k E) as Hlt. apply N.ltb_lt in Hlt. rewrite Hlt. reflexivity.
Qed.

Lemma low_mask_size : forall dk n, (n <= length (set_bits64 dk))%nat ->
  hand_size (mask_of_bits (firstn n (set_bits64 dk))) = N.of_nat n.
Proof.
  intros dk n Hn. unfold hand_size. rewrite popcount64_length, set_bits64_of_mask.
  - rewrite firstn_length_le by exact Hn. reflexivity.
  - apply firstn_sorted. apply set_bits64_sorted.
  - apply Forall_forall. intros x Hx. exact (set_bits64_lt64 dk x (in_firstn _ _ _ _ Hx)).
Qed.

(* the deck is never short of cards *)
Ltac bits_goal k :=
  apply N.bits_inj; intros k;
  repeat first [rewrite N.land_spec | rewrite N.lor_spec | rewrite N.lxor_spec | rewrite N.ldiff_spec
               | rewrite N.bits_0];
  repeat match goal with |- context [N.testbit ?x k] => destruct (N.testbit x k) end; reflexivity.

Lemma popcount64_land_le : forall a b, (popcount64 (N.land a b) <= popcount64 a)%N.
Proof.
  intros a b.
  assert (Hsplit : a = N.lor (N.land a b) (N.ldiff a b)) by bits_goal k.
  assert (Hdis : N.land (N.land a b) (N.ldiff a b) = 0%N) by bits_goal k.
  rewrite Hsplit at 2. unfold popcount64. rewrite (C02_Cards.popcount_upto_lor 64 _ _ Hdis). lia.
Qed.

Lemma deck_large : forall d A B bd,
  hand_size A = 2%N -> hand_size B = 2%N -> (hand_size bd <= 5)%N ->
  N.land bd A = 0%N -> N.land (N.lor bd A) B = 0%N ->
  (27 <= popcount64 (N.lxor (N.lor (N.lor bd A) B) (hand_mask d)))%N.
Proof.
  intros d A B bd SA SB Sbd HbA HbAB.
  set (m := hand_mask d). set (U := N.lor (N.lor bd A) B). set (dk := N.lxor U m).
  assert (Hm : m = N.lor (N.land dk m) (N.land U m)) by (unfold dk; bits_goal k).
  assert (Hdis : N.land (N.land dk m) (N.land U m) = 0%N) by (unfold dk; bits_goal k).
  assert (Hpm : (36 <= popcount64 m)%N) by (unfold m; destruct d; vm_compute; discriminate).
  assert (HpU : popcount64 U = (hand_size bd + 2 + 2)%N).
  { unfold U. change popcount64 with hand_size.
    rewrite (C02_Cards.hand_size_lor _ _ HbAB), (C02_Cards.hand_size_lor _ _ HbA), SA, SB. reflexivity. }
  pose proof (popcount64_land_le dk m) as H1. pose proof (popcount64_land_le U m) as H2.
  assert (Hsum : popcount64 m = (popcount64 (N.land dk m) + popcount64 (N.land U m))%N).
  { rewrite Hm at 1. unfold popcount64. apply (C02_Cards.popcount_upto_lor 64 _ _ Hdis). }
  lia.
Qed.

Theorem low_deal_ok : forall d hs, wf_holes d hs -> deal_ok d hs (low_deal d).
Proof.
  intros d hs Hwf g h Hreach Ht.
  destruct (card_inv_reachable d hs g Hwf Hreach) as (A & B & Hm & HA & HB & SA & SB & HAB & HbA & HbB & Hok & Hlow).
  pose proof (bw_removed A B (board g) HAB HbA HbB) as Hrem.
  pose proof (deck_of_two d g A B Hm HbA Hrem) as Hdk.
  (* a chance node: the hand goes on, cards are due, the street is not the river *)
  assert (Hphase : must_stop g = false /\ must_deal g = true).
  { unfold turn_of in Ht. destruct (must_stop g); [discriminate Ht|]. destruct (must_deal g); [split; reflexivity|discriminate Ht]. }
  destruct Hphase as [Hstop Hdeal].
  unfold board_ok in Hok. unfold must_deal in Hdeal. unfold street in Hdeal.
  assert (Hstreet : exists n, n_revealed (street g) = Some n /\ (n = 3 \/ n = 1) /\ (hand_size (board g) <= 5)%N).
  { unfold street. destruct (street_of_size (Z.of_N (hand_size (board g)))) as [s|] eqn:Es; [|discriminate Hok].
    destruct (street_of_size_cases _ _ Es) as [[Hz ->]|[[Hz ->]|[[Hz ->]|[Hz ->]]]].
    - exists 3. split; [reflexivity|]. split; [left; reflexivity|lia].
    - exists 1. split; [reflexivity|]. split; [right; reflexivity|lia].
    - exists 1. split; [reflexivity|]. split; [right; reflexivity|lia].
    - discriminate Hdeal. }
  destruct Hstreet as (n & Hn & Hn31 & Hbd).
  pose proof (deck_large d A B (board g) SA SB Hbd HbA Hrem) as Hbig.
  set (dk := N.lxor (N.lor (N.lor (board g) A) B) (hand_mask d)) in *.
  assert (Hlen : (Z.to_nat n <= length (set_bits64 dk))%nat).
  { rewrite popcount64_length in Hbig. destruct Hn31 as [-> | ->]; lia. }
  unfold is_allowed. rewrite Hstop.
  assert (Hdeal' : must_deal g = true) by (unfold must_deal, street; exact Hdeal).
  rewrite Hdeal'. unfold low_deal. rewrite Hdk, Hn.
  rewrite low_mask_sub. cbn [N.eqb]. rewrite (low_mask_size dk _ Hlen). f_equal.
  apply Z.eqb_eq. destruct Hn31 as [-> | ->]; reflexivity.
Qed.

(* ---------- an abstraction of the acting seat's cards and the board ---------- *)
Definition ex_abs (g : game) : N := N.lor (cards (actor g)) (board g).
Lemma ex_abs_own : abs_own_cards ex_abs.
Proof. exact (abs_of_own_cards (fun c b => N.lor c b)). Qed.

(* ---------- the sampler's picks: some function of the history ---------- *)
Definition ex_pick (h : list edge) (n : nat) : nat := length h.

(* ---------- the node: the small blind has gone all-in ---------- *)
Definition ex_shoved : game :=
  mkGame [mkSeat Betting 98 2 2 3377699720527872%N; mkSeat Shoving 0 100 100 3298534883328%N] 102 0%N 0 4.
Lemma ex_shoved_path : tree_path Standard ex_root [EShove] ex_shoved.
Proof.
  apply (walk_sound Standard ex_root [(EShove, 0%N)] [] ex_root ex_shoved (tp_root _ _)).
  vm_compute. reflexivity.
Qed.

(* the same node with other cards in the hand of the seat that is not to act *)
Definition ex_shoved_other : game :=
  mkGame [mkSeat Betting 98 2 2 3377699720527872%N; mkSeat Shoving 0 100 100 (mask_of_bits [30; 31]%N)] 102 0%N 0 4.
Lemma ex_same_view : same_view ex_shoved ex_shoved_other /\ ex_shoved <> ex_shoved_other.
Proof. split; [split; vm_compute; reflexivity|discriminate]. Qed.

(* the tree sampled for the big blind (seat 0) as traverser *)
Definition ex_tree : option stree := grow Standard ex_abs ex_pick (low_deal Standard) 10 0 ex_shoved [EShove].

(* per node: history, bucket, edges of the children, who is to act *)
Lemma ex_tree_nodes :
  option_map (fun t => map (fun s => (s_history s, n_bucket (root_node s), map fst (kids s), turn_of (s_game s)))
                           (subtrees t)) ex_tree
  = Some [([EShove], (5, 3377699720527872, 37)%N, [EShove; EFold], Choice 0);
          ([EShove; EShove], (85, 3377699720527872, 1)%N, [EDraw], Chance);
          ([EShove; EShove; EDraw], (341, 3377699720527879, 1)%N, [EDraw], Chance);
          ([EShove; EShove; EDraw; EDraw], (4437, 3377699720527887, 1)%N, [EDraw], Chance);
          ([EShove; EShove; EDraw; EDraw; EDraw], (69973, 3377699720527903, 0)%N, [], Terminal);
          ([EShove; EFold], (37, 3377699720527872, 0)%N, [], Terminal)].
Proof. vm_compute. reflexivity. Qed.

(* the leaves: rewards and chips put in *)
Lemma ex_tree_leaves :
  option_map (fun t => map (fun s => (settlements Standard (s_game s), map spent (seats (s_game s))))
                           (filter (fun s => match kids s with [] => true | _ => false end) (subtrees t))) ex_tree
  = Some [(Some [200; 0], [100; 100]); (Some [0; 102], [2; 100])].
Proof. vm_compute. reflexivity. Qed.

(* one information set, holding the root; witness gives it 1/2, 1/2 *)
Lemma ex_tree_infosets :
  option_map (fun t => map (fun bn => (fst bn, map n_history (snd bn))) (infosets 0 t)) ex_tree
  = Some [((5, 3377699720527872, 37)%N, [[EShove]])].
Proof. vm_compute. reflexivity. Qed.
Lemma ex_tree_witness :
  match ex_tree with Some t => witness_tree 0 [] t | None => None end
  = Some [((5, 3377699720527872, 37)%N, [(EShove, 1 # 2); (EFold, 1 # 2)]%Q)].
Proof. vm_compute. reflexivity. Qed.

(* for the small blind (seat 1) as traverser the big blind's answer is sampled: one child *)
Lemma ex_tree_opponent :
  option_map (fun t => map (fun s => (s_history s, map fst (kids s), turn_of (s_game s))) (subtrees t))
             (grow Standard ex_abs ex_pick (low_deal Standard) 10 1 ex_shoved [EShove])
  = Some [([EShove], [EFold], Choice 0); ([EShove; EFold], [], Terminal)].
Proof. vm_compute. reflexivity. Qed.

Lemma ex_tree_some : exists t, ex_tree = Some t.
Proof. vm_compute. eexists. reflexivity. Qed.
