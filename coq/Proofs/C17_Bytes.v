(* Proofs/C17_Bytes.v -- byte-level lemmas for Model/Pgcopy.v: big-endian encode/decode,
   read_exact (take_exact), the fields of one row (read_fields). *)
From Coq Require Import NArith ZArith List Bool Lia ZifyBool ZifyN ZifyNat.
From RP Require Import Base.Bits Gen.GenTables Model.Codec Model.Pgcopy Spec.SpecTables.
Import ListNotations.
Open Scope N_scope.

Arguments N.add : simpl never.
Arguments N.mul : simpl never.
Arguments N.sub : simpl never.
Arguments N.shiftl : simpl never.
Arguments N.shiftr : simpl never.
Arguments N.land : simpl never.
Arguments N.lor : simpl never.
Arguments N.pow : simpl never.
Arguments N.modulo : simpl never.
Arguments N.div : simpl never.
Arguments N.to_nat : simpl never.
Arguments N.of_nat : simpl never.

(* ---------- big-endian bytes ---------- *)

Lemma be_bytes_length : forall w v, length (be_bytes w v) = w.
Proof.
  induction w as [|k IH]; intros v.
  - reflexivity.
  - cbn [be_bytes length]. rewrite IH. reflexivity.
Qed.

Lemma be_length : forall w v, length (be w v) = N.to_nat w.
Proof. intros w v. unfold be. apply be_bytes_length. Qed.

Lemma be_fold : forall w v a,
  fold_left (fun a b => a * 256 + b) (be_bytes w v) a
  = a * 256 ^ N.of_nat w + v mod 256 ^ N.of_nat w.
Proof.
  induction w as [|k IH]; intros v a.
  - cbn [be_bytes fold_left]. change (N.of_nat 0) with 0. change (256 ^ 0) with 1.
    rewrite N.mod_1_r. lia.
  - cbn [be_bytes fold_left]. rewrite IH.
    rewrite Nat2N.inj_succ, N.pow_succ_r'.
    rewrite N.shiftr_div_pow2.
    change 8 with (N.of_nat 8) at 1.
    replace (2 ^ (N.of_nat 8 * N.of_nat k)) with (256 ^ N.of_nat k)
      by (rewrite N.pow_mul_r; reflexivity).
    set (m := 256 ^ N.of_nat k).
    assert (Hm : m <> 0) by (apply N.pow_nonzero; discriminate).
    rewrite (N.mul_comm 256 m).
    rewrite (N.mod_mul_r v m 256) by (exact Hm || discriminate).
    ring.
Qed.

Lemma be_value_be_mod : forall w v, be_value (be w v) = v mod 256 ^ w.
Proof.
  intros w v. unfold be_value, be. rewrite be_fold, N2Nat.id. lia.
Qed.

Lemma be_value_be : forall w v, v < 256 ^ w -> be_value (be w v) = v.
Proof. intros w v H. rewrite be_value_be_mod. apply N.mod_small. exact H. Qed.

(* ---------- read_exact ---------- *)

Lemma take_nat_spec : forall n bs,
  take_nat n bs = if (length bs <? n)%nat then None else Some (firstn n bs, skipn n bs).
Proof.
  induction n as [|k IH]; intros bs.
  - reflexivity.
  - destruct bs as [|b r].
    + reflexivity.
    + cbn [take_nat length firstn skipn]. rewrite IH.
      change (S (length r) <? S k)%nat with (length r <? k)%nat.
      destruct (length r <? k)%nat; reflexivity.
Qed.

Lemma take_nat_app : forall a b n, length a = n -> take_nat n (a ++ b) = Some (a, b).
Proof.
  induction a as [|x a IH]; intros b n Hn; subst n.
  - reflexivity.
  - cbn [length app take_nat]. rewrite (IH b (length a) eq_refl). reflexivity.
Qed.

Lemma take_nat_short : forall n bs, (length bs < n)%nat -> take_nat n bs = None.
Proof.
  intros n bs H. rewrite take_nat_spec.
  destruct (Nat.ltb_spec (length bs) n) as [_|Hge]; [reflexivity | lia].
Qed.

Lemma take_nat_some : forall n bs h t, take_nat n bs = Some (h, t) -> bs = h ++ t /\ length h = n.
Proof.
  intros n bs h t H. rewrite take_nat_spec in H.
  destruct (Nat.ltb_spec (length bs) n) as [Hlt|Hge]; [discriminate|].
  inversion H; subst. split.
  - symmetry. apply firstn_skipn.
  - rewrite firstn_length. lia.
Qed.

Lemma take_exact_app : forall a b n, length a = N.to_nat n -> take_exact n (a ++ b) = Some (a, b).
Proof. intros a b n H. unfold take_exact. apply take_nat_app. exact H. Qed.

Lemma take_exact_short : forall n bs, (length bs < N.to_nat n)%nat -> take_exact n bs = None.
Proof. intros n bs H. unfold take_exact. apply take_nat_short. exact H. Qed.

Lemma take_exact_be : forall w v rest, take_exact w (be w v ++ rest) = Some (be w v, rest).
Proof. intros w v rest. apply take_exact_app. apply be_length. Qed.

(* ---------- the fields of one row ---------- *)

(* the bytes written for the fields of one row (the part of row_bytes after the field count) *)
Definition fields_bytes (lens ws vals : list N) : list N :=
  concat (map (fun lwv => be 4 (fst (fst lwv)) ++ be (snd (fst lwv)) (snd lwv))
              (combine (combine lens ws) vals)).

Lemma row_bytes_eq : forall L vals,
  row_bytes L vals = be 2 (l_nfields L) ++ fields_bytes (l_wlengths L) (l_wwidths L) vals.
Proof. reflexivity. Qed.

Lemma fields_bytes_cons : forall l lens w ws v vals,
  fields_bytes (l :: lens) (w :: ws) (v :: vals) = be 4 l ++ be w v ++ fields_bytes lens ws vals.
Proof.
  intros. unfold fields_bytes. cbn [combine map concat fst snd]. rewrite <- app_assoc. reflexivity.
Qed.

Fixpoint fields_len (ws : list N) : nat :=
  match ws with [] => 0 | w :: r => 4 + N.to_nat w + fields_len r end.

Lemma fields_bytes_length : forall ws lens vals,
  length lens = length ws -> length vals = length ws ->
  length (fields_bytes lens ws vals) = fields_len ws.
Proof.
  induction ws as [|w ws IH]; intros lens vals Hl Hv.
  - destruct lens; [|discriminate]. reflexivity.
  - destruct lens as [|l lens]; [discriminate|]. destruct vals as [|v vals]; [discriminate|].
    rewrite fields_bytes_cons, !app_length, !be_length.
    cbn [length] in Hl, Hv. rewrite (IH lens vals) by lia.
    cbn [fields_len]. change (N.to_nat 4) with 4%nat. lia.
Qed.

Lemma asserts_okb_nil : forall lens, asserts_okb lens [] = true.
Proof. intros [|l lens]; reflexivity. Qed.

Lemma read_fields_short : forall ws asserts bs,
  (length bs < fields_len ws)%nat -> read_fields ws asserts bs = None.
Proof.
  induction ws as [|w ws IH]; intros asserts bs H.
  - cbn [fields_len] in H. lia.
  - cbn [fields_len] in H. cbn [read_fields]. unfold take_exact.
    change (N.to_nat 4) with 4%nat.
    rewrite (take_nat_spec 4 bs).
    destruct (Nat.ltb_spec (length bs) 4) as [_|H4]; [reflexivity|].
    match goal with |- (if negb ?c then _ else _) = _ => destruct (negb c) end; [reflexivity|].
    rewrite take_nat_spec. rewrite skipn_length.
    destruct (Nat.ltb_spec (length bs - 4) (N.to_nat w)) as [_|Hw]; [reflexivity|].
    rewrite IH; [reflexivity|]. rewrite !skipn_length. lia.
Qed.

(* the values the loader obtains: the written value modulo the field width *)
Definition norm_row (ws vals : list N) : list N :=
  map (fun wv => snd wv mod 256 ^ fst wv) (combine ws vals).

Lemma read_fields_full : forall ws lens vals asserts rest,
  length lens = length ws -> length vals = length ws ->
  asserts_okb lens asserts = true -> Forall (fun l => l < 2 ^ 32) lens ->
  read_fields ws asserts (fields_bytes lens ws vals ++ rest) = Some (norm_row ws vals, rest).
Proof.
  induction ws as [|w ws IH]; intros lens vals asserts rest Hl Hv Ha H32.
  - destruct lens; [|discriminate]. reflexivity.
  - destruct lens as [|l lens]; [discriminate|]. destruct vals as [|v vals]; [discriminate|].
    inversion H32 as [|l' lens' Hl32 H32']; subst.
    rewrite fields_bytes_cons, <- !app_assoc.
    cbn [read_fields]. rewrite take_exact_be.
    assert (Hbl : be_value (be 4 l) = l) by (apply be_value_be; exact Hl32).
    assert (Hok : negb (match asserts with Some a :: _ => be_value (be 4 l) =? a | _ => true end) = false).
    { rewrite Hbl. destruct asserts as [|[a|] as']; [reflexivity| |reflexivity].
      cbn [asserts_okb] in Ha. apply andb_prop in Ha. destruct Ha as [Ha _]. rewrite Ha. reflexivity. }
    rewrite Hok. rewrite take_exact_be.
    assert (Ha' : asserts_okb lens (tl asserts) = true).
    { destruct asserts as [|[a|] as']; cbn [tl].
      - apply asserts_okb_nil.
      - cbn [asserts_okb] in Ha. apply andb_prop in Ha. exact (proj2 Ha).
      - exact Ha. }
    cbn [length] in Hl, Hv.
    rewrite (IH lens vals (tl asserts) rest) by (lia || assumption).
    unfold norm_row. cbn [combine map fst snd]. rewrite be_value_be_mod. reflexivity.
Qed.

Lemma norm_row_id : forall ws vals,
  Forall2 (fun w v => v < 256 ^ w) ws vals -> norm_row ws vals = vals.
Proof.
  intros ws vals H. induction H as [|w v ws vals Hv _ IH].
  - reflexivity.
  - unfold norm_row in *. cbn [combine map fst snd]. rewrite IH, N.mod_small by exact Hv. reflexivity.
Qed.
