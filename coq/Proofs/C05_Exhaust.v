(* Proofs/C05_Exhaust.v -- the generated table EXHAUST (Gen/GenPerm.v, read from the Rust source)
   is exactly the symmetric group S4: the 24 distinct lists of length four in which each of the
   suits 0..3 occurs. *)
From Coq Require Import NArith List Bool Lia.
From RP Require Import Gen.GenPerm Spec.SpecIso.
Import ListNotations.
Open Scope N_scope.

Lemma exhaust_all_perm4 : forallb is_perm4 EXHAUST = true.
Proof. vm_compute. reflexivity. Qed.

Lemma exhaust_sound : forall p, In p EXHAUST -> is_perm4 p = true.
Proof. intros p Hp. exact (proj1 (forallb_forall is_perm4 EXHAUST) exhaust_all_perm4 p Hp). Qed.

Lemma in4 : forall (s a b c e : N), existsb (N.eqb s) [a; b; c; e] = true ->
  s = a \/ s = b \/ s = c \/ s = e.
Proof.
  intros s a b c e H. cbn [existsb] in H.
  destruct (N.eqb_spec s a) as [E|_]; [auto|].
  destruct (N.eqb_spec s b) as [E|_]; [auto|].
  destruct (N.eqb_spec s c) as [E|_]; [auto|].
  destruct (N.eqb_spec s e) as [E|_]; [auto|].
  discriminate H.
Qed.

Lemma exhaust_complete : forall p, is_perm4 p = true -> In p EXHAUST.
Proof.
  intros p H. unfold is_perm4 in H. apply andb_true_iff in H. destruct H as (Hl & Hf).
  destruct p as [|a [|b [|c [|e [|x r]]]]]; try discriminate Hl.
  cbn [forallb] in Hf.
  apply andb_true_iff in Hf. destruct Hf as (H0 & Hf).
  apply andb_true_iff in Hf. destruct Hf as (H1 & Hf).
  apply andb_true_iff in Hf. destruct Hf as (H2 & Hf).
  apply andb_true_iff in Hf. destruct Hf as (H3 & _).
  apply in4 in H0. apply in4 in H1. apply in4 in H2. apply in4 in H3.
  destruct H0 as [H0|[H0|[H0|H0]]]; destruct H1 as [H1|[H1|[H1|H1]]]; try congruence;
  destruct H2 as [H2|[H2|[H2|H2]]]; try congruence;
  destruct H3 as [H3|[H3|[H3|H3]]]; try congruence;
  subst; unfold EXHAUST; cbn [In]; repeat (try (left; reflexivity); right).
Qed.

Theorem exhaust_is_S4 : forall p, is_perm4 p = true <-> In p EXHAUST.
Proof. intros p. split; [apply exhaust_complete | apply exhaust_sound]. Qed.

Lemma exhaust_length24 : length EXHAUST = 24%nat.
Proof. reflexivity. Qed.

Lemma exhaust_nodup : NoDup EXHAUST.
Proof.
  unfold EXHAUST.
  repeat (constructor; [cbn [In]; let H := fresh "H" in intros H;
                        repeat (destruct H as [H|H]; [discriminate H|]); exact H|]).
  constructor.
Qed.

(* the same completeness over plain lists of suits: length four, entries below four, no repeats *)
Lemma exhaust_complete_nodup : forall p, length p = 4%nat -> Forall (fun s => s < 4) p -> NoDup p ->
  In p EXHAUST.
Proof.
  intros p Hl Hf Hn.
  destruct p as [|a [|b [|c [|e [|x r]]]]]; try discriminate Hl.
  inversion Hf as [|? ? Ha Hf1]; subst. inversion Hf1 as [|? ? Hb Hf2]; subst.
  inversion Hf2 as [|? ? Hc Hf3]; subst. inversion Hf3 as [|? ? He _]; subst.
  inversion Hn as [|? ? Na Hn1]; subst. inversion Hn1 as [|? ? Nb Hn2]; subst.
  inversion Hn2 as [|? ? Nc _]; subst.
  cbn [In] in Na, Nb, Nc.
  assert (Ca : a = 0 \/ a = 1 \/ a = 2 \/ a = 3) by lia.
  assert (Cb : b = 0 \/ b = 1 \/ b = 2 \/ b = 3) by lia.
  assert (Cc : c = 0 \/ c = 1 \/ c = 2 \/ c = 3) by lia.
  assert (Ce : e = 0 \/ e = 1 \/ e = 2 \/ e = 3) by lia.
  destruct Ca as [?|[?|[?|?]]]; destruct Cb as [?|[?|[?|?]]]; subst; try tauto;
  destruct Cc as [?|[?|[?|?]]]; subst; try tauto;
  destruct Ce as [?|[?|[?|?]]]; subst; try tauto;
  unfold EXHAUST; cbn [In]; repeat (try (left; reflexivity); right).
Qed.
