(* Proofs/C01_Lists.v -- list lemmas for C01: list maximum, k-sublists, value5 through rank lists. *)
From Coq Require Import NArith List Bool Lia.
From RP Require Import Base.Bits Model.Codec Spec.SpecPoker.
Import ListNotations.
Open Scope N_scope.

(* ---------- maximum of a list ---------- *)
Definition lmax (l : list N) : N := fold_left N.max l 0.

Lemma fold_max_ge_acc : forall l a, a <= fold_left N.max l a.
Proof.
  induction l as [|x l IH]; intros a; cbn [fold_left]; [lia|].
  specialize (IH (N.max a x)). lia.
Qed.

Lemma fold_max_in : forall l a x, In x l -> x <= fold_left N.max l a.
Proof.
  induction l as [|y l IH]; intros a x Hin; cbn [fold_left]; [destruct Hin|].
  destruct Hin as [Heq|Hin].
  - subst y. pose proof (fold_max_ge_acc l (N.max a x)). lia.
  - apply IH; exact Hin.
Qed.

Lemma fold_max_le : forall l a b, a <= b -> (forall x, In x l -> x <= b) -> fold_left N.max l a <= b.
Proof.
  induction l as [|y l IH]; intros a b Ha Hall; cbn [fold_left]; [exact Ha|].
  apply IH.
  - specialize (Hall y (or_introl eq_refl)). lia.
  - intros x Hx. apply Hall. right; exact Hx.
Qed.

Lemma lmax_in : forall l x, In x l -> x <= lmax l.
Proof. intros l x H. apply fold_max_in; exact H. Qed.

Lemma lmax_le : forall l b, (forall x, In x l -> x <= b) -> lmax l <= b.
Proof. intros l b H. apply fold_max_le; [lia|exact H]. Qed.

Lemma lmax_nil : lmax [] = 0.
Proof. reflexivity. Qed.

(* ---------- sublists ---------- *)
Lemma sublists_map : forall (f : N -> N) l k, sublists k (map f l) = map (map f) (sublists k l).
Proof.
  intros f l. induction l as [|x r IH]; intros k; destruct k as [|k']; cbn [sublists map]; try reflexivity.
  rewrite map_app, !IH, !map_map. reflexivity.
Qed.

Lemma sublists_length : forall l k s, In s (sublists k l) -> length s = k.
Proof.
  induction l as [|x r IH]; intros k s Hin; destruct k as [|k']; cbn [sublists] in Hin.
  - destruct Hin as [<-|[]]. reflexivity.
  - destruct Hin.
  - destruct Hin as [<-|[]]. reflexivity.
  - apply in_app_or in Hin. destruct Hin as [Hin|Hin].
    + apply in_map_iff in Hin. destruct Hin as [s' [<- Hs']]. cbn [length]. f_equal. apply (IH _ _ Hs').
    + apply (IH _ _ Hin).
Qed.

Lemma sublists_incl : forall l k s, In s (sublists k l) -> forall x, In x s -> In x l.
Proof.
  induction l as [|y r IH]; intros k s Hin x Hx; destruct k as [|k']; cbn [sublists] in Hin.
  - destruct Hin as [<-|[]]. destruct Hx.
  - destruct Hin.
  - destruct Hin as [<-|[]]. destruct Hx.
  - apply in_app_or in Hin. destruct Hin as [Hin|Hin].
    + apply in_map_iff in Hin. destruct Hin as [s' [<- Hs']].
      destruct Hx as [<-|Hx]; [left; reflexivity|right; apply (IH _ _ Hs' _ Hx)].
    + right. apply (IH _ _ Hin _ Hx).
Qed.

Lemma sublists_0 : forall l, sublists 0 l = [[]].
Proof. intros l. destruct l; reflexivity. Qed.

Lemma sublists_filter_in : forall (p : N -> bool) l k s,
  In s (sublists k l) -> (forall x, In x s -> p x = true) -> In s (sublists k (filter p l)).
Proof.
  intros p. induction l as [|y r IH]; intros k s Hin Hp; destruct k as [|k'].
  - rewrite sublists_0 in *. exact Hin.
  - destruct Hin.
  - rewrite sublists_0 in *. exact Hin.
  - cbn [sublists] in Hin. apply in_app_or in Hin. destruct Hin as [Hin|Hin].
    + apply in_map_iff in Hin. destruct Hin as [s' [<- Hs']].
      cbn [filter]. rewrite (Hp y (or_introl eq_refl)). cbn [sublists].
      apply in_or_app. left. apply in_map. apply IH; [exact Hs'|].
      intros x Hx. apply Hp. right; exact Hx.
    + specialize (IH _ _ Hin Hp). cbn [filter]. destruct (p y); [|exact IH].
      cbn [sublists]. apply in_or_app. right. exact IH.
Qed.

Lemma sublists_filter_sub : forall (p : N -> bool) l k s,
  In s (sublists k (filter p l)) -> In s (sublists k l).
Proof.
  intros p. induction l as [|y r IH]; intros k s Hin; destruct k as [|k'].
  - rewrite sublists_0 in *. exact Hin.
  - cbn [filter sublists] in Hin. destruct Hin.
  - rewrite sublists_0 in *. exact Hin.
  - cbn [filter] in Hin. cbn [sublists]. apply in_or_app. destruct (p y).
    + cbn [sublists] in Hin. apply in_app_or in Hin. destruct Hin as [Hin|Hin].
      * left. apply in_map_iff in Hin. destruct Hin as [s' [<- Hs']]. apply in_map. apply IH; exact Hs'.
      * right. apply IH; exact Hin.
    + right. apply IH; exact Hin.
Qed.

Lemma sublists_short : forall l k, (length l < k)%nat -> sublists k l = [].
Proof.
  induction l as [|y r IH]; intros k Hk; destruct k as [|k']; cbn [length] in Hk; try lia; cbn [sublists].
  - reflexivity.
  - rewrite (IH k'), (IH (S k')) by lia. reflexivity.
Qed.

(* ---------- value5 depends on the rank list and on suitedness only ---------- *)
Definition countR (R : list N) (r : N) : N := N.of_nat (length (filter (fun x => x =? r) R)).
Definition groupsR (R : list N) : list (N * N) :=
  flat_map (fun k => flat_map (fun r => if countR R r =? k then [(k, r)] else []) ranks_desc) [4; 3; 2; 1].

Definition W (d : deck) (R : list N) (fl : bool) : N :=
  let g := groupsR R in
  let counts := map fst g in
  let rs := map snd g in
  if list_eqb counts [4; 1] then encode_value (class_value d CQuads) rs
  else if list_eqb counts [3; 2] then encode_value (class_value d CFull) rs
  else if list_eqb counts [3; 1; 1] then encode_value (class_value d CTrips) rs
  else if list_eqb counts [2; 2; 1] then encode_value (class_value d CTwoPair) rs
  else if list_eqb counts [2; 1; 1; 1] then encode_value (class_value d CPair) rs
  else
    match straight_high d rs, fl with
    | Some h, true => encode_value (class_value d CStraightFlush) [h]
    | Some h, false => encode_value (class_value d CStraight) [h]
    | None, true => encode_value (class_value d CFlush) rs
    | None, false => encode_value (class_value d CHigh) rs
    end.

Lemma count_rank_countR : forall cs r, count_rank cs r = countR (map rank_of cs) r.
Proof.
  intros cs r. unfold count_rank, countR. f_equal.
  induction cs as [|c cs IH]; [reflexivity|].
  cbn [map filter]. destruct (rank_of c =? r); cbn [length]; rewrite IH; reflexivity.
Qed.

Lemma groups_groupsR : forall cs, groups cs = groupsR (map rank_of cs).
Proof.
  intros cs. unfold groups, groupsR.
  apply flat_map_ext. intros k. apply flat_map_ext. intros r.
  rewrite count_rank_countR. reflexivity.
Qed.

Lemma value5_W : forall d cs, value5 d cs = W d (map rank_of cs) (is_flush cs).
Proof. intros d cs. unfold value5, W. rewrite groups_groupsR. reflexivity. Qed.

(* encode_value is the class in the top digit *)
Lemma fold_enc_shift : forall t a b, (* linear in the start value *)
  fold_left (fun a x => a * 16 + x) t (a + b) =
  a * 16 ^ N.of_nat (length t) + fold_left (fun a x => a * 16 + x) t b.
Proof.
  induction t as [|x t IH]; intros a b.
  - cbn [fold_left length]. change (16 ^ N.of_nat 0) with 1. lia.
  - cbn [fold_left length]. replace ((a + b) * 16 + x) with (a * 16 + (b * 16 + x)) by lia.
    rewrite IH. rewrite Nat2N.inj_succ, N.pow_succ_r'. lia.
Qed.

Lemma firstn5_length : forall t : list N, length (firstn 5 (t ++ [0; 0; 0; 0; 0])) = 5%nat.
Proof.
  intros t. rewrite firstn_length, app_length. cbn [length]. lia.
Qed.

Lemma encode_value_cls : forall cls t, encode_value cls t = cls * 1048576 + encode_value 0 t.
Proof.
  intros cls t. unfold encode_value.
  replace cls with (cls + 0) at 1 by lia.
  rewrite fold_enc_shift, firstn5_length. reflexivity.
Qed.

Lemma encode_value_mono_cls : forall c1 c2 t, c1 <= c2 -> encode_value c1 t <= encode_value c2 t.
Proof.
  intros c1 c2 t H. rewrite (encode_value_cls c1), (encode_value_cls c2). lia.
Qed.

Lemma W_flush_ge : forall d R, W d R false <= W d R true.
Proof.
  intros d R. unfold W.
  repeat match goal with |- context [if ?c then _ else _] => destruct c; [lia|] end.
  destruct (straight_high d _) as [h|]; apply encode_value_mono_cls; destruct d; cbv; discriminate.
Qed.

(* ---------- suitedness ---------- *)
Lemma is_flush_all : forall l s, l <> [] -> (forall x, In x l -> suit_of x = s) -> is_flush l = true.
Proof.
  intros l s Hne Hall. destruct l as [|c r]; [congruence|]. cbn [is_flush].
  apply forallb_forall. intros x Hx. apply N.eqb_eq.
  rewrite (Hall x (or_intror Hx)), (Hall c (or_introl eq_refl)). reflexivity.
Qed.

Lemma is_flush_inv : forall l, is_flush l = true ->
  exists c, In c l /\ forall x, In x l -> suit_of x = suit_of c.
Proof.
  intros l H. destruct l as [|c r]; [discriminate|]. cbn [is_flush] in H.
  exists c. split; [left; reflexivity|]. intros x [<-|Hx]; [reflexivity|].
  rewrite forallb_forall in H. apply N.eqb_eq. apply H; exact Hx.
Qed.

(* ---------- best5 split into a rank part and a suited part ---------- *)
Definition NF (d : deck) (R : list N) : N := lmax (map (fun r => W d r false) (sublists 5 R)).
Definition FL (d : deck) (R : list N) : N := lmax (map (fun r => W d r true) (sublists 5 R)).
Definition suited (s : N) (cs : list N) : list N := filter (fun c => suit_of c =? s) cs.

Lemma suit_of_lt4 : forall c, suit_of c < 4.
Proof. intros c. unfold suit_of. apply N.mod_lt. discriminate. Qed.

Lemma suit_cases : forall s, s < 4 -> In s [0; 1; 2; 3].
Proof.
  intros s Hs. cbn [In].
  assert (s = 0 \/ s = 1 \/ s = 2 \/ s = 3) as H by lia.
  destruct H as [H|[H|[H|H]]]; subst s; auto.
Qed.

Theorem best5_split : forall d cs,
  best5 d cs = N.max (NF d (map rank_of cs))
                     (lmax (map (fun s => FL d (map rank_of (suited s cs))) [0; 1; 2; 3])).
Proof.
  intros d cs. apply N.le_antisymm.
  - (* every 5-sublist is counted on the right *)
    unfold best5. apply lmax_le. intros v Hv.
    apply in_map_iff in Hv. destruct Hv as [l [<- Hl]].
    rewrite value5_W. destruct (is_flush l) eqn:Hf.
    + apply is_flush_inv in Hf. destruct Hf as [c [Hc Hall]].
      apply N.le_trans with (2 := N.le_max_r _ _).
      apply N.le_trans with (m := FL d (map rank_of (suited (suit_of c) cs))).
      * unfold FL. apply lmax_in. apply in_map_iff. exists (map rank_of l). split; [reflexivity|].
        rewrite sublists_map. apply in_map. unfold suited. apply sublists_filter_in; [exact Hl|].
        intros x Hx. apply N.eqb_eq. apply Hall; exact Hx.
      * apply lmax_in. apply in_map_iff. exists (suit_of c). split; [reflexivity|].
        apply suit_cases. apply suit_of_lt4.
    + apply N.le_trans with (2 := N.le_max_l _ _).
      unfold NF. apply lmax_in. apply in_map_iff. exists (map rank_of l). split; [reflexivity|].
      rewrite sublists_map. apply in_map. exact Hl.
  - apply N.max_lub.
    + unfold NF. apply lmax_le. intros v Hv.
      apply in_map_iff in Hv. destruct Hv as [R [<- HR]].
      rewrite sublists_map in HR. apply in_map_iff in HR. destruct HR as [l [<- Hl]].
      apply N.le_trans with (m := value5 d l).
      * rewrite value5_W. destruct (is_flush l); [apply W_flush_ge|lia].
      * unfold best5. apply lmax_in. apply in_map. exact Hl.
    + apply lmax_le. intros v Hv. apply in_map_iff in Hv. destruct Hv as [s [<- _]].
      unfold FL. apply lmax_le. intros v Hv.
      apply in_map_iff in Hv. destruct Hv as [R [<- HR]].
      rewrite sublists_map in HR. apply in_map_iff in HR. destruct HR as [l [<- Hl]].
      assert (is_flush l = true) as Hf.
      { apply is_flush_all with (s := s).
        - apply sublists_length in Hl. destruct l; [discriminate|congruence].
        - intros x Hx. pose proof (sublists_incl _ _ _ Hl x Hx) as Hin.
          unfold suited in Hin. apply filter_In in Hin. apply N.eqb_eq. apply Hin. }
      rewrite <- Hf, <- value5_W.
      unfold best5. apply lmax_in. apply in_map. unfold suited in Hl.
      apply sublists_filter_sub in Hl. exact Hl.
Qed.

Lemma FL_short : forall d R, (length R < 5)%nat -> FL d R = 0.
Proof. intros d R H. unfold FL. rewrite sublists_short by exact H. reflexivity. Qed.
