(* Proofs/C09_F32.v -- the binary32 model of Profile::policy_vector (Model/PolicyF32.v):
   the assertions 0 <= p <= 1 fire exactly when a stored regret is +infinity (repaired divisor),
   and on a fresh profile (epochs = 0) with the original divisor exactly when a stored regret is
   +infinity or positive.  All special values (NaN, infinities, signed zeros, subnormals) and
   overflow of the sum are covered. *)
From Coq Require Import ZArith List Bool Reals Lia Lra Psatz.
From Flocq Require Import Core.Core IEEE754.BinarySingleNaN Relative Plus_error.
From RP Require Import Gen.GenLib Gen.GenFixes Model.BetF32 Model.PolicyF32.
Import ListNotations.
Local Open Scope R_scope.

Local Notation fexp32 := (SpecFloat.fexp prec emax).
Local Notation rnd := (round radix2 fexp32 ZnearestE).
Local Notation fmt := (generic_format radix2 fexp32).

Local Instance prec_gt_0_32 : Prec_gt_0 prec := Hprec.
Local Instance fexp32_valid : Valid_exp fexp32 := fexp_correct prec emax Hprec.
Local Instance fexp32_mono : Monotone_exp fexp32 := fexp_monotone prec emax.

(* ---------- constants ---------- *)
Lemma IZR_pow2 : forall n : Z, (0 <= n)%Z -> IZR (2 ^ n) = bpow radix2 n.
Proof. intros n Hn. rewrite <- (IZR_Zpower radix2 n Hn). reflexivity. Qed.

Lemma B2R_policy_min : B2R policy_min = bpow radix2 (-126).
Proof.
  unfold policy_min, B2R, F2R, cond_Zopp, Fnum, Fexp.
  change 8388608%Z with (2 ^ 23)%Z. rewrite IZR_pow2 by lia.
  rewrite <- bpow_plus. reflexivity.
Qed.
Lemma B2R_f32_one : B2R f32_one = 1.
Proof.
  unfold f32_one, B2R, F2R, cond_Zopp, Fnum, Fexp.
  change 8388608%Z with (2 ^ 23)%Z. rewrite IZR_pow2 by lia.
  rewrite <- bpow_plus. reflexivity.
Qed.
Lemma policy_min_pos : 0 < bpow radix2 (-126).
Proof. apply bpow_gt_0. Qed.
(* the model constant is the generated POLICY_MIN *)
Lemma policy_min_generated : POLICY_MIN = F32_MIN_POSITIVE.
Proof. reflexivity. Qed.
Lemma f32_one_of_usize : f32_one = of_usize 1.
Proof. apply B2SF_inj. vm_compute. reflexivity. Qed.

Lemma fmt_one : fmt 1.
Proof. change 1 with (bpow radix2 0). apply generic_format_bpow. vm_compute. discriminate. Qed.
Lemma fmt_pow64 : fmt (bpow radix2 64).
Proof. apply generic_format_bpow. vm_compute. discriminate. Qed.

(* ---------- shapes ---------- *)
Lemma Bsign_pos : forall x : f32, is_finite x = true -> 0 < B2R x -> Bsign x = false.
Proof.
  intros [s|s| |s m e H] Hf Hx; simpl in *; try discriminate; try lra.
  destruct s; [exfalso|reflexivity].
  assert (F2R (Float radix2 (Zneg m) e) < 0) by (apply F2R_lt_0; simpl; lia).
  simpl in Hx. lra.
Qed.
Lemma finite_pos_shape : forall x : f32, is_finite x = true -> 0 < B2R x ->
  exists m e H, x = B754_finite false m e H.
Proof.
  intros x Hf Hx. pose proof (Bsign_pos x Hf Hx) as Hs.
  destruct x as [s|s| |s m e H]; simpl in *; try discriminate; try lra.
  subst s. exists m, e, H. reflexivity.
Qed.
Lemma B2SF_pinf : forall x : f32, B2SF x = SpecFloat.S754_infinity false -> x = pos_inf.
Proof. intros [s|s| |s m e H] Hx; simpl in Hx; try discriminate. injection Hx as ->. reflexivity. Qed.

(* ---------- the divisor ---------- *)
Lemma of_usize_ge_1 : forall z : Z, (1 <= z <= 2 ^ 64)%Z ->
  is_finite (of_usize z) = true /\ 1 <= B2R (of_usize z).
Proof.
  intros z Hz.
  pose proof (binary_normalize_correct prec emax Hprec Hmax mode_NE z 0 false) as H.
  cbv zeta in H. fold (of_usize z) in H.
  assert (Hx : F2R (Float radix2 z 0) = IZR z) by (unfold F2R; simpl; ring).
  rewrite Hx in H. cbn [round_mode] in H.
  assert (H1 : 1 <= rnd (IZR z)).
  { apply round_ge_generic; [typeclasses eauto|typeclasses eauto|exact fmt_one|]. apply IZR_le. lia. }
  assert (H2 : rnd (IZR z) <= bpow radix2 64).
  { apply round_le_generic; [typeclasses eauto|typeclasses eauto|exact fmt_pow64|].
    rewrite <- IZR_pow2 by lia. apply IZR_le. lia. }
  rewrite Rlt_bool_true in H.
  - destruct H as (Hr & Hf & _). split; [exact Hf|]. rewrite Hr. exact H1.
  - rewrite Rabs_pos_eq by lra. apply Rle_lt_trans with (1 := H2). apply bpow_lt. reflexivity.
Qed.

(* ---------- cumulated regret: division by a finite divisor >= 1 ---------- *)
Lemma fdiv_finite : forall r d : f32, is_finite r = true -> is_finite d = true -> 1 <= B2R d ->
  is_finite (fdiv r d) = true.
Proof.
  intros r d Hr Hd Hd1.
  pose proof (Bdiv_correct prec emax Hprec Hmax mode_NE r d) as H.
  cbn [round_mode] in H. fold (fdiv r d) in H.
  rewrite Rlt_bool_true in H.
  - destruct H as (_ & Hf & _); [lra|]. rewrite Hf. exact Hr.
  - apply Rle_lt_trans with (2 := abs_B2R_lt_emax prec emax r).
    apply abs_round_le_generic; [typeclasses eauto|typeclasses eauto| |].
    + apply generic_format_abs. apply generic_format_B2R.
    + unfold Rdiv. rewrite Rabs_mult. rewrite <- (Rmult_1_r (Rabs (B2R r))) at 2.
      apply Rmult_le_compat_l; [apply Rabs_pos|].
      rewrite Rabs_pos_eq.
      * rewrite <- Rinv_1. apply Rinv_le; lra.
      * apply Rlt_le, Rinv_0_lt_compat. lra.
Qed.

Lemma fdiv_pinf_iff : forall r d : f32, is_finite d = true -> 1 <= B2R d ->
  (fdiv r d = pos_inf <-> r = pos_inf).
Proof.
  intros r d Hd Hd1.
  destruct (finite_pos_shape d Hd ltac:(lra)) as (m & e & H & Hde).
  destruct r as [s|s| |s mr er Hr].
  - subst d. simpl. split; discriminate.
  - subst d. simpl. destruct s; simpl; split; try discriminate; reflexivity.
  - subst d. simpl. split; discriminate.
  - pose proof (fdiv_finite (B754_finite s mr er Hr) d eq_refl Hd Hd1) as Hf.
    split; intros Heq; [|discriminate]. rewrite Heq in Hf. discriminate.
Qed.

(* division by +0.0 (the original divisor at epochs = 0) *)
Lemma fdiv_zero_pinf_iff : forall r : f32,
  fdiv r (B754_zero false) = pos_inf <-> (r = pos_inf \/ (is_finite r = true /\ 0 < B2R r)).
Proof.
  intros [s|s| |s m e H]; simpl.
  - split; [discriminate|]. intros [Hh|(_ & Hh)]; [discriminate|lra].
  - destruct s; simpl; split; try discriminate; auto.
    intros [Hh|(Hh & _)]; discriminate.
  - split; [discriminate|]. intros [Hh|(Hh & _)]; discriminate.
  - destruct s; simpl.
    + split; [discriminate|]. intros [Hh|(_ & Hh)]; [discriminate|].
      assert (F2R (Float radix2 (Zneg m) e) < 0) by (apply F2R_lt_0; simpl; lia). lra.
    + split; [|reflexivity]. intros _. right. split; [reflexivity|].
      apply F2R_gt_0. simpl. lia.
Qed.

(* ---------- the floor ---------- *)
Definition finpos (x : f32) : Prop := is_finite x = true /\ bpow radix2 (-126) <= B2R x.
Definition posval (x : f32) : Prop := x = pos_inf \/ finpos x.
Definition nonneg (x : f32) : Prop := x = pos_inf \/ (is_finite x = true /\ 0 <= B2R x).

Lemma finpos_policy_min : finpos policy_min.
Proof. split; [reflexivity|]. rewrite B2R_policy_min. lra. Qed.

Lemma floored32_pinf : floored32 pos_inf = pos_inf.
Proof. reflexivity. Qed.
Lemma floored32_finpos : forall c : f32, c <> pos_inf -> finpos (floored32 c).
Proof.
  intros [s|s| |s m e H] Hc.
  - replace (floored32 (B754_zero s)) with policy_min by (destruct s; reflexivity).
    exact finpos_policy_min.
  - destruct s; [|elim Hc; reflexivity]. exact finpos_policy_min.
  - exact finpos_policy_min.
  - set (c := B754_finite s m e H).
    assert (Hfl : floored32 c = match Bcompare c policy_min with Some Lt => policy_min | _ => c end)
      by reflexivity.
    rewrite Hfl. rewrite (Bcompare_correct prec emax c policy_min eq_refl eq_refl).
    destruct (Rcompare_spec (B2R c) (B2R policy_min)) as [Hlt|Heq|Hgt].
    + exact finpos_policy_min.
    + split; [reflexivity|]. rewrite <- B2R_policy_min. lra.
    + split; [reflexivity|]. rewrite <- B2R_policy_min. lra.
Qed.
Lemma floored32_posval : forall c : f32, posval (floored32 c).
Proof.
  intros c.
  destruct c as [s|[|]| |s m e H]; try (right; apply floored32_finpos; discriminate).
  left. reflexivity.
Qed.
Lemma floored32_pinf_iff : forall c : f32, floored32 c = pos_inf <-> c = pos_inf.
Proof.
  intros c. split; [|intros ->; reflexivity].
  intros Hc. destruct c as [s|[|]| |s m e H]; try reflexivity;
  match goal with |- ?x = _ => assert (Hf : finpos (floored32 x)) by (apply floored32_finpos; discriminate) end;
  rewrite Hc in Hf; destruct Hf as (Hf & _); discriminate.
Qed.

(* ---------- one addition ---------- *)
Lemma fmt_B2R : forall x : f32, fmt (B2R x).
Proof. intros x. apply generic_format_B2R. Qed.

Lemma fadd_nonneg_pos : forall a y : f32, nonneg a -> posval y ->
  posval (fadd a y) /\
  (is_finite (fadd a y) = true ->
     is_finite a = true /\ is_finite y = true /\
     B2R a <= B2R (fadd a y) /\ B2R y <= B2R (fadd a y)).
Proof.
  intros a y Ha Hy.
  destruct Ha as [->|(Haf & Ha0)].
  { destruct Hy as [->|(Hyf & _)].
    - split; [left; reflexivity|]. intros Hf. discriminate.
    - assert (Hs : fadd pos_inf y = pos_inf) by (destruct y; try discriminate; reflexivity).
      rewrite Hs. split; [left; reflexivity|]. intros Hf. discriminate. }
  destruct Hy as [->|(Hyf & Hy0)].
  { assert (Hs : fadd a pos_inf = pos_inf) by (destruct a; try discriminate; reflexivity).
    rewrite Hs. split; [left; reflexivity|]. intros Hf. discriminate. }
  pose proof policy_min_pos as Hpm.
  pose proof (Bplus_correct prec emax Hprec Hmax mode_NE a y Haf Hyf) as H.
  cbn [round_mode] in H. fold (fadd a y) in H.
  assert (Hge_y : B2R y <= rnd (B2R a + B2R y)).
  { apply round_ge_generic; [typeclasses eauto|typeclasses eauto|apply fmt_B2R|lra]. }
  assert (Hge_a : B2R a <= rnd (B2R a + B2R y)).
  { apply round_ge_generic; [typeclasses eauto|typeclasses eauto|apply fmt_B2R|lra]. }
  destruct (Rlt_bool (Rabs (rnd (B2R a + B2R y))) (bpow radix2 emax)).
  - destruct H as (Hr & Hf & _). rewrite Hr. split.
    + right. split; [exact Hf|lra].
    + intros _. repeat split; assumption.
  - destruct H as (Hov & Hsg).
    assert (Hsy : Bsign y = false) by (apply Bsign_pos; [exact Hyf|lra]).
    rewrite Hsg, Hsy in Hov.
    assert (Hs : fadd a y = pos_inf) by (apply B2SF_pinf; exact Hov).
    rewrite Hs. split; [left; reflexivity|]. intros Hf. discriminate.
Qed.

Lemma posval_nonneg : forall x : f32, posval x -> nonneg x.
Proof.
  intros x [->|(Hf & Hx)]; [left; reflexivity|]. right. split; [exact Hf|].
  pose proof policy_min_pos. lra.
Qed.

(* ---------- the left-to-right sum of positive terms ---------- *)
Lemma fold_fadd_pos : forall (l : list f32) (a : f32), nonneg a -> Forall posval l ->
  nonneg (fold_left fadd l a) /\
  (l <> [] -> posval (fold_left fadd l a)) /\
  (is_finite (fold_left fadd l a) = true ->
     is_finite a = true /\ B2R a <= B2R (fold_left fadd l a) /\
     Forall (fun y => is_finite y = true /\ B2R y <= B2R (fold_left fadd l a)) l).
Proof.
  induction l as [|y l IH]; intros a Ha Hl.
  - simpl. split; [exact Ha|]. split; [intros Hn; elim Hn; reflexivity|].
    intros Hf. split; [exact Hf|]. split; [lra|constructor].
  - inversion Hl as [|y' l' Hy Hl']; subst y' l'. cbn [fold_left].
    destruct (fadd_nonneg_pos a y Ha Hy) as (Hp & Hfin).
    destruct (IH (fadd a y) (posval_nonneg _ Hp) Hl') as (IH1 & IH2 & IH3).
    split; [exact IH1|]. split.
    + intros _. destruct l as [|z l]; [exact Hp|]. apply IH2. discriminate.
    + intros Hf. destruct (IH3 Hf) as (Hf1 & Hle & Hall).
      destruct (Hfin Hf1) as (Haf & Hyf & Hale & Hyle).
      split; [exact Haf|]. split; [lra|].
      constructor; [split; [exact Hyf|lra]|exact Hall].
Qed.

Lemma nonneg_zero : nonneg f32_zero.
Proof. right. split; [reflexivity|]. simpl. lra. Qed.

Lemma fsum32_pos : forall l : list f32, Forall posval l ->
  (fsum32 l = pos_inf \/
   (is_finite (fsum32 l) = true /\
    Forall (fun y => is_finite y = true /\ B2R y <= B2R (fsum32 l)) l)).
Proof.
  intros l Hl. unfold fsum32.
  destruct (fold_fadd_pos l f32_zero nonneg_zero Hl) as (H1 & _ & H3).
  destruct H1 as [H1|(H1 & _)]; [left; exact H1|].
  right. split; [exact H1|]. apply (H3 H1).
Qed.

(* ---------- the assertions on one entry ---------- *)
Lemma entry_ok_iff : forall p : f32,
  entry_ok p = true <-> (is_finite p = true /\ 0 <= B2R p <= 1).
Proof.
  intros [s|s| |s m e H].
  - split.
    + intros _. simpl. split; [reflexivity|lra].
    + intros _. destruct s; reflexivity.
  - split.
    + destruct s; intros Hh; discriminate.
    + intros (Hh & _). discriminate.
  - split; [intros Hh; discriminate|intros (Hh & _); discriminate].
  - set (p := B754_finite s m e H). unfold entry_ok, fge32, fle32.
    rewrite (Bcompare_correct prec emax p f32_zero eq_refl eq_refl).
    rewrite (Bcompare_correct prec emax p f32_one eq_refl eq_refl).
    rewrite B2R_f32_one. change (B2R f32_zero) with 0.
    split.
    + intros Hh. split; [reflexivity|].
      destruct (Rcompare_spec (B2R p) 0) as [H0|H0|H0];
      destruct (Rcompare_spec (B2R p) 1) as [H1|H1|H1]; try discriminate; lra.
    + intros (_ & Hh).
      destruct (Rcompare_spec (B2R p) 0) as [H0|H0|H0];
      destruct (Rcompare_spec (B2R p) 1) as [H1|H1|H1]; try reflexivity; lra.
Qed.

(* ---------- one quotient ---------- *)
Lemma fdiv_unit : forall m s : f32, finpos m -> is_finite s = true -> B2R m <= B2R s ->
  is_finite (fdiv m s) = true /\ 0 <= B2R (fdiv m s) <= 1.
Proof.
  intros m s (Hmf & Hm) Hsf Hms. pose proof policy_min_pos as Hpm.
  pose proof (Bdiv_correct prec emax Hprec Hmax mode_NE m s) as H.
  cbn [round_mode] in H. fold (fdiv m s) in H.
  assert (Hq : 0 <= B2R m / B2R s <= 1).
  { split.
    - apply Rlt_le, Rdiv_lt_0_compat; lra.
    - apply Rmult_le_reg_r with (B2R s); [lra|]. unfold Rdiv.
      rewrite Rmult_assoc, Rinv_l by lra. lra. }
  assert (H0 : 0 <= rnd (B2R m / B2R s)).
  { apply round_ge_generic; [typeclasses eauto|typeclasses eauto|apply generic_format_0|lra]. }
  assert (H1 : rnd (B2R m / B2R s) <= 1).
  { apply round_le_generic; [typeclasses eauto|typeclasses eauto|exact fmt_one|lra]. }
  rewrite Rlt_bool_true in H.
  - destruct H as (Hr & Hf & _); [lra|]. rewrite Hr, Hf. split; [exact Hmf|lra].
  - rewrite Rabs_pos_eq by lra. apply Rle_lt_trans with (1 := H1).
    change 1 with (bpow radix2 0). apply bpow_lt. reflexivity.
Qed.

Lemma fdiv_finite_by_pinf : forall m : f32, is_finite m = true ->
  is_finite (fdiv m pos_inf) = true /\ B2R (fdiv m pos_inf) = 0.
Proof. intros [s|s| |s m e H] Hf; try discriminate; simpl; split; reflexivity. Qed.

(* ---------- normalise32: the abort condition ---------- *)
Definition is_pinf (c : f32) : bool := match c with B754_infinity false => true | _ => false end.
Lemma is_pinf_iff : forall c : f32, is_pinf c = true <-> c = pos_inf.
Proof.
  intros [s|[|]| |s m e H]; simpl; split; intros Hh; try discriminate; reflexivity.
Qed.

Lemma existsb_false_iff : forall (A : Type) (f : A -> bool) (l : list A),
  existsb f l = false <-> (forall x, In x l -> f x = false).
Proof.
  intros A f l. induction l as [|y l IH]; simpl.
  - split; [intros _ x []|reflexivity].
  - rewrite orb_false_iff, IH. split.
    + intros (Hy & Hl) x [<-|Hx]; [exact Hy|exact (Hl x Hx)].
    + intros Hh. split; [apply Hh; left; reflexivity|intros x Hx; apply Hh; right; exact Hx].
Qed.

(* no +infinity among the cumulated regrets: every entry is a finite number in [0, 1] *)
Lemma normalise32_unit : forall cs : list f32, (forall c, In c cs -> c <> pos_inf) ->
  Forall (fun p => is_finite p = true /\ 0 <= B2R p <= 1) (normalise32 cs).
Proof.
  intros cs Hcs. unfold normalise32.
  set (fl := map floored32 cs).
  assert (Hfl : Forall finpos fl).
  { apply Forall_forall. intros m Hm. apply in_map_iff in Hm. destruct Hm as (c & <- & Hc).
    apply floored32_finpos. exact (Hcs c Hc). }
  assert (Hpv : Forall posval fl).
  { apply Forall_forall. intros m Hm. right. exact (proj1 (Forall_forall _ _) Hfl m Hm). }
  apply Forall_forall. intros p Hp. apply in_map_iff in Hp. destruct Hp as (m & <- & Hm).
  pose proof (proj1 (Forall_forall _ _) Hfl m Hm) as Hmp.
  destruct (fsum32_pos fl Hpv) as [Hs|(Hsf & Hall)].
  - rewrite Hs. destruct (fdiv_finite_by_pinf m (proj1 Hmp)) as (Hf & Hv).
    split; [exact Hf|]. rewrite Hv. lra.
  - destruct (proj1 (Forall_forall _ _) Hall m Hm) as (_ & Hle).
    exact (fdiv_unit m (fsum32 fl) Hmp Hsf Hle).
Qed.

(* a +infinity among them: the sum is +infinity and that entry is inf / inf = NaN *)
Lemma normalise32_nan : forall cs : list f32, In pos_inf cs -> In B754_nan (normalise32 cs).
Proof.
  intros cs Hin. unfold normalise32.
  set (fl := map floored32 cs).
  assert (Hpv : Forall posval fl).
  { apply Forall_forall. intros m Hm. apply in_map_iff in Hm. destruct Hm as (c & <- & _).
    apply floored32_posval. }
  assert (Hm : In pos_inf fl).
  { apply in_map_iff. exists pos_inf. split; [reflexivity|exact Hin]. }
  apply in_map_iff. exists pos_inf. split; [|exact Hm].
  destruct (fsum32_pos fl Hpv) as [Hs|(_ & Hall)].
  - rewrite Hs. reflexivity.
  - destruct (proj1 (Forall_forall _ _) Hall pos_inf Hm) as (Hf & _). discriminate.
Qed.

Lemma normalise32_aborts : forall cs : list f32,
  existsb (fun p => negb (entry_ok p)) (normalise32 cs) = existsb is_pinf cs.
Proof.
  intros cs. destruct (existsb is_pinf cs) eqn:E.
  - apply existsb_exists in E. destruct E as (c & Hc & Hp). apply is_pinf_iff in Hp. subst c.
    apply existsb_exists. exists B754_nan. split; [exact (normalise32_nan cs Hc)|reflexivity].
  - apply existsb_false_iff. intros p Hp.
    assert (Hcs : forall c, In c cs -> c <> pos_inf).
    { intros c Hc Heq. apply is_pinf_iff in Heq.
      rewrite (proj1 (existsb_false_iff _ _ _) E c Hc) in Heq. discriminate. }
    pose proof (proj1 (Forall_forall _ _) (normalise32_unit cs Hcs) p Hp) as Hu.
    apply entry_ok_iff in Hu. rewrite Hu. reflexivity.
Qed.


(* ---------- error analysis: how far the entries are from summing to 1 ---------- *)
(* u32 = 2^-24 is the unit roundoff of binary32, eta32 = 2^-150 half the smallest subnormal *)
Definition u32 : R := bpow radix2 (-24).
Definition eta32 : R := bpow radix2 (-150).
Definition Rsum (l : list f32) : R := fold_right Rplus 0 (map (@B2R prec emax) l).

Lemma half_bpow : forall e : Z, / 2 * bpow radix2 e = bpow radix2 (e - 1).
Proof.
  intros e. replace (e - 1)%Z with (e + (-1))%Z by ring. rewrite bpow_plus.
  assert (H : bpow radix2 (-1) = / 2) by reflexivity. rewrite H. ring.
Qed.
Lemma u32_bounds : 0 < u32 < / 2.
Proof.
  unfold u32. split; [apply bpow_gt_0|]. change (/ 2) with (bpow radix2 (-1)). apply bpow_lt. reflexivity.
Qed.

Lemma rnd_plus_rel : forall x y : R, fmt x -> fmt y ->
  exists e, Rabs e <= u32 /\ rnd (x + y) = (x + y) * (1 + e).
Proof.
  intros x y Fx Fy.
  destruct (FLT_plus_error_N_ex radix2 (SpecFloat.emin prec emax) prec (fun z => negb (Z.even z)) x y Fx Fy)
    as (e & He & Hr).
  exists e. split; [|exact Hr].
  apply Rle_trans with (1 := He). apply Rle_trans with (1 := u_rod1pu_ro_le_u_ro radix2 prec).
  unfold u_ro. rewrite half_bpow. apply Req_le. reflexivity.
Qed.

Lemma rnd_rel_abs : forall x : R,
  exists e n, Rabs e <= u32 /\ Rabs n <= eta32 /\ rnd x = x * (1 + e) + n.
Proof.
  intros x.
  destruct (error_N_FLT radix2 (SpecFloat.emin prec emax) prec Hprec (fun z => negb (Z.even z)) x)
    as (e & n & He & Hn & _ & Hr).
  exists e, n. rewrite half_bpow in He, Hn. split; [exact He|]. split; [exact Hn|exact Hr].
Qed.

Lemma fadd_finite_B2R : forall a y : f32, is_finite a = true -> is_finite y = true ->
  is_finite (fadd a y) = true -> B2R (fadd a y) = rnd (B2R a + B2R y).
Proof.
  intros a y Ha Hy Hf.
  pose proof (Bplus_correct prec emax Hprec Hmax mode_NE a y Ha Hy) as H.
  cbn [round_mode] in H. fold (fadd a y) in H.
  destruct (Rlt_bool (Rabs (rnd (B2R a + B2R y))) (bpow radix2 emax)).
  - exact (proj1 H).
  - destruct H as (Hov & _). exfalso. unfold binary_overflow, overflow_to_inf in Hov.
    destruct (fadd a y); simpl in Hov, Hf; discriminate.
Qed.

Lemma B2R_posval_nonneg : forall y : f32, posval y -> 0 <= B2R y.
Proof.
  intros y [->|(_ & Hy)]; [simpl; lra|]. pose proof policy_min_pos. lra.
Qed.
Lemma Rsum_nonneg : forall l : list f32, Forall posval l -> 0 <= Rsum l.
Proof.
  intros l Hl. induction Hl as [|y l Hy Hl IH]; unfold Rsum in *; simpl; [lra|].
  pose proof (B2R_posval_nonneg y Hy). lra.
Qed.
Lemma Rsum_cons : forall (y : f32) (l : list f32), Rsum (y :: l) = B2R y + Rsum l.
Proof. reflexivity. Qed.

Lemma fold_fadd_err : forall (l : list f32) (a : f32), nonneg a -> Forall posval l ->
  is_finite (fold_left fadd l a) = true ->
  (B2R a + Rsum l) * (1 - u32) ^ length l <= B2R (fold_left fadd l a)
    <= (B2R a + Rsum l) * (1 + u32) ^ length l.
Proof.
  pose proof u32_bounds as Hu.
  induction l as [|y l IH]; intros a Ha Hl Hf.
  - unfold Rsum. simpl. lra.
  - inversion Hl as [|y' l' Hy Hl']; subst y' l'. cbn [fold_left] in *.
    destruct (fadd_nonneg_pos a y Ha Hy) as (Hp & Hfin).
    pose proof (posval_nonneg _ Hp) as Hn'.
    destruct (fold_fadd_pos l (fadd a y) Hn' Hl') as (_ & _ & H3).
    destruct (H3 Hf) as (Hf' & _ & _).
    destruct (Hfin Hf') as (Haf & Hyf & Hale & Hyle).
    pose proof (fadd_finite_B2R a y Haf Hyf Hf') as Hr.
    destruct (rnd_plus_rel (B2R a) (B2R y) (fmt_B2R a) (fmt_B2R y)) as (e & He & Hre).
    rewrite Hre in Hr. apply Rabs_le_inv in He.
    specialize (IH (fadd a y) Hn' Hl' Hf).
    pose proof (Rsum_nonneg l Hl') as HS.
    pose proof (B2R_posval_nonneg y Hy) as Hy0.
    assert (Ha0 : 0 <= B2R a) by (destruct Ha as [->|(_ & Ha0)]; [simpl; lra|exact Ha0]).
    rewrite Rsum_cons. cbn [length pow].
    set (S := Rsum l) in *. set (A := B2R a) in *. set (Y := B2R y) in *.
    set (A' := B2R (fadd a y)) in *. set (res := B2R (fold_left fadd l (fadd a y))) in *.
    assert (HP1 : 0 <= (1 - u32) ^ length l) by (apply pow_le; lra).
    assert (HP2 : 0 <= (1 + u32) ^ length l) by (apply pow_le; lra).
    set (P1 := (1 - u32) ^ length l) in *. set (P2 := (1 + u32) ^ length l) in *.
    assert (Hlo : (A + (Y + S)) * (1 - u32) <= A' + S) by (rewrite Hr; nra).
    assert (Hhi : A' + S <= (A + (Y + S)) * (1 + u32)) by (rewrite Hr; nra).
    split.
    + apply Rle_trans with ((A' + S) * P1); [|lra].
      replace ((A + (Y + S)) * ((1 - u32) * P1)) with ((A + (Y + S)) * (1 - u32) * P1) by ring.
      apply Rmult_le_compat_r; assumption.
    + apply Rle_trans with ((A' + S) * P2); [lra|].
      replace ((A + (Y + S)) * ((1 + u32) * P2)) with ((A + (Y + S)) * (1 + u32) * P2) by ring.
      apply Rmult_le_compat_r; assumption.
Qed.

Lemma fsum32_err : forall (m : f32) (l : list f32), Forall posval (m :: l) ->
  is_finite (fsum32 (m :: l)) = true ->
  Rsum (m :: l) * (1 - u32) ^ length l <= B2R (fsum32 (m :: l)) <= Rsum (m :: l) * (1 + u32) ^ length l.
Proof.
  intros m l Hml Hf. inversion Hml as [|m' l' Hm Hl]; subst m' l'.
  unfold fsum32 in *. cbn [fold_left] in *.
  destruct (fadd_nonneg_pos f32_zero m nonneg_zero Hm) as (Hp & Hfin).
  pose proof (posval_nonneg _ Hp) as Hn.
  destruct (fold_fadd_pos l (fadd f32_zero m) Hn Hl) as (_ & _ & H3).
  destruct (H3 Hf) as (Hf' & _ & _).
  destruct (Hfin Hf') as (_ & Hmf & _ & _).
  pose proof (fadd_finite_B2R f32_zero m eq_refl Hmf Hf') as Hr.
  change (B2R f32_zero) with 0 in Hr. rewrite Rplus_0_l in Hr.
  rewrite round_generic in Hr; [|typeclasses eauto|apply fmt_B2R].
  pose proof (fold_fadd_err l (fadd f32_zero m) Hn Hl Hf) as He.
  rewrite Hr in He. rewrite Rsum_cons. exact He.
Qed.

Lemma fdiv_unit_B2R : forall m s : f32, finpos m -> is_finite s = true -> B2R m <= B2R s ->
  B2R (fdiv m s) = rnd (B2R m / B2R s).
Proof.
  intros m s (Hmf & Hm) Hsf Hms. pose proof policy_min_pos as Hpm.
  pose proof (Bdiv_correct prec emax Hprec Hmax mode_NE m s) as H.
  cbn [round_mode] in H. fold (fdiv m s) in H.
  assert (Hq : 0 <= B2R m / B2R s <= 1).
  { split.
    - apply Rlt_le, Rdiv_lt_0_compat; lra.
    - apply Rmult_le_reg_r with (B2R s); [lra|]. unfold Rdiv.
      rewrite Rmult_assoc, Rinv_l by lra. lra. }
  assert (H0 : 0 <= rnd (B2R m / B2R s)).
  { apply round_ge_generic; [typeclasses eauto|typeclasses eauto|apply generic_format_0|lra]. }
  assert (H1 : rnd (B2R m / B2R s) <= 1).
  { apply round_le_generic; [typeclasses eauto|typeclasses eauto|exact fmt_one|lra]. }
  rewrite Rlt_bool_true in H.
  - destruct H as (Hr & _); [lra|]. exact Hr.
  - rewrite Rabs_pos_eq by lra. apply Rle_lt_trans with (1 := H1).
    change 1 with (bpow radix2 0). apply bpow_lt. reflexivity.
Qed.

Lemma quotients_err : forall (s : f32) (l : list f32), is_finite s = true ->
  Forall (fun m => finpos m /\ B2R m <= B2R s) l ->
  Rsum l / B2R s * (1 - u32) - INR (length l) * eta32
    <= Rsum (map (fun m => fdiv m s) l)
    <= Rsum l / B2R s * (1 + u32) + INR (length l) * eta32.
Proof.
  intros s l Hs Hl. pose proof u32_bounds as Hu. pose proof policy_min_pos as Hpm.
  induction Hl as [|m l (Hm & Hms) Hl IH].
  - unfold Rsum, Rdiv. simpl. lra.
  - cbn [map]. rewrite !Rsum_cons. cbn [length]. rewrite S_INR.
    rewrite (fdiv_unit_B2R m s Hm Hs Hms).
    destruct (rnd_rel_abs (B2R m / B2R s)) as (e & n & He & Hn & Hr). rewrite Hr.
    apply Rabs_le_inv in He. apply Rabs_le_inv in Hn.
    assert (Hq : 0 <= B2R m / B2R s).
    { destruct Hm as (_ & Hm). apply Rlt_le, Rdiv_lt_0_compat; lra. }
    replace ((B2R m + Rsum l) / B2R s) with (B2R m / B2R s + Rsum l / B2R s) by (unfold Rdiv; ring).
    set (q := B2R m / B2R s) in *. set (Q := Rsum l / B2R s) in *.
    set (T := Rsum (map (fun m0 : f32 => fdiv m0 s) l)) in *.
    split; nra.
Qed.

Lemma pow_pos_lt : forall (x : R) (k : nat), 0 < x -> 0 < x ^ k.
Proof. intros x k Hx. apply pow_lt. exact Hx. Qed.

Lemma normalise32_sum : forall cs : list f32, cs <> [] ->
  is_finite (fsum32 (map floored32 cs)) = true ->
  (1 - u32) / (1 + u32) ^ (length cs - 1) - INR (length cs) * eta32
    <= Rsum (normalise32 cs)
    <= (1 + u32) / (1 - u32) ^ (length cs - 1) + INR (length cs) * eta32.
Proof.
  intros cs Hne Hf. pose proof u32_bounds as Hu. pose proof policy_min_pos as Hpm.
  unfold normalise32. set (fl := map floored32 cs) in *.
  assert (Hlen : length fl = length cs) by (unfold fl; apply map_length).
  assert (Hpv : Forall posval fl).
  { apply Forall_forall. intros m Hm. apply in_map_iff in Hm. destruct Hm as (c & <- & _).
    apply floored32_posval. }
  destruct (fsum32_pos fl Hpv) as [Hs|(_ & Hall)]; [rewrite Hs in Hf; discriminate|].
  assert (Hfp : Forall (fun m => finpos m /\ B2R m <= B2R (fsum32 fl)) fl).
  { apply Forall_forall. intros m Hm.
    destruct (proj1 (Forall_forall _ _) Hall m Hm) as (Hmf & Hle).
    split; [|exact Hle].
    destruct (proj1 (Forall_forall _ _) Hpv m Hm) as [->|Hfp]; [discriminate|exact Hfp]. }
  pose proof (quotients_err (fsum32 fl) fl Hf Hfp) as Hq. rewrite Hlen in Hq.
  destruct fl as [|m fl'] eqn:Efl.
  { destruct cs; [elim Hne; reflexivity|discriminate]. }
  pose proof (fsum32_err m fl' Hpv Hf) as Hse.
  assert (Hk : (length cs - 1)%nat = length fl').
  { rewrite <- Hlen. cbn [length]. lia. }
  rewrite Hk.
  assert (HM : 0 < Rsum (m :: fl')).
  { rewrite Rsum_cons. inversion Hpv as [|m' l' _ Hl']; subst m' l'.
    pose proof (Rsum_nonneg fl' Hl') as HS.
    inversion Hfp as [|m' l' ((_ & Hm) & _) _]; subst m' l'. lra. }
  set (M := Rsum (m :: fl')) in *. set (s := B2R (fsum32 (m :: fl'))) in *.
  assert (HP1 : 0 < (1 - u32) ^ length fl') by (apply pow_lt; lra).
  assert (HP2 : 0 < (1 + u32) ^ length fl') by (apply pow_lt; lra).
  set (P1 := (1 - u32) ^ length fl') in *. set (P2 := (1 + u32) ^ length fl') in *.
  assert (Hs0 : 0 < s) by nra.
  assert (Hlo : / P2 <= M / s).
  { apply Rmult_le_reg_r with s; [exact Hs0|]. unfold Rdiv. rewrite Rmult_assoc, Rinv_l by lra.
    rewrite Rmult_1_r. apply Rle_trans with (/ P2 * (M * P2)).
    - apply Rmult_le_compat_l; [apply Rlt_le, Rinv_0_lt_compat; exact HP2|lra].
    - replace (/ P2 * (M * P2)) with (M * (/ P2 * P2)) by ring. rewrite Rinv_l by lra. lra. }
  assert (Hhi : M / s <= / P1).
  { apply Rmult_le_reg_r with s; [exact Hs0|]. unfold Rdiv. rewrite Rmult_assoc, Rinv_l by lra.
    rewrite Rmult_1_r. apply Rle_trans with (/ P1 * (M * P1)).
    - replace (/ P1 * (M * P1)) with (M * (/ P1 * P1)) by ring. rewrite Rinv_l by lra. lra.
    - apply Rmult_le_compat_l; [apply Rlt_le, Rinv_0_lt_compat; exact HP1|lra]. }
  unfold Rdiv.
  split.
  - apply Rle_trans with (2 := proj1 Hq). 
    apply Rplus_le_compat_r. rewrite (Rmult_comm (1 - u32)). apply Rmult_le_compat_r; lra.
  - apply Rle_trans with (1 := proj2 Hq).
    apply Rplus_le_compat_r. rewrite (Rmult_comm (1 + u32)). apply Rmult_le_compat_r; lra.
Qed.

(* ---------- a first-order form of the bound ---------- *)
Lemma bernoulli : forall (x : R) (k : nat), 0 <= x <= 1 -> 1 - INR k * x <= (1 - x) ^ k.
Proof.
  intros x k Hx. induction k as [|k IH].
  - simpl. lra.
  - rewrite S_INR. cbn [pow].
    assert (Hk : 0 <= INR k) by apply pos_INR.
    apply Rle_trans with ((1 - x) * (1 - INR k * x)); [nra|].
    apply Rmult_le_compat_l; lra.
Qed.
Lemma pow_conj_le_1 : forall (x : R) (k : nat), 0 <= x <= 1 -> (1 - x) ^ k * (1 + x) ^ k <= 1.
Proof.
  intros x k Hx. rewrite <- Rpow_mult_distr.
  rewrite <- (pow1 k) at 3. apply pow_incr. nra.
Qed.

Lemma first_order_bounds : forall n : nat, (1 <= n)%nat -> INR n - 1 <= bpow radix2 23 ->
  1 - INR n * u32 <= (1 - u32) / (1 + u32) ^ (n - 1) /\
  (1 + u32) / (1 - u32) ^ (n - 1) <= 1 + 2 * INR n * u32.
Proof.
  intros n Hn Hn23. pose proof u32_bounds as Hu.
  assert (HN : INR (n - 1) = INR n - 1).
  { rewrite minus_INR by exact Hn. reflexivity. }
  assert (Hu24 : u32 * bpow radix2 23 = / 2).
  { unfold u32. rewrite <- bpow_plus. reflexivity. }
  assert (HN1 : 1 <= INR n) by (change 1 with (INR 1); apply le_INR; exact Hn).
  assert (HP1 : 0 < (1 - u32) ^ (n - 1)) by (apply pow_lt; lra).
  assert (HP2 : 0 < (1 + u32) ^ (n - 1)) by (apply pow_lt; lra).
  pose proof (bernoulli u32 (n - 1) ltac:(lra)) as HB. rewrite HN in HB.
  pose proof (pow_conj_le_1 u32 (n - 1) ltac:(lra)) as HC.
  set (P1 := (1 - u32) ^ (n - 1)) in *. set (P2 := (1 + u32) ^ (n - 1)) in *.
  set (N := INR n) in *.
  assert (HNu : 2 * (N - 1) * u32 <= 1) by nra.
  split.
  - apply Rle_trans with ((1 - u32) * P1); [nra|].
    unfold Rdiv. apply Rmult_le_compat_l; [lra|].
    apply Rmult_le_reg_r with P2; [exact HP2|]. rewrite Rinv_l by lra. exact HC.
  - apply Rmult_le_reg_r with P1; [exact HP1|]. unfold Rdiv.
    rewrite Rmult_assoc, Rinv_l by lra. rewrite Rmult_1_r.
    assert (Hprod : 0 <= (N * u32) * (1 - 2 * (N - 1) * u32)) by (apply Rmult_le_pos; nra).
    apply Rle_trans with ((1 + 2 * N * u32) * (1 - (N - 1) * u32)); [nra|].
    apply Rmult_le_compat_l; [nra|lra].
Qed.

(* ---------- policy_f32 ---------- *)
Local Open Scope Z_scope.

Lemma divisor_fixed_ok : forall t : Z, 0 <= t < 2 ^ 64 ->
  is_finite (of_usize (divisor_gen true t)) = true /\ (1 <= B2R (of_usize (divisor_gen true t)))%R.
Proof. intros t Ht. apply of_usize_ge_1. unfold divisor_gen. lia. Qed.

Lemma aborts_gen_existsb : forall flag t stored,
  policy_aborts_gen flag t stored = existsb is_pinf (map (cumulated_gen flag t) stored).
Proof. intros flag t stored. unfold policy_aborts_gen, policy_f32_gen. apply normalise32_aborts. Qed.

Lemma flag_generated : REGRET_DIVISOR_AT_LEAST_ONE = true.
Proof. reflexivity. Qed.
Lemma policy_f32_generated : policy_f32 = policy_f32_gen true.
Proof. reflexivity. Qed.
Lemma policy_aborts_generated : policy_aborts = policy_aborts_gen true.
Proof. reflexivity. Qed.

(* the repaired divisor: abort iff a stored regret is +infinity *)
Lemma fixed_aborts_iff : forall t stored, 0 <= t < 2 ^ 64 ->
  (policy_aborts_gen true t stored = true <-> In pos_inf stored).
Proof.
  intros t stored Ht. destruct (divisor_fixed_ok t Ht) as (Hdf & Hd1).
  rewrite aborts_gen_existsb, existsb_exists. split.
  - intros (c & Hc & Hp). apply is_pinf_iff in Hp. apply in_map_iff in Hc.
    destruct Hc as (r & Hr & Hin). rewrite Hp in Hr. unfold cumulated_gen in Hr.
    apply (fdiv_pinf_iff r _ Hdf Hd1) in Hr. rewrite <- Hr. exact Hin.
  - intros Hin. exists pos_inf. split; [|reflexivity]. apply in_map_iff. exists pos_inf.
    split; [|exact Hin]. unfold cumulated_gen. apply (fdiv_pinf_iff pos_inf _ Hdf Hd1). reflexivity.
Qed.

Theorem aborts_iff : forall t stored, 0 <= t < 2 ^ 64 ->
  (policy_aborts t stored = true <-> In pos_inf stored).
Proof. rewrite policy_aborts_generated. exact fixed_aborts_iff. Qed.

Theorem no_abort : forall t stored, 0 <= t < 2 ^ 64 ->
  (forall r, In r stored -> r <> pos_inf) -> policy_aborts t stored = false.
Proof.
  intros t stored Ht Hs. destruct (policy_aborts t stored) eqn:E; [|reflexivity].
  apply (aborts_iff t stored Ht) in E. elim (Hs pos_inf E). reflexivity.
Qed.

Theorem aborts_on_infinite_regret : forall t stored, 0 <= t < 2 ^ 64 ->
  In pos_inf stored -> policy_aborts t stored = true.
Proof. intros t stored Ht Hs. apply (aborts_iff t stored Ht). exact Hs. Qed.

(* the entries as real numbers *)
Theorem entries_unit : forall t stored, 0 <= t < 2 ^ 64 ->
  (forall r, In r stored -> r <> pos_inf) ->
  Forall (fun p => is_finite p = true /\ (0 <= B2R p <= 1)%R) (policy_f32 t stored).
Proof.
  intros t stored Ht Hs. rewrite policy_f32_generated. unfold policy_f32_gen.
  destruct (divisor_fixed_ok t Ht) as (Hdf & Hd1).
  apply normalise32_unit. intros c Hc Heq. apply in_map_iff in Hc.
  destruct Hc as (r & Hr & Hin). rewrite <- Hr in Heq. unfold cumulated_gen in Heq.
  apply (fdiv_pinf_iff r _ Hdf Hd1) in Heq. exact (Hs r Hin Heq).
Qed.

(* ... and in IEEE terms: not NaN, and both comparisons of the assertions hold *)
Theorem entries_ok : forall t stored, 0 <= t < 2 ^ 64 ->
  (forall r, In r stored -> r <> pos_inf) ->
  Forall (fun p => is_nan p = false /\ fge32 p f32_zero = true /\ fle32 p f32_one = true)
    (policy_f32 t stored).
Proof.
  intros t stored Ht Hs. apply Forall_forall. intros p Hp.
  pose proof (proj1 (Forall_forall _ _) (entries_unit t stored Ht Hs) p Hp) as Hu.
  pose proof (proj2 (entry_ok_iff p) Hu) as Hok. unfold entry_ok in Hok.
  apply andb_true_iff in Hok. destruct Hok as (H1 & H2). split; [|split; assumption].
  destruct Hu as (Hf & _). destruct p; try discriminate; reflexivity.
Qed.

(* what the abort is: the entry of an infinite regret is NaN *)
Theorem infinite_regret_gives_nan : forall t stored, 0 <= t < 2 ^ 64 ->
  In pos_inf stored -> In B754_nan (policy_f32 t stored).
Proof.
  intros t stored Ht Hin. rewrite policy_f32_generated. unfold policy_f32_gen.
  destruct (divisor_fixed_ok t Ht) as (Hdf & Hd1).
  apply normalise32_nan. apply in_map_iff. exists pos_inf. split; [|exact Hin].
  unfold cumulated_gen. apply (fdiv_pinf_iff pos_inf _ Hdf Hd1). reflexivity.
Qed.

Lemma policy_f32_length : forall t stored, length (policy_f32 t stored) = length stored.
Proof.
  intros t stored. unfold policy_f32, policy_f32_gen, normalise32. rewrite !map_length. reflexivity.
Qed.

(* the original divisor on a fresh profile (epochs = 0): division by +0.0 *)
Theorem unfixed_t0_aborts_iff : forall stored,
  policy_aborts_gen false 0 stored = true <->
  exists r, In r stored /\ (r = pos_inf \/ (is_finite r = true /\ (0 < B2R r)%R)).
Proof.
  intros stored. rewrite aborts_gen_existsb, existsb_exists. split.
  - intros (c & Hc & Hp). apply is_pinf_iff in Hp. apply in_map_iff in Hc.
    destruct Hc as (r & Hr & Hin). rewrite Hp in Hr. exists r. split; [exact Hin|].
    apply fdiv_zero_pinf_iff. exact Hr.
  - intros (r & Hin & Hr). exists pos_inf. split; [|reflexivity]. apply in_map_iff. exists r.
    split; [|exact Hin]. apply fdiv_zero_pinf_iff. exact Hr.
Qed.

(* the repair changes nothing once an epoch has been counted *)
Theorem fix_conservative : forall t stored, 1 <= t ->
  policy_f32_gen false t stored = policy_f32_gen true t stored.
Proof.
  intros t stored Ht. unfold policy_f32_gen, cumulated_gen, divisor_gen.
  rewrite Z.max_l by lia. reflexivity.
Qed.


(* when the sum overflows every entry is +0.0 (so the non-overflow hypothesis below is needed) *)
Lemma normalise32_overflow : forall cs : list f32, (forall c, In c cs -> c <> pos_inf) ->
  fsum32 (map floored32 cs) = pos_inf ->
  Forall (fun p => p = B754_zero false) (normalise32 cs).
Proof.
  intros cs Hcs Hs. unfold normalise32. rewrite Hs.
  apply Forall_forall. intros p Hp. apply in_map_iff in Hp. destruct Hp as (m & <- & Hm).
  apply in_map_iff in Hm. destruct Hm as (c & <- & Hc).
  destruct (floored32_finpos c (Hcs c Hc)) as (Hf & Hv).
  pose proof (Bsign_pos (floored32 c) Hf ltac:(pose proof policy_min_pos; lra)%R) as Hsg.
  destruct (floored32 c) as [s|s| |s m e H]; try discriminate.
  - simpl in Hv. pose proof policy_min_pos. lra.
  - simpl in Hsg. subst s. reflexivity.
Qed.

Theorem sum_close : forall t stored, stored <> [] ->
  is_finite (fsum32 (map floored32 (map (cumulated_gen REGRET_DIVISOR_AT_LEAST_ONE t) stored))) = true ->
  ((1 - u32) / (1 + u32) ^ (length stored - 1) - INR (length stored) * eta32
     <= Rsum (policy_f32 t stored)
     <= (1 + u32) / (1 - u32) ^ (length stored - 1) + INR (length stored) * eta32)%R.
Proof.
  intros t stored Hne Hf. unfold policy_f32, policy_f32_gen.
  set (cs := map (cumulated_gen REGRET_DIVISOR_AT_LEAST_ONE t) stored) in *.
  assert (Hlen : length cs = length stored) by (unfold cs; apply map_length).
  rewrite <- Hlen. apply normalise32_sum; [|exact Hf].
  intros Hc. apply (f_equal (@length f32)) in Hc. rewrite Hlen in Hc.
  destruct stored; [elim Hne; reflexivity|discriminate].
Qed.

Theorem sum_close_first_order : forall t stored, stored <> [] ->
  Z.of_nat (length stored) <= 2 ^ 23 ->
  is_finite (fsum32 (map floored32 (map (cumulated_gen REGRET_DIVISOR_AT_LEAST_ONE t) stored))) = true ->
  (Rabs (Rsum (policy_f32 t stored) - 1)
     <= INR (length stored) * bpow radix2 (-23) + INR (length stored) * bpow radix2 (-150))%R.
Proof.
  intros t stored Hne Hn Hf. pose proof (sum_close t stored Hne Hf) as Hs.
  assert (Hn1 : (1 <= length stored)%nat) by (destruct stored; [elim Hne; reflexivity|simpl; lia]).
  assert (Hn23 : (INR (length stored) - 1 <= bpow radix2 23)%R).
  { rewrite INR_IZR_INZ. rewrite <- (IZR_pow2 23) by lia. apply IZR_le in Hn. lra. }
  destruct (first_order_bounds (length stored) Hn1 Hn23) as (Hlo & Hhi).
  assert (Hu : (bpow radix2 (-23) = 2 * u32)%R).
  { unfold u32. change (-23) with (1 + -24). rewrite bpow_plus. reflexivity. }
  rewrite Hu. fold eta32. apply Rabs_le. pose proof u32_bounds as Hub.
  assert (HN : (0 <= INR (length stored))%R) by apply pos_INR.
  split; nra.
Qed.

Theorem sum_overflow_all_zero : forall t stored, 0 <= t < 2 ^ 64 ->
  (forall r, In r stored -> r <> pos_inf) ->
  is_finite (fsum32 (map floored32 (map (cumulated_gen REGRET_DIVISOR_AT_LEAST_ONE t) stored))) = false ->
  Forall (fun p => p = B754_zero false) (policy_f32 t stored).
Proof.
  intros t stored Ht Hs Hf. rewrite policy_f32_generated. unfold policy_f32_gen.
  rewrite flag_generated in Hf.
  destruct (divisor_fixed_ok t Ht) as (Hdf & Hd1).
  assert (Hcs : forall c, In c (map (cumulated_gen true t) stored) -> c <> pos_inf).
  { intros c Hc Heq. apply in_map_iff in Hc. destruct Hc as (r & Hr & Hin).
    rewrite <- Hr in Heq. unfold cumulated_gen in Heq.
    apply (fdiv_pinf_iff r _ Hdf Hd1) in Heq. exact (Hs r Hin Heq). }
  apply normalise32_overflow; [exact Hcs|].
  set (fl := map floored32 (map (cumulated_gen true t) stored)) in *.
  assert (Hpv : Forall posval fl).
  { apply Forall_forall. intros m Hm. apply in_map_iff in Hm. destruct Hm as (c & <- & _).
    apply floored32_posval. }
  destruct (fsum32_pos fl Hpv) as [Hinf|(Hfin & _)]; [exact Hinf|].
  rewrite Hfin in Hf. discriminate.
Qed.

(* ---------- examples ---------- *)
Import SpecFloat.
Definition neg_inf : f32 := B754_infinity true.
Definition f32_max : f32 := @B754_finite prec emax false 16777215 104 eq_refl.   (* f32::MAX *)
Definition f32_tiny : f32 := @B754_finite prec emax false 1 (-149) eq_refl.      (* 2^-149 *)
Definition sf (l : list f32) : list spec_float := map (@B2SF prec emax) l.

(* 5 epochs, stored regrets [3; -inf; NaN; -2]:  [1.0; q; q; q] with q = 2^-126 / 0.6 (subnormal) *)
Example ex_mixed :
  sf (policy_f32 5 [of_usize 3; neg_inf; B754_nan; of_usize (-2)]) =
    [S754_finite false 8388608 (-23); S754_finite false 13981013 (-149);
     S754_finite false 13981013 (-149); S754_finite false 13981013 (-149)] /\
  policy_aborts 5 [of_usize 3; neg_inf; B754_nan; of_usize (-2)] = false.
Proof. split; vm_compute; reflexivity. Qed.
(* the sum overflows to +infinity: every entry is +0.0, no abort (but not a distribution) *)
Example ex_overflow :
  sf (policy_f32 1 [f32_max; f32_max; of_usize 7]) = [S754_zero false; S754_zero false; S754_zero false] /\
  policy_aborts 1 [f32_max; f32_max; of_usize 7] = false.
Proof. split; vm_compute; reflexivity. Qed.
(* t = 0, t = 2^64 - 1, subnormal and negative-zero regrets, the empty list *)
Example ex_corners :
  policy_aborts 0 [f32_tiny; B754_zero true; f32_max] = false /\
  policy_aborts (2 ^ 64 - 1) [f32_tiny; B754_zero true; f32_max; neg_inf] = false /\
  policy_f32 7 [] = [] /\ policy_aborts 7 [] = false.
Proof. repeat split; vm_compute; reflexivity. Qed.
(* hypotheses of no_abort / entries_unit are satisfiable *)
Example ex_no_abort_hyp :
  0 <= 5 < 2 ^ 64 /\ forall r, In r [of_usize 3; neg_inf; B754_nan; of_usize (-2)] -> r <> pos_inf.
Proof.
  split; [lia|]. intros r Hr Heq. subst r. simpl in Hr.
  repeat (destruct Hr as [Hr|Hr]; [apply (f_equal (@B2SF prec emax)) in Hr; vm_compute in Hr; discriminate|]).
  exact Hr.
Qed.
(* an infinite stored regret: NaN entries, abort *)
Example ex_infinite :
  sf (policy_f32 5 [of_usize 3; pos_inf; of_usize (-2)]) = [S754_zero false; S754_nan; S754_zero false] /\
  policy_aborts 5 [of_usize 3; pos_inf; of_usize (-2)] = true /\
  In pos_inf [of_usize 3; pos_inf; of_usize (-2)].
Proof. repeat split; try (vm_compute; reflexivity). right. left. reflexivity. Qed.
(* the original divisor at t = 0: one positive finite regret aborts; the repaired code does not *)
Example ex_needs_divisor_fix :
  policy_aborts_gen false 0 [of_usize 3] = true /\
  sf (policy_f32_gen false 0 [of_usize 3]) = [S754_nan] /\
  policy_aborts_gen false 0 [of_usize 5; of_usize (-1)] = true /\
  policy_aborts_gen true 0 [of_usize 3] = false /\
  sf (policy_f32_gen true 0 [of_usize 3]) = [S754_finite false 8388608 (-23)] /\
  policy_aborts_gen true 0 [of_usize 5; of_usize (-1)] = false /\
  policy_aborts 0 [of_usize 5; of_usize (-1)] = false.
Proof. repeat split; vm_compute; reflexivity. Qed.
(* ... and without a positive regret the original code does not abort at t = 0 either *)
Example ex_unfixed_no_positive :
  policy_aborts_gen false 0 [of_usize (-3); of_usize 0; B754_zero true; neg_inf; B754_nan] = false /\
  sf (policy_f32_gen false 0 [of_usize (-3); of_usize 0]) =
    [S754_finite false 8388608 (-24); S754_finite false 8388608 (-24)].
Proof. split; vm_compute; reflexivity. Qed.
(* hypotheses of sum_close / sum_close_first_order / sum_overflow_all_zero are satisfiable *)
Example ex_sum_finite :
  is_finite (fsum32 (map floored32 (map (cumulated_gen REGRET_DIVISOR_AT_LEAST_ONE 5)
     [of_usize 3; neg_inf; B754_nan; of_usize (-2)]))) = true /\
  Z.of_nat (length [of_usize 3; neg_inf; B754_nan; of_usize (-2)]) <= 2 ^ 23.
Proof. split; [vm_compute; reflexivity|simpl; lia]. Qed.
Example ex_sum_overflows :
  is_finite (fsum32 (map floored32 (map (cumulated_gen REGRET_DIVISOR_AT_LEAST_ONE 1)
     [f32_max; f32_max; of_usize 7]))) = false /\
  (forall r, In r [f32_max; f32_max; of_usize 7] -> r <> pos_inf).
Proof.
  split; [vm_compute; reflexivity|]. intros r Hr Heq. subst r. simpl in Hr.
  repeat (destruct Hr as [Hr|Hr]; [apply (f_equal (@B2SF prec emax)) in Hr; vm_compute in Hr; discriminate|]).
  exact Hr.
Qed.
