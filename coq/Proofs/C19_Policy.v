(* Proofs/C19_Policy.v -- the stored average strategy: telescoping of the policy discount,
   closed form, and the normalised stored strategy as an (epoch+1)^gamma-weighted mean.
   `gamma_int` is kept opaque: the only fact used about it is `0 < gamma_int` (gamma_int_pos,
   proved by computation from the generated constant). *)
From Coq Require Import ZArith QArith Qpower Lqa Lia Field Qfield List.
From RP Require Import Gen.GenLib Gen.GenDiscount Model.Discount Spec.SpecDiscount.
Import ListNotations.
Open Scope Q_scope.

Lemma gamma_int_pos : (0 < gamma_int)%Z.
Proof. reflexivity. Qed.

Local Opaque gamma_int.

(* ---------- small facts over Q ---------- *)

Lemma inject_Z_nonzero : forall z : Z, (z <> 0)%Z -> ~ inject_Z z == 0.
Proof.
  intros z Hz Heq. unfold Qeq in Heq. cbn [Qnum Qden inject_Z] in Heq. lia.
Qed.

Lemma inject_Z_eq : forall a b : Z, a = b -> inject_Z a == inject_Z b.
Proof. intros a b Hab. subst b. reflexivity. Qed.

Lemma Qpower_zero_base : forall (x : Q) (g : Z), (0 < g)%Z -> x == 0 -> x ^ g == 0.
Proof.
  intros x g Hg Hx. rewrite Hx. apply Qpower_0. lia.
Qed.

Lemma Qpower_le_1 : forall (x : Q) (g : Z), 0 <= x -> x <= 1 -> (0 <= g)%Z -> x ^ g <= 1.
Proof.
  intros x g Hx0 Hx1 Hg. destruct g as [ | p | p ]; [ | | lia ].
  - cbn [Qpower]. lra.
  - cbn [Qpower]. clear Hg. induction p as [ | p IH ] using Pos.peano_ind.
    + cbn. exact Hx1.
    + rewrite <- Pos.add_1_l, Qpower_plus_positive.
      pose proof (Qpower_pos_positive x p Hx0) as Hp0.
      assert (H1 : Qpower_positive x 1 == x) by reflexivity.
      rewrite H1. set (y := Qpower_positive x p) in *.
      apply Qle_trans with (1 * y); [ | lra ].
      apply Qmult_le_compat_r; assumption.
Qed.

Lemma telescope_step : forall (a b c : Q) (g : Z),
  ~ b == 0 -> ~ c == 0 -> (a / b) ^ g * (b / c) ^ g == (a / c) ^ g.
Proof.
  intros a b c g Hb Hc. rewrite <- Qmult_power.
  apply Qpower_comp; [ | reflexivity ]. field. split; assumption.
Qed.

(* ---------- the policy discount ---------- *)

Lemma policy_discount_0 : policy_discount 0 == 0.
Proof.
  unfold policy_discount. apply Qpower_zero_base; [ exact gamma_int_pos | ].
  reflexivity.
Qed.

Lemma policy_discount_range : forall t, (0 < t)%Z -> 0 < policy_discount t /\ policy_discount t <= 1.
Proof.
  intros t Ht. unfold policy_discount.
  assert (Hb : 0 < inject_Z (t + 1)).
  { replace 0 with (inject_Z 0) by reflexivity. rewrite <- Zlt_Qlt. lia. }
  assert (Ha : 0 < inject_Z t).
  { replace 0 with (inject_Z 0) by reflexivity. rewrite <- Zlt_Qlt. lia. }
  assert (Hab : inject_Z t <= inject_Z (t + 1)).
  { rewrite <- Zle_Qle. lia. }
  assert (Hpos : 0 < inject_Z t / inject_Z (t + 1)).
  { apply Qlt_shift_div_l; [ exact Hb | lra ]. }
  assert (Hle : inject_Z t / inject_Z (t + 1) <= 1).
  { apply Qle_shift_div_r; [ exact Hb | lra ]. }
  split.
  - apply Qpower_0_lt. exact Hpos.
  - apply Qpower_le_1; [ apply Qlt_le_weak; exact Hpos | exact Hle | ].
    pose proof gamma_int_pos. lia.
Qed.

(* ---------- C19_policy_general ---------- *)

Lemma policy_general_pos : forall ps t0 acc, (0 < t0 + Z.of_nat (length ps))%Z -> (0 <= t0)%Z ->
  policy_run t0 acc ps ==
    acc * (inject_Z t0 / inject_Z (t0 + Z.of_nat (length ps))) ^ gamma_int
    + sum_policy t0 (t0 + Z.of_nat (length ps) - 1) ps.
Proof.
  induction ps as [ | p r IH ]; intros t0 acc Hn Ht0.
  - cbn [length Z.of_nat] in *. cbn [policy_run sum_policy].
    replace (t0 + 0)%Z with t0 in * by lia.
    assert (Hnz : ~ inject_Z t0 == 0) by (apply inject_Z_nonzero; lia).
    assert (H1 : inject_Z t0 / inject_Z t0 == 1) by (field; exact Hnz).
    rewrite H1, Qpower_1. ring.
  - cbn [policy_run sum_policy].
    rewrite IH by (cbn [length] in Hn; lia).
    unfold accumulate, policy_discount, weight_policy.
    assert (HZ : (t0 + 1 + Z.of_nat (length r) = t0 + Z.of_nat (length (p :: r)))%Z)
      by (cbn [length]; lia).
    rewrite HZ. clear HZ.
    set (n := Z.of_nat (length (p :: r))) in *.
    replace (t0 + n - 1 + 1)%Z with (t0 + n)%Z by lia.
    assert (Hb : ~ inject_Z (t0 + 1) == 0) by (apply inject_Z_nonzero; lia).
    assert (Hc : ~ inject_Z (t0 + n) == 0) by (apply inject_Z_nonzero; lia).
    rewrite <- (telescope_step (inject_Z t0) (inject_Z (t0 + 1)) (inject_Z (t0 + n)) gamma_int Hb Hc).
    ring.
Qed.

Lemma policy_general : forall t0 acc ps, (0 <= t0)%Z -> (ps <> [] \/ 0 < t0)%Z ->
  policy_run t0 acc ps ==
    acc * (inject_Z t0 / inject_Z (t0 + Z.of_nat (length ps))) ^ gamma_int
    + sum_policy t0 (t0 + Z.of_nat (length ps) - 1) ps.
Proof.
  intros t0 acc ps Ht0 Hne. apply policy_general_pos; [ | exact Ht0 ].
  destruct Hne as [ Hne | Hpos ].
  - destruct ps as [ | p r ]; [ congruence | cbn [length]; lia ].
  - lia.
Qed.

(* degenerate case left out by policy_general: no update at all *)
Lemma policy_run_nil : forall t0 acc, policy_run t0 acc [] = acc.
Proof. reflexivity. Qed.

(* ---------- C19_policy_closed_form ---------- *)

Lemma policy_closed_form : forall acc ps, ps <> [] ->
  policy_run 0 acc ps == sum_policy 0 (Z.of_nat (length ps) - 1) ps.
Proof.
  intros acc ps Hne.
  rewrite (policy_general 0 acc ps) by (try lia; left; exact Hne).
  replace (0 + Z.of_nat (length ps))%Z with (Z.of_nat (length ps)) by lia.
  assert (H0 : (inject_Z 0 / inject_Z (Z.of_nat (length ps))) ^ gamma_int == 0).
  { apply Qpower_zero_base; [ exact gamma_int_pos | ]. unfold Qdiv. apply Qmult_0_l. }
  rewrite H0. ring.
Qed.

(* the initial value does not matter when the run starts at epoch 0 *)
Lemma policy_run_0_acc_irrelevant : forall acc acc' ps, ps <> [] ->
  policy_run 0 acc ps == policy_run 0 acc' ps.
Proof.
  intros acc acc' ps Hne. rewrite (policy_closed_form acc ps Hne), (policy_closed_form acc' ps Hne).
  reflexivity.
Qed.

(* ---------- (epoch+1)^gamma weights ---------- *)

Lemma sum_policy_pow_weighted : forall ps s T,
  sum_policy s T ps == pow_weighted_sum s ps * (/ inject_Z (T + 1)) ^ gamma_int.
Proof.
  induction ps as [ | p r IH ]; intros s T.
  - cbn [sum_policy pow_weighted_sum]. ring.
  - cbn [sum_policy pow_weighted_sum]. rewrite IH. unfold weight_policy, Qdiv.
    rewrite Qmult_power. ring.
Qed.

Lemma policy_stored_scaled : forall acc ps, ps <> [] ->
  policy_run 0 acc ps ==
    pow_weighted_sum 0 ps * (/ inject_Z (Z.of_nat (length ps))) ^ gamma_int.
Proof.
  intros acc ps Hne. rewrite (policy_closed_form acc ps Hne), sum_policy_pow_weighted.
  replace (Z.of_nat (length ps) - 1 + 1)%Z with (Z.of_nat (length ps)) by lia.
  reflexivity.
Qed.

(* un-normalised form: stored * (T+1)^gamma = sum_s (s+1)^gamma p_s *)
Lemma policy_unnormalised : forall acc ps, ps <> [] ->
  policy_run 0 acc ps * inject_Z (Z.of_nat (length ps)) ^ gamma_int == pow_weighted_sum 0 ps.
Proof.
  intros acc ps Hne. rewrite (policy_stored_scaled acc ps Hne).
  rewrite <- Qmult_assoc, <- Qmult_power.
  assert (Hn : ~ inject_Z (Z.of_nat (length ps)) == 0).
  { apply inject_Z_nonzero. destruct ps as [ | p r ]; [ congruence | cbn [length]; lia ]. }
  assert (H1 : / inject_Z (Z.of_nat (length ps)) * inject_Z (Z.of_nat (length ps)) == 1)
    by (field; exact Hn).
  rewrite H1, Qpower_1. ring.
Qed.

(* ---------- sums over actions ---------- *)

Lemma sumQ_map_ext_scaled : forall (A : Type) (f h : A -> Q) (c : Q) (l : list A),
  (forall x, In x l -> f x == h x * c) -> sumQ (map f l) == sumQ (map h l) * c.
Proof.
  intros A f h c l. induction l as [ | x r IH ]; intros Hfh.
  - cbn [map sumQ]. ring.
  - cbn [map sumQ]. rewrite (Hfh x) by (left; reflexivity).
    rewrite IH by (intros y Hy; apply Hfh; right; exact Hy). ring.
Qed.

Lemma addl_length : forall a b, length a = length b -> length (addl a b) = length a.
Proof.
  induction a as [ | x a IH ]; intros b Hab; destruct b as [ | y b ]; cbn [length addl] in *;
    try reflexivity; try discriminate.
  f_equal. apply IH. lia.
Qed.

Lemma pow_weighted_sum_addl : forall a b s, length a = length b ->
  pow_weighted_sum s (addl a b) == pow_weighted_sum s a + pow_weighted_sum s b.
Proof.
  induction a as [ | x a IH ]; intros b s Hab; destruct b as [ | y b ]; cbn [length] in Hab;
    try discriminate.
  - cbn [addl pow_weighted_sum]. ring.
  - cbn [addl pow_weighted_sum]. rewrite IH by lia. ring.
Qed.

Lemma pow_weighted_sum_zeros : forall n s, pow_weighted_sum s (repeat 0 n) == 0.
Proof.
  induction n as [ | n IH ]; intros s.
  - reflexivity.
  - cbn [repeat pow_weighted_sum]. rewrite IH. ring.
Qed.

Lemma colsum_length : forall n pss, Forall (fun ps => length ps = n) pss -> length (colsum n pss) = n.
Proof.
  intros n pss Hlen. unfold colsum. induction Hlen as [ | ps r Hps Hr IH ].
  - cbn [fold_right]. apply repeat_length.
  - cbn [fold_right]. rewrite addl_length; [ exact Hps | ]. rewrite IH. exact Hps.
Qed.

(* sum_s (s+1)^g (sum_b p_s(b)) = sum_b sum_s (s+1)^g p_s(b) *)
Lemma pow_weighted_sum_colsum : forall n pss s, Forall (fun ps => length ps = n) pss ->
  pow_weighted_sum s (colsum n pss) == sumQ (map (pow_weighted_sum s) pss).
Proof.
  intros n pss s Hlen. induction Hlen as [ | ps r Hps Hr IH ].
  - unfold colsum. cbn [fold_right map sumQ]. apply pow_weighted_sum_zeros.
  - change (colsum n (ps :: r)) with (addl ps (colsum n r)).
    rewrite pow_weighted_sum_addl by (rewrite (colsum_length n r Hr); exact Hps).
    cbn [map sumQ]. rewrite IH. reflexivity.
Qed.

(* ---------- C19_policy_weighted_mean ---------- *)

Lemma stored_sum_scaled : forall n pss, (1 <= n)%nat -> Forall (fun ps => length ps = n) pss ->
  sumQ (map (policy_run 0 0) pss) ==
    sumQ (map (pow_weighted_sum 0) pss) * (/ inject_Z (Z.of_nat n)) ^ gamma_int.
Proof.
  intros n pss Hn Hlen. apply sumQ_map_ext_scaled. intros ps Hin.
  rewrite Forall_forall in Hlen. specialize (Hlen ps Hin).
  assert (Hne : ps <> []) by (destruct ps; [ cbn [length] in Hlen; lia | discriminate ]).
  rewrite (policy_stored_scaled 0 ps Hne), Hlen. reflexivity.
Qed.

Lemma scale_cancel : forall a b c : Q, ~ c == 0 -> (a * c) / (b * c) == a / b.
Proof.
  intros a b c Hc. unfold Qdiv. rewrite Qinv_mult_distr.
  assert (H1 : c * / c == 1) by (apply Qmult_inv_r; exact Hc).
  transitivity (a * / b * (c * / c)); [ ring | rewrite H1; ring ].
Qed.

(* no side condition is needed in Coq (x / 0 = 0 on both sides); the Props statement keeps the
   non-zero denominator hypothesis of the informal claim, this is the underlying fact *)
Lemma policy_weighted_mean_total : forall (n : nat) (pss : list (list Q)) (i : nat),
  (1 <= n)%nat -> Forall (fun ps => length ps = n) pss -> (i < length pss)%nat ->
  let stored := map (policy_run 0 0) pss in
  nth i stored 0 / sumQ stored ==
    pow_weighted_sum 0 (nth i pss []) / pow_weighted_sum 0 (colsum n pss).
Proof.
  intros n pss i Hn Hlen Hi stored. subst stored.
  assert (Hin : In (nth i pss []) pss) by (apply nth_In; exact Hi).
  assert (Hli : length (nth i pss []) = n).
  { rewrite Forall_forall in Hlen. apply Hlen. exact Hin. }
  assert (Hne : nth i pss [] <> []).
  { intros Heq. rewrite Heq in Hli. cbn [length] in Hli. lia. }
  assert (Hnth : nth i (map (policy_run 0 0) pss) 0 = policy_run 0 0 (nth i pss []))
    by (exact (map_nth (policy_run 0 0) pss [] i)).
  rewrite Hnth. clear Hnth.
  rewrite (policy_stored_scaled 0 _ Hne), Hli.
  rewrite (stored_sum_scaled n pss Hn Hlen).
  rewrite (pow_weighted_sum_colsum n pss 0 Hlen).
  apply scale_cancel.
  apply Qpower_not_0. intros H0.
  assert (Hnz : ~ inject_Z (Z.of_nat n) == 0) by (apply inject_Z_nonzero; lia).
  apply Hnz. rewrite <- (Qinv_involutive (inject_Z (Z.of_nat n))). rewrite H0. reflexivity.
Qed.

Lemma policy_weighted_mean : forall (n : nat) (pss : list (list Q)) (i : nat),
  (1 <= n)%nat -> Forall (fun ps => length ps = n) pss -> (i < length pss)%nat ->
  ~ pow_weighted_sum 0 (colsum n pss) == 0 ->
  let stored := map (policy_run 0 0) pss in
  ~ sumQ stored == 0 /\
  nth i stored 0 / sumQ stored ==
    pow_weighted_sum 0 (nth i pss []) / pow_weighted_sum 0 (colsum n pss).
Proof.
  intros n pss i Hn Hlen Hi Hden stored. split.
  - subst stored. rewrite (stored_sum_scaled n pss Hn Hlen).
    rewrite <- (pow_weighted_sum_colsum n pss 0 Hlen).
    intros Hprod. apply Qmult_integral in Hprod. destruct Hprod as [ Hz | Hz ].
    + exact (Hden Hz).
    + revert Hz. apply Qpower_not_0. intros H0.
      assert (Hnz : ~ inject_Z (Z.of_nat n) == 0) by (apply inject_Z_nonzero; lia).
      apply Hnz. rewrite <- (Qinv_involutive (inject_Z (Z.of_nat n))). rewrite H0. reflexivity.
  - apply policy_weighted_mean_total; assumption.
Qed.
