(* Proofs/C01_ChkA.v -- exhaustive checks by vm_compute: 5- and 6-card count vectors (Standard),
   all Short count vectors. *)
From Coq Require Import NArith List Bool.
From RP Require Import Model.Codec Proofs.C01_Enum.
Import ListNotations.
Open Scope N_scope.

Lemma chk_std5 : forallb (check_nf Standard) (chunk [] 5) = true.
Proof. vm_cast_no_check (@eq_refl bool true). Qed.
Lemma chk_std6 : forallb (check_nf Standard) (chunk [] 6) = true.
Proof. vm_cast_no_check (@eq_refl bool true). Qed.
Lemma chk_short : forallb (fun n => forallb (check_nf Short) (chunk short_prefix n)) [5; 6; 7] = true.
Proof. vm_cast_no_check (@eq_refl bool true). Qed.
