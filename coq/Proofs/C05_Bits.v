(* Proofs/C05_Bits.v -- property C05, layer L0 -> spec:
   bit-level characterisation of Permutation::shift / image (Model/Iso.v) and of the mathematical
   relabeling (Spec/SpecIso.v); image = relabel_hand; group action laws of relabel_hand. *)
From Coq Require Import NArith ZArith List Bool Lia ZifyBool ZifyN ZifyNat Sorted Permutation.
From RP Require Import Base.Bits Gen.GenCards Gen.GenPerm Model.Codec Model.Evaluator Model.Iso.
From RP Require Import Spec.SpecCodec Spec.SpecIso Spec.SpecIsoWf Proofs.BitsLemmas Proofs.C15_Hand.
Import ListNotations.
Open Scope N_scope.

Ltac Zify.zify_post_hook ::= Z.div_mod_to_equations.

Arguments N.add : simpl never.
Arguments N.mul : simpl never.
Arguments N.sub : simpl never.
Arguments N.shiftl : simpl never.
Arguments N.shiftr : simpl never.
Arguments N.land : simpl never.
Arguments N.lor : simpl never.
Arguments N.pow : simpl never.
Arguments N.testbit : simpl never.
Arguments N.div : simpl never.
Arguments N.modulo : simpl never.

(* ---------- finite enumerations ---------- *)

Lemma lt4_In : forall s, s < 4 -> In s [0; 1; 2; 3].
Proof.
  intros s Hs. assert (H : s = 0 \/ s = 1 \/ s = 2 \/ s = 3) by lia.
  cbn [In]. intuition.
Qed.

Lemma In_lt4 : forall s, In s [0; 1; 2; 3] -> s < 4.
Proof. intros s H. cbn [In] in H. intuition; subst; lia. Qed.

Lemma nseq_In : forall n i k, i <= k < i + N.of_nat n -> In k (nseq n i).
Proof.
  induction n as [|n IH]; intros i k H.
  - cbn in H. lia.
  - cbn [nseq In]. destruct (N.eq_dec i k) as [E | NE]; [left; exact E | right].
    apply IH. lia.
Qed.

Lemma lt64_In : forall k, k < 64 -> In k (nseq 64 0).
Proof. intros k Hk. apply nseq_In. change (N.of_nat 64) with 64. lia. Qed.

Lemma decks_In : forall d, In d [Standard; Short].
Proof. intros [|]; cbn [In]; auto. Qed.

(* ---------- the four suit masks and the two deck masks ---------- *)

Definition suit_mask_chk : bool :=
  forallb (fun s => (suit_mask s <? 2 ^ 52) &&
     forallb (fun k => Bool.eqb (N.testbit (suit_mask s) k) ((k <? 52) && (k mod 4 =? s))) (nseq 64 0))
    [0; 1; 2; 3].
Lemma suit_mask_chk_ok : suit_mask_chk = true.
Proof. vm_compute. reflexivity. Qed.

Lemma suit_mask_lt : forall s, s < 4 -> suit_mask s < 2 ^ 52.
Proof.
  intros s Hs. pose proof suit_mask_chk_ok as H. unfold suit_mask_chk in H.
  rewrite forallb_forall in H. specialize (H s (lt4_In s Hs)).
  apply andb_true_iff in H. destruct H as (H & _). apply N.ltb_lt. exact H.
Qed.

Lemma suit_mask_testbit : forall s k, s < 4 ->
  N.testbit (suit_mask s) k = (k <? 52) && (k mod 4 =? s).
Proof.
  intros s k Hs.
  destruct (N.lt_ge_cases k 64) as [Hk | Hk].
  - pose proof suit_mask_chk_ok as H. unfold suit_mask_chk in H.
    rewrite forallb_forall in H. specialize (H s (lt4_In s Hs)).
    apply andb_true_iff in H. destruct H as (_ & H).
    rewrite forallb_forall in H. specialize (H k (lt64_In k Hk)).
    apply eqb_prop in H. exact H.
  - rewrite (testbit_high_lt (suit_mask s) 52 k (suit_mask_lt s Hs)) by lia.
    destruct (N.ltb_spec k 52) as [H | _]; [lia | reflexivity].
Qed.

Definition hand_mask_chk : bool :=
  forallb (fun d => (hand_mask d <? 2 ^ 52) &&
     forallb (fun k => Bool.eqb (N.testbit (hand_mask d) k) (N.testbit (hand_mask d) (4 * (k / 4)))) (nseq 64 0))
    [Standard; Short].
Lemma hand_mask_chk_ok : hand_mask_chk = true.
Proof. vm_compute. reflexivity. Qed.

Lemma hand_mask_lt : forall d, hand_mask d < 2 ^ 52.
Proof.
  intros d. pose proof hand_mask_chk_ok as H. unfold hand_mask_chk in H.
  rewrite forallb_forall in H. specialize (H d (decks_In d)).
  apply andb_true_iff in H. destruct H as (H & _). apply N.ltb_lt. exact H.
Qed.

(* the deck masks are unions of whole ranks *)
Lemma hand_mask_rank : forall d k, N.testbit (hand_mask d) k = N.testbit (hand_mask d) (4 * (k / 4)).
Proof.
  intros d k.
  destruct (N.lt_ge_cases k 64) as [Hk | Hk].
  - pose proof hand_mask_chk_ok as H. unfold hand_mask_chk in H.
    rewrite forallb_forall in H. specialize (H d (decks_In d)).
    apply andb_true_iff in H. destruct H as (_ & H).
    rewrite forallb_forall in H. specialize (H k (lt64_In k Hk)).
    apply eqb_prop in H. exact H.
  - rewrite !(testbit_high_lt (hand_mask d) 52) by (try apply hand_mask_lt; lia). reflexivity.
Qed.

Lemma hand_mask_rank_suit : forall d r s t, s < 4 -> t < 4 ->
  N.testbit (hand_mask d) (4 * r + s) = N.testbit (hand_mask d) (4 * r + t).
Proof.
  intros d r s t Hs Ht.
  rewrite (hand_mask_rank d (4 * r + s)), (hand_mask_rank d (4 * r + t)).
  replace ((4 * r + s) / 4) with r by lia. replace ((4 * r + t) / 4) with r by lia. reflexivity.
Qed.

(* a hand inside the deck *)
Lemma in_mask_lt : forall d h, N.land h (hand_mask d) = h -> h < 2 ^ 52.
Proof.
  intros d h H. apply lt_pow2_of_bits. intros k Hk.
  rewrite <- H, N.land_spec, (testbit_high_lt (hand_mask d) 52 k (hand_mask_lt d) Hk).
  apply andb_false_r.
Qed.

Lemma in_mask_bit : forall d h k, N.land h (hand_mask d) = h ->
  N.testbit h k = true -> N.testbit (hand_mask d) k = true.
Proof.
  intros d h k H Hk. rewrite <- H, N.land_spec in Hk. apply andb_true_iff in Hk. tauto.
Qed.

Lemma in_mask_of_bits : forall d h, (forall k, N.testbit h k = true -> N.testbit (hand_mask d) k = true) ->
  N.land h (hand_mask d) = h.
Proof.
  intros d h H. apply N.bits_inj. intros k. rewrite N.land_spec.
  destruct (N.testbit h k) eqn:E; [rewrite (H k E); reflexivity | reflexivity].
Qed.

Lemma card_decomp : forall k, exists r t, t < 4 /\ k = 4 * r + t.
Proof. intros k. exists (k / 4), (k mod 4). lia. Qed.

(* ---------- the 24 permutations ---------- *)

(* composition (q after p) and inverse, as lists *)
Definition pcomp (q p : perm) : perm := map (perm_map q) p.
Definition pinv (p : perm) : perm :=
  map (fun t => match position (N.eqb t) p with Some i => i | None => 0 end) [0; 1; 2; 3].

Definition perm_chk (p : perm) : bool :=
  Nat.eqb (length p) 4 &&
  forallb (fun s => (perm_map p s <? 4) &&
                    (perm_map p (perm_map (pinv p) s) =? s) && (perm_map (pinv p) (perm_map p s) =? s))
          [0; 1; 2; 3] &&
  existsb (perm_eqb (pinv p)) EXHAUST &&
  forallb (fun q => existsb (perm_eqb (pcomp q p)) EXHAUST) EXHAUST.
Lemma exhaust_chk_ok : forallb perm_chk EXHAUST = true.
Proof. vm_compute. reflexivity. Qed.

Lemma perm_eqb_eq : forall a b, perm_eqb a b = true -> a = b.
Proof.
  induction a as [|x a IH]; intros b H; unfold perm_eqb in H; apply andb_true_iff in H; destruct H as (Hl & Hf).
  - destruct b; [reflexivity | discriminate].
  - destruct b as [|y b]; [discriminate|].
    cbn [combine forallb fst snd] in Hf. apply andb_true_iff in Hf. destruct Hf as (Hxy & Hf).
    apply N.eqb_eq in Hxy. subst y. f_equal. apply IH. unfold perm_eqb.
    cbn [length] in Hl. rewrite Hf, andb_true_r. exact Hl.
Qed.

Lemma perm_eqb_refl : forall a, perm_eqb a a = true.
Proof.
  intros a. unfold perm_eqb. rewrite Nat.eqb_refl. cbn [andb].
  induction a as [|x a IH]; [reflexivity|].
  cbn [combine forallb fst snd]. rewrite N.eqb_refl, IH. reflexivity.
Qed.

Lemma exhaust_chk : forall p, In p EXHAUST -> perm_chk p = true.
Proof. intros p Hp. pose proof exhaust_chk_ok as H. rewrite forallb_forall in H. apply H. exact Hp. Qed.

Lemma exhaust_length : forall p, In p EXHAUST -> length p = 4%nat.
Proof.
  intros p Hp. pose proof (exhaust_chk p Hp) as H. unfold perm_chk in H.
  rewrite !andb_true_iff in H. destruct H as (((H & _) & _) & _). apply Nat.eqb_eq. exact H.
Qed.

Lemma exhaust_pointwise : forall p s, In p EXHAUST -> s < 4 ->
  perm_map p s < 4 /\ perm_map p (perm_map (pinv p) s) = s /\ perm_map (pinv p) (perm_map p s) = s.
Proof.
  intros p s Hp Hs. pose proof (exhaust_chk p Hp) as H. unfold perm_chk in H.
  rewrite !andb_true_iff in H. destruct H as (((_ & H) & _) & _).
  rewrite forallb_forall in H. specialize (H s (lt4_In s Hs)).
  rewrite !andb_true_iff in H. destruct H as ((H1 & H2) & H3).
  apply N.ltb_lt in H1. apply N.eqb_eq in H2. apply N.eqb_eq in H3. auto.
Qed.

Lemma exhaust_map_lt : forall p s, In p EXHAUST -> s < 4 -> perm_map p s < 4.
Proof. intros p s Hp Hs. apply (exhaust_pointwise p s Hp Hs). Qed.

Lemma exhaust_pinv : forall p, In p EXHAUST -> In (pinv p) EXHAUST.
Proof.
  intros p Hp. pose proof (exhaust_chk p Hp) as H. unfold perm_chk in H.
  rewrite !andb_true_iff in H. destruct H as ((_ & H) & _).
  apply existsb_exists in H. destruct H as (q & Hq & E). apply perm_eqb_eq in E. rewrite E. exact Hq.
Qed.

Lemma exhaust_pcomp : forall p q, In p EXHAUST -> In q EXHAUST -> In (pcomp q p) EXHAUST.
Proof.
  intros p q Hp Hq. pose proof (exhaust_chk p Hp) as H. unfold perm_chk in H.
  rewrite !andb_true_iff in H. destruct H as (_ & H).
  rewrite forallb_forall in H. specialize (H q Hq).
  apply existsb_exists in H. destruct H as (c & Hc & E). apply perm_eqb_eq in E. rewrite E. exact Hc.
Qed.

Lemma exhaust_inj : forall p s t, In p EXHAUST -> s < 4 -> t < 4 -> perm_map p s = perm_map p t -> s = t.
Proof.
  intros p s t Hp Hs Ht E.
  destruct (exhaust_pointwise p s Hp Hs) as (_ & _ & Is).
  destruct (exhaust_pointwise p t Hp Ht) as (_ & _ & It).
  rewrite <- Is, <- It, E. reflexivity.
Qed.

Lemma exhaust_surj : forall p t, In p EXHAUST -> t < 4 -> exists s, s < 4 /\ perm_map p s = t.
Proof.
  intros p t Hp Ht. exists (perm_map (pinv p) t). split.
  - apply exhaust_map_lt; [apply exhaust_pinv; exact Hp | exact Ht].
  - apply (exhaust_pointwise p t Hp Ht).
Qed.

Lemma pcomp_map : forall q p s, In p EXHAUST -> s < 4 -> perm_map (pcomp q p) s = perm_map q (perm_map p s).
Proof.
  intros q p s Hp Hs. unfold pcomp, perm_map at 1.
  pose proof (exhaust_length p Hp) as Hl.
  rewrite (nth_indep _ 0 (perm_map q 0)) by (rewrite map_length; lia).
  rewrite map_nth. reflexivity.
Qed.

Lemma identity_In : In identity EXHAUST.
Proof. vm_compute. auto. Qed.

Lemma identity_map : forall s, s < 4 -> perm_map identity s = s.
Proof.
  intros s Hs. assert (H : s = 0 \/ s = 1 \/ s = 2 \/ s = 3) by lia.
  destruct H as [H | [H | [H | H]]]; subst s; reflexivity.
Qed.

(* a list of length 4 is determined by its four entries *)
Lemma perm_ext : forall p q, length p = 4%nat -> length q = 4%nat ->
  (forall s, s < 4 -> perm_map p s = perm_map q s) -> p = q.
Proof.
  intros p q Hp Hq H.
  destruct p as [|a [|b [|c [|e [|x p]]]]]; try discriminate.
  destruct q as [|a' [|b' [|c' [|e' [|x' q]]]]]; try discriminate.
  pose proof (H 0 ltac:(lia)) as H0. pose proof (H 1 ltac:(lia)) as H1.
  pose proof (H 2 ltac:(lia)) as H2. pose proof (H 3 ltac:(lia)) as H3.
  cbv in H0, H1, H2, H3. subst. reflexivity.
Qed.

(* ---------- Permutation::shift, bit by bit ---------- *)

Lemma u64_testbit_low : forall x k, k < 64 -> N.testbit (u64 x) k = N.testbit x k.
Proof. intros x k Hk. unfold u64. change two64 with (2 ^ 64). apply N.mod_pow2_bits_low. exact Hk. Qed.

Lemma shift_testbit : forall d p s h k, s < 4 -> perm_map p s < 4 ->
  N.testbit (shift d p s h) k
  = N.testbit (hand_mask d) k && ((k mod 4 =? perm_map p s) && N.testbit h (k + s - perm_map p s)).
Proof.
  intros d p s h k Hs Hn. unfold shift. cbv zeta.
  set (new := perm_map p s) in *.
  destruct (N.testbit (hand_mask d) k) eqn:Em.
  2:{ destruct (s <=? new); unfold hand_of_u64; rewrite N.land_spec, Em; apply andb_false_r. }
  assert (Hk : k < 52).
  { destruct (N.lt_ge_cases k 52) as [H | H]; [exact H|].
    rewrite (testbit_high_lt _ 52 k (hand_mask_lt d) H) in Em. discriminate. }
  cbn [andb].
  destruct (N.leb_spec s new) as [Hle | Hgt]; unfold hand_of_u64; rewrite N.land_spec, Em, andb_true_r.
  - rewrite u64_testbit_low by lia.
    destruct (N.lt_ge_cases k (new - s)) as [Hlow | Hhigh].
    + rewrite N.shiftl_spec_low by exact Hlow.
      destruct (N.eqb_spec (k mod 4) new) as [E | NE]; [exfalso; lia | reflexivity].
    + rewrite N.shiftl_spec_high by lia.
      rewrite N.land_spec, suit_mask_testbit by exact Hs.
      destruct (N.eqb_spec (k mod 4) new) as [E | NE].
      * replace (k - (new - s)) with (k + s - new) by lia.
        destruct (N.ltb_spec (k + s - new) 52) as [H | H]; [|exfalso; lia].
        destruct (N.eqb_spec ((k + s - new) mod 4) s) as [E2 | NE2]; [|exfalso; lia].
        reflexivity.
      * destruct (N.eqb_spec ((k - (new - s)) mod 4) s) as [E2 | NE2]; [exfalso; lia|].
        rewrite andb_false_r. reflexivity.
  - rewrite N.shiftr_spec by lia.
    rewrite N.land_spec, suit_mask_testbit by exact Hs.
    destruct (N.eqb_spec (k mod 4) new) as [E | NE].
    + replace (k + (s - new)) with (k + s - new) by lia.
      destruct (N.ltb_spec (k + s - new) 52) as [H | H]; [|exfalso; lia].
      destruct (N.eqb_spec ((k + s - new) mod 4) s) as [E2 | NE2]; [|exfalso; lia].
      reflexivity.
    + destruct (N.eqb_spec ((k + (s - new)) mod 4) s) as [E2 | NE2]; [exfalso; lia|].
      rewrite andb_false_r. reflexivity.
Qed.

Lemma shift_disjoint : forall d p s t h, In p EXHAUST -> s < 4 -> t < 4 -> s <> t ->
  N.land (shift d p s h) (shift d p t h) = 0.
Proof.
  intros d p s t h Hp Hs Ht Hne. apply N.bits_inj. intros k.
  rewrite N.land_spec, N.bits_0.
  rewrite !shift_testbit by (try apply exhaust_map_lt; assumption).
  destruct (N.eqb_spec (k mod 4) (perm_map p s)) as [E1 | NE1];
    destruct (N.eqb_spec (k mod 4) (perm_map p t)) as [E2 | NE2];
    cbn [andb]; rewrite ?andb_false_r; try reflexivity.
  exfalso. apply Hne. apply (exhaust_inj p s t Hp Hs Ht). congruence.
Qed.

Lemma hand_add_disj : forall a b, N.land a b = 0 -> hand_add a b = Some (N.lor a b).
Proof. intros a b H. unfold hand_add. rewrite H. reflexivity. Qed.

Definition image_val (d : deck) (p : perm) (h : N) : N :=
  N.lor (N.lor (N.lor (N.lor 0 (shift d p 0 h)) (shift d p 1 h)) (shift d p 2 h)) (shift d p 3 h).

Lemma image_some : forall d p h, In p EXHAUST -> image d p h = Some (image_val d p h).
Proof.
  intros d p h Hp. unfold image, image_val. cbn [fold_left].
  assert (D : forall s t, s < 4 -> t < 4 -> s <> t -> N.land (shift d p s h) (shift d p t h) = 0)
    by (intros s t Hs Ht Hne; apply shift_disjoint; assumption).
  rewrite (hand_add_disj 0 (shift d p 0 h)) by apply N.land_0_l. cbv beta iota.
  rewrite (hand_add_disj _ (shift d p 1 h)) by (rewrite N.lor_0_l; apply D; lia). cbv beta iota.
  rewrite (hand_add_disj _ (shift d p 2 h))
    by (rewrite N.lor_0_l, N.land_lor_distr_l, (D 0 2), (D 1 2) by lia; reflexivity). cbv beta iota.
  rewrite (hand_add_disj _ (shift d p 3 h))
    by (rewrite N.lor_0_l, !N.land_lor_distr_l, (D 0 3), (D 1 3), (D 2 3) by lia; reflexivity).
  reflexivity.
Qed.

(* bit (4 r + p s) of the image is bit (4 r + s) of the hand *)
Lemma image_val_testbit : forall d p h r s, In p EXHAUST -> N.land h (hand_mask d) = h -> s < 4 ->
  N.testbit (image_val d p h) (4 * r + perm_map p s) = N.testbit h (4 * r + s).
Proof.
  intros d p h r s Hp Hh Hs.
  pose proof (exhaust_map_lt p s Hp Hs) as Hn.
  assert (A : forall t, t < 4 ->
    N.testbit (shift d p t h) (4 * r + perm_map p s) = if t =? s then N.testbit h (4 * r + s) else false).
  { intros t Ht. rewrite shift_testbit by (try apply exhaust_map_lt; assumption).
    pose proof (exhaust_map_lt p t Hp Ht) as Hnt.
    replace ((4 * r + perm_map p s) mod 4) with (perm_map p s) by lia.
    destruct (N.eqb_spec t s) as [E | NE].
    - subst t. rewrite N.eqb_refl. cbn [andb].
      replace (4 * r + perm_map p s + s - perm_map p s) with (4 * r + s) by lia.
      rewrite (hand_mask_rank_suit d r (perm_map p s) s Hn Hs).
      destruct (N.testbit h (4 * r + s)) eqn:E; [|apply andb_false_r].
      rewrite (in_mask_bit d h _ Hh E). reflexivity.
    - destruct (N.eqb_spec (perm_map p s) (perm_map p t)) as [E | _].
      + exfalso. apply NE. symmetry. apply (exhaust_inj p s t Hp Hs Ht E).
      + cbn [andb]. apply andb_false_r. }
  unfold image_val. rewrite !N.lor_spec, N.bits_0, !A by lia.
  assert (H : s = 0 \/ s = 1 \/ s = 2 \/ s = 3) by lia.
  destruct H as [H | [H | [H | H]]]; subst s; cbn [N.eqb Pos.eqb orb]; rewrite ?orb_false_r; reflexivity.
Qed.

(* ---------- the mathematical relabeling, bit by bit ---------- *)

Lemma relabel_card_eq : forall p r s, s < 4 -> relabel_card p (4 * r + s) = 4 * r + perm_map p s.
Proof.
  intros p r s Hs. unfold relabel_card, perm_map.
  replace ((4 * r + s) / 4) with r by lia. replace ((4 * r + s) mod 4) with s by lia. reflexivity.
Qed.

Lemma relabel_testbit : forall p h r s, In p EXHAUST -> h < 2 ^ 64 -> s < 4 ->
  N.testbit (relabel_hand p h) (4 * r + perm_map p s) = N.testbit h (4 * r + s).
Proof.
  intros p h r s Hp Hh Hs. apply eq_true_iff_eq.
  unfold relabel_hand. rewrite mask_of_bits_spec, in_map_iff. split.
  - intros (c & E & Hc). apply (hand_cards_spec h c Hh) in Hc.
    destruct (card_decomp c) as (r' & t & Ht & Ec). subst c.
    rewrite relabel_card_eq in E by exact Ht.
    pose proof (exhaust_map_lt p s Hp Hs) as H1. pose proof (exhaust_map_lt p t Hp Ht) as H2.
    assert (Er : r' = r) by lia. subst r'.
    assert (Et : perm_map p t = perm_map p s) by lia.
    apply (exhaust_inj p t s Hp Ht Hs) in Et. subst t. exact Hc.
  - intros H. exists (4 * r + s). split; [apply relabel_card_eq; exact Hs|].
    apply (hand_cards_spec h _ Hh). exact H.
Qed.

(* two masks that agree on every bit (4 r + p s) are equal *)
Lemma perm_bits_ext : forall p a b, In p EXHAUST ->
  (forall r s, s < 4 -> N.testbit a (4 * r + perm_map p s) = N.testbit b (4 * r + perm_map p s)) -> a = b.
Proof.
  intros p a b Hp H. apply N.bits_inj. intros k.
  destruct (card_decomp k) as (r & t & Ht & E). subst k.
  destruct (exhaust_surj p t Hp Ht) as (s & Hs & Es). rewrite <- Es. apply H. exact Hs.
Qed.

Lemma C05_image_is_relabel : forall d p h, In p EXHAUST -> N.land h (hand_mask d) = h ->
  image d p h = Some (relabel_hand p h).
Proof.
  intros d p h Hp Hh. rewrite (image_some d p h Hp). f_equal.
  apply (perm_bits_ext p _ _ Hp). intros r s Hs.
  rewrite (image_val_testbit d p h r s Hp Hh Hs).
  rewrite relabel_testbit; [reflexivity | exact Hp | | exact Hs].
  apply pow2_52_64. apply (in_mask_lt d h Hh).
Qed.

Lemma C05_image_testbit : forall d p h v r s, In p EXHAUST -> N.land h (hand_mask d) = h ->
  image d p h = Some v -> s < 4 ->
  N.testbit v (4 * r + perm_map p s) = N.testbit h (4 * r + s).
Proof.
  intros d p h v r s Hp Hh E Hs. rewrite (image_some d p h Hp) in E. injection E as E. subst v.
  apply image_val_testbit; assumption.
Qed.

(* ---------- relabeling: bounds, size, group action ---------- *)

Lemma relabel_card_inj : forall p c c', In p EXHAUST -> relabel_card p c = relabel_card p c' -> c = c'.
Proof.
  intros p c c' Hp E.
  destruct (card_decomp c) as (r & s & Hs & Ec). destruct (card_decomp c') as (r' & s' & Hs' & Ec'). subst c c'.
  rewrite !relabel_card_eq in E by assumption.
  pose proof (exhaust_map_lt p s Hp Hs) as H1. pose proof (exhaust_map_lt p s' Hp Hs') as H2.
  assert (Er : r = r') by lia. subst r'.
  assert (Et : perm_map p s = perm_map p s') by lia.
  apply (exhaust_inj p s s' Hp Hs Hs') in Et. subst s'. reflexivity.
Qed.

Lemma relabel_card_lt : forall p c n, In p EXHAUST -> c < 4 * n -> relabel_card p c < 4 * n.
Proof.
  intros p c n Hp Hc. destruct (card_decomp c) as (r & s & Hs & Ec). subst c.
  rewrite relabel_card_eq by exact Hs. pose proof (exhaust_map_lt p s Hp Hs) as H1. lia.
Qed.

Lemma relabel_hand_bit : forall p h k, h < 2 ^ 64 ->
  (N.testbit (relabel_hand p h) k = true <-> exists c, N.testbit h c = true /\ relabel_card p c = k).
Proof.
  intros p h k Hh. unfold relabel_hand. rewrite mask_of_bits_spec, in_map_iff. split.
  - intros (c & E & Hc). exists c. split; [apply (hand_cards_spec h c Hh); exact Hc | exact E].
  - intros (c & Hc & E). exists c. split; [exact E | apply (hand_cards_spec h c Hh); exact Hc].
Qed.

Lemma relabel_hand_lt : forall p h, In p EXHAUST -> h < 2 ^ 52 -> relabel_hand p h < 2 ^ 52.
Proof.
  intros p h Hp Hh. apply lt_pow2_of_bits. intros k Hk.
  destruct (N.testbit (relabel_hand p h) k) eqn:E; [|reflexivity]. exfalso.
  apply (relabel_hand_bit p h k (pow2_52_64 h Hh)) in E. destruct E as (c & Hc & E).
  assert (Hc52 : c < 52).
  { destruct (N.lt_ge_cases c 52) as [H | H]; [exact H|].
    rewrite (testbit_high_lt h 52 c Hh H) in Hc. discriminate. }
  pose proof (relabel_card_lt p c 13 Hp ltac:(lia)) as H. lia.
Qed.

Lemma relabel_hand_in_mask : forall d p h, In p EXHAUST -> N.land h (hand_mask d) = h ->
  N.land (relabel_hand p h) (hand_mask d) = relabel_hand p h.
Proof.
  intros d p h Hp Hh. apply in_mask_of_bits. intros k E.
  apply (relabel_hand_bit p h k (pow2_52_64 h (in_mask_lt d h Hh))) in E. destruct E as (c & Hc & E).
  destruct (card_decomp c) as (r & s & Hs & Ec). subst c k.
  rewrite relabel_card_eq by exact Hs.
  rewrite (hand_mask_rank_suit d r (perm_map p s) s (exhaust_map_lt p s Hp Hs) Hs).
  apply (in_mask_bit d h _ Hh Hc).
Qed.

Lemma relabel_hand_size : forall p h, In p EXHAUST -> h < 2 ^ 52 ->
  hand_size (relabel_hand p h) = hand_size h.
Proof.
  intros p h Hp Hh. rewrite !hand_size_length. f_equal.
  rewrite <- (map_length (relabel_card p) (hand_cards h)).
  apply Permutation_length. apply NoDup_Permutation.
  - apply hand_cards_NoDup.
  - apply FinFun.Injective_map_NoDup; [|apply hand_cards_NoDup].
    intros c c' E. apply (relabel_card_inj p c c' Hp E).
  - intros k. rewrite (hand_cards_spec _ k (pow2_52_64 _ (relabel_hand_lt p h Hp Hh))).
    unfold relabel_hand. apply mask_of_bits_spec.
Qed.

Lemma relabel_hand_disjoint : forall p a b, In p EXHAUST -> a < 2 ^ 52 -> b < 2 ^ 52 ->
  N.land a b = 0 -> N.land (relabel_hand p a) (relabel_hand p b) = 0.
Proof.
  intros p a b Hp Ha Hb H. apply N.bits_inj. intros k. rewrite N.land_spec, N.bits_0.
  destruct (N.testbit (relabel_hand p a) k) eqn:Ea; [|reflexivity].
  destruct (N.testbit (relabel_hand p b) k) eqn:Eb; [|reflexivity]. exfalso.
  apply (relabel_hand_bit p a k (pow2_52_64 a Ha)) in Ea. destruct Ea as (c & Hc & E).
  apply (relabel_hand_bit p b k (pow2_52_64 b Hb)) in Eb. destruct Eb as (c' & Hc' & E').
  rewrite <- E' in E. apply (relabel_card_inj p c c' Hp) in E. subst c'.
  assert (F : N.testbit (N.land a b) c = true) by (rewrite N.land_spec, Hc, Hc'; reflexivity).
  rewrite H, N.bits_0 in F. discriminate.
Qed.

Lemma relabel_hand_identity : forall h, h < 2 ^ 64 -> relabel_hand identity h = h.
Proof.
  intros h Hh. apply (perm_bits_ext identity _ _ identity_In). intros r s Hs.
  rewrite (relabel_testbit identity h r s identity_In Hh Hs), (identity_map s Hs). reflexivity.
Qed.

Lemma relabel_hand_comp : forall p q h, In p EXHAUST -> In q EXHAUST -> h < 2 ^ 52 ->
  relabel_hand q (relabel_hand p h) = relabel_hand (pcomp q p) h.
Proof.
  intros p q h Hp Hq Hh.
  pose proof (exhaust_pcomp p q Hp Hq) as Hc.
  apply (perm_bits_ext (pcomp q p) _ _ Hc). intros r s Hs.
  rewrite (relabel_testbit (pcomp q p) h r s Hc (pow2_52_64 h Hh) Hs).
  rewrite (pcomp_map q p s Hp Hs).
  rewrite (relabel_testbit q _ r (perm_map p s) Hq); [| apply pow2_52_64, relabel_hand_lt; assumption
                                                      | apply exhaust_map_lt; assumption].
  apply (relabel_testbit p h r s Hp (pow2_52_64 h Hh) Hs).
Qed.

Lemma pcomp_pinv_l : forall p, In p EXHAUST -> pcomp (pinv p) p = identity.
Proof.
  intros p Hp. apply perm_ext.
  - unfold pcomp. rewrite map_length. apply exhaust_length. exact Hp.
  - reflexivity.
  - intros s Hs. rewrite (pcomp_map (pinv p) p s Hp Hs), (identity_map s Hs).
    apply (exhaust_pointwise p s Hp Hs).
Qed.

Lemma relabel_hand_inv : forall p h, In p EXHAUST -> h < 2 ^ 52 ->
  relabel_hand (pinv p) (relabel_hand p h) = h.
Proof.
  intros p h Hp Hh. rewrite (relabel_hand_comp p (pinv p) h Hp (exhaust_pinv p Hp) Hh).
  rewrite (pcomp_pinv_l p Hp). apply relabel_hand_identity. apply pow2_52_64. exact Hh.
Qed.

(* bit (4 r + t) of a relabeled hand, through the inverse permutation *)
Lemma relabel_testbit_inv : forall p h r t, In p EXHAUST -> h < 2 ^ 64 -> t < 4 ->
  N.testbit (relabel_hand p h) (4 * r + t) = N.testbit h (4 * r + perm_map (pinv p) t).
Proof.
  intros p h r t Hp Hh Ht.
  destruct (exhaust_pointwise p t Hp Ht) as (_ & E & _).
  rewrite <- E at 1. apply relabel_testbit; [exact Hp | exact Hh|].
  apply exhaust_map_lt; [apply exhaust_pinv; exact Hp | exact Ht].
Qed.

(* ---------- observations ---------- *)

Lemma wf_obs_d_relabel : forall d p o, In p EXHAUST -> wf_obs_d d o -> wf_obs_d d (relabel_obs p o).
Proof.
  intros d p o Hp ((Hpk & Hpb & Hdis & Hs2 & Hsp) & Mpk & Mpb).
  unfold wf_obs_d, wf_obs, relabel_obs. cbn [pocket public].
  rewrite !(relabel_hand_size p _ Hp) by assumption.
  repeat split.
  - apply relabel_hand_lt; assumption.
  - apply relabel_hand_lt; assumption.
  - apply relabel_hand_disjoint; assumption.
  - exact Hs2.
  - exact Hsp.
  - apply relabel_hand_in_mask; assumption.
  - apply relabel_hand_in_mask; assumption.
Qed.

Lemma C05_permute_is_relabel : forall d p o, In p EXHAUST -> wf_obs_d d o ->
  permute d p o = Some (relabel_obs p o) /\ wf_obs_d d (relabel_obs p o).
Proof.
  intros d p o Hp Hwf. split; [|apply wf_obs_d_relabel; assumption].
  destruct Hwf as ((Hpk & Hpb & Hdis & Hs2 & Hsp) & Mpk & Mpb).
  unfold permute. rewrite (C05_image_is_relabel d p _ Hp Mpk), (C05_image_is_relabel d p _ Hp Mpb).
  unfold obs_from_parts. rewrite !(relabel_hand_size p _ Hp) by assumption.
  rewrite Hs2. cbn [N.eqb Pos.eqb andb].
  destruct (N.leb_spec (hand_size (public o)) 5) as [_ | H]; [reflexivity | exfalso; lia].
Qed.

Lemma obs_ext : forall a b, pocket a = pocket b -> public a = public b -> a = b.
Proof. intros [a1 a2] [b1 b2] H1 H2. cbn [pocket public] in *. subst. reflexivity. Qed.

Lemma relabel_obs_identity : forall d o, wf_obs_d d o -> relabel_obs identity o = o.
Proof.
  intros d o ((Hpk & Hpb & _) & _). apply obs_ext; cbn [relabel_obs pocket public];
    apply relabel_hand_identity, pow2_52_64; assumption.
Qed.

Lemma relabel_obs_comp : forall d p q o, In p EXHAUST -> In q EXHAUST -> wf_obs_d d o ->
  relabel_obs q (relabel_obs p o) = relabel_obs (pcomp q p) o.
Proof.
  intros d p q o Hp Hq ((Hpk & Hpb & _) & _). unfold relabel_obs. cbn [pocket public].
  rewrite !(relabel_hand_comp p q) by assumption. reflexivity.
Qed.

Lemma relabel_obs_inv : forall d p o, In p EXHAUST -> wf_obs_d d o ->
  relabel_obs (pinv p) (relabel_obs p o) = o.
Proof.
  intros d p o Hp ((Hpk & Hpb & _) & _). apply obs_ext; cbn [relabel_obs pocket public];
    apply relabel_hand_inv; assumption.
Qed.

Lemma obs_eqb_refl : forall o, obs_eqb o o = true.
Proof. intros o. unfold obs_eqb. rewrite !N.eqb_refl. reflexivity. Qed.

Lemma obs_eqb_eq : forall a b, obs_eqb a b = true -> a = b.
Proof.
  intros a b H. unfold obs_eqb in H. apply andb_true_iff in H. destruct H as (H1 & H2).
  apply N.eqb_eq in H1. apply N.eqb_eq in H2. apply obs_ext; assumption.
Qed.

(* isomorphic o1 o2 as soon as two relabelings of them coincide *)
Lemma isomorphic_of_relabels : forall d p1 p2 o1 o2, In p1 EXHAUST -> In p2 EXHAUST ->
  wf_obs_d d o1 -> wf_obs_d d o2 -> relabel_obs p1 o1 = relabel_obs p2 o2 -> isomorphic o1 o2 = true.
Proof.
  intros d p1 p2 o1 o2 H1 H2 W1 W2 E. unfold isomorphic. apply existsb_exists.
  exists (pcomp (pinv p2) p1). split.
  - apply exhaust_pcomp; [exact H1 | apply exhaust_pinv; exact H2].
  - rewrite <- (relabel_obs_comp d p1 (pinv p2) o1 H1 (exhaust_pinv p2 H2) W1).
    rewrite E, (relabel_obs_inv d p2 o2 H2 W2). apply obs_eqb_refl.
Qed.
