(* Proofs/C08_flags.v -- the flag-parameterised copies of Spec/SpecCfr.v are the model at the generated
   flag values; with either flag flipped the estimator identity fails (both flags are necessary). *)
From Coq Require Import NArith QArith List Bool Lia Lqa.
From RP Require Import Gen.GenLib Gen.GenFixes Model.Cfr Spec.SpecCfr Proofs.C08_base Proofs.C08_estimator.
Import ListNotations.
Open Scope Q_scope.

Lemma leaves_below_with_generated : forall hb t rel ext,
  leaves_below_with RELATIVE_REACH_STOPS_AT_NODE hb t rel ext = leaves_below Q 1 Qmult hb t rel ext.
Proof. reflexivity. Qed.

Lemma gains_with_generated : forall fuel t ext prof,
  gains_with CFR_ESTIMATOR_EXTERNAL RELATIVE_REACH_STOPS_AT_NODE fuel t ext prof
  = gains Q 0 1 Qplus Qminus Qmult Qdiv fuel t ext prof.
Proof. reflexivity. Qed.

Theorem immediate_regrets_with_generated : forall t,
  immediate_regrets_with CFR_ESTIMATOR_EXTERNAL RELATIVE_REACH_STOPS_AT_NODE t = immediate_regrets_Q t.
Proof. reflexivity. Qed.

(* decidable comparison of regret lists *)
Fixpoint triples_eqb (l1 l2 : list (N * N * Q)) : bool :=
  match l1, l2 with
  | [], [] => true
  | (b1, e1, v1) :: l1', (b2, e2, v2) :: l2' =>
      N.eqb b1 b2 && N.eqb e1 e2 && Qeq_bool v1 v2 && triples_eqb l1' l2'
  | _, _ => false
  end.

Lemma triples_eqb_complete : forall l1 l2, triples_eq l1 l2 -> triples_eqb l1 l2 = true.
Proof.
  intros l1 l2 H. induction H as [|x y l1 l2 Hxy _ IH]; [reflexivity|].
  destruct x as [[b1 e1] v1]. destruct y as [[b2 e2] v2]. destruct Hxy as [Hk Hv].
  cbn [fst snd] in Hk, Hv. inversion Hk; subst. cbn [triples_eqb].
  rewrite !N.eqb_refl, IH. apply Qeq_bool_iff in Hv. rewrite Hv. reflexivity.
Qed.

Lemma triples_eqb_sound : forall l1 l2, triples_eqb l1 l2 = true -> triples_eq l1 l2.
Proof.
  induction l1 as [|[[b1 e1] v1] l1 IH]; intros [|[[b2 e2] v2] l2] H; cbn [triples_eqb] in H;
    try discriminate.
  - constructor.
  - apply andb_true_iff in H. destruct H as [H H4]. apply andb_true_iff in H. destruct H as [H H3].
    apply andb_true_iff in H. destruct H as [H1 H2].
    apply N.eqb_eq in H1. apply N.eqb_eq in H2. apply Qeq_bool_iff in H3. subst.
    constructor; [split; [reflexivity | exact H3] | apply IH; exact H4].
Qed.

(* solving the shape predicates on concrete trees *)
Ltac shape_tac :=
  repeat first
    [ match goal with
      | |- es_shape (T _ _ _ _) => constructor
      | |- sigma_normalised (T _ _ _ _) => constructor
      | |- Forall _ (_ :: _) => constructor
      | |- Forall _ [] => constructor
      | |- _ /\ _ => split
      end
    | progress cbn [fst snd sigma_ok length sigma_sum fold_right] ];
  try (intros;
       first [ match goal with H : _ <> _ |- _ => exfalso; apply H; reflexivity end
             | lia | discriminate | congruence | reflexivity | lra ]).

Lemma ex_flag_tree_shape : es_shape ex_flag_tree /\ sigma_normalised ex_flag_tree.
Proof. unfold ex_flag_tree. shape_tac. Qed.

(* original estimator shape (profiled reach, terminal_value relative to the head): fails *)
Theorem external_flag_needed :
  es_shape ex_flag_tree /\ sigma_normalised ex_flag_tree /\
  ~ triples_eq (immediate_regrets_with false true ex_flag_tree) (regret_estimator_Q ex_flag_tree).
Proof.
  destruct ex_flag_tree_shape as [H1 H2]. split; [exact H1|]. split; [exact H2|].
  intros H. apply triples_eqb_complete in H. vm_compute in H. discriminate.
Qed.

(* relative reach restarting at every node sharing the head's bucket: fails *)
Theorem stops_at_node_flag_needed :
  es_shape ex_flag_tree /\ sigma_normalised ex_flag_tree /\
  ~ triples_eq (immediate_regrets_with true false ex_flag_tree) (regret_estimator_Q ex_flag_tree).
Proof.
  destruct ex_flag_tree_shape as [H1 H2]. split; [exact H1|]. split; [exact H2|].
  intros H. apply triples_eqb_complete in H. vm_compute in H. discriminate.
Qed.

(* sanity: with both flags as generated the identity holds on that tree (instance of the theorem) *)
Example flags_as_generated_ok :
  triples_eq (immediate_regrets_with true true ex_flag_tree) (regret_estimator_Q ex_flag_tree).
Proof. apply triples_eqb_sound. vm_compute. reflexivity. Qed.
