(* Proofs/C09_Clamp.v -- the binary32 tail of Profile::regret_vector (Model/RegretF32.v):
   r.max(REGRET_MIN).min(REGRET_MAX) is total, finite and inside the clamp for EVERY binary32 input,
   the two assertions never fire; and what that does (not) give for the unclamped accumulation of
   Memory::add_regret: an overflow witness and a sufficient condition for finiteness. *)
From Coq Require Import ZArith Qreals List Bool Reals Lia Lra.
From Flocq Require Import Core.Core IEEE754.BinarySingleNaN.
From RP Require Import Gen.GenLib Gen.GenFixes Model.BetF32 Model.PolicyF32 Model.RegretF32.
From RP Require Import Proofs.C09_F32.
Import ListNotations.
Local Open Scope R_scope.

Local Notation fexp32 := (SpecFloat.fexp prec emax).
Local Notation rnd := (round radix2 fexp32 ZnearestE).
Local Notation fmt := (generic_format radix2 fexp32).

Local Instance prec_gt_0_32 : Prec_gt_0 prec := Hprec.
Local Instance fexp32_valid : Valid_exp fexp32 := fexp_correct prec emax Hprec.
Local Instance fexp32_mono : Monotone_exp fexp32 := fexp_monotone prec emax.

(* ---------- the two constants ---------- *)
Lemma B2R_regret_min : B2R regret_min = -300000.
Proof.
  unfold regret_min, B2R, F2R, cond_Zopp, Fnum, Fexp.
  change (bpow radix2 (-5)) with (/ 32). rewrite opp_IZR. lra.
Qed.
Lemma B2R_regret_max : B2R regret_max = bpow radix2 128 - bpow radix2 104.
Proof.
  unfold regret_max, B2R, F2R, cond_Zopp, Fnum, Fexp.
  change 16777215%Z with (2 ^ 24 - 1)%Z. rewrite minus_IZR, IZR_pow2 by lia.
  replace (bpow radix2 128) with (bpow radix2 24 * bpow radix2 104) by (rewrite <- bpow_plus; reflexivity).
  ring.
Qed.
Lemma regret_max_pos : 0 < B2R regret_max.
Proof.
  rewrite B2R_regret_max. assert (H : bpow radix2 104 < bpow radix2 128) by (apply bpow_lt; reflexivity). lra.
Qed.
Lemma regret_min_lt_max : B2R regret_min < B2R regret_max.
Proof. rewrite B2R_regret_min. pose proof regret_max_pos. lra. Qed.

(* every finite binary32 number is at most f32::MAX in magnitude *)
Lemma finite_le_max : forall x : f32, Rabs (B2R x) <= B2R regret_max.
Proof.
  intros x. rewrite B2R_regret_max.
  exact (abs_B2R_le_emax_minus_prec prec emax Hprec x).
Qed.

(* the model constants are the generated ones: REGRET_MIN is a literal whose nearest binary32 value
   (it is exactly representable) is regret_min; REGRET_MAX is f32::MAX *)
Lemma regret_constants_generated :
  match REGRET_MIN with
  | FQ q => rnd (Q2R q) = B2R regret_min /\ Q2R q = B2R regret_min
  | _ => False
  end /\
  REGRET_MAX = F32_MAX /\
  regret_min = of_usize (-300000) /\
  (forall x : f32, is_finite x = true -> B2R x <= B2R regret_max).
Proof.
  split; [ | split; [ reflexivity | split ] ].
  - unfold REGRET_MIN.
    assert (Hq : Q2R (-300000 # 1) = B2R regret_min).
    { rewrite B2R_regret_min. unfold Q2R. cbn [QArith_base.Qnum QArith_base.Qden]. lra. }
    split; [ | exact Hq ]. rewrite Hq. apply round_generic; [ typeclasses eauto | apply generic_format_B2R ].
  - apply B2SF_inj. vm_compute. reflexivity.
  - intros x _. pose proof (finite_le_max x) as H. apply Rabs_le_inv in H. lra.
Qed.

(* ---------- max against REGRET_MIN, min against REGRET_MAX ---------- *)
Lemma fmax32_min_finite : forall x : f32, is_finite x = true ->
  (B2R x < B2R regret_min /\ fmax32 x regret_min = regret_min) \/
  (B2R regret_min <= B2R x /\ fmax32 x regret_min = x).
Proof.
  intros x Hf.
  assert (He : fmax32 x regret_min = match Bcompare x regret_min with Some Lt => regret_min | _ => x end)
    by (destruct x as [ s | s | | s m e H ]; try discriminate; reflexivity).
  rewrite He, (Bcompare_correct prec emax x regret_min Hf eq_refl).
  destruct (Rcompare_spec (B2R x) (B2R regret_min)) as [ Hlt | Heq | Hgt ].
  - left. split; [ exact Hlt | reflexivity ].
  - right. split; [ lra | reflexivity ].
  - right. split; [ lra | reflexivity ].
Qed.
Lemma fmin32_max_finite : forall y : f32, is_finite y = true -> fmin32 y regret_max = y.
Proof.
  intros y Hf.
  assert (He : fmin32 y regret_max = match Bcompare y regret_max with Some Gt => regret_max | _ => y end)
    by (destruct y as [ s | s | | s m e H ]; try discriminate; reflexivity).
  rewrite He, (Bcompare_correct prec emax y regret_max Hf eq_refl).
  destruct (Rcompare_spec (B2R y) (B2R regret_max)) as [ Hlt | Heq | Hgt ]; try reflexivity.
  pose proof (finite_le_max y) as H. apply Rabs_le_inv in H. lra.
Qed.

Lemma clamp32_finite_input : forall x : f32, is_finite x = true ->
  (B2R x < B2R regret_min /\ clamp32 x = regret_min) \/
  (B2R regret_min <= B2R x <= B2R regret_max /\ clamp32 x = x).
Proof.
  intros x Hf. unfold clamp32.
  destruct (fmax32_min_finite x Hf) as [ [ Hlt He ] | [ Hge He ] ]; rewrite He.
  - left. split; [ exact Hlt | reflexivity ].
  - right. rewrite (fmin32_max_finite x Hf). split; [ | reflexivity ].
    split; [ exact Hge | ]. pose proof (finite_le_max x) as H. apply Rabs_le_inv in H. lra.
Qed.

Lemma clamp32_special :
  clamp32 B754_nan = regret_min /\ clamp32 (B754_infinity true) = regret_min /\
  clamp32 (B754_infinity false) = regret_max.
Proof. repeat split; reflexivity. Qed.

(* the outcome is one of three things *)
Lemma clamp32_cases : forall x : f32,
  clamp32 x = regret_min \/ clamp32 x = regret_max \/
  (is_finite x = true /\ B2R regret_min <= B2R x <= B2R regret_max /\ clamp32 x = x).
Proof.
  intros x. destruct (is_finite x) eqn:Hf.
  - destruct (clamp32_finite_input x Hf) as [ [ _ He ] | [ Hr He ] ].
    + left. exact He.
    + right. right. split; [ reflexivity | split; assumption ].
  - destruct x as [ s | [ | ] | | s m e H ]; try discriminate.
    + left. reflexivity.
    + right. left. reflexivity.
    + left. reflexivity.
Qed.

Lemma clamp32_total : forall x : f32,
  is_finite (clamp32 x) = true /\
  B2R regret_min <= B2R (clamp32 x) <= B2R regret_max /\
  regret_asserts_fire x = false /\
  (is_finite x = true -> B2R regret_min <= B2R x <= B2R regret_max -> clamp32 x = x) /\
  (is_finite x = true -> B2R x < B2R regret_min -> clamp32 x = regret_min) /\
  (x = B754_nan -> clamp32 x = regret_min) /\
  (x = B754_infinity true -> clamp32 x = regret_min) /\
  (x = B754_infinity false -> clamp32 x = regret_max).
Proof.
  intros x. pose proof regret_min_lt_max as Hmm.
  assert (Hfin : is_finite (clamp32 x) = true /\ B2R regret_min <= B2R (clamp32 x) <= B2R regret_max).
  { destruct (clamp32_cases x) as [ He | [ He | (Hf & Hr & He) ] ]; rewrite He.
    - split; [ reflexivity | lra ].
    - split; [ reflexivity | lra ].
    - split; assumption. }
  destruct Hfin as [ Hfin Hrange ].
  split; [ exact Hfin | ]. split; [ exact Hrange | ]. split.
  { unfold regret_asserts_fire. cbv zeta.
    destruct (clamp32 x) as [ s | s | | s m e H ]; try discriminate; reflexivity. }
  split.
  { intros Hf Hr. destruct (clamp32_finite_input x Hf) as [ [ Hlt _ ] | [ _ He ] ]; [ lra | exact He ]. }
  split.
  { intros Hf Hlt. destruct (clamp32_finite_input x Hf) as [ [ _ He ] | [ Hr _ ] ]; [ exact He | lra ]. }
  split; [ intros ->; reflexivity | ]. split; intros ->; reflexivity.
Qed.

(* ---------- accumulation: Memory::add_regret is not clamped ---------- *)

(* two updates with recorded regret f32::MAX (which the clamp lets through, and which is what an
   infinite immediate regret is clamped to) and discount 1: the stored regret is +infinity *)
Lemma accumulated_can_overflow :
  clamp32 pos_inf = regret_max /\ clamp32 regret_max = regret_max /\
  regret_run32 (B754_zero false) [(f32_one, regret_max)] = regret_max /\
  regret_run32 (B754_zero false) [(f32_one, regret_max); (f32_one, regret_max)] = pos_inf /\
  forall (t : Z) (others : list f32), (0 <= t < 2 ^ 64)%Z ->
    policy_aborts t
      (regret_run32 (B754_zero false) [(f32_one, regret_max); (f32_one, regret_max)] :: others) = true.
Proof.
  assert (H2 : regret_run32 (B754_zero false) [(f32_one, regret_max); (f32_one, regret_max)] = pos_inf)
    by (apply B2SF_inj; vm_compute; reflexivity).
  split; [ reflexivity | ]. split; [ reflexivity | ].
  split; [ apply B2SF_inj; vm_compute; reflexivity | ].
  split; [ exact H2 | ].
  intros t others Ht. rewrite H2. apply aborts_on_infinite_regret; [ exact Ht | left; reflexivity ].
Qed.

(* --- one multiplication by a discount in [0, 1] does not increase the magnitude --- *)
Lemma fmul_discount : forall acc d : f32, is_finite acc = true -> is_finite d = true ->
  0 <= B2R d <= 1 ->
  is_finite (fmul acc d) = true /\ Rabs (B2R (fmul acc d)) <= Rabs (B2R acc).
Proof.
  intros acc d Ha Hd Hd01.
  pose proof (Bmult_correct prec emax Hprec Hmax mode_NE acc d) as H.
  cbn [round_mode] in H. fold (fmul acc d) in H.
  assert (Hle : Rabs (rnd (B2R acc * B2R d)) <= Rabs (B2R acc)).
  { apply abs_round_le_generic; [ typeclasses eauto | typeclasses eauto | | ].
    - apply generic_format_abs. apply generic_format_B2R.
    - rewrite Rabs_mult. rewrite <- (Rmult_1_r (Rabs (B2R acc))) at 2.
      apply Rmult_le_compat_l; [ apply Rabs_pos | ]. rewrite Rabs_pos_eq; lra. }
  rewrite Rlt_bool_true in H.
  - destruct H as (Hr & Hf & _). rewrite Hr, Hf, Ha, Hd. split; [ reflexivity | exact Hle ].
  - apply Rle_lt_trans with (1 := Hle). apply abs_B2R_lt_emax.
Qed.

(* --- one addition, bounded by a representable number below 2^128 --- *)
Lemma fadd_bounded : forall (a v : f32) (M : R), is_finite a = true -> is_finite v = true ->
  fmt M -> M < bpow radix2 128 -> Rabs (rnd (B2R a + B2R v)) <= M ->
  is_finite (fadd a v) = true /\ Rabs (B2R (fadd a v)) <= M.
Proof.
  intros a v M Ha Hv HM HM128 Hle.
  pose proof (Bplus_correct prec emax Hprec Hmax mode_NE a v Ha Hv) as H.
  cbn [round_mode] in H. fold (fadd a v) in H.
  rewrite Rlt_bool_true in H.
  - destruct H as (Hr & Hf & _). rewrite Hr. split; [ exact Hf | exact Hle ].
  - apply Rle_lt_trans with (1 := Hle). exact HM128.
Qed.

(* --- representable bounds: k * 2^b for k <= 2^24 --- *)
Lemma fexp32_eq : forall e : Z, fexp32 e = Z.max (e - 24) (-149).
Proof. intros e. reflexivity. Qed.

Lemma fmt_count : forall k b : Z, (0 <= k <= 2 ^ 24)%Z -> (-149 <= b)%Z -> fmt (IZR k * bpow radix2 b).
Proof.
  intros k b Hk Hb. destruct (Z.eq_dec k (2 ^ 24)) as [ -> | Hne ].
  - rewrite IZR_pow2 by lia. rewrite <- bpow_plus. apply generic_format_bpow.
    rewrite fexp32_eq. lia.
  - apply (generic_format_FLT radix2 (-149) 24).
    apply (FLT_spec radix2 (-149) 24 _ (Float radix2 k b)).
    + reflexivity.
    + cbn [Fnum]. change (Zpower radix2 24) with (2 ^ 24)%Z. lia.
    + cbn [Fexp]. exact Hb.
Qed.

(* --- the tie at the cap: 2^(b+24) + 2^b rounds (to even) down to 2^(b+24) --- *)
Lemma round_cap : forall b : Z, (-149 <= b)%Z ->
  rnd (bpow radix2 (b + 24) + bpow radix2 b) = bpow radix2 (b + 24).
Proof.
  intros b Hb. set (x := bpow radix2 (b + 24) + bpow radix2 b).
  assert (Hb0 : 0 < bpow radix2 b) by apply bpow_gt_0.
  assert (Hlt : bpow radix2 b < bpow radix2 (b + 24)) by (apply bpow_lt; lia).
  assert (Hmag : mag radix2 x = (b + 25)%Z :> Z).
  { apply mag_unique_pos. replace (b + 25 - 1)%Z with (b + 24)%Z by lia.
    split; [ unfold x; lra | ].
    replace (b + 25)%Z with (1 + (b + 24))%Z by lia. rewrite bpow_plus.
    change (bpow radix2 1) with 2. unfold x. lra. }
  assert (Hcexp : cexp radix2 fexp32 x = (b + 1)%Z).
  { unfold cexp. rewrite Hmag, fexp32_eq. lia. }
  assert (Hsm : scaled_mantissa radix2 fexp32 x = IZR 8388608 + / 2).
  { unfold scaled_mantissa. rewrite Hcexp. unfold x. rewrite Rmult_plus_distr_r, <- !bpow_plus.
    replace (b + 24 + - (b + 1))%Z with 23%Z by lia. replace (b + - (b + 1))%Z with (-1)%Z by lia.
    change 8388608%Z with (2 ^ 23)%Z. rewrite IZR_pow2 by lia. reflexivity. }
  assert (Hfl : Zfloor (IZR 8388608 + / 2) = 8388608%Z).
  { apply Zfloor_imp. rewrite plus_IZR. lra. }
  unfold round. rewrite Hsm, Hcexp. unfold Znearest. rewrite Hfl.
  rewrite Rcompare_Eq by lra. cbn [Z.even negb].
  unfold F2R. cbn [Fnum Fexp]. change 8388608%Z with (2 ^ 23)%Z. rewrite IZR_pow2 by lia.
  rewrite <- bpow_plus. f_equal. lia.
Qed.

Lemma round_abs_le_cap : forall (b : Z) (x : R), (-149 <= b)%Z ->
  Rabs x <= bpow radix2 (b + 24) + bpow radix2 b -> Rabs (rnd x) <= bpow radix2 (b + 24).
Proof.
  intros b x Hb Hx. apply Rabs_le_inv in Hx. apply Rabs_le. split.
  - rewrite <- (round_cap b Hb), <- round_NE_opp.
    apply round_le; [ typeclasses eauto | typeclasses eauto | lra ].
  - rewrite <- (round_cap b Hb) at 1. apply round_le; [ typeclasses eauto | typeclasses eauto | lra ].
Qed.

(* the bound after k updates of magnitude at most 2^b: min(k, 2^24) * 2^b *)
Definition capped (k : Z) : Z := Z.min k (2 ^ 24).

Lemma accumulate32_step : forall (b k : Z) (acc d v : f32), (-149 <= b)%Z -> (0 <= k)%Z ->
  is_finite acc = true -> Rabs (B2R acc) <= IZR (capped k) * bpow radix2 b ->
  is_finite d = true -> 0 <= B2R d <= 1 ->
  is_finite v = true -> Rabs (B2R v) <= bpow radix2 b ->
  IZR (capped (k + 1)) * bpow radix2 b < bpow radix2 128 ->
  is_finite (accumulate32 acc d v) = true /\
  Rabs (B2R (accumulate32 acc d v)) <= IZR (capped (k + 1)) * bpow radix2 b.
Proof.
  intros b k acc d v Hb Hk Ha Hacc Hd Hd01 Hv Hvb Hlim.
  destruct (fmul_discount acc d Ha Hd Hd01) as [ Hmf Hmle ].
  unfold accumulate32.
  assert (Hsum : Rabs (B2R (fmul acc d) + B2R v) <= IZR (capped k) * bpow radix2 b + bpow radix2 b).
  { apply Rle_trans with (1 := Rabs_triang _ _). lra. }
  apply (fadd_bounded (fmul acc d) v (IZR (capped (k + 1)) * bpow radix2 b) Hmf Hv).
  - apply fmt_count; [ unfold capped; lia | exact Hb ].
  - exact Hlim.
  - destruct (Z_lt_le_dec k (2 ^ 24)) as [ Hlt | Hge ].
    + (* counting: (k + 1) * 2^b is representable *)
      assert (Hc : capped k = k) by (unfold capped; lia).
      assert (Hc1 : capped (k + 1) = (k + 1)%Z) by (unfold capped; lia).
      rewrite Hc in Hsum. rewrite Hc1.
      apply abs_round_le_generic; [ typeclasses eauto | typeclasses eauto | | ].
      * apply fmt_count; [ lia | exact Hb ].
      * rewrite plus_IZR. lra.
    + (* at the cap: 2^(b+24) + 2^b is a tie that rounds back to 2^(b+24) *)
      assert (Hc : capped k = (2 ^ 24)%Z) by (unfold capped; lia).
      assert (Hc1 : capped (k + 1) = (2 ^ 24)%Z) by (unfold capped; lia).
      rewrite Hc in Hsum. rewrite Hc1.
      rewrite IZR_pow2 in Hsum |- * by lia. rewrite <- bpow_plus in Hsum |- *.
      replace (24 + b)%Z with (b + 24)%Z in Hsum |- * by lia.
      apply round_abs_le_cap; [ exact Hb | exact Hsum ].
Qed.

Lemma capped_mono : forall k k' : Z, (k <= k')%Z -> (capped k <= capped k')%Z.
Proof. intros k k' Hk. unfold capped. lia. Qed.

Lemma accumulated_bound : forall (b : Z) (dvs : list (f32 * f32)) (n0 : Z) (acc : f32),
  (-149 <= b)%Z -> (0 <= n0)%Z ->
  is_finite acc = true -> Rabs (B2R acc) <= IZR (Z.min n0 (2 ^ 24)) * bpow radix2 b ->
  Forall (fun dv => is_finite (fst dv) = true /\ 0 <= B2R (fst dv) <= 1 /\
                    is_finite (snd dv) = true /\ Rabs (B2R (snd dv)) <= bpow radix2 b) dvs ->
  IZR (Z.min (n0 + Z.of_nat (length dvs)) (2 ^ 24)) * bpow radix2 b < bpow radix2 128 ->
  is_finite (regret_run32 acc dvs) = true /\
  Rabs (B2R (regret_run32 acc dvs)) <= IZR (Z.min (n0 + Z.of_nat (length dvs)) (2 ^ 24)) * bpow radix2 b.
Proof.
  intros b. induction dvs as [ | [ d v ] rest IH ]; intros n0 acc Hb Hn0 Ha Hacc Hall Hlim.
  - cbn [regret_run32 length]. rewrite Z.add_0_r. split; [ exact Ha | exact Hacc ].
  - inversion Hall as [ | dv l (Hd & Hd01 & Hv & Hvb) Hrest ]; subst dv l.
    cbn [fst snd] in Hd, Hd01, Hv, Hvb. cbn [regret_run32].
    replace (n0 + Z.of_nat (length ((d, v) :: rest)))%Z with (n0 + 1 + Z.of_nat (length rest))%Z in *
      by (cbn [length]; lia).
    assert (Hb0 : 0 < bpow radix2 b) by apply bpow_gt_0.
    assert (Hlim1 : IZR (capped (n0 + 1)) * bpow radix2 b < bpow radix2 128).
    { apply Rle_lt_trans with (2 := Hlim). apply Rmult_le_compat_r; [ lra | ].
      apply IZR_le. apply capped_mono. lia. }
    destruct (accumulate32_step b n0 acc d v Hb Hn0 Ha Hacc Hd Hd01 Hv Hvb Hlim1) as [ Hf1 Hb1 ].
    apply (IH (n0 + 1)%Z (accumulate32 acc d v) Hb ltac:(lia) Hf1 Hb1 Hrest Hlim).
Qed.

(* in the terms of an arbitrary real bound B on the recorded regrets: T updates, (T + 1) * B < 2^127
   (the + 1 accounts for an initial content of magnitude at most B, e.g. +0.0), any T *)
Lemma accumulated_finite : forall (B : R) (acc : f32) (dvs : list (f32 * f32)),
  0 < B -> is_finite acc = true -> Rabs (B2R acc) <= B ->
  Forall (fun dv => is_finite (fst dv) = true /\ 0 <= B2R (fst dv) <= 1 /\
                    is_finite (snd dv) = true /\ Rabs (B2R (snd dv)) <= B) dvs ->
  (INR (length dvs) + 1) * B < bpow radix2 127 ->
  is_finite (regret_run32 acc dvs) = true /\
  Rabs (B2R (regret_run32 acc dvs)) < bpow radix2 128.
Proof.
  intros B acc dvs HB Ha Hacc Hall Hlim.
  set (b := Z.max (mag radix2 B) (-149)).
  assert (Hb : (-149 <= b)%Z) by (unfold b; lia).
  assert (HBb : B <= bpow radix2 b).
  { apply Rle_trans with (bpow radix2 (mag radix2 B)).
    - pose proof (bpow_mag_gt radix2 B) as H. rewrite Rabs_pos_eq in H by lra. lra.
    - apply bpow_le. unfold b. lia. }
  set (T := Z.of_nat (length dvs)).
  assert (HT : INR (length dvs) = IZR T) by (unfold T; apply INR_IZR_INZ).
  rewrite HT in Hlim.
  assert (HT0 : (0 <= T)%Z) by (unfold T; lia).
  assert (Hb0 : 0 < bpow radix2 b) by apply bpow_gt_0.
  assert (Hlim' : IZR (Z.min (1 + T) (2 ^ 24)) * bpow radix2 b < bpow radix2 128).
  { destruct (Z_lt_le_dec (mag radix2 B) (-149)) as [ Hsmall | Hbig ].
    - assert (Hbe : b = (-149)%Z) by (unfold b; lia). rewrite Hbe.
      apply Rle_lt_trans with (IZR (2 ^ 24) * bpow radix2 (-149)).
      + apply Rmult_le_compat_r; [ apply bpow_ge_0 | apply IZR_le; lia ].
      + rewrite IZR_pow2 by lia. rewrite <- bpow_plus. apply bpow_lt. reflexivity.
    - assert (Hbe : b = mag radix2 B) by (unfold b; lia).
      assert (H2B : bpow radix2 b <= 2 * B).
      { rewrite Hbe. replace (mag radix2 B : Z) with (1 + (mag radix2 B - 1))%Z by lia.
        rewrite bpow_plus. change (bpow radix2 1) with 2.
        pose proof (bpow_mag_le radix2 B ltac:(lra)) as H. rewrite Rabs_pos_eq in H by lra. lra. }
      apply Rle_lt_trans with (IZR (1 + T) * (2 * B)).
      + apply Rmult_le_compat; [ apply IZR_le; lia | lra | apply IZR_le; lia | exact H2B ].
      + rewrite plus_IZR. replace (bpow radix2 128) with (2 * bpow radix2 127).
        * lra.
        * change 2 with (bpow radix2 1). rewrite <- bpow_plus. reflexivity. }
  destruct (accumulated_bound b dvs 1%Z acc Hb ltac:(lia) Ha) as [ Hf Hbd ].
  - change (Z.min 1 (2 ^ 24)) with 1%Z. lra.
  - apply Forall_impl with (2 := Hall). intros dv (H1 & H2 & H3 & H4).
    repeat split; try assumption; lra.
  - exact Hlim'.
  - split; [ exact Hf | ]. apply Rle_lt_trans with (1 := Hbd). exact Hlim'.
Qed.

(* whatever the number of updates: recorded regrets of magnitude at most 2^103 never overflow *)
Lemma accumulated_finite_any_T : forall (acc : f32) (dvs : list (f32 * f32)),
  is_finite acc = true -> Rabs (B2R acc) <= bpow radix2 103 ->
  Forall (fun dv => is_finite (fst dv) = true /\ 0 <= B2R (fst dv) <= 1 /\
                    is_finite (snd dv) = true /\ Rabs (B2R (snd dv)) <= bpow radix2 103) dvs ->
  is_finite (regret_run32 acc dvs) = true /\ Rabs (B2R (regret_run32 acc dvs)) <= bpow radix2 127.
Proof.
  intros acc dvs Ha Hacc Hall.
  assert (Hcap : forall k : Z, IZR (Z.min k (2 ^ 24)) * bpow radix2 103 <= bpow radix2 127).
  { intros k. apply Rle_trans with (IZR (2 ^ 24) * bpow radix2 103).
    - apply Rmult_le_compat_r; [ apply bpow_ge_0 | apply IZR_le; lia ].
    - rewrite IZR_pow2 by lia. rewrite <- bpow_plus. apply Rle_refl. }
  destruct (accumulated_bound 103 dvs 1%Z acc ltac:(lia) ltac:(lia) Ha) as [ Hf Hbd ].
  - change (Z.min 1 (2 ^ 24)) with 1%Z. lra.
  - exact Hall.
  - apply Rle_lt_trans with (1 := Hcap _). apply bpow_lt. reflexivity.
  - split; [ exact Hf | ]. apply Rle_trans with (1 := Hbd). apply Hcap.
Qed.

(* ---------- examples ---------- *)
(* the clamp on a few inputs, as bit patterns *)
Lemma ex_clamp_values :
  map (fun x => @B2SF prec emax (clamp32 x))
    [B754_nan; B754_infinity true; B754_infinity false; B754_zero true; of_usize 7;
     of_usize (-300001); of_usize (-299999)] =
  [SpecFloat.S754_finite true 9600000 (-5); SpecFloat.S754_finite true 9600000 (-5);
   SpecFloat.S754_finite false 16777215 104; SpecFloat.S754_zero true;
   SpecFloat.S754_finite false 14680064 (-21);
   SpecFloat.S754_finite true 9600000 (-5); SpecFloat.S754_finite true 9599968 (-5)].
Proof. vm_compute. reflexivity. Qed.

(* hypotheses of the finiteness theorems are satisfiable: three updates with |value| <= 300000 *)
Definition ex_dvs : list (f32 * f32) :=
  [(f32_one, regret_min); (of_usize 0, of_usize 250000); (f32_one, of_usize (-7))].
Lemma B2R_of_small : forall z : Z, (Z.abs z <= 2 ^ 24)%Z ->
  is_finite (of_usize z) = true /\ B2R (of_usize z) = IZR z.
Proof.
  intros z Hz.
  pose proof (binary_normalize_correct prec emax Hprec Hmax mode_NE z 0 false) as H.
  cbv zeta in H. fold (of_usize z) in H.
  assert (Hx : F2R (Float radix2 z 0) = IZR z) by (unfold F2R; simpl; ring).
  rewrite Hx in H. cbn [round_mode] in H.
  assert (Hfmt : fmt (IZR z)).
  { destruct (Z_le_gt_dec 0 z) as [ Hp | Hn ].
    - replace (IZR z) with (IZR z * bpow radix2 0) by (simpl; ring). apply fmt_count; lia.
    - replace (IZR z) with (- (IZR (- z) * bpow radix2 0)) by (rewrite opp_IZR; simpl; ring).
      apply generic_format_opp. apply fmt_count; lia. }
  rewrite (round_generic radix2 fexp32 ZnearestE (IZR z) Hfmt) in H.
  rewrite Rlt_bool_true in H.
  - destruct H as (Hr & Hf & _). split; [ exact Hf | exact Hr ].
  - rewrite <- abs_IZR. apply Rle_lt_trans with (IZR (2 ^ 24)); [ apply IZR_le; exact Hz | ].
    rewrite IZR_pow2 by lia. apply bpow_lt. reflexivity.
Qed.
Lemma ex_accumulated_hyp :
  0 < 300000 /\ is_finite (B754_zero false : f32) = true /\ Rabs (B2R (B754_zero false : f32)) <= 300000 /\
  Forall (fun dv => is_finite (fst dv) = true /\ 0 <= B2R (fst dv) <= 1 /\
                    is_finite (snd dv) = true /\ Rabs (B2R (snd dv)) <= 300000) ex_dvs /\
  (INR (length ex_dvs) + 1) * 300000 < bpow radix2 127.
Proof.
  split; [ lra | ]. split; [ reflexivity | ]. split; [ simpl; rewrite Rabs_R0; lra | ]. split.
  - destruct (B2R_of_small 0 ltac:(discriminate)) as [ Hf0 Hr0 ].
    destruct (B2R_of_small 250000 ltac:(discriminate)) as [ Hf1 Hr1 ].
    destruct (B2R_of_small (-7) ltac:(discriminate)) as [ Hf2 Hr2 ].
    unfold ex_dvs. constructor; [ | constructor; [ | constructor; [ | constructor ] ] ]; cbn [fst snd].
    + rewrite B2R_f32_one, B2R_regret_min.
      split; [ reflexivity | split; [ lra | split; [ reflexivity | rewrite Rabs_left; lra ] ] ].
    + rewrite Hr0, Hr1.
      split; [ exact Hf0 | split; [ lra | split; [ exact Hf1 | rewrite Rabs_pos_eq; lra ] ] ].
    + rewrite B2R_f32_one, Hr2.
      split; [ reflexivity | split; [ lra | split; [ exact Hf2 | rewrite Rabs_left; lra ] ] ].
  - cbn [ex_dvs length INR]. apply Rlt_le_trans with (bpow radix2 21).
    + rewrite <- IZR_pow2 by lia. change (2 ^ 21)%Z with 2097152%Z. lra.
    + apply bpow_le. lia.
Qed.
Lemma ex_accumulated_value :
  @B2SF prec emax (regret_run32 (B754_zero false) ex_dvs) = SpecFloat.S754_finite false 15999552 (-6).
Proof. vm_compute. reflexivity. Qed.
