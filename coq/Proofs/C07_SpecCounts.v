(* Proofs/C07_SpecCounts.v -- property C07: the two counts of the model are the two counts computed from
   the rule book alone (Spec.SpecEquity.spec_counts, the oracle evaluated per run on the implementation). *)
From Coq Require Import NArith List Bool Lia.
From RP Require Import Base.Bits Model.Codec Model.Evaluator Model.Equity.
From RP Require Import Spec.SpecCodec Spec.SpecIsoWf Spec.SpecCombs Spec.SpecPoker Spec.SpecEquity.
From RP Require Import Proofs.C07_Counts.
Import ListNotations.
Open Scope N_scope.

Lemma filter_map_length {A B} (f : B -> bool) (g : A -> B) (l : list A) :
  length (filter f (map g l)) = length (filter (fun x => f (g x)) l).
Proof. induction l as [|x l IH]; cbn [map filter]; [reflexivity|]. destruct (f (g x)); cbn [length]; rewrite IH; reflexivity. Qed.

Theorem counts_are_spec_counts : forall d o w n, wf_obs_d d o -> hand_size (public o) = 5 ->
  equity_counts d o = Some (w, n) -> spec_counts d o = (w, n).
Proof.
  intros d o w n Hwf H5 E.
  destruct (counts_meaning d o w n Hwf H5 E) as (Hw & Hn & _).
  unfold spec_counts. cbv zeta. rewrite !filter_map_length. subst w n. f_equal; f_equal; f_equal.
  - apply filter_ext_in. intros v Hv. unfold hero_wins. rewrite (showdown_spec_wf d o v Hwf H5 Hv). unfold cmp_spec.
    destruct (N.compare _ _); reflexivity.
  - apply filter_ext_in. intros v Hv. unfold hero_decided. rewrite (showdown_spec_wf d o v Hwf H5 Hv). unfold cmp_spec.
    destruct (N.compare _ _); reflexivity.
Qed.
