(* Proofs/C04_Basic.v -- base loop invariant of Showdown.settle: conservation of chips, folded players
   get nothing, rewards are non-negative and capped.  C04_settles / total / folded / nonneg / cap. *)
From Coq Require Import ZArith NArith List Bool Lia.
From RP Require Import Model.Showdown Spec.SpecPots Proofs.C04_Lists Proofs.C04_Loop.
Import ListNotations.
Open Scope Z_scope.

(* ---------- forgetting the rewards ---------- *)
Definition strip (p : pay) : pay := mkPay 0 (risked p) (status p) (skey p).

Lemma map_strip_id : forall l, Forall (fun p => reward p = 0) l -> map strip l = l.
Proof.
  induction l as [|p l IH]; intros H; [reflexivity|].
  inversion H as [|p0 l0 Hp Hl]; subst. cbn [map]. rewrite (IH Hl). f_equal.
  destruct p as [rw rk st sk]. cbn [reward] in Hp. subst rw. reflexivity.
Qed.

Lemma filter_strip : forall (f : pay -> bool) ps, (forall p, f (strip p) = f p) ->
  map strip (filter f ps) = filter f (map strip ps).
Proof.
  intros f ps Hf. induction ps as [|p ps IH]; [reflexivity|].
  cbn [filter map]. rewrite Hf. destruct (f p); cbn [map]; rewrite IH; reflexivity.
Qed.

Lemma map_via_strip : forall (A : Type) (g : pay -> A) ps, (forall p, g (strip p) = g p) ->
  map g ps = map g (map strip ps).
Proof. intros A g ps Hg. rewrite map_map. apply map_ext. intros p. symmetry. apply Hg. Qed.

Lemma In_strip : forall ps p, In p ps -> In (strip p) (map strip ps).
Proof. intros ps p H. apply in_map. exact H. Qed.

Lemma Forall2_nth_error_l : forall (A B : Type) (R : A -> B -> Prop) l1 l2 i a,
  Forall2 R l1 l2 -> nth_error l1 i = Some a -> exists b, nth_error l2 i = Some b /\ R a b.
Proof.
  intros A B R l1 l2 i a H. revert i. induction H as [|x y l1 l2 Hxy Hr IH]; intros i Hi.
  - destruct i; discriminate.
  - destruct i as [|i]; cbn [nth_error] in *.
    + injection Hi as <-. exists y. split; [reflexivity|exact Hxy].
    + apply IH. exact Hi.
Qed.

Lemma Forall2_nth_error_r : forall (A B : Type) (R : A -> B -> Prop) l1 l2 i b,
  Forall2 R l1 l2 -> nth_error l2 i = Some b -> exists a, nth_error l1 i = Some a /\ R a b.
Proof.
  intros A B R l1 l2 i b H. revert i. induction H as [|x y l1 l2 Hxy Hr IH]; intros i Hi.
  - destruct i; discriminate.
  - destruct i as [|i]; cbn [nth_error] in *.
    + injection Hi as <-. exists x. split; [reflexivity|exact Hxy].
    + apply IH. exact Hi.
Qed.

Lemma Forall2_In_r : forall (A B : Type) (R : A -> B -> Prop) l1 l2 b,
  Forall2 R l1 l2 -> In b l2 -> exists a, In a l1 /\ R a b.
Proof.
  intros A B R l1 l2 b H. induction H as [|x y l1 l2 Hxy Hr IH]; intros Hin.
  - destruct Hin.
  - destruct Hin as [<-|Hin].
    + exists x. split; [left; reflexivity|exact Hxy].
    + destruct (IH Hin) as [a [Ha HR]]. exists a. split; [right; exact Ha|exact HR].
Qed.

Lemma Forall2_weaken : forall (A B : Type) (R1 R2 : A -> B -> Prop) l1 l2,
  (forall a b, R1 a b -> R2 a b) -> Forall2 R1 l1 l2 -> Forall2 R2 l1 l2.
Proof.
  intros A B R1 R2 l1 l2 Himp H. induction H as [|x y l1 l2 Hxy Hr IH]; constructor; auto.
Qed.

(* ---------- give ---------- *)
Definition give_rel (s : showdown) (sh bo : Z) (p p' : pay) : Prop :=
  strip p' = strip p /\
  (is_winner s p = false -> p' = p) /\
  (is_winner s p = true ->
     exists e, reward p' = reward p + sh + e /\ 0 <= e <= 1 /\ (bo <= 0 -> e = 0)).

Lemma give_Forall2 : forall ps s sh bo, Forall2 (give_rel s sh bo) ps (give ps s sh bo).
Proof.
  induction ps as [|p ps IH]; intros s sh bo; cbn [give]; [constructor|].
  destruct (is_winner s p) eqn:Hw.
  - constructor.
    + unfold give_rel. split; [reflexivity|]. split; [rewrite Hw; discriminate|]. intros _.
      exists (if 0 <? bo then 1 else 0). cbn [reward]. split; [reflexivity|].
      destruct (0 <? bo) eqn:Hb; [apply Z.ltb_lt in Hb|apply Z.ltb_ge in Hb]; lia.
    + apply Forall2_weaken with (R1 := give_rel s sh (bo - 1)); [|apply IH].
      intros a a' [H1 [H2 H3]]. split; [exact H1|]. split; [exact H2|].
      intros Ha. destruct (H3 Ha) as [e [He1 [He2 He3]]]. exists e. repeat split; try lia.
  - constructor; [|apply IH].
    unfold give_rel. split; [reflexivity|]. split; [reflexivity|]. rewrite Hw. discriminate.
Qed.

Lemma give_sum : forall ps s sh bo,
  sumZ (map reward (give ps s sh bo)) =
  sumZ (map reward ps) + Z.of_nat (length (filter (is_winner s) ps)) * sh
  + Z.max 0 (Z.min bo (Z.of_nat (length (filter (is_winner s) ps)))).
Proof.
  induction ps as [|p ps IH]; intros s sh bo; cbn [give map filter].
  - cbn [length]. rewrite sumZ_nil. lia.
  - destruct (is_winner s p) eqn:Hw.
    + cbn [map reward length]. rewrite !sumZ_cons, IH. rewrite Nat2Z.inj_succ.
      destruct (0 <? bo) eqn:Hb; [apply Z.ltb_lt in Hb|apply Z.ltb_ge in Hb]; lia.
    + cbn [map]. rewrite !sumZ_cons, IH. lia.
Qed.

Lemma give_strip : forall ps s sh bo, map strip (give ps s sh bo) = map strip ps.
Proof.
  induction ps as [|p ps IH]; intros s sh bo; cbn [give map]; [reflexivity|].
  destruct (is_winner s p); cbn [map]; rewrite IH; reflexivity.
Qed.

(* ---------- arithmetic of one slice ---------- *)
Lemma slice_term : forall r D amt, D <= amt -> Z.max (Z.min r amt - D) 0 = Z.min r amt - Z.min r D.
Proof. intros. lia. Qed.

Lemma quot_rem_facts : forall c n, 0 <= c -> 0 < n ->
  c = n * Z.quot c n + Z.rem c n /\ 0 <= Z.quot c n /\ 0 <= Z.rem c n < n.
Proof.
  intros c n Hc Hn. rewrite Z.quot_div_nonneg by lia. rewrite Z.rem_mod_nonneg by lia.
  pose proof (Z.div_mod c n ltac:(lia)). pose proof (Z.mod_pos_bound c n Hn).
  pose proof (Z.div_pos c n Hc Hn). lia.
Qed.

Lemma share_le_chips : forall c n q r e, 0 < n -> 0 <= q -> 0 <= r < n -> c = n * q + r ->
  0 <= e <= 1 -> (r <= 0 -> e = 0) -> q + e <= c.
Proof.
  intros c n q r e Hn Hq Hr Hc He He0. subst c.
  destruct (Z.eq_dec r 0) as [Hr0|Hr0].
  - rewrite He0 by lia. nia.
  - nia.
Qed.

(* ---------- well-formed ledgers ---------- *)
Lemma wf_facts : forall l, wf_ledger l = true ->
  exists m, 0 <= m /\ (exists q, In q l /\ nonfold q = true /\ risked q = m) /\
            (forall p, In p l -> 0 <= risked p <= m).
Proof.
  intros l H. unfold wf_ledger in H.
  destruct (map risked (contesting l)) as [|x r] eqn:Hc; [discriminate|].
  set (m := fold_left Z.max r x) in *.
  apply andb_prop in H. destruct H as [Hm H]. apply Z.leb_le in Hm.
  exists m. split; [exact Hm|]. split.
  - destruct (fold_maxZ_spec r x) as [Hin _]. fold m in Hin. rewrite <- Hc in Hin.
    apply in_map_iff in Hin. destruct Hin as [q [Hq Hqin]]. unfold contesting in Hqin.
    apply filter_In in Hqin. destruct Hqin as [Hql Hnf]. exists q. repeat split; assumption.
  - intros p Hp. rewrite forallb_forall in H. specialize (H p Hp).
    destruct (status p).
    + apply Z.eqb_eq in H. lia.
    + apply andb_prop in H. destruct H as [H1 H2]. apply Z.ltb_lt in H1. apply Z.leb_le in H2. lia.
    + apply andb_prop in H. destruct H as [H1 H2]. apply Z.leb_le in H1. apply Z.leb_le in H2. lia.
Qed.

Lemma sum_min_eq_all_le : forall (l : list pay) D,
  sumZ (map risked l) = sumZ (map (fun q => Z.min (risked q) D) l) -> forall p, In p l -> risked p <= D.
Proof.
  induction l as [|x l IH]; intros D Hc p Hp; [destruct Hp|].
  cbn [map] in Hc. rewrite !sumZ_cons in Hc.
  assert (sumZ (map (fun q => Z.min (risked q) D) l) <= sumZ (map risked l)) as Hle
    by (apply sumZ_map_le; intros; lia).
  destruct Hp as [->|Hp].
  - lia.
  - apply (IH D); [lia|exact Hp].
Qed.

(* x lies strictly above the strength bst (None = the initial Ranking::MAX) *)
Definition above (bst : option N) (x : N) : Prop := match bst with None => False | Some b => (b < x)%N end.

Section Base.
  Variable l : list pay.
  Hypothesis Hwf : wf_ledger l = true.

  Definition capsum (x : Z) : Z := sumZ (map (fun q => Z.min (risked q) x) l).

  Record Binv (ps : list pay) (D : Z) (bst : option N) : Prop := {
    B_shape : map strip ps = l;
    B_sum : sumZ (map reward ps) = capsum D;
    B_pos : 0 <= D;
    B_above : forall p, In p l -> nonfold p = true -> above bst (skey p) -> risked p <= D;
    B_each : forall p, In p ps ->
               0 <= reward p /\ (nonfold p = false -> reward p = 0) /\ reward p <= capsum (Z.min (risked p) D)
  }.

  Lemma capsum_mono : forall x y, x <= y -> capsum x <= capsum y.
  Proof. intros x y H. unfold capsum. apply sumZ_map_le. intros q _. lia. Qed.

  (* transfer between the current payouts and the ledger *)
  Section Shape.
    Variable ps : list pay.
    Hypothesis Hs : map strip ps = l.

    Lemma cands_strip : forall D b, map strip (cands ps D b) = cands l D b.
    Proof. intros D b. unfold cands. rewrite filter_strip by reflexivity. rewrite Hs. reflexivity. Qed.

    Lemma cands_risked : forall D b, map risked (cands ps D b) = map risked (cands l D b).
    Proof.
      intros D b. rewrite (map_via_strip Z risked (cands ps D b)) by reflexivity.
      rewrite cands_strip. reflexivity.
    Qed.

    Lemma cands_length : forall D b, length (cands ps D b) = length (cands l D b).
    Proof. intros D b. rewrite <- cands_strip. rewrite map_length. reflexivity. Qed.

    Lemma cands_nil : forall D b, cands ps D b = [] -> cands l D b = [].
    Proof. intros D b H. rewrite <- cands_strip, H. reflexivity. Qed.

    Lemma strongest_strip : forall bst, strongest_of ps bst = strongest_of l bst.
    Proof.
      intros bst. unfold strongest_of. f_equal.
      rewrite (map_via_strip N skey) by reflexivity.
      rewrite !filter_strip by reflexivity. rewrite Hs. reflexivity.
    Qed.

    Lemma chips_strip : forall D amt, slice_chips ps D amt = slice_chips l D amt.
    Proof.
      intros D amt. unfold slice_chips. f_equal.
      rewrite (map_via_strip Z (fun p => Z.max (Z.min (risked p) amt - D) 0)) by reflexivity.
      rewrite Hs. reflexivity.
    Qed.

    Lemma risked_strip : map risked ps = map risked l.
    Proof. rewrite (map_via_strip Z risked) by reflexivity. rewrite Hs. reflexivity. Qed.

    Lemma In_ps_l : forall p, In p ps -> In (strip p) l.
    Proof. intros p Hp. rewrite <- Hs. apply in_map. exact Hp. Qed.
  End Shape.

  Lemma slice_chips_capsum : forall D amt, D <= amt -> slice_chips l D amt = capsum amt - capsum D.
  Proof.
    intros D amt H. unfold slice_chips, capsum.
    assert (sumZ (map (fun q => Z.min (risked q) amt) l)
            = sumZ (map (fun q => Z.max (Z.min (risked q) amt - D) 0) l) + sumZ (map (fun q => Z.min (risked q) D) l)) as E.
    { rewrite <- sumZ_map_add. apply sumZ_map_ext. intros q _. rewrite slice_term by exact H. lia. }
    lia.
  Qed.

  (* everything known about one slice step from the base invariant *)
  Record slice_facts (ps : list pay) (D amt : Z) (b : N) (c n sh bo : Z) : Prop := {
    SF_lt : D < amt;
    SF_q : exists q, In q l /\ wset D b q = true /\ risked q = amt;
    SF_min : forall p, In p l -> wset D b p = true -> amt <= risked p;
    SF_c : c = capsum amt - capsum D;
    SF_n : 0 < n;
    SF_eq : c = n * sh + bo;
    SF_sh : 0 <= sh;
    SF_bo : 0 <= bo < n;
    SF_cpos : 0 < c
  }.

  Lemma slice_facts_intro : forall ps D b amt, map strip ps = l -> 0 <= D ->
    minZ (map risked (cands ps D b)) = Some amt ->
    slice_facts ps D amt b (slice_chips ps D amt) (Z.of_nat (length (cands ps D b)))
      (Z.quot (slice_chips ps D amt) (Z.of_nat (length (cands ps D b))))
      (Z.rem (slice_chips ps D amt) (Z.of_nat (length (cands ps D b)))).
  Proof.
    intros ps D b amt Hs HD Hmin.
    pose proof (cands_nonempty _ _ _ _ Hmin) as Hn. apply Z.eqb_neq in Hn.
    rewrite (cands_risked ps Hs) in Hmin.
    destruct (minZ_cands_Some _ _ _ _ Hmin) as [q [Hq [Hw [Hr Hle]]]].
    assert (D < amt) as Hlt.
    { unfold wset in Hw. apply andb_prop in Hw. destruct Hw as [_ Hw]. apply Z.ltb_lt in Hw. lia. }
    assert (slice_chips ps D amt = capsum amt - capsum D) as Hc
      by (rewrite (chips_strip ps Hs); apply slice_chips_capsum; lia).
    assert (0 < slice_chips ps D amt) as Hcpos.
    { rewrite (chips_strip ps Hs). unfold slice_chips.
      assert (Z.max (Z.min (risked q) amt - D) 0 <= sumZ (map (fun p => Z.max (Z.min (risked p) amt - D) 0) l)) as Hq1.
      { apply (sumZ_map_In_le pay (fun p => Z.max (Z.min (risked p) amt - D) 0) l q); [intros; lia|exact Hq]. }
      lia. }
    assert (0 < Z.of_nat (length (cands ps D b))) as Hnpos by lia.
    destruct (quot_rem_facts (slice_chips ps D amt) (Z.of_nat (length (cands ps D b))) ltac:(lia) Hnpos)
      as [E [Hq0 Hr0]].
    constructor; try assumption; try lia.
    exists q. repeat split; assumption.
  Qed.

  Lemma Binv_init : Forall (fun p => reward p = 0) l -> Binv l 0 None.
  Proof.
    intros H0. destruct (wf_facts l Hwf) as [m [Hm [_ Hall]]].
    assert (forall p, In p l -> reward p = 0) as Hr by (apply Forall_forall; exact H0).
    assert (forall x, 0 <= x -> 0 <= capsum x) as Hcs.
    { intros x Hx. unfold capsum. apply sumZ_map_nonneg. intros q Hq. specialize (Hall q Hq). lia. }
    constructor.
    - apply map_strip_id. exact H0.
    - unfold capsum. apply sumZ_map_ext. intros p Hp. specialize (Hall p Hp). rewrite (Hr p Hp). lia.
    - lia.
    - intros p _ _ [].
    - intros p Hp. rewrite (Hr p Hp). split; [lia|]. split; [reflexivity|].
      apply Hcs. specialize (Hall p Hp). lia.
  Qed.

  Lemma Binv_enter : forall ps D bst b,
    Binv ps D bst -> exh ps D bst -> strongest_of ps bst = Some b -> Binv ps D (Some b).
  Proof.
    intros ps D bst b HB He Hs. destruct HB as [Hsh Hsum Hpos Hab Hea].
    constructor; try assumption.
    intros p Hp Hnf Hlt. cbn [above] in Hlt.
    rewrite (strongest_strip ps Hsh) in Hs. unfold strongest_of in Hs.
    apply maxN_Some in Hs. destruct Hs as [_ Hmax].
    assert (lt_best (skey p) bst = true -> False) as Hnot.
    { intros Hl. assert (skey p <= b)%N; [|lia]. apply Hmax. apply in_map.
      apply filter_In. split; [|exact Hnf]. apply filter_In. split; assumption. }
    destruct bst as [b0|]; [|exfalso; apply Hnot; reflexivity].
    cbn [lt_best] in Hnot. destruct (N.ltb (skey p) b0) eqn:Hl0; [exfalso; apply Hnot; reflexivity|].
    apply N.ltb_ge in Hl0.
    destruct (N.eq_dec (skey p) b0) as [Heq|Hne].
    - cbn [exh] in He. apply (cands_nil ps Hsh) in He.
      assert (wset D b0 p = false) as Hw.
      { apply (proj1 (filter_nil_iff pay (wset D b0) l)); [exact He|exact Hp]. }
      unfold wset in Hw. rewrite Hnf in Hw. rewrite (proj2 (N.eqb_eq _ _) Heq) in Hw.
      cbn [andb] in Hw. apply Z.ltb_ge in Hw. exact Hw.
    - apply Hab; [exact Hp|exact Hnf|]. cbn [above]. lia.
  Qed.

  Lemma Binv_step : forall ps D b amt,
    Binv ps D (Some b) -> minZ (map risked (cands ps D b)) = Some amt ->
    Binv (slice_pays ps D amt b) amt (Some b).
  Proof.
    intros ps D b amt HB Hmin. destruct HB as [Hsh Hsum Hpos Hab Hea].
    pose proof (slice_facts_intro ps D b amt Hsh Hpos Hmin) as SF.
    set (c := slice_chips ps D amt) in *. set (n := Z.of_nat (length (cands ps D b))) in *.
    set (sh := Z.quot c n) in *. set (bo := Z.rem c n) in *.
    destruct SF as [Hlt [q [Hq [Hwq Hrq]]] Hmn Hc Hn Heq Hsh0 Hbo Hcpos].
    assert (slice_pays ps D amt b = give ps (mkSd ps amt D (Some b)) sh bo) as Esp by reflexivity.
    constructor.
    - rewrite Esp, give_strip. exact Hsh.
    - rewrite Esp, give_sum.
      change (filter (is_winner (mkSd ps amt D (Some b))) ps) with (cands ps D b). fold n.
      rewrite Hsum. lia.
    - lia.
    - intros p Hp Hnf Ha. specialize (Hab p Hp Hnf Ha). lia.
    - intros p' Hp'. rewrite Esp in Hp'.
      destruct (Forall2_In_r _ _ _ _ _ _ (give_Forall2 ps (mkSd ps amt D (Some b)) sh bo) Hp')
        as [p [Hp [Hst [Hno Hyes]]]].
      destruct (Hea p Hp) as [H0 [Hf Hcap]].
      assert (risked p' = risked p) as Hrk by (injection Hst; auto).
      assert (nonfold p' = nonfold p) as Hnf by (unfold nonfold; injection Hst as _ -> _; reflexivity).
      rewrite Hrk, Hnf.
      destruct (is_winner (mkSd ps amt D (Some b)) p) eqn:Hw.
      + destruct (Hyes eq_refl) as [e [He [He1 He0]]]. rewrite He.
        rewrite is_winner_wset in Hw.
        assert (nonfold p = true) as Hnfp.
        { unfold wset in Hw. destruct (nonfold p); [reflexivity|discriminate]. }
        assert (amt <= risked p) as Hge.
        { replace (risked p) with (risked (strip p)) by reflexivity. apply Hmn.
          - apply (In_ps_l ps Hsh). exact Hp.
          - exact Hw. }
        split; [lia|]. split; [rewrite Hnfp; discriminate|].
        assert (sh + e <= c) as Hle by (apply (share_le_chips c n sh bo e); try assumption; lia).
        replace (Z.min (risked p) amt) with amt by lia.
        assert (capsum (Z.min (risked p) D) <= capsum D) by (apply capsum_mono; lia).
        lia.
      + rewrite (Hno eq_refl). split; [exact H0|]. split; [exact Hf|].
        assert (capsum (Z.min (risked p) D) <= capsum (Z.min (risked p) amt)) by (apply capsum_mono; lia).
        lia.
  Qed.

  (* when the loops are over every commitment lies below the last ceiling *)
  Lemma Binv_final : forall ps D bst,
    Binv ps D bst ->
    (is_complete (mkSd ps D D bst) = true \/ (exh ps D bst /\ strongest_of ps bst = None)) ->
    forall p, In p l -> risked p <= D.
  Proof.
    intros ps D bst HB Hfin. destruct HB as [Hsh Hsum Hpos Hab Hea].
    destruct (wf_facts l Hwf) as [m [Hm [[q [Hq [Hqnf Hqm]]] Hall]]].
    destruct Hfin as [Hc|[He Hs]].
    - unfold is_complete in Hc. cbn [pays] in Hc. apply Z.eqb_eq in Hc.
      rewrite (risked_strip ps Hsh), Hsum in Hc. unfold capsum in Hc.
      apply sum_min_eq_all_le. exact Hc.
    - assert (risked q <= D) as HqD.
      { rewrite (strongest_strip ps Hsh) in Hs. unfold strongest_of in Hs. apply maxN_None in Hs.
        apply map_eq_nil in Hs.
        assert (lt_best (skey q) bst = false) as Hlq.
        { destruct (lt_best (skey q) bst) eqn:E; [|reflexivity].
          assert (In q (filter nonfold (filter (fun p => lt_best (skey p) bst) l))) as Hin
            by (apply filter_In; split; [apply filter_In; split; assumption|exact Hqnf]).
          rewrite Hs in Hin. destruct Hin. }
        destruct bst as [b0|]; [|discriminate]. cbn [lt_best] in Hlq. apply N.ltb_ge in Hlq.
        destruct (N.eq_dec (skey q) b0) as [Heq|Hne].
        - cbn [exh] in He. apply (cands_nil ps Hsh) in He.
          assert (wset D b0 q = false) as Hw
            by (apply (proj1 (filter_nil_iff pay (wset D b0) l)); [exact He|exact Hq]).
          unfold wset in Hw. rewrite Hqnf in Hw. rewrite (proj2 (N.eqb_eq _ _) Heq) in Hw.
          cbn [andb] in Hw. apply Z.ltb_ge in Hw. exact Hw.
        - apply Hab; [exact Hq|exact Hqnf|]. cbn [above]. lia. }
      intros p Hp. specialize (Hall p Hp). lia.
  Qed.
End Base.
