(* Proofs/C07_BucketF32_s03.v -- shard: rows 496 <= sum < 572, every 0 <= won <= sum, by evaluation (check_pair). *)
From Coq Require Import ZArith.
From RP Require Import Model.BucketF32 Proofs.C07_BucketF32_chk.
Open Scope Z_scope.
Lemma block : check_block 496 572 = true.
Proof. vm_compute. reflexivity. Qed.
Lemma rows : forall sum won, 496 <= sum < 572 -> 0 <= won <= sum -> pair_ok won sum.
Proof. exact (check_block_ok 496 572 ltac:(discriminate) block). Qed.
