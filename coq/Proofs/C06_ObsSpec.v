(* Proofs/C06_ObsSpec.v -- [spec_obs d s]: membership (= the well-formed observations of the street),
   no repeats, length; obs_take; the canonical sub-sequence (theorem 7). *)
From Coq Require Import NArith ZArith List Bool Lia ZifyBool ZifyN ZifyNat Sorted.
From RP Require Import Base.Bits Gen.GenCards Gen.GenStreet Gen.GenPerm Model.Codec Model.Evaluator Model.Iso Model.Hands.
From RP Require Import Spec.SpecCodec Spec.SpecIso Spec.SpecIsoWf Spec.SpecCombs Spec.SpecIter.
From RP Require Import Proofs.BitsLemmas Proofs.C15_Hand Proofs.C06_Cat Proofs.C06_Gosper Proofs.C06_Fuel
  Proofs.C06_Combs Proofs.C06_Iter Proofs.C06_Hands Proofs.C06_Main Proofs.C06_Count Proofs.C06_Obs.
Import ListNotations.
Open Scope N_scope.

Arguments N.add : simpl never.
Arguments N.mul : simpl never.
Arguments N.sub : simpl never.
Arguments N.shiftl : simpl never.
Arguments N.shiftr : simpl never.
Arguments N.land : simpl never.
Arguments N.lor : simpl never.
Arguments N.lxor : simpl never.
Arguments N.pow : simpl never.
Arguments N.testbit : simpl never.

(* ---------- membership ---------- *)
Lemma spec_obs_in_parts : forall d s o,
  In o (spec_obs d s) <->
  (In (pocket o) (spec_hands d 2 0) /\ In (public o) (spec_hands d (N.to_nat (n_observed s)) (pocket o))).
Proof.
  intros d s o. unfold spec_obs. rewrite in_flat_map. split.
  - intros (p & Hp & Ho). apply in_map_iff in Ho. destruct Ho as (b & E & Hb). subst o.
    cbn [pocket public]. split; assumption.
  - intros [Hp Hb]. exists (pocket o). split; [exact Hp|]. apply in_map_iff.
    exists (public o). split; [destruct o; reflexivity | exact Hb].
Qed.

Lemma hand_mask_sub_lt : forall d h, N.land h (hand_mask d) = h -> h < 2 ^ 52.
Proof. intros d h H. rewrite <- H, N.land_comm. apply land_lt_pow2. apply hand_mask_lt. Qed.

Lemma spec_obs_in : forall d s o, (0 <= s <= 3)%Z ->
  (In o (spec_obs d s) <-> (wf_obs_d d o /\ hand_size (public o) = n_observed s)).
Proof.
  intros d s o Hs. rewrite spec_obs_in_parts, !C06_spec_hands_in, free_cards_0.
  fold (hand_size (pocket o)). fold (hand_size (public o)). rewrite N2Nat.id.
  change (N.of_nat 2) with 2.
  rewrite (land_sub_iff (public o)).
  unfold wf_obs_d, wf_obs. split.
  - intros ((Hp2 & Hpm) & (Hbn & Hbsub)).
    assert (Hbm : N.land (public o) (hand_mask d) = public o).
    { apply land_sub_iff. intros i Hi. apply Hbsub in Hi. rewrite testbit_free in Hi.
      rewrite testbit_hand_mask. apply andb_true_iff in Hi. tauto. }
    assert (Hdis : N.land (pocket o) (public o) = 0).
    { apply N.bits_inj. intros i. rewrite N.land_spec, N.bits_0.
      destruct (N.testbit (public o) i) eqn:E; [|apply andb_false_r].
      apply Hbsub in E. rewrite testbit_free in E. apply andb_true_iff in E. destruct E as [_ E].
      apply negb_true_iff in E. rewrite E. reflexivity. }
    repeat split; try assumption; try (eapply hand_mask_sub_lt; eassumption).
    rewrite Hbn. destruct (n_observed_cases s Hs) as [[_ E] | [[_ E] | [[_ E] | [_ E]]]]; rewrite E; tauto.
  - intros (((Hp52 & Hb52 & Hdis & Hp2 & Hbsz) & Hpm & Hbm) & Hbn).
    repeat split; try assumption.
    intros i Hi. rewrite testbit_free.
    assert (Hd : N.testbit (hand_mask d) i = true).
    { rewrite <- Hbm, N.land_spec in Hi. apply andb_true_iff in Hi. tauto. }
    rewrite testbit_hand_mask in Hd. rewrite Hd. cbn [andb].
    assert (Hz : N.testbit (N.land (pocket o) (public o)) i = false) by (rewrite Hdis; apply N.bits_0).
    rewrite N.land_spec, Hi, andb_true_r in Hz. rewrite Hz. reflexivity.
Qed.

(* ---------- no repeats ---------- *)
Lemma NoDup_app_intro : forall (A : Type) (l1 l2 : list A),
  NoDup l1 -> NoDup l2 -> (forall x, In x l1 -> In x l2 -> False) -> NoDup (l1 ++ l2).
Proof.
  intros A. induction l1 as [|a l1 IH]; intros l2 H1 H2 Hd.
  - exact H2.
  - inversion H1 as [| a' l' Hn Hnd]; subst. cbn [app]. constructor.
    + intros Hin. apply in_app_iff in Hin. destruct Hin as [Hin | Hin]; [exact (Hn Hin)|].
      apply (Hd a); [left; reflexivity | exact Hin].
    + apply IH; [exact Hnd | exact H2 |]. intros x Hx1 Hx2. apply (Hd x); [right; exact Hx1 | exact Hx2].
Qed.

Lemma NoDup_map_mkObs : forall p l, NoDup l -> NoDup (map (mkObs p) l).
Proof.
  intros p l H. induction H as [| b l Hn Hnd IH].
  - constructor.
  - cbn [map]. constructor; [|exact IH]. intros Hin. apply in_map_iff in Hin.
    destruct Hin as (b' & E & Hb'). inversion E; subst b'. exact (Hn Hb').
Qed.

Lemma NoDup_pairs : forall (G : N -> list N) ps, NoDup ps -> (forall p, NoDup (G p)) ->
  NoDup (flat_map (fun p => map (mkObs p) (G p)) ps).
Proof.
  intros G ps H HG. induction H as [| p ps Hn Hnd IH].
  - constructor.
  - cbn [flat_map]. apply NoDup_app_intro; [apply NoDup_map_mkObs, HG | exact IH |].
    intros o H1 H2. apply in_map_iff in H1. destruct H1 as (b & E & _). subst o.
    apply in_flat_map in H2. destruct H2 as (q & Hq & Ho). apply in_map_iff in Ho.
    destruct Ho as (b' & E & _). inversion E; subst q. exact (Hn Hq).
Qed.

Lemma spec_obs_NoDup : forall d s, NoDup (spec_obs d s).
Proof.
  intros d s. unfold spec_obs. apply NoDup_pairs; [apply C06_hands_nodup|].
  intros p. apply C06_hands_nodup.
Qed.

(* ---------- length ---------- *)
Lemma length_flat_map_const : forall (A B : Type) (f : A -> list B) l c,
  (forall a, In a l -> length (f a) = c) -> length (flat_map f l) = (length l * c)%nat.
Proof.
  intros A B f l c. induction l as [|a l IH]; intros H.
  - reflexivity.
  - cbn [flat_map length]. rewrite app_length, IH by (intros x Hx; apply H; right; exact Hx).
    rewrite (H a (or_introl eq_refl)). lia.
Qed.

Lemma spec_obs_length : forall d s,
  N.of_nat (length (spec_obs d s)) = n_observations d (N.to_nat (n_observed s)).
Proof.
  intros d s. unfold spec_obs, n_observations.
  set (n := N.to_nat (n_observed s)).
  rewrite (length_flat_map_const _ _ _ _ (N.to_nat (choose (deck_size d - 2) n))).
  - rewrite Nat2N.inj_mul, N2Nat.id, spec_hands_length.
    rewrite (n_free_eq d 0 (wf_mask_0 d)). change (N.to_nat (hand_size 0)) with 0%nat.
    rewrite Nat.sub_0_r. reflexivity.
  - intros p Hp. destruct (pocket_facts d p Hp) as (Hsz & _ & Hwf).
    rewrite map_length. pose proof (spec_hands_length d p n) as Hl.
    rewrite (n_free_eq d p Hwf), Hsz in Hl. change (N.to_nat 2) with 2%nat in Hl. lia.
Qed.

(* ---------- obs_take ---------- *)
Lemma obs_all_take : forall d it l, obs_all d it l ->
  forall limit, (length l < limit)%nat -> obs_take limit d it = Some l.
Proof.
  intros d it l H. induction H as [it E | it o it' r E H IH]; intros limit Hl.
  - destruct limit as [|n]; [cbn in Hl; lia|]. cbn [obs_take]. rewrite E. reflexivity.
  - destruct limit as [|n]; [cbn in Hl; lia|]. cbn [obs_take]. rewrite E.
    rewrite (IH n) by (cbn [length] in Hl; lia). reflexivity.
Qed.

Lemma obs_all_take_prefix : forall d it l, obs_all d it l ->
  forall limit, (limit <= length l)%nat -> obs_take limit d it = Some (firstn limit l).
Proof.
  intros d it l H. induction H as [it E | it o it' r E H IH]; intros limit Hl.
  - destruct limit as [|n]; [reflexivity | cbn in Hl; lia].
  - destruct limit as [|n]; [reflexivity|]. cbn [obs_take firstn]. rewrite E.
    rewrite (IH n) by (cbn [length] in Hl; lia). reflexivity.
Qed.

Lemma obs_all_deterministic : forall d it l l', obs_all d it l -> obs_all d it l' -> l = l'.
Proof.
  intros d it l l' H. revert l'. induction H as [it E | it o it' r E H IH]; intros l' H'.
  - inversion H' as [it0 E' | it0 o' it2 r' E' H2]; subst; [reflexivity | congruence].
  - inversion H' as [it0 E' | it0 o' it2 r' E' H2]; subst; [congruence|].
    rewrite E in E'. inversion E'; subst. f_equal. apply IH. exact H2.
Qed.

(* ---------- theorem 7, first half: the canonical sub-sequence ---------- *)
Lemma iso_filter_in : forall d s o, (0 <= s <= 3)%Z ->
  (In o (iso_filter d (spec_obs d s)) <->
   (wf_obs_d d o /\ hand_size (public o) = n_observed s /\ is_canonical d o = true)).
Proof.
  intros d s o Hs. unfold iso_filter. rewrite filter_In, (spec_obs_in d s o Hs). tauto.
Qed.

Lemma iso_filter_NoDup : forall d s, NoDup (iso_filter d (spec_obs d s)).
Proof. intros d s. unfold iso_filter. apply NoDup_filter. apply spec_obs_NoDup. Qed.

(* ---------- theorem 7, second half: one representative per orbit, given the C05 facts ---------- *)
Section WithC05.
(* the following are exactly the statements of Props/C05.v (C05_faithful, C05_permute_is_relabel,
   C05_isomorphic_iff_same_canon, C05_idem, C05_is_canonical_iff) and of
   Proofs/C05_Bits.v (relabel_hand_size); they are to be instantiated with those theorems *)
Hypothesis H_C05_faithful : forall d o, wf_obs_d d o ->
  exists p c, In p EXHAUST /\ canon d o = Some c /\ c = relabel_obs p o.
Hypothesis H_C05_permute_is_relabel : forall d p o, In p EXHAUST -> wf_obs_d d o ->
  permute d p o = Some (relabel_obs p o) /\ wf_obs_d d (relabel_obs p o).
Hypothesis H_C05_isomorphic_iff_same_canon : forall d o1 o2, wf_obs_d d o1 -> wf_obs_d d o2 ->
  (isomorphic o1 o2 = true <-> canon d o1 = canon d o2).
Hypothesis H_C05_idem : forall d o c, wf_obs_d d o -> canon d o = Some c ->
  canon d c = Some c /\ is_canonical d c = true.
Hypothesis H_C05_is_canonical_iff : forall d o, wf_obs_d d o ->
  (is_canonical d o = true <-> canon d o = Some o).
Hypothesis H_C05_relabel_hand_size : forall p h, In p EXHAUST -> h < 2 ^ 52 ->
  hand_size (relabel_hand p h) = hand_size h.

Lemma iso_representative : forall d s o, (0 <= s <= 3)%Z ->
  wf_obs_d d o -> hand_size (public o) = n_observed s ->
  exists c, (In c (iso_filter d (spec_obs d s)) /\ isomorphic o c = true) /\
            forall c', In c' (iso_filter d (spec_obs d s)) -> isomorphic o c' = true -> c' = c.
Proof.
  intros d s o Hs Hwf Hsz.
  destruct (H_C05_faithful d o Hwf) as (p & c & Hp & Ec & Erel).
  destruct (H_C05_permute_is_relabel d p o Hp Hwf) as [_ Hwfc]. rewrite <- Erel in Hwfc.
  destruct (H_C05_idem d o c Hwf Ec) as [Ecc Hcan].
  exists c. split.
  - split.
    + apply (iso_filter_in d s c Hs). split; [exact Hwfc|]. split; [|exact Hcan].
      rewrite Erel. cbn [relabel_obs public].
      rewrite H_C05_relabel_hand_size; [exact Hsz | exact Hp |].
      destruct Hwf as ((_ & Hb & _) & _). exact Hb.
    + apply (H_C05_isomorphic_iff_same_canon d o c Hwf Hwfc). rewrite Ec, Ecc. reflexivity.
  - intros c' Hin Hiso. apply (iso_filter_in d s c' Hs) in Hin. destruct Hin as (Hwf' & _ & Hcan').
    apply (H_C05_is_canonical_iff d c' Hwf') in Hcan'.
    apply (H_C05_isomorphic_iff_same_canon d o c' Hwf Hwf') in Hiso.
    rewrite Ec, Hcan' in Hiso. inversion Hiso. reflexivity.
Qed.

End WithC05.
