(* Proofs/C02_Basics.v -- elementary facts about Model/Game.v used by the C02 / C14 proofs:
   numeric facts about the generated constants, the heads-up seat list, the actor, frame
   properties of next_player / bet / fold / reset, and what `is_allowed = Some true` entails. *)
From Coq Require Import ZArith NArith List Bool Lia ZifyBool.
From RP Require Import Base.Bits Gen.GenLib Gen.GenStreet Gen.GenFixes
                       Model.Codec Model.Evaluator Model.Showdown Model.Game Spec.SpecGameInv.
Import ListNotations.
Open Scope Z_scope.

(* ---------- the generated constants: only these facts are used below ---------- *)
Lemma N_PLAYERS_two : N_PLAYERS = 2.
Proof. reflexivity. Qed.
Lemma blinds_pos : 0 < S_BLIND /\ S_BLIND < B_BLIND /\ B_BLIND <= STACK.
Proof. cbv [S_BLIND B_BLIND STACK]. lia. Qed.
Lemma raise_arm_checks_turn : RAISE_ARM_CHECKS_TURN = true.
Proof. reflexivity. Qed.

(* ---------- upd_nth ---------- *)
Lemma upd_nth_0 : forall (A : Type) (f : A -> A) (a b : A), upd_nth 0 f [a; b] = [f a; b].
Proof. intros A f a b. reflexivity. Qed.
Lemma upd_nth_1 : forall (A : Type) (f : A -> A) (a b : A), upd_nth 1 f [a; b] = [a; f b].
Proof. intros A f a b. reflexivity. Qed.

Lemma upd_nth_map_aux : forall (A B : Type) (h : A -> B) (f : A -> A) (i : nat),
  (forall x, h (f x) = h x) ->
  forall (l : list A) (k : nat),
  map h (map (fun ks => if Nat.eqb (fst ks) i then f (snd ks) else snd ks) (combine (seq k (length l)) l))
  = map h l.
Proof.
  intros A B h f i Hh. induction l as [|x l IH]; intros k.
  - reflexivity.
  - cbn [length seq combine map fst snd]. rewrite IH. f_equal.
    destruct (Nat.eqb k i); [apply Hh | reflexivity].
Qed.
Lemma upd_nth_map : forall (A B : Type) (h : A -> B) (f : A -> A) (i : nat) (l : list A),
  (forall x, h (f x) = h x) -> map h (upd_nth i f l) = map h l.
Proof. intros A B h f i l Hh. unfold upd_nth. apply upd_nth_map_aux. exact Hh. Qed.

(* ---------- the actor of a heads-up game ---------- *)
Lemma actor_idx_01 : forall g, actor_idx g = 0 \/ actor_idx g = 1.
Proof.
  intros g. unfold actor_idx, nplayers. rewrite N_PLAYERS_two.
  pose proof (Z.mod_pos_bound (dealer g + ticker g) 2). lia.
Qed.
Lemma actor_at_0 : forall g a b, seats g = [a; b] -> actor_idx g = 0 -> actor g = a.
Proof. intros g a b Hs Hi. unfold actor. rewrite Hs, Hi. reflexivity. Qed.
Lemma actor_at_1 : forall g a b, seats g = [a; b] -> actor_idx g = 1 -> actor g = b.
Proof. intros g a b Hs Hi. unfold actor. rewrite Hs, Hi. reflexivity. Qed.
Lemma upd_actor_at_0 : forall g a b f, seats g = [a; b] -> actor_idx g = 0 -> upd_actor g f = [f a; b].
Proof. intros g a b f Hs Hi. unfold upd_actor. rewrite Hs, Hi. reflexivity. Qed.
Lemma upd_actor_at_1 : forall g a b f, seats g = [a; b] -> actor_idx g = 1 -> upd_actor g f = [a; f b].
Proof. intros g a b f Hs Hi. unfold upd_actor. rewrite Hs, Hi. reflexivity. Qed.
Lemma actor_idx_mk : forall ss p bd dl tk ss' p' bd',
  actor_idx (mkGame ss' p' bd' dl tk) = actor_idx (mkGame ss p bd dl tk).
Proof. reflexivity. Qed.

(* ---------- two-seat shapes of the derived quantities ---------- *)
Lemma effective_stake_two : forall g a b, seats g = [a; b] -> effective_stake g = Z.max (stake a) (stake b).
Proof. intros g a b Hs. unfold effective_stake. rewrite Hs. reflexivity. Qed.

Lemma two_largest_two : forall x y, 0 <= x -> 0 <= y -> two_largest [x; y] = (Z.max x y, Z.min x y).
Proof.
  intros x y Hx Hy. unfold two_largest. cbn [fold_left].
  destruct (0 <? x) eqn:E0.
  - destruct (x <? y) eqn:E1; [f_equal; lia|].
    destruct (0 <? y) eqn:E2; f_equal; lia.
  - replace x with 0 by lia.
    destruct (0 <? y) eqn:E2; f_equal; lia.
Qed.

(* ---------- the status predicates on two seats ---------- *)
Lemma live_two : forall g a b, seats g = [a; b] ->
  live g = (if negb (sstate_eqb (st a) Folding) then [a] else [])
           ++ (if negb (sstate_eqb (st b) Folding) then [b] else []).
Proof.
  intros g a b Hs. unfold live. rewrite Hs. cbn [filter].
  destruct (negb (sstate_eqb (st a) Folding)), (negb (sstate_eqb (st b) Folding)); reflexivity.
Qed.

Lemma sstate_eqb_eq : forall x y, sstate_eqb x y = true <-> x = y.
Proof. intros x y. destruct x, y; cbn; split; intros H; congruence. Qed.

(* the betting round is open: nobody folded and somebody can still bet *)
Lemma not_alright_two : forall g a b, seats g = [a; b] -> is_everyone_alright g = false ->
  st a <> Folding /\ st b <> Folding /\ (st a = Betting \/ st b = Betting).
Proof.
  intros g a b Hs H. unfold is_everyone_alright in H.
  apply orb_false_iff in H. destruct H as (H & Hsh).
  apply orb_false_iff in H. destruct H as (_ & Hfo).
  unfold is_everyone_folding in Hfo. unfold is_everyone_shoving in Hsh.
  rewrite (live_two g a b Hs) in Hfo, Hsh.
  destruct (st a) eqn:Ea, (st b) eqn:Eb; cbn in Hfo, Hsh; rewrite ?Ea, ?Eb in Hsh; cbn in Hsh;
    try discriminate Hfo; try discriminate Hsh;
    (split; [discriminate | split; [discriminate | auto]]).
Qed.

Lemma must_flags_alright : forall g, must_stop g = false -> must_deal g = false -> is_everyone_alright g = false.
Proof.
  intros g Hs Hd. unfold must_stop in Hs. unfold must_deal in Hd.
  destruct (street g =? 3); assumption.
Qed.

(* ---------- next_player ---------- *)
Lemma next_loop_spec : forall f g g', next_loop f g = Some g' ->
  seats g' = seats g /\ pot g' = pot g /\ board g' = board g /\ dealer g' = dealer g
  /\ st (actor g') = Betting.
Proof.
  induction f as [|f IH]; intros g g' H.
  - discriminate H.
  - cbn [next_loop] in H.
    destruct (sstate_eqb (st (actor (mkGame (seats g) (pot g) (board g) (dealer g) (ticker g + 1)))) Betting) eqn:E.
    + injection H as H. subst g'. cbn [seats pot board dealer].
      apply sstate_eqb_eq in E. repeat split; try reflexivity. exact E.
    + apply IH in H. cbn [seats pot board dealer] in H. exact H.
Qed.

Lemma next_player_spec : forall g g', next_player g = Some g' ->
  seats g' = seats g /\ pot g' = pot g /\ board g' = board g /\ dealer g' = dealer g
  /\ (is_everyone_alright g' = false -> st (actor g') = Betting).
Proof.
  intros g g' H. unfold next_player in H.
  destruct (is_everyone_alright g) eqn:E.
  - injection H as H. subst g'. repeat split; try reflexivity.
    intros H. rewrite E in H. discriminate H.
  - apply next_loop_spec in H. destruct H as (H1 & H2 & H3 & H4 & H5).
    repeat split; try assumption. intros _. exact H5.
Qed.

(* next_player either keeps a closed state or finds a betting seat *)
Lemma next_player_cases : forall g g', next_player g = Some g' ->
  (is_everyone_alright g = true /\ g' = g) \/ (is_everyone_alright g = false /\ st (actor g') = Betting).
Proof.
  intros g g' H. unfold next_player in H.
  destruct (is_everyone_alright g) eqn:E.
  - left. injection H as H. auto.
  - right. apply next_loop_spec in H. split; [reflexivity | apply H].
Qed.

(* ---------- what an accepted action entails ---------- *)
Lemma allowed_not_stop : forall d g a, is_allowed d g a = Some true -> must_stop g = false.
Proof.
  intros d g a H. unfold is_allowed in H. destruct (must_stop g); [discriminate H | reflexivity].
Qed.

Lemma legal_open : forall g a, must_stop g = false ->
  existsb (action_eqb a) (legal g) = true ->
  match a with Draw _ | Blind _ | Raise _ => True | _ => must_deal g = false /\ must_post g = false end.
Proof.
  intros g a Hs H. unfold legal in H. rewrite Hs in H.
  destruct (must_deal g).
  - destruct a; cbn in H; try discriminate H; exact I.
  - destruct (must_post g).
    + destruct a; cbn in H; try discriminate H; exact I.
    + destruct a; try exact I; split; reflexivity.
Qed.

Lemma existsb_app_true : forall (A : Type) (f : A -> bool) l1 l2,
  existsb f (l1 ++ l2) = true -> existsb f l1 = true \/ existsb f l2 = true.
Proof. intros A f l1 l2 H. rewrite existsb_app in H. apply orb_true_iff in H. exact H. Qed.

(* the betting actions: round open, and the amount is the one the menu offers *)
Lemma allowed_fold : forall d g, is_allowed d g Fold = Some true ->
  must_stop g = false /\ must_deal g = false /\ must_post g = false /\ 0 < to_call g.
Proof.
  intros d g H. pose proof (allowed_not_stop _ _ _ H) as Hs.
  unfold is_allowed in H. rewrite Hs in H. injection H as H.
  destruct (legal_open g Fold Hs H) as (Hd & Hp).
  unfold legal in H. rewrite Hs, Hd, Hp in H.
  repeat split; try assumption.
  destruct (may_raise g), (may_shove g), (may_call g), (may_fold g) eqn:E, (may_check g);
    cbn in H; try discriminate H; unfold may_fold in E; lia.
Qed.

Lemma allowed_check : forall d g, is_allowed d g Check = Some true ->
  must_stop g = false /\ must_deal g = false /\ must_post g = false.
Proof.
  intros d g H. pose proof (allowed_not_stop _ _ _ H) as Hs.
  unfold is_allowed in H. rewrite Hs in H. injection H as H.
  destruct (legal_open g Check Hs H) as (Hd & Hp). auto.
Qed.

Lemma allowed_call : forall d g c, is_allowed d g (Call c) = Some true ->
  must_stop g = false /\ must_deal g = false /\ must_post g = false /\ c = to_call g /\ 0 < c.
Proof.
  intros d g c H. pose proof (allowed_not_stop _ _ _ H) as Hs.
  unfold is_allowed in H. rewrite Hs in H. injection H as H.
  destruct (legal_open g (Call c) Hs H) as (Hd & Hp).
  unfold legal in H. rewrite Hs, Hd, Hp in H.
  repeat split; try assumption;
  destruct (may_raise g), (may_shove g), (may_call g) eqn:E, (may_fold g), (may_check g);
    cbn in H; try discriminate H; unfold may_call, may_fold in E; lia.
Qed.

Lemma allowed_shove : forall d g c, is_allowed d g (Shove c) = Some true ->
  must_stop g = false /\ must_deal g = false /\ must_post g = false /\ c = to_shove g /\ 0 < c.
Proof.
  intros d g c H. pose proof (allowed_not_stop _ _ _ H) as Hs.
  unfold is_allowed in H. rewrite Hs in H. injection H as H.
  destruct (legal_open g (Shove c) Hs H) as (Hd & Hp).
  unfold legal in H. rewrite Hs, Hd, Hp in H.
  repeat split; try assumption;
  destruct (may_raise g), (may_shove g) eqn:E, (may_call g), (may_fold g), (may_check g);
    cbn in H; try discriminate H; unfold may_shove in E; lia.
Qed.

Lemma allowed_raise : forall d g r, is_allowed d g (Raise r) = Some true ->
  must_stop g = false /\ must_deal g = false /\ must_post g = false
  /\ to_raise g <= r /\ r < to_shove g.
Proof.
  intros d g r H. pose proof (allowed_not_stop _ _ _ H) as Hs.
  unfold is_allowed in H. rewrite Hs, raise_arm_checks_turn in H. injection H as H.
  destruct (must_deal g), (must_post g); cbn in H; try discriminate H.
  repeat split; try reflexivity; lia.
Qed.

Lemma allowed_blind : forall d g c, is_allowed d g (Blind c) = Some true ->
  must_stop g = false /\ must_post g = true.
Proof.
  intros d g c H. pose proof (allowed_not_stop _ _ _ H) as Hs.
  unfold is_allowed in H. rewrite Hs in H. injection H as H. auto.
Qed.

Lemma allowed_draw : forall d g h, is_allowed d g (Draw h) = Some true ->
  must_stop g = false /\ must_deal g = true /\
  exists dk n, deck_of d g = Some dk
    /\ N.land h (N.lxor dk 18446744073709551615%N) = 0%N
    /\ n_revealed (street g) = Some n /\ Z.of_N (hand_size h) = n.
Proof.
  intros d g h H. pose proof (allowed_not_stop _ _ _ H) as Hs.
  unfold is_allowed in H. rewrite Hs in H.
  destruct (must_deal g); [|discriminate H].
  split; [exact Hs|]. split; [reflexivity|].
  destruct (deck_of d g) as [dk|]; [|discriminate H].
  destruct (N.eqb (N.land h (N.lxor dk 18446744073709551615%N)) 0) eqn:E; [|discriminate H].
  destruct (n_revealed (street g)) as [n|]; [|discriminate H].
  injection H as H. exists dk, n. apply N.eqb_eq in E. repeat split; try assumption; try reflexivity. lia.
Qed.
