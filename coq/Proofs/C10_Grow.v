(* Proofs/C10_Grow.v -- property C10: the tree construction of Model/Sample.v (grow) from a node on
   a tree path over reachable game states:
     - every node has the external-sampling shape, every child is the parent after a permitted
       action, every leaf is a finished zero-sum hand, the stored bucket is Node::realize of the
       node, every node lies on a tree path (grow_sound);
     - with a dealer that deals allowed cards the construction never panics and max_history + 1
       levels of recursion suffice (grow_total);
     - hence the raise cap on every root-to-node path of the sampled tree (grow_raise_cap). *)
From Coq Require Import ZArith NArith List Bool Lia.
From RP Require Import Base.Bits Gen.GenLib Gen.GenFixes Gen.GenAbstract Model.Codec Model.Showdown Model.Game
                       Model.Tree Model.Sample
                       Spec.SpecCodec Spec.SpecNLHE Spec.SpecGameInv Spec.SpecRel Spec.SpecMenu Spec.SpecTree
                       Spec.SpecSample
                       Proofs.C03_Moves Proofs.C03_Bisim Proofs.C11_Menu Proofs.C15_Path
                       Proofs.C10_Cap Proofs.C10_Step Proofs.C10_Tree.
Import ListNotations.
Open Scope Z_scope.

(* ---------- lists ---------- *)
Lemma oma_cons : forall (A B : Type) (f : A -> option B) x l,
  opt_map_all f (x :: l)
  = match f x, opt_map_all f l with Some y, Some r => Some (y :: r) | _, _ => None end.
Proof. reflexivity. Qed.

Lemma oma_Forall2 : forall (A B : Type) (f : A -> option B) l r,
  opt_map_all f l = Some r -> Forall2 (fun x y => f x = Some y) l r.
Proof.
  intros A B f l. induction l as [|x l IH]; intros r H.
  - cbn in H. injection H as <-. constructor.
  - rewrite oma_cons in H. destruct (f x) as [y|] eqn:Hx; [|discriminate H].
    destruct (opt_map_all f l) as [r'|]; [|discriminate H]. injection H as <-.
    constructor; [exact Hx|apply IH; reflexivity].
Qed.

Lemma oma_total : forall (A B : Type) (f : A -> option B) l,
  (forall x, In x l -> exists y, f x = Some y) -> exists r, opt_map_all f l = Some r.
Proof.
  intros A B f l. induction l as [|x l IH]; intros H.
  - exists []. reflexivity.
  - destruct (H x (or_introl eq_refl)) as (y & Hy).
    destruct (IH (fun z Hz => H z (or_intror Hz))) as (r & Hr).
    exists (y :: r). rewrite oma_cons, Hy, Hr. reflexivity.
Qed.

Lemma Forall2_in_r : forall (A B : Type) (P : A -> B -> Prop) l r y,
  Forall2 P l r -> In y r -> exists x, In x l /\ P x y.
Proof.
  intros A B P l r y H. induction H as [|a b l r Hab H IH]; intros Hy; [contradiction Hy|].
  destruct Hy as [<-|Hy].
  - exists a. split; [left; reflexivity|exact Hab].
  - destruct (IH Hy) as (x & Hx & Hp). exists x. split; [right; exact Hx|exact Hp].
Qed.

Lemma Forall2_map_eq : forall (A B C : Type) (f : A -> C) (g : B -> C) l r,
  Forall2 (fun x y => f x = g y) l r -> map f l = map g r.
Proof.
  intros A B C f g l r H. induction H as [|a b l r Hab H IH]; [reflexivity|].
  cbn [map]. rewrite Hab, IH. reflexivity.
Qed.

Lemma Forall2_impl : forall (A B : Type) (P Q : A -> B -> Prop) l r,
  (forall x y, P x y -> Q x y) -> Forall2 P l r -> Forall2 Q l r.
Proof. intros A B P Q l r HPQ H. induction H; constructor; auto. Qed.

(* ---------- trees ---------- *)
Lemma subtrees_eq : forall n cs,
  subtrees (SNode n cs) = SNode n cs :: flat_map (fun ec => subtrees (snd ec)) cs.
Proof.
  intros n cs. cbn [subtrees]. f_equal.
  induction cs as [|[e c] r IH]; [reflexivity|]. cbn [flat_map snd]. rewrite IH. reflexivity.
Qed.

Lemma subtrees_self : forall t, In t (subtrees t).
Proof. intros [n cs]. rewrite subtrees_eq. left. reflexivity. Qed.

Lemma subtrees_kid : forall t e c s, In (e, c) (kids t) -> In s (subtrees c) -> In s (subtrees t).
Proof.
  intros [n cs] e c s Hc Hs. rewrite subtrees_eq. right. apply in_flat_map.
  exists (e, c). split; [exact Hc|exact Hs].
Qed.

(* ---------- the menu of a node over a reachable state ---------- *)
Definition in_all_edges (e : edge) : bool := existsb (C11_Menu.edge_eqb e) all_edges.
Lemma in_all_edges_sound : forall l, forallb in_all_edges l = true -> Forall (fun e => In e all_edges) l.
Proof.
  intros l H. apply Forall_forall. intros e He.
  pose proof (proj1 (forallb_forall in_all_edges l) H e He) as Hb.
  apply existsb_exists in Hb. destruct Hb as (x & Hx & Hex).
  apply C11_Menu.edge_eqb_eq in Hex. subst x. exact Hx.
Qed.

Definition wf_edges (l : list edge) : Prop := (length l <= 16)%nat /\ Forall (fun e => In e all_edges) l.
Definition wf_edgesb (l : list edge) : bool := (length l <=? 16)%nat && forallb in_all_edges l.
Lemma wf_edgesb_sound : forall l, wf_edgesb l = true -> wf_edges l.
Proof.
  intros l H. apply andb_prop in H. destruct H as [Hl Hf]. split.
  - apply Nat.leb_le. exact Hl.
  - apply in_all_edges_sound. exact Hf.
Qed.

Lemma menu_wf : forall g n, wf_edges (menu g n).
Proof.
  intros g n. apply wf_edgesb_sound. unfold menu.
  destruct (raises_cases g n) as [-> | [-> | [-> | [-> | ->]]]];
    destruct (may_raise g), (may_shove g), (may_call g), (may_fold g), (may_check g); vm_compute; reflexivity.
Qed.

Lemma choice_menu_eq : forall d hs g n i, wf_holes d hs -> reachable d hs g -> turn_of g = Choice i ->
  choices g n = Some (menu g n) /\ menu g n <> [].
Proof.
  intros d hs g n i Hwf (g0 & acts & Hroot & Hrun) Ht.
  assert (Hfix : RAISE_ARM_CHECKS_TURN = true) by reflexivity.
  destruct (bisim Hfix d hs acts g0 g Hwf Hroot Hrun) as (s & _ & HR).
  destruct (choice_phase g i Ht) as [Hs Hd].
  destruct (R_choice_facts d g s i HR Ht) as (Hp & Hsh & _).
  split; [apply choices_menu; assumption|].
  unfold menu. rewrite Hsh. intros H. apply app_eq_nil in H. destruct H as [_ H]. discriminate H.
Qed.

(* the menu of a node, by the kind of node *)
Definition menu_by_turn (g : game) (h m : list edge) : Prop :=
  match turn_of g with
  | Terminal => m = []
  | Chance => m = [EDraw]
  | Choice _ => m = menu g (n_raises h) /\ m <> [] /\ NoDup m
  end.

Lemma node_menu_cases : forall d hs g h, wf_holes d hs -> reachable d hs g ->
  exists m, node_menu g h = Some m /\ menu_by_turn g h m /\ wf_edges m.
Proof.
  intros d hs g h Hwf Hreach. unfold menu_by_turn. destruct (turn_of g) as [| |i] eqn:Ht.
  - exists []. split; [exact (leaf_menu g h Ht)|]. split; [reflexivity|].
    apply wf_edgesb_sound. vm_compute. reflexivity.
  - exists [EDraw]. split; [exact (chance_menu g h Ht)|]. split; [reflexivity|].
    apply wf_edgesb_sound. vm_compute. reflexivity.
  - destruct (choice_menu_eq d hs g (n_raises h) i Hwf Hreach Ht) as [Hm Hne].
    exists (menu g (n_raises h)). split; [exact Hm|]. split; [|apply menu_wf].
    split; [reflexivity|]. split; [exact Hne|apply menu_nodup].
Qed.

(* ---------- the edges of a tree path can be packed ---------- *)
Lemma tree_path_edges : forall d hs g0 h g, wf_holes d hs -> root d hs = Some g0 -> tree_path d g0 h g ->
  Forall (fun e => In e all_edges) h.
Proof.
  intros d hs g0 h g Hwf Hroot Hp. induction Hp as [|h g m e dealt g' Hp IH Hm Hin Hc]; [constructor|].
  apply Forall_app. split; [exact IH|]. constructor; [|constructor].
  pose proof (tree_path_reachable d hs g0 h g Hroot Hp) as Hreach.
  destruct (node_menu_cases d hs g h Hwf Hreach) as (m' & Hm' & _ & _ & Hall).
  rewrite Hm in Hm'. injection Hm' as <-. exact (proj1 (Forall_forall _ m) Hall e Hin).
Qed.

Lemma in_firstn : forall (A : Type) n (l : list A) x, In x (firstn n l) -> In x l.
Proof.
  intros A n l x H. rewrite <- (firstn_skipn n l). apply in_or_app. left. exact H.
Qed.

Lemma recall_wf : forall h, Forall (fun e => In e all_edges) h -> wf_edges (recall h).
Proof.
  intros h H. unfold recall. split.
  - rewrite firstn_length. change depth_cap with 16%nat. lia.
  - apply Forall_forall. intros e He. apply (proj1 (Forall_forall _ h) H). exact (in_firstn _ _ _ _ He).
Qed.

Lemma pack_unpack : forall es, wf_edges es -> exists p, path_pack es = Some p /\ path_unpack p = Some es.
Proof.
  intros es [Hl Hf]. destruct (path_roundtrip es Hl Hf) as (p & Hp & _ & Hu). exists p. split; assumption.
Qed.

(* Node::realize succeeds on a node of a tree path, and the menu comes back from its packed form *)
Lemma realize_path : forall d hs g0 abs h g, wf_holes d hs -> root d hs = Some g0 -> tree_path d g0 h g ->
  exists p f m, realize abs g h = Some (p, abs g, f) /\ node_menu g h = Some m /\ menu_by_turn g h m /\
                path_pack (recall h) = Some p /\ path_pack m = Some f /\ path_unpack f = Some m /\
                path_unpack p = Some (recall h).
Proof.
  intros d hs g0 abs h g Hwf Hroot Hp.
  pose proof (tree_path_reachable d hs g0 h g Hroot Hp) as Hreach.
  destruct (node_menu_cases d hs g h Hwf Hreach) as (m & Hm & Hcase & Hwfm).
  destruct (pack_unpack m Hwfm) as (f & Hf & Hu).
  destruct (pack_unpack (recall h) (recall_wf h (tree_path_edges d hs g0 h g Hwf Hroot Hp))) as (p & Hpk & Hup).
  exists p, f, m. unfold realize, bucket_paths. rewrite Hm, Hpk, Hf. repeat split; assumption.
Qed.

(* ---------- one node: branches and sample ---------- *)
Lemma child_game_action : forall d g e dealt, child_game d g e dealt = apply d g (edge_action g e dealt).
Proof. intros d g e dealt. destruct e; reflexivity. Qed.

Definition branch_of (d : deck) (g : game) (dealt : N) (e : edge) (eg : edge * game) : Prop :=
  fst eg = e /\ child_game d g e dealt = Some (snd eg).

Lemma branches_spec : forall d deal g h b m bs,
  path_unpack (b_menu b) = Some m -> branches d deal g h b = Some bs ->
  Forall2 (branch_of d g (deal g h)) m bs.
Proof.
  intros d deal g h b m bs Hu Hb. unfold branches in Hb. rewrite Hu in Hb.
  apply oma_Forall2 in Hb. eapply Forall2_impl; [|exact Hb].
  intros e eg H. cbv beta in H. unfold branch_of.
  destruct (child_game d g e (deal g h)) as [g'|]; [|discriminate H]. injection H as <-. split; reflexivity.
Qed.

Lemma branch_in : forall d g dealt m bs eg, Forall2 (branch_of d g dealt) m bs -> In eg bs ->
  In (fst eg) m /\ child_game d g (fst eg) dealt = Some (snd eg).
Proof.
  intros d g dealt m bs eg H Hin. destruct (Forall2_in_r _ _ _ m bs eg H Hin) as (e & He & Hfst & Hc).
  subst e. split; assumption.
Qed.

Lemma nth_error_one : forall (A : Type) (l : list A) i b,
  nth_error l i = Some b -> In b l.
Proof. intros A l i b H. exact (nth_error_In l i H). Qed.

(* what Blueprint::sample keeps *)
Lemma sample_spec : forall pick walker g h bs kept, sample pick walker g h bs = Some kept ->
  match bs with
  | [] => kept = []
  | _ => match who_acts g walker with
         | WTraverser => kept = bs
         | _ => exists b, kept = [b] /\ In b bs
         end
  end.
Proof.
  intros pick walker g h bs kept H. unfold sample in H. destruct bs as [|b0 r]; [injection H as <-; reflexivity|].
  assert (Hone : forall l, explore_one pick h l = Some kept -> exists b, kept = [b] /\ In b l).
  { intros l Hl. unfold explore_one in Hl.
    destruct (nth_error l (explore_idx pick h (length l))) as [b|] eqn:Hn; [|discriminate Hl].
    destruct (is_choice (fst b)); [|discriminate Hl]. injection Hl as <-.
    exists b. split; [reflexivity|exact (nth_error_one _ _ _ _ Hn)]. }
  destruct (who_acts g walker).
  - unfold explore_all in H. destruct (forallb _ _); [|discriminate H]. injection H as <-. reflexivity.
  - exact (Hone _ H).
  - unfold explore_any in H.
    destruct (nth_error (b0 :: r) (explore_idx pick h (length (b0 :: r)))) as [b|] eqn:Hn; [|discriminate H].
    destruct (is_choice (fst b)); [discriminate H|]. injection H as <-.
    exists b. split; [reflexivity|exact (nth_error_one _ _ _ _ Hn)].
  - exact (Hone _ H).
Qed.

Lemma grow_root : forall d abs pick deal fuel walker g h t,
  grow d abs pick deal fuel walker g h = Some t ->
  n_game (root_node t) = g /\ n_history (root_node t) = h.
Proof.
  intros d abs pick deal fuel walker g h t H. destruct fuel as [|f]; [discriminate H|].
  cbn [grow] in H. destruct (realize abs g h) as [b|]; [|discriminate H].
  destruct (branches d deal g h b) as [bs|]; [|discriminate H].
  destruct (sample pick walker g h bs) as [kept|]; [|discriminate H].
  destruct (opt_map_all _ kept) as [cs|]; [|discriminate H].
  injection H as <-. split; reflexivity.
Qed.

Lemma who_turn : forall g walker,
  match who_acts g walker with
  | WNobody => turn_of g = Terminal
  | WChance => turn_of g = Chance
  | WTraverser | WOpponent => exists i, turn_of g = Choice i
  end.
Proof.
  intros g walker. unfold who_acts. destruct (turn_of g) as [| |i]; try reflexivity.
  destruct (i =? walker); exists i; reflexivity.
Qed.

(* the local facts of a freshly built node *)
Definition kid_of (d : deck) (g : game) (h : list edge) (dealt : N) (m : list edge) (ec : edge * stree) : Prop :=
  In (fst ec) m /\ child_game d g (fst ec) dealt = Some (s_game (snd ec)) /\
  s_history (snd ec) = h ++ [fst ec].

Section Step.
Variables (d : deck) (hs : list N) (g0 : game) (abs : game -> N) (pick : list edge -> nat -> nat)
          (deal : game -> list edge -> N) (walker : Z).
Hypothesis Hwf : wf_holes d hs.
Hypothesis Hroot : root d hs = Some g0.

Lemma es_leaf : forall s, reachable d hs (s_game s) -> es_node walker s -> leaf_ok d s.
Proof.
  intros s Hreach (m & Hm & Hes) Hk. pose proof (who_turn (s_game s) walker) as Hw.
  destruct (who_acts (s_game s) walker).
  - destruct Hes as (Hmap & _ & Hne). rewrite Hk in Hmap. cbn in Hmap. contradiction Hne. symmetry. exact Hmap.
  - destruct Hes as (e & c & Hkc & _). rewrite Hk in Hkc. discriminate Hkc.
  - destruct Hes as (e & c & Hkc & _). rewrite Hk in Hkc. discriminate Hkc.
  - split; [exact Hw|]. exact (leaf_zero_sum d hs (s_game s) Hwf Hreach Hw).
Qed.

(* shape, children, bucket and path of the node built from (g, h), given what its kept branches
   turned into *)
Lemma node_step : forall h g b bs kept cs,
  tree_path d g0 h g ->
  realize abs g h = Some b -> branches d deal g h b = Some bs -> sample pick walker g h bs = Some kept ->
  Forall2 (fun (eg : edge * game) (ec : edge * stree) =>
             fst ec = fst eg /\ s_game (snd ec) = snd eg /\ s_history (snd ec) = h ++ [fst eg]) kept cs ->
  let s := SNode (mkNode g h b) cs in
  es_node walker s /\ child_ok d s /\ leaf_ok d s /\ bucket_ok abs s /\ on_tree_path d g0 s /\
  forall e c, In (e, c) cs -> tree_path d g0 (s_history c) (s_game c).
Proof.
  intros h g b bs kept cs Hp Hb Hbs Hk Hcs s.
  pose proof (tree_path_reachable d hs g0 h g Hroot Hp) as Hreach.
  destruct (realize_path d hs g0 abs h g Hwf Hroot Hp) as (p & f & m & Hr & Hm & Hcase & _ & _ & Hu & _).
  rewrite Hb in Hr. injection Hr as ->.
  pose proof (branches_spec d deal g h (p, abs g, f) m bs Hu Hbs) as Hbr.
  pose proof (sample_spec pick walker g h bs kept Hk) as Hsp.
  (* every kept branch is a branch *)
  assert (Hsub : forall eg, In eg kept -> In eg bs).
  { intros eg Heg. destruct bs as [|b0 r]; [subst kept; contradiction Heg|].
    destruct (who_acts g walker).
    - subst kept. exact Heg.
    - destruct Hsp as (b1 & -> & Hb1). destruct Heg as [<-|[]]. exact Hb1.
    - destruct Hsp as (b1 & -> & Hb1). destruct Heg as [<-|[]]. exact Hb1.
    - destruct Hsp as (b1 & -> & Hb1). destruct Heg as [<-|[]]. exact Hb1. }
  (* every child comes from a branch *)
  assert (Hkid : forall ec, In ec cs -> kid_of d g h (deal g h) m ec).
  { intros ec Hec. destruct (Forall2_in_r _ _ _ kept cs ec Hcs Hec) as (eg & Heg & Hfst & Hgame & Hhist).
    destruct (branch_in d g (deal g h) m bs eg Hbr (Hsub eg Heg)) as [Hin Hc].
    unfold kid_of. rewrite Hfst, Hgame. repeat split; assumption. }
  assert (Hmap : map fst cs = map fst kept).
  { symmetry. apply Forall2_map_eq. eapply Forall2_impl; [|exact Hcs].
    intros eg ec (Hfst & _). symmetry. exact Hfst. }
  assert (Hbsm : map fst bs = m).
  { symmetry. rewrite <- (map_id m). apply Forall2_map_eq. eapply Forall2_impl; [|exact Hbr].
    intros e eg (Hfst & _). symmetry. exact Hfst. }
  assert (Hes : es_node walker s).
  { exists m. split; [exact Hm|]. cbn [s s_game root_node n_game kids].
    pose proof (who_turn g walker) as Hw. unfold menu_by_turn in Hcase.
    destruct (who_acts g walker).
    - destruct Hw as (i & Ht). rewrite Ht in Hcase. destruct Hcase as (_ & Hne & Hnd).
      destruct bs as [|b0 r]; [cbn in Hbsm; contradiction Hne; symmetry; exact Hbsm|].
      subst kept. rewrite Hmap, Hbsm. repeat split; assumption.
    - destruct Hw as (i & Ht). rewrite Ht in Hcase. destruct Hcase as (_ & Hne & _).
      destruct bs as [|b0 r]; [cbn in Hbsm; contradiction Hne; symmetry; exact Hbsm|].
      destruct Hsp as (b1 & -> & Hb1). inversion Hcs as [|x [e c] l l' Hxc Hrest]; subst.
      inversion Hrest; subst. exists e, c. split; [reflexivity|].
      exact (proj1 (Hkid (e, c) (or_introl eq_refl))).
    - rewrite Hw in Hcase. subst m.
      destruct bs as [|b0 r]; [discriminate Hbsm|].
      destruct Hsp as (b1 & -> & Hb1). inversion Hcs as [|x [e c] l l' Hxc Hrest]; subst.
      inversion Hrest; subst. exists e, c. split; [reflexivity|].
      exact (proj1 (Hkid (e, c) (or_introl eq_refl))).
    - rewrite Hw in Hcase. subst m. destruct bs as [|b0 r]; [|discriminate Hbsm].
      subst kept. inversion Hcs; subst. split; reflexivity. }
  split; [exact Hes|]. split; [|split; [|split; [|split]]].
  - intros e c Hec. destruct (Hkid (e, c) Hec) as (Hin & Hc & Hhist). cbn [fst snd] in *.
    split; [exists m; split; [exact Hm|exact Hin]|]. split; [exact Hhist|].
    exists (deal g h). cbn [s s_game root_node n_game]. rewrite child_game_action in Hc.
    split; [|exact Hc]. exact (proj1 (apply_allowed d g _ _ Hc)).
  - apply es_leaf; [exact Hreach|exact Hes].
  - unfold bucket_ok. exact Hb.
  - exact Hp.
  - intros e c Hec. destruct (Hkid (e, c) Hec) as (Hin & Hc & Hhist). cbn [fst snd] in *.
    rewrite Hhist. eapply tp_child; eassumption.
Qed.
End Step.

(* ---------- soundness of grow ---------- *)
Definition node_facts (d : deck) (g0 : game) (abs : game -> N) (walker : Z) (s : stree) : Prop :=
  es_node walker s /\ child_ok d s /\ leaf_ok d s /\ bucket_ok abs s /\ on_tree_path d g0 s.

Theorem grow_sound : forall d hs g0 abs pick deal walker fuel h g t,
  wf_holes d hs -> root d hs = Some g0 -> tree_path d g0 h g ->
  grow d abs pick deal fuel walker g h = Some t ->
  forall s, In s (subtrees t) -> node_facts d g0 abs walker s.
Proof.
  intros d hs g0 abs pick deal walker fuel. induction fuel as [|f IH]; intros h g t Hwf Hroot Hp Hg s Hs.
  - discriminate Hg.
  - cbn [grow] in Hg. destruct (realize abs g h) as [b|] eqn:Hb; [|discriminate Hg].
    destruct (branches d deal g h b) as [bs|] eqn:Hbs; [|discriminate Hg].
    destruct (sample pick walker g h bs) as [kept|] eqn:Hk; [|discriminate Hg].
    destruct (opt_map_all _ kept) as [cs|] eqn:Hcs; [|discriminate Hg].
    injection Hg as <-. apply oma_Forall2 in Hcs.
    assert (Hkids : Forall2 (fun (eg : edge * game) (ec : edge * stree) =>
                fst ec = fst eg /\ grow d abs pick deal f walker (snd eg) (h ++ [fst eg]) = Some (snd ec)) kept cs).
    { eapply Forall2_impl; [|exact Hcs]. intros eg ec H. cbv beta in H.
      destruct (grow d abs pick deal f walker (snd eg) (h ++ [fst eg])) as [t'|]; [|discriminate H].
      injection H as <-. split; reflexivity. }
    assert (Hcs' : Forall2 (fun (eg : edge * game) (ec : edge * stree) =>
                fst ec = fst eg /\ s_game (snd ec) = snd eg /\ s_history (snd ec) = h ++ [fst eg]) kept cs).
    { eapply Forall2_impl; [|exact Hkids]. intros eg ec (Hfst & Hgr).
      destruct (grow_root _ _ _ _ _ _ _ _ _ Hgr) as [Hgm Hh]. split; [exact Hfst|]. split; assumption. }
    destruct (node_step d hs g0 abs pick deal walker Hwf Hroot h g b bs kept cs Hp Hb Hbs Hk Hcs')
      as (H1 & H2 & H3 & H4 & H5 & Hpaths).
    rewrite subtrees_eq in Hs. destruct Hs as [<-|Hs].
    + exact (conj H1 (conj H2 (conj H3 (conj H4 H5)))).
    + apply in_flat_map in Hs. destruct Hs as ([e c] & Hec & Hs). cbn [snd] in Hs.
      destruct (Forall2_in_r _ _ _ kept cs (e, c) Hkids Hec) as (eg & _ & Hfst & Hgr). cbn [fst snd] in *.
      pose proof (Hpaths e c Hec) as Hpc.
      destruct (grow_root _ _ _ _ _ _ _ _ _ Hgr) as [Hgm Hh].
      unfold s_game, s_history in Hpc. rewrite Hgm, Hh in Hpc.
      exact (IH _ _ c Hwf Hroot Hpc Hgr s Hs).
Qed.

(* the raise cap on the sampled tree *)
Theorem grow_raise_cap : forall d hs g0 abs pick deal walker fuel h g t,
  wf_holes d hs -> root d hs = Some g0 -> tree_path d g0 h g ->
  grow d abs pick deal fuel walker g h = Some t ->
  forall s, In s (subtrees t) ->
    tree_path d g0 (s_history s) (s_game s) /\
    max_raise_edges_per_round (s_history s) <= MAX_RAISE_REPEATS + 1.
Proof.
  intros d hs g0 abs pick deal walker fuel h g t Hwf Hroot Hp Hg s Hs.
  destruct (grow_sound d hs g0 abs pick deal walker fuel h g t Hwf Hroot Hp Hg s Hs) as (_ & _ & _ & _ & Hps).
  split; [exact Hps|]. exact (raise_cap_tree d hs g0 _ _ Hwf Hroot Hps).
Qed.

(* ---------- the construction does not panic and max_history + 1 levels suffice ---------- *)
Lemma nth_error_lt : forall (A : Type) (l : list A) i, (i < length l)%nat -> exists b, nth_error l i = Some b.
Proof.
  intros A l i H. destruct (nth_error l i) as [b|] eqn:Hn; [exists b; reflexivity|].
  apply nth_error_None in Hn. lia.
Qed.

Lemma sample_total : forall d dealt pick walker g h m bs,
  menu_by_turn g h m -> Forall2 (branch_of d g dealt) m bs ->
  exists kept, sample pick walker g h bs = Some kept.
Proof.
  intros d dealt pick walker g h m bs Hcase Hbr. unfold sample. destruct bs as [|b0 r]; [exists []; reflexivity|].
  set (bs := b0 :: r) in *.
  assert (Hidx : (explore_idx pick h (length bs) < length bs)%nat).
  { unfold explore_idx. apply Nat.mod_upper_bound. cbn. discriminate. }
  destruct (nth_error_lt _ bs _ Hidx) as (b & Hn).
  destruct (branch_in d g dealt m bs b Hbr (nth_error_In _ _ Hn)) as [Hin _].
  pose proof (who_turn g walker) as Hw. unfold menu_by_turn in Hcase.
  assert (Hchoice : forall i, turn_of g = Choice i -> forall eg, In eg bs -> is_choice (fst eg) = true).
  { intros i Ht eg Heg. rewrite Ht in Hcase. destruct Hcase as (-> & _).
    destruct (branch_in d g dealt _ bs eg Hbr Heg) as [Hin' _].
    pose proof (in_menu g _ _ Hin') as Hkind. destruct (fst eg); try reflexivity. contradiction Hkind. }
  destruct (who_acts g walker).
  - destruct Hw as (i & Ht). unfold explore_all.
    assert (Hall : forallb (fun b1 : edge * game => is_choice (fst b1)) bs = true).
    { apply forallb_forall. exact (Hchoice i Ht). }
    rewrite Hall. exists bs. reflexivity.
  - destruct Hw as (i & Ht). unfold explore_one. rewrite Hn.
    rewrite (Hchoice i Ht b (nth_error_In _ _ Hn)). exists [b]. reflexivity.
  - rewrite Hw in Hcase. subst m. destruct Hin as [Hd|[]]. unfold explore_any. rewrite Hn, <- Hd.
    exists [b]. reflexivity.
  - rewrite Hw in Hcase. subst m. contradiction Hin.
Qed.

Theorem grow_total : forall d hs g0 abs pick deal walker fuel h g,
  wf_holes d hs -> root d hs = Some g0 -> deal_ok d hs deal -> tree_path d g0 h g ->
  max_history < Z.of_nat (length h) + Z.of_nat fuel ->
  exists t, grow d abs pick deal fuel walker g h = Some t.
Proof.
  intros d hs g0 abs pick deal walker fuel. induction fuel as [|f IH]; intros h g Hwf Hroot Hdeal Hp Hfuel.
  - pose proof (finite d hs g0 h g Hwf Hroot Hp). lia.
  - pose proof (tree_path_reachable d hs g0 h g Hroot Hp) as Hreach.
    destruct (realize_path d hs g0 abs h g Hwf Hroot Hp) as (p & fm & m & Hr & Hm & Hcase & _ & _ & Hu & _).
    (* every menu edge has its child *)
    assert (Hkid : forall e, In e m -> exists g', child_game d g e (deal g h) = Some g').
    { intros e He. unfold menu_by_turn in Hcase. destruct (turn_of g) as [| |i] eqn:Ht.
      - subst m. contradiction He.
      - subst m. destruct He as [<-|[]].
        destruct (chance_child d hs g (deal g h) Hwf Hreach Ht (Hdeal g h Hreach Ht)) as (g' & Hg' & _).
        exists g'. exact Hg'.
      - destruct (child_permitted d hs g i h m e Hwf Hreach Ht Hm He) as (g' & Hg' & _).
        exists g'. destruct Hcase as (-> & _). pose proof (in_menu g _ _ He) as Hkind.
        rewrite child_game_choice; [rewrite <- child_game_0; exact Hg'|].
        intros ->. exact Hkind. }
    assert (Hbs : exists bs, branches d deal g h (p, abs g, fm) = Some bs).
    { unfold branches. cbn [b_menu snd]. rewrite Hu. apply oma_total. intros e He.
      destruct (Hkid e He) as (g' & Hg'). rewrite Hg'. exists (e, g'). reflexivity. }
    destruct Hbs as (bs & Hbs).
    pose proof (branches_spec d deal g h (p, abs g, fm) m bs Hu Hbs) as Hbr.
    destruct (sample_total d (deal g h) pick walker g h m bs Hcase Hbr) as (kept & Hk).
    pose proof (sample_spec pick walker g h bs kept Hk) as Hsp.
    assert (Hsub : forall eg, In eg kept -> In eg bs).
    { intros eg Heg. destruct bs as [|b0 r]; [subst kept; contradiction Heg|].
      destruct (who_acts g walker).
      - subst kept. exact Heg.
      - destruct Hsp as (b1 & -> & Hb1). destruct Heg as [<-|[]]. exact Hb1.
      - destruct Hsp as (b1 & -> & Hb1). destruct Heg as [<-|[]]. exact Hb1.
      - destruct Hsp as (b1 & -> & Hb1). destruct Heg as [<-|[]]. exact Hb1. }
    assert (Hcs : exists cs, opt_map_all (fun eg : edge * game =>
                     match grow d abs pick deal f walker (snd eg) (h ++ [fst eg]) with
                     | Some t => Some (fst eg, t) | None => None end) kept = Some cs).
    { apply oma_total. intros eg Heg.
      destruct (branch_in d g (deal g h) m bs eg Hbr (Hsub eg Heg)) as [Hin Hc].
      assert (Hp' : tree_path d g0 (h ++ [fst eg]) (snd eg)) by (eapply tp_child; eassumption).
      destruct (IH (h ++ [fst eg]) (snd eg) Hwf Hroot Hdeal Hp') as (t & Ht).
      { rewrite app_length. cbn [length]. lia. }
      rewrite Ht. exists (fst eg, t). reflexivity. }
    destruct Hcs as (cs & Hcs).
    exists (SNode (mkNode g h (p, abs g, fm)) cs). cbn [grow]. rewrite Hr, Hbs, Hk, Hcs. reflexivity.
Qed.

(* the fuel of the statement: max_history + 1 levels from the root *)
Definition enough_fuel : nat := Z.to_nat (max_history + 1).
Theorem grow_terminates : forall d hs g0 abs pick deal walker h g,
  wf_holes d hs -> root d hs = Some g0 -> deal_ok d hs deal -> tree_path d g0 h g ->
  exists t, grow d abs pick deal enough_fuel walker g h = Some t.
Proof.
  intros d hs g0 abs pick deal walker h g Hwf Hroot Hdeal Hp.
  apply (grow_total d hs g0 abs pick deal walker enough_fuel h g Hwf Hroot Hdeal Hp).
  unfold enough_fuel. rewrite Z2Nat.id by (vm_compute; discriminate). lia.
Qed.

(* ---------- more fuel, same tree ---------- *)
Lemma oma_weaken : forall (A B : Type) (f f' : A -> option B) l r,
  (forall x y, In x l -> f x = Some y -> f' x = Some y) ->
  opt_map_all f l = Some r -> opt_map_all f' l = Some r.
Proof.
  intros A B f f' l. induction l as [|x l IH]; intros r Hff H.
  - exact H.
  - rewrite oma_cons in H |- *. destruct (f x) as [y|] eqn:Hx; [|discriminate H].
    destruct (opt_map_all f l) as [r'|] eqn:Hr; [|discriminate H].
    rewrite (Hff x y (or_introl eq_refl) Hx), (IH r' (fun z w Hz => Hff z w (or_intror Hz)) eq_refl). exact H.
Qed.

Theorem grow_fuel_mono : forall d abs pick deal walker fuel fuel' g h t, (fuel <= fuel')%nat ->
  grow d abs pick deal fuel walker g h = Some t -> grow d abs pick deal fuel' walker g h = Some t.
Proof.
  intros d abs pick deal walker fuel. induction fuel as [|f IH]; intros fuel' g h t Hle H; [discriminate H|].
  destruct fuel' as [|f']; [lia|]. cbn [grow] in H |- *.
  destruct (realize abs g h) as [b|]; [|discriminate H].
  destruct (branches d deal g h b) as [bs|]; [|discriminate H].
  destruct (sample pick walker g h bs) as [kept|]; [|discriminate H].
  destruct (opt_map_all _ kept) as [cs|] eqn:Hcs; [|discriminate H].
  assert (Hcs' : opt_map_all (fun eg : edge * game =>
             match grow d abs pick deal f' walker (snd eg) (h ++ [fst eg]) with
             | Some t0 => Some (fst eg, t0) | None => None end) kept = Some cs).
  { eapply oma_weaken; [|exact Hcs].
    intros eg y _ Hy. cbv beta in Hy |- *.
    destruct (grow d abs pick deal f walker (snd eg) (h ++ [fst eg])) as [t0|] eqn:Hg; [|discriminate Hy].
    rewrite (IH f' _ _ t0 (le_S_n _ _ Hle) Hg). exact Hy. }
  rewrite Hcs'. exact H.
Qed.

(* ---------- the nodes of the sampled tree have pairwise different histories ---------- *)
Lemma NoDup_append : forall (A : Type) (l1 l2 : list A),
  NoDup l1 -> NoDup l2 -> (forall x, In x l1 -> ~ In x l2) -> NoDup (l1 ++ l2).
Proof.
  intros A l1 l2 H1 H2 Hd. induction H1 as [|a l1 Hnin H1 IH]; [exact H2|].
  cbn [app]. constructor.
  - intros Hin. apply in_app_or in Hin. destruct Hin as [Hin|Hin]; [exact (Hnin Hin)|].
    exact (Hd a (or_introl eq_refl) Hin).
  - apply IH. intros x Hx. exact (Hd x (or_intror Hx)).
Qed.

Lemma NoDup_flat_map_tagged : forall (K T X : Type) (G : T -> list X) (tag : X -> option K) (cs : list (K * T)),
  NoDup (map fst cs) ->
  (forall e c, In (e, c) cs -> NoDup (G c)) ->
  (forall e c x, In (e, c) cs -> In x (G c) -> tag x = Some e) ->
  NoDup (flat_map (fun ec => G (snd ec)) cs).
Proof.
  intros K T X G tag cs. induction cs as [|[e c] r IH]; intros Hnd Hg Htag; [constructor|].
  cbn [flat_map snd]. cbn [map fst] in Hnd. inversion Hnd as [|k l Hnin Hnd']; subst.
  apply NoDup_append.
  - exact (Hg e c (or_introl eq_refl)).
  - apply IH; [exact Hnd'| |].
    + intros e' c' Hin. exact (Hg e' c' (or_intror Hin)).
    + intros e' c' x Hin Hx. exact (Htag e' c' x (or_intror Hin) Hx).
  - intros x Hx Hx'. apply in_flat_map in Hx'. destruct Hx' as ([e' c'] & Hin & Hxc). cbn [snd] in Hxc.
    pose proof (Htag e c x (or_introl eq_refl) Hx) as T1.
    pose proof (Htag e' c' x (or_intror Hin) Hxc) as T2.
    rewrite T1 in T2. injection T2 as ->. apply Hnin. apply in_map_iff. exists (e', c'). split; [reflexivity|exact Hin].
Qed.

Lemma es_node_kids_nodup : forall walker s, es_node walker s -> NoDup (map fst (kids s)).
Proof.
  intros walker s (m & _ & H). destruct (who_acts (s_game s) walker).
  - destruct H as (-> & Hnd & _). exact Hnd.
  - destruct H as (e & c & -> & _). cbn. constructor; [intros []|constructor].
  - destruct H as (e & c & -> & _). cbn. constructor; [intros []|constructor].
  - destruct H as (-> & _). constructor.
Qed.

Theorem grow_distinct : forall d hs g0 abs pick deal walker fuel h g t,
  wf_holes d hs -> root d hs = Some g0 -> tree_path d g0 h g ->
  grow d abs pick deal fuel walker g h = Some t ->
  NoDup (map s_history (subtrees t)) /\
  forall s, In s (subtrees t) -> exists l, s_history s = h ++ l.
Proof.
  intros d hs g0 abs pick deal walker fuel. induction fuel as [|f IH]; intros h g t Hwf Hroot Hp Hg.
  - discriminate Hg.
  - pose proof (grow_sound d hs g0 abs pick deal walker (S f) h g t Hwf Hroot Hp Hg) as Hsound.
    cbn [grow] in Hg. destruct (realize abs g h) as [b|] eqn:Hb; [|discriminate Hg].
    destruct (branches d deal g h b) as [bs|] eqn:Hbs; [|discriminate Hg].
    destruct (sample pick walker g h bs) as [kept|] eqn:Hk; [|discriminate Hg].
    destruct (opt_map_all _ kept) as [cs|] eqn:Hcs; [|discriminate Hg].
    injection Hg as <-. apply oma_Forall2 in Hcs.
    set (t := SNode (mkNode g h b) cs) in *.
    destruct (Hsound t (subtrees_self t)) as (Hes & Hch & _ & _ & _).
    (* every child is grown from a node one edge further down the path *)
    assert (Hkid : forall e c, In (e, c) cs ->
              exists g', tree_path d g0 (h ++ [e]) g' /\ grow d abs pick deal f walker g' (h ++ [e]) = Some c).
    { intros e c Hec. destruct (Forall2_in_r _ _ _ kept cs (e, c) Hcs Hec) as (eg & _ & Hgr). cbv beta in Hgr.
      destruct (grow d abs pick deal f walker (snd eg) (h ++ [fst eg])) as [t'|] eqn:Hgt; [|discriminate Hgr].
      injection Hgr as Hfst Ht'. subst t'. rewrite Hfst in Hgt. exists (snd eg). split; [|exact Hgt].
      destruct (Hsound c) as (_ & _ & _ & _ & Hpc).
      { apply (subtrees_kid t e c c Hec (subtrees_self c)). }
      destruct (grow_root _ _ _ _ _ _ _ _ _ Hgt) as [Hgm Hh].
      unfold on_tree_path, s_game, s_history in Hpc. rewrite Hgm, Hh in Hpc. exact Hpc. }
    assert (Hsub : forall e c s, In (e, c) cs -> In s (subtrees c) ->
              exists l, s_history s = h ++ e :: l).
    { intros e c s Hec Hs. destruct (Hkid e c Hec) as (g' & Hp' & Hgr).
      destruct (IH _ _ _ Hwf Hroot Hp' Hgr) as [_ Hpre]. destruct (Hpre s Hs) as (l & Hl).
      exists l. rewrite Hl, <- app_assoc. reflexivity. }
    assert (Hst : subtrees t = t :: flat_map (fun ec => subtrees (snd ec)) cs) by (unfold t; apply subtrees_eq).
    rewrite Hst. split.
    + cbn [map]. constructor.
      * intros Hin. apply in_map_iff in Hin. destruct Hin as (s & Hsh & Hs).
        apply in_flat_map in Hs. destruct Hs as ([e c] & Hec & Hs). cbn [snd] in Hs.
        destruct (Hsub e c s Hec Hs) as (l & Hl).
        rewrite Hl in Hsh. unfold t, s_history in Hsh. cbn [root_node n_history] in Hsh. apply (f_equal (@length edge)) in Hsh. rewrite app_length in Hsh. cbn [length] in Hsh. lia.
      * rewrite flat_map_concat_map, concat_map, map_map, <- flat_map_concat_map.
        apply (NoDup_flat_map_tagged edge stree (list edge) (fun c => map s_history (subtrees c))
                 (fun x => nth_error x (length h)) cs).
        -- exact (es_node_kids_nodup walker t Hes).
        -- intros e c Hec. destruct (Hkid e c Hec) as (g' & Hp' & Hgr).
           exact (proj1 (IH _ _ _ Hwf Hroot Hp' Hgr)).
        -- intros e c x Hec Hx. apply in_map_iff in Hx. destruct Hx as (s & <- & Hs).
           destruct (Hsub e c s Hec Hs) as (l & ->).
           rewrite nth_error_app2 by lia. rewrite Nat.sub_diag. reflexivity.
    + intros s [<-|Hs].
      * exists []. unfold t, s_history. cbn [root_node n_history]. rewrite app_nil_r. reflexivity.
      * apply in_flat_map in Hs. destruct Hs as ([e c] & Hec & Hs). cbn [snd] in Hs.
        destruct (Hsub e c s Hec Hs) as (l & Hl). exists (e :: l). exact Hl.
Qed.
