(* Proofs/C03_Moves.v -- R implies same_moves: related states show the same turn and accept the
   same actions (every kind, every amount, every draw) *)
From Coq Require Import ZArith NArith List Bool Lia.
From RP Require Import Base.Bits Gen.GenLib Gen.GenFixes Model.Codec Model.Showdown Model.Game
                       Spec.SpecNLHE Spec.SpecGameInv Spec.SpecRel Proofs.C03_Flat.
Import ListNotations.
Open Scope Z_scope.
Ltac Zify.zify_post_hook ::= Z.div_mod_to_equations.

Lemma must_post_false : forall s0 s1 k0 k1 e0 e1 p0 p1 c0 c1 pt bd t,
  S_BLIND + B_BLIND <= pt -> must_post (G2 s0 s1 k0 k1 e0 e1 p0 p1 c0 c1 pt bd t) = false.
Proof.
  intros s0 s1 k0 k1 e0 e1 p0 p1 c0 c1 pt bd t H. rewrite must_post_flat.
  destruct (sob bd =? 0); [|reflexivity]. apply Z.ltb_ge. exact H.
Qed.

Lemma deck_of_flat : forall d s0 s1 k0 k1 e0 e1 p0 p1 c0 c1 pt bd t,
  N.land bd c0 = 0%N -> N.land (N.lor bd c0) c1 = 0%N ->
  deck_of d (G2 s0 s1 k0 k1 e0 e1 p0 p1 c0 c1 pt bd t)
  = Some (N.lxor (N.lor (N.lor bd c0) c1) (hand_mask d)).
Proof.
  intros d s0 s1 k0 k1 e0 e1 p0 p1 c0 c1 pt bd t H0 H1.
  unfold deck_of, removed. cbn [seats G2 fold_left board cards].
  assert (Ha : forall x y, N.land x y = 0%N -> hand_add x y = Some (N.lor x y)).
  { intros x y Hxy. unfold hand_add. rewrite Hxy. reflexivity. }
  rewrite (Ha _ _ H0), (Ha _ _ H1). reflexivity.
Qed.

Lemma n_revealed_due : forall s, s = 0 \/ s = 1 \/ s = 2 -> n_revealed s = Some (cards_due s).
Proof. intros s [H|[H|H]]; subst s; reflexivity. Qed.

Lemma seat_inv_betting_pos : forall k e p, seat_inv Betting k e p -> 0 < k.
Proof.
  intros k e p (H0 & _ & _ & _ & _ & Hb).
  destruct (Z.eq_dec k 0) as [Hk|Hk]; [exfalso; apply (Hb Hk); reflexivity|lia].
Qed.

Theorem R_same_moves : RAISE_ARM_CHECKS_TURN = true ->
  forall d g s, R d g s -> same_moves d g s.
Proof.
  intros Hfix d g s HR.
  destruct HR as [s0 s1 k0 k1 e0 e1 p0 p1 c0 c1 pt bd t ac0 ac1 lr ta aw ov
                  Hi0 Hi1 Hpt Hbl Hbase Hnf Hbd Hcards Hstop Hdeal Hover Hch].
  assert (Hpost := must_post_false s0 s1 k0 k1 e0 e1 p0 p1 c0 c1 pt bd t Hbl).
  split.
  - unfold turn_of, sturn. rewrite Hstop. cbn [over awaiting to_act S2].
    destruct ov; [reflexivity|]. rewrite (Hdeal eq_refl).
    destruct aw; [reflexivity|].
    destruct (Hch eq_refl eq_refl) as (_ & Hmod & _).
    rewrite actor_idx_flat, Hmod. reflexivity.
  - intros a. destruct ov.
    + unfold is_allowed. rewrite Hstop. reflexivity.
    + specialize (Hdeal eq_refl). destruct aw.
      * (* a card is awaited *)
        destruct (allowed_chance d _ Hstop Hdeal Hpost Hfix) as (HF & HC & HCa & HSh & HRa & HBl).
        destruct a as [h| |c| |c|c|c]; rewrite ?HF, ?HC, ?HCa, ?HSh, ?HRa, ?HBl; try reflexivity.
        unfold is_allowed. rewrite Hstop, Hdeal.
        destruct Hcards as (Hc0 & Hc1 & _).
        rewrite deck_of_flat by assumption.
        unfold slegal, unseen. cbn [over awaiting holes community S2 fold_left nstreet].
        rewrite street_flat.
        destruct (N.eqb (N.land h (N.lxor (N.lxor (N.lor (N.lor bd c0) c1) (hand_mask d)) 18446744073709551615)) 0);
          [|reflexivity].
        rewrite n_revealed_due; [reflexivity|].
        unfold must_deal in Hdeal. rewrite street_flat in Hdeal.
        destruct (sob_cases bd Hbd) as [[_ H]|[[_ H]|[[_ H]|[_ H]]]]; rewrite H in *; auto.
        discriminate Hdeal.
      * (* a player is to act *)
        destruct (allowed_choice d _ Hstop Hdeal Hpost) as (HF & HC & HCa & HSh & HRa & HDr & HBl).
        destruct (Hch eq_refl eq_refl) as (Hk & Hmod & Hta).
        destruct Hi0 as (Hk0 & Hs0 & He0 & Hep0 & Hsh0 & Hbt0).
        destruct Hi1 as (Hk1 & Hs1 & He1 & Hep1 & Hsh1 & Hbt1).
        destruct Hta as [[-> Hci]|[-> Hci]]; destruct Hci as (Hsa & Hso & Haca & Haco & Hle & Hk1' & Hk2');
          cbn [Z.of_nat] in Hmod.
        -- (* seat 0 to act *)
           assert (Hpos : 0 < k0).
           { destruct (Z.eq_dec k0 0) as [Hz|Hz]; [exfalso; apply (Hbt0 Hz); exact Hsa|lia]. }
           assert (Hlr : Z.max lr B_BLIND = Z.max (e1 - e0) B_BLIND) by lia.
           destruct a as [h| |c| |c|c|c]; rewrite ?HF, ?HC, ?HCa, ?HSh, ?HRa, ?HDr, ?HBl; try reflexivity;
             unfold slegal, outstanding, maxin; cbn [over awaiting to_act S2 instreet behind last_raise nthZ nth fold_left];
             unfold may_fold, may_check, may_call, may_shove, may_raise, may_fold, to_call, to_shove;
             rewrite ?effective_flat, ?actor_flat0 by assumption; cbn [stake stack];
             rewrite ?to_raise_flat0 by (try assumption; try lia; congruence);
             f_equal; lia.
        -- (* seat 1 to act *)
           assert (Hpos : 0 < k1).
           { destruct (Z.eq_dec k1 0) as [Hz|Hz]; [exfalso; apply (Hbt1 Hz); exact Hsa|lia]. }
           assert (Hlr : Z.max lr B_BLIND = Z.max (e0 - e1) B_BLIND) by lia.
           destruct a as [h| |c| |c|c|c]; rewrite ?HF, ?HC, ?HCa, ?HSh, ?HRa, ?HDr, ?HBl; try reflexivity;
             unfold slegal, outstanding, maxin; cbn [over awaiting to_act S2 instreet behind last_raise nthZ nth fold_left];
             unfold may_fold, may_check, may_call, may_shove, may_raise, may_fold, to_call, to_shove;
             rewrite ?effective_flat, ?actor_flat1 by assumption; cbn [stake stack];
             rewrite ?to_raise_flat1 by (try assumption; try lia; congruence);
             f_equal; lia.
Qed.
