(* Proofs/C07_BucketF32_chk.v -- boolean checker for "binary32 bucket = exact rounded percent, except one less
   at the ties of Model/BucketF32.tie_down_ratios" over a
   block of rows (sum in [lo, lo+n), won in [0, sum]) and its soundness; the blocks are evaluated by
   vm_compute in the shard files Proofs/C07_BucketF32_s*.v. *)
From Coq Require Import ZArith Bool Lia.
From RP Require Import Model.BetF32 Model.BucketF32.
Open Scope Z_scope.

(* one pair: bucket32 is bucket_exact, except one less at the listed ties -- which are ties, with
   bucket_exact >= 1 there *)
Definition check_pair (won sum : Z) : bool :=
  if rounds_down_tie won sum
  then (bucket32 won sum =? bucket_exact won sum - 1) && is_tie won sum && (1 <=? bucket_exact won sum)
  else bucket32 won sum =? bucket_exact won sum.
Definition pair_ok (won sum : Z) : Prop :=
  if rounds_down_tie won sum
  then bucket32 won sum = bucket_exact won sum - 1 /\ is_tie won sum = true /\ 1 <= bucket_exact won sum
  else bucket32 won sum = bucket_exact won sum.
Lemma check_pair_ok : forall won sum, check_pair won sum = true -> pair_ok won sum.
Proof.
  intros won sum H. unfold check_pair in H. unfold pair_ok.
  destruct (rounds_down_tie won sum).
  - apply andb_true_iff in H. destruct H as [H H3]. apply andb_true_iff in H. destruct H as [H1 H2].
    apply Z.eqb_eq in H1. apply Z.leb_le in H3. exact (conj H1 (conj H2 H3)).
  - apply Z.eqb_eq in H. exact H.
Qed.
(* won, won+1, ..., won+n-1 at a fixed sum *)
Fixpoint check_row (n : nat) (won sum : Z) : bool :=
  match n with
  | O => true
  | S k => check_pair won sum && check_row k (won + 1) sum
  end.
(* the full rows sum = lo, lo+1, ..., lo+n-1, each with won = 0..sum *)
Fixpoint check_rows (n : nat) (lo : Z) : bool :=
  match n with
  | O => true
  | S k => check_row (Z.to_nat (lo + 1)) 0 lo && check_rows k (lo + 1)
  end.

Lemma check_row_ok : forall n won sum, check_row n won sum = true ->
  forall w, won <= w < won + Z.of_nat n -> check_pair w sum = true.
Proof.
  induction n as [|k IH]; intros won sum H w Hw.
  - lia.
  - cbn [check_row] in H. apply andb_true_iff in H. destruct H as [H1 H2].
    destruct (Z.eq_dec w won) as [->|Hne]; [exact H1|].
    apply (IH (won + 1) sum H2). lia.
Qed.
Lemma check_rows_ok : forall n lo, 0 <= lo -> check_rows n lo = true ->
  forall sum won, lo <= sum < lo + Z.of_nat n -> 0 <= won <= sum ->
  pair_ok won sum.
Proof.
  induction n as [|k IH]; intros lo Hlo H sum won Hs Hw.
  - lia.
  - cbn [check_rows] in H. apply andb_true_iff in H. destruct H as [H1 H2].
    destruct (Z.eq_dec sum lo) as [->|Hne].
    + apply check_pair_ok. apply (check_row_ok _ _ _ H1 won). lia.
    + apply (IH (lo + 1)); [lia|exact H2|lia|exact Hw].
Qed.
(* the form used by the shards: rows lo .. hi-1 *)
Definition check_block (lo hi : Z) : bool := check_rows (Z.to_nat (hi - lo)) lo.
Lemma check_block_ok : forall lo hi, 0 <= lo -> check_block lo hi = true ->
  forall sum won, lo <= sum < hi -> 0 <= won <= sum -> pair_ok won sum.
Proof.
  intros lo hi Hlo H sum won Hs Hw. apply (check_rows_ok _ lo Hlo H); [lia|exact Hw].
Qed.
