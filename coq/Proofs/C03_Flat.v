(* Proofs/C03_Flat.v -- the engine functions of Model/Game.v evaluated on a heads-up state G2 *)
From Coq Require Import ZArith NArith List Bool Lia.
From RP Require Import Base.Bits Gen.GenLib Gen.GenFixes Model.Codec Model.Showdown Model.Game
                       Spec.SpecNLHE Spec.SpecGameInv Spec.SpecRel.
Import ListNotations.
Open Scope Z_scope.

(* numeric facts about the generated constants; everything below uses only these *)
Lemma blinds_facts : 0 < S_BLIND /\ S_BLIND <= B_BLIND /\ S_BLIND + B_BLIND < STACK.
Proof. cbv. repeat split; congruence. Qed.

Lemma root_flat : forall d a b,
  root d [a; b] = Some (G2 Betting Betting (STACK - B_BLIND) (STACK - S_BLIND) B_BLIND S_BLIND B_BLIND S_BLIND
                           a b (S_BLIND + B_BLIND) 0%N 3).
Proof. intros d a b. vm_compute. reflexivity. Qed.

Lemma sroot_flat : forall a b,
  sroot [a; b] = S2 Betting Betting (STACK - B_BLIND) (STACK - S_BLIND) B_BLIND S_BLIND B_BLIND S_BLIND
                    a b 0%N false false 0 1%nat false false.
Proof. intros a b. vm_compute. reflexivity. Qed.

Definition isB (s : sstate) : bool := sstate_eqb s Betting.
Definition isS (s : sstate) : bool := sstate_eqb s Shoving.

Section Flat.
Variables (s0 s1 : sstate) (k0 k1 e0 e1 p0 p1 : Z) (c0 c1 : N) (pt : Z) (bd : N) (t : Z).
Notation g := (G2 s0 s1 k0 k1 e0 e1 p0 p1 c0 c1 pt bd t).

Lemma street_flat : street g = sob bd. Proof. reflexivity. Qed.
Lemma actor_idx_flat : actor_idx g = t mod 2. Proof. reflexivity. Qed.
Lemma effective_flat : effective_stake g = Z.max e0 e1. Proof. reflexivity. Qed.
Lemma touched_flat : is_everyone_touched g = (2 + street_off bd <? t). Proof. reflexivity. Qed.
Lemma matched_flat : is_everyone_matched g =
  (if isB s0 then e0 =? Z.max e0 e1 else true) && (if isB s1 then e1 =? Z.max e0 e1 else true).
Proof. destruct s0, s1; cbn; rewrite ?andb_true_r; reflexivity. Qed.
Lemma folding_flat : is_everyone_folding g = xorb (is_fold s0) (is_fold s1).
Proof. destruct s0, s1; reflexivity. Qed.
Lemma shoving_flat : is_everyone_shoving g = (is_fold s0 || isS s0) && (is_fold s1 || isS s1).
Proof. destruct s0, s1; reflexivity. Qed.
Lemma must_post_flat : must_post g = if sob bd =? 0 then pt <? S_BLIND + B_BLIND else false.
Proof. reflexivity. Qed.
End Flat.

Ltac Zify.zify_post_hook ::= Z.div_mod_to_equations.

Lemma mod2_succ : forall t, (t + 1) mod 2 = 1 - t mod 2.
Proof. intros t. lia. Qed.

Section Flat2.
Variables (s0 s1 : sstate) (k0 k1 e0 e1 p0 p1 : Z) (c0 c1 : N) (pt : Z) (bd : N) (t : Z).
Notation g := (G2 s0 s1 k0 k1 e0 e1 p0 p1 c0 c1 pt bd t).

Lemma actor_flat0 : t mod 2 = 0 -> actor g = mkSeat s0 k0 e0 p0 c0.
Proof. intros H. unfold actor. rewrite actor_idx_flat, H. reflexivity. Qed.
Lemma actor_flat1 : t mod 2 = 1 -> actor g = mkSeat s1 k1 e1 p1 c1.
Proof. intros H. unfold actor. rewrite actor_idx_flat, H. reflexivity. Qed.

Lemma upd_actor_flat0 : forall f, t mod 2 = 0 -> upd_actor g f = [f (mkSeat s0 k0 e0 p0 c0); mkSeat s1 k1 e1 p1 c1].
Proof. intros f H. unfold upd_actor. rewrite actor_idx_flat, H. reflexivity. Qed.
Lemma upd_actor_flat1 : forall f, t mod 2 = 1 -> upd_actor g f = [mkSeat s0 k0 e0 p0 c0; f (mkSeat s1 k1 e1 p1 c1)].
Proof. intros f H. unfold upd_actor. rewrite actor_idx_flat, H. reflexivity. Qed.

Lemma fold_flat0 : t mod 2 = 0 -> fold_actor g = G2 Folding s1 k0 k1 e0 e1 p0 p1 c0 c1 pt bd t.
Proof. intros H. unfold fold_actor. rewrite upd_actor_flat0 by assumption. reflexivity. Qed.
Lemma fold_flat1 : t mod 2 = 1 -> fold_actor g = G2 s0 Folding k0 k1 e0 e1 p0 p1 c0 c1 pt bd t.
Proof. intros H. unfold fold_actor. rewrite upd_actor_flat1 by assumption. reflexivity. Qed.
End Flat2.

Lemma bet_flat0 : forall s0 s1 k0 k1 e0 e1 p0 p1 c0 c1 pt bd t c, t mod 2 = 0 -> c <= k0 ->
  bet (G2 s0 s1 k0 k1 e0 e1 p0 p1 c0 c1 pt bd t) c =
  Some (G2 (if k0 - c =? 0 then Shoving else s0) s1 (k0 - c) k1 (e0 + c) e1 (p0 + c) p1 c0 c1 (pt + c) bd t).
Proof.
  intros s0 s1 k0 k1 e0 e1 p0 p1 c0 c1 pt bd t c H Hc. unfold bet.
  rewrite actor_flat0 by assumption. cbn [stack].
  destruct (Z.ltb_spec k0 c) as [Hlt|_]; [lia|].
  rewrite upd_actor_flat0 by assumption. cbn [st stack stake spent cards].
  cbn [pot board dealer ticker G2].
  change (mkGame [mkSeat s0 (k0 - c) (e0 + c) (p0 + c) c0; mkSeat s1 k1 e1 p1 c1] (pt + c) bd 0 t)
    with (G2 s0 s1 (k0 - c) k1 (e0 + c) e1 (p0 + c) p1 c0 c1 (pt + c) bd t).
  rewrite actor_flat0 by assumption. cbn [stack].
  destruct (k0 - c =? 0); [|reflexivity].
  rewrite upd_actor_flat0 by assumption. reflexivity.
Qed.
Lemma bet_flat1 : forall s0 s1 k0 k1 e0 e1 p0 p1 c0 c1 pt bd t c, t mod 2 = 1 -> c <= k1 ->
  bet (G2 s0 s1 k0 k1 e0 e1 p0 p1 c0 c1 pt bd t) c =
  Some (G2 s0 (if k1 - c =? 0 then Shoving else s1) k0 (k1 - c) e0 (e1 + c) p0 (p1 + c) c0 c1 (pt + c) bd t).
Proof.
  intros s0 s1 k0 k1 e0 e1 p0 p1 c0 c1 pt bd t c H Hc. unfold bet.
  rewrite actor_flat1 by assumption. cbn [stack].
  destruct (Z.ltb_spec k1 c) as [Hlt|_]; [lia|].
  rewrite upd_actor_flat1 by assumption. cbn [st stack stake spent cards].
  cbn [pot board dealer ticker G2].
  change (mkGame [mkSeat s0 k0 e0 p0 c0; mkSeat s1 (k1 - c) (e1 + c) (p1 + c) c1] (pt + c) bd 0 t)
    with (G2 s0 s1 k0 (k1 - c) e0 (e1 + c) p0 (p1 + c) c0 c1 (pt + c) bd t).
  rewrite actor_flat1 by assumption. cbn [stack].
  destruct (k1 - c =? 0); [|reflexivity].
  rewrite upd_actor_flat1 by assumption. reflexivity.
Qed.

(* next_player: stay if everyone is alright, else pass the turn to the other (Betting) seat *)
Lemma next_player_flat0 : forall s0 s1 k0 k1 e0 e1 p0 p1 c0 c1 pt bd t, t mod 2 = 0 ->
  (is_everyone_alright (G2 s0 s1 k0 k1 e0 e1 p0 p1 c0 c1 pt bd t) = false -> s1 = Betting) ->
  next_player (G2 s0 s1 k0 k1 e0 e1 p0 p1 c0 c1 pt bd t) =
  Some (G2 s0 s1 k0 k1 e0 e1 p0 p1 c0 c1 pt bd
           (if is_everyone_alright (G2 s0 s1 k0 k1 e0 e1 p0 p1 c0 c1 pt bd t) then t else t + 1)).
Proof.
  intros s0 s1 k0 k1 e0 e1 p0 p1 c0 c1 pt bd t H Hb. unfold next_player.
  destruct (is_everyone_alright _); [reflexivity|].
  rewrite (Hb eq_refl). cbn [seats G2 length next_loop pot board dealer ticker].
  change (mkGame [mkSeat s0 k0 e0 p0 c0; mkSeat Betting k1 e1 p1 c1] pt bd 0 (t + 1))
    with (G2 s0 Betting k0 k1 e0 e1 p0 p1 c0 c1 pt bd (t + 1)).
  rewrite actor_flat1 by (rewrite mod2_succ; lia). reflexivity.
Qed.
Lemma next_player_flat1 : forall s0 s1 k0 k1 e0 e1 p0 p1 c0 c1 pt bd t, t mod 2 = 1 ->
  (is_everyone_alright (G2 s0 s1 k0 k1 e0 e1 p0 p1 c0 c1 pt bd t) = false -> s0 = Betting) ->
  next_player (G2 s0 s1 k0 k1 e0 e1 p0 p1 c0 c1 pt bd t) =
  Some (G2 s0 s1 k0 k1 e0 e1 p0 p1 c0 c1 pt bd
           (if is_everyone_alright (G2 s0 s1 k0 k1 e0 e1 p0 p1 c0 c1 pt bd t) then t else t + 1)).
Proof.
  intros s0 s1 k0 k1 e0 e1 p0 p1 c0 c1 pt bd t H Hb. unfold next_player.
  destruct (is_everyone_alright _); [reflexivity|].
  rewrite (Hb eq_refl). cbn [seats G2 length next_loop pot board dealer ticker].
  change (mkGame [mkSeat Betting k0 e0 p0 c0; mkSeat s1 k1 e1 p1 c1] pt bd 0 (t + 1))
    with (G2 Betting s1 k0 k1 e0 e1 p0 p1 c0 c1 pt bd (t + 1)).
  rewrite actor_flat0 by (rewrite mod2_succ; lia). reflexivity.
Qed.

(* ---------- what the engine accepts when a player is to act ---------- *)
Lemma allowed_choice : forall d g,
  must_stop g = false -> must_deal g = false -> must_post g = false ->
  is_allowed d g Fold = Some (may_fold g) /\
  is_allowed d g Check = Some (may_check g) /\
  (forall c, is_allowed d g (Call c) = Some (may_call g && (c =? to_call g))) /\
  (forall c, is_allowed d g (Shove c) = Some (may_shove g && (c =? to_shove g))) /\
  (forall r, is_allowed d g (Raise r) = Some (may_raise g && (to_raise g <=? r) && (r <=? to_shove g - 1))) /\
  (forall h, is_allowed d g (Draw h) = Some false) /\
  (forall c, is_allowed d g (Blind c) = Some false).
Proof.
  intros d g Hs Hd Hp. unfold is_allowed, legal. rewrite Hs, Hd, Hp.
  repeat split; try reflexivity; intros;
    try (destruct RAISE_ARM_CHECKS_TURN; reflexivity);
    destruct (may_raise g), (may_shove g), (may_call g), (may_fold g), (may_check g); cbn;
      rewrite ?orb_false_r; reflexivity.
Qed.

(* ... and when a card is due: here the guard of the Raise arm matters *)
Lemma allowed_chance : forall d g,
  must_stop g = false -> must_deal g = true -> must_post g = false ->
  RAISE_ARM_CHECKS_TURN = true ->
  is_allowed d g Fold = Some false /\ is_allowed d g Check = Some false /\
  (forall c, is_allowed d g (Call c) = Some false) /\
  (forall c, is_allowed d g (Shove c) = Some false) /\
  (forall r, is_allowed d g (Raise r) = Some false) /\
  (forall c, is_allowed d g (Blind c) = Some false).
Proof.
  intros d g Hs Hd Hp Hfix. unfold is_allowed, legal. rewrite Hs, Hd, Hp, Hfix.
  repeat split; reflexivity.
Qed.

Lemma two_largest_2 : forall a b, 0 <= a -> 0 <= b -> two_largest [a; b] = (Z.max a b, Z.min a b).
Proof.
  intros a b Ha Hb. unfold two_largest. cbn [fold_left].
  destruct (Z.ltb_spec 0 a) as [H0|H0].
  - destruct (Z.ltb_spec a b) as [H1|H1]; [f_equal; lia|].
    destruct (Z.ltb_spec 0 b) as [H2|H2]; f_equal; lia.
  - replace a with 0 by lia.
    destruct (Z.ltb_spec 0 b) as [H2|H2]; f_equal; lia.
Qed.

Lemma to_raise_flat0 : forall s0 s1 k0 k1 e0 e1 p0 p1 c0 c1 pt bd t,
  t mod 2 = 0 -> s0 <> Folding -> s1 <> Folding -> 0 <= e0 -> e0 <= e1 ->
  to_raise (G2 s0 s1 k0 k1 e0 e1 p0 p1 c0 c1 pt bd t) = (e1 - e0) + Z.max (e1 - e0) B_BLIND.
Proof.
  intros s0 s1 k0 k1 e0 e1 p0 p1 c0 c1 pt bd t H H0 H1 He0 He.
  unfold to_raise. rewrite actor_flat0 by assumption. cbn [stake].
  replace (map stake (live (G2 s0 s1 k0 k1 e0 e1 p0 p1 c0 c1 pt bd t))) with [e0; e1]
    by (destruct s0, s1; try congruence; reflexivity).
  rewrite two_largest_2 by lia. lia.
Qed.
Lemma to_raise_flat1 : forall s0 s1 k0 k1 e0 e1 p0 p1 c0 c1 pt bd t,
  t mod 2 = 1 -> s0 <> Folding -> s1 <> Folding -> 0 <= e1 -> e1 <= e0 ->
  to_raise (G2 s0 s1 k0 k1 e0 e1 p0 p1 c0 c1 pt bd t) = (e0 - e1) + Z.max (e0 - e1) B_BLIND.
Proof.
  intros s0 s1 k0 k1 e0 e1 p0 p1 c0 c1 pt bd t H H0 H1 He0 He.
  unfold to_raise. rewrite actor_flat1 by assumption. cbn [stake].
  replace (map stake (live (G2 s0 s1 k0 k1 e0 e1 p0 p1 c0 c1 pt bd t))) with [e0; e1]
    by (destruct s0, s1; try congruence; reflexivity).
  rewrite two_largest_2 by lia. lia.
Qed.

Lemma sob_cases : forall bd, In (Z.of_N (hand_size bd)) [0; 3; 4; 5] ->
  (Z.of_N (hand_size bd) = 0 /\ sob bd = 0) \/ (Z.of_N (hand_size bd) = 3 /\ sob bd = 1) \/
  (Z.of_N (hand_size bd) = 4 /\ sob bd = 2) \/ (Z.of_N (hand_size bd) = 5 /\ sob bd = 3).
Proof.
  intros bd H. unfold sob. cbn [In] in H.
  destruct H as [H|[H|[H|[H|[]]]]]; rewrite <- H; cbn; auto 6.
Qed.
