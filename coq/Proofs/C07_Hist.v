(* Proofs/C07_Hist.v -- property C07, part 4: what the count list built by [bump] is:
   keys strictly increasing, and (k, c) is an entry iff k occurs c > 0 times among the inserted keys. *)
From Coq Require Import NArith List Bool Lia ZifyBool ZifyN ZifyNat Sorted.
From RP Require Import Base.Bits Model.Codec Model.Equity Spec.SpecEquity.
Import ListNotations.
Open Scope N_scope.

Arguments N.add : simpl never.

Definition ksorted (h : list (N * N)) : Prop := StronglySorted (fun a b => fst a < fst b) h.
Definition kpos (h : list (N * N)) : Prop := Forall (fun e => 0 < snd e) h.
Fixpoint get (k : N) (h : list (N * N)) : N :=
  match h with
  | [] => 0
  | (k', c) :: r => if k' =? k then c else get k r
  end.

Lemma bump_above : forall a k h, a < k -> Forall (fun e => a < fst e) h -> Forall (fun e => a < fst e) (bump k h).
Proof.
  intros a k h Hak. induction h as [|[k' c] r IH]; intros Hall.
  - cbn [bump]. constructor; [exact Hak | constructor].
  - inversion Hall as [|x l Hx Hr]; subst. cbn [fst] in Hx. cbn [bump].
    destruct (N.ltb_spec k k') as [H1 | H1]; [constructor; [exact Hak | exact Hall]|].
    destruct (N.eqb_spec k k') as [H2 | H2]; [constructor; [exact Hx | exact Hr]|].
    constructor; [exact Hx | apply IH; exact Hr].
Qed.

Lemma bump_sorted : forall k h, ksorted h -> ksorted (bump k h).
Proof.
  intros k h. unfold ksorted. induction h as [|[k' c] r IH]; intros Hs.
  - cbn [bump]. constructor; constructor.
  - inversion Hs as [|x l Hr Hall]; subst. cbn [bump].
    destruct (N.ltb_spec k k') as [H1 | H1].
    + constructor; [exact Hs|]. constructor; [exact H1|].
      eapply Forall_impl; [|exact Hall]. intros e He. cbn [fst] in *. lia.
    + destruct (N.eqb_spec k k') as [H2 | H2].
      * constructor; [exact Hr | exact Hall].
      * constructor; [apply IH; exact Hr|]. cbn [fst] in *. apply bump_above; [lia | exact Hall].
Qed.

Lemma bump_pos : forall k h, kpos h -> kpos (bump k h).
Proof.
  intros k h. unfold kpos. induction h as [|[k' c] r IH]; intros Hp.
  - cbn [bump]. constructor; [cbn [snd]; lia | constructor].
  - inversion Hp as [|x l Hx Hr]; subst. cbn [snd] in Hx. cbn [bump].
    destruct (k <? k'); [constructor; [cbn [snd]; lia | exact Hp]|].
    destruct (k =? k'); [constructor; [cbn [snd]; lia | exact Hr]|].
    constructor; [exact Hx | apply IH; exact Hr].
Qed.

Lemma get_above : forall k h, Forall (fun e => k < fst e) h -> get k h = 0.
Proof.
  intros k h. induction h as [|[k' c] r IH]; intros Hall; [reflexivity|].
  inversion Hall as [|x l Hx Hr]; subst. cbn [fst] in Hx. cbn [get].
  destruct (N.eqb_spec k' k) as [E | E]; [lia | apply IH; exact Hr].
Qed.

Lemma get_bump : forall k k' h, ksorted h -> get k' (bump k h) = get k' h + (if k' =? k then 1 else 0).
Proof.
  intros k k' h. unfold ksorted. induction h as [|[k0 c0] r IH]; intros Hs.
  - cbn [bump get]. rewrite (N.eqb_sym k k'). destruct (k' =? k); reflexivity.
  - inversion Hs as [|x l Hr Hall]; subst. cbn [bump].
    destruct (N.ltb_spec k k0) as [H1 | H1].
    + cbn [get]. destruct (N.eqb_spec k k') as [E | E].
      * subst k'. destruct (N.eqb_spec k0 k) as [E2 | E2]; [lia|]. rewrite N.eqb_refl.
        rewrite (get_above k r); [reflexivity|].
        eapply Forall_impl; [|exact Hall]. intros e He. cbn [fst] in *. lia.
      * destruct (N.eqb_spec k' k) as [E2 | E2]; [congruence|]. lia.
    + destruct (N.eqb_spec k k0) as [H2 | H2].
      * subst k0. cbn [get]. destruct (N.eqb_spec k k') as [E | E].
        -- subst k'. rewrite N.eqb_refl. reflexivity.
        -- destruct (N.eqb_spec k' k) as [E2 | E2]; [congruence|]. lia.
      * cbn [get]. destruct (N.eqb_spec k0 k') as [E | E].
        -- subst k'. destruct (N.eqb_spec k0 k) as [E2 | E2]; [congruence|]. lia.
        -- apply IH. exact Hr.
Qed.

Lemma in_get : forall h, ksorted h -> kpos h -> forall k c, In (k, c) h <-> (c = get k h /\ 0 < c).
Proof.
  intros h. unfold ksorted, kpos. induction h as [|[k0 c0] r IH]; intros Hs Hp k c.
  - cbn [In get]. split; [contradiction | lia].
  - inversion Hs as [|x l Hr Hall]; subst. inversion Hp as [|x l Hx Hpr]; subst. cbn [snd] in Hx.
    cbn [In get]. split.
    + intros [E | Hin].
      * injection E as -> ->. rewrite N.eqb_refl. split; [reflexivity | exact Hx].
      * rewrite Forall_forall in Hall. pose proof (Hall _ Hin) as Hlt. cbn [fst] in Hlt.
        destruct (N.eqb_spec k0 k) as [E | E]; [lia|]. apply (IH Hr Hpr). exact Hin.
    + intros [E Hc]. destruct (N.eqb_spec k0 k) as [E2 | E2].
      * left. subst. reflexivity.
      * right. apply (IH Hr Hpr). split; assumption.
Qed.

Lemma hist_of_snoc : forall ks k, hist_of (ks ++ [k]) = bump k (hist_of ks).
Proof. intros ks k. unfold hist_of. rewrite fold_left_app. reflexivity. Qed.

Lemma occurrences_snoc : forall k' ks k,
  occurrences k' (ks ++ [k]) = occurrences k' ks + (if k' =? k then 1 else 0).
Proof.
  intros k' ks k. unfold occurrences. rewrite filter_app, app_length. cbn [filter].
  destruct (k' =? k); cbn [length]; lia.
Qed.

Lemma hist_of_inv : forall ks,
  ksorted (hist_of ks) /\ kpos (hist_of ks) /\ forall k, get k (hist_of ks) = occurrences k ks.
Proof.
  intros ks. induction ks as [|k ks IH] using rev_ind.
  - split; [constructor|]. split; [constructor|]. intros k. reflexivity.
  - destruct IH as (Hs & Hp & Hg). rewrite hist_of_snoc. split; [apply bump_sorted; exact Hs|].
    split; [apply bump_pos; exact Hp|]. intros k'.
    rewrite (get_bump k k' _ Hs), Hg, occurrences_snoc. reflexivity.
Qed.

Theorem hist_of_spec : forall ks,
  StronglySorted (fun a b => fst a < fst b) (hist_of ks) /\
  (forall k c, In (k, c) (hist_of ks) <-> (c = occurrences k ks /\ 0 < c)).
Proof.
  intros ks. destruct (hist_of_inv ks) as (Hs & Hp & Hg). split; [exact Hs|].
  intros k c. rewrite (in_get _ Hs Hp k c), Hg. reflexivity.
Qed.
