(* Proofs/C07_Examples.v -- property C07: concrete observations satisfying the hypotheses of the
   theorems, with their counts and histograms (vm_compute). *)
From Coq Require Import NArith ZArith QArith List Bool.
From RP Require Import Base.Bits Gen.GenPerm Model.Codec Model.Evaluator Model.Iso Model.Equity.
From RP Require Import Spec.SpecCodec Spec.SpecIso Spec.SpecIsoWf Spec.SpecCombs Spec.SpecEquity.
From RP Require Import Proofs.C05_Examples.
Import ListNotations.
Open Scope N_scope.

(* the nut hand: As Ks | Qs Js Ts 2c 3d (standard deck), As Ks | Qs Js Ts 6c 7d (short deck) *)
Definition royal_std : obs := mkObs (hand [cd 12 3; cd 11 3]) (hand [cd 10 3; cd 9 3; cd 8 3; cd 0 0; cd 1 1]).
Definition royal_short : obs := mkObs (hand [cd 12 3; cd 11 3]) (hand [cd 10 3; cd 9 3; cd 8 3; cd 4 0; cd 5 1]).

Lemma royal_std_hyp : wf_obs_d Standard royal_std /\ hand_size (public royal_std) = 5.
Proof. split; [wf_by_compute | vm_compute; reflexivity]. Qed.
Lemma royal_short_hyp : wf_obs_d Short royal_short /\ hand_size (public royal_short) = 5.
Proof. split; [wf_by_compute | vm_compute; reflexivity]. Qed.

(* the royal flush beats every one of the 990 (406) holdings *)
Lemma royal_counts :
  equity_counts Standard royal_std = Some (990, 990) /\ equity_counts Short royal_short = Some (406, 406).
Proof. split; vm_compute; reflexivity. Qed.

(* the river observations of C05: 2s Ks | 2d 5h 8c Tc Th wins 600, loses 384, ties 6;
   As Ks | 6c 7d 8h Ts Jc (short deck) wins 24, loses 373, ties 9 *)
Lemma ex_river_hyp :
  (wf_obs_d Standard ex_std /\ hand_size (public ex_std) = 5) /\
  (wf_obs_d Short ex_short /\ hand_size (public ex_short) = 5).
Proof. split; (split; [wf_by_compute | vm_compute; reflexivity]). Qed.
Lemma ex_river_counts :
  equity_counts Standard ex_std = Some (600, 984) /\ equity_counts Short ex_short = Some (24, 397) /\
  length (holdings Standard ex_std) = 990%nat /\ length (holdings Short ex_short) = 406%nat.
Proof. split; [|split; [|split]]; vm_compute; reflexivity. Qed.
Lemma ex_river_equity :
  (equity_Q (600%N, 984%N) == 25 # 41)%Q /\ (equity_Q (990%N, 990%N) == 1)%Q /\ (equity_Q (0%N, 0%N) == 1 # 2)%Q.
Proof. split; [|split]; vm_compute; reflexivity. Qed.

(* a relabeling that really moves the observation, and the counts of the moved observation *)
Lemma ex_relabel_moves :
  In ex_perm EXHAUST /\ relabel_obs ex_perm ex_std <> ex_std /\
  equity_counts Standard (relabel_obs ex_perm ex_std) = Some (600, 984).
Proof.
  split; [exact ex_perm_in|]. split; [vm_compute; discriminate | vm_compute; reflexivity].
Qed.

(* turn observations: Ac 6d | Jc Ts 7s 7h (short deck), 2s Ks | 2d 5h 8c Tc (standard deck) *)
Definition ex_turn_std : obs := mkObs (hand [cd 0 3; cd 11 3]) (hand [cd 0 1; cd 3 2; cd 6 0; cd 8 0]).
Definition ex_bucket (wn : N * N) : N := (10 * fst wn) / (snd wn + 1).
Lemma ex_turn_hyp :
  (wf_obs_d Short ex_turn_short /\ hand_size (public ex_turn_short) = 4) /\
  (wf_obs_d Standard ex_turn_std /\ hand_size (public ex_turn_std) = 4).
Proof. split; (split; [wf_by_compute | vm_compute; reflexivity]). Qed.
Lemma ex_turn_histogram_short :
  turn_histogram ex_bucket Short ex_turn_short = Some [(0, 5); (1, 11); (3, 11); (6, 3)].
Proof. vm_cast_no_check (eq_refl (Some [(0, 5); (1, 11); (3, 11); (6, 3)])). Qed.
Lemma ex_turn_histogram_std :
  turn_histogram ex_bucket Standard ex_turn_std = Some [(3, 4); (4, 28); (5, 1); (6, 8); (9, 5)].
Proof. vm_cast_no_check (eq_refl (Some [(3, 4); (4, 28); (5, 1); (6, 8); (9, 5)])). Qed.
Lemma ex_turn_histograms :
  turn_histogram ex_bucket Short ex_turn_short = Some [(0, 5); (1, 11); (3, 11); (6, 3)] /\
  turn_histogram ex_bucket Standard ex_turn_std = Some [(3, 4); (4, 28); (5, 1); (6, 8); (9, 5)] /\
  relabel_obs ex_perm ex_turn_short <> ex_turn_short.
Proof.
  split; [exact ex_turn_histogram_short|]. split; [exact ex_turn_histogram_std|].
  vm_compute. discriminate.
Qed.
