(* Proofs/C15_Finite.v -- the finite-domain parts of C15 (card <-> u32, edge <-> u8/u64,
   abstraction <-> u64/i64, pair keys), by vm_compute reflection with proved-complete enumerations. *)
From Coq Require Import NArith ZArith List Bool Lia ZifyBool ZifyN ZifyNat Sorted Permutation Orders Mergesort.
From RP Require Import Base.Bits Gen.GenLib Gen.GenCards Gen.GenAbstract Gen.GenStreet Model.Codec.
From RP Require Import Spec.SpecCodec Proofs.BitsLemmas.
Import ListNotations.
Open Scope N_scope.

(* ---------- the enumeration nseq ---------- *)

Lemma nseq_In : forall n i x, In x (nseq n i) <-> (i <= x /\ x < i + N.of_nat n).
Proof.
  induction n as [|n IH]; intros i x.
  - cbn [nseq In]. lia.
  - cbn [nseq In]. rewrite IH. lia.
Qed.

Lemma nseq_In_N : forall n x, x < n -> In x (nseq (N.to_nat n) 0).
Proof. intros n x H. apply nseq_In. rewrite N2Nat.id. lia. Qed.

Lemma nseq_length : forall n i, length (nseq n i) = n.
Proof. induction n as [|n IH]; intros i; cbn [nseq length]; [reflexivity | rewrite IH; reflexivity]. Qed.

(* ---------- 1. Card <-> u32 ---------- *)

Definition card_u32_check (c : N) : bool :=
  match card_to_u32 c with
  | Some u => match card_of_u32 u with Some c' => c' =? c | None => false end
  | None => false
  end.

Lemma card_u32_all : forallb card_u32_check (nseq (N.to_nat 52) 0) = true.
Proof. vm_cast_no_check (eq_refl true). Qed.

Lemma card_u32 : forall c, c < 52 -> exists u, card_to_u32 c = Some u /\ card_of_u32 u = Some c.
Proof.
  intros c Hc.
  pose proof (proj1 (forallb_forall _ _) card_u32_all c (nseq_In_N 52 c Hc)) as H.
  unfold card_u32_check in H.
  destruct (card_to_u32 c) as [u|]; [|discriminate].
  exists u. split; [reflexivity|].
  destruct (card_of_u32 u) as [c'|]; [|discriminate].
  apply N.eqb_eq in H. subst c'. reflexivity.
Qed.

(* ---------- 5. Edge <-> u8 / u64 ---------- *)

Lemma edge_u8 : forall e, In e all_edges ->
  exists c, edge_to_u8 e = Some c /\ 1 <= c <= 15 /\ edge_of_u8 c = Some e.
Proof.
  intros e He. cbv [all_edges GRID PREF_RAISES map app fst snd] in He.
  repeat (destruct He as [He | He];
          [subst e; eexists; split; [cbv; reflexivity | split; [lia | cbv; reflexivity]]|]).
  destruct He.
Qed.

Lemma edge_u64 : forall e, In e all_edges -> edge_of_u64 (edge_to_u64 e) = Some e.
Proof.
  intros e He. cbv [all_edges GRID PREF_RAISES map app fst snd] in He.
  repeat (destruct He as [He | He]; [subst e; vm_compute; reflexivity|]).
  destruct He.
Qed.

Lemma edge_u8_inj : forall e1 e2, In e1 all_edges -> In e2 all_edges ->
  edge_to_u8 e1 = edge_to_u8 e2 -> e1 = e2.
Proof.
  intros e1 e2 H1 H2 E.
  destruct (edge_u8 e1 H1) as (c1 & A1 & _ & B1).
  destruct (edge_u8 e2 H2) as (c2 & A2 & _ & B2).
  rewrite A1, A2 in E. injection E as E. subst c2. rewrite B1 in B2. injection B2 as B2. exact B2.
Qed.

Lemma edge_u64_inj : forall e1 e2, In e1 all_edges -> In e2 all_edges ->
  edge_to_u64 e1 = edge_to_u64 e2 -> e1 = e2.
Proof.
  intros e1 e2 H1 H2 E.
  pose proof (edge_u64 e1 H1) as A1. pose proof (edge_u64 e2 H2) as A2.
  rewrite E, A2 in A1. injection A1 as A1. symmetry. exact A1.
Qed.

(* ---------- 7. Abstraction ---------- *)

Definition variant_eqb (a b : abs_variant) : bool :=
  match a, b with
  | Percent, Percent | Learned, Learned | Preflop, Preflop => true
  | _, _ => false
  end.
Definition abs_eqb (a b : abstraction) : bool :=
  variant_eqb (avariant a) (avariant b) && (abits a =? abits b).

Lemma abs_eqb_eq : forall a b, abs_eqb a b = true -> a = b.
Proof.
  intros [va ba] [vb bb] H. unfold abs_eqb in H. cbn [avariant abits] in H.
  apply andb_true_iff in H. destruct H as (Hv & Hb). apply N.eqb_eq in Hb. subst bb.
  destruct va, vb; try discriminate; reflexivity.
Qed.

Definition abs_check (s i : N) : bool :=
  match abs_make s i with
  | Some a =>
      match abs_of_u64 (abs_to_u64 a), abs_of_i64 (abs_to_i64 a), abs_street a with
      | Some a1, Some a2, Some s' => abs_eqb a1 a && abs_eqb a2 a && (s' =? s) && (abs_index a =? i)
      | _, _, _ => false
      end
  | None => false
  end.

Lemma abs_all_check :
  forallb (fun s => forallb (abs_check s) (nseq (N.to_nat 4096) 0)) (nseq (N.to_nat 4) 0) = true.
Proof. vm_cast_no_check (eq_refl true). Qed.

Lemma abs_roundtrip : forall s i, s <= 3 -> i < 4096 ->
  exists a, abs_make s i = Some a /\ abs_of_u64 (abs_to_u64 a) = Some a /\
            abs_of_i64 (abs_to_i64 a) = Some a /\ abs_street a = Some s /\ abs_index a = i.
Proof.
  intros s i Hs Hi.
  assert (Hs' : s < 4) by lia.
  pose proof (proj1 (forallb_forall _ _) abs_all_check s (nseq_In_N 4 s Hs')) as H1.
  cbv beta in H1.
  pose proof (proj1 (forallb_forall _ _) H1 i (nseq_In_N 4096 i Hi)) as H.
  unfold abs_check in H.
  destruct (abs_make s i) as [a|]; [|discriminate].
  exists a. split; [reflexivity|].
  destruct (abs_of_u64 (abs_to_u64 a)) as [a1|]; [|discriminate].
  destruct (abs_of_i64 (abs_to_i64 a)) as [a2|]; [|discriminate].
  destruct (abs_street a) as [s'|]; [|discriminate].
  apply andb_true_iff in H. destruct H as [H Xi].
  apply andb_true_iff in H. destruct H as [H Xs].
  apply andb_true_iff in H. destruct H as [X1 X2].
  apply N.eqb_eq in Xi. apply N.eqb_eq in Xs.
  apply abs_eqb_eq in X1. apply abs_eqb_eq in X2.
  subst a1 a2 s'. repeat split; try reflexivity. exact Xi.
Qed.

Lemma abs_make_inj : forall s i s' i', s <= 3 -> s' <= 3 -> i < 4096 -> i' < 4096 ->
  abs_make s i = abs_make s' i' -> s = s' /\ i = i'.
Proof.
  intros s i s' i' Hs Hs' Hi Hi' E.
  destruct (abs_roundtrip s i Hs Hi) as (a & A & _ & _ & As & Ai).
  destruct (abs_roundtrip s' i' Hs' Hi') as (a' & A' & _ & _ & As' & Ai').
  rewrite A, A' in E. injection E as E. subst a'.
  rewrite As in As'. injection As' as As'. split; [exact As' | congruence].
Qed.

(* ---------- 8. Pair keys ---------- *)

Module NLeb <: TotalLeBool.
  Definition t := N.
  Definition leb := N.leb.
  Theorem leb_total : forall a1 a2, leb a1 a2 = true \/ leb a2 a1 = true.
  Proof. intros a1 a2. unfold leb. destruct (N.leb_spec a1 a2); [left; reflexivity | right; apply N.leb_le; lia]. Qed.
End NLeb.
Module NSort := Sort NLeb.

Lemma pair_keys_sorted_check : strict_incb (NSort.sort learned_pair_keys) = true.
Proof. vm_cast_no_check (eq_refl true). Qed.

Lemma pair_keys_nonzero_check : forallb (fun x => negb (x =? 0)) learned_pair_keys = true.
Proof. vm_cast_no_check (eq_refl true). Qed.

Lemma pair_keys_length_check : N.of_nat (length learned_pair_keys) = 23474.
Proof. vm_cast_no_check (eq_refl 23474). Qed.

Lemma pair_keys_NoDup : NoDup learned_pair_keys.
Proof.
  apply (Permutation_NoDup (l := NSort.sort learned_pair_keys)).
  - apply Permutation_sym. apply NSort.Permuted_sort.
  - apply StronglySorted_lt_NoDup. apply strict_incb_sorted. exact pair_keys_sorted_check.
Qed.

Lemma pair_keys_no_zero : ~ In 0 learned_pair_keys.
Proof.
  intros H.
  pose proof (proj1 (forallb_forall _ _) pair_keys_nonzero_check 0 H) as H0.
  discriminate H0.
Qed.

Lemma pair_keys : NoDup learned_pair_keys /\ ~ In 0 learned_pair_keys /\
                  N.of_nat (length learned_pair_keys) = 23474.
Proof.
  split; [exact pair_keys_NoDup|]. split; [exact pair_keys_no_zero | exact pair_keys_length_check].
Qed.

Lemma pair_keys_nat : NoDup learned_pair_keys /\ ~ In 0 learned_pair_keys /\
                      length learned_pair_keys = N.to_nat 23474.
Proof.
  split; [exact pair_keys_NoDup|]. split; [exact pair_keys_no_zero|].
  rewrite <- pair_keys_length_check. symmetry. apply Nat2N.id.
Qed.
