(* Proofs/C07_BucketF32_s08.v -- shard: rows 809 <= sum < 858, every 0 <= won <= sum, by evaluation (check_pair). *)
From Coq Require Import ZArith.
From RP Require Import Model.BucketF32 Proofs.C07_BucketF32_chk.
Open Scope Z_scope.
Lemma block : check_block 809 858 = true.
Proof. vm_compute. reflexivity. Qed.
Lemma rows : forall sum won, 809 <= sum < 858 -> 0 <= won <= sum -> pair_ok won sum.
Proof. exact (check_block_ok 809 858 ltac:(discriminate) block). Qed.
