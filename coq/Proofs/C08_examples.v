(* Proofs/C08_examples.v -- concrete instances: the hypotheses of the C08 theorems are satisfiable, and the
   values the theorems speak about on small trees (by vm_compute on exact rationals). *)
From Coq Require Import NArith QArith List Bool Lia Lqa.
From RP Require Import Gen.GenLib Gen.GenFixes Model.Cfr Spec.SpecCfr Proofs.C08_base Proofs.C08_flags.
Import ListNotations.
Open Scope Q_scope.

Definition keyed_red (l : list (N * N * Q)) : list (N * N * Q) := map (fun x => (fst x, Qred (snd x))) l.

(* the provisional instance *)
Lemma estimator_instance :
  map (fun x => Qred (snd x)) (immediate_regrets_Q ex_tree) = map (fun x => Qred (snd x)) (regret_estimator_Q ex_tree)
  /\ map (fun x => Qred (snd x)) (regret_estimator_Q ex_tree) = [- (3#2); 1#2].
Proof. vm_compute. split; reflexivity. Qed.

Lemma ex_tree_shape : es_shape ex_tree /\ sigma_normalised ex_tree.
Proof. unfold ex_tree. shape_tac. Qed.

(* the 3-level tree: chance / opponent / two nested traverser nodes / opponent *)
Lemma ex_tree3_shape : es_shape ex_tree3 /\ sigma_normalised ex_tree3.
Proof. unfold ex_tree3. shape_tac. Qed.

Lemma ex_tree3_values :
  map (fun x => (fst x, Qred (snd x))) (immediate_regrets_Q ex_tree3)
  = [(2%N, 2%N, - (7#4)); (2%N, 3%N, 7#12); (4%N, 2%N, - (16#3)); (4%N, 4%N, 8#3)]
  /\ map (fun x => (fst x, Qred (snd x))) (regret_estimator_Q ex_tree3)
  = [(2%N, 2%N, - (7#4)); (2%N, 3%N, 7#12); (4%N, 2%N, - (16#3)); (4%N, 4%N, 8#3)]
  /\ map (fun x => (fst x, Qred (snd x))) (regret_estimator_Q (shift_payoffs (5#7) ex_tree3))
  = [(2%N, 2%N, - (7#4)); (2%N, 3%N, 7#12); (4%N, 2%N, - (16#3)); (4%N, 4%N, 8#3)]
  /\ Qred (mass ex_tree3) = 1.
Proof. vm_compute. repeat split; reflexivity. Qed.

(* an indifferent traverser node: both actions are worth 2 *)
Lemma ex_indifferent_hyps :
  ex_indifferent <> [] /\ sigma_sum ex_indifferent == 1 /\
  Forall (fun est => utilde_Q (snd est) == 2) ex_indifferent.
Proof.
  split; [discriminate|]. split; [vm_compute; reflexivity|].
  unfold ex_indifferent. repeat constructor.
Qed.

Lemma clamp_values :
  regret_min_Q == - (300000 # 1) /\ regret_min_Q <= 0 /\
  clamp_regret_Q (- (400000 # 1)) == - (300000 # 1) /\ clamp_regret_Q (7 # 2) == 7 # 2.
Proof. vm_compute. repeat split; intros H; discriminate H. Qed.
