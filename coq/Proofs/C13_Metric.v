(* Proofs/C13_Metric.v -- Layer::metric / Metric::from: shape of the bucket metric, its entries,
   and distinctness of its keys (from C15_pair_keys). *)
From Coq Require Import Arith NArith List Bool Lia Permutation.
From RP Require Import Base.Bits Model.Codec Model.Kmeans Spec.SpecKmeans.
From RP Require Import Proofs.C15_Finite Proofs.C13_Lookup.
Import ListNotations.

(* ---------- the triangular enumeration ---------- *)

Fixpoint tri_num (k : nat) : nat := match k with O => O | S k' => (tri_num k' + k')%nat end.

Lemma tri_num_closed : forall k, tri_num k = (k * (k - 1) / 2)%nat.
Proof.
  induction k as [|k IH].
  - reflexivity.
  - cbn [tri_num]. rewrite IH.
    replace (S k * (S k - 1))%nat with (k * (k - 1) + k * 2)%nat by (destruct k; cbn [Nat.sub]; lia).
    rewrite Nat.div_add by lia. reflexivity.
Qed.

Lemma tri_index_num : forall i j, tri_index i j = (tri_num i + j)%nat.
Proof. intros i j. unfold tri_index. rewrite tri_num_closed. reflexivity. Qed.

Lemma tri_num_mono : forall i k, (i <= k)%nat -> (tri_num i <= tri_num k)%nat.
Proof.
  intros i k H. induction H as [|k H IH]; [lia|]. cbn [tri_num]. lia.
Qed.

Lemma tri_S : forall k, tri (S k) = tri k ++ map (fun j => (k, j)) (seq 0 k).
Proof.
  intros k. unfold tri. rewrite seq_S, flat_map_app. cbn [plus flat_map]. rewrite app_nil_r. reflexivity.
Qed.

Lemma tri_length : forall k, length (tri k) = tri_num k.
Proof.
  induction k as [|k IH]; [reflexivity|].
  rewrite tri_S, app_length, map_length, seq_length, IH. reflexivity.
Qed.

Lemma tri_nth : forall k i j, (j < i)%nat -> (i < k)%nat ->
  nth_error (tri k) (tri_num i + j) = Some (i, j).
Proof.
  induction k as [|k IH]; intros i j Hj Hi; [lia|].
  rewrite tri_S. destruct (Nat.eq_dec i k) as [E | E].
  - subst i. rewrite nth_error_app2 by (rewrite tri_length; lia).
    rewrite tri_length. replace (tri_num k + j - tri_num k)%nat with j by lia.
    apply (map_nth_error (fun j0 => (k, j0)) j (seq 0 k)).
    rewrite nth_error_nth' with (d := O) by (rewrite seq_length; exact Hj).
    rewrite seq_nth by exact Hj. reflexivity.
  - rewrite nth_error_app1.
    + apply IH; lia.
    + rewrite tri_length. pose proof (tri_num_mono (S i) k ltac:(lia)) as Hm.
      cbn [tri_num] in Hm. lia.
Qed.

Lemma tri_In : forall k i j, In (i, j) (tri k) <-> ((j < i)%nat /\ (i < k)%nat).
Proof.
  intros k i j. unfold tri. rewrite in_flat_map. split.
  - intros (i' & Hi' & Hin). apply in_map_iff in Hin. destruct Hin as (j' & Hj' & Hin).
    injection Hj' as E1 E2. subst i' j'. apply in_seq in Hi'. apply in_seq in Hin. lia.
  - intros [Hj Hi]. exists i. split; [apply in_seq; lia|].
    apply in_map_iff. exists j. split; [reflexivity | apply in_seq; lia].
Qed.

Lemma tri_prefix : forall k K, (k <= K)%nat -> exists rest, tri K = tri k ++ rest.
Proof.
  intros k K H. induction H as [|K H IH].
  - exists []. rewrite app_nil_r. reflexivity.
  - destruct IH as [rest Hr]. exists (rest ++ map (fun j => (K, j)) (seq 0 K)).
    rewrite tri_S, Hr, app_assoc. reflexivity.
Qed.

(* ---------- list helpers ---------- *)

Lemma map_flat_map : forall (A B C : Type) (f : B -> C) (g : A -> list B) l,
  map f (flat_map g l) = flat_map (fun x => map f (g x)) l.
Proof.
  intros A B C f g. induction l as [|x l IH]; [reflexivity|].
  cbn [flat_map]. rewrite map_app, IH. reflexivity.
Qed.

Lemma flat_map_ext_in : forall (A B : Type) (f g : A -> list B) l,
  (forall x, In x l -> f x = g x) -> flat_map f l = flat_map g l.
Proof.
  intros A B f g. induction l as [|x l IH]; intros H; [reflexivity|].
  cbn [flat_map]. rewrite (H x (or_introl eq_refl)), IH; [reflexivity|].
  intros y Hy. apply H. right. exact Hy.
Qed.

Lemma flat_map_nil : forall (A B : Type) (l : list A), flat_map (fun _ => @nil B) l = [].
Proof. intros A B. induction l as [|x l IH]; [reflexivity | exact IH]. Qed.

Lemma flat_map_single : forall (A B : Type) (g : A -> B) (l : list A),
  flat_map (fun j => [g j]) l = map g l.
Proof.
  intros A B g. induction l as [|x l IH]; [reflexivity|].
  cbn [flat_map map app]. rewrite IH. reflexivity.
Qed.

Lemma flat_map_below : forall (B : Type) (g : nat -> B) i k, (i <= k)%nat ->
  flat_map (fun j => if Nat.ltb j i then [g j] else []) (seq 0 k) = map g (seq 0 i).
Proof.
  intros B g i k Hik.
  replace k with (i + (k - i))%nat by lia. rewrite seq_app, flat_map_app. cbn [plus].
  rewrite (flat_map_ext_in _ _ _ (fun j => [g j]) (seq 0 i)).
  - rewrite (flat_map_ext_in _ _ _ (fun _ => []) (seq i (k - i))).
    + rewrite flat_map_nil, app_nil_r. apply flat_map_single.
    + intros j Hj. apply in_seq in Hj.
      assert (E : Nat.ltb j i = false) by (apply Nat.ltb_ge; lia). rewrite E. reflexivity.
  - intros j Hj. apply in_seq in Hj.
    assert (E : Nat.ltb j i = true) by (apply Nat.ltb_lt; lia). rewrite E. reflexivity.
Qed.

Lemma fold_left_map : forall (A B C : Type) (f : A -> C -> A) (h : B -> C) l z,
  fold_left f (map h l) z = fold_left (fun a x => f a (h x)) l z.
Proof.
  intros A B C f h. induction l as [|x l IH]; intros z; [reflexivity|].
  cbn [map fold_left]. apply IH.
Qed.

(* ---------- Layer::metric ---------- *)

Section Metric.
Variable F : Type.
Variables (fadd fdiv : F -> F -> F) (fle : F -> F -> bool) (two fminpos : F).
Variable street : N.
Variable dist : nat -> nat -> F.

Definition mkey (ij : nat * nat) : N :=
  pair_key (bucket_code street (fst ij)) (bucket_code street (snd ij)).
Definition msym (ij : nat * nat) : F := sym F fadd fdiv two dist (fst ij) (snd ij).

Definition entry (ij : nat * nat) : option (N * F) :=
  match abs_make street (N.of_nat (fst ij)), abs_make street (N.of_nat (snd ij)) with
  | Some a, Some b => Some (pair_key (abits a) (abits b), msym ij)
  | _, _ => None
  end.

Lemma entry_some : forall ij y, entry ij = Some y -> y = (mkey ij, msym ij).
Proof.
  intros [i j] y H. unfold entry in H. cbn [fst snd] in H.
  unfold mkey, bucket_code. cbn [fst snd].
  destruct (abs_make street (N.of_nat i)) as [a|]; [|discriminate H].
  destruct (abs_make street (N.of_nat j)) as [b|]; [|discriminate H].
  injection H as H. subst y. reflexivity.
Qed.

Lemma entries_eq : forall k,
  flat_map (fun i => flat_map (fun j =>
      if Nat.ltb j i then
        match abs_make street (N.of_nat i), abs_make street (N.of_nat j) with
        | Some a, Some b => [Some (pair_key (abits a) (abits b), fdiv (fadd (dist i j) (dist j i)) two)]
        | _, _ => [None] end
      else []) (seq 0 k)) (seq 0 k)
  = map entry (tri k).
Proof.
  intros k. unfold tri. rewrite map_flat_map. apply flat_map_ext_in. intros i Hi. apply in_seq in Hi.
  rewrite map_map.
  rewrite <- (flat_map_below _ (fun j => entry (i, j)) i k) by lia.
  apply flat_map_ext_in. intros j _.
  destruct (Nat.ltb j i); [|reflexivity].
  unfold entry, msym, sym. cbn [fst snd].
  destruct (abs_make street (N.of_nat i)); [|reflexivity].
  destruct (abs_make street (N.of_nat j)); reflexivity.
Qed.

Lemma metric_step_eq : forall k,
  metric_step F fadd fdiv fle two fminpos street dist k =
  match opt_map_all (fun x => x) (map entry (tri k)) with
  | Some es => let mx := fold_left (fun a e => fmax F fle a (snd e)) es fminpos in
               Some (map (fun e => (fst e, fdiv (snd e) mx)) es)
  | None => None
  end.
Proof. intros k. unfold metric_step. rewrite entries_eq. reflexivity. Qed.

(* the complete functional description of a successful result *)
Theorem metric_entries : forall k m,
  metric_step F fadd fdiv fle two fminpos street dist k = Some m ->
  m = map (fun ij => (mkey ij, fdiv (msym ij) (metric_max F fadd fdiv fle two fminpos dist k))) (tri k).
Proof.
  intros k m H. rewrite metric_step_eq in H.
  destruct (opt_map_all (fun x => x) (map entry (tri k))) as [es|] eqn:Ees; [|discriminate H].
  pose proof (opt_map_all_map _ _ entry (fun ij => (mkey ij, msym ij)) (tri k) es Ees entry_some) as Hes.
  cbv zeta in H. injection H as H. subst m. subst es.
  rewrite fold_left_map, map_map. cbn [fst snd]. reflexivity.
Qed.

Theorem metric_shape : forall k m,
  metric_step F fadd fdiv fle two fminpos street dist k = Some m ->
  length m = (k * (k - 1) / 2)%nat /\
  (forall i j, (j < i)%nat -> (i < k)%nat ->
     nth_error m (tri_index i j) =
     Some (pair_key (bucket_code street i) (bucket_code street j),
           fdiv (sym F fadd fdiv two dist i j) (metric_max F fadd fdiv fle two fminpos dist k))) /\
  (forall e, In e m -> exists i j, (j < i)%nat /\ (i < k)%nat /\
     e = (pair_key (bucket_code street i) (bucket_code street j),
          fdiv (sym F fadd fdiv two dist i j) (metric_max F fadd fdiv fle two fminpos dist k))).
Proof.
  intros k m H. rewrite (metric_entries k m H). split; [|split].
  - rewrite map_length, tri_length. apply tri_num_closed.
  - intros i j Hj Hi. rewrite tri_index_num.
    rewrite (map_nth_error _ _ _ (tri_nth k i j Hj Hi)). reflexivity.
  - intros e He. apply in_map_iff in He. destruct He as ([i j] & He & Hin).
    apply tri_In in Hin. exists i, j. split; [tauto|]. split; [tauto|]. symmetry. exact He.
Qed.

Theorem metric_total : forall k, (street <= 3)%N ->
  exists m, metric_step F fadd fdiv fle two fminpos street dist k = Some m.
Proof.
  intros k Hs. rewrite metric_step_eq.
  destruct (opt_map_all_total _ _ (fun x : option (N * F) => x) (map entry (tri k))) as [es Hes].
  - intros x Hx. apply in_map_iff in Hx. destruct Hx as ([i j] & Hx & _). subst x.
    unfold entry. cbn [fst snd].
    destruct (abs_make_some street (N.of_nat i) Hs) as [a Ha]. rewrite Ha.
    destruct (abs_make_some street (N.of_nat j) Hs) as [b Hb]. rewrite Hb.
    eexists. reflexivity.
  - rewrite Hes. eexists. reflexivity.
Qed.

Lemma metric_keys : forall k m,
  metric_step F fadd fdiv fle two fminpos street dist k = Some m -> map fst m = map mkey (tri k).
Proof.
  intros k m H. rewrite (metric_entries k m H), map_map. reflexivity.
Qed.

End Metric.

Theorem pair_key_sym : forall a b, pair_key a b = pair_key b a.
Proof. intros a b. unfold pair_key. apply N.lxor_comm. Qed.

(* ---------- the keys ---------- *)

Definition codes (street : N) (k : nat) : list N := map (bucket_code street) (seq 0 k).

Lemma codes_S : forall street k, codes street (S k) = codes street k ++ [bucket_code street k].
Proof. intros street k. unfold codes. rewrite seq_S, map_app. reflexivity. Qed.

Lemma keys_S : forall street k,
  map (mkey street) (tri (S k)) =
  map (mkey street) (tri k) ++ map (pair_key (bucket_code street k)) (codes street k).
Proof.
  intros street k. rewrite tri_S, map_app. f_equal. unfold codes. rewrite !map_map. reflexivity.
Qed.

Lemma pairs_of_snoc : forall l x,
  Permutation (pairs_of (l ++ [x])) (pairs_of l ++ map (fun y => pair_key y x) l).
Proof.
  induction l as [|y l IH]; intros x.
  - cbn. constructor.
  - cbn [app pairs_of map]. rewrite map_app. cbn [map].
    rewrite <- !app_assoc. apply Permutation_app_head. cbn [app].
    apply Permutation_sym. eapply Permutation_trans.
    + apply Permutation_sym. apply Permutation_middle.
    + constructor. apply Permutation_sym. apply IH.
Qed.

Lemma keys_perm : forall street k,
  Permutation (map (mkey street) (tri k)) (pairs_of (codes street k)).
Proof.
  intros street. induction k as [|k IH].
  - cbn. constructor.
  - rewrite keys_S, codes_S. apply Permutation_sym.
    eapply Permutation_trans; [apply pairs_of_snoc|].
    apply Permutation_app; [apply Permutation_sym; exact IH|].
    assert (E : map (fun y => pair_key y (bucket_code street k)) (codes street k)
                = map (pair_key (bucket_code street k)) (codes street k)).
    { apply map_ext. intros y. apply pair_key_sym. }
    rewrite E. apply Permutation_refl.
Qed.

Lemma nseq_seq : forall n a, nseq n (N.of_nat a) = map N.of_nat (seq a n).
Proof.
  induction n as [|n IH]; intros a; [reflexivity|].
  cbn [nseq seq map]. f_equal.
  replace (N.of_nat a + 1)%N with (N.of_nat (S a)) by lia. apply IH.
Qed.

Lemma abs_all_codes : forall street, (street <= 3)%N ->
  abs_all street = codes street (N.to_nat (street_k street)).
Proof.
  intros street Hs. unfold abs_all, codes.
  change 0%N with (N.of_nat 0). rewrite nseq_seq.
  generalize (seq 0 (N.to_nat (street_k street))). intros l.
  induction l as [|j l IH]; [reflexivity|].
  cbn [map flat_map]. rewrite IH. unfold bucket_code at 2.
  destruct (abs_make_some street (N.of_nat j) Hs) as [a Ha]. rewrite Ha. reflexivity.
Qed.

Lemma nodup_app_l : forall (A : Type) (l l' : list A), NoDup (l ++ l') -> NoDup l.
Proof.
  intros A. induction l as [|x l IH]; intros l' H; [constructor|].
  cbn [app] in H. inversion H as [|y r Hx Hr]; subst. constructor.
  - intros Hin. apply Hx. apply in_or_app. left. exact Hin.
  - exact (IH l' Hr).
Qed.

Lemma nodup_app_r : forall (A : Type) (l l' : list A), NoDup (l ++ l') -> NoDup l'.
Proof.
  intros A. induction l as [|x l IH]; intros l' H; [exact H|].
  cbn [app] in H. inversion H as [|y r Hx Hr]; subst. exact (IH l' Hr).
Qed.

Lemma learned_keys_street : forall street, (1 <= street <= 3)%N ->
  NoDup (pairs_of (abs_all street)) /\ ~ In 0%N (pairs_of (abs_all street)).
Proof.
  intros street Hs.
  destruct pair_keys as (Hnd & Hnz & _). unfold learned_pair_keys in Hnd, Hnz.
  assert (Hc : street = 1%N \/ street = 2%N \/ street = 3%N) by lia.
  destruct Hc as [H | [H | H]]; subst street.
  - split.
    + apply nodup_app_l in Hnd. exact Hnd.
    + intros H. apply Hnz. apply in_or_app. left. exact H.
  - split.
    + apply nodup_app_r in Hnd. apply nodup_app_l in Hnd. exact Hnd.
    + intros H. apply Hnz. apply in_or_app. right. apply in_or_app. left. exact H.
  - split.
    + apply nodup_app_r in Hnd. apply nodup_app_r in Hnd. exact Hnd.
    + intros H. apply Hnz. apply in_or_app. right. apply in_or_app. right. exact H.
Qed.

(* the keys for k buckets are a prefix of the keys for all the buckets of the street, which are a
   permutation of the pair keys of the street *)
Lemma keys_prefix_perm : forall street k, (street <= 3)%N -> (N.of_nat k <= street_k street)%N ->
  exists rest, Permutation (map (mkey street) (tri k) ++ rest) (pairs_of (abs_all street)).
Proof.
  intros street k Hs Hk.
  destruct (tri_prefix k (N.to_nat (street_k street)) ltac:(lia)) as [rest Hr].
  exists (map (mkey street) rest).
  rewrite (abs_all_codes street Hs). rewrite <- map_app, <- Hr. apply keys_perm.
Qed.

Section Keys.
Variable F : Type.
Variables (fadd fdiv : F -> F -> F) (fle : F -> F -> bool) (two fminpos : F).

Theorem metric_keys_sub : forall street dist k m,
  (1 <= street <= 3)%N -> (N.of_nat k <= street_k street)%N ->
  metric_step F fadd fdiv fle two fminpos street dist k = Some m ->
  exists rest, Permutation (map fst m ++ rest) (pairs_of (abs_all street)).
Proof.
  intros street dist k m Hs Hk H.
  rewrite (metric_keys F fadd fdiv fle two fminpos street dist k m H).
  apply keys_prefix_perm; [lia | exact Hk].
Qed.

Theorem metric_keys_all : forall street dist m,
  (1 <= street <= 3)%N ->
  metric_step F fadd fdiv fle two fminpos street dist (N.to_nat (street_k street)) = Some m ->
  Permutation (map fst m) (pairs_of (abs_all street)).
Proof.
  intros street dist m Hs H.
  rewrite (metric_keys F fadd fdiv fle two fminpos street dist _ m H).
  rewrite (abs_all_codes street ltac:(lia)). apply keys_perm.
Qed.

Theorem metric_keys_distinct : forall street dist k m,
  (1 <= street <= 3)%N -> (N.of_nat k <= street_k street)%N ->
  metric_step F fadd fdiv fle two fminpos street dist k = Some m ->
  NoDup (map fst m) /\ ~ In 0%N (map fst m).
Proof.
  intros street dist k m Hs Hk H.
  destruct (metric_keys_sub street dist k m Hs Hk H) as [rest Hp].
  destruct (learned_keys_street street Hs) as [Hnd Hnz].
  apply Permutation_sym in Hp.
  pose proof (Permutation_NoDup Hp Hnd) as Hnd'.
  split.
  - apply nodup_app_l in Hnd'. exact Hnd'.
  - intros H0. apply Hnz. apply (Permutation_in _ (Permutation_sym Hp)).
    apply in_or_app. left. exact H0.
Qed.

End Keys.
