(* Proofs/C06_Fuel.v -- binary fuel: [repeat_until fuel step a] runs [step] until the first Stop/Crash
   provided that happens within [Npos fuel] iterations. *)
From Coq Require Import NArith ZArith List Bool Lia ZifyBool ZifyN ZifyNat PArith.
From RP Require Import Base.Bits Model.Codec Model.Hands Spec.SpecIter.
Import ListNotations.

Section Fuel.
Context {A : Type}.
Variable step : A -> outcome A.

(* n consecutive Go steps *)
Inductive gos : A -> nat -> A -> Prop :=
| gos_0 : forall a, gos a 0 a
| gos_S : forall a a' a'' n, step a = Go a' -> gos a' n a'' -> gos a (S n) a''.

Lemma reaches_not_go : forall a n r, reaches step a n r -> forall b, r <> Go b.
Proof. intros a n r H. induction H as [a b E | a E | a a' n r E H IH]; intros c; try discriminate. apply IH. Qed.

Lemma gos_split : forall m n a a'', gos a (m + n) a'' -> exists a1, gos a m a1 /\ gos a1 n a''.
Proof.
  induction m as [|m IH]; intros n a a'' H.
  - exists a. split; [constructor | exact H].
  - cbn [Nat.add] in H. inversion H as [| x a' y k E H' ]; subst.
    destruct (IH n a' a'' H') as (a1 & G1 & G2).
    exists a1. split; [econstructor; eassumption | exact G2].
Qed.

Lemma reaches_split : forall m n a r, reaches step a n r -> (m <= n)%nat ->
  exists a1, gos a m a1 /\ reaches step a1 (n - m) r.
Proof.
  induction m as [|m IH]; intros n a r H Hle.
  - exists a. split; [constructor|]. rewrite Nat.sub_0_r. exact H.
  - inversion H as [x b E | x E | x a' k r' E H']; subst; try lia.
    destruct (IH k a' r H' ltac:(lia)) as (a1 & G & R).
    exists a1. split; [econstructor; eassumption|]. exact R.
Qed.

(* a function that behaves like "k iterations" *)
Definition iterates (k : nat) (f : A -> outcome A) : Prop :=
  (forall a a', gos a k a' -> f a = Go a') /\
  (forall a n r, reaches step a n r -> (n < k)%nat -> f a = r).

Definition twice (f : A -> outcome A) (a : A) : outcome A :=
  match f a with Go a' => f a' | r => r end.

Lemma iterates_twice : forall k f, iterates k f -> iterates (2 * k) (twice f).
Proof.
  intros k f [Hg Hr]. split.
  - intros a a'' H. replace (2 * k)%nat with (k + k)%nat in H by lia.
    destruct (gos_split k k a a'' H) as (a1 & G1 & G2).
    unfold twice. rewrite (Hg _ _ G1). apply Hg. exact G2.
  - intros a n r H Hn. unfold twice.
    destruct (Nat.lt_ge_cases n k) as [Hlt | Hge].
    + rewrite (Hr _ _ _ H Hlt). pose proof (reaches_not_go _ _ _ H) as Hng.
      destruct r as [b | b |]; try reflexivity. exfalso. exact (Hng b eq_refl).
    + destruct (reaches_split k n a r H Hge) as (a1 & G & R).
      rewrite (Hg _ _ G). apply (Hr _ _ _ R). lia.
Qed.

Lemma iterates_succ : forall k f, iterates k f ->
  iterates (S k) (fun a => match step a with Go a1 => f a1 | r => r end).
Proof.
  intros k f [Hg Hr]. split.
  - intros a a'' H. inversion H as [| x a' y m E H']; subst. rewrite E. apply Hg. exact H'.
  - intros a n r H Hn. inversion H as [x b E | x E | x a' m r' E H']; subst.
    + rewrite E. reflexivity.
    + rewrite E. reflexivity.
    + rewrite E. apply (Hr _ _ _ H'). lia.
Qed.

Lemma iterates_one : iterates 1 step.
Proof.
  split.
  - intros a a' H. inversion H as [| x a1 y m E H']; subst. inversion H'; subst. exact E.
  - intros a n r H Hn. inversion H as [x b E | x E | x a' m r' E H']; subst; try lia; exact E.
Qed.

Lemma repeat_until_iterates : forall p, iterates (Pos.to_nat p) (repeat_until p step).
Proof.
  induction p as [p IH | p IH |].
  - rewrite Pos2Nat.inj_xI. cbn [repeat_until].
    apply (iterates_succ _ _ (iterates_twice _ _ IH)).
  - rewrite Pos2Nat.inj_xO. cbn [repeat_until]. apply (iterates_twice _ _ IH).
  - change (Pos.to_nat 1) with 1%nat. cbn [repeat_until]. apply iterates_one.
Qed.

(* the fuel lemma *)
Lemma repeat_until_reaches : forall fuel a n r,
  reaches step a n r -> (N.of_nat n < Npos fuel)%N -> repeat_until fuel step a = r.
Proof.
  intros fuel a n r H Hn. destruct (repeat_until_iterates fuel) as [_ Hr].
  apply (Hr a n r H). lia.
Qed.

(* out of fuel: all Npos fuel iterations said Go *)
Lemma repeat_until_gos : forall fuel a a',
  gos a (Pos.to_nat fuel) a' -> repeat_until fuel step a = Go a'.
Proof. intros fuel a a' H. destruct (repeat_until_iterates fuel) as [Hg _]. apply Hg. exact H. Qed.

Lemma reaches_deterministic : forall a n r n' r',
  reaches step a n r -> reaches step a n' r' -> n = n' /\ r = r'.
Proof.
  intros a n r n' r' H. revert n' r'.
  induction H as [a b E | a E | a a' n r E H IH]; intros n' r' H';
    inversion H' as [x b' E' | x E' | x a2 m r2 E' H2]; subst; try congruence.
  - rewrite E in E'. inversion E'. split; reflexivity.
  - split; reflexivity.
  - rewrite E in E'. inversion E'; subst. destruct (IH _ _ H2) as [-> ->]. split; reflexivity.
Qed.

End Fuel.
