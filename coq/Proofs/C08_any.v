(* Proofs/C08_any.v -- C08_estimator under the weaker shape predicate es_shape_any
   (Spec/SpecCfrAny.v): the traverser's own probabilities are unrestricted (0 allowed).
   The proof is that of Proofs/C08_estimator.v; positivity of sigma is used only below opponent
   and chance nodes (where the computation divides by it). *)
From Coq Require Import NArith QArith List Bool Lia Lqa Field Qfield Setoid Morphisms.
From RP Require Import Gen.GenLib Gen.GenFixes Model.Cfr Spec.SpecCfr Spec.SpecCfrAny
                       Proofs.C08_base Proofs.C08_estimator.
Import ListNotations.
Open Scope Q_scope.

Lemma es_shape_any_inv : forall k b p ch, es_shape_any (T k b p ch) ->
  (forall est, In est ch -> sigma_ok_any k (sg est)) /\
  (forall est, In est ch -> es_shape_any (snd est)).
Proof.
  intros k b p ch H. inversion H as [k' b' p' ch' H2 H3]; subst. split.
  - rewrite Forall_forall in H2. exact H2.
  - rewrite Forall_forall in H3. exact H3.
Qed.

(* the old predicate implies the new one *)
Lemma es_shape_weaken : forall f t, (depth t <= f)%nat -> es_shape t -> es_shape_any t.
Proof.
  induction f as [|f IH]; intros t Hd Hes.
  - pose proof (depth_pos t). lia.
  - destruct t as [k b p ch].
    destruct (es_shape_inv _ _ _ _ Hes) as [_ [Hsig Hsub]].
    constructor; apply Forall_forall; intros est Hin.
    + specialize (Hsig est Hin). unfold sg in Hsig. destruct k; cbn [sigma_ok sigma_ok_any] in *; auto.
    + apply IH; [exact (depth_child_le _ _ _ _ _ _ Hd Hin) | exact (Hsub est Hin)].
Qed.

Theorem es_shape_any_of_es_shape : forall t, es_shape t -> es_shape_any t.
Proof. intros t H. apply (es_shape_weaken (depth t) t); [lia | exact H]. Qed.

Lemma leaf_sum_utilde_any : forall f t hb e rel ext,
  (depth t <= f)%nat -> es_shape_any t ->
  lsQ e (lbQ hb t rel ext) == (rel / (e * ext)) * utQ f t.
Proof.
  induction f as [|f IH]; intros t hb e rel ext Hd Hes.
  - pose proof (depth_pos t). lia.
  - destruct t as [k b p ch].
    destruct (es_shape_any_inv _ _ _ _ Hes) as [Hsig Hsub].
    rewrite lbQ_eq. destruct ch as [|x l].
    + rewrite utQ_leaf. rewrite lsQ_qsum. cbn [map qsum leaf_term]. unfold Qdiv. ring.
    + remember (x :: l) as ch eqn:Ech.
      assert (Hne : ch <> []) by (subst ch; discriminate).
      rewrite (utQ_node f k b p ch Hne).
      rewrite lsQ_flat_map.
      rewrite <- qsum_scale.
      apply qsum_ext_in. intros est Hin.
      rewrite (IH (snd est) hb e _ _ (depth_child_le _ _ _ _ _ _ Hd Hin) (Hsub est Hin)).
      specialize (Hsig est Hin).
      destruct k; cbn [wk].
      * unfold Qdiv. ring.
      * assert (Hnz : ~ sg est == 0) by (cbn [sigma_ok_any] in Hsig; lra).
        assert (Hinv : sg est * / sg est == 1) by (apply Qmult_inv_r; exact Hnz).
        unfold Qdiv. rewrite !Qinv_mult_distr.
        setoid_replace (rel * sg est * (/ e * (/ ext * / sg est)) * utQ f (snd est))
          with (rel * (/ e * / ext) * utQ f (snd est) * (sg est * / sg est)) by ring.
        rewrite Hinv. ring.
      * assert (Hnz : ~ sg est == 0) by (cbn [sigma_ok_any] in Hsig; lra).
        assert (Hinv : sg est * / sg est == 1) by (apply Qmult_inv_r; exact Hnz).
        unfold Qdiv. rewrite !Qinv_mult_distr.
        setoid_replace (rel * sg est * (/ e * (/ ext * / sg est)) * utQ f (snd est))
          with (rel * (/ e * / ext) * utQ f (snd est) * (sg est * / sg est)) by ring.
        rewrite Hinv. ring.
Qed.

Lemma head_value_any : forall f t hb e,
  (depth t <= f)%nat -> es_shape_any t -> 0 < e ->
  e * lsQ e (lbQ hb t 1 1) == utQ f t.
Proof.
  intros f t hb e Hd Hes He. rewrite (leaf_sum_utilde_any f t hb e 1 1 Hd Hes). field. lra.
Qed.

Lemma gain_value_any : forall f k b p ch e prof est,
  (depth (T k b p ch) <= S f)%nat -> es_shape_any (T k b p ch) -> 0 < e -> In est ch ->
  gain Q 0 1 Qplus Qminus Qmult Qdiv e prof (T k b p ch) (sg est) (snd est)
  == utQ f (snd est) - utQ (S f) (T k b p ch).
Proof.
  intros f k b p ch e prof est Hd Hes He Hin.
  unfold gain, cfactual_value, expected_value. rewrite flag_external.
  fold lbQ. fold lsQ.
  destruct (es_shape_any_inv _ _ _ _ Hes) as [_ Hsub].
  rewrite (head_value_any f (snd est) _ e (depth_child_le _ _ _ _ _ _ Hd Hin) (Hsub est Hin) He).
  rewrite (head_value_any (S f) (T k b p ch) _ e Hd Hes He).
  reflexivity.
Qed.

Lemma gains_spec_any : forall f t ext prof,
  (depth t <= f)%nat -> es_shape_any t -> 0 < ext ->
  triples_eq (gainsQ f t ext prof) (specQ f t).
Proof.
  induction f as [|f IH]; intros t ext prof Hd Hes Hext.
  - constructor.
  - destruct t as [k b p ch]. rewrite gainsQ_eq, specQ_eq.
    destruct (es_shape_any_inv _ _ _ _ Hes) as [Hsig Hsub].
    apply triples_eq_app.
    + destruct k; try constructor. destruct ch as [|x l]; [constructor|].
      remember (x :: l) as ch eqn:Ech.
      assert (Hne : ch <> []) by (subst ch; discriminate).
      cbv zeta. apply triples_eq_map. intros [[e s] c] Hin. split; [reflexivity|].
      cbn [snd].
      rewrite (gain_value_any f KWalker b p ch ext prof (e, s, c) Hd Hes Hext Hin).
      cbn [snd]. rewrite (utQ_node f KWalker b p ch Hne). rewrite spec_value_qsum.
      reflexivity.
    + apply triples_eq_flat_map. intros [[e s] c] Hin. cbn [snd].
      apply IH.
      * exact (depth_child_le _ _ _ _ _ _ Hd Hin).
      * exact (Hsub _ Hin).
      * pose proof (Hsig _ Hin) as Hs. unfold sg in Hs. cbn [fst snd] in Hs.
        destruct k; cbn [sigma_ok_any] in Hs; [exact Hext | |].
        -- apply Qmult_lt_0_compat; assumption.
        -- rewrite Hs. lra.
Qed.

Theorem estimator_any : forall t, es_shape_any t ->
  triples_eq (immediate_regrets_Q t) (regret_estimator_Q t).
Proof.
  intros t Hes. unfold immediate_regrets_Q, immediate_regrets, regret_estimator_Q, regret_estimator.
  apply (gains_spec_any (depth t) t 1 1); [lia | exact Hes | lra].
Qed.

Theorem estimator_infoset_any : forall t b e, es_shape_any t ->
  sum_gains Q 0 Qplus (immediate_regrets_Q t) b e == sum_gains Q 0 Qplus (regret_estimator_Q t) b e.
Proof. intros t b e Hes. apply sum_gains_compat. apply estimator_any. exact Hes. Qed.

(* ---------- example: a traverser action of probability 0 ---------- *)
Lemma ex_tree3_zero_shape : es_shape_any ex_tree3_zero /\ ~ es_shape ex_tree3_zero.
Proof.
  split.
  - unfold ex_tree3_zero.
    repeat (constructor; cbn [sigma_ok_any fst snd]; try reflexivity; try exact I).
  - intros H. unfold ex_tree3_zero in H.
    apply es_shape_inv in H. destruct H as (_ & _ & H).
    specialize (H _ (or_introl eq_refl)). cbn [snd] in H.
    apply es_shape_inv in H. destruct H as (_ & _ & H).
    specialize (H _ (or_introl eq_refl)). cbn [snd] in H.
    apply es_shape_inv in H. destruct H as (_ & H & _).
    specialize (H _ (or_introl eq_refl)). unfold sg in H. cbn [sigma_ok fst snd] in H.
    apply Qlt_irrefl in H. exact H.
Qed.

Lemma ex_tree3_zero_values :
  map (fun x => (fst x, Qred (snd x))) (immediate_regrets_Q ex_tree3_zero)
  = map (fun x => (fst x, Qred (snd x))) (regret_estimator_Q ex_tree3_zero)
  /\ map (fun x => (fst x, Qred (snd x))) (regret_estimator_Q ex_tree3_zero)
  = [(2%N, 2%N, - (7#3)); (2%N, 3%N, 0); (4%N, 2%N, - (16#3)); (4%N, 4%N, 8#3)].
Proof. split; vm_compute; reflexivity. Qed.

(* ---------- every external-sampling sample of positive probability has the weak shape ----------
   (no positivity hypothesis on anybody's strategy: full_ok only says the numbers are >= 0 and sum
   to 1; an opponent / chance branch of probability 0 is sampled with probability 0) *)
From RP Require Import Spec.SpecSampling Proofs.C08_dist Proofs.C08_samples.

Lemma sigma_ok_any_kept : forall k p, (k <> KWalker -> 0 < p) -> sigma_ok_any k (kept_sigma k p).
Proof.
  intros k p H. destruct k; cbn [sigma_ok_any kept_sigma].
  - exact I.
  - apply H. discriminate.
  - reflexivity.
Qed.

Lemma isamples_es_shape_any_support : forall t, full_ok t ->
  forall q s, In (q, s) (isamples t) -> 0 < q -> es_shape_any (forget s).
Proof.
  intros t. induction t as [k b p ch IH] using qtree_ind'. intros Hok q s Hin Hq.
  destruct (full_ok_inv _ _ _ _ Hok) as [Hp [_ Hsub]]. rewrite Forall_forall in IH.
  assert (Hnn : forall est, In est ch -> dnonneg (isamples (snd est))).
  { intros est Hest. apply isamples_nonneg. apply Hsub. exact Hest. }
  assert (Hedge : forall x, edge_of_pos k ch x ->
            sigma_ok_any k (snd (fst (fedge x))) /\ es_shape_any (snd (fedge x))).
  { intros x [j [est [q' [s' [Hest [Hpe [Hq' [Hs E]]]]]]]]. subst x. rewrite fedge_mk. cbn [fst snd]. split.
    - apply sigma_ok_any_kept. exact Hpe.
    - apply (IH est Hest (Hsub est Hest) q' s' Hs Hq'). }
  destruct ch as [|x0 l0].
  - rewrite isamples_leaf in Hin. destruct Hin as [E | []]. inversion E; subst.
    rewrite forget_eq. cbn [map]. constructor; constructor.
  - assert (Hne : x0 :: l0 <> []) by discriminate.
    destruct (kind_eq_walker k) as [Ek | Ek].
    + subst k. rewrite (isamples_walker b p _ Hne) in Hin. apply in_dmap in Hin.
      destruct Hin as [l [E Hl]]. subst s. rewrite forget_eq.
      pose proof (eds_support_pos _ 0%nat l
                    (in_dprod_support_pos _ _ q l (eds_nonneg KWalker _ 0%nat Hnn) Hl Hq)) as Hall.
      rewrite Forall_forall in Hall.
      constructor.
      * apply Forall_forall. intros est' Hin'. apply in_map_iff in Hin'. destruct Hin' as [x [E Hx]]. subst est'.
        apply (Hedge x (Hall x Hx)).
      * apply Forall_forall. intros est' Hin'. apply in_map_iff in Hin'. destruct Hin' as [x [E Hx]]. subst est'.
        apply (Hedge x (Hall x Hx)).
    + rewrite (isamples_other k b p _ Hne Ek) in Hin. apply in_dmap in Hin.
      destruct Hin as [x [E Hx]]. subst s. rewrite forget_eq.
      pose proof (pick_support_pos k _ 0%nat q x Hp Hnn Hx Hq) as Hx'.
      destruct (Hedge x Hx') as [H1 H2]. cbn [map]. constructor.
      * constructor; [exact H1 | constructor].
      * constructor; [exact H2 | constructor].
Qed.

Theorem samples_es_shape_any_support : forall t, full_ok t ->
  forall q s, In (q, s) (samples t) -> 0 < q -> es_shape_any s.
Proof.
  intros t Hok q s Hin Hq. unfold samples in Hin. apply in_dmap in Hin.
  destruct Hin as [s' [E Hs]]. subst s.
  exact (isamples_es_shape_any_support t Hok q s' Hs Hq).
Qed.
