(* Proofs/C13_Q.v -- the instance of C13 over the rationals: the order is a strict weak order;
   range and maximum of the normalised metric. *)
From Coq Require Import Arith NArith List Bool Lia QArith Lqa.
From RP Require Import Base.Bits Model.Codec Model.Kmeans Spec.SpecKmeans.
From RP Require Import Proofs.C13_Neighborhood Proofs.C13_Next Proofs.C13_Lookup Proofs.C13_Metric.
Import ListNotations.
Close Scope Q_scope.

Lemma Qltb_lt : forall x y, Qltb x y = true <-> (x < y)%Q.
Proof.
  intros x y. unfold Qltb. rewrite negb_true_iff. split.
  - intros H. apply Qnot_le_lt. intros Hle. apply Qle_bool_iff in Hle. rewrite Hle in H. discriminate H.
  - intros H. destruct (Qle_bool y x) eqn:E; [|reflexivity].
    apply Qle_bool_iff in E. exfalso. exact (Qlt_not_le _ _ H E).
Qed.

Lemma Qltb_ge : forall x y, Qltb x y = false <-> (y <= x)%Q.
Proof.
  intros x y. unfold Qltb. rewrite negb_false_iff. apply Qle_bool_iff.
Qed.

Lemma Qltb_swo : strict_weak_order Qltb.
Proof.
  constructor.
  - intros x. apply Qltb_ge. apply Qle_refl.
  - intros x y z H1 H2. apply Qltb_lt in H1. apply Qltb_lt in H2. apply Qltb_lt.
    exact (Qlt_trans _ _ _ H1 H2).
  - intros x y z H. apply Qltb_lt in H.
    destruct (Qlt_le_dec x z) as [Hxz | Hzx].
    + left. apply Qltb_lt. exact Hxz.
    + right. apply Qltb_lt. exact (Qle_lt_trans _ _ _ Hzx H).
Qed.

(* ---------- the fold of max ---------- *)

Section FoldMax.
Variable A : Type.
Variable h : A -> Q.
Definition fmaxQ := fmax Q Qle_bool.
Definition foldmax (l : list A) (z : Q) : Q := fold_left (fun a x => fmaxQ a (h x)) l z.

Lemma fmaxQ_cases : forall a b,
  ((a <= b)%Q /\ fmaxQ a b = b) \/ ((b < a)%Q /\ fmaxQ a b = a).
Proof.
  intros a b. unfold fmaxQ, fmax. destruct (Qle_bool a b) eqn:E.
  - left. split; [apply Qle_bool_iff; exact E | reflexivity].
  - right. split; [|reflexivity]. apply Qnot_le_lt. intros H. apply Qle_bool_iff in H.
    rewrite H in E. discriminate E.
Qed.

Lemma foldmax_ge_init : forall l z, (z <= foldmax l z)%Q.
Proof.
  induction l as [|x l IH]; intros z.
  - apply Qle_refl.
  - unfold foldmax. cbn [fold_left]. fold (foldmax l (fmaxQ z (h x))).
    eapply Qle_trans; [|apply IH].
    destruct (fmaxQ_cases z (h x)) as [[H E] | [H E]]; rewrite E; [exact H | apply Qle_refl].
Qed.

Lemma foldmax_ge_elem : forall l z x, In x l -> (h x <= foldmax l z)%Q.
Proof.
  induction l as [|y l IH]; intros z x Hin.
  - destruct Hin.
  - unfold foldmax. cbn [fold_left]. fold (foldmax l (fmaxQ z (h y))).
    destruct Hin as [Hin | Hin].
    + subst y. eapply Qle_trans; [|apply foldmax_ge_init].
      destruct (fmaxQ_cases z (h x)) as [[H E] | [H E]]; rewrite E;
        [apply Qle_refl | apply Qlt_le_weak; exact H].
    + apply IH. exact Hin.
Qed.

Lemma foldmax_in : forall l z, foldmax l z = z \/ exists x, In x l /\ foldmax l z = h x.
Proof.
  induction l as [|y l IH]; intros z.
  - left. reflexivity.
  - unfold foldmax. cbn [fold_left]. fold (foldmax l (fmaxQ z (h y))).
    destruct (IH (fmaxQ z (h y))) as [H | (x & Hx & H)].
    + rewrite H. destruct (fmaxQ_cases z (h y)) as [[_ E] | [_ E]]; rewrite E.
      * right. exists y. split; [left; reflexivity | reflexivity].
      * left. reflexivity.
    + right. exists x. split; [right; exact Hx | exact H].
Qed.

Lemma foldmax_attained : forall l z,
  (exists x, In x l /\ (z <= h x)%Q) -> exists x, In x l /\ foldmax l z = h x.
Proof.
  induction l as [|y l IH]; intros z (x & Hin & Hzx).
  - destruct Hin.
  - unfold foldmax. cbn [fold_left]. fold (foldmax l (fmaxQ z (h y))).
    destruct (fmaxQ_cases z (h y)) as [[Hle E] | [Hlt E]]; rewrite E.
    + destruct (foldmax_in l (h y)) as [H | (x' & Hx' & H)].
      * exists y. split; [left; reflexivity | exact H].
      * exists x'. split; [right; exact Hx' | exact H].
    + destruct Hin as [Hin | Hin].
      * subst y. exfalso. exact (Qlt_not_le _ _ Hlt Hzx).
      * destruct (IH z (ex_intro _ x (conj Hin Hzx))) as (x' & Hx' & H).
        exists x'. split; [right; exact Hx' | exact H].
Qed.
End FoldMax.

(* ---------- the normalised metric over Q ---------- *)

Lemma metric_max_Q_fold : forall fminpos dist k,
  metric_max_Q fminpos dist k = foldmax (nat * nat) (fun ij => sym_Q dist (fst ij) (snd ij)) (tri k) fminpos.
Proof. reflexivity. Qed.

Lemma sym_Q_nonneg : forall dist i j, (0 <= dist i j)%Q -> (0 <= dist j i)%Q -> (0 <= sym_Q dist i j)%Q.
Proof.
  intros dist i j H1 H2. unfold sym_Q, sym, Qtwo.
  apply Qle_shift_div_l; [reflexivity|]. lra.
Qed.

Theorem metric_range_Q : forall fminpos street dist k m,
  (0 < fminpos)%Q ->
  metric_step_Q fminpos street dist k = Some m ->
  (* the divisor *)
  ((fminpos <= metric_max_Q fminpos dist k)%Q /\
   (forall i j, (j < i)%nat -> (i < k)%nat -> (sym_Q dist i j <= metric_max_Q fminpos dist k)%Q) /\
   (metric_max_Q fminpos dist k = fminpos \/
    exists i j, (j < i)%nat /\ (i < k)%nat /\ metric_max_Q fminpos dist k = sym_Q dist i j)) /\
  (* range *)
  ((forall i j, (i < k)%nat -> (j < k)%nat -> (0 <= dist i j)%Q) ->
   forall e, In e m -> (0 <= snd e)%Q /\ (snd e <= 1)%Q) /\
  (* the maximum 1 is attained as soon as one symmetrised distance reaches MIN_POSITIVE *)
  ((exists i j, (j < i)%nat /\ (i < k)%nat /\ (fminpos <= sym_Q dist i j)%Q) ->
   exists i j, (j < i)%nat /\ (i < k)%nat /\
     exists v, nth_error m (tri_index i j) =
                 Some (pair_key (bucket_code street i) (bucket_code street j), v) /\ (v == 1)%Q) /\
  (* otherwise every value is below 1 *)
  ((forall i j, (j < i)%nat -> (i < k)%nat -> (sym_Q dist i j < fminpos)%Q) ->
   forall e, In e m -> (snd e < 1)%Q).
Proof.
  intros fminpos street dist k m Hpos H.
  destruct (metric_shape Q Qplus Qdiv Qle_bool Qtwo fminpos street dist k m H) as (_ & Hnth & Hin).
  fold (sym_Q dist) in Hnth, Hin. fold (metric_max_Q fminpos dist k) in Hnth, Hin.
  set (mx := metric_max_Q fminpos dist k) in *.
  assert (Hmx_init : (fminpos <= mx)%Q).
  { unfold mx. rewrite metric_max_Q_fold. apply foldmax_ge_init. }
  assert (Hmx_pos : (0 < mx)%Q) by (eapply Qlt_le_trans; [exact Hpos | exact Hmx_init]).
  assert (Hmx_elem : forall i j, (j < i)%nat -> (i < k)%nat -> (sym_Q dist i j <= mx)%Q).
  { intros i j Hj Hi. unfold mx. rewrite metric_max_Q_fold.
    apply (foldmax_ge_elem _ (fun ij => sym_Q dist (fst ij) (snd ij)) (tri k) fminpos (i, j)).
    apply tri_In. split; assumption. }
  split; [|split; [|split]].
  - split; [exact Hmx_init|]. split; [exact Hmx_elem|].
    unfold mx. rewrite metric_max_Q_fold.
    destruct (foldmax_in _ (fun ij => sym_Q dist (fst ij) (snd ij)) (tri k) fminpos)
      as [E | ([i j] & Hij & E)].
    + left. exact E.
    + right. apply tri_In in Hij. exists i, j. cbn [fst snd] in E. tauto.
  - intros Hdist e He. destruct (Hin e He) as (i & j & Hj & Hi & Ee). subst e. cbn [snd].
    assert (Hs : (0 <= sym_Q dist i j)%Q) by (apply sym_Q_nonneg; apply Hdist; lia).
    split.
    + apply Qle_shift_div_l; [exact Hmx_pos|]. lra.
    + apply Qle_shift_div_r; [exact Hmx_pos|]. specialize (Hmx_elem i j Hj Hi). lra.
  - intros (i & j & Hj & Hi & Hge).
    assert (Hatt : exists x, In x (tri k) /\ mx = sym_Q dist (fst x) (snd x)).
    { unfold mx. rewrite metric_max_Q_fold. apply foldmax_attained.
      exists (i, j). split; [apply tri_In; split; assumption | exact Hge]. }
    destruct Hatt as ([i' j'] & Hij' & E). cbn [fst snd] in E. apply tri_In in Hij'.
    destruct Hij' as [Hj' Hi']. exists i', j'. split; [exact Hj'|]. split; [exact Hi'|].
    eexists. split; [apply Hnth; assumption|].
    rewrite <- E. unfold Qdiv. apply Qmult_inv_r. intros H0. rewrite H0 in Hmx_pos.
    exact (Qlt_irrefl _ Hmx_pos).
  - intros Hsmall e He. destruct (Hin e He) as (i & j & Hj & Hi & Ee). subst e. cbn [snd].
    apply Qlt_shift_div_r; [exact Hmx_pos|]. specialize (Hsmall i j Hj Hi). lra.
Qed.

(* ---------- the generic theorems at the rationals (closed statements) ---------- *)

Lemma neighborhood_nearest_Q : forall column : list (option Q),
  ~ In None column -> column <> [] ->
  exists j x, neighborhood_Q column = Some (j, x) /\
              nth_error column j = Some (Some x) /\
              (forall i y, nth_error column i = Some (Some y) -> (x <= y)%Q) /\
              (forall i y, (i < j)%nat -> nth_error column i = Some (Some y) -> (x < y)%Q).
Proof.
  intros column Hs Hne.
  destruct (neighborhood_nearest Q Qltb Qltb_swo column Hs Hne) as (j & x & Hn & Hj & Hmin & Hfirst).
  exists j, x. split; [exact Hn|]. split; [exact Hj|]. split.
  - intros i y Hy. apply Qltb_ge. exact (Hmin i y Hy).
  - intros i y Hi Hy. apply Qltb_lt. exact (Hfirst i y Hi Hy).
Qed.

Lemma neighborhood_nan_Q : forall column : list (option Q),
  In None column -> neighborhood_Q column = None.
Proof. exact (neighborhood_nan Q Qltb). Qed.

Lemma next_partition_Q : forall k points (columns : list (list (option Q))),
  length points = length columns -> (0 < k)%nat ->
  (forall c, In c columns -> good_column k c) ->
  exists cs, next_step_Q k points columns = Some cs /\ length cs = k /\
    (forall i c, nth_error columns i = Some c ->
       exists x, neighborhood_Q c = Some (nearest Qltb c, x) /\ (nearest Qltb c < k)%nat) /\
    (forall j, nth j cs [] = absorb_all (map (fun i => nth i points []) (members Qltb columns j))).
Proof. exact (next_partition Q Qltb Qltb_swo). Qed.

Lemma next_mass_Q : forall k points (columns : list (list (option Q))),
  length points = length columns -> (0 < k)%nat ->
  (forall c, In c columns -> good_column k c) ->
  exists cs, next_step_Q k points columns = Some cs /\
    (forall a, sumN (map (count a) cs) = sumN (map (count a) points)) /\
    sumN (map mass cs) = sumN (map mass points) /\
    Forall sorted_keys cs.
Proof. exact (next_mass Q Qltb Qltb_swo). Qed.

Lemma lookup_aligned_Q : forall street classes (columns : list (list (option Q))) l,
  length classes = length columns ->
  lookup_step_Q street classes columns = Some l ->
  length l = length classes /\
  (forall i o c, nth_error classes i = Some o -> nth_error columns i = Some c ->
     exists x a, neighborhood_Q c = Some (nearest Qltb c, x) /\
                 abs_make street (N.of_nat (nearest Qltb c)) = Some a /\
                 nth_error l i = Some (o, abits a)).
Proof. exact (lookup_aligned Q Qltb). Qed.

Lemma lookup_truncates_Q : forall street classes (columns : list (list (option Q))) l,
  lookup_step_Q street classes columns = Some l ->
  length l = Nat.min (length classes) (length columns).
Proof. exact (lookup_truncates Q Qltb). Qed.

Lemma lookup_total_Q : forall street classes (columns : list (list (option Q))),
  (street <= 3)%N -> (forall c, In c columns -> ~ In None c /\ c <> []) ->
  exists l, lookup_step_Q street classes columns = Some l.
Proof. exact (lookup_total Q Qltb Qltb_swo). Qed.

Lemma metric_shape_Q : forall fminpos street dist k m,
  metric_step_Q fminpos street dist k = Some m ->
  length m = (k * (k - 1) / 2)%nat /\
  (forall i j, (j < i)%nat -> (i < k)%nat ->
     nth_error m (tri_index i j) =
     Some (pair_key (bucket_code street i) (bucket_code street j),
           (sym_Q dist i j / metric_max_Q fminpos dist k)%Q)) /\
  (forall e, In e m -> exists i j, (j < i)%nat /\ (i < k)%nat /\
     e = (pair_key (bucket_code street i) (bucket_code street j),
          (sym_Q dist i j / metric_max_Q fminpos dist k)%Q)).
Proof. intros fminpos. exact (metric_shape Q Qplus Qdiv Qle_bool Qtwo fminpos). Qed.

Lemma sym_Q_value : forall dist i j, (sym_Q dist i j == (dist i j + dist j i) / 2)%Q.
Proof. intros dist i j. reflexivity. Qed.

Lemma sym_Q_comm : forall dist i j, (sym_Q dist i j == sym_Q dist j i)%Q.
Proof. intros dist i j. unfold sym_Q, sym, Qtwo. apply Qdiv_comp; [apply Qplus_comm | reflexivity]. Qed.

Lemma metric_total_Q : forall fminpos street dist k, (street <= 3)%N ->
  exists m, metric_step_Q fminpos street dist k = Some m.
Proof. intros fminpos street dist k. exact (metric_total Q Qplus Qdiv Qle_bool Qtwo fminpos street dist k). Qed.

Lemma metric_keys_distinct_Q : forall fminpos street dist k m,
  (1 <= street <= 3)%N -> (N.of_nat k <= street_k street)%N ->
  metric_step_Q fminpos street dist k = Some m ->
  NoDup (map fst m) /\ ~ In 0%N (map fst m).
Proof. intros fminpos. exact (metric_keys_distinct Q Qplus Qdiv Qle_bool Qtwo fminpos). Qed.

Lemma sym_Q_spec : forall dist i j,
  (sym_Q dist i j == (dist i j + dist j i) / 2)%Q /\ (sym_Q dist i j == sym_Q dist j i)%Q.
Proof. intros dist i j. split; [apply sym_Q_value | apply sym_Q_comm]. Qed.
