(* Proofs/C01_Suits.v -- (T4) relabelling the four suits by a permutation changes neither the
   evaluator's strength nor the rule-book value. *)
From Coq Require Import NArith List Bool Lia Permutation.
From RP Require Import Base.Bits Gen.GenCards Model.Codec Model.Evaluator Spec.SpecPoker Spec.SpecStrength
  Spec.SpecHand Proofs.C01_Lists Proofs.C01_Abs Proofs.C01_Bits Proofs.C01_Main Proofs.C01_Examples.
Import ListNotations.
Open Scope N_scope.

(* ---------- permutations of {0,1,2,3} ---------- *)
Lemma perm_surj : forall p, suit_perm p -> forall k, k < 4 -> exists s, s < 4 /\ p s = k.
Proof.
  intros p [Hr Hi] k Hk.
  pose proof (Hr 0 ltac:(lia)) as R0. pose proof (Hr 1 ltac:(lia)) as R1.
  pose proof (Hr 2 ltac:(lia)) as R2. pose proof (Hr 3 ltac:(lia)) as R3.
  assert (p 0 <> p 1) as D01 by (intros E; apply Hi in E; lia).
  assert (p 0 <> p 2) as D02 by (intros E; apply Hi in E; lia).
  assert (p 0 <> p 3) as D03 by (intros E; apply Hi in E; lia).
  assert (p 1 <> p 2) as D12 by (intros E; apply Hi in E; lia).
  assert (p 1 <> p 3) as D13 by (intros E; apply Hi in E; lia).
  assert (p 2 <> p 3) as D23 by (intros E; apply Hi in E; lia).
  assert (p 0 = k \/ p 1 = k \/ p 2 = k \/ p 3 = k) as H by lia.
  destruct H as [H|[H|[H|H]]]; [exists 0|exists 1|exists 2|exists 3]; split; try exact H; lia.
Qed.

Lemma perm4 : forall p, suit_perm p -> Permutation (map p [0; 1; 2; 3]) [0; 1; 2; 3].
Proof.
  intros p Hp. pose proof Hp as [Hr Hi]. apply NoDup_Permutation.
  - cbn [map]. repeat constructor; cbn [In]; intros H;
      repeat (destruct H as [H|H]; [apply Hi in H; lia|]); exact H.
  - repeat constructor; cbn [In]; lia.
  - intros x. split.
    + intros H. apply in_map_iff in H. destruct H as [s [<- Hs]].
      apply suit_cases. apply Hr. cbn [In] in Hs. lia.
    + intros H. assert (x < 4) as Hx by (cbn [In] in H; lia).
      destruct (perm_surj p Hp x Hx) as [s [Hs <-]]. apply in_map. apply suit_cases. exact Hs.
Qed.

Lemma filter_length_perm : forall (f : N -> bool) l l', Permutation l l' ->
  length (filter f l) = length (filter f l').
Proof.
  intros f l l' H. induction H as [|x l l' _ IH|x y l|l l' l'' _ IH1 _ IH2].
  - reflexivity.
  - cbn [filter]. destruct (f x); cbn [length]; rewrite IH; reflexivity.
  - cbn [filter]. destruct (f x); destruct (f y); reflexivity.
  - rewrite IH1. exact IH2.
Qed.

Lemma filter_map_length : forall (f : N -> bool) (g : N -> N) l,
  length (filter f (map g l)) = length (filter (fun x => f (g x)) l).
Proof.
  intros f g l. induction l as [|x l IH]; [reflexivity|].
  cbn [map filter]. destruct (f (g x)); cbn [length]; rewrite IH; reflexivity.
Qed.

(* ---------- bits of the relabelled hand ---------- *)
Lemma relabel_quad : forall p r s, s < 4 -> relabel p (4 * r + s) = 4 * r + p s.
Proof.
  intros p r s Hs. unfold relabel.
  change ((4 * r + s) / 4) with (rank_of (4 * r + s)). change ((4 * r + s) mod 4) with (suit_of (4 * r + s)).
  rewrite rank_of_quad, suit_of_quad by exact Hs. reflexivity.
Qed.

Lemma card_decomp : forall c, c = 4 * (c / 4) + c mod 4 /\ c mod 4 < 4.
Proof. intros c. split; [apply N.div_mod; discriminate|apply N.mod_lt; discriminate]. Qed.

Lemma relabel_bit_inv : forall p h i, N.testbit (relabel_hand p h) i = true ->
  exists c, N.testbit h c = true /\ c < 64 /\ i = relabel p c.
Proof.
  intros p h i H. unfold relabel_hand in H. rewrite mask_of_bits_spec in H.
  apply existsb_exists in H. destruct H as [x [Hx Hi]]. apply N.eqb_eq in Hi. subst x.
  apply in_map_iff in Hx. destruct Hx as [c [<- Hc]].
  unfold hand_cards in Hc. apply set_bits64_lt in Hc. exists c. tauto.
Qed.

Lemma relabel_bit : forall d p h r s, suit_perm p -> N.land h (hand_mask d) = h -> s < 4 ->
  N.testbit (relabel_hand p h) (4 * r + p s) = N.testbit h (4 * r + s).
Proof.
  intros d p h r s Hp Hm Hs. pose proof Hp as [Hr Hi]. apply Bool.eq_true_iff_eq. split.
  - intros H. apply relabel_bit_inv in H. destruct H as [c [Hc [_ Heq]]].
    destruct (card_decomp c) as [Hdec Hlt]. unfold relabel in Heq.
    pose proof (Hr _ Hlt) as Hpc. pose proof (Hr _ Hs) as Hps.
    assert (c / 4 = r /\ p (c mod 4) = p s) as [H1 H2] by lia.
    apply Hi in H2; [|exact Hlt|exact Hs]. rewrite <- H1, <- H2, <- Hdec. exact Hc.
  - intros H. unfold relabel_hand. rewrite mask_of_bits_spec. apply existsb_exists.
    exists (4 * r + p s). split; [|apply N.eqb_refl].
    rewrite <- relabel_quad by exact Hs. apply in_map.
    unfold hand_cards. rewrite set_bits64_filter. apply filter_In. split; [|exact H].
    pose proof (hand_bit_lt52 d h _ Hm H). apply nseq_in; [lia|]. change (N.of_nat 64) with 64. lia.
Qed.

Lemma mask_rank_closed : forall d c k, c < 52 -> k < 4 ->
  N.testbit (hand_mask d) c = true -> N.testbit (hand_mask d) (4 * (c / 4) + k) = true.
Proof.
  intros d c k Hc Hk H.
  assert (forallb (fun d => forallb (fun c => forallb (fun k =>
            implb (N.testbit (hand_mask d) c) (N.testbit (hand_mask d) (4 * (c / 4) + k)))
            (nseq 4 0)) (nseq 52 0)) [Standard; Short] = true) as Hchk by (vm_compute; reflexivity).
  rewrite forallb_forall in Hchk. specialize (Hchk d ltac:(destruct d; cbn [In]; tauto)). cbv beta in Hchk.
  pose proof (forallb_nseq _ _ Hchk c Hc) as H1. cbv beta in H1.
  pose proof (forallb_nseq _ _ H1 k Hk) as H2. cbv beta in H2.
  rewrite H in H2. exact H2.
Qed.

Lemma relabel_in_mask : forall d p h, suit_perm p -> N.land h (hand_mask d) = h ->
  N.land (relabel_hand p h) (hand_mask d) = relabel_hand p h.
Proof.
  intros d p h [Hr _] Hm. apply N.bits_inj. intros i. rewrite N.land_spec.
  destruct (N.testbit (relabel_hand p h) i) eqn:Hb; [|reflexivity]. cbn [andb].
  apply relabel_bit_inv in Hb. destruct Hb as [c [Hc [_ ->]]]. unfold relabel.
  apply mask_rank_closed.
  - apply (hand_bit_lt52 d h c Hm Hc).
  - apply Hr. apply N.mod_lt. discriminate.
  - apply (in_mask_bit d h c Hm Hc).
Qed.

(* ---------- rank counts are unchanged ---------- *)
Lemma quad_map : forall r, quad r = map (fun k => 4 * r + k) [0; 1; 2; 3].
Proof. intros r. unfold quad. cbn [map]. rewrite N.add_0_r. reflexivity. Qed.

Lemma relabel_nb : forall d p h r, suit_perm p -> N.land h (hand_mask d) = h ->
  nb (relabel_hand p h) r = nb h r.
Proof.
  intros d p h r Hp Hm. unfold nb. f_equal. rewrite quad_map.
  rewrite <- (filter_length_perm _ _ _ (Permutation_map (fun k => 4 * r + k) (perm4 p Hp))).
  rewrite map_map, !filter_map_length. f_equal.
  apply filter_ext_in. intros s Hs. apply (relabel_bit d); try assumption. cbn [In] in Hs. lia.
Qed.

Lemma relabel_cvec : forall d p h, suit_perm p -> N.land h (hand_mask d) = h ->
  cvec (relabel_hand p h) = cvec h.
Proof.
  intros d p h Hp Hm. unfold cvec. apply map_ext_in. intros r Hr. apply in_nseq13 in Hr.
  rewrite !cnt_nb by exact Hr. apply (relabel_nb d); assumption.
Qed.

Theorem relabel_valid : forall d p h, suit_perm p -> valid_hand d h -> valid_hand d (relabel_hand p h).
Proof.
  intros d p h Hp (Hm & H5 & H7). pose proof (relabel_in_mask d p h Hp Hm) as Hm'.
  assert (popcount64 (relabel_hand p h) = popcount64 h) as Hpc.
  { rewrite <- (cvec_sum d _ Hm'), <- (cvec_sum d _ Hm), (relabel_cvec d p h Hp Hm). reflexivity. }
  unfold valid_hand. rewrite Hpc. tauto.
Qed.

(* ---------- the flush suit moves with the permutation ---------- *)
Lemma relabel_suit_mask : forall d p h s, suit_perm p -> N.land h (hand_mask d) = h -> s < 4 ->
  rank_mask (hand_of_suit d (relabel_hand p h) (p s)) = rank_mask (hand_of_suit d h s).
Proof.
  intros d p h s Hp Hm Hs. pose proof Hp as [Hr _].
  apply N.bits_inj. intros j.
  rewrite (suit_rank_mask_spec d _ (p s) j (relabel_in_mask d p h Hp Hm) (Hr s Hs)).
  rewrite (suit_rank_mask_spec d h s j Hm Hs).
  rewrite (relabel_bit d p h j s Hp Hm Hs). reflexivity.
Qed.

Lemma relabel_suit_length : forall d p h s, suit_perm p -> N.land h (hand_mask d) = h -> s < 4 ->
  length (suited (p s) (hand_cards (relabel_hand p h))) = length (suited s (hand_cards h)).
Proof.
  intros d p h s Hp Hm Hs. pose proof Hp as [Hr _].
  rewrite <- (map_length rank_of (suited (p s) _)), <- (map_length rank_of (suited s _)).
  rewrite (suited_ranks d _ (p s) (relabel_in_mask d p h Hp Hm) (Hr s Hs)).
  rewrite (suited_ranks d h s Hm Hs), (relabel_suit_mask d p h s Hp Hm Hs). reflexivity.
Qed.

Lemma relabel_flush_mask : forall d p h, suit_perm p -> valid_hand d h ->
  flush_mask d (relabel_hand p h) = flush_mask d h.
Proof.
  intros d p h Hp Hv. pose proof Hv as (Hm & _ & _).
  pose proof (relabel_valid d p h Hp Hv) as Hv'.
  destruct (flush_cases d h Hv) as [[Hfl Hsmall]|[s [Hs [Hfl [Hlen Hother]]]]];
  destruct (flush_cases d _ Hv') as [[Hfl' Hsmall']|[s' [Hs' [Hfl' [Hlen' Hother']]]]].
  - rewrite Hfl, Hfl'. reflexivity.
  - exfalso. destruct (perm_surj p Hp s' Hs') as [s [Hs <-]].
    rewrite (relabel_suit_length d p h s Hp Hm Hs) in Hlen'. specialize (Hsmall s Hs). lia.
  - exfalso. pose proof Hp as [Hr _]. specialize (Hsmall' (p s) (Hr s Hs)).
    rewrite (relabel_suit_length d p h s Hp Hm Hs) in Hsmall'. lia.
  - rewrite Hfl, Hfl'. pose proof Hp as [Hr _].
    destruct (N.eq_dec s' (p s)) as [->|Hne].
    + rewrite (relabel_suit_mask d p h s Hp Hm Hs). reflexivity.
    + exfalso. specialize (Hother' (p s) (Hr s Hs) (not_eq_sym Hne)).
      rewrite (relabel_suit_length d p h s Hp Hm Hs) in Hother'. lia.
Qed.

(* ---------- T4 ---------- *)
Theorem relabel_strength : forall d p h, suit_perm p -> valid_hand d h ->
  strength_of d (relabel_hand p h) = strength_of d h.
Proof.
  intros d p h Hp Hv. pose proof Hv as (Hm & _ & _).
  rewrite !strength_of_SAcore, (rank_mask_rmA (relabel_hand p h)), (rank_mask_rmA h).
  rewrite (relabel_cvec d p h Hp Hm), (relabel_flush_mask d p h Hp Hv). reflexivity.
Qed.

Theorem relabel_best5 : forall d p h, suit_perm p -> valid_hand d h ->
  best5 d (hand_cards (relabel_hand p h)) = best5 d (hand_cards h).
Proof.
  intros d p h Hp Hv.
  destruct (strength_is_best5 d h Hv) as [s [Hs Hval]].
  destruct (strength_is_best5 d _ (relabel_valid d p h Hp Hv)) as [s' [Hs' Hval']].
  rewrite (relabel_strength d p h Hp Hv), Hs in Hs'. injection Hs' as <-.
  rewrite <- Hval, <- Hval'. reflexivity.
Qed.

(* a permutation exists: swap clubs and spades, rotate nothing else *)
Definition swap03 (s : N) : N := match s with 0 => 3 | 3 => 0 | _ => s end.
Lemma swap03_perm : suit_perm swap03.
Proof.
  split.
  - intros s Hs. apply lt4_cases in Hs. destruct Hs as [H|[H|[H|H]]]; subst s; cbv [swap03]; lia.
  - intros s t Hs Ht. apply lt4_cases in Hs. apply lt4_cases in Ht.
    destruct Hs as [H|[H|[H|H]]]; destruct Ht as [H'|[H'|[H'|H']]]; subst s t; cbv [swap03]; intros E; try reflexivity; discriminate E.
Qed.

Lemma ex_relabel : forall d,
  relabel_hand swap03 Proofs.C01_Examples.h_seven <> Proofs.C01_Examples.h_seven /\
  strength_of d (relabel_hand swap03 Proofs.C01_Examples.h_seven) = strength_of d Proofs.C01_Examples.h_seven.
Proof. intros d. split; [vm_compute; discriminate|destruct d; vm_compute; reflexivity]. Qed.
