(* Proofs/C12_ClampBound.v -- a sufficient condition for `clamp_inactive` at the production clamp constant
   f32::MIN_POSITIVE = 2^-126: potentials bounded below by -B, ground distances at most 1 and
   B + 1/T <= 126 ln 2.  Instance at the generated SINKHORN_TEMPERATURE (1/40) with B = 20. *)
From Coq Require Import NArith ZArith QArith Qreals List Reals Lra Lia.
From RP Require Import Gen.GenLib Model.Emd Spec.SpecTransport.
From RP Require Spec.C09Spec.
Import ListNotations.
Local Open Scope R_scope.

Lemma exp_nat_ln2 : forall n : nat, exp (INR n * ln 2) = 2 ^ n.
Proof.
  induction n as [|n IH].
  - cbn [INR pow]. rewrite Rmult_0_l. apply exp_0.
  - rewrite S_INR, Rmult_plus_distr_r, Rmult_1_l, exp_plus, IH, exp_ln by lra.
    cbn [pow]. ring.
Qed.

Lemma exp_neg_126_ln2 : exp (- (126 * ln 2)) = / 2 ^ 126.
Proof.
  rewrite exp_Ropp. f_equal.
  replace 126 with (INR 126) by (rewrite INR_IZR_INZ; reflexivity).
  apply exp_nat_ln2.
Qed.

Lemma exp_le_mono : forall x y, x <= y -> exp x <= exp y.
Proof.
  intros x y [Hlt | Heq].
  - left. now apply exp_increasing.
  - right. now rewrite Heq.
Qed.

Lemma clamp_inactive_sufficient : forall (T B : R) (dist : N -> N -> R) (h : hist R) (pot : potential R),
  0 < T ->
  (forall xp, In xp pot -> - B <= snd xp) ->
  (forall xp yq, In xp pot -> In yq h -> 0 <= dist (fst yq) (fst xp) <= 1) ->
  B + 1 / T <= 126 * ln 2 ->
  clamp_inactive T (/ 2 ^ 126) dist h pot.
Proof.
  intros T B dist h pot HT Hpot Hdist HB xp yq Hxp Hyq.
  rewrite <- exp_neg_126_ln2. apply exp_le_mono.
  specialize (Hpot xp Hxp). destruct (Hdist xp yq Hxp Hyq) as [_ Hd1].
  assert (Hdiv : dist (fst yq) (fst xp) / T <= 1 / T).
  { unfold Rdiv. apply Rmult_le_compat_r; [left; now apply Rinv_0_lt_compat | exact Hd1]. }
  lra.
Qed.

(* ln 2 >= 1/2, from exp 1 <= 3 *)
Lemma ln2_ge_half : / 2 <= ln 2.
Proof.
  destruct (Rle_or_lt (/ 2) (ln 2)) as [Hle | Hlt]; [exact Hle | exfalso].
  apply exp_increasing in Hlt. rewrite exp_ln in Hlt by lra.
  assert (Hsq : exp (/ 2) * exp (/ 2) = exp 1) by (rewrite <- exp_plus; f_equal; lra).
  pose proof exp_le_3 as H3. pose proof (exp_pos (/ 2)) as Hp. nra.
Qed.

Lemma Q2R_min_positive : Q2R (C09Spec.fconst_Q F32_MIN_POSITIVE) = / 2 ^ 126.
Proof.
  cbv [C09Spec.fconst_Q Q2R Qnum Qden]. rewrite Rmult_1_l. f_equal.
  rewrite pow_IZR. f_equal.
Qed.

Lemma Q2R_sinkhorn_temperature : Q2R (C09Spec.fconst_Q SINKHORN_TEMPERATURE) = / 40.
Proof. cbv [C09Spec.fconst_Q SINKHORN_TEMPERATURE Q2R Qnum Qden]. lra. Qed.

(* two buckets at distance 1 *)
Definition ex_dist01 (a b : N) : R := if N.eqb a b then 0 else 1.

Lemma clamp_inactive_production_example :
  let T := Q2R (C09Spec.fconst_Q SINKHORN_TEMPERATURE) in
  let minpos := Q2R (C09Spec.fconst_Q F32_MIN_POSITIVE) in
  let h : hist R := [(0%N, / 2); (1%N, / 2)] in
  let pot : potential R := [(0%N, 0); (1%N, - 1)] in
  T = / 40 /\ minpos = / 2 ^ 126 /\ 0 < T /\
  (forall xp, In xp pot -> - 20 <= snd xp) /\
  (forall xp yq, In xp pot -> In yq h -> 0 <= ex_dist01 (fst yq) (fst xp) <= 1) /\
  20 + 1 / T <= 126 * ln 2 /\
  clamp_inactive T minpos ex_dist01 h pot.
Proof.
  intros T minpos h pot.
  assert (HT : T = / 40) by apply Q2R_sinkhorn_temperature.
  assert (Hm : minpos = / 2 ^ 126) by apply Q2R_min_positive.
  assert (HT0 : 0 < T) by lra.
  assert (Hpot : forall xp, In xp pot -> - 20 <= snd xp).
  { intros xp [Hx | [Hx | []]]; subst xp; cbn [snd]; lra. }
  assert (Hd : forall xp yq, In xp pot -> In yq h -> 0 <= ex_dist01 (fst yq) (fst xp) <= 1).
  { intros xp yq _ _. unfold ex_dist01. destruct (N.eqb (fst yq) (fst xp)); lra. }
  assert (HB : 20 + 1 / T <= 126 * ln 2).
  { rewrite HT. pose proof ln2_ge_half as Hl. lra. }
  repeat split; try assumption; try (apply Hd; assumption).
  rewrite Hm. now apply clamp_inactive_sufficient with (B := 20).
Qed.
