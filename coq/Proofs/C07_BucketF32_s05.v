(* Proofs/C07_BucketF32_s05.v -- shard: rows 640 <= sum < 701, every 0 <= won <= sum, by evaluation (check_pair). *)
From Coq Require Import ZArith.
From RP Require Import Model.BucketF32 Proofs.C07_BucketF32_chk.
Open Scope Z_scope.
Lemma block : check_block 640 701 = true.
Proof. vm_compute. reflexivity. Qed.
Lemma rows : forall sum won, 640 <= sum < 701 -> 0 <= won <= sum -> pair_ok won sum.
Proof. exact (check_block_ok 640 701 ltac:(discriminate) block). Qed.
