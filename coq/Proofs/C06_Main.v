(* Proofs/C06_Main.v -- the C06 statements in the vocabulary of Base/ Model/ Spec/ (popcount64 instead of
   the proof-internal pc), ready to be quoted by Props/C06.v. *)
From Coq Require Import NArith ZArith List Bool Lia ZifyBool ZifyN ZifyNat Sorted.
From RP Require Import Base.Bits Gen.GenCards Gen.GenStreet Model.Codec Model.Hands Spec.SpecCombs Spec.SpecIter.
From RP Require Import Proofs.BitsLemmas Proofs.C15_Hand Proofs.C06_Cat Proofs.C06_Gosper Proofs.C06_Fuel
  Proofs.C06_Combs Proofs.C06_Iter Proofs.C06_Hands.
Import ListNotations.
Open Scope N_scope.

Arguments N.add : simpl never.
Arguments N.mul : simpl never.
Arguments N.sub : simpl never.
Arguments N.shiftl : simpl never.
Arguments N.shiftr : simpl never.
Arguments N.land : simpl never.
Arguments N.lor : simpl never.
Arguments N.lxor : simpl never.
Arguments N.pow : simpl never.
Arguments N.testbit : simpl never.

(* ---------- 1. Gosper step ---------- *)
Lemma C06_permute_succ_wide : forall a b r,
  a + b + 2 <= 64 -> 2 ^ a * (2 ^ (b + 1) - 1) + 2 ^ (a + b + 2) * r < 2 ^ 64 ->
  permute_next (2 ^ a * (2 ^ (b + 1) - 1) + 2 ^ (a + b + 2) * r)
  = Some ((2 ^ b - 1) + 2 ^ (a + b + 1) + 2 ^ (a + b + 2) * r).
Proof.
  intros a b r Hw Hx. rewrite <- gosper_shape_arith in *. rewrite <- gosper_next_arith.
  apply permute_next_shape; assumption.
Qed.

Lemma C06_permute_succ : forall a b r,
  2 ^ a * (2 ^ (b + 1) - 1) + 2 ^ (a + b + 2) * r < 2 ^ 63 ->
  permute_next (2 ^ a * (2 ^ (b + 1) - 1) + 2 ^ (a + b + 2) * r)
  = Some ((2 ^ b - 1) + 2 ^ (a + b + 1) + 2 ^ (a + b + 2) * r).
Proof.
  intros a b r Hx. rewrite <- gosper_shape_arith in *. rewrite <- gosper_next_arith.
  apply permute_next_succ_shape. exact Hx.
Qed.

Lemma C06_shape_exists : forall x, 0 < x ->
  exists a b r, x = 2 ^ a * (2 ^ (b + 1) - 1) + 2 ^ (a + b + 2) * r.
Proof.
  intros x Hx. destruct (gosper_shape_exists x Hx) as (a & b & r & E).
  exists a, b, r. rewrite <- gosper_shape_arith. exact E.
Qed.

Lemma C06_permute_next_least : forall x, 0 < x -> x < 2 ^ 63 ->
  exists y, permute_next x = Some y /\ x < y /\ y < 2 ^ 64 /\ popcount64 y = popcount64 x /\
            forall z, x < z -> z < y -> popcount64 z <> popcount64 x.
Proof.
  intros x Hpos Hx.
  destruct (permute_next_pc_succ x Hpos Hx) as (y & Ey & (Hxy & Hpc & Hbetween) & Hy).
  exists y. split; [exact Ey|]. split; [exact Hxy|]. split; [exact Hy|].
  pose proof (lt63_lt64 x Hx) as Hx64.
  split.
  - rewrite !popcount64_pc by assumption. exact Hpc.
  - intros z H1 H2. rewrite !popcount64_pc by (try assumption; lia). apply Hbetween; assumption.
Qed.

Lemma C06_permute_zero : permute_next 0 = None.
Proof. reflexivity. Qed.

(* ---------- 2. fuel ---------- *)
Lemma C06_fuel : forall (A : Type) (step : A -> outcome A) fuel a n r,
  reaches step a n r -> N.of_nat n < Npos fuel -> repeat_until fuel step a = r.
Proof. intros A step fuel a n r. apply repeat_until_reaches. Qed.

(* advance(): from a k-bit word below 2^52 * (2^k - 1), the loop ends within y - x < 2^60 iterations
   at the least larger k-bit word y disjoint from the mask *)
Lemma C06_advance_spec : forall k m x, 1 <= k -> k <= 8 -> m < 2 ^ 52 ->
  popcount64 x = k -> x < 2 ^ 52 * (2 ^ k - 1) ->
  exists n y, reaches (advance_step m) x n (Stop y) /\ N.of_nat n < Npos big_fuel /\
    advance (mkHiter x m) = Some (mkHiter y m) /\
    x < y /\ y <= 2 ^ 52 * (2 ^ k - 1) /\ popcount64 y = k /\ N.land y m = 0 /\
    (forall z, x < z -> z < y -> popcount64 z = k -> N.land z m <> 0).
Proof.
  intros k m x Hk1 Hk8 Hm Hpc Hx.
  assert (Ht : top k = 2 ^ 52 * (2 ^ k - 1)) by (unfold top, cat, ones; lia).
  rewrite <- Ht in *.
  pose proof (top_lt k Hk8) as Htl.
  assert (Hx64 : x < 2 ^ 64).
  { assert (1152921504606846976 < 2 ^ 64) by reflexivity. lia. }
  rewrite popcount64_pc in Hpc by exact Hx64.
  destruct (advance_reaches k m Hk1 Hk8 Hm x Hpc Hx) as (n & y & Hr & H1 & H2 & H3 & H4 & H5 & H6).
  assert (Hy64 : y < 2 ^ 64).
  { assert (1152921504606846976 < 2 ^ 64) by reflexivity. lia. }
  exists n, y. split; [exact Hr|].
  assert (Hn : N.of_nat n < N.pos big_fuel) by (unfold big_fuel; lia).
  split; [exact Hn|]. split.
  - unfold advance. cbn [hmask hnext]. rewrite (repeat_until_reaches _ big_fuel x n (Stop y) Hr Hn). reflexivity.
  - split; [exact H1|]. split; [exact H2|]. split; [rewrite popcount64_pc by exact Hy64; exact H3|].
    split; [exact H4|]. intros z Hz1 Hz2 Hz3. apply H5; try assumption.
    rewrite popcount64_pc in Hz3 by lia. exact Hz3.
Qed.

(* ---------- 3. the hand iterator ---------- *)
Lemma land_sub_iff : forall z F, N.land z F = z <-> (forall i, N.testbit z i = true -> N.testbit F i = true).
Proof.
  intros z F. split.
  - intros H i Hi. rewrite <- H, N.land_spec in Hi. apply andb_true_iff in Hi. tauto.
  - intros H. apply N.bits_inj. intros i. rewrite N.land_spec.
    destruct (N.testbit z i) eqn:E; [|reflexivity]. rewrite (H i E). reflexivity.
Qed.

(* the specification list contains exactly the k-card hands made of free cards *)
Lemma C06_spec_hands_in : forall d mask k z,
  In z (spec_hands d k mask) <-> (popcount64 z = N.of_nat k /\ N.land z (free_cards d mask) = z).
Proof.
  intros d mask k z. rewrite spec_hands_in, land_sub_iff, free_iff. split.
  - intros (Hp & Hz & Hdis). rewrite popcount64_pc by (apply pow2_52_64; exact Hz). tauto.
  - intros (Hp & Hz & Hdis). rewrite popcount64_pc in Hp by (apply pow2_52_64; exact Hz). tauto.
Qed.

Lemma C06_hands_enum : forall d k mask, (1 <= k <= 7)%nat -> N.land mask (hand_mask d) = mask ->
  exists it, hand_iter d (N.of_nat k) mask = Some it /\
             hands_all d it (spec_hands d k mask) /\
             hands_take (S (length (spec_hands d k mask))) d it = Some (spec_hands d k mask).
Proof.
  intros d k mask Hk Hmask.
  destruct (hands_enum d mask k Hmask ltac:(lia)) as (it & E & Hall).
  exists it. split; [exact E|]. split; [exact Hall|].
  apply (hands_all_take d it _ Hall). lia.
Qed.

Lemma C06_hands_sorted : forall d k mask, StronglySorted N.lt (spec_hands d k mask).
Proof. intros d k mask. apply spec_hands_sorted. Qed.

Lemma C06_hands_nodup : forall d k mask, NoDup (spec_hands d k mask).
Proof. intros d k mask. apply StronglySorted_lt_NoDup. apply spec_hands_sorted. Qed.

Lemma C06_hands_count : forall d k mask,
  N.of_nat (length (spec_hands d k mask)) = choose (n_free d mask) k.
Proof. intros d k mask. apply spec_hands_length. Qed.

Lemma C06_hands_no_overflow : forall d k mask, (1 <= k <= 7)%nat -> N.land mask (hand_mask d) = mask ->
  exists it, hand_iter d (N.of_nat k) mask = Some it /\ forall limit, hands_take limit d it <> None.
Proof.
  intros d k mask Hk Hmask.
  destruct (hands_enum d mask k Hmask ltac:(lia)) as (it & E & Hall).
  exists it. split; [exact E|]. intros limit.
  destruct (Nat.lt_ge_cases (length (spec_hands d k mask)) limit) as [H | H].
  - rewrite (hands_all_take d it _ Hall limit H). discriminate.
  - rewrite (hands_all_take_prefix d it _ Hall limit H). discriminate.
Qed.

(* ---------- 4. k = 0 ---------- *)
Lemma C06_hands_k0 : forall d mask, N.land mask (hand_mask d) = mask ->
  exists it, hand_iter d 0 mask = Some it /\ hand_next d it = Some None.
Proof. intros d mask _. apply hands_k0. Qed.

Lemma C06_k0_finding : forall d mask, N.land mask (hand_mask d) = mask ->
  (exists it, hand_iter d 0 mask = Some it /\ hands_all d it []) /\ spec_hands d 0 mask = [0].
Proof.
  intros d mask _. split; [|apply spec_hands_k0].
  destruct (hands_k0 d mask) as (it & E & Hn). exists it. split; [exact E|]. constructor. exact Hn.
Qed.
