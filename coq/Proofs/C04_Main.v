(* Proofs/C04_Main.v -- property C04: Showdown.settle on every well-formed ledger.
   Assembles the loop invariants (C04_Basic, C04_Layers, C04_Fair) through the loop rule (C04_Loop). *)
From Coq Require Import ZArith NArith QArith Qabs Lqa List Bool Lia.
From RP Require Import Model.Showdown Spec.SpecPots Proofs.C04_Lists Proofs.C04_Loop Proofs.C04_Basic
  Proofs.C04_Layers Proofs.C04_Fair.
Import ListNotations.
Open Scope Z_scope.

Lemma In_combine_seq_gen : forall (A : Type) (L : list A) s n i y,
  In (i, y) (combine (seq s n) L) -> exists j, i = (s + j)%nat /\ nth_error L j = Some y.
Proof.
  intros A L. induction L as [|a L IH]; intros s n i y H.
  - destruct (seq s n); destruct H.
  - destruct n as [|n]; [destruct H|]. cbn [seq combine] in H. destruct H as [H|H].
    + injection H as <- <-. exists O. split; [lia|reflexivity].
    + destruct (IH (S s) n i y H) as [j [Hj Hn]]. exists (S j). split; [lia|exact Hn].
Qed.

Lemma Qlt_bool_true : forall a b : Q, (a < b)%Q -> Qlt_bool a b = true.
Proof.
  intros a b H. unfold Qlt_bool. apply andb_true_intro. split.
  - apply Qle_bool_iff. apply Qlt_le_weak. exact H.
  - destruct (Qeq_bool a b) eqn:E; [|reflexivity]. apply Qeq_bool_iff in E. exfalso. lra.
Qed.

Lemma Qlt_bool_lt : forall a b : Q, Qlt_bool a b = true -> (a < b)%Q.
Proof.
  intros a b H. unfold Qlt_bool in H. apply andb_prop in H. destruct H as [H1 H2].
  apply Qle_bool_iff in H1. destruct (Qeq_bool a b) eqn:E; [discriminate|].
  apply Qeq_bool_neq in E. apply Qle_lteq in H1. destruct H1 as [H1|H1]; [exact H1|contradiction].
Qed.

Section Main.
  Variable l : list pay.
  Hypothesis Hwf : wf_ledger l = true.
  Hypothesis H0 : Forall (fun p => reward p = 0) l.

  Definition Full (ps : list pay) (D : Z) (bst : option N) : Prop :=
    Binv l ps D bst /\ Linv l ps /\ Finv l ps D.

  Lemma settle_main : forall rw, settle l = Some rw ->
    exists ps D bst, rw = map reward ps /\ Full ps D bst /\ (forall p, In p l -> risked p <= D).
  Proof.
    intros rw H. unfold settle in H. destruct (settle_result l) as [s|s| |] eqn:Hr; try discriminate.
    injection H as <-. unfold settle_result in Hr.
    destruct (winners_hoare Full) with (fuel := S (S (length l))) (s := mkSd l 0 0 None) (s' := s)
      as [HF Hfin].
    - intros ps D bst b [HB [HL HF]] He Hs. split; [|split].
      + apply (Binv_enter l ps D bst b HB He Hs).
      + exact HL.
      + exact HF.
    - intros ps D b amt [HB [HL HF]] Hmin. split; [|split].
      + apply Binv_step; assumption.
      + apply (Linv_step l ps D b amt HB HL Hmin).
      + apply (Finv_step l ps D b amt HB HF Hmin).
    - cbn [pays distributing best]. split; [|split].
      + apply Binv_init; assumption.
      + apply Linv_init; assumption.
      + apply Finv_init; assumption.
    - exact I.
    - exact Hr.
    - exists (pays s), (distributing s), (best s). split; [reflexivity|]. split; [exact HF|].
      destruct HF as [HB _]. apply (Binv_final l Hwf _ _ _ HB).
      destruct Hfin as [Hc|Hx]; [left; exact Hc|right; exact Hx].
  Qed.

  Lemma ps_index : forall ps i r, map strip ps = l -> nth_error (map reward ps) i = Some r ->
    exists p', nth_error ps i = Some p' /\ r = reward p' /\ nth_error l i = Some (strip p').
  Proof.
    intros ps i r Hs Hr. apply nth_error_map_inv in Hr. destruct Hr as [p' [Hp' ->]].
    exists p'. split; [exact Hp'|]. split; [reflexivity|]. rewrite <- Hs. apply map_nth_error. exact Hp'.
  Qed.

  Lemma C04_settles_proof : exists rw, settle l = Some rw /\ length rw = length l.
  Proof.
    destruct (settle_total l) as [s [Hs Hl]]. exists (map reward (pays s)). unfold settle. rewrite Hs.
    split; [reflexivity|]. rewrite map_length. exact Hl.
  Qed.

  Lemma C04_total_proof : forall rw, settle l = Some rw -> sumZ rw = sumZ (map risked l).
  Proof.
    intros rw H. destruct (settle_main rw H) as [ps [D [bst [-> [[HB _] Hall]]]]].
    rewrite (B_sum _ _ _ _ HB). unfold capsum. apply sumZ_map_ext. intros q Hq. specialize (Hall q Hq). lia.
  Qed.

  Lemma C04_folded_proof : forall rw i p, settle l = Some rw -> nth_error l i = Some p ->
    status p = Folding -> nth_error rw i = Some 0.
  Proof.
    intros rw i p H Hp Hst. destruct (settle_main rw H) as [ps [D [bst [-> [[HB _] Hall]]]]].
    pose proof (B_shape _ _ _ _ HB) as Hs. rewrite <- Hs in Hp.
    apply nth_error_map_inv in Hp. destruct Hp as [p' [Hp' ->]].
    rewrite (map_nth_error reward i ps Hp'). f_equal.
    destruct (B_each _ _ _ _ HB p' (nth_error_In _ _ Hp')) as [_ [Hf _]]. apply Hf.
    unfold nonfold. cbn [strip status] in Hst. rewrite Hst. reflexivity.
  Qed.

  Lemma C04_nonneg_proof : forall rw, settle l = Some rw -> Forall (fun r => 0 <= r) rw.
  Proof.
    intros rw H. destruct (settle_main rw H) as [ps [D [bst [-> [[HB _] Hall]]]]].
    apply Forall_forall. intros r Hr. apply in_map_iff in Hr. destruct Hr as [p' [<- Hp']].
    apply (B_each _ _ _ _ HB p' Hp').
  Qed.

  Lemma C04_cap_proof : forall rw i p r, settle l = Some rw -> nth_error l i = Some p ->
    nth_error rw i = Some r -> r <= sumZ (map (fun q => Z.min (risked q) (risked p)) l).
  Proof.
    intros rw i p r H Hp Hr. destruct (settle_main rw H) as [ps [D [bst [-> [[HB _] Hall]]]]].
    destruct (ps_index ps i r (B_shape _ _ _ _ HB) Hr) as [p' [Hp' [-> Hl]]].
    rewrite Hl in Hp. injection Hp as <-. cbn [strip risked].
    destruct (B_each _ _ _ _ HB p' (nth_error_In _ _ Hp')) as [_ [_ Hcap]].
    pose proof (capsum_mono l (Z.min (risked p') D) (risked p') ltac:(lia)) as Hm.
    unfold capsum in *. lia.
  Qed.

  Lemma C04_best_proof : forall rw i r, settle l = Some rw -> nth_error rw i = Some r -> r > 0 ->
    exists hi, In hi (levels l) /\ nth i (layer_winners l hi) false = true.
  Proof.
    intros rw i r H Hr Hpos. destruct (settle_main rw H) as [ps [D [bst [-> [[HB [HL _]] Hall]]]]].
    destruct (ps_index ps i r (B_shape _ _ _ _ HB) Hr) as [p' [Hp' [-> _]]].
    apply (HL i p' Hp'). lia.
  Qed.

  Lemma settle_J : forall rw i r f, settle l = Some rw -> nth_error rw i = Some r ->
    nth_error (fair_share l) i = Some f -> J r f (pots_won l i).
  Proof.
    intros rw i r f H Hr Hf. destruct (settle_main rw H) as [ps [D [bst [-> [[HB [_ HF]] Hall]]]]].
    destruct (ps_index ps i r (B_shape _ _ _ _ HB) Hr) as [p' [Hp' [-> _]]].
    apply (Finv_final l ps D HF Hall i p' Hp' f Hf).
  Qed.

  Lemma C04_fair_proof : forall rw i r f, settle l = Some rw -> nth_error rw i = Some r ->
    nth_error (fair_share l) i = Some f ->
    ((f == 0)%Q -> r = 0) /\
    (~ (f == 0)%Q -> (Qabs ((r # 1) - f) < (Z.max 1 (pots_won l i) # 1))%Q).
  Proof.
    intros rw i r f H Hr Hf. destruct (settle_J rw i r f H Hr Hf) as [Hk [J0 J1]].
    destruct (Z.eq_dec (pots_won l i) 0) as [Hk0|Hk0].
    - destruct (J0 Hk0) as [Hr0 Hf0]. split; [intros _; exact Hr0|]. intros Hn. contradiction.
    - destruct (J1 ltac:(lia)) as [Hfpos [Hlo Hhi]]. split.
      + intros Hf0. exfalso. lra.
      + intros _. replace (Z.max 1 (pots_won l i)) with (pots_won l i) by lia.
        apply Qabs_Qlt_condition. split; assumption.
  Qed.

  Lemma C04_payout_ok_proof : forall rw, settle l = Some rw -> payout_ok l rw = true.
  Proof.
    intros rw H. unfold payout_ok.
    destruct C04_settles_proof as [rw' [H' Hlen]]. rewrite H in H'. injection H' as <-.
    apply andb_true_intro. split; [apply andb_true_intro; split|].
    - apply Nat.eqb_eq. exact Hlen.
    - apply Z.eqb_eq. apply C04_total_proof. exact H.
    - apply forallb_forall. intros [i [p [ri fi]]] Hin.
      apply In_combine_seq_gen in Hin. destruct Hin as [j [Hj Hn]]. cbn [Nat.add] in Hj. subst j.
      apply nth_error_combine in Hn. destruct Hn as [Hp Hn].
      apply nth_error_combine in Hn. destruct Hn as [Hr Hf].
      apply andb_true_intro. split; [apply andb_true_intro; split; [apply andb_true_intro; split|]|].
      + destruct (is_fold (status p)) eqn:Hfold; [|reflexivity].
        assert (status p = Folding) as Hst by (destruct (status p); try discriminate; reflexivity).
        pose proof (C04_folded_proof rw i p H Hp Hst) as Hz. rewrite Hr in Hz. injection Hz as ->. reflexivity.
      + apply Z.leb_le. pose proof (C04_nonneg_proof rw H) as Hnn. rewrite Forall_forall in Hnn.
        apply Hnn. apply nth_error_In in Hr. exact Hr.
      + destruct (settle_J rw i ri fi H Hr Hf) as [Hk [J0 J1]].
        destruct (Qeq_bool fi 0) eqn:E.
        * apply Qeq_bool_iff in E. apply Z.eqb_eq.
          destruct (Z.eq_dec (pots_won l i) 0) as [Hk0|Hk0]; [apply (J0 Hk0)|].
          destruct (J1 ltac:(lia)) as [Hfpos _]. exfalso. lra.
        * apply Qeq_bool_neq in E.
          destruct (Z.eq_dec (pots_won l i) 0) as [Hk0|Hk0]; [exfalso; apply E; apply (J0 Hk0)|].
          destruct (J1 ltac:(lia)) as [_ [Hlo Hhi]].
          replace (Z.max 1 (pots_won l i)) with (pots_won l i) by lia.
          apply andb_true_intro. split; apply Qlt_bool_true; assumption.
      + apply Z.leb_le. apply (C04_cap_proof rw i p ri H Hp Hr).
  Qed.
End Main.

(* settle never panics nor runs out of fuel on ANY ledger; the form asked for by C04 *)
Lemma C04_settles_wf_proof : forall l, wf_ledger l = true -> Forall (fun p => reward p = 0) l ->
  exists rw, settle l = Some rw /\ length rw = length l.
Proof. intros l _ _. exact (C04_settles_proof l). Qed.
