(* Proofs/C12_Duality.v -- weak duality of optimal transport over Q and the lower bound it gives on the
   cost of a plan whose row sums are only approximately the source histogram *)
From Coq Require Import NArith ZArith QArith Qabs Qminmax List Bool Lia Lqa.
From RP Require Import Model.Emd Spec.SpecTransport Spec.SpecDuality Proofs.C12_QSum.
Import ListNotations.
Local Open Scope Q_scope.

(* the dual value against the marginals of P is the double sum of (f i + g j) * P i j *)
Lemma dual_value_double_sum : forall n m P f g mu' nu,
  has_row_sums n m P mu' -> has_col_sums n m P nu ->
  dual_value n m f g mu' nu ==
  qsum_range 0 n (fun i => qsum_range 0 m (fun j => (f i + g j) * P i j)).
Proof.
  intros n m P f g mu' nu Hrow Hcol. unfold dual_value.
  assert (E1 : qsum_range 0 n (fun i => f i * mu' i) ==
               qsum_range 0 n (fun i => qsum_range 0 m (fun j => f i * P i j))).
  { apply qsum_range_ext. intros i Hi. rewrite qsum_range_scal_l.
    rewrite <- (Hrow i) by lia. reflexivity. }
  assert (E2 : qsum_range 0 m (fun j => g j * nu j) ==
               qsum_range 0 n (fun i => qsum_range 0 m (fun j => g j * P i j))).
  { rewrite (qsum_range_swap n 0 m 0 (fun i j => g j * P i j)).
    apply qsum_range_ext. intros j Hj. rewrite qsum_range_scal_l.
    rewrite <- (Hcol j) by lia. reflexivity. }
  rewrite E1, E2, <- qsum_range_plus.
  apply qsum_range_ext. intros i _. rewrite <- qsum_range_plus.
  apply qsum_range_ext. intros j _. ring.
Qed.

Lemma weak_duality : forall n m d P f g mu' nu,
  nonneg_plan n m P -> has_row_sums n m P mu' -> has_col_sums n m P nu ->
  dual_feasible n m d f g ->
  dual_value n m f g mu' nu <= plan_cost n m d P.
Proof.
  intros n m d P f g mu' nu Hnn Hrow Hcol Hfg.
  rewrite (dual_value_double_sum n m P f g mu' nu Hrow Hcol). unfold plan_cost.
  apply qsum_range_le. intros i Hi. apply qsum_range_le. intros j Hj.
  assert (HP : 0 <= P i j) by (apply Hnn; lia).
  assert (Hd : f i + g j <= d i j) by (apply Hfg; lia).
  rewrite (Qmult_comm (P i j)). apply Qmult_le_compat_r; assumption.
Qed.

Lemma optimum_at_least_dual : forall n m d Q f g mu nu,
  coupling_of n m Q mu nu -> dual_feasible n m d f g ->
  dual_value n m f g mu nu <= plan_cost n m d Q.
Proof.
  intros n m d Q f g mu nu [Hnn [Hrow Hcol]] Hfg. now apply weak_duality.
Qed.

(* changing the source marginal moves the dual value by at most F * (the misplaced mass) *)
Lemma dual_value_source_shift : forall n m f g mu mu' nu F,
  (forall i, (i < n)%nat -> qabs (f i) <= F) ->
  dual_value n m f g mu nu - F * misplaced n mu mu' <= dual_value n m f g mu' nu.
Proof.
  intros n m f g mu mu' nu F HF. unfold dual_value, misplaced.
  assert (H : qsum_range 0 n (fun i => f i * mu i) - qsum_range 0 n (fun i => f i * mu' i) <=
              F * qsum_range 0 n (fun i => qabs (mu i - mu' i))).
  { rewrite <- qsum_range_minus, <- qsum_range_scal_l.
    apply qsum_range_le. intros i Hi.
    assert (Hf : qabs (f i) <= F) by (apply HF; lia).
    assert (E : f i * mu i - f i * mu' i == f i * (mu i - mu' i)) by ring. rewrite E.
    apply Qle_trans with (qabs (f i * (mu i - mu' i))); [apply qabs_ge|].
    rewrite !qabs_Qabs, Qabs_Qmult. rewrite <- !qabs_Qabs.
    apply Qmult_le_compat_r; [exact Hf|apply qabs_nonneg]. }
  lra.
Qed.

Lemma plan_cost_lower_bound : forall n m d P f g mu mu' nu F,
  nonneg_plan n m P -> has_row_sums n m P mu' -> has_col_sums n m P nu ->
  dual_feasible n m d f g -> (forall i, (i < n)%nat -> qabs (f i) <= F) ->
  dual_value n m f g mu nu - F * misplaced n mu mu' <= plan_cost n m d P.
Proof.
  intros n m d P f g mu mu' nu F Hnn Hrow Hcol Hfg HF.
  apply Qle_trans with (dual_value n m f g mu' nu).
  - now apply dual_value_source_shift.
  - now apply weak_duality.
Qed.

(* ---------- potentials can be taken in [0,1] when the ground cost is in [0,1] ---------- *)
(* minimum of h over 0..len (len + 1 values) *)
Fixpoint minr (len : nat) (h : nat -> Q) : Q :=
  match len with O => h O | S k => Qmin (minr k h) (h (S k)) end.

Lemma minr_le : forall len h i, (i <= len)%nat -> minr len h <= h i.
Proof.
  induction len as [|len IH]; intros h i Hi.
  - assert (i = O) by lia. subst i. cbn [minr]. lra.
  - cbn [minr]. destruct (Nat.eq_dec i (S len)) as [->|Hne].
    + apply Q.le_min_r.
    + apply Qle_trans with (minr len h); [apply Q.le_min_l|apply IH; lia].
Qed.

Lemma minr_attained : forall len h, exists i, (i <= len)%nat /\ minr len h == h i.
Proof.
  induction len as [|len IH]; intros h.
  - exists O. split; [lia|reflexivity].
  - cbn [minr]. destruct (Q.min_spec (minr len h) (h (S len))) as [[_ E]|[_ E]].
    + destruct (IH h) as [i [Hi Ei]]. exists i. split; [lia|]. rewrite E. exact Ei.
    + exists (S len). split; [lia|exact E].
Qed.

Lemma potentials_bounded : forall n m d f g mu nu,
  (0 < n)%nat -> (0 < m)%nat ->
  (forall i j, (i < n)%nat -> (j < m)%nat -> 0 <= d i j <= 1) ->
  dual_feasible n m d f g ->
  (forall i, (i < n)%nat -> 0 <= mu i) -> qsum_range 0 n mu == qsum_range 0 m nu ->
  exists f' g', dual_feasible n m d f' g' /\ (forall i, (i < n)%nat -> 0 <= f' i <= 1) /\
                dual_value n m f g mu nu <= dual_value n m f' g' mu nu.
Proof.
  intros n m d f g mu nu Hn Hm Hd Hfg Hmu Hmass.
  set (f1 := fun i => minr (m - 1) (fun j => d i j - g j)).
  set (c := minr (n - 1) f1).
  assert (Hf1le : forall i j, (j < m)%nat -> f1 i <= d i j - g j).
  { intros i j Hj. unfold f1. apply (minr_le (m - 1) (fun j0 => d i j0 - g j0) j). lia. }
  assert (Hf1at : forall i, exists j, (j < m)%nat /\ f1 i == d i j - g j).
  { intros i. destruct (minr_attained (m - 1) (fun j => d i j - g j)) as [j [Hj Ej]].
    exists j. split; [lia|exact Ej]. }
  assert (Hff1 : forall i, (i < n)%nat -> f i <= f1 i).
  { intros i Hi. destruct (Hf1at i) as [j [Hj Ej]]. rewrite Ej.
    assert (H := Hfg i j Hi Hj). lra. }
  assert (Hosc : forall i k, (i < n)%nat -> (k < n)%nat -> f1 i <= f1 k + 1).
  { intros i k Hi Hk. destruct (Hf1at k) as [j [Hj Ej]]. rewrite Ej.
    assert (H1 := Hf1le i j Hj). assert (H2 := Hd i j Hi Hj). assert (H3 := Hd k j Hk Hj). lra. }
  assert (Hcle : forall i, (i < n)%nat -> c <= f1 i).
  { intros i Hi. unfold c. apply (minr_le (n - 1) f1 i). lia. }
  destruct (minr_attained (n - 1) f1) as [k [Hk Ek]]. fold c in Ek.
  exists (fun i => f1 i - c), (fun j => g j + c). split; [|split].
  - intros i j Hi Hj. assert (H := Hf1le i j Hj). lra.
  - intros i Hi. assert (H1 := Hcle i Hi). assert (H2 := Hosc i k Hi ltac:(lia)). lra.
  - unfold dual_value.
    assert (E1 : qsum_range 0 n (fun i => (f1 i - c) * mu i) ==
                 qsum_range 0 n (fun i => f1 i * mu i) - c * qsum_range 0 n mu).
    { rewrite <- qsum_range_scal_l, <- qsum_range_minus. apply qsum_range_ext. intros i _. ring. }
    assert (E2 : qsum_range 0 m (fun j => (g j + c) * nu j) ==
                 qsum_range 0 m (fun j => g j * nu j) + c * qsum_range 0 m nu).
    { rewrite <- qsum_range_scal_l, <- qsum_range_plus. apply qsum_range_ext. intros j _. ring. }
    rewrite E1, E2, Hmass.
    assert (L : qsum_range 0 n (fun i => f i * mu i) <= qsum_range 0 n (fun i => f1 i * mu i)).
    { apply qsum_range_le. intros i Hi. apply Qmult_le_compat_r; [apply Hff1; lia|apply Hmu; lia]. }
    lra.
Qed.

(* ---------- case analysis on indices below 3 (for the worked instance in Props/C12.v) ---------- *)
Lemma below3 : forall (A : nat -> Prop), A 0%nat -> A 1%nat -> A 2%nat -> forall i, (i < 3)%nat -> A i.
Proof.
  intros A H0 H1 H2 i Hi. destruct i as [|[|[|i]]]; [assumption|assumption|assumption|lia].
Qed.

Lemma below3_2 : forall (A : nat -> nat -> Prop),
  (forall i, (i < 3)%nat -> A i 0%nat) -> (forall i, (i < 3)%nat -> A i 1%nat) ->
  (forall i, (i < 3)%nat -> A i 2%nat) ->
  forall i j, (i < 3)%nat -> (j < 3)%nat -> A i j.
Proof.
  intros A H0 H1 H2 i j Hi Hj. revert j Hj. apply below3; [apply H0|apply H1|apply H2]; exact Hi.
Qed.
