(* Proofs/C07_BucketF32_s11.v -- shard: rows 949 <= sum < 991, every 0 <= won <= sum, by evaluation (check_pair). *)
From Coq Require Import ZArith.
From RP Require Import Model.BucketF32 Proofs.C07_BucketF32_chk.
Open Scope Z_scope.
Lemma block : check_block 949 991 = true.
Proof. vm_compute. reflexivity. Qed.
Lemma rows : forall sum won, 949 <= sum < 991 -> 0 <= won <= sum -> pair_ok won sum.
Proof. exact (check_block_ok 949 991 ltac:(discriminate) block). Qed.
