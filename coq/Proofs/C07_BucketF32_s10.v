(* Proofs/C07_BucketF32_s10.v -- shard: rows 905 <= sum < 949, every 0 <= won <= sum, by evaluation (check_pair). *)
From Coq Require Import ZArith.
From RP Require Import Model.BucketF32 Proofs.C07_BucketF32_chk.
Open Scope Z_scope.
Lemma block : check_block 905 949 = true.
Proof. vm_compute. reflexivity. Qed.
Lemma rows : forall sum won, 905 <= sum < 949 -> 0 <= won <= sum -> pair_ok won sum.
Proof. exact (check_block_ok 905 949 ltac:(discriminate) block). Qed.
