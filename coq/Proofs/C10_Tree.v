(* Proofs/C10_Tree.v -- property C10: the nodes of a sampled tree over reachable game states.
   Children are the parent after a permitted action (decision and chance nodes), leaves are
   zero-sum, paths are finite, the menu of a traverser node is non-empty and duplicate-free, and
   -- the part that makes the raise count exact -- a betting round along a tree path has at most
   MAX_RAISE_REPEATS + 5 <= MAX_DEPTH_SUBGAME edges. *)
From Coq Require Import ZArith NArith List Bool Lia.
From RP Require Import Base.Bits Gen.GenLib Gen.GenFixes Gen.GenAbstract Model.Codec Model.Showdown Model.Game
                       Model.Tree
                       Spec.SpecNLHE Spec.SpecGameInv Spec.SpecRel Spec.SpecSettle Spec.SpecMenu Spec.SpecTree
                       Proofs.C02_Inv Proofs.C02_Settle
                       Proofs.C03_Flat Proofs.C03_Moves Proofs.C03_Bisim Proofs.C11_Menu
                       Proofs.C10_Cap Proofs.C10_Step.
Import ListNotations.
Open Scope Z_scope.

(* ---------- children ---------- *)
Lemma child_game_0 : forall d g e, child_game d g e 0 = apply d g (actionize g e).
Proof. intros d g e. destruct e; reflexivity. Qed.
Lemma child_game_choice : forall d g e dealt, e <> EDraw -> child_game d g e dealt = apply d g (actionize g e).
Proof. intros d g e dealt He. destruct e; try reflexivity. contradiction He. reflexivity. Qed.

Theorem child_permitted : forall d hs g i h m e,
  wf_holes d hs -> reachable d hs g -> turn_of g = Choice i ->
  node_menu g h = Some m -> In e m ->
  exists g', child_game d g e 0 = Some g' /\ reachable d hs g'.
Proof.
  intros d hs g i h m e Hwf Hreach Ht Hm Hin.
  pose proof (menu_accepts d hs g (n_raises h) i m e Hwf Hreach Ht Hm Hin) as Hall.
  rewrite child_game_0. exact (reachable_progress d hs g _ Hwf Hreach Hall).
Qed.

Theorem chance_child : forall d hs g c,
  wf_holes d hs -> reachable d hs g -> turn_of g = Chance -> is_allowed d g (Draw c) = Some true ->
  exists g', child_game d g EDraw c = Some g' /\ reachable d hs g'.
Proof.
  intros d hs g c Hwf Hreach _ Hall. cbn [child_game].
  exact (reachable_progress d hs g _ Hwf Hreach Hall).
Qed.

(* the menus of chance nodes and of leaves *)
Lemma chance_menu : forall g h, turn_of g = Chance -> node_menu g h = Some [EDraw].
Proof.
  intros g h Ht. unfold node_menu, choices, legal, turn_of in *.
  destruct (must_stop g); [discriminate Ht|]. destruct (must_deal g); [reflexivity|discriminate Ht].
Qed.
Lemma leaf_menu : forall g h, turn_of g = Terminal -> node_menu g h = Some [].
Proof.
  intros g h Ht. unfold node_menu, choices, legal, turn_of in *.
  destruct (must_stop g); [reflexivity|]. destruct (must_deal g); discriminate Ht.
Qed.

(* ---------- leaves ---------- *)
Lemma terminal_stop : forall g, turn_of g = Terminal -> must_stop g = true.
Proof.
  intros g Ht. unfold turn_of in Ht. destruct (must_stop g); [reflexivity|].
  destruct (must_deal g); discriminate Ht.
Qed.

Theorem leaf_zero_sum : forall d hs g,
  wf_holes d hs -> reachable d hs g -> turn_of g = Terminal ->
  exists rw, settlements d g = Some rw /\
             sumZ (map (fun '(r, s) => r - spent s) (combine rw (seats g))) = 0.
Proof.
  intros d hs g Hwf Hreach Ht.
  destruct (settle_reachable_top d hs g Hwf Hreach (terminal_stop g Ht)) as (rw & Hrw & Hsum & _ & Hshape).
  destruct (chips_reachable d hs g Hwf Hreach) as (_ & _ & Hpot).
  exists rw. split; [exact Hrw|].
  unfold winner_takes_or_split in Hshape.
  destruct (seats g) as [|a [|b [|c r]]]; try contradiction Hshape.
  destruct rw as [|ra [|rb [|rc rr]]]; try contradiction Hshape.
  cbn in Hsum, Hpot |- *. unfold sumZ in *. cbn in *. lia.
Qed.

(* ---------- paths ---------- *)
Lemma run_snoc : forall d acts g0 g a g', run d g0 acts = Some g -> apply d g a = Some g' ->
  run d g0 (acts ++ [a]) = Some g'.
Proof.
  intros d acts. induction acts as [|x r IH]; intros g0 g a g' Hrun Happ.
  - cbn in Hrun. injection Hrun as ->. cbn. rewrite Happ. reflexivity.
  - cbn [run app] in *. destruct (apply d g0 x) as [g1|]; [|discriminate Hrun]. eapply IH; eassumption.
Qed.

Lemma child_game_apply : forall d g e dealt g', child_game d g e dealt = Some g' ->
  exists a, apply d g a = Some g'.
Proof. intros d g e dealt g' H. destruct e; cbn [child_game] in H; eexists; exact H. Qed.

Lemma tree_path_run : forall d g0 h g, tree_path d g0 h g ->
  exists acts, run d g0 acts = Some g /\ length acts = length h.
Proof.
  intros d g0 h g Hp. induction Hp as [|h g m e dealt g' Hp IH Hm Hin Hc].
  - exists []. split; reflexivity.
  - destruct IH as (acts & Hrun & Hlen). destruct (child_game_apply d g e dealt g' Hc) as (a & Ha).
    exists (acts ++ [a]). split; [eapply run_snoc; eassumption|].
    rewrite !app_length. cbn. lia.
Qed.

Lemma tree_path_reachable : forall d hs g0 h g, root d hs = Some g0 -> tree_path d g0 h g -> reachable d hs g.
Proof.
  intros d hs g0 h g Hroot Hp. destruct (tree_path_run d g0 h g Hp) as (acts & Hrun & _).
  exists g0, acts. split; assumption.
Qed.

Theorem finite : forall d hs g0 h g, wf_holes d hs -> root d hs = Some g0 -> tree_path d g0 h g ->
  Z.of_nat (length h) <= max_history.
Proof.
  intros d hs g0 h g Hwf Hroot Hp. destruct (tree_path_run d g0 h g Hp) as (acts & Hrun & Hlen).
  rewrite <- Hlen. exact (terminates d hs acts g0 g Hwf Hroot Hrun).
Qed.

Lemma tree_path_sampled : forall d g0 h g, tree_path d g0 h g -> sampled_history h.
Proof.
  intros d g0 h g Hp. induction Hp as [|h g m e dealt g' Hp IH Hm Hin Hc]; [constructor|].
  eapply sh_choice; eassumption.
Qed.

(* ---------- traverser nodes ---------- *)
Theorem menu_traverser : forall d hs g h walker,
  wf_holes d hs -> reachable d hs g -> who_acts g walker = WTraverser ->
  exists m, node_menu g h = Some m /\ m <> [] /\ NoDup m /\
            forall e, In e m -> exists g', child_game d g e 0 = Some g' /\ reachable d hs g'.
Proof.
  intros d hs g h walker Hwf Hreach Hwho.
  assert (Ht : exists i, turn_of g = Choice i).
  { unfold who_acts in Hwho. destruct (turn_of g) as [| |i]; try discriminate Hwho. exists i. reflexivity. }
  destruct Ht as (i & Ht).
  destruct (menu_ok d hs g (n_raises h) i Hwf Hreach Ht (n_raises_nonneg h)) as (m & Hm & Hne & Hnd).
  exists m. split; [exact Hm|]. split; [exact Hne|]. split; [exact Hnd|].
  intros e He. exact (child_permitted d hs g i h m e Hwf Hreach Ht Hm He).
Qed.

(* ---------- a betting round along a tree path is short ---------- *)
Definition is_passive_edge (e : edge) : bool :=
  match e with EFold | ECheck | ECall => true | _ => false end.
Definition is_shove_edge (e : edge) : bool := match e with EShove => true | _ => false end.

Lemma cur_split_choice : forall h,
  cur is_choice h = cur is_passive_edge h + cur is_raise_edge h + cur is_shove_edge h.
Proof.
  intros h. induction h as [|e h IH] using rev_ind; [reflexivity|].
  rewrite !cur_snoc. destruct e; cbn [is_choice is_passive_edge is_raise_edge is_shove_edge]; lia.
Qed.
Lemma cur_split_aggro : forall h, cur is_aggro h = cur is_raise_edge h + cur is_shove_edge h.
Proof.
  intros h. induction h as [|e h IH] using rev_ind; [reflexivity|].
  rewrite !cur_snoc. destruct e; cbn [is_aggro is_raise_edge is_shove_edge]; lia.
Qed.

(* two passive edges, MAX_RAISE_REPEATS + 1 raises, one all-in per seat *)
Definition round_bound : Z := MAX_RAISE_REPEATS + 5.
Lemma round_bound_fits : round_bound <= MAX_DEPTH_SUBGAME.
Proof. vm_compute. congruence. Qed.

Definition path_inv (h : list edge) (g : game) : Prop :=
  cur is_passive_edge h <= 2 /\
  cur is_raise_edge h <= MAX_RAISE_REPEATS + 1 /\
  cur is_shove_edge h <= zeros g /\
  (is_everyone_alright g = false ->
     cur is_passive_edge h <= 1 /\ (kturn g <= 1 -> cur is_passive_edge h = 0)) /\
  best is_choice h <= round_bound /\
  best is_aggro h <= MAX_RAISE_REPEATS + 3.

Lemma apply_allowed : forall d g a g', apply d g a = Some g' ->
  is_allowed d g a = Some true /\ act_unchecked g a = Some g'.
Proof.
  intros d g a g' H. unfold apply in H. destruct (is_allowed d g a) as [[|]|]; try discriminate H.
  split; [reflexivity|exact H].
Qed.

Lemma actionize_kind : forall g e,
  (is_passive_edge e = true -> is_passive_action (actionize g e) = true) /\
  (is_shove_edge e = true -> is_shove_action (actionize g e) = true).
Proof. intros g e. destruct e; cbn; split; intros H; try reflexivity; discriminate H. Qed.

Lemma path_inv_holds : forall d hs g0 h g, wf_holes d hs -> root d hs = Some g0 -> tree_path d g0 h g ->
  path_inv h g.
Proof.
  intros d hs g0 h g Hwf Hroot Hp.
  induction Hp as [|h g m e dealt g' Hp IH Hm Hin Hc].
  - unfold path_inv. change (cur _ []) with 0. change (best _ []) with 0.
    pose proof (zeros_bounds g0). unfold round_bound, MAX_RAISE_REPEATS. repeat split; lia.
  - pose proof (tree_path_reachable d hs g0 h g Hroot Hp) as Hreach.
    destruct IH as (HP & HR & HS & HA & HB & HG).
    pose proof (cur_split_aggro h) as Hag.
    assert (Hz2 : zeros g <= 2).
    { destruct (chips_reachable d hs g Hwf Hreach) as (Hlen & _). pose proof (zeros_bounds g). lia. }
    assert (Hcl : cur is_choice h <= round_bound).
    { rewrite cur_split_choice. unfold round_bound. lia. }
    destruct (turn_of g) as [| |j] eqn:Ht.
    + (* a leaf has no children *)
      rewrite (leaf_menu g h Ht) in Hm. injection Hm as <-. contradiction Hin.
    + (* a card is dealt: a new round begins *)
      rewrite (chance_menu g h Ht) in Hm. injection Hm as <-. destruct Hin as [<-|[]].
      unfold path_inv. rewrite !cur_snoc, (best_snoc is_choice), (best_snoc is_aggro).
      pose proof (zeros_bounds g'). unfold round_bound, MAX_RAISE_REPEATS in *.
      repeat split; try lia; intros _; reflexivity.
    + (* a decision *)
      destruct Hreach as (g0' & acts & Hroot' & Hrun).
      assert (Hfix : RAISE_ARM_CHECKS_TURN = true) by reflexivity.
      destruct (bisim Hfix d hs acts g0' g Hwf Hroot' Hrun) as (s & _ & HRel).
      destruct (choice_phase g j Ht) as [Hs Hd].
      destruct (R_choice_facts d g s j HRel Ht) as (Hpost & _ & _).
      pose proof (alright_of_choice g Hs Hd) as Halr.
      destruct (HA Halr) as [HP1 HP0].
      unfold node_menu in Hm. rewrite (choices_menu g _ Hs Hd Hpost) in Hm. injection Hm as <-.
      pose proof (in_menu g _ e Hin) as Hkind.
      assert (Hne : e <> EDraw) by (intros ->; exact Hkind).
      rewrite (child_game_choice d g e dealt Hne) in Hc.
      destruct (apply_allowed d g _ g' Hc) as [Hall Hact].
      destruct (choice_step d g s j _ HRel Ht Hall) as (g'' & Hact' & Hz & Hk & Hpass).
      rewrite Hact in Hact'. injection Hact' as <-.
      destruct (actionize_kind g e) as [Hkp Hks].
      assert (Hz' : zeros g <= zeros g') by (destruct (is_shove_action _); lia).
      pose proof (cur_nonneg is_shove_edge h) as Hs0.
      unfold path_inv. rewrite !cur_snoc, (best_snoc is_choice), (best_snoc is_aggro).
      destruct e as [| | | |a b|]; cbn [is_passive_edge is_raise_edge is_shove_edge] in *;
        try (contradiction Hne; reflexivity).
      * (* fold *)
        specialize (Hkp eq_refl). rewrite Hkp in Hpass.
        split; [lia|]. split; [lia|]. split; [lia|]. split; [|lia].
        intros Hal'. specialize (Hk Hal').
        destruct (Z.le_gt_cases (kturn g) 1) as [Hk1|Hk1].
        -- specialize (HP0 Hk1). split; [lia|intros Hk'; lia].
        -- rewrite (Hpass eq_refl) in Hal' by lia. discriminate Hal'.
      * (* check *)
        specialize (Hkp eq_refl). rewrite Hkp in Hpass.
        split; [lia|]. split; [lia|]. split; [lia|]. split; [|lia].
        intros Hal'. specialize (Hk Hal').
        destruct (Z.le_gt_cases (kturn g) 1) as [Hk1|Hk1].
        -- specialize (HP0 Hk1). split; [lia|intros Hk'; lia].
        -- rewrite (Hpass eq_refl) in Hal' by lia. discriminate Hal'.
      * (* call *)
        specialize (Hkp eq_refl). rewrite Hkp in Hpass.
        split; [lia|]. split; [lia|]. split; [lia|]. split; [|lia].
        intros Hal'. specialize (Hk Hal').
        destruct (Z.le_gt_cases (kturn g) 1) as [Hk1|Hk1].
        -- specialize (HP0 Hk1). split; [lia|intros Hk'; lia].
        -- rewrite (Hpass eq_refl) in Hal' by lia. discriminate Hal'.
      * (* raise: the count of the repaired subgame is exact, so there was room *)
        assert (Hroom : cur is_raise_edge h + cur is_shove_edge h <= MAX_RAISE_REPEATS).
        { rewrite <- cur_split_aggro, <- n_raises_exact.
          - exact (choices_raise_room g (n_raises h) _ a b (choices_menu g _ Hs Hd Hpost) Hin).
          - pose proof round_bound_fits. lia. }
        split; [lia|]. split; [lia|]. split; [lia|]. split; [|lia].
        intros Hal'. specialize (Hk Hal'). split; [lia|intros Hk'; lia].
      * (* all-in *)
        specialize (Hks eq_refl). rewrite Hks in Hz.
        split; [lia|]. split; [lia|]. split; [lia|]. split; [|lia].
        intros Hal'. specialize (Hk Hal'). split; [lia|intros Hk'; lia].
Qed.

Theorem round_short : forall d hs g0 h g, wf_holes d hs -> root d hs = Some g0 -> tree_path d g0 h g ->
  max_round_length h <= MAX_RAISE_REPEATS + 5.
Proof.
  intros d hs g0 h g Hwf Hroot Hp.
  destruct (path_inv_holds d hs g0 h g Hwf Hroot Hp) as (HP & HR & HS & _ & HB & _).
  pose proof (tree_path_reachable d hs g0 h g Hroot Hp) as Hreach.
  destruct (chips_reachable d hs g Hwf Hreach) as (Hlen & _). pose proof (zeros_bounds g).
  unfold max_round_length. rewrite max_per_round_cur_best, cur_split_choice.
  unfold round_bound in HB. lia.
Qed.

Theorem round_fits_window : forall d hs g0 h g, wf_holes d hs -> root d hs = Some g0 -> tree_path d g0 h g ->
  max_round_length h <= MAX_DEPTH_SUBGAME.
Proof.
  intros d hs g0 h g Hwf Hroot Hp. pose proof (round_short d hs g0 h g Hwf Hroot Hp).
  pose proof round_bound_fits. unfold round_bound in *. lia.
Qed.

(* aggressive edges (raises and all-ins) per round, the statistic of Model.Tree *)
Theorem aggro_per_round : forall d hs g0 h g, wf_holes d hs -> root d hs = Some g0 -> tree_path d g0 h g ->
  max_raises_per_round h <= MAX_RAISE_REPEATS + 3.
Proof.
  intros d hs g0 h g Hwf Hroot Hp.
  destruct (path_inv_holds d hs g0 h g Hwf Hroot Hp) as (HP & HR & HS & _ & _ & HG).
  pose proof (tree_path_reachable d hs g0 h g Hroot Hp) as Hreach.
  destruct (chips_reachable d hs g Hwf Hreach) as (Hlen & _). pose proof (zeros_bounds g).
  unfold max_raises_per_round. rewrite max_raises_aux_eq, max_per_round_cur_best, cur_split_aggro. lia.
Qed.

(* the cap along every path of a sampled tree, with no side condition left *)
Theorem raise_cap_tree : forall d hs g0 h g, wf_holes d hs -> root d hs = Some g0 -> tree_path d g0 h g ->
  max_raise_edges_per_round h <= MAX_RAISE_REPEATS + 1.
Proof.
  intros d hs g0 h g Hwf Hroot Hp.
  apply raise_cap; [exact (tree_path_sampled d g0 h g Hp)|].
  exact (round_fits_window d hs g0 h g Hwf Hroot Hp).
Qed.
