(* Proofs/C07_BucketF32_s04.v -- shard: rows 572 <= sum < 640, every 0 <= won <= sum, by evaluation (check_pair). *)
From Coq Require Import ZArith.
From RP Require Import Model.BucketF32 Proofs.C07_BucketF32_chk.
Open Scope Z_scope.
Lemma block : check_block 572 640 = true.
Proof. vm_compute. reflexivity. Qed.
Lemma rows : forall sum won, 572 <= sum < 640 -> 0 <= won <= sum -> pair_ok won sum.
Proof. exact (check_block_ok 572 640 ltac:(discriminate) block). Qed.
