(* Proofs/C12_W1.v -- the cut argument: the cost of any coupling on the equity grid is at least the
   CDF formula of the 1-D Wasserstein distance *)
From Coq Require Import NArith ZArith QArith Qabs List Bool Lia Lqa.
From RP Require Import Model.Emd Spec.SpecTransport Proofs.C12_QSum Proofs.C12_Variation.
Import ListNotations.
Local Open Scope Q_scope.

(* grid point i lies to the left of cut k  (cut k separates the points 0..k-1 from k..n-1) *)
Definition below (i k : nat) : Q := if Nat.ltb i k then 1 else 0.
(* a unit moved between i and j crosses cut k *)
Definition crosses (i j k : nat) : Q := qabs (below i k - below j k).
(* total mass crossing cut k (in either direction) *)
Definition cutflow (n : nat) (P : nat -> nat -> Q) (k : nat) : Q :=
  qsum_range 0 n (fun i => qsum_range 0 n (fun j => P i j * crosses i j k)).

Lemma Qmult_le_l_nonneg : forall p a b, 0 <= p -> a <= b -> p * a <= p * b.
Proof.
  intros p a b Hp Hab. rewrite (Qmult_comm p a), (Qmult_comm p b). now apply Qmult_le_compat_r.
Qed.

Lemma qnat_sub : forall m i, (i <= m)%nat -> qnat (m - i) == qnat m - qnat i.
Proof.
  intros m i H. unfold qnat. rewrite Nat2Z.inj_sub by exact H.
  unfold Zminus. rewrite inject_Z_plus, inject_Z_opp. ring.
Qed.

Lemma qnat_le : forall i j, (i <= j)%nat -> qnat i <= qnat j.
Proof. intros i j H. unfold qnat. rewrite <- Zle_Qle. lia. Qed.

Lemma sum_below : forall m i, qsum_range 1 m (fun k => below i k) == qnat (m - i).
Proof.
  induction m as [|m IH]; intros i.
  - reflexivity.
  - rewrite qsum_range_snoc, IH. unfold below.
    destruct (Nat.ltb_spec i (1 + m)) as [H|H].
    + replace (S m - i)%nat with (S (m - i)) by lia. rewrite qnat_S. reflexivity.
    + replace (S m - i)%nat with 0%nat by lia. replace (m - i)%nat with 0%nat by lia.
      rewrite qnat_0. ring.
Qed.

Lemma below_01 : forall i k, below i k == 0 \/ below i k == 1.
Proof. intros i k. unfold below. destruct (Nat.ltb i k); [right|left]; reflexivity. Qed.

Lemma below_mono : forall i j k, (i <= j)%nat -> below j k <= below i k.
Proof.
  intros i j k H. unfold below.
  destruct (Nat.ltb_spec j k) as [H1|H1]; destruct (Nat.ltb_spec i k) as [H2|H2]; try lra; lia.
Qed.

Lemma crosses_sym : forall i j k, crosses i j k == crosses j i k.
Proof. intros i j k. apply qabs_sym. Qed.

Lemma sum_crosses_le : forall m i j, (i <= j)%nat -> (j <= m)%nat ->
  qsum_range 1 m (crosses i j) == qabs (qnat i - qnat j).
Proof.
  intros m i j Hij Hjm.
  rewrite (qsum_range_ext m 1 (crosses i j) (fun k => below i k - below j k)).
  - rewrite qsum_range_minus, !sum_below, !qnat_sub by lia.
    pose proof (qnat_le i j Hij) as Hle.
    rewrite qabs_neg_eq by lra. ring.
  - intros k _. unfold crosses. apply qabs_pos_eq. pose proof (below_mono i j k Hij). lra.
Qed.

Lemma sum_crosses : forall m i j, (i <= m)%nat -> (j <= m)%nat ->
  qsum_range 1 m (crosses i j) == qabs (qnat i - qnat j).
Proof.
  intros m i j Hi Hj. destruct (Nat.le_ge_cases i j) as [H|H].
  - apply sum_crosses_le; assumption.
  - rewrite (qsum_range_ext m 1 (crosses i j) (crosses j i)) by (intros k _; apply crosses_sym).
    rewrite sum_crosses_le by assumption. apply qabs_sym.
Qed.

Lemma grid_dist_nonneg : forall n i j, 0 <= grid_dist n i j.
Proof. intros n i j. unfold grid_dist. apply div_qnat_nonneg. apply qabs_nonneg. Qed.

(* the cost of any matrix is the sum over the interior cuts of the mass crossing them, times the spacing *)
Lemma cost_cut_decomp : forall n P,
  coupling_cost n P == qsum_range 1 (n - 1) (cutflow n P) / qnat (n - 1).
Proof.
  intros n P. unfold coupling_cost, cutflow.
  (* swap the cut sum inside *)
  rewrite (qsum_range_swap (n - 1) 1 n 0 (fun k i => qsum_range 0 n (fun j => P i j * crosses i j k))).
  unfold Qdiv. rewrite <- qsum_range_scal_r. apply qsum_range_ext. intros i Hi.
  rewrite (qsum_range_swap (n - 1) 1 n 0 (fun k j => P i j * crosses i j k)).
  rewrite <- qsum_range_scal_r. apply qsum_range_ext. intros j Hj.
  rewrite qsum_range_scal_l, sum_crosses by lia. unfold grid_dist, Qdiv. ring.
Qed.

Section Cut.
Variables (n : nat) (P : nat -> nat -> Q) (xs ys : list Q).
Hypothesis HP : is_coupling n P xs ys.

Lemma weighted_rows : forall k, (k <= n)%nat ->
  qsum_range 0 n (fun i => qsum_range 0 n (fun j => P i j * below i k)) == prefix_sum xs k.
Proof.
  intros k Hk. destruct HP as (_ & Hrow & _).
  rewrite prefix_sum_as_range, <- (qsum_range_indicator_lt n k _ Hk).
  apply qsum_range_ext. intros i Hi. rewrite qsum_range_scal_r, Hrow by lia.
  unfold below. destruct (Nat.ltb i k); ring.
Qed.

Lemma weighted_cols : forall k, (k <= n)%nat ->
  qsum_range 0 n (fun i => qsum_range 0 n (fun j => P i j * below j k)) == prefix_sum ys k.
Proof.
  intros k Hk. destruct HP as (_ & _ & Hcol).
  rewrite (qsum_range_swap n 0 n 0 (fun i j => P i j * below j k)).
  rewrite prefix_sum_as_range, <- (qsum_range_indicator_lt n k _ Hk).
  apply qsum_range_ext. intros j Hj. rewrite qsum_range_scal_r, Hcol by lia.
  unfold below. destruct (Nat.ltb j k); ring.
Qed.

(* the net flow across cut k is F(k) - G(k) *)
Lemma net_flow : forall k, (k <= n)%nat ->
  qsum_range 0 n (fun i => qsum_range 0 n (fun j => P i j * (below i k - below j k))) ==
  prefix_sum xs k - prefix_sum ys k.
Proof.
  intros k Hk. rewrite <- (weighted_rows k Hk), <- (weighted_cols k Hk).
  rewrite <- qsum_range_minus. apply qsum_range_ext. intros i _.
  rewrite <- qsum_range_minus. apply qsum_range_ext. intros j _. ring.
Qed.

Lemma gap_le_cutflow : forall k, (k <= n)%nat -> cdf_gap xs ys k <= cutflow n P k.
Proof.
  intros k Hk. unfold cdf_gap. rewrite qabs_Qabs. apply Qabs_Qle_condition.
  rewrite <- (net_flow k Hk). destruct HP as (Hnn & _ & _). unfold cutflow. split.
  - rewrite <- (Qopp_involutive (qsum_range 0 n (fun i => qsum_range 0 n (fun j => P i j * (below i k - below j k))))).
    apply Qopp_le_compat.
    assert (E : - qsum_range 0 n (fun i => qsum_range 0 n (fun j => P i j * (below i k - below j k))) ==
                qsum_range 0 n (fun i => qsum_range 0 n (fun j => P i j * - (below i k - below j k)))).
    { assert (E0 : forall a, - a == 0 - a) by (intros a; ring).
      rewrite E0, <- (qsum_range_zero n 0), <- qsum_range_minus. apply qsum_range_ext. intros i _.
      rewrite <- (qsum_range_zero n 0), <- qsum_range_minus. apply qsum_range_ext. intros j _. ring. }
    rewrite E. apply qsum_range_le. intros i Hi. apply qsum_range_le. intros j Hj.
    apply Qmult_le_l_nonneg; [apply Hnn; lia|]. unfold crosses. apply qabs_ge_opp.
  - apply qsum_range_le. intros i Hi. apply qsum_range_le. intros j Hj.
    apply Qmult_le_l_nonneg; [apply Hnn; lia|]. unfold crosses. apply qabs_ge.
Qed.

Theorem W1_cut_lower_bound_sec : length xs = n -> W1cdf xs ys <= coupling_cost n P.
Proof.
  intros Hlen. rewrite cost_cut_decomp. unfold W1cdf. rewrite Hlen.
  apply div_qnat_le. apply qsum_range_le. intros k Hk. apply gap_le_cutflow. lia.
Qed.
End Cut.

Theorem W1_cut_lower_bound : forall n P xs ys, length xs = n -> is_coupling n P xs ys ->
  W1cdf xs ys <= coupling_cost n P.
Proof. intros n P xs ys Hlen HP. exact (W1_cut_lower_bound_sec n P xs ys HP Hlen). Qed.
