(* Proofs/C12_Variation.v -- Equity::variation over exact rationals: the CDF formula, metric laws,
   the relation to the 1-D Wasserstein distance *)
From Coq Require Import NArith ZArith QArith Qabs List Bool Lia Lqa.
From RP Require Import Model.Emd Spec.SpecTransport Proofs.C12_QSum.
Import ListNotations.
Local Open Scope Q_scope.

Definition vaux := variation_aux Q Qplus Qminus qabs.

Lemma vaux_spec : forall xs ys cx cy acc, length xs = length ys ->
  vaux xs ys cx cy acc ==
  acc + qsum_range 1 (length xs) (fun k => qabs ((cx + prefix_sum xs k) - (cy + prefix_sum ys k))).
Proof.
  induction xs as [|x xs IH]; intros ys cx cy acc Hlen.
  - destruct ys as [|y ys]; [|discriminate Hlen]. cbn [vaux variation_aux length].
    rewrite qsum_range_0. ring.
  - destruct ys as [|y ys]; [discriminate Hlen|]. cbn [length] in Hlen.
    unfold vaux. cbn [variation_aux]. fold vaux. rewrite IH by lia.
    cbn [length]. rewrite qsum_range_cons, (qsum_range_shift (length xs) 1).
    rewrite !prefix_sum_cons, !prefix_sum_0.
    assert (E1 : qabs (cx + x - (cy + y)) == qabs (cx + (x + 0) - (cy + (y + 0)))).
    { apply qabs_wd. ring. }
    rewrite E1.
    assert (E2 : qsum_range 1 (length xs) (fun k => qabs (cx + x + prefix_sum xs k - (cy + y + prefix_sum ys k))) ==
                 qsum_range 1 (length xs) (fun k => qabs (cx + prefix_sum (x :: xs) (S k) - (cy + prefix_sum (y :: ys) (S k))))).
    { apply qsum_range_ext. intros k _. rewrite !prefix_sum_cons. apply qabs_wd. ring. }
    rewrite E2. ring.
Qed.

Lemma vaux_nonneg : forall xs ys cx cy acc, 0 <= acc -> 0 <= vaux xs ys cx cy acc.
Proof.
  induction xs as [|x xs IH]; intros ys cx cy acc Hacc.
  - exact Hacc.
  - destruct ys as [|y ys]; [exact Hacc|].
    unfold vaux. cbn [variation_aux]. fold vaux. apply IH.
    pose proof (qabs_nonneg (cx + x - (cy + y))) as H. lra.
Qed.

Lemma var_unfold : forall xs ys, var xs ys = vaux xs ys 0 0 0 / qnat (length xs).
Proof. reflexivity. Qed.

Lemma div_qnat_nonneg : forall a n, 0 <= a -> 0 <= a / qnat n.
Proof.
  intros a n Ha. unfold Qdiv. apply Qmult_le_0_compat; [exact Ha|].
  apply Qinv_le_0_compat. apply qnat_nonneg.
Qed.

Lemma div_qnat_le : forall a b n, a <= b -> a / qnat n <= b / qnat n.
Proof.
  intros a b n Hab. unfold Qdiv. apply Qmult_le_compat_r; [exact Hab|].
  apply Qinv_le_0_compat. apply qnat_nonneg.
Qed.

Definition gap_sum (xs ys : list Q) (len : nat) : Q := qsum_range 1 len (cdf_gap xs ys).

Lemma gap_sum_nonneg : forall xs ys len, 0 <= gap_sum xs ys len.
Proof. intros xs ys len. apply qsum_range_nonneg. intros k _. apply qabs_nonneg. Qed.

(* A1 *)
Theorem variation_formula : forall xs ys, length xs = length ys ->
  var xs ys == qsum_range 1 (length xs) (cdf_gap xs ys) / qnat (length xs).
Proof.
  intros xs ys Hlen. rewrite var_unfold, vaux_spec by exact Hlen.
  apply Qmult_comp; [|reflexivity].
  rewrite Qplus_0_l. apply qsum_range_ext. intros k _. unfold cdf_gap. apply qabs_wd. ring.
Qed.

(* A2 *)
Theorem variation_symmetric : forall xs ys, length xs = length ys -> var xs ys == var ys xs.
Proof.
  intros xs ys Hlen. rewrite (variation_formula xs ys Hlen), (variation_formula ys xs (eq_sym Hlen)).
  rewrite Hlen. apply Qmult_comp; [|reflexivity].
  apply qsum_range_ext. intros k _. apply qabs_sym.
Qed.

(* A3 *)
Theorem variation_nonneg : forall xs ys, 0 <= var xs ys.
Proof.
  intros xs ys. rewrite var_unfold. apply div_qnat_nonneg. apply vaux_nonneg. lra.
Qed.

Lemma prefix_sum_Forall2 : forall xs ys, Forall2 Qeq xs ys -> forall k, prefix_sum xs k == prefix_sum ys k.
Proof.
  intros xs ys H. induction H as [|x y xs ys Hxy Hl IH]; intros k.
  - reflexivity.
  - destruct k as [|k]; [reflexivity|]. rewrite !prefix_sum_cons, Hxy, IH. reflexivity.
Qed.

Lemma Forall2_Qeq_nth : forall xs ys, length xs = length ys ->
  (forall k, (k < length xs)%nat -> nth k xs 0 == nth k ys 0) -> Forall2 Qeq xs ys.
Proof.
  induction xs as [|x xs IH]; intros ys Hlen H.
  - destruct ys; [constructor|discriminate Hlen].
  - destruct ys as [|y ys]; [discriminate Hlen|]. cbn [length] in Hlen, H. constructor.
    + apply (H 0%nat). lia.
    + apply IH; [lia|]. intros k Hk. apply (H (S k)). lia.
Qed.

(* A4 *)
Theorem variation_zero_iff : forall xs ys, length xs = length ys ->
  (var xs ys == 0 <-> Forall2 Qeq xs ys).
Proof.
  intros xs ys Hlen. rewrite (variation_formula xs ys Hlen). split.
  - intros Hz. destruct (Nat.eq_dec (length xs) 0) as [Hn|Hn].
    + destruct xs; [|discriminate Hn]. destruct ys; [constructor|discriminate Hlen].
    + assert (Hpos : 0 < qnat (length xs)) by (apply qnat_pos; lia).
      assert (Hs : qsum_range 1 (length xs) (cdf_gap xs ys) == 0).
      { assert (E : qsum_range 1 (length xs) (cdf_gap xs ys) ==
                    qsum_range 1 (length xs) (cdf_gap xs ys) / qnat (length xs) * qnat (length xs)).
        { field. lra. }
        rewrite E, Hz. ring. }
      assert (Hk : forall k, (k <= length xs)%nat -> prefix_sum xs k == prefix_sum ys k).
      { intros k Hk. destruct k as [|k]; [reflexivity|].
        assert (G : cdf_gap xs ys (S k) == 0).
        { apply (qsum_range_zero_terms (length xs) 1 (cdf_gap xs ys)).
          - intros j _. apply qabs_nonneg.
          - exact Hs.
          - lia. }
        unfold cdf_gap in G. apply (proj1 (qabs_zero_iff _)) in G. lra. }
      apply Forall2_Qeq_nth; [exact Hlen|]. intros k Hlt.
      pose proof (Hk k ltac:(lia)) as E0. pose proof (Hk (S k) ltac:(lia)) as E1.
      rewrite !prefix_sum_S in E1. lra.
  - intros HF.
    assert (Hs : qsum_range 1 (length xs) (cdf_gap xs ys) == 0).
    { rewrite <- (qsum_range_zero (length xs) 1). apply qsum_range_ext. intros k _.
      unfold cdf_gap. apply qabs_zero_iff. rewrite (prefix_sum_Forall2 xs ys HF k). ring. }
    rewrite Hs. unfold Qdiv. ring.
Qed.

(* A5 *)
Theorem variation_triangle : forall xs ys zs, length xs = length ys -> length ys = length zs ->
  var xs zs <= var xs ys + var ys zs.
Proof.
  intros xs ys zs H1 H2.
  rewrite (variation_formula xs zs) by lia.
  rewrite (variation_formula xs ys) by lia.
  rewrite (variation_formula ys zs) by lia.
  rewrite <- H1.
  assert (E : qsum_range 1 (length xs) (cdf_gap xs ys) / qnat (length xs) +
              qsum_range 1 (length xs) (cdf_gap ys zs) / qnat (length xs) ==
              qsum_range 1 (length xs) (fun k => cdf_gap xs ys k + cdf_gap ys zs k) / qnat (length xs)).
  { rewrite qsum_range_plus. unfold Qdiv. ring. }
  rewrite E. apply div_qnat_le. apply qsum_range_le. intros k _. apply qabs_triangle3.
Qed.

(* A6: the last CDF term vanishes when the total masses agree *)
Lemma cdf_gap_last : forall xs ys, length xs = length ys -> qsum xs == qsum ys ->
  cdf_gap xs ys (length xs) == 0.
Proof.
  intros xs ys Hlen Hs. unfold cdf_gap. rewrite (prefix_sum_all xs) by lia.
  rewrite (prefix_sum_all ys) by lia. apply qabs_zero_iff. lra.
Qed.

Theorem variation_last_term_zero : forall xs ys, length xs = length ys -> qsum xs == qsum ys ->
  cdf_gap xs ys (length xs) == 0 /\
  var xs ys == qsum_range 1 (length xs - 1) (cdf_gap xs ys) / qnat (length xs) /\
  var xs ys == W1cdf xs ys * (qnat (length xs - 1) / qnat (length xs)).
Proof.
  intros xs ys Hlen Hs. pose proof (cdf_gap_last xs ys Hlen Hs) as Hlast.
  assert (Hv : var xs ys == qsum_range 1 (length xs - 1) (cdf_gap xs ys) / qnat (length xs)).
  { rewrite (variation_formula xs ys Hlen). apply Qmult_comp; [|reflexivity].
    destruct (length xs) as [|m] eqn:En.
    - reflexivity.
    - replace (S m - 1)%nat with m by lia. rewrite qsum_range_snoc.
      replace (1 + m)%nat with (S m) by lia. rewrite Hlast. ring. }
  split; [exact Hlast|]. split; [exact Hv|].
  rewrite Hv. unfold W1cdf.
  destruct (Nat.eq_dec (length xs - 1) 0) as [Hz|Hnz].
  - rewrite Hz. rewrite qsum_range_0. unfold Qdiv. ring.
  - assert (0 < qnat (length xs - 1)) by (apply qnat_pos; lia).
    assert (0 < qnat (length xs)) by (apply qnat_pos; lia).
    field. split; lra.
Qed.

(* the 101-point equity grid *)
Corollary variation_W1_101 : forall xs ys, length xs = 101%nat -> length ys = 101%nat -> qsum xs == qsum ys ->
  var xs ys == W1cdf xs ys * (100 # 101).
Proof.
  intros xs ys Hx Hy Hs.
  destruct (variation_last_term_zero xs ys ltac:(lia) Hs) as (_ & _ & H).
  rewrite H, Hx. reflexivity.
Qed.
