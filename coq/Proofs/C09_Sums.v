(* Proofs/C09_Sums.v -- lemmas about fold_left Qplus (qsum), qmax and qpos over Q. *)
From Coq Require Import ZArith QArith Qabs List Bool Lia Lqa.
From RP Require Import Model.RegretMatching Spec.C09Spec.
Import ListNotations.
Local Open Scope Q_scope.

(* ---------- qsum ---------- *)

Lemma fold_Qplus_acc : forall (l : list Q) (a : Q), fold_left Qplus l a == a + qsum l.
Proof.
  unfold qsum. induction l as [|x l IH]; intros a; cbn [fold_left].
  - lra.
  - rewrite (IH (a + x)), (IH (0 + x)). lra.
Qed.

Lemma qsum_nil : qsum [] == 0.
Proof. unfold qsum; cbn [fold_left]. lra. Qed.

Lemma qsum_cons : forall x l, qsum (x :: l) == x + qsum l.
Proof.
  intros x l. unfold qsum at 1. cbn [fold_left]. rewrite fold_Qplus_acc. lra.
Qed.

Lemma qsum_app : forall l1 l2, qsum (l1 ++ l2) == qsum l1 + qsum l2.
Proof.
  induction l1 as [|x l1 IH]; intros l2.
  - cbn [app]. rewrite qsum_nil. lra.
  - cbn [app]. rewrite !qsum_cons, IH. lra.
Qed.

(* morphism: pointwise == lists have == sums *)
Lemma qsum_Forall2_eq : forall l l', Forall2 Qeq l l' -> qsum l == qsum l'.
Proof.
  intros l l' H. induction H as [|x y l l' Hxy Hl IH].
  - reflexivity.
  - rewrite !qsum_cons, Hxy, IH. reflexivity.
Qed.

Lemma qsum_map_ext : forall (A : Type) (f g : A -> Q) (l : list A),
  (forall x, In x l -> f x == g x) -> qsum (map f l) == qsum (map g l).
Proof.
  intros A f g l. induction l as [|x l IH]; intros H.
  - reflexivity.
  - cbn [map]. rewrite !qsum_cons, (H x (or_introl eq_refl)), IH.
    + reflexivity.
    + intros y Hy. apply H. right. exact Hy.
Qed.

(* monotonicity *)
Lemma qsum_Forall2_le : forall l l', Forall2 Qle l l' -> qsum l <= qsum l'.
Proof.
  intros l l' H. induction H as [|x y l l' Hxy Hl IH].
  - lra.
  - rewrite !qsum_cons. lra.
Qed.

Lemma qsum_map_le : forall (A : Type) (f g : A -> Q) (l : list A),
  (forall x, In x l -> f x <= g x) -> qsum (map f l) <= qsum (map g l).
Proof.
  intros A f g l. induction l as [|x l IH]; intros H.
  - apply Qle_refl.
  - cbn [map]. rewrite !qsum_cons.
    assert (H1 : f x <= g x) by (apply H; left; reflexivity).
    assert (H2 : qsum (map f l) <= qsum (map g l)) by (apply IH; intros y Hy; apply H; right; exact Hy).
    lra.
Qed.

Lemma qsum_nonneg : forall l, (forall x, In x l -> 0 <= x) -> 0 <= qsum l.
Proof.
  induction l as [|x l IH]; intros H.
  - rewrite qsum_nil. lra.
  - rewrite qsum_cons.
    assert (H1 : 0 <= x) by (apply H; left; reflexivity).
    assert (H2 : 0 <= qsum l) by (apply IH; intros y Hy; apply H; right; exact Hy).
    lra.
Qed.

(* lower bound by any element, for non-negative lists *)
Lemma qsum_ge_elem : forall l x, (forall y, In y l -> 0 <= y) -> In x l -> x <= qsum l.
Proof.
  induction l as [|y l IH]; intros x Hnn Hin.
  - destruct Hin.
  - rewrite qsum_cons.
    assert (H1 : 0 <= y) by (apply Hnn; left; reflexivity).
    assert (Hnn' : forall z, In z l -> 0 <= z) by (intros z Hz; apply Hnn; right; exact Hz).
    destruct Hin as [Heq | Hin].
    + subst y. pose proof (qsum_nonneg l Hnn') as H2. lra.
    + pose proof (IH x Hnn' Hin) as H2. lra.
Qed.

Lemma qsum_pos : forall l x, (forall y, In y l -> 0 <= y) -> In x l -> 0 < x -> 0 < qsum l.
Proof.
  intros l x Hnn Hin Hx. pose proof (qsum_ge_elem l x Hnn Hin) as H. lra.
Qed.

(* linearity *)
Lemma qsum_map_mul_r : forall (A : Type) (f : A -> Q) (c : Q) (l : list A),
  qsum (map (fun x => f x * c) l) == qsum (map f l) * c.
Proof.
  intros A f c l. induction l as [|x l IH].
  - cbn [map]. rewrite qsum_nil. lra.
  - cbn [map]. rewrite !qsum_cons, IH. lra.
Qed.

Lemma qsum_map_div : forall (A : Type) (f : A -> Q) (c : Q) (l : list A),
  qsum (map (fun x => f x / c) l) == qsum (map f l) / c.
Proof.
  intros A f c l. unfold Qdiv. apply qsum_map_mul_r.
Qed.

Lemma qsum_map_plus_const : forall (A : Type) (f : A -> Q) (c : Q) (l : list A),
  qsum (map (fun x => f x + c) l) == qsum (map f l) + inject_Z (Z.of_nat (length l)) * c.
Proof.
  intros A f c l. induction l as [|x l IH].
  - cbn [map length]. rewrite qsum_nil. change (inject_Z (Z.of_nat 0)) with 0. lra.
  - cbn [map]. rewrite !qsum_cons, IH.
    cbn [length]. rewrite Nat2Z.inj_succ. unfold Z.succ. rewrite inject_Z_plus. change (inject_Z 1) with 1. lra.
Qed.

Lemma qsum_map_const : forall (A : Type) (c : Q) (l : list A),
  qsum (map (fun _ => c) l) == inject_Z (Z.of_nat (length l)) * c.
Proof.
  intros A c l. induction l as [|x l IH].
  - cbn [map length]. rewrite qsum_nil. change (inject_Z (Z.of_nat 0)) with 0. lra.
  - cbn [map]. rewrite qsum_cons, IH.
    cbn [length]. rewrite Nat2Z.inj_succ. unfold Z.succ. rewrite inject_Z_plus. change (inject_Z 1) with 1. lra.
Qed.

Lemma qlen_pos : forall (rs : list Q), rs <> [] -> 1 <= qlen rs.
Proof.
  intros rs Hne. unfold qlen. destruct rs as [|r rs]; [contradiction|].
  cbn [length]. rewrite Nat2Z.inj_succ. unfold Z.succ. rewrite inject_Z_plus.
  assert (H : 0 <= inject_Z (Z.of_nat (length rs))).
  { change 0 with (inject_Z 0). rewrite <- Zle_Qle. lia. }
  change (inject_Z 1) with 1. lra.
Qed.

Lemma inv_pos_of_nat : forall n : nat, (n <> 0)%nat ->
  1 # Pos.of_nat n == 1 / inject_Z (Z.of_nat n).
Proof.
  intros n Hn. unfold Qeq, Qdiv, Qmult, Qinv, inject_Z. cbn [Qnum Qden].
  destruct n as [|n]; [contradiction|].
  rewrite <- (Znat.positive_nat_Z (Pos.of_nat (S n))), Nat2Pos.id by exact Hn.
  destruct (Z.of_nat (S n)) eqn:E; try lia.
  cbn [Qnum Qden]. lia.
Qed.

(* ---------- qmax, qpos ---------- *)

Lemma qmax_spec : forall a b, (a <= b /\ qmax a b = b) \/ (b < a /\ qmax a b = a).
Proof.
  intros a b. unfold qmax, fmax. destruct (Qle_bool a b) eqn:E.
  - left. split; [apply Qle_bool_iff; exact E | reflexivity].
  - right. split; [|reflexivity].
    apply Qnot_le_lt. intro H. apply Qle_bool_iff in H. congruence.
Qed.

Lemma qmax_ge_r : forall a b, b <= qmax a b.
Proof. intros a b. destruct (qmax_spec a b) as [[H E]|[H E]]; rewrite E; lra. Qed.

Lemma qmax_ge_l : forall a b, a <= qmax a b.
Proof. intros a b. destruct (qmax_spec a b) as [[H E]|[H E]]; rewrite E; lra. Qed.

Lemma qmax_le_r : forall a b, a <= b -> qmax a b = b.
Proof.
  intros a b H. unfold qmax, fmax. apply Qle_bool_iff in H. rewrite H. reflexivity.
Qed.

Lemma qpos_is_qmax0 : forall r, qpos r = qmax r 0.
Proof. reflexivity. Qed.

Lemma qpos_spec : forall r, (r <= 0 /\ qpos r = 0) \/ (0 < r /\ qpos r = r).
Proof. intros r. rewrite qpos_is_qmax0. apply qmax_spec. Qed.

Lemma qpos_nonneg : forall r, 0 <= qpos r.
Proof. intros r. rewrite qpos_is_qmax0. apply qmax_ge_r. Qed.

Lemma qpos_ge : forall r, r <= qpos r.
Proof. intros r. rewrite qpos_is_qmax0. apply qmax_ge_l. Qed.

(* the floor changes the positive part by at most eps *)
Lemma qpos_le_qmax : forall r eps, 0 <= eps -> qpos r <= qmax r eps.
Proof.
  intros r eps He.
  destruct (qpos_spec r) as [[H E]|[H E]]; rewrite E;
  destruct (qmax_spec r eps) as [[H' E']|[H' E']]; rewrite E'; lra.
Qed.

Lemma qmax_le_qpos_plus : forall r eps, 0 <= eps -> qmax r eps <= qpos r + eps.
Proof.
  intros r eps He.
  destruct (qpos_spec r) as [[H E]|[H E]]; rewrite E;
  destruct (qmax_spec r eps) as [[H' E']|[H' E']]; rewrite E'; lra.
Qed.

(* positive part commutes with division by a positive number *)
Lemma qpos_div : forall r d, 0 < d -> qpos (r / d) == qpos r / d.
Proof.
  intros r d Hd.
  assert (Hz : ~ d == 0) by lra.
  destruct (qpos_spec r) as [[H E]|[H E]]; rewrite E;
  destruct (qpos_spec (r / d)) as [[H' E']|[H' E']]; rewrite E'.
  - field. exact Hz.
  - exfalso. assert (Hr : r == r / d * d) by (field; exact Hz).
    assert (0 < r / d * d) by (apply Qmult_lt_0_compat; assumption). lra.
  - exfalso. assert (Hr : r == r / d * d) by (field; exact Hz).
    assert (Hx : r / d * d <= 0 * d) by (apply Qmult_le_compat_r; lra). lra.
  - reflexivity.
Qed.

(* ---------- fractions ---------- *)

Lemma Qdiv_le_cross : forall a b c d, 0 < c -> 0 < d -> a * d <= b * c -> a / c <= b / d.
Proof.
  intros a b c d Hc Hd H.
  apply Qle_shift_div_r; [exact Hc|].
  assert (E : b / d * c == (b * c) / d) by (field; lra).
  rewrite E. apply Qle_shift_div_l; [exact Hd| exact H].
Qed.

Lemma divisor_ge_1 : forall t, 1 <= divisor t.
Proof.
  intros t. unfold divisor. change 1 with (inject_Z 1). rewrite <- Zle_Qle. lia.
Qed.

Lemma divisor_pos : forall t, 0 < divisor t.
Proof. intros t. pose proof (divisor_ge_1 t). lra. Qed.
