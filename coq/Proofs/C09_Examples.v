(* Proofs/C09_Examples.v -- concrete instances: the hypotheses of the C09 theorems are satisfiable,
   and the defect repaired by REGRET_DIVISOR_AT_LEAST_ONE is visible on a two-action example. *)
From Coq Require Import ZArith QArith Qabs List Bool Lia Lqa.
From RP Require Import Gen.GenLib Gen.GenFixes Model.RegretMatching Spec.C09Spec
  Proofs.C09_Sums Proofs.C09_Policy.
Import ListNotations.
Local Open Scope Q_scope.

(* --- C09_needs_divisor_fix: fresh profile (t = 0), regrets [5; -1] --- *)

(* the original divisor (flag = false) aborts, whatever the floor *)
Example ex_unfixed_aborts : forall eps, policy_vector_with_Q false eps 0 [5; -1] = None.
Proof. intros eps. vm_compute. reflexivity. Qed.

(* the model (generated flag) returns a value: eps = 1/1000 and eps = POLICY_MIN = 2^-126 *)
Example ex_fixed_value :
  policy_vector_Q (1 # 1000) 0 [5; -1] = Some [5000 # 5001; 1000 # 5001000].
Proof. vm_compute. reflexivity. Qed.

Example ex_fixed_value_policy_min :
  policy_vector_Q (fconst_Q POLICY_MIN) 0 [5; -1] =
  Some [425352958651173079329218259289710264320 # 425352958651173079329218259289710264321;
        85070591730234615865843651857942052864
        # 36185027886661311069865932815214971204231940799742910878196338654330795065344].
Proof. vm_compute. reflexivity. Qed.

(* ... which is a distribution: 5000/5001 + 1/5001 = 1 *)
Example ex_fixed_is_distribution :
  exists p, policy_vector_Q (1 # 1000) 0 [5; -1] = Some p /\
    Forall (fun x => 0 < x /\ x <= 1) p /\ fold_left Qplus p 0 == 1.
Proof.
  exists [5000 # 5001; 1000 # 5001000]. split; [exact ex_fixed_value|].
  apply (distribution (1 # 1000) 0 [5; -1]); [reflexivity | discriminate | exact ex_fixed_value].
Qed.

(* the two versions agree at t = 0 when no regret is positive *)
Example ex_unfixed_no_positive :
  policy_vector_with_Q false (1 # 1000) 0 [-5; -1] = Some [1000000 # 2000000; 1000000 # 2000000].
Proof. vm_compute. reflexivity. Qed.

(* --- hypotheses of C09_no_abort / C09_distribution / C09_formula --- *)

Example ex_hyp_basic :
  0 < 1 # 1000 /\ [5; -1; 3] <> [] /\
  policy_vector_Q (1 # 1000) 4 [5; -1; 3] = Some [80000 # 128064; 16000 # 32016000; 48000 # 128064].
Proof. split; [reflexivity|]. split; [discriminate|]. vm_compute. reflexivity. Qed.

(* --- hypotheses of C09_uniform --- *)

Example ex_hyp_uniform :
  (forall r, In r [-3; 0; -1] -> cum_regret 0 r <= 1 # 1000) /\
  (forall r, In r [-3; 0; -1] -> r <= 0) /\
  policy_vector_Q (1 # 1000) 0 [-3; 0; -1] =
    Some [1000000000 # 3000000000; 1000000000 # 3000000000; 1000000000 # 3000000000].
Proof.
  split; [|split].
  - intros r [E|[E|[E|[]]]]; subst r; vm_compute; discriminate.
  - intros r [E|[E|[E|[]]]]; subst r; vm_compute; discriminate.
  - vm_compute. reflexivity.
Qed.

(* a positive regret below the floor is also covered by C09_uniform (2/4 <= 1/2) *)
Example ex_hyp_uniform_small_positive :
  forall r, In r [2; -1] -> cum_regret 4 r <= 1 # 2.
Proof. intros r [E|[E|[]]]; subst r; vm_compute; discriminate. Qed.

(* --- hypotheses of C09_proportional / C09_close_to_regret_matching / C09_limit --- *)

Example ex_hyp_proportional :
  0 < qsum (pos_vec 4 [5; -1; 3]) /\ (exists r, In r [5; -1; 3] /\ 0 < r).
Proof.
  split; [vm_compute; reflexivity|]. exists 5. split; [left; reflexivity | reflexivity].
Qed.

(* the bound on that example: n * eps / X = 3 * (1/1000) / 2 = 3/2000 *)
Example ex_proportional_bound :
  qlen [5; -1; 3] * (1 # 1000) / qsum (pos_vec 4 [5; -1; 3]) == 3 # 2000.
Proof. vm_compute. reflexivity. Qed.

Example ex_limit_value :
  policy_vector_Q 0 4 [5; -1; 3] = Some [80 # 128; 0 # 32; 48 # 128] /\
  regret_matching [5; -1; 3] = [5 # 8; 0 # 8; 3 # 8].
Proof. split; vm_compute; reflexivity. Qed.

(* --- C09_scale_invariant --- *)

Example ex_scale : 0 < inject_Z 3 /\ 0 < inject_Z 7.
Proof. split; reflexivity. Qed.

(* --- C09_clamp with the generated REGRET_MIN = -3e5 --- *)

Example ex_clamp :
  clamp (fconst_Q REGRET_MIN) (-400000 # 1) = -300000 # 1 /\
  clamp (fconst_Q REGRET_MIN) 7 = 7 /\ fconst_Q REGRET_MIN <= 7.
Proof. split; [|split]; vm_compute; try reflexivity. discriminate. Qed.

(* --- C09_fix_conservative --- *)
Example ex_fix_conservative :
  policy_vector_with_Q false (1 # 1000) 4 [5; -1; 3] = policy_vector_Q (1 # 1000) 4 [5; -1; 3].
Proof. vm_compute. reflexivity. Qed.
