(* Proofs/C03_Draw.v -- R is preserved by an accepted Draw *)
From Coq Require Import ZArith NArith List Bool Lia.
From RP Require Import Base.Bits Gen.GenLib Gen.GenFixes Model.Codec Model.Showdown Model.Game
                       Spec.SpecNLHE Spec.SpecGameInv Spec.SpecRel
                       Proofs.C03_Flat Proofs.C03_Settle Proofs.C03_Sym Proofs.C03_Moves Proofs.C03_Cards.
Import ListNotations.
Open Scope Z_scope.
Ltac Zify.zify_post_hook ::= Z.div_mod_to_equations.

Lemma alright_flat : forall s0 s1 k0 k1 e0 e1 p0 p1 c0 c1 pt bd t,
  is_everyone_alright (G2 s0 s1 k0 k1 e0 e1 p0 p1 c0 c1 pt bd t) =
  ((2 + street_off bd <? t) && matchedA s0 s1 e0 e1) || xorb (is_fold s0) (is_fold s1) || shovingA s0 s1.
Proof. intros. exact (alright_A 0%nat s0 s1 k0 k1 e0 e1 p0 p1 c0 c1 pt bd t). Qed.
Lemma potential_flat : forall s0 s1 k0 k1 e0 e1 p0 p1 c0 c1 pt bd t,
  potential (G2 s0 s1 k0 k1 e0 e1 p0 p1 c0 c1 pt bd t) =
  k0 + k1 + 4 * (3 - sob bd) + Z.max 0 (3 - (t - street_off bd)) + nlive s0 s1.
Proof. intros. exact (potential_A 0%nat s0 s1 k0 k1 e0 e1 p0 p1 c0 c1 pt bd t). Qed.

Lemma reset_flat : forall s0 s1 k0 k1 e0 e1 p0 p1 c0 c1 pt bd t,
  reset_stakes (G2 s0 s1 k0 k1 e0 e1 p0 p1 c0 c1 pt bd t) = G2 s0 s1 k0 k1 0 0 p0 p1 c0 c1 pt bd t.
Proof. reflexivity. Qed.

Lemma street_off_nonneg : forall bd, 0 <= street_off bd.
Proof. intros bd. unfold street_off. destruct (sob bd =? 0); lia. Qed.

Lemma step_draw : forall d s0 s1 k0 k1 e0 e1 p0 p1 c0 c1 pt bd t ac0 ac1 lr ta h g',
  seat_inv s0 k0 e0 p0 -> seat_inv s1 k1 e1 p1 ->
  pt = p0 + p1 -> S_BLIND + B_BLIND <= pt -> p0 - e0 = p1 - e1 ->
  ~ (s0 = Folding /\ s1 = Folding) ->
  In (Z.of_N (hand_size bd)) [0; 3; 4; 5] ->
  cards_ok d bd c0 c1 ->
  must_stop (G2 s0 s1 k0 k1 e0 e1 p0 p1 c0 c1 pt bd t) = false ->
  must_deal (G2 s0 s1 k0 k1 e0 e1 p0 p1 c0 c1 pt bd t) = true ->
  N.land h (N.lxor (N.lxor (N.lor (N.lor bd c0) c1) (hand_mask d)) 18446744073709551615) = 0%N ->
  Z.of_N (hand_size h) = cards_due (sob bd) ->
  act_unchecked (G2 s0 s1 k0 k1 e0 e1 p0 p1 c0 c1 pt bd t) (Draw h) = Some g' ->
  R d g' (sdeal (S2 s0 s1 k0 k1 e0 e1 p0 p1 c0 c1 bd ac0 ac1 lr ta true false) h)
  /\ potential g' + 1 <= potential (G2 s0 s1 k0 k1 e0 e1 p0 p1 c0 c1 pt bd t).
Proof.
  intros d s0 s1 k0 k1 e0 e1 p0 p1 c0 c1 pt bd t ac0 ac1 lr ta h g'
         Hi0 Hi1 Hpt Hbl Hbase Hnf Hbd Hcards Hstop Hdeal Hh Hsz Hact.
  pose proof blinds_facts as (Hsb0 & Hsbb & Hbst).
  destruct (cards_ok_draw d bd c0 c1 h Hcards Hh) as [Hbh Hcards'].
  (* the street advances by one *)
  unfold must_deal in Hdeal. unfold must_stop in Hstop. rewrite street_flat in Hdeal, Hstop.
  assert (Hst : sob (N.lor bd h) = sob bd + 1 /\ sob bd <> 3 /\ In (Z.of_N (hand_size (N.lor bd h))) [0; 3; 4; 5]).
  { pose proof (hand_size_lor bd h Hbh) as Hsum. unfold sob at 1. rewrite Hsum, N2Z.inj_add, Hsz.
    destruct (sob_cases bd Hbd) as [[Hs ->]|[[Hs ->]|[[Hs ->]|[Hs Hs3]]]]; rewrite ?Hs; cbn;
      [intuition lia | intuition lia | intuition lia |].
    rewrite Hs3 in Hdeal. discriminate Hdeal. }
  destruct Hst as (Hst & Hn3 & Hbd').
  destruct (Z.eqb_spec (sob bd) 3) as [|_]; [contradiction|].
  rewrite folding_flat in Hstop. rewrite alright_flat, Hstop, orb_false_r in Hdeal.
  assert (Hoff' : street_off (N.lor bd h) = 0).
  { unfold street_off. rewrite Hst. destruct (Z.eqb_spec (sob bd + 1) 0) as [Hz|]; [|reflexivity].
    destruct (sob_cases bd Hbd) as [[_ Hs]|[[_ Hs]|[[_ Hs]|[_ Hs]]]]; lia. }
  pose proof (street_off_nonneg bd) as Hoffnn.
  (* engine *)
  cbn [act_unchecked G2 board seats pot dealer] in Hact.
  unfold hand_add in Hact. rewrite Hbh in Hact. cbn [N.eqb] in Hact.
  change (mkGame [mkSeat s0 k0 e0 p0 c0; mkSeat s1 k1 e1 p1 c1] pt (N.lor bd h) 0 0)
    with (G2 s0 s1 k0 k1 e0 e1 p0 p1 c0 c1 pt (N.lor bd h) 0) in Hact.
  destruct Hi0 as (Hk0 & Hs0 & He0 & Hep0 & Hsh0 & Hbt0).
  destruct Hi1 as (Hk1 & Hs1 & He1 & Hep1 & Hsh1 & Hbt1).
  destruct s0, s1; cbn in Hstop; try discriminate Hstop; try (exfalso; apply Hnf; split; reflexivity);
    unfold matchedA, shovingA in Hdeal; cbn [isB isS is_fold sstate_eqb orb andb] in Hdeal.
  - (* both Betting: stakes are matched *)
    assert (k0 <> 0) by (intros Hz; apply (Hbt0 Hz); reflexivity).
    assert (k1 <> 0) by (intros Hz; apply (Hbt1 Hz); reflexivity).
    rewrite orb_false_r in Hdeal. apply andb_prop in Hdeal. destruct Hdeal as [_ Hm].
    apply andb_prop in Hm. destruct Hm as [Hm0 Hm1]. apply Z.eqb_eq in Hm0, Hm1.
    assert (He : e0 = e1) by lia.
    assert (Hal : is_everyone_alright (G2 Betting Betting k0 k1 e0 e1 p0 p1 c0 c1 pt (N.lor bd h) 0) = false).
    { rewrite alright_flat, Hoff'. reflexivity. }
    rewrite next_player_flat0 in Hact by (try reflexivity).
    rewrite Hal in Hact. cbv beta iota in Hact. injection Hact as <-.
    rewrite reset_flat. change (0 + 1) with 1.
    assert (Hsd : sdeal (S2 Betting Betting k0 k1 e0 e1 p0 p1 c0 c1 bd ac0 ac1 lr ta true false) h
                  = settle_round (S2 Betting Betting k0 k1 0 0 p0 p1 c0 c1 (N.lor bd h) false false 0 1 false false)).
    { unfold sdeal, canact. cbn [S2 behind folded instreet total acted last_raise nstreet to_act holes community
                                   seats2 filter nthB nthZ nth is_fold sstate_eqb negb andb].
      destruct (Z.eqb_spec k0 0); [contradiction|]. destruct (Z.eqb_spec k1 0); [contradiction|].
      cbn [negb existsb Nat.eqb orb]. unfold S2. rewrite Hst. reflexivity. }
    rewrite Hsd. split.
    + apply R_settle; try assumption.
      * repeat split; try lia; intros; congruence.
      * repeat split; try lia; intros; congruence.
      * lia.
      * intros _ _ _. rewrite Hoff'. reflexivity.
      * intros _ _ _. rewrite Hoff'. split; [lia|]. split; [reflexivity|].
        right. split; [reflexivity|]. repeat split; try congruence; try lia.
    + rewrite !potential_flat, Hoff', Hst. lia.
  - (* Betting / all-in cannot be matched *)
    exfalso. assert (k0 <> 0) by (intros Hz; apply (Hbt0 Hz); reflexivity). specialize (Hsh1 eq_refl).
    rewrite orb_false_r, andb_true_r in Hdeal. apply andb_prop in Hdeal. destruct Hdeal as [_ Hm].
    apply Z.eqb_eq in Hm. lia.
  - exfalso. assert (k1 <> 0) by (intros Hz; apply (Hbt1 Hz); reflexivity). specialize (Hsh0 eq_refl).
    rewrite orb_false_r in Hdeal. apply andb_prop in Hdeal. destruct Hdeal as [_ Hm].
    apply Z.eqb_eq in Hm. lia.
  - (* both all-in: the board runs out *)
    specialize (Hsh0 eq_refl). specialize (Hsh1 eq_refl). subst k0 k1.
    assert (Hal : is_everyone_alright (G2 Shoving Shoving 0 0 e0 e1 p0 p1 c0 c1 pt (N.lor bd h) 0) = true).
    { rewrite alright_flat. unfold shovingA. cbn. apply orb_true_r. }
    rewrite next_player_flat0 in Hact by (try reflexivity; rewrite Hal; discriminate).
    rewrite Hal in Hact. cbv beta iota in Hact. injection Hact as <-.
    rewrite reset_flat.
    assert (Hsd : sdeal (S2 Shoving Shoving 0 0 e0 e1 p0 p1 c0 c1 bd ac0 ac1 lr ta true false) h
                  = settle_round (S2 Shoving Shoving 0 0 0 0 p0 p1 c0 c1 (N.lor bd h) false false 0 ta false false)).
    { unfold sdeal, canact. cbn. unfold S2. rewrite Hst. reflexivity. }
    rewrite Hsd. split.
    + apply R_settle; try assumption.
      * repeat split; try lia; intros; congruence.
      * repeat split; try lia; intros; congruence.
      * lia.
      * intros Hbb. discriminate Hbb.
      * intros _ _ Hcl. rewrite closed_S2 in Hcl. unfold seat_closed in Hcl. cbn in Hcl. discriminate Hcl.
    + rewrite !potential_flat, Hoff', Hst. lia.
Qed.
