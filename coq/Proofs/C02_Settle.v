(* Proofs/C02_Settle.v -- the settlement of a heads-up hand (Model/Showdown.settle on a ledger of
   two entries): who gets what, zero-sum; and the evaluator never panics on the hands of a
   reachable state. *)
From Coq Require Import ZArith NArith List Bool Lia ZifyBool ZifyN.
From RP Require Import Base.Bits Gen.GenLib Gen.GenCards Gen.GenStreet Gen.GenFixes
                       Model.Codec Model.Evaluator Model.Showdown Model.Game
                       Spec.SpecGameInv Spec.SpecSettle
                       Proofs.BitsLemmas Proofs.C02_Basics Proofs.C02_Inv Proofs.C02_Cards.
Import ListNotations.
Open Scope Z_scope.
Ltac Zify.zify_post_hook ::= Z.to_euclidean_division_equations.

Local Arguments Z.add : simpl never.
Local Arguments Z.sub : simpl never.
Local Arguments Z.max : simpl never.
Local Arguments Z.min : simpl never.
Local Arguments Z.ltb : simpl never.
Local Arguments Z.eqb : simpl never.
Local Arguments Z.quot : simpl never.
Local Arguments Z.rem : simpl never.
Local Arguments N.ltb : simpl never.
Local Arguments N.eqb : simpl never.
Local Arguments N.max : simpl never.
Local Arguments is_fold : simpl never.

(* ---------- one round of the two loops ---------- *)
Lemma winners_S : forall f s, winners (S f) s =
  match strongest s with
  | None => Done s
  | Some b =>
      match pots (S (S (length (pays s)))) (mkSd (pays s) (distributing s) (distributed s) (Some b)) with
      | Done s1 => Done s1 | More s1 => winners f s1 | Panic => Panic | OutOfFuel => OutOfFuel
      end
  end.
Proof. intros f s. reflexivity. Qed.

Lemma pots_S : forall f s, pots (S f) s =
  match snd (remaining s) with
  | None => More (fst (remaining s))
  | Some amt =>
      match distribute (mkSd (pays s) amt (distributing s) (best s)) with
      | None => Panic
      | Some s2 => if is_complete s2 then Done s2 else pots f s2
      end
  end.
Proof. intros f s. reflexivity. Qed.

Lemma settle_via : forall l K amt s2,
  strongest (mkSd l 0 0 None) = Some K ->
  snd (remaining (mkSd l 0 0 (Some K))) = Some amt ->
  distribute (mkSd l amt 0 (Some K)) = Some s2 ->
  is_complete s2 = true ->
  settle l = Some (map reward (pays s2)).
Proof.
  intros l K amt s2 H1 H2 H3 H4. unfold settle, settle_result.
  rewrite winners_S. rewrite H1. cbn [pays distributing distributed].
  rewrite pots_S. rewrite H2. cbn [pays distributing distributed best]. rewrite H3, H4. reflexivity.
Qed.


Lemma is_winner_mk : forall ps dg dd K r x s k,
  is_winner (mkSd ps dg dd (Some K)) (mkPay r x s k) = negb (is_fold s) && N.eqb k K && (dd <? x).
Proof. reflexivity. Qed.
Lemma sumZ_two : forall x y, sumZ [x; y] = x + y.
Proof. intros x y. unfold sumZ. cbn [fold_left]. lia. Qed.

Lemma distribute_two : forall pa pb dg dd K,
  distribute (mkSd [pa; pb] dg dd (Some K)) =
  let s := mkSd [pa; pb] dg dd (Some K) in
  let chips := Z.max (Z.min (risked pa) dg - dd) 0 + Z.max (Z.min (risked pb) dg - dd) 0 in
  let n := (if is_winner s pa then 1 else 0) + (if is_winner s pb then 1 else 0) in
  if n =? 0 then None
  else Some (mkSd (give [pa; pb] s (Z.quot chips n) (Z.rem chips n)) dg dd (Some K)).
Proof.
  intros pa pb dg dd K. unfold distribute, winnings.
  cbn [pays distributing distributed best map filter]. rewrite sumZ_two.
  destruct (is_winner _ pa), (is_winner _ pb); reflexivity.
Qed.

Lemma settle_fold_a : forall xa xb sb ka kb, sb <> Folding -> 0 < xa -> xa <= xb ->
  settle [mkPay 0 xa Folding ka; mkPay 0 xb sb kb] = Some [0; xa + xb].
Proof.
  intros xa xb sb ka kb Hsb Ha Hle.
  assert (Hf : is_fold sb = false) by (destruct sb; [reflexivity | reflexivity | contradiction]).
  assert (HF : is_fold Folding = true) by reflexivity.
  rewrite (settle_via _ kb xb (mkSd [mkPay 0 xa Folding ka; mkPay (xa + xb) xb sb kb] xb 0 (Some kb))).
  - reflexivity.
  - unfold strongest. cbn. rewrite Hf, HF. reflexivity.
  - unfold remaining. cbn. rewrite N.eqb_refl.
    destruct (N.eqb ka kb); cbn; replace (0 <? xb) with true by lia; try (replace (0 <? xa) with true by lia); cbn; rewrite ?Hf, ?HF; reflexivity.
  - rewrite distribute_two. cbv zeta. cbn [give]. rewrite !is_winner_mk, Hf, HF, N.eqb_refl.
    cbn [negb andb risked reward status skey]. replace (0 <? xb) with true by lia.
    change (0 + 1) with 1. change (1 =? 0) with false. cbv iota.
    rewrite Z.quot_1_r, Z.rem_1_r. change (0 <? 0) with false. cbv iota.
    do 3 f_equal. f_equal. f_equal. lia.
  - unfold is_complete. cbn [pays map risked reward]. rewrite !sumZ_two. lia.
Qed.

Lemma settle_fold_b : forall xa xb sa ka kb, sa <> Folding -> 0 < xb -> xb <= xa ->
  settle [mkPay 0 xa sa ka; mkPay 0 xb Folding kb] = Some [xa + xb; 0].
Proof.
  intros xa xb sa ka kb Hsa Hb Hle.
  assert (Hf : is_fold sa = false) by (destruct sa; [reflexivity | reflexivity | contradiction]).
  assert (HF : is_fold Folding = true) by reflexivity.
  rewrite (settle_via _ ka xa (mkSd [mkPay (xa + xb) xa sa ka; mkPay 0 xb Folding kb] xa 0 (Some ka))).
  - reflexivity.
  - unfold strongest. cbn. rewrite Hf, HF. reflexivity.
  - unfold remaining. cbn. rewrite N.eqb_refl.
    destruct (N.eqb kb ka); cbn; replace (0 <? xa) with true by lia; try (replace (0 <? xb) with true by lia); cbn; rewrite ?Hf, ?HF; reflexivity.
  - rewrite distribute_two. cbv zeta. cbn [give]. rewrite !is_winner_mk, Hf, HF, N.eqb_refl.
    cbn [negb andb risked reward status skey]. replace (0 <? xa) with true by lia.
    change (1 + 0) with 1. change (1 =? 0) with false. cbv iota.
    rewrite Z.quot_1_r, Z.rem_1_r. change (0 <? 0) with false. cbv iota.
    do 3 f_equal. f_equal. lia.
  - unfold is_complete. cbn [pays map risked reward]. rewrite !sumZ_two. lia.
Qed.

Lemma quot_double : forall x, Z.quot (x + x) 2 = x /\ Z.rem (x + x) 2 = 0.
Proof.
  intros x. replace (x + x) with (x * 2) by lia.
  split; [apply Z.quot_mul; discriminate | apply Z.rem_mul; discriminate].
Qed.

Lemma settle_show : forall x sa sb ka kb, sa <> Folding -> sb <> Folding -> 0 < x ->
  settle [mkPay 0 x sa ka; mkPay 0 x sb kb] =
  Some (if (kb <? ka)%N then [x + x; 0] else if (ka <? kb)%N then [0; x + x] else [x; x]).
Proof.
  intros x sa sb ka kb Hsa Hsb Hx.
  assert (Hfa : is_fold sa = false) by (destruct sa; [reflexivity | reflexivity | contradiction]).
  assert (Hfb : is_fold sb = false) by (destruct sb; [reflexivity | reflexivity | contradiction]).
  assert (Hstr : strongest (mkSd [mkPay 0 x sa ka; mkPay 0 x sb kb] 0 0 None) = Some (N.max ka kb)).
  { unfold strongest. cbn. rewrite Hfa, Hfb. reflexivity. }
  assert (Hx0 : (0 <? x) = true) by lia.
  destruct (kb <? ka)%N eqn:E1; [|destruct (ka <? kb)%N eqn:E2].
  - assert (HK : N.max ka kb = ka) by lia. rewrite HK in Hstr.
    assert (Hne : N.eqb kb ka = false) by lia.
    rewrite (settle_via _ ka x (mkSd [mkPay (x + x) x sa ka; mkPay 0 x sb kb] x 0 (Some ka)) Hstr).
    + reflexivity.
    + unfold remaining. cbn. rewrite N.eqb_refl, Hne. cbn. rewrite Hx0. cbn. rewrite Hfa. reflexivity.
    + rewrite distribute_two. cbv zeta. cbn [give]. rewrite !is_winner_mk, Hfa, Hfb, N.eqb_refl, Hne.
      cbn [negb andb risked reward status skey]. rewrite Hx0.
      change (1 + 0) with 1. change (1 =? 0) with false. cbv iota.
      rewrite Z.quot_1_r, Z.rem_1_r. change (0 <? 0) with false. cbv iota.
      do 3 f_equal. f_equal. lia.
    + unfold is_complete. cbn [pays map risked reward]. rewrite !sumZ_two. lia.
  - assert (HK : N.max ka kb = kb) by lia. rewrite HK in Hstr.
    assert (Hne : N.eqb ka kb = false) by lia.
    rewrite (settle_via _ kb x (mkSd [mkPay 0 x sa ka; mkPay (x + x) x sb kb] x 0 (Some kb)) Hstr).
    + reflexivity.
    + unfold remaining. cbn. rewrite N.eqb_refl, Hne. cbn. rewrite Hx0. cbn. rewrite Hfb. reflexivity.
    + rewrite distribute_two. cbv zeta. cbn [give]. rewrite !is_winner_mk, Hfa, Hfb, N.eqb_refl, Hne.
      cbn [negb andb risked reward status skey]. rewrite Hx0.
      change (0 + 1) with 1. change (1 =? 0) with false. cbv iota.
      rewrite Z.quot_1_r, Z.rem_1_r. change (0 <? 0) with false. cbv iota.
      do 3 f_equal. f_equal. f_equal. lia.
    + unfold is_complete. cbn [pays map risked reward]. rewrite !sumZ_two. lia.
  - assert (HE : ka = kb) by lia. subst kb. rewrite N.max_id in Hstr.
    destruct (quot_double x) as (Hq & Hr).
    rewrite (settle_via _ ka x (mkSd [mkPay x x sa ka; mkPay x x sb ka] x 0 (Some ka)) Hstr).
    + reflexivity.
    + unfold remaining. cbn. rewrite N.eqb_refl. cbn. rewrite Hx0. cbn. rewrite Hfa, Hfb. cbn.
      f_equal. lia.
    + rewrite distribute_two. cbv zeta. cbn [give]. rewrite !is_winner_mk, Hfa, Hfb, N.eqb_refl.
      cbn [negb andb risked reward status skey]. rewrite Hx0.
      change (1 + 1) with 2. change (2 =? 0) with false. cbv iota.
      replace (Z.max (Z.min x x - 0) 0 + Z.max (Z.min x x - 0) 0) with (x + x) by lia.
      rewrite Hq, Hr. change (0 <? 0) with false. change (0 <? 0 - 1) with false. cbv iota.
      do 3 f_equal; [f_equal; lia | f_equal; f_equal; lia].
    + unfold is_complete. cbn [pays map risked reward]. rewrite !sumZ_two. lia.
Qed.

(* ---------- the evaluator does not panic on a non-empty hand ---------- *)
Open Scope N_scope.

Lemma popcount64_pos : forall x i, i < 64 -> N.testbit x i = true -> 1 <= popcount64 x.
Proof.
  intros x i Hi Hb. rewrite popcount64_length.
  assert (Hin : In i (set_bits64 x)).
  { unfold set_bits64. apply bits_from_spec. rewrite N.sub_0_r.
    change (N.of_nat 64) with 64. split; [lia|]. split; [lia | exact Hb]. }
  destruct (set_bits64 x) as [|y l]; [destruct Hin|]. cbn [length]. lia.
Qed.

Lemma n_oak_none : forall h fuel r,
  (N.to_nat r < fuel)%nat -> n_oak_loop fuel r h 1 None = None ->
  forall r', r' <= r -> popcount64 (N.land (N.shiftl 15 (4 * r')) h) < 1.
Proof.
  intros h. induction fuel as [|k IH]; intros r Hf H r' Hr'.
  - lia.
  - cbn [n_oak_loop negb andb] in H.
    destruct (1 <=? popcount64 (N.land (N.shiftl 15 (4 * r)) h)) eqn:E; [discriminate H|].
    destruct (r =? 0) eqn:E0.
    + assert (r' = r) by lia. subst r'. lia.
    + destruct (N.eq_dec r' r) as [Er | Ner]; [subst r'; lia|].
      apply (IH (r - 1)); [lia | exact H | lia].
Qed.

Lemma nibble_bit : forall i, N.testbit (N.shiftl 15 (4 * (i / 4))) i = true.
Proof.
  intros i. rewrite N.shiftl_spec_high' by lia.
  assert (Hj : i - 4 * (i / 4) = 0 \/ i - 4 * (i / 4) = 1 \/ i - 4 * (i / 4) = 2 \/ i - 4 * (i / 4) = 3) by lia.
  destruct Hj as [E | [E | [E | E]]]; rewrite E; reflexivity.
Qed.

Lemma find_1_oak_some : forall h i, i < 52 -> N.testbit h i = true -> find_rank_of_n_oak h 1 <> None.
Proof.
  intros h i Hi Hb Hn. unfold find_rank_of_n_oak, find_rank_of_n_oak_skip in Hn.
  assert (Hr : i / 4 <= 12) by lia.
  pose proof (n_oak_none h 13 12 ltac:(cbn; lia) Hn (i / 4) Hr) as Hp.
  assert (Hpos : 1 <= popcount64 (N.land (N.shiftl 15 (4 * (i / 4))) h)).
  { apply (popcount64_pos _ i); [lia|]. rewrite N.land_spec, nibble_bit, Hb. reflexivity. }
  lia.
Qed.

Lemma fold_or_else : forall (A B : Type) (f : A -> option B) l acc,
  (acc <> None \/ exists s, In s l /\ f s <> None) ->
  fold_left (fun acc s => match acc with Some r => Some r | None => f s end) l acc <> None.
Proof.
  intros A B f. induction l as [|x l IH]; intros acc H.
  - cbn [fold_left]. destruct H as [H | (s & [] & _)]. exact H.
  - cbn [fold_left]. apply IH. destruct acc as [r|].
    + left. discriminate.
    + destruct H as [H | (s & [E | Hin] & Hs)]; [contradiction | subst s; left; exact Hs |].
      right. exists s. auto.
Qed.

Lemma strength_of_some : forall d h i, i < 52 -> N.testbit h i = true -> strength_of d h <> None.
Proof.
  intros d h i Hi Hb.
  assert (Hr : find_ranking d h <> None).
  { unfold find_ranking. apply fold_or_else. right. exists S1. split.
    - unfold EVAL_CHAIN. cbn [In]. tauto.
    - cbn [eval_step_run]. unfold find_1_oak.
      pose proof (find_1_oak_some h i Hi Hb) as Hs.
      destruct (find_rank_of_n_oak h 1); [discriminate | contradiction]. }
  unfold strength_of. destruct (find_ranking d h); [discriminate | contradiction].
Qed.

Lemma mask_log2 : forall d, N.log2 (hand_mask d) = 51.
Proof. intros d. destruct d; reflexivity. Qed.

(* a non-empty hand inside the deck has a card below bit 52 *)
Lemma hole_has_bit : forall d A, N.land A (hand_mask d) = A -> A <> 0 ->
  exists i, i < 52 /\ N.testbit A i = true.
Proof.
  intros d A Hm Hnz. exists (N.log2 A). split.
  - pose proof (N.log2_land A (hand_mask d)) as Hl. rewrite Hm, mask_log2 in Hl. lia.
  - apply N.bit_log2. exact Hnz.
Qed.

Lemma seat_strength_some : forall d g s, N.land (cards s) (hand_mask d) = cards s ->
  hand_size (cards s) = 2 -> N.land (board g) (cards s) = 0 ->
  exists k, seat_strength d g s = Some k.
Proof.
  intros d g s Hm Hsz Hdis.
  assert (Hnz : cards s <> 0) by (apply hand_size_pos_nonzero; rewrite Hsz; discriminate).
  destruct (hole_has_bit d (cards s) Hm Hnz) as (i & Hi & Hb).
  unfold seat_strength, hand_add. rewrite N.land_comm, Hdis, N.eqb_refl. cbv iota.
  pose proof (strength_of_some d (N.lor (cards s) (board g)) i Hi) as Hs.
  rewrite N.lor_spec, Hb in Hs. specialize (Hs eq_refl).
  destruct (strength_of d (N.lor (cards s) (board g))) as [x|]; [|contradiction].
  eexists. reflexivity.
Qed.
Close Scope N_scope.

(* ---------- the settlement theorem ---------- *)
Theorem settle_reachable : forall d g, game_inv g -> card_inv d g -> must_stop g = true ->
  exists rw, settlements d g = Some rw /\ sumZ rw = pot g
    /\ (forall i s r, nth_error (seats g) i = Some s -> nth_error rw i = Some r -> st s = Folding -> r = 0)
    /\ winner_takes_or_split d g rw.
Proof.
  intros d g Hg Hc Hstop.
  apply game_inv_iff in Hg. destruct Hg as (a & b & Hs & Hd & Hinv & Hact).
  destruct Hc as (A & B & Hm & HA & HB & SA & SB & HAB & HbA & HbB & Hok & Hlow).
  rewrite Hs in Hm. cbn [map] in Hm. injection Hm as EA EB. subst A B.
  destruct (seat_strength_some d g a HA SA HbA) as (ka & Hka).
  destruct (seat_strength_some d g b HB SB HbB) as (kb & Hkb).
  assert (Hled : ledger d g = Some [mkPay 0 (spent a) (st a) ka; mkPay 0 (spent b) (st b) kb]).
  { unfold ledger. rewrite Hs. unfold opt_map_all. cbn [fold_right]. rewrite Hka, Hkb. reflexivity. }
  unfold settlements. rewrite Hstop, Hled.
  unfold winner_takes_or_split. rewrite Hs, Hka, Hkb.
  pose proof Hinv as (Ha & Hb & Hp & Hsa & Hsb & Hbl & Heq & Hfa & Hfb).
  assert (Hnth : forall (ra rb : Z) i s r, nth_error [a; b] i = Some s -> nth_error [ra; rb] i = Some r ->
                 (i = 0%nat /\ s = a /\ r = ra) \/ (i = 1%nat /\ s = b /\ r = rb)).
  { intros ra rb i s r H1 H2. destruct i as [|[|i]]; cbn in H1, H2.
    - left. injection H1 as H1. injection H2 as H2. auto.
    - right. injection H1 as H1. injection H2 as H2. auto.
    - destruct i; discriminate H1. }
  destruct (sstate_eqb (st a) Folding) eqn:Fa; [apply sstate_eqb_eq in Fa|].
  - (* a folded *)
    destruct (Hfa Fa) as (Lb & Hle). rewrite Fa.
    rewrite (settle_fold_a (spent a) (spent b) (st b) ka kb Lb Hsa Hle).
    eexists. split; [reflexivity|]. split; [rewrite sumZ_two; lia|]. split.
    + intros i s r H1 H2 Hf. destruct (Hnth _ _ i s r H1 H2) as [(_ & _ & E) | (_ & E1 & E)]; subst; [reflexivity | contradiction].
    + split; [intros _; lia|]. split; [intros E; contradiction|]. intros E. exfalso. apply E. reflexivity.
  - assert (La : st a <> Folding) by (intros E; rewrite E in Fa; discriminate Fa).
    destruct (sstate_eqb (st b) Folding) eqn:Fb; [apply sstate_eqb_eq in Fb|].
    + (* b folded *)
      destruct (Hfb Fb) as (_ & Hle). rewrite Fb.
      rewrite (settle_fold_b (spent a) (spent b) (st a) ka kb La Hsb Hle).
      eexists. split; [reflexivity|]. split; [rewrite sumZ_two; lia|]. split.
      * intros i s r H1 H2 Hf. destruct (Hnth _ _ i s r H1 H2) as [(_ & E1 & E) | (_ & _ & E)]; subst; [contradiction | reflexivity].
      * split; [intros E; contradiction|]. split; [intros _; lia|]. intros _ E. exfalso. apply E. reflexivity.
    + (* showdown *)
      assert (Lb : st b <> Folding) by (intros E; rewrite E in Fb; discriminate Fb).
      assert (Hal : is_everyone_alright g = true).
      { unfold must_stop in Hstop. destruct (street g =? 3); [exact Hstop|].
        unfold is_everyone_folding in Hstop. rewrite (live_two g a b Hs), Fa, Fb in Hstop.
        cbn in Hstop. discriminate Hstop. }
      pose proof (alright_spent_eq g a b Hs Hinv Hal La Lb) as Hsp.
      rewrite <- Hsp.
      rewrite (settle_show (spent a) (st a) (st b) ka kb La Lb Hsa).
      eexists. split; [reflexivity|]. split; [|split].
      * destruct (kb <? ka)%N; [|destruct (ka <? kb)%N]; rewrite sumZ_two; lia.
      * intros i s r H1 _ Hf. exfalso. destruct i as [|[|i]]; cbn [nth_error] in H1.
        -- injection H1 as E. subst s. contradiction.
        -- injection H1 as E. subst s. contradiction.
        -- destruct i; discriminate H1.
      * destruct (kb <? ka)%N eqn:E1; [|destruct (ka <? kb)%N eqn:E2];
          (split; [intros E; contradiction|]); (split; [intros E; contradiction|]);
          intros _ _; (split; [reflexivity|]); repeat split; intros; try lia.
Qed.

Theorem settle_reachable_top : forall d hs g, wf_holes d hs -> reachable d hs g -> must_stop g = true ->
  exists rw, settlements d g = Some rw /\ sumZ rw = pot g
    /\ (forall i s r, nth_error (seats g) i = Some s -> nth_error rw i = Some r -> st s = Folding -> r = 0)
    /\ winner_takes_or_split d g rw.
Proof.
  intros d hs g Hw Hr Hstop.
  apply settle_reachable; [eapply game_inv_reachable | eapply card_inv_reachable | exact Hstop]; eassumption.
Qed.
