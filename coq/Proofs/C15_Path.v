(* Proofs/C15_Path.v -- Path <-> Vec<Edge> (16 nibble lanes in a u64) is lossless. *)
From Coq Require Import NArith ZArith List Bool Lia ZifyBool ZifyN ZifyNat.
From RP Require Import Base.Bits Gen.GenAbstract Model.Codec.
From RP Require Import Spec.SpecCodec Proofs.BitsLemmas Proofs.C15_Finite.
Import ListNotations.
Open Scope N_scope.

Arguments N.add : simpl never.
Arguments N.mul : simpl never.
Arguments N.sub : simpl never.
Arguments N.shiftl : simpl never.
Arguments N.shiftr : simpl never.
Arguments N.land : simpl never.
Arguments N.lor : simpl never.
Arguments N.pow : simpl never.
Arguments N.to_nat : simpl never.

Lemma opt_map_all_cons : forall {A B} (f : A -> option B) x l,
  opt_map_all f (x :: l)
  = match f x, opt_map_all f l with Some y, Some r => Some (y :: r) | _, _ => None end.
Proof. reflexivity. Qed.

(* per-edge round trip lifted to lists *)
Lemma path_codes : forall es, Forall (fun e => In e all_edges) es ->
  exists cs, opt_map_all edge_to_u8 es = Some cs /\ length cs = length es /\
             Forall (fun c => 1 <= c <= 15) cs /\ opt_map_all edge_of_u8 cs = Some es.
Proof.
  induction es as [|e es IH]; intros H.
  - exists []. repeat split; constructor.
  - inversion H as [|e' es' He Hes]; subst.
    destruct (IH Hes) as (cs & A & L & F & B).
    destruct (edge_u8 e He) as (c & Ac & Rc & Bc).
    exists (c :: cs). rewrite !opt_map_all_cons, A, Ac, B, Bc. cbn [length].
    repeat split; [congruence | constructor; [exact Rc | exact F]].
Qed.

(* the packing fold is the little-endian base-16 value *)
Lemma pack_fold : forall cs i acc,
  Forall (fun c => c < 16) cs -> acc < 2 ^ (4 * i) -> i + N.of_nat (length cs) <= 16 ->
  fold_left (fun acc ib => N.lor acc (u64 (N.shiftl (snd ib) (fst ib * 4))))
            (combine (nseq (length cs) i) cs) acc
  = acc + 2 ^ (4 * i) * le_val 4 cs.
Proof.
  induction cs as [|c cs IH]; intros i acc Hf Hacc Hlen.
  - cbn [length nseq combine fold_left le_val]. lia.
  - inversion Hf as [|c' cs' Hc Hcs]; subst. cbn [length] in Hlen.
    cbn [length nseq combine fold_left fst snd le_val].
    assert (Hpow : 2 ^ (4 * (i + 1)) = 2 ^ (4 * i) * 16).
    { rewrite N.mul_add_distr_l, N.pow_add_r. reflexivity. }
    assert (Hle : 2 ^ (4 * (i + 1)) <= 2 ^ 64) by (apply N.pow_le_mono_r; [discriminate | lia]).
    rewrite (N.mul_comm i 4).
    assert (Hu : u64 (N.shiftl c (4 * i)) = c * 2 ^ (4 * i)).
    { rewrite N.shiftl_mul_pow2. apply N.mod_small. change two64 with (2 ^ 64). nia. }
    rewrite Hu.
    assert (Hor : N.lor acc (c * 2 ^ (4 * i)) = acc + c * 2 ^ (4 * i)).
    { rewrite <- N.shiftl_mul_pow2. rewrite lor_shiftl_add by exact Hacc.
      rewrite N.shiftl_mul_pow2. reflexivity. }
    rewrite Hor.
    rewrite IH; [| exact Hcs | nia | lia].
    rewrite Hpow. change (2 ^ 4) with 16. lia.
Qed.

(* reading the lanes back *)
Lemma lanes_le_val : forall n cs i p,
  Forall (fun c => c < 16) cs -> (length cs <= n)%nat ->
  N.shiftr p (i * 4) = le_val 4 cs ->
  map (fun i => N.land 15 (N.shiftr p (i * 4))) (nseq n i) = cs ++ repeat 0 (n - length cs)%nat.
Proof.
  induction n as [|n IH]; intros cs i p Hf Hlen Hs.
  - destruct cs as [|c cs]; [reflexivity | cbn [length] in Hlen; lia].
  - cbn [nseq map].
    assert (Hnext : N.shiftr p ((i + 1) * 4) = N.shiftr p (i * 4) / 2 ^ 4).
    { rewrite <- N.shiftr_div_pow2, N.shiftr_shiftr. f_equal. lia. }
    assert (Hland : forall x, N.land 15 x = x mod 2 ^ 4).
    { intros x. rewrite N.land_comm. apply (N.land_ones x 4). }
    rewrite Hland, Hs. rewrite Hs in Hnext.
    destruct cs as [|c cs].
    + cbn [le_val] in *. rewrite N.mod_0_l by discriminate.
      rewrite (IH [] (i + 1) p); [| constructor | cbn [length]; lia |].
      * cbn [app length]. rewrite !Nat.sub_0_r. reflexivity.
      * rewrite Hnext. apply N.div_0_l. discriminate.
    + inversion Hf as [|c' cs' Hc Hcs]; subst. cbn [length] in Hlen.
      cbn [le_val] in *. change 16 with (2 ^ 4) in Hc.
      rewrite le_val_mod by exact Hc. rewrite le_val_div in Hnext by exact Hc.
      rewrite (IH cs (i + 1) p Hcs); [| lia | exact Hnext].
      cbn [app length]. reflexivity.
Qed.

Lemma take_while_nz_app_zeros : forall cs k, Forall (fun c => c <> 0) cs ->
  take_while_nz (cs ++ repeat 0 k) = cs.
Proof.
  induction cs as [|c cs IH]; intros k H.
  - cbn [app]. destruct k as [|k]; reflexivity.
  - inversion H as [|c' cs' Hc Hcs]; subst. cbn [app take_while_nz].
    destruct (N.eqb_spec c 0) as [E | _]; [contradiction|].
    rewrite IH by exact Hcs. reflexivity.
Qed.

Lemma path_roundtrip : forall es, (length es <= 16)%nat -> Forall (fun e => In e all_edges) es ->
  exists p, path_pack es = Some p /\ p < 2 ^ 64 /\ path_unpack p = Some es.
Proof.
  intros es Hlen Hes.
  destruct (path_codes es Hes) as (cs & A & L & F & B).
  assert (F16 : Forall (fun c => c < 16) cs).
  { eapply Forall_impl; [|exact F]. intros c Hc. cbv beta in Hc. lia. }
  assert (Fnz : Forall (fun c => c <> 0) cs).
  { eapply Forall_impl; [|exact F]. intros c Hc. cbv beta in Hc. lia. }
  exists (le_val 4 cs).
  split; [|split].
  - unfold path_pack, PATH_PACK. cbv beta iota.
    destruct (N.leb_spec (N.of_nat (length es)) 16) as [_ | H]; [|lia].
    rewrite A. f_equal.
    rewrite pack_fold; [| exact F16 | rewrite N.mul_0_r; change (2 ^ 0) with 1; lia | lia].
    rewrite N.mul_0_r. change (2 ^ 0) with 1. lia.
  - eapply N.lt_le_trans; [apply le_val_lt; exact F16|].
    apply N.pow_le_mono_r; [discriminate | lia].
  - unfold path_unpack, PATH_UNPACK. cbv beta iota.
    rewrite (lanes_le_val (N.to_nat 16) cs 0 (le_val 4 cs) F16); [| lia | apply N.shiftr_0_r].
    rewrite take_while_nz_app_zeros by exact Fnz. exact B.
Qed.

Lemma path_inj : forall es1 es2,
  (length es1 <= 16)%nat -> Forall (fun e => In e all_edges) es1 ->
  (length es2 <= 16)%nat -> Forall (fun e => In e all_edges) es2 ->
  path_pack es1 = path_pack es2 -> es1 = es2.
Proof.
  intros es1 es2 L1 F1 L2 F2 E.
  destruct (path_roundtrip es1 L1 F1) as (p1 & A1 & _ & B1).
  destruct (path_roundtrip es2 L2 F2) as (p2 & A2 & _ & B2).
  rewrite A1, A2 in E. injection E as E. subst p2. rewrite B1 in B2. injection B2 as B2. exact B2.
Qed.
