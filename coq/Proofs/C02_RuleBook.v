(* Proofs/C02_RuleBook.v -- the numeric strength key used by the settlement (Model/Game.v
   strength_key) orders well-formed strengths exactly as derive(Ord) (cmp_strength), hence -- by the
   C01 theorems -- exactly as the rule book orders the hands (cmp_spec); the settlement of a
   reachable terminal state restated with cmp_spec. *)
From Coq Require Import ZArith NArith List Bool Lia ZifyBool ZifyN.
From RP Require Import Base.Bits Gen.GenLib Gen.GenStreet Gen.GenCards Gen.GenFixes
                       Model.Codec Model.Evaluator Model.Showdown Model.Game
                       Spec.SpecPoker Spec.SpecStrength Spec.SpecHand
                       Spec.SpecGameInv Spec.SpecSettle Spec.SpecSettleRules
                       Proofs.BitsLemmas Proofs.C01_Main Proofs.C02_Basics Proofs.C02_Inv
                       Proofs.C02_Cards Proofs.C02_Settle.
Import ListNotations.
Open Scope N_scope.

(* ---------- mixed-radix comparison ---------- *)
Lemma radix_compare : forall M a b a' b', b < M -> b' < M ->
  N.compare (a * M + b) (a' * M + b') = lex (N.compare a a') (N.compare b b').
Proof.
  intros M a b a' b' Hb Hb'. unfold lex.
  destruct (N.compare_spec a a') as [E | L | G].
  - subst a'. destruct (N.compare_spec b b') as [E | L | G].
    + subst b'. apply N.compare_refl.
    + apply N.compare_lt_iff. lia.
    + apply N.compare_gt_iff. lia.
  - apply N.compare_lt_iff. nia.
  - apply N.compare_gt_iff. nia.
Qed.

Lemma lex_assoc : forall a b c, lex (lex a b) c = lex a (lex b c).
Proof. intros a b c. destruct a; reflexivity. Qed.

Theorem key_compare : forall d a b, wf_strength d a -> wf_strength d b ->
  N.compare (strength_key d a) (strength_key d b) = cmp_strength d a b.
Proof.
  intros d a b (_ & Ha1 & Ha2 & _ & Hak & _) (_ & Hb1 & Hb2 & _ & Hbk & _).
  unfold strength_key, cmp_strength, cmp_ranking.
  rewrite radix_compare by lia. rewrite radix_compare by lia. rewrite radix_compare by lia.
  rewrite !lex_assoc. reflexivity.
Qed.

Theorem key_order : forall d a b, wf_strength d a -> wf_strength d b ->
  (strength_key d b < strength_key d a <-> cmp_strength d a b = Gt) /\
  (strength_key d a < strength_key d b <-> cmp_strength d a b = Lt) /\
  (strength_key d a = strength_key d b <-> cmp_strength d a b = Eq).
Proof.
  intros d a b Ha Hb. rewrite <- (key_compare d a b Ha Hb).
  split; [|split].
  - symmetry. apply N.compare_gt_iff.
  - symmetry. apply N.compare_lt_iff.
  - symmetry. apply N.compare_eq_iff.
Qed.

(* the key order of the strengths of two actual hands is the rule-book order of the hands *)
Theorem key_rule_book : forall d h1 h2 a b, valid_hand d h1 -> valid_hand d h2 ->
  strength_of d h1 = Some a -> strength_of d h2 = Some b ->
  N.compare (strength_key d a) (strength_key d b) = cmp_spec d (hand_cards h1) (hand_cards h2).
Proof.
  intros d h1 h2 a b Hv1 Hv2 Ha Hb.
  rewrite (key_compare d a b (strength_wf d h1 a Hv1 Ha) (strength_wf d h2 b Hv2 Hb)).
  destruct (strength_order d h1 h2 Hv1 Hv2) as (s1 & s2 & E1 & E2 & Hc).
  rewrite Ha in E1. rewrite Hb in E2. injection E1 as E1. injection E2 as E2. subst s1 s2. exact Hc.
Qed.

(* ---------- the showdown hands of a reachable terminal state ---------- *)
Lemma bw_union_mask : forall m A bd : N, N.land A m = A -> N.land bd m = bd ->
  N.land (N.lor A bd) m = N.lor A bd.
Proof. intros m A bd HA Hb. rewrite N.land_lor_distr_l, HA, Hb. reflexivity. Qed.

Lemma showdown_hand_valid : forall d g s, N.land (cards s) (hand_mask d) = cards s ->
  N.land (board g) (hand_mask d) = board g -> hand_size (cards s) = 2 ->
  N.land (board g) (cards s) = 0 -> hand_size (board g) = 5 ->
  valid_hand d (showdown_hand g s).
Proof.
  intros d g s Hm Hbm Hsz Hdis H5. unfold showdown_hand, valid_hand.
  split; [apply bw_union_mask; assumption|].
  assert (Hp : popcount64 (N.lor (cards s) (board g)) = 7).
  { change (hand_size (N.lor (cards s) (board g)) = 7).
    rewrite hand_size_lor by (rewrite N.land_comm; exact Hdis). rewrite Hsz, H5. reflexivity. }
  rewrite Hp. lia.
Qed.

Lemma seat_strength_showdown : forall d g s k, N.land (board g) (cards s) = 0 ->
  seat_strength d g s = Some k ->
  exists x, strength_of d (showdown_hand g s) = Some x /\ k = strength_key d x.
Proof.
  intros d g s k Hdis H. unfold seat_strength, hand_add in H.
  rewrite N.land_comm, Hdis, N.eqb_refl in H. cbv iota in H. unfold showdown_hand.
  destruct (strength_of d (N.lor (cards s) (board g))) as [x|]; [|discriminate H].
  injection H as H. exists x. split; [reflexivity | symmetry; exact H].
Qed.

Lemma showdown_street : forall g a b, seats g = [a; b] -> st a <> Folding -> st b <> Folding ->
  must_stop g = true -> hand_size (board g) = 5.
Proof.
  intros g a b Hs La Lb Hstop.
  assert (Fa : sstate_eqb (st a) Folding = false).
  { destruct (sstate_eqb (st a) Folding) eqn:E; [apply sstate_eqb_eq in E; contradiction | reflexivity]. }
  assert (Fb : sstate_eqb (st b) Folding = false).
  { destruct (sstate_eqb (st b) Folding) eqn:E; [apply sstate_eqb_eq in E; contradiction | reflexivity]. }
  unfold must_stop in Hstop.
  destruct (Z.eqb_spec (street g) 3) as [E3 | N3].
  - unfold street in E3.
    destruct (street_of_size (Z.of_N (hand_size (board g)))) as [s|] eqn:Es; [|discriminate E3].
    subst s. apply street_of_size_cases in Es. lia.
  - unfold is_everyone_folding in Hstop. rewrite (live_two g a b Hs), Fa, Fb in Hstop.
    cbn in Hstop. discriminate Hstop.
Qed.

(* the conclusion of the settlement theorem, with the rule-book order *)
Theorem split_rule_book : forall d g rw, card_inv64 d g -> must_stop g = true ->
  winner_takes_or_split d g rw -> rule_book_settlement d g rw.
Proof.
  intros d g rw ((A & B & Hm & HA & HB & SA & SB & HAB & HbA & HbB & Hok & Hlow) & Hbm) Hstop Hw.
  unfold winner_takes_or_split in Hw. unfold rule_book_settlement.
  destruct (seats g) as [|a [|b [|c r]]] eqn:Hs; try contradiction.
  destruct rw as [|ra [|rb [|rc rr]]]; try contradiction.
  cbn [map] in Hm. injection Hm as EA EB. subst A B.
  destruct Hw as (Hfa & Hfb & Hsh).
  split; [exact Hfa|]. split; [exact Hfb|].
  intros La Lb. destruct (Hsh La Lb) as (Hsp & Hk).
  pose proof (showdown_street g a b Hs La Lb Hstop) as H5.
  pose proof (showdown_hand_valid d g a HA Hbm SA HbA H5) as Hva.
  pose proof (showdown_hand_valid d g b HB Hbm SB HbB H5) as Hvb.
  split; [exact H5|]. split; [exact Hva|]. split; [exact Hvb|]. split; [exact Hsp|].
  destruct (seat_strength d g a) as [ka|] eqn:Eka; [|contradiction].
  destruct (seat_strength d g b) as [kb|] eqn:Ekb; [|contradiction].
  destruct (seat_strength_showdown d g a ka HbA Eka) as (xa & Hxa & Eka').
  destruct (seat_strength_showdown d g b kb HbB Ekb) as (xb & Hxb & Ekb').
  rewrite <- (key_rule_book d _ _ xa xb Hva Hvb Hxa Hxb), <- Eka', <- Ekb'.
  destruct Hk as (Hgt & Hlt & Heq).
  destruct (N.compare_spec ka kb) as [E | L | G].
  - exact (Heq E).
  - exact (Hlt L).
  - exact (Hgt G).
Qed.

Theorem settle_rule_book : forall d hs g, wf_holes d hs -> reachable64 d hs g -> must_stop g = true ->
  exists rw, settlements d g = Some rw /\ (sumZ rw = pot g)%Z /\ rule_book_settlement d g rw.
Proof.
  intros d hs g Hw Hr Hstop.
  destruct (settle_reachable_top d hs g Hw (reachable64_reachable d hs g Hr) Hstop)
    as (rw & Hset & Hsum & _ & Hwin).
  exists rw. split; [exact Hset|]. split; [exact Hsum|].
  apply split_rule_book; [eapply card_inv64_reachable; eassumption | exact Hstop | exact Hwin].
Qed.
