(* Proofs/C01_Enum.v -- enumeration of the abstract hands (rank-count vectors, flush rank sets),
   the boolean checks run by reflection, and completeness of the enumeration. *)
From Coq Require Import NArith List Bool Lia.
From RP Require Import Base.Bits Gen.GenCards Model.Codec Model.Evaluator Spec.SpecPoker Spec.SpecStrength
  Spec.SpecHand Proofs.C01_Lists Proofs.C01_Abs.
Import ListNotations.
Open Scope N_scope.

(* all vectors of [ranks] entries in 0..4 with sum [budget] *)
Fixpoint vecs (ranks : nat) (budget : N) : list (list N) :=
  match ranks with
  | O => if budget =? 0 then [[]] else []
  | S r => flat_map (fun c => if c <=? budget then map (cons c) (vecs r (budget - c)) else []) [0; 1; 2; 3; 4]
  end.
(* the 13-entry vectors with sum n that start with the prefix p *)
Definition chunk (p : list N) (n : N) : list (list N) :=
  map (app p) (vecs (13 - length p) (n - sumN p)).

Lemma vecs_complete : forall n c b,
  length c = n -> Forall (fun x => x <= 4) c -> sumN c = b -> In c (vecs n b).
Proof.
  induction n as [|n IH]; intros c b Hlen Hall Hsum.
  - destruct c; [|discriminate]. cbn in Hsum. subst b. left. reflexivity.
  - destruct c as [|x c]; [discriminate|]. cbn [vecs].
    inversion Hall as [|x' c' Hx Hc]; subst x' c'.
    cbn [sumN fold_right] in Hsum. fold (sumN c) in Hsum.
    apply in_flat_map. exists x. split.
    + assert (x = 0 \/ x = 1 \/ x = 2 \/ x = 3 \/ x = 4) as Hcases by lia.
      cbn [In]. destruct Hcases as [H|[H|[H|[H|H]]]]; subst x; tauto.
    + replace (x <=? b) with true by (symmetry; apply N.leb_le; lia).
      apply in_map. apply IH; [cbn [length] in Hlen; lia|exact Hc|lia].
Qed.

Lemma sumN_app : forall a b, sumN (a ++ b) = sumN a + sumN b.
Proof.
  induction a as [|x a IH]; intros b; [reflexivity|].
  cbn [app sumN fold_right]. fold (sumN (a ++ b)). fold (sumN a). rewrite IH. lia.
Qed.

Lemma in_chunk : forall c n k, length c = 13%nat -> Forall (fun x => x <= 4) c -> sumN c = n ->
  In c (chunk (firstn k c) n).
Proof.
  intros c n k Hlen Hall Hsum. unfold chunk.
  rewrite <- (firstn_skipn k c) at 1. apply in_map.
  rewrite <- (firstn_skipn k c) in Hall, Hsum. apply Forall_app in Hall. rewrite sumN_app in Hsum.
  apply vecs_complete; [|apply Hall|lia].
  rewrite skipn_length, firstn_length, Hlen. lia.
Qed.

(* ---------- boolean well-formedness ---------- *)
Definition wfb (s : strength) : bool :=
  let v := svalue s in
  negb (category_eqb (rcat v) RMAX) && (r1 v <=? 12) && (r2 v <=? 12)
  && (match rcat v with TwoPair | FullHouse => true | _ => r2 v =? 0 end)
  && (skicks s <? 8192) && (popcount64 (skicks s) =? n_kickers_of (rcat v)).

Lemma wfb_sound : forall d s, wfb s = true -> wf_strength d s.
Proof.
  intros d s H. unfold wfb in H. unfold wf_strength. cbv zeta in *.
  repeat (apply andb_prop in H; let H2 := fresh "H" in destruct H as [H H2]).
  repeat split.
  - intros Hc. rewrite Hc in H. discriminate.
  - apply N.leb_le. assumption.
  - apply N.leb_le. assumption.
  - destruct (rcat (svalue s)); try exact I; apply N.eqb_eq; assumption.
  - apply N.ltb_lt. assumption.
  - apply N.eqb_eq. assumption.
Qed.

(* ---------- the checks ---------- *)
Definition flush_floor (d : deck) : N := class_value d CFlush * 1048576.

(* no flush suit: the evaluator on (counts, rank mask) returns the best rank-only value;
   with five distinct ranks that value stays below every flush *)
Definition check_nf (d : deck) (c : list N) : bool :=
  match SAcore d c (rmA c) None with
  | Some s => (strength_value d s =? NF d (expand c)) && wfb s
              && (if 5 <=? N.of_nat (length (rbits (rmA c))) then NF d (expand c) <? flush_floor d else true)
  | None => false
  end.

(* flush suit with rank set m (five to seven ranks): the evaluator returns the best suited value *)
Definition check_fl (d : deck) (m : N) : bool :=
  if (5 <=? N.of_nat (length (rbits m))) && (N.of_nat (length (rbits m)) <=? 7) then
    match SAflush d m, rank_of_mask m with
    | Some s, Some _ => (strength_value d s =? FL d (rbits m)) && wfb s && (flush_floor d <=? FL d (rbits m))
    | _, _ => false
    end
  else true.

Definition short_prefix : list N := [0; 0; 0; 0].
