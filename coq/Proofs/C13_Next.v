(* Proofs/C13_Next.v -- Histogram::absorb and Layer::next: every point is merged into exactly one
   centroid, the nearest; conservation of the samples. *)
From Coq Require Import Arith NArith List Bool Lia Sorted.
From RP Require Import Model.Kmeans Spec.SpecKmeans Proofs.C13_Neighborhood.
Import ListNotations.

(* ---------- histograms ---------- *)

Lemma count_cons : forall a kc h,
  count a (kc :: h) = (if N.eqb (fst kc) a then N.add (snd kc) (count a h) else count a h).
Proof. reflexivity. Qed.

Lemma count_hist_add : forall a k c h,
  count a (hist_add k c h) = N.add (if N.eqb k a then c else 0%N) (count a h).
Proof.
  intros a k c. induction h as [|[k' c'] r IH].
  - cbn [hist_add]. rewrite count_cons. cbn [fst snd count fold_right].
    destruct (N.eqb k a); lia.
  - cbn [hist_add]. destruct (N.ltb k k') eqn:Elt.
    + rewrite (count_cons a (k, c)). cbn [fst snd]. destruct (N.eqb k a); lia.
    + destruct (N.eqb k k') eqn:Eeq.
      * apply N.eqb_eq in Eeq. subst k'. rewrite !count_cons. cbn [fst snd].
        destruct (N.eqb k a); lia.
      * rewrite (count_cons a (k', c') (hist_add k c r)), IH, (count_cons a (k', c') r).
        cbn [fst snd]. destruct (N.eqb k' a); destruct (N.eqb k a); lia.
Qed.

Lemma count_absorb : forall a other acc,
  count a (absorb acc other) = N.add (count a acc) (count a other).
Proof.
  intros a. unfold absorb. induction other as [|[k c] r IH]; intros acc.
  - cbn [fold_left]. change (count a []) with 0%N. lia.
  - cbn [fold_left fst snd]. rewrite IH, count_hist_add, count_cons. cbn [fst snd].
    destruct (N.eqb k a); lia.
Qed.

Lemma mass_fold : forall h z,
  fold_left (fun a (kc : N * N) => N.add a (snd kc)) h z = N.add z (sumN (map snd h)).
Proof.
  induction h as [|kc r IH]; intros z.
  - cbn [fold_left map sumN fold_right]. lia.
  - cbn [fold_left map]. rewrite IH. cbn [sumN fold_right]. fold (sumN (map snd r)). lia.
Qed.

Lemma mass_sum : forall h, mass h = sumN (map snd h).
Proof. intros h. unfold mass. rewrite mass_fold. lia. Qed.

Lemma mass_cons : forall kc h, mass (kc :: h) = N.add (snd kc) (mass h).
Proof. intros kc h. rewrite !mass_sum. reflexivity. Qed.

Lemma mass_hist_add : forall k c h, mass (hist_add k c h) = N.add (mass h) c.
Proof.
  intros k c. induction h as [|[k' c'] r IH].
  - cbn [hist_add]. rewrite mass_cons. cbn [snd]. lia.
  - cbn [hist_add]. destruct (N.ltb k k').
    + rewrite (mass_cons (k, c)). cbn [snd]. lia.
    + destruct (N.eqb k k').
      * rewrite !mass_cons. cbn [snd]. lia.
      * rewrite (mass_cons (k', c') (hist_add k c r)), IH, (mass_cons (k', c') r). lia.
Qed.

Lemma mass_absorb : forall other acc, mass (absorb acc other) = N.add (mass acc) (mass other).
Proof.
  unfold absorb. induction other as [|[k c] r IH]; intros acc.
  - cbn [fold_left]. unfold mass at 3. cbn [fold_left]. lia.
  - cbn [fold_left fst snd]. rewrite IH, mass_hist_add, (mass_cons (k, c) r). cbn [snd]. lia.
Qed.

(* the mass is the total of the counts: it is the number of samples *)
Lemma hist_add_lower : forall x k c h,
  N.lt x k -> Forall (N.lt x) (map fst h) -> Forall (N.lt x) (map fst (hist_add k c h)).
Proof.
  intros x k c. induction h as [|[k' c'] r IH]; intros Hx Hall.
  - cbn [hist_add map fst]. constructor; [exact Hx | constructor].
  - cbn [map fst] in Hall. inversion Hall as [|y l Hy Hr]; subst.
    cbn [hist_add]. destruct (N.ltb k k').
    + cbn [map fst]. constructor; [exact Hx|]. constructor; assumption.
    + destruct (N.eqb k k').
      * cbn [map fst]. constructor; assumption.
      * cbn [map fst]. constructor; [exact Hy|]. apply IH; assumption.
Qed.

Lemma hist_add_sorted : forall k c h, sorted_keys h -> sorted_keys (hist_add k c h).
Proof.
  intros k c. unfold sorted_keys. induction h as [|[k' c'] r IH]; intros Hs.
  - cbn [hist_add map fst]. constructor; constructor.
  - cbn [map fst] in Hs. inversion Hs as [|y l Hsr Hall]; subst.
    cbn [hist_add]. destruct (N.ltb k k') eqn:Elt.
    + apply N.ltb_lt in Elt. cbn [map fst]. constructor.
      * constructor; assumption.
      * constructor; [exact Elt|].
        apply Forall_impl with (P := N.lt k'); [|exact Hall]. intros z Hz. lia.
    + destruct (N.eqb k k') eqn:Eeq.
      * cbn [map fst]. constructor; assumption.
      * apply N.ltb_ge in Elt. apply N.eqb_neq in Eeq.
        cbn [map fst]. constructor; [apply IH; exact Hsr|].
        apply hist_add_lower; [lia | exact Hall].
Qed.

Lemma absorb_sorted : forall other acc, sorted_keys acc -> sorted_keys (absorb acc other).
Proof.
  unfold absorb. induction other as [|[k c] r IH]; intros acc Hs.
  - exact Hs.
  - cbn [fold_left fst snd]. apply IH. apply hist_add_sorted. exact Hs.
Qed.

Lemma sorted_nil : sorted_keys [].
Proof. unfold sorted_keys. cbn [map]. constructor. Qed.

(* with sorted keys, [count] is the value stored under the key *)
Lemma count_not_in : forall a h, ~ In a (map fst h) -> count a h = 0%N.
Proof.
  intros a. induction h as [|[k c] r IH]; intros Hn.
  - reflexivity.
  - rewrite count_cons. cbn [fst snd]. cbn [map fst In] in Hn.
    destruct (N.eqb k a) eqn:E.
    + apply N.eqb_eq in E. exfalso. apply Hn. left. exact E.
    + apply IH. intros H. apply Hn. right. exact H.
Qed.

Lemma count_sorted_in : forall a c h, sorted_keys h -> In (a, c) h -> count a h = c.
Proof.
  intros a c. unfold sorted_keys. induction h as [|[k' c'] r IH]; intros Hs Hin.
  - destruct Hin.
  - cbn [map fst] in Hs. inversion Hs as [|y l Hsr Hall]; subst.
    rewrite count_cons. cbn [fst snd]. destruct Hin as [Hin | Hin].
    + injection Hin as Hk Hc. subst k' c'. rewrite N.eqb_refl.
      rewrite count_not_in; [lia|].
      intros H. rewrite Forall_forall in Hall. specialize (Hall a H). lia.
    + assert (Ha : In a (map fst r)) by (apply (in_map fst) in Hin; exact Hin).
      rewrite Forall_forall in Hall. specialize (Hall a Ha).
      destruct (N.eqb k' a) eqn:E; [apply N.eqb_eq in E; lia|].
      apply IH; assumption.
Qed.

(* ---------- upd ---------- *)

Lemma upd_length : forall (A : Type) (f : A -> A) (l : list A) (j : nat),
  length (upd j f l) = length l.
Proof.
  intros A f. induction l as [|x r IH]; intros j.
  - destruct j; reflexivity.
  - destruct j as [|j]; cbn [upd length]; [reflexivity | rewrite IH; reflexivity].
Qed.

Lemma upd_nth : forall (A : Type) (f : A -> A) (d : A) (l : list A) (j i : nat),
  (j < length l)%nat ->
  nth i (upd j f l) d = if Nat.eqb i j then f (nth i l d) else nth i l d.
Proof.
  intros A f d. induction l as [|x r IH]; intros j i Hj.
  - cbn [length] in Hj. lia.
  - destruct j as [|j].
    + cbn [upd]. destruct i as [|i]; reflexivity.
    + cbn [upd]. cbn [length] in Hj. destruct i as [|i].
      * reflexivity.
      * cbn [nth]. rewrite IH by lia. reflexivity.
Qed.

Lemma upd_sum : forall (A : Type) (g : A -> N) (f : A -> A) (d : N) (l : list A) (j : nat),
  (forall x, g (f x) = N.add (g x) d) -> (j < length l)%nat ->
  sumN (map g (upd j f l)) = N.add (sumN (map g l)) d.
Proof.
  intros A g f d l j Hg. revert j. induction l as [|x r IH]; intros j Hj.
  - cbn [length] in Hj. lia.
  - cbn [length] in Hj. destruct j as [|j].
    + cbn [upd map sumN fold_right]. rewrite Hg. fold (sumN (map g r)). lia.
    + cbn [upd map sumN fold_right]. fold (sumN (map g (upd j f r))). fold (sumN (map g r)).
      rewrite IH by lia. lia.
Qed.

Lemma upd_Forall : forall (A : Type) (P : A -> Prop) (f : A -> A) (l : list A) (j : nat),
  (forall x, P x -> P (f x)) -> Forall P l -> Forall P (upd j f l).
Proof.
  intros A P f l j Hf. revert j. induction l as [|x r IH]; intros j Hall.
  - destruct j; constructor.
  - inversion Hall as [|y l' Hx Hr]; subst. destruct j as [|j]; cbn [upd].
    + constructor; [apply Hf; exact Hx | exact Hr].
    + constructor; [exact Hx | apply IH; exact Hr].
Qed.

(* ---------- indices versus elements ---------- *)

Lemma filter_index : forall (A B : Type) (p : A -> bool) (f : A -> B) (d : A) (l : list A),
  map (fun i => f (nth i l d)) (filter (fun i => p (nth i l d)) (seq 0 (length l)))
  = map f (filter p l).
Proof.
  intros A B p f d. induction l as [|x l IH] using rev_ind.
  - reflexivity.
  - rewrite app_length. cbn [length]. rewrite Nat.add_1_r, seq_S. cbn [plus].
    rewrite !filter_app, !map_app. f_equal.
    + rewrite <- IH.
      assert (Hf : filter (fun i => p (nth i (l ++ [x]) d)) (seq 0 (length l))
                   = filter (fun i => p (nth i l d)) (seq 0 (length l))).
      { apply filter_ext_in. intros i Hi. apply in_seq in Hi. rewrite app_nth1 by lia. reflexivity. }
      rewrite Hf. apply map_ext_in. intros i Hi. apply filter_In in Hi. destruct Hi as [Hi _].
      apply in_seq in Hi. rewrite app_nth1 by lia. reflexivity.
    + cbn [filter]. rewrite app_nth2 by lia. rewrite Nat.sub_diag. cbn [nth].
      destruct (p x); cbn [map]; [|reflexivity].
      rewrite app_nth2 by lia. rewrite Nat.sub_diag. reflexivity.
Qed.

(* ---------- Layer::next ---------- *)

Section Next.
Variable F : Type.
Variable flt : F -> F -> bool.

Definition step (k : nat) (acc : option (list hist)) (pc : hist * list (option F))
  : option (list hist) :=
  match acc, neighborhood F flt (snd pc) with
  | Some cs, Some (j, _) =>
      if Nat.ltb j k then Some (upd j (fun c => absorb c (fst pc)) cs) else None
  | _, _ => None
  end.

Lemma next_step_fold : forall k points columns,
  next_step F flt k points columns = fold_left (step k) (combine points columns) (Some (repeat [] k)).
Proof. reflexivity. Qed.

Lemma fold_step_none : forall k pcs, fold_left (step k) pcs None = None.
Proof. intros k. induction pcs as [|pc r IH]; [reflexivity | cbn [fold_left step]; exact IH]. Qed.

Lemma nearest_of : forall c j x, neighborhood F flt c = Some (j, x) -> nearest flt c = j.
Proof. intros c j x H. unfold nearest. rewrite H. reflexivity. Qed.

(* whenever the step succeeds: the shape, and what every accumulator satisfies *)
Lemma fold_step_some : forall k pcs cs0 cs,
  fold_left (step k) pcs (Some cs0) = Some cs -> length cs0 = k ->
  length cs = k /\
  (forall j, nth j cs [] =
             fold_left absorb (map fst (filter (fun pc => Nat.eqb (nearest flt (snd pc)) j) pcs))
                       (nth j cs0 [])) /\
  (forall g : hist -> N, (forall c p, g (absorb c p) = N.add (g c) (g p)) ->
     sumN (map g cs) = N.add (sumN (map g cs0)) (sumN (map g (map fst pcs)))) /\
  (Forall sorted_keys cs0 -> Forall sorted_keys cs) /\
  (forall pc, In pc pcs -> exists x, neighborhood F flt (snd pc) = Some (nearest flt (snd pc), x) /\
                                     (nearest flt (snd pc) < k)%nat).
Proof.
  intros k. induction pcs as [|pc r IH]; intros cs0 cs Hf Hlen.
  - cbn [fold_left] in Hf. injection Hf as Hf. subst cs.
    split; [exact Hlen|]. split; [intros j; reflexivity|]. split.
    + intros g _. cbn [map sumN fold_right]. lia.
    + split; [intros H; exact H | intros pc []].
  - cbn [fold_left] in Hf. unfold step at 2 in Hf.
    destruct (neighborhood F flt (snd pc)) as [[j x]|] eqn:En;
      [|rewrite fold_step_none in Hf; discriminate Hf].
    destruct (Nat.ltb j k) eqn:Ejk; [|rewrite fold_step_none in Hf; discriminate Hf].
    apply Nat.ltb_lt in Ejk.
    pose proof (nearest_of _ _ _ En) as Hnear.
    assert (Hlen' : length (upd j (fun c => absorb c (fst pc)) cs0) = k)
      by (rewrite upd_length; exact Hlen).
    destruct (IH _ _ Hf Hlen') as (Hl & Hnth & Hsum & Hsort & Hnb).
    split; [exact Hl|]. split; [|split; [|split]].
    + intros i. rewrite Hnth. rewrite upd_nth by (rewrite Hlen; exact Ejk).
      cbn [filter]. rewrite Hnear. rewrite (Nat.eqb_sym j i).
      destruct (Nat.eqb i j); reflexivity.
    + intros g Hg. rewrite (Hsum g Hg).
      rewrite (upd_sum hist g (fun c => absorb c (fst pc)) (g (fst pc)) cs0 j)
        by (try (intros c; apply Hg); rewrite Hlen; exact Ejk).
      cbn [map sumN fold_right]. fold (sumN (map g (map fst r))). lia.
    + intros H0. apply Hsort. apply upd_Forall; [|exact H0].
      intros c Hc. apply absorb_sorted. exact Hc.
    + intros pc' [Hpc | Hpc].
      * subst pc'. exists x. rewrite Hnear. split; [exact En | exact Ejk].
      * apply Hnb. exact Hpc.
Qed.

Hypothesis Hswo : strict_weak_order flt.

(* on good columns the step succeeds *)
Lemma fold_step_total : forall k pcs cs0,
  (0 < k)%nat -> length cs0 = k ->
  (forall pc, In pc pcs -> good_column k (snd pc)) ->
  exists cs, fold_left (step k) pcs (Some cs0) = Some cs.
Proof.
  intros k. induction pcs as [|pc r IH]; intros cs0 Hk Hlen Hgood.
  - exists cs0. reflexivity.
  - destruct (Hgood pc (or_introl eq_refl)) as [Hcl Hcs].
    assert (Hne : snd pc <> []) by (intros H; rewrite H in Hcl; cbn [length] in Hcl; lia).
    destruct (neighborhood_first_min F flt Hswo (snd pc) Hcs Hne) as (j & x & Hn & _).
    destruct (neighborhood_index F flt Hswo (snd pc) j x Hcs Hn) as [Hj _].
    cbn [fold_left]. unfold step at 2. rewrite Hn.
    assert (Ejk : Nat.ltb j k = true) by (apply Nat.ltb_lt; lia). rewrite Ejk.
    apply IH; [exact Hk | rewrite upd_length; exact Hlen |].
    intros pc' Hpc'. apply Hgood. right. exact Hpc'.
Qed.

End Next.

Lemma repeat_nil_nth : forall (k j : nat), nth j (repeat (@nil (N * N)) k) [] = [].
Proof.
  induction k as [|k IH]; intros j.
  - destruct j; reflexivity.
  - destruct j as [|j]; cbn [repeat nth]; [reflexivity | apply IH].
Qed.

Lemma repeat_nil_sum : forall (g : hist -> N) k, g [] = 0%N -> sumN (map g (repeat [] k)) = 0%N.
Proof.
  intros g k Hg. induction k as [|k IH].
  - reflexivity.
  - cbn [repeat map sumN fold_right]. fold (sumN (map g (repeat [] k))). rewrite Hg, IH. reflexivity.
Qed.

Lemma map_fst_combine : forall (A B : Type) (l : list A) (l' : list B),
  length l = length l' -> map fst (combine l l') = l.
Proof.
  intros A B. induction l as [|x r IH]; intros l' Hlen.
  - reflexivity.
  - destruct l' as [|y r']; [discriminate Hlen|].
    cbn [combine map fst]. f_equal. apply IH. cbn [length] in Hlen. lia.
Qed.

Lemma in_combine_nth_error : forall (A B : Type) (l : list A) (l' : list B) i a b,
  nth_error l i = Some a -> nth_error l' i = Some b -> In (a, b) (combine l l').
Proof.
  intros A B. induction l as [|x r IH]; intros l' i a b Ha Hb.
  - destruct i; discriminate Ha.
  - destruct l' as [|y r']; [destruct i; discriminate Hb|].
    destruct i as [|i].
    + cbn [nth_error] in Ha, Hb. injection Ha as Ha. injection Hb as Hb. subst. left. reflexivity.
    + right. apply (IH r' i); assumption.
Qed.

Section NextMain.
Variable F : Type.
Variable flt : F -> F -> bool.

(* the members of slot j, as elements of the zipped list *)
Lemma members_combine : forall (points : list hist) (columns : list (list (option F))) j,
  length points = length columns ->
  map (fun i => nth i points []) (members flt columns j)
  = map fst (filter (fun pc => Nat.eqb (nearest flt (snd pc)) j) (combine points columns)).
Proof.
  intros points columns j Hlen.
  rewrite <- (filter_index _ _ (fun pc : hist * list (option F) => Nat.eqb (nearest flt (snd pc)) j)
                fst ([], []) (combine points columns)).
  rewrite combine_length, Hlen, Nat.min_id. unfold members.
  assert (Hf : filter (fun i => Nat.eqb (nearest flt (snd (nth i (combine points columns) ([], [])))) j)
                      (seq 0 (length columns))
               = filter (fun i => Nat.eqb (nearest flt (nth i columns [])) j) (seq 0 (length columns))).
  { apply filter_ext. intros i. rewrite combine_nth by exact Hlen. reflexivity. }
  rewrite Hf. apply map_ext. intros i. rewrite combine_nth by exact Hlen. reflexivity.
Qed.

Theorem next_some_spec : forall k points columns cs,
  length points = length columns ->
  next_step F flt k points columns = Some cs ->
  length cs = k /\
  (forall i c, nth_error columns i = Some c ->
     exists x, neighborhood F flt c = Some (nearest flt c, x) /\ (nearest flt c < k)%nat) /\
  (forall j, nth j cs [] = absorb_all (map (fun i => nth i points []) (members flt columns j))) /\
  (forall a, sumN (map (count a) cs) = sumN (map (count a) points)) /\
  sumN (map mass cs) = sumN (map mass points) /\
  Forall sorted_keys cs.
Proof.
  intros k points columns cs Hlen Hn. rewrite next_step_fold in Hn.
  destruct (fold_step_some F flt k _ _ _ Hn (repeat_length _ k)) as (Hl & Hnth & Hsum & Hsort & Hnb).
  split; [exact Hl|]. split; [|split; [|split; [|split]]].
  - intros i c Hc.
    assert (Hi : (i < length points)%nat) by (rewrite Hlen; apply nth_error_Some; rewrite Hc; discriminate).
    destruct (nth_error points i) as [p|] eqn:Ep; [|apply nth_error_None in Ep; lia].
    exact (Hnb (p, c) (in_combine_nth_error _ _ _ _ _ _ _ Ep Hc)).
  - intros j. rewrite Hnth, repeat_nil_nth. unfold absorb_all.
    rewrite (members_combine points columns j Hlen). reflexivity.
  - intros a. rewrite (Hsum (count a) (fun c p => count_absorb a p c)).
    rewrite repeat_nil_sum by reflexivity. rewrite map_fst_combine by exact Hlen. lia.
  - rewrite (Hsum mass (fun c p => mass_absorb p c)).
    rewrite repeat_nil_sum by reflexivity. rewrite map_fst_combine by exact Hlen. lia.
  - apply Hsort. clear. induction k as [|k IH]; cbn [repeat]; constructor; [exact sorted_nil | exact IH].
Qed.

Hypothesis Hswo : strict_weak_order flt.

Theorem next_total : forall k points columns,
  (0 < k)%nat -> (forall c, In c columns -> good_column k c) ->
  exists cs, next_step F flt k points columns = Some cs.
Proof.
  intros k points columns Hk Hgood. rewrite next_step_fold.
  apply (fold_step_total F flt Hswo); [exact Hk | apply repeat_length |].
  intros [p c] Hpc. cbn [snd]. apply Hgood. apply in_combine_r in Hpc. exact Hpc.
Qed.

Theorem next_partition : forall k points columns,
  length points = length columns -> (0 < k)%nat ->
  (forall c, In c columns -> good_column k c) ->
  exists cs, next_step F flt k points columns = Some cs /\ length cs = k /\
    (forall i c, nth_error columns i = Some c ->
       exists x, neighborhood F flt c = Some (nearest flt c, x) /\ (nearest flt c < k)%nat) /\
    (forall j, nth j cs [] = absorb_all (map (fun i => nth i points []) (members flt columns j))).
Proof.
  intros k points columns Hlen Hk Hgood.
  destruct (next_total k points columns Hk Hgood) as [cs Hcs].
  destruct (next_some_spec k points columns cs Hlen Hcs) as (H1 & H2 & H3 & _).
  exists cs. repeat split; assumption.
Qed.

Theorem next_mass : forall k points columns,
  length points = length columns -> (0 < k)%nat ->
  (forall c, In c columns -> good_column k c) ->
  exists cs, next_step F flt k points columns = Some cs /\
    (forall a, sumN (map (count a) cs) = sumN (map (count a) points)) /\
    sumN (map mass cs) = sumN (map mass points) /\
    Forall sorted_keys cs.
Proof.
  intros k points columns Hlen Hk Hgood.
  destruct (next_total k points columns Hk Hgood) as [cs Hcs].
  destruct (next_some_spec k points columns cs Hlen Hcs) as (_ & _ & _ & H4 & H5 & H6).
  exists cs. repeat split; assumption.
Qed.

End NextMain.

(* every index belongs to the members of exactly one slot: the nearest centroid *)
Lemma members_spec : forall (F : Type) (flt : F -> F -> bool) (columns : list (list (option F))) j i,
  In i (members flt columns j) <-> ((i < length columns)%nat /\ nearest flt (nth i columns []) = j).
Proof.
  intros F flt columns j i. unfold members. rewrite filter_In, in_seq, Nat.eqb_eq. lia.
Qed.

Lemma members_NoDup : forall (F : Type) (flt : F -> F -> bool) (columns : list (list (option F))) j,
  NoDup (members flt columns j).
Proof. intros F flt columns j. unfold members. apply NoDup_filter. apply seq_NoDup. Qed.

(* a NaN (or an empty column) anywhere among the zipped columns aborts the whole step *)
Theorem next_nan : forall (F : Type) (flt : F -> F -> bool) k points columns i p c,
  nth_error points i = Some p -> nth_error columns i = Some c ->
  (In None c \/ c = []) ->
  next_step F flt k points columns = None.
Proof.
  intros F flt k points columns i p c Hp Hc Hbad. rewrite next_step_fold.
  pose proof (in_combine_nth_error _ _ _ _ _ _ _ Hp Hc) as Hin.
  apply in_split in Hin. destruct Hin as (l1 & l2 & Hsplit). rewrite Hsplit.
  rewrite fold_left_app. cbn [fold_left].
  assert (Hs : forall acc, step F flt k acc (p, c) = None).
  { intros acc. unfold step. cbn [snd].
    assert (Hn : neighborhood F flt c = None).
    { destruct Hbad as [Hbad | Hbad]; [apply neighborhood_nan; exact Hbad | subst c; reflexivity]. }
    rewrite Hn. destruct acc; reflexivity. }
  rewrite Hs. apply fold_step_none.
Qed.
