(* Proofs/C03_Cards.v -- the card bookkeeping of a Draw: an accepted draw is disjoint from the
   board and the hole cards, stays inside the deck, and adds its size to the board *)
From Coq Require Import NArith ZArith List Bool Lia.
From RP Require Import Base.Bits Gen.GenCards Model.Codec Model.Showdown Model.Game Spec.SpecRel Proofs.BitsLemmas.
Import ListNotations.
Open Scope N_scope.

Lemma popcount_upto_lor : forall n a b, N.land a b = 0 ->
  popcount_upto n (N.lor a b) = popcount_upto n a + popcount_upto n b.
Proof.
  induction n as [|n IH]; intros a b Hab; [reflexivity|].
  cbn [popcount_upto].
  assert (Hd : N.land (N.div2 a) (N.div2 b) = 0).
  { apply N.bits_inj. intros j. rewrite N.land_spec, !testbit_div2, N.bits_0, <- N.land_spec, Hab.
    apply N.bits_0. }
  assert (Hl : N.div2 (N.lor a b) = N.lor (N.div2 a) (N.div2 b)).
  { apply N.bits_inj. intros j. rewrite N.lor_spec, !testbit_div2, N.lor_spec. reflexivity. }
  rewrite Hl, (IH _ _ Hd).
  assert (H0 : N.testbit (N.land a b) 0 = false) by (rewrite Hab; apply N.bits_0).
  rewrite N.land_spec, !N.bit0_odd in H0.
  assert (Ho : N.odd (N.lor a b) = N.odd a || N.odd b) by (rewrite <- !N.bit0_odd; apply N.lor_spec).
  rewrite Ho. destruct (N.odd a), (N.odd b); cbn [orb andb] in *; try discriminate; lia.
Qed.

Lemma hand_size_lor : forall a b, N.land a b = 0 -> hand_size (N.lor a b) = hand_size a + hand_size b.
Proof. intros a b H. apply popcount_upto_lor. exact H. Qed.

Lemma ones64_testbit : forall j, N.testbit ones64 j = (j <? 64).
Proof.
  intros j. change ones64 with (N.ones 64).
  destruct (N.ltb_spec j 64) as [H|H].
  - apply N.ones_spec_low. exact H.
  - apply N.ones_spec_high. exact H.
Qed.

Lemma hand_mask_low : forall d j, N.testbit (hand_mask d) j = true -> j < 64.
Proof.
  intros d j H. destruct (N.lt_ge_cases j 64) as [Hlt|Hge]; [exact Hlt|].
  rewrite (testbit_high_lt (hand_mask d) 64 j) in H; [discriminate| |exact Hge].
  destruct d; vm_compute; reflexivity.
Qed.

Ltac bit H j :=
  let Hj := fresh H "j" in
  pose proof (f_equal (fun x => N.testbit x j) H) as Hj; cbv beta in Hj;
  repeat first [ rewrite N.land_spec in Hj | rewrite N.lor_spec in Hj | rewrite N.lxor_spec in Hj
               | rewrite N.ldiff_spec in Hj | rewrite N.bits_0 in Hj | rewrite ones64_testbit in Hj ].

(* the hole cards at the root *)
Lemma cards_ok_root : forall d a b,
  N.land a (hand_mask d) = a -> N.land b (hand_mask d) = b -> N.land a b = 0 -> cards_ok d 0 a b.
Proof.
  intros d a b Ha Hb Hab. unfold cards_ok. rewrite N.land_0_l, !N.lor_0_l.
  split; [reflexivity|]. split; [exact Hab|].
  apply N.bits_inj. intros j. bit Ha j. bit Hb j.
  rewrite N.ldiff_spec, N.land_spec, N.lor_spec, N.bits_0.
  destruct (N.testbit a j), (N.testbit b j), (N.testbit (hand_mask d) j), (N.testbit ones64 j);
    cbn in *; congruence.
Qed.

(* an accepted draw *)
Lemma cards_ok_draw : forall d bd c0 c1 h,
  cards_ok d bd c0 c1 ->
  N.land h (N.lxor (N.lxor (N.lor (N.lor bd c0) c1) (hand_mask d)) 18446744073709551615) = 0 ->
  N.land bd h = 0 /\ cards_ok d (N.lor bd h) c0 c1.
Proof.
  intros d bd c0 c1 h (H0 & H1 & H2) Hh. change 18446744073709551615 with ones64 in Hh.
  assert (Hbits : forall j, N.testbit h j = true ->
            N.testbit bd j = false /\ N.testbit c0 j = false /\ N.testbit c1 j = false /\
            (j < 64 -> N.testbit (hand_mask d) j = true)).
  { intros j Hj. bit Hh j. bit H2 j. rewrite Hj in Hhj.
    pose proof (hand_mask_low d j) as Hm.
    destruct (N.ltb_spec j 64) as [Hlt|Hge];
      destruct (N.testbit bd j), (N.testbit c0 j), (N.testbit c1 j), (N.testbit (hand_mask d) j);
      cbn in *; try discriminate; try (specialize (Hm eq_refl); lia); auto;
      repeat split; intros; lia. }
  assert (Hbh : N.land bd h = 0).
  { apply N.bits_inj. intros j. rewrite N.land_spec, N.bits_0.
    destruct (N.testbit h j) eqn:Hj; [|apply andb_false_r].
    destruct (Hbits j Hj) as (-> & _). reflexivity. }
  split; [exact Hbh|]. unfold cards_ok. repeat split.
  - apply N.bits_inj. intros j. bit H0 j. rewrite N.land_spec, N.lor_spec, N.bits_0.
    destruct (N.testbit h j) eqn:Hj.
    + destruct (Hbits j Hj) as (_ & -> & _). apply andb_false_r.
    + rewrite orb_false_r. exact H0j.
  - apply N.bits_inj. intros j. bit H1 j. rewrite N.land_spec, !N.lor_spec, N.bits_0.
    destruct (N.testbit h j) eqn:Hj.
    + destruct (Hbits j Hj) as (_ & _ & -> & _). apply andb_false_r.
    + rewrite orb_false_r. exact H1j.
  - apply N.bits_inj. intros j. bit H2 j.
    rewrite N.ldiff_spec, N.land_spec, !N.lor_spec, N.bits_0, ones64_testbit.
    destruct (N.testbit h j) eqn:Hj.
    + destruct (Hbits j Hj) as (_ & _ & _ & Hm).
      destruct (N.ltb_spec j 64) as [Hlt|Hge]; [rewrite (Hm Hlt)|]; rewrite ?andb_false_r; reflexivity.
    + rewrite orb_false_r. exact H2j.
Qed.
