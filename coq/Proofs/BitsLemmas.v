(* Proofs/BitsLemmas.v -- reusable facts about Base/Bits.v:
   bits_from / set_bits64 / popcount64 / mask_of_bits / tz64, lor-as-add, little-endian lanes. *)
From Coq Require Import NArith ZArith List Bool Lia ZifyBool ZifyN ZifyNat Sorted.
From RP Require Import Base.Bits.
Import ListNotations.
Open Scope N_scope.

Arguments N.add : simpl never.
Arguments N.mul : simpl never.
Arguments N.sub : simpl never.
Arguments N.shiftl : simpl never.
Arguments N.shiftr : simpl never.
Arguments N.land : simpl never.
Arguments N.lor : simpl never.
Arguments N.pow : simpl never.
Arguments N.testbit : simpl never.

(* ---------- basic bit facts ---------- *)

Lemma testbit_high_lt : forall a n k, a < 2 ^ n -> n <= k -> N.testbit a k = false.
Proof.
  intros a n k Ha Hk.
  destruct (N.eq_dec a 0) as [E | NE].
  - subst a. apply N.bits_0.
  - apply N.bits_above_log2.
    assert (Hl : N.log2 a < n) by (apply N.log2_lt_pow2; lia).
    lia.
Qed.

Lemma testbit_div2 : forall x j, N.testbit (N.div2 x) j = N.testbit x (j + 1).
Proof.
  intros x j. rewrite N.add_1_r. symmetry. apply N.testbit_succ_r_div2. lia.
Qed.

Lemma lt_pow2_of_bits : forall a n, (forall k, n <= k -> N.testbit a k = false) -> a < 2 ^ n.
Proof.
  intros a n H.
  destruct (N.eq_dec a 0) as [E | NE].
  - subst a. apply N.neq_0_lt_0. apply N.pow_nonzero. discriminate.
  - apply N.log2_lt_pow2; [lia|].
    destruct (N.lt_ge_cases (N.log2 a) n) as [Hlt | Hge]; [exact Hlt|].
    specialize (H _ Hge). rewrite N.bit_log2 in H by exact NE. discriminate.
Qed.

Lemma land_lt_shiftl : forall a b k, a < 2 ^ k -> N.land a (N.shiftl b k) = 0.
Proof.
  intros a b k Ha. apply N.bits_inj. intros n.
  rewrite N.land_spec, N.bits_0.
  destruct (N.lt_ge_cases n k) as [Hlt | Hge].
  - rewrite N.shiftl_spec_low by exact Hlt. apply andb_false_r.
  - rewrite (testbit_high_lt a k n Ha Hge). reflexivity.
Qed.

Lemma lor_add_disjoint : forall a b, N.land a b = 0 -> N.lor a b = a + b.
Proof.
  intros a b H. rewrite N.add_nocarry_lxor by exact H. symmetry. apply N.lxor_lor. exact H.
Qed.

(* a < 2^k : a | (b << k) = a + b * 2^k *)
Lemma lor_shiftl_add : forall a b k, a < 2 ^ k -> N.lor a (N.shiftl b k) = a + b * 2 ^ k.
Proof.
  intros a b k Ha. rewrite lor_add_disjoint by (apply land_lt_shiftl; exact Ha).
  rewrite N.shiftl_mul_pow2. reflexivity.
Qed.

(* d < 2^k : (a << k) | d = a * 2^k + d *)
Lemma shiftl_lor_add : forall a d k, d < 2 ^ k -> N.lor (N.shiftl a k) d = a * 2 ^ k + d.
Proof.
  intros a d k Hd. rewrite N.lor_comm, lor_shiftl_add by exact Hd. lia.
Qed.

(* ---------- bits_from ---------- *)

Lemma bits_from_spec : forall n i x k,
  In k (bits_from n i x) <-> (i <= k /\ k < i + N.of_nat n /\ N.testbit x (k - i) = true).
Proof.
  induction n as [|n IH]; intros i x k.
  - cbn [bits_from]. split; [intros []| intros (H1 & H2 & _); lia].
  - cbn [bits_from]. rewrite in_app_iff, IH.
    split.
    + intros [H | (H1 & H2 & H3)].
      * destruct (N.odd x) eqn:Ho; [|destruct H].
        destruct H as [H | []]. subst k.
        split; [lia|]. split; [lia|].
        rewrite N.sub_diag, N.bit0_odd. exact Ho.
      * split; [lia|]. split; [lia|].
        rewrite testbit_div2 in H3.
        replace (k - i) with (k - (i + 1) + 1) by lia. exact H3.
    + intros (H1 & H2 & H3).
      destruct (N.eq_dec k i) as [E | NE].
      * left. subst k. rewrite N.sub_diag, N.bit0_odd in H3. rewrite H3. left. reflexivity.
      * right. split; [lia|]. split; [lia|].
        rewrite testbit_div2.
        replace (k - (i + 1) + 1) with (k - i) by lia. exact H3.
Qed.

Lemma bits_from_ge : forall n i x, Forall (fun k => i <= k) (bits_from n i x).
Proof.
  intros n i x. apply Forall_forall. intros k Hk. apply bits_from_spec in Hk. tauto.
Qed.

Lemma bits_from_sorted : forall n i x, StronglySorted N.lt (bits_from n i x).
Proof.
  induction n as [|n IH]; intros i x.
  - cbn [bits_from]. constructor.
  - cbn [bits_from].
    destruct (N.odd x).
    + cbn [app]. constructor; [apply IH|].
      eapply Forall_impl; [|apply (bits_from_ge n (i + 1) (N.div2 x))].
      intros a Ha. cbv beta in Ha. lia.
    + cbn [app]. apply IH.
Qed.

Lemma bits_from_length : forall n i x, popcount_upto n x = N.of_nat (length (bits_from n i x)).
Proof.
  induction n as [|n IH]; intros i x.
  - reflexivity.
  - cbn [popcount_upto bits_from]. rewrite app_length, (IH (i + 1) (N.div2 x)).
    destruct (N.odd x); cbn [length]; lia.
Qed.

Lemma bits_from_length_le : forall n i x, (length (bits_from n i x) <= n)%nat.
Proof.
  induction n as [|n IH]; intros i x.
  - cbn [bits_from length]. lia.
  - cbn [bits_from]. rewrite app_length. specialize (IH (i + 1) (N.div2 x)).
    destruct (N.odd x); cbn [length]; lia.
Qed.

(* ---------- set_bits64 / popcount64 ---------- *)

Lemma set_bits64_spec : forall h i, h < 2 ^ 64 -> (In i (set_bits64 h) <-> N.testbit h i = true).
Proof.
  intros h i Hh. unfold set_bits64. rewrite bits_from_spec.
  rewrite N.sub_0_r. split.
  - intros (_ & _ & H). exact H.
  - intros H. split; [lia|]. split; [|exact H].
    destruct (N.lt_ge_cases i 64) as [Hlt | Hge].
    + change (N.of_nat 64) with 64. lia.
    + rewrite (testbit_high_lt h 64 i Hh Hge) in H. discriminate.
Qed.

Lemma set_bits64_lt64 : forall h i, In i (set_bits64 h) -> i < 64.
Proof.
  intros h i H. unfold set_bits64 in H. apply bits_from_spec in H.
  destruct H as (_ & H & _). change (N.of_nat 64) with 64 in H. lia.
Qed.

Lemma set_bits64_testbit : forall h i, In i (set_bits64 h) -> N.testbit h i = true.
Proof.
  intros h i H. unfold set_bits64 in H. apply bits_from_spec in H.
  destruct H as (_ & _ & H). rewrite N.sub_0_r in H. exact H.
Qed.

Lemma set_bits64_lt : forall h n i, h < 2 ^ n -> In i (set_bits64 h) -> i < n.
Proof.
  intros h n i Hh Hi. apply set_bits64_testbit in Hi.
  destruct (N.lt_ge_cases i n) as [Hlt | Hge]; [exact Hlt|].
  rewrite (testbit_high_lt h n i Hh Hge) in Hi. discriminate.
Qed.

Lemma set_bits64_sorted : forall h, StronglySorted N.lt (set_bits64 h).
Proof. intros h. apply bits_from_sorted. Qed.

Lemma StronglySorted_lt_NoDup : forall l, StronglySorted N.lt l -> NoDup l.
Proof.
  induction l as [|a l IH]; intros H.
  - constructor.
  - inversion H as [|a' l' Hs Hf]; subst. constructor; [|apply IH; exact Hs].
    intros Hin. rewrite Forall_forall in Hf. specialize (Hf _ Hin). lia.
Qed.

Lemma set_bits64_NoDup : forall h, NoDup (set_bits64 h).
Proof. intros h. apply StronglySorted_lt_NoDup, set_bits64_sorted. Qed.

Lemma popcount64_length : forall h, popcount64 h = N.of_nat (length (set_bits64 h)).
Proof. intros h. apply bits_from_length. Qed.

Lemma set_bits64_length_le : forall h, (length (set_bits64 h) <= 64)%nat.
Proof. intros h. apply bits_from_length_le. Qed.

(* ---------- mask_of_bits ---------- *)

Lemma mask_fold_testbit : forall l a k,
  N.testbit (fold_left (fun a i => N.lor a (N.shiftl 1 i)) l a) k
  = N.testbit a k || existsb (N.eqb k) l.
Proof.
  induction l as [|i l IH]; intros a k.
  - cbn [fold_left existsb]. rewrite orb_false_r. reflexivity.
  - cbn [fold_left existsb]. rewrite IH, N.lor_spec, N.shiftl_1_l, N.pow2_bits_eqb.
    rewrite (N.eqb_sym i k). rewrite orb_assoc. reflexivity.
Qed.

Lemma mask_fold_lor : forall l a,
  fold_left (fun a i => N.lor a (N.shiftl 1 i)) l a = N.lor a (mask_of_bits l).
Proof.
  intros l a. apply N.bits_inj. intros k. unfold mask_of_bits.
  rewrite N.lor_spec, !mask_fold_testbit, N.bits_0. reflexivity.
Qed.

Lemma mask_of_bits_testbit : forall l k, N.testbit (mask_of_bits l) k = existsb (N.eqb k) l.
Proof.
  intros l k. unfold mask_of_bits. rewrite mask_fold_testbit, N.bits_0. reflexivity.
Qed.

Lemma mask_of_bits_spec : forall l k, N.testbit (mask_of_bits l) k = true <-> In k l.
Proof.
  intros l k. rewrite mask_of_bits_testbit, existsb_exists. split.
  - intros (x & Hx & E). apply N.eqb_eq in E. subst x. exact Hx.
  - intros H. exists k. split; [exact H | apply N.eqb_refl].
Qed.

Lemma mask_of_bits_ext : forall l1 l2, (forall k, In k l1 <-> In k l2) -> mask_of_bits l1 = mask_of_bits l2.
Proof.
  intros l1 l2 H. apply N.bits_inj. intros k.
  apply eq_true_iff_eq. rewrite !mask_of_bits_spec. apply H.
Qed.

Lemma mask_of_bits_rev : forall l, mask_of_bits (rev l) = mask_of_bits l.
Proof. intros l. apply mask_of_bits_ext. intros k. symmetry. apply in_rev. Qed.

Lemma mask_of_bits_cons : forall i l, mask_of_bits (i :: l) = N.lor (N.shiftl 1 i) (mask_of_bits l).
Proof.
  intros i l. unfold mask_of_bits at 1. cbn [fold_left]. rewrite mask_fold_lor, N.lor_0_l. reflexivity.
Qed.

Lemma mask_of_bits_nil : mask_of_bits [] = 0.
Proof. reflexivity. Qed.

Lemma mask_of_set_bits64 : forall h, h < 2 ^ 64 -> mask_of_bits (set_bits64 h) = h.
Proof.
  intros h Hh. apply N.bits_inj. intros k. apply eq_true_iff_eq.
  rewrite mask_of_bits_spec. apply set_bits64_spec. exact Hh.
Qed.

Lemma mask_of_bits_lt : forall l n, Forall (fun i => i < n) l -> mask_of_bits l < 2 ^ n.
Proof.
  intros l n H. apply lt_pow2_of_bits. intros k Hk.
  destruct (N.testbit (mask_of_bits l) k) eqn:E; [|reflexivity].
  apply mask_of_bits_spec in E. rewrite Forall_forall in H. specialize (H _ E). lia.
Qed.

(* set_bits64 is determined by sortedness + membership: the sorted listing of a mask is unique *)
Lemma sorted_lt_ext_eq : forall l1 l2,
  StronglySorted N.lt l1 -> StronglySorted N.lt l2 -> (forall k, In k l1 <-> In k l2) -> l1 = l2.
Proof.
  induction l1 as [|a l1 IH]; intros l2 H1 H2 Hext.
  - destruct l2 as [|b l2]; [reflexivity|].
    exfalso. apply (proj2 (Hext b)). left. reflexivity.
  - destruct l2 as [|b l2].
    + exfalso. apply (proj1 (Hext a)). left. reflexivity.
    + inversion H1 as [|a' l1' Hs1 Hf1]; subst. inversion H2 as [|b' l2' Hs2 Hf2]; subst.
      rewrite Forall_forall in Hf1, Hf2.
      assert (Eab : a = b).
      { destruct (proj1 (Hext a) (or_introl eq_refl)) as [E | Hin]; [symmetry; exact E|].
        destruct (proj2 (Hext b) (or_introl eq_refl)) as [E | Hin']; [exact E|].
        specialize (Hf1 _ Hin'). specialize (Hf2 _ Hin). lia. }
      subst b. f_equal. apply IH; [exact Hs1 | exact Hs2 |].
      intros k. split; intros Hk.
      * destruct (proj1 (Hext k) (or_intror Hk)) as [E | Hin]; [|exact Hin].
        subst k. specialize (Hf1 _ Hk). lia.
      * destruct (proj2 (Hext k) (or_intror Hk)) as [E | Hin]; [|exact Hin].
        subst k. specialize (Hf2 _ Hk). lia.
Qed.

Lemma set_bits64_of_mask : forall l,
  StronglySorted N.lt l -> Forall (fun i => i < 64) l -> set_bits64 (mask_of_bits l) = l.
Proof.
  intros l Hs Hf. apply sorted_lt_ext_eq; [apply set_bits64_sorted | exact Hs |].
  intros k. rewrite set_bits64_spec by (apply mask_of_bits_lt; exact Hf).
  apply mask_of_bits_spec.
Qed.

(* ---------- tz64 ---------- *)

Lemma tz64_zero : tz64 0 = 64.
Proof. reflexivity. Qed.

Lemma tz64_spec : forall x, x < 2 ^ 64 -> x <> 0 ->
  tz64 x < 64 /\ N.testbit x (tz64 x) = true /\ (forall j, j < tz64 x -> N.testbit x j = false).
Proof.
  intros x Hx Hnz. unfold tz64.
  pose proof (set_bits64_sorted x) as Hs.
  pose proof (set_bits64_spec x) as Hspec.
  destruct (set_bits64 x) as [|i l] eqn:E.
  - exfalso. apply Hnz. apply N.bits_inj. intros k. rewrite N.bits_0.
    destruct (N.testbit x k) eqn:Hk; [|reflexivity].
    apply Hspec in Hk; [destruct Hk | exact Hx].
  - split; [|split].
    + apply (set_bits64_lt64 x). rewrite E. left. reflexivity.
    + apply Hspec; [exact Hx | left; reflexivity].
    + intros j Hj. destruct (N.testbit x j) eqn:Hk; [|reflexivity].
      apply Hspec in Hk; [|exact Hx].
      inversion Hs as [|a l' Hs' Hf]; subst. rewrite Forall_forall in Hf.
      destruct Hk as [Hk | Hk]; [lia|]. specialize (Hf _ Hk). lia.
Qed.

Lemma tz64_zero_iff : forall x, x < 2 ^ 64 -> (tz64 x = 64 <-> x = 0).
Proof.
  intros x Hx. split.
  - intros H. destruct (N.eq_dec x 0) as [E | NE]; [exact E|].
    destruct (tz64_spec x Hx NE) as (H1 & _). lia.
  - intros H. subst x. reflexivity.
Qed.

(* ---------- little-endian lane values ---------- *)

(* value of a little-endian digit list in base 2^w *)
Fixpoint le_val (w : N) (l : list N) : N :=
  match l with [] => 0 | b :: t => b + 2 ^ w * le_val w t end.

Lemma le_val_lt : forall w l, Forall (fun b => b < 2 ^ w) l -> le_val w l < 2 ^ (w * N.of_nat (length l)).
Proof.
  intros w. induction l as [|b t IH]; intros H.
  - cbn [le_val length]. rewrite N.mul_0_r. change (2 ^ 0) with 1. lia.
  - inversion H as [|b' t' Hb Ht]; subst. specialize (IH Ht).
    cbn [le_val length]. rewrite Nat2N.inj_succ, N.mul_succ_r, N.pow_add_r. nia.
Qed.

Lemma le_val_app : forall w l1 l2,
  le_val w (l1 ++ l2) = le_val w l1 + 2 ^ (w * N.of_nat (length l1)) * le_val w l2.
Proof.
  intros w. induction l1 as [|b t IH]; intros l2.
  - cbn [app le_val length]. rewrite N.mul_0_r. change (2 ^ 0) with 1. lia.
  - cbn [app le_val length]. rewrite IH, Nat2N.inj_succ, N.mul_succ_r, N.pow_add_r. lia.
Qed.

Lemma le_val_div : forall w b t, b < 2 ^ w -> (b + 2 ^ w * le_val w t) / 2 ^ w = le_val w t.
Proof.
  intros w b t Hb.
  rewrite N.mul_comm, N.div_add by (apply N.pow_nonzero; discriminate).
  rewrite N.div_small by exact Hb. reflexivity.
Qed.

Lemma le_val_mod : forall w b t, b < 2 ^ w -> (b + 2 ^ w * le_val w t) mod 2 ^ w = b.
Proof.
  intros w b t Hb.
  rewrite N.mul_comm, N.mod_add by (apply N.pow_nonzero; discriminate).
  apply N.mod_small. exact Hb.
Qed.

(* big-endian fold (acc * 2^w + d) equals le_val of the reversed list *)
Lemma be_fold_le_val : forall w l a,
  fold_left (fun acc d => acc * 2 ^ w + d) l a
  = le_val w (rev l) + 2 ^ (w * N.of_nat (length l)) * a.
Proof.
  intros w. induction l as [|d t IH]; intros a.
  - cbn [fold_left rev le_val length]. rewrite N.mul_0_r. change (2 ^ 0) with 1. lia.
  - cbn [fold_left rev length]. rewrite IH, le_val_app, rev_length.
    cbn [le_val]. rewrite Nat2N.inj_succ, N.mul_succ_r, N.pow_add_r. lia.
Qed.

(* boolean strict-increase check of adjacent elements *)
Fixpoint strict_incb (l : list N) : bool :=
  match l with
  | [] => true
  | a :: t => match t with [] => true | b :: _ => (a <? b) && strict_incb t end
  end.

Lemma strict_incb_sorted : forall l, strict_incb l = true <-> StronglySorted N.lt l.
Proof.
  induction l as [|a t IH].
  - split; intros _; [constructor | reflexivity].
  - destruct t as [|b t'].
    + split; intros _; [constructor; constructor | reflexivity].
    + change (strict_incb (a :: b :: t')) with ((a <? b) && strict_incb (b :: t')).
      rewrite andb_true_iff, IH. split.
      * intros (Hab & Hs). apply N.ltb_lt in Hab. constructor; [exact Hs|].
        inversion Hs as [|b' t'' Hs' Hf]; subst.
        constructor; [exact Hab|]. eapply Forall_impl; [|exact Hf].
        intros x Hx. cbv beta in Hx. lia.
      * intros Hs. inversion Hs as [|a' t'' Hs' Hf]; subst.
        split; [|exact Hs']. apply N.ltb_lt. inversion Hf; subst. assumption.
Qed.
