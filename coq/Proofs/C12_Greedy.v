(* Proofs/C12_Greedy.v -- the greedy transport heuristic over exact rationals returns a feasible plan *)
From Coq Require Import NArith ZArith QArith Qabs List Bool Lia Lqa.
From RP Require Import Model.Emd Spec.SpecTransport Proofs.C12_QSum.
Import ListNotations.
Local Open Scope Q_scope.

Lemma qltb_true : forall a b, qltb a b = true <-> a < b.
Proof.
  intros a b. unfold qltb. rewrite negb_true_iff. split; intros H.
  - apply Qnot_le_lt. intros Hle. apply Qle_bool_iff in Hle. congruence.
  - destruct (Qle_bool b a) eqn:E; [|reflexivity]. apply Qle_bool_iff in E. lra.
Qed.

Lemma qltb_false : forall a b, qltb a b = false <-> b <= a.
Proof.
  intros a b. split; intros H.
  - apply Qnot_lt_le. intros Hlt. apply qltb_true in Hlt. congruence.
  - destruct (qltb a b) eqn:E; [|reflexivity]. apply qltb_true in E. lra.
Qed.

(* ---------- lookup / set_mass / total ---------- *)
Lemma lookup_cons : forall k k0 v0 l,
  lookup k ((k0, v0) :: l) = if N.eqb k0 k then v0 else lookup k l.
Proof. intros k k0 v0 l. unfold lookup. cbn [find fst snd]. destruct (N.eqb k0 k); reflexivity. Qed.

Lemma lookup_nil : forall k, lookup k [] = 0.
Proof. reflexivity. Qed.

Lemma lookup_notin : forall k l, ~ In k (map fst l) -> lookup k l = 0.
Proof.
  intros k l. induction l as [|[k0 v0] l IH]; intros H.
  - reflexivity.
  - rewrite lookup_cons. cbn [map fst In] in H. destruct (N.eqb_spec k0 k) as [E|E].
    + exfalso. apply H. now left.
    + apply IH. intros Hin. apply H. now right.
Qed.

Lemma lookup_in : forall k v l, NoDup (map fst l) -> In (k, v) l -> lookup k l = v.
Proof.
  intros k v l. induction l as [|[k0 v0] l IH]; intros Hnd Hin.
  - destruct Hin.
  - rewrite lookup_cons. cbn [map fst] in Hnd. inversion Hnd as [|? ? Hnotin Hnd']; subst.
    destruct Hin as [E|Hin].
    + inversion E; subst. now rewrite N.eqb_refl.
    + destruct (N.eqb_spec k0 k) as [E|E].
      * subst k0. exfalso. apply Hnotin. change k with (fst (k, v)). now apply in_map.
      * now apply IH.
Qed.

Lemma set_mass_cons : forall k v k0 v0 l,
  set_mass Q k v ((k0, v0) :: l) = (if N.eqb k0 k then (k, v) else (k0, v0)) :: set_mass Q k v l.
Proof. reflexivity. Qed.

Lemma set_mass_keys : forall k v l, map fst (set_mass Q k v l) = map fst l.
Proof.
  intros k v l. induction l as [|[k0 v0] l IH].
  - reflexivity.
  - rewrite set_mass_cons. cbn [map]. rewrite IH. f_equal.
    destruct (N.eqb_spec k0 k) as [E|E]; cbn [fst]; congruence.
Qed.

Lemma set_mass_notin : forall k v l, ~ In k (map fst l) -> set_mass Q k v l = l.
Proof.
  intros k v l. induction l as [|[k0 v0] l IH]; intros H.
  - reflexivity.
  - rewrite set_mass_cons. cbn [map fst In] in H. destruct (N.eqb_spec k0 k) as [E|E].
    + exfalso. apply H. now left.
    + rewrite IH; [reflexivity|]. intros Hin. apply H. now right.
Qed.

Lemma lookup_set_same : forall k v l, In k (map fst l) -> lookup k (set_mass Q k v l) = v.
Proof.
  intros k v l. induction l as [|[k0 v0] l IH]; intros H.
  - destruct H.
  - rewrite set_mass_cons. destruct (N.eqb_spec k0 k) as [E|E].
    + rewrite lookup_cons, N.eqb_refl. reflexivity.
    + rewrite lookup_cons. destruct (N.eqb_spec k0 k) as [E'|_]; [contradiction|].
      apply IH. cbn [map fst In] in H. destruct H as [H|H]; [contradiction|exact H].
Qed.

Lemma lookup_set_other : forall k k' v l, k' <> k -> lookup k' (set_mass Q k v l) = lookup k' l.
Proof.
  intros k k' v l Hne. induction l as [|[k0 v0] l IH].
  - reflexivity.
  - rewrite set_mass_cons. destruct (N.eqb_spec k0 k) as [E|E].
    + subst k0. rewrite !lookup_cons. destruct (N.eqb_spec k k') as [E'|_]; [congruence|]. exact IH.
    + rewrite !lookup_cons. rewrite IH. reflexivity.
Qed.

Lemma total_cons : forall k v l, total ((k, v) :: l) = v + total l.
Proof. reflexivity. Qed.

Lemma total_set_mass : forall k v l, NoDup (map fst l) -> In k (map fst l) ->
  total (set_mass Q k v l) == total l - lookup k l + v.
Proof.
  intros k v l. induction l as [|[k0 v0] l IH]; intros Hnd Hin.
  - destruct Hin.
  - cbn [map fst] in Hnd. inversion Hnd as [|? ? Hnotin Hnd']; subst.
    rewrite set_mass_cons, lookup_cons. destruct (N.eqb_spec k0 k) as [E|E].
    + subst k0. rewrite set_mass_notin by exact Hnotin. rewrite !total_cons. ring.
    + rewrite !total_cons, IH.
      * ring.
      * exact Hnd'.
      * cbn [map fst In] in Hin. destruct Hin as [H|H]; [contradiction|exact H].
Qed.

Lemma nonneg_set_mass : forall k v l, nonneg_hist l -> 0 <= v -> nonneg_hist (set_mass Q k v l).
Proof.
  intros k v l Hl Hv. unfold nonneg_hist in *. induction Hl as [|[k0 v0] l H0 Hl IH].
  - constructor.
  - rewrite set_mass_cons. constructor; [|exact IH].
    destruct (N.eqb k0 k); cbn [snd] in *; assumption.
Qed.

Lemma lookup_le_total : forall k l, nonneg_hist l -> lookup k l <= total l.
Proof.
  intros k l Hl. unfold nonneg_hist in Hl. induction Hl as [|[k0 v0] l H0 Hl IH].
  - rewrite lookup_nil. unfold total. cbn. lra.
  - rewrite lookup_cons, total_cons. cbn [snd] in H0.
    assert (0 <= total l) by (apply qsum_nonneg; apply Forall_map; exact Hl).
    destruct (N.eqb k0 k); lra.
Qed.

Lemma lookup_nonneg : forall k l, nonneg_hist l -> 0 <= lookup k l.
Proof.
  intros k l Hl. unfold nonneg_hist in Hl. induction Hl as [|[k0 v0] l H0 Hl IH].
  - rewrite lookup_nil. lra.
  - rewrite lookup_cons. cbn [snd] in H0. destruct (N.eqb k0 k); assumption.
Qed.

Lemma total_nonpos : forall l, Forall (fun kv => qltb 0 (snd kv) = false) l -> total l <= 0.
Proof.
  intros l H. induction H as [|[k0 v0] l H0 Hl IH].
  - unfold total. cbn. lra.
  - rewrite total_cons. cbn [snd] in H0. apply qltb_false in H0. lra.
Qed.

Lemma zero_hist_lookup : forall k l, Forall (fun kv => snd kv == 0) l -> lookup k l == 0.
Proof.
  intros k l H. induction H as [|[k0 v0] l H0 Hl IH].
  - reflexivity.
  - rewrite lookup_cons. cbn [snd] in H0. destruct (N.eqb k0 k); assumption.
Qed.

Lemma nonneg_total_zero : forall l, nonneg_hist l -> total l == 0 -> Forall (fun kv => snd kv == 0) l.
Proof.
  intros l Hl. unfold nonneg_hist in Hl. induction Hl as [|[k0 v0] l H0 Hl IH]; intros Ht.
  - constructor.
  - rewrite total_cons in Ht. cbn [snd] in H0.
    assert (0 <= total l) by (apply qsum_nonneg; apply Forall_map; exact Hl).
    constructor; [cbn [snd]; lra|]. apply IH. lra.
Qed.

(* ---------- number of positive entries ---------- *)
Definition posb (kv : N * Q) : bool := qltb 0 (snd kv).
Definition count_pos (l : list (N * Q)) : nat := length (filter posb l).

Lemma count_pos_cons : forall k v l, count_pos ((k, v) :: l) = ((if qltb 0 v then 1 else 0) + count_pos l)%nat.
Proof. intros k v l. unfold count_pos. cbn [filter posb snd]. unfold posb at 1. cbn [snd]. destruct (qltb 0 v); reflexivity. Qed.

Lemma count_pos_le_length : forall l, (count_pos l <= length l)%nat.
Proof.
  intros l. unfold count_pos. induction l as [|kv l IH]; [cbn; lia|].
  cbn [filter length]. destruct (posb kv); cbn [length]; lia.
Qed.

Lemma count_pos_set_mass : forall k v l, NoDup (map fst l) -> In k (map fst l) ->
  (count_pos (set_mass Q k v l) + (if qltb 0 (lookup k l) then 1 else 0) =
   count_pos l + (if qltb 0 v then 1 else 0))%nat.
Proof.
  intros k v l. induction l as [|[k0 v0] l IH]; intros Hnd Hin.
  - destruct Hin.
  - cbn [map fst] in Hnd. inversion Hnd as [|? ? Hnotin Hnd']; subst.
    rewrite set_mass_cons, lookup_cons. destruct (N.eqb_spec k0 k) as [E|E].
    + subst k0. rewrite set_mass_notin by exact Hnotin. rewrite !count_pos_cons. lia.
    + rewrite !count_pos_cons.
      cbn [map fst In] in Hin. destruct Hin as [H|H]; [contradiction|].
      specialize (IH Hnd' H). lia.
Qed.

Lemma count_pos_zero : forall l, count_pos l = 0%nat -> nonneg_hist l -> Forall (fun kv => snd kv == 0) l.
Proof.
  intros l Hc Hl. unfold nonneg_hist in Hl. induction Hl as [|[k0 v0] l H0 Hl IH].
  - constructor.
  - rewrite count_pos_cons in Hc. cbn [snd] in H0. destruct (qltb 0 v0) eqn:E; [discriminate Hc|].
    apply qltb_false in E. constructor; [cbn [snd]; lra|]. apply IH. exact Hc.
Qed.

Lemma NoDup_keys_filter : forall (f : N * Q -> bool) l, NoDup (map fst l) -> NoDup (map fst (filter f l)).
Proof.
  intros f l. induction l as [|kv l IH]; intros Hnd.
  - constructor.
  - cbn [map] in Hnd. inversion Hnd as [|? ? Hnotin Hnd']; subst. cbn [filter].
    destruct (f kv).
    + cbn [map]. constructor; [|now apply IH]. intros Hin. apply Hnotin.
      apply in_map_iff in Hin. destruct Hin as (kv' & Hk & Hin'). apply filter_In in Hin'.
      rewrite <- Hk. apply in_map. tauto.
    + now apply IH.
Qed.

(* ---------- shipped masses ---------- *)
Lemma shipped_out_snoc : forall x' mv x y m d,
  shipped_out x' (mv ++ [(x, y, m, d)]) == shipped_out x' mv + (if N.eqb x x' then m else 0).
Proof. intros x' mv x y m d. unfold shipped_out. rewrite map_app, qsum_app. cbn [map qsum fold_right]. unfold mv_src, mv_mass. cbn [fst snd]. rewrite Qplus_0_r. reflexivity. Qed.

Lemma shipped_in_snoc : forall y' mv x y m d,
  shipped_in y' (mv ++ [(x, y, m, d)]) == shipped_in y' mv + (if N.eqb y y' then m else 0).
Proof. intros y' mv x y m d. unfold shipped_in. rewrite map_app, qsum_app. cbn [map qsum fold_right]. unfold mv_dst, mv_mass. cbn [fst snd]. rewrite Qplus_0_r. reflexivity. Qed.

Lemma shipped_total_snoc : forall mv x y m d, shipped_total (mv ++ [(x, y, m, d)]) == shipped_total mv + m.
Proof. intros mv x y m d. unfold shipped_total. rewrite map_app, qsum_app. cbn [map qsum fold_right]. unfold mv_mass. cbn [fst snd]. rewrite Qplus_0_r. reflexivity. Qed.

Section Greedy.
Variable dist : N -> N -> Q.
Variables P0 S0 : list (N * Q).
Hypothesis HP0 : NoDup (map fst P0).
Hypothesis HS0 : NoDup (map fst S0).

Notation nsink := (nearest_sink Q 0 qltb dist).
Notation sweepQ := (sweep Q 0 Qminus qltb Qle_bool dist).

Lemma nearest_sink_some : forall x sinks best r, nsink x sinks best = Some r ->
  best = Some r \/ exists y dy, r = (y, dy, dist x y) /\ In (y, dy) sinks /\ 0 < dy.
Proof.
  intros x sinks. induction sinks as [|[y dy] sinks IH]; intros best r H.
  - left. exact H.
  - cbn [nearest_sink] in H. destruct (qltb 0 dy) eqn:Epos.
    + apply qltb_true in Epos.
      assert (Hnew : forall r', nsink x sinks (Some (y, dy, dist x y)) = Some r' ->
                     exists y' dy', r' = (y', dy', dist x y') /\ In (y', dy') ((y, dy) :: sinks) /\ 0 < dy').
      { intros r' Hr'. destruct (IH _ _ Hr') as [E|(y' & dy' & E & Hin & Hp)].
        - inversion E; subst. exists y, dy. split; [reflexivity|]. split; [now left|exact Epos].
        - exists y', dy'. split; [exact E|]. split; [now right|exact Hp]. }
      destruct best as [[[by_ bdy] db]|].
      * destruct (qltb (dist x y) db).
        -- right. now apply Hnew.
        -- destruct (IH _ _ H) as [E|(y' & dy' & E & Hin & Hp)]; [now left|].
           right. exists y', dy'. split; [exact E|]. split; [now right|exact Hp].
      * right. now apply Hnew.
    + destruct (IH _ _ H) as [E|(y' & dy' & E & Hin & Hp)]; [now left|].
      right. exists y', dy'. split; [exact E|]. split; [now right|exact Hp].
Qed.

Lemma nearest_sink_none : forall x sinks best, nsink x sinks best = None ->
  best = None /\ Forall (fun kv => qltb 0 (snd kv) = false) sinks.
Proof.
  intros x sinks. induction sinks as [|[y dy] sinks IH]; intros best H.
  - split; [exact H|constructor].
  - cbn [nearest_sink] in H. destruct (qltb 0 dy) eqn:Epos.
    + exfalso. destruct best as [[[by_ bdy] db]|].
      * destruct (qltb (dist x y) db); apply IH in H; destruct H as [H _]; discriminate H.
      * apply IH in H. destruct H as [H _]. discriminate H.
    + apply IH in H. destruct H as [Hb Hf]. split; [exact Hb|]. constructor; [exact Epos|exact Hf].
Qed.

Record Inv (piles sinks : list (N * Q)) (mv : list move) : Prop := {
  inv_pk : map fst piles = map fst P0;
  inv_sk : map fst sinks = map fst S0;
  inv_pn : nonneg_hist piles;
  inv_sn : nonneg_hist sinks;
  inv_tot : total piles == total sinks;
  inv_ship : total piles + shipped_total mv == total P0;
  inv_out : forall x, lookup x piles + shipped_out x mv == lookup x P0;
  inv_in : forall y, lookup y sinks + shipped_in y mv == lookup y S0;
  inv_mv : Forall (fun m => 0 < mv_mass m /\ mv_dist m = dist (mv_src m) (mv_dst m)) mv }.

Lemma fmin_cases : forall a b, (fmin Q Qle_bool a b = a /\ a <= b) \/ (fmin Q Qle_bool a b = b /\ b <= a).
Proof.
  intros a b. unfold fmin. destruct (Qle_bool a b) eqn:E.
  - left. split; [reflexivity|]. now apply Qle_bool_iff.
  - right. split; [reflexivity|]. destruct (Qlt_le_dec b a) as [H|H]; [lra|].
    apply Qle_bool_iff in H. congruence.
Qed.

Lemma sweep_inv : forall todo piles sinks mv stop p' s' mv' stop',
  Inv piles sinks mv -> NoDup todo ->
  (forall x, In x todo -> In x (map fst piles) /\ 0 < lookup x piles) ->
  sweepQ todo piles sinks mv stop = (p', s', mv', stop') ->
  Inv p' s' mv' /\ stop' = stop /\
  (count_pos p' + count_pos s' + length todo <= count_pos piles + count_pos sinks)%nat.
Proof.
  induction todo as [|x r IH]; intros piles sinks mv stop p' s' mv' stop' HI Hnd Htodo Hsw.
  - cbn [sweep] in Hsw. inversion Hsw; subst. split; [exact HI|]. split; [reflexivity|]. cbn [length]. lia.
  - cbn [sweep] in Hsw.
    change (match find (fun kv : N * Q => N.eqb (fst kv) x) piles with Some kv' => snd kv' | None => 0 end)
      with (lookup x piles) in Hsw.
    destruct (Htodo x (or_introl eq_refl)) as [Hxin Hxpos].
    inversion Hnd as [|? ? Hxr Hndr]; subst.
    destruct HI as [Hpk Hsk Hpn Hsn Htot Hship Hout Hin Hmv].
    assert (HndP : NoDup (map fst piles)) by (rewrite Hpk; exact HP0).
    assert (HndS : NoDup (map fst sinks)) by (rewrite Hsk; exact HS0).
    destruct (nsink x sinks None) as [[[y dy] dxy]|] eqn:Ens.
    + destruct (nearest_sink_some _ _ _ _ Ens) as [E|(y' & dy' & E & Hyin & Hypos)]; [discriminate E|].
      inversion E; subst y' dy' dxy. clear E.
      assert (Hly : lookup y sinks = dy) by (apply lookup_in; assumption).
      assert (Hykey : In y (map fst sinks)) by (change y with (fst (y, dy)); now apply in_map).
      set (dx := lookup x piles) in *.
      set (m := fmin Q Qle_bool dx dy) in *.
      assert (Hm : 0 < m /\ m <= dx /\ m <= dy /\ (m = dx \/ m = dy)).
      { destruct (fmin_cases dx dy) as [[E1 E2]|[E1 E2]]; fold m in E1; rewrite E1; repeat split; try lra; tauto. }
      destruct Hm as (Hm0 & Hmx & Hmy & Hmeq).
      assert (HI' : Inv (set_mass Q x (dx - m) piles) (set_mass Q y (dy - m) sinks) (mv ++ [(x, y, m, dist x y)])).
      { constructor.
        - rewrite set_mass_keys. exact Hpk.
        - rewrite set_mass_keys. exact Hsk.
        - apply nonneg_set_mass; [exact Hpn|lra].
        - apply nonneg_set_mass; [exact Hsn|lra].
        - rewrite !total_set_mass by assumption. fold dx. rewrite Hly. lra.
        - rewrite total_set_mass by assumption. fold dx. rewrite shipped_total_snoc. lra.
        - intros x'. rewrite shipped_out_snoc.
          destruct (N.eqb_spec x x') as [Exx|Exx].
          + subst x'. rewrite lookup_set_same by exact Hxin. specialize (Hout x). fold dx in Hout. lra.
          + rewrite lookup_set_other by congruence. specialize (Hout x'). lra.
        - intros y'. rewrite shipped_in_snoc.
          destruct (N.eqb_spec y y') as [Eyy|Eyy].
          + subst y'. rewrite lookup_set_same by exact Hykey. specialize (Hin y). rewrite Hly in Hin. lra.
          + rewrite lookup_set_other by congruence. specialize (Hin y'). lra.
        - apply Forall_app. split; [exact Hmv|]. constructor; [|constructor].
          unfold mv_mass, mv_dist, mv_src, mv_dst. cbn [fst snd]. split; [exact Hm0|reflexivity]. }
      assert (Htodo' : forall x', In x' r -> In x' (map fst (set_mass Q x (dx - m) piles)) /\
                                           0 < lookup x' (set_mass Q x (dx - m) piles)).
      { intros x' Hx'. destruct (Htodo x' (or_intror Hx')) as [Hk Hp].
        rewrite set_mass_keys. split; [exact Hk|].
        rewrite lookup_set_other; [exact Hp|]. intros ->. contradiction. }
      destruct (IH _ _ _ _ _ _ _ _ HI' Hndr Htodo' Hsw) as (HIf & Hst & Hcnt).
      split; [exact HIf|]. split; [exact Hst|].
      pose proof (count_pos_set_mass x (dx - m) piles HndP Hxin) as C1.
      pose proof (count_pos_set_mass y (dy - m) sinks HndS Hykey) as C2.
      fold dx in C1. rewrite Hly in C2.
      assert (T1 : qltb 0 dx = true) by (apply qltb_true; exact Hxpos).
      assert (T2 : qltb 0 dy = true) by (apply qltb_true; exact Hypos).
      rewrite T1 in C1. rewrite T2 in C2.
      assert (T3 : qltb 0 (dx - m) = false \/ qltb 0 (dy - m) = false).
      { destruct Hmeq as [Em|Em]; [left|right]; apply qltb_false; rewrite Em; lra. }
      cbn [length].
      destruct T3 as [T3|T3]; rewrite T3 in *;
        [destruct (qltb 0 (dy - m))|destruct (qltb 0 (dx - m))]; lia.
    + exfalso. apply nearest_sink_none in Ens. destruct Ens as [_ Hall].
      pose proof (total_nonpos _ Hall) as H1.
      pose proof (lookup_le_total x piles Hpn) as H2. lra.
Qed.

Notation greedyq := (greedyQ dist).

Lemma greedy_inv : forall fuel piles sinks mv,
  Inv piles sinks mv -> (count_pos piles + count_pos sinks <= fuel)%nat ->
  exists p' s', Inv p' s' (greedyq fuel piles sinks mv) /\ count_pos p' = 0%nat.
Proof.
  induction fuel as [|fuel IH]; intros piles sinks mv HI Hc.
  - exists piles, sinks. split; [exact HI|]. lia.
  - unfold greedyQ. cbn [greedy]. fold (greedyQ dist).
    change (fun kv : N * Q => qltb 0 (snd kv)) with posb.
    destruct (map fst (filter posb piles)) as [|x0 live'] eqn:Elive.
    + exists piles, sinks. split; [exact HI|]. unfold count_pos.
      rewrite <- (map_length fst), Elive. reflexivity.
    + rewrite <- Elive.
      destruct (sweepQ (map fst (filter posb piles)) piles sinks mv false) as [[[p s] mv'] stop] eqn:Esw.
      assert (HndP : NoDup (map fst piles)) by (rewrite (inv_pk _ _ _ HI); exact HP0).
      assert (Htodo : forall x, In x (map fst (filter posb piles)) -> In x (map fst piles) /\ 0 < lookup x piles).
      { intros x Hx. apply in_map_iff in Hx. destruct Hx as ([k v] & Hk & Hin). cbn [fst] in Hk. subst k.
        apply filter_In in Hin. destruct Hin as [Hin Hpos]. unfold posb in Hpos. cbn [snd] in Hpos.
        split.
        - change x with (fst (x, v)). now apply in_map.
        - rewrite (lookup_in x v piles HndP Hin). now apply qltb_true. }
      destruct (sweep_inv _ _ _ _ _ _ _ _ _ HI (NoDup_keys_filter posb piles HndP) Htodo Esw) as (HI' & Hst & Hcnt).
      subst stop. rewrite Elive in Hcnt. cbn [length] in Hcnt.
      apply IH; [exact HI'|lia].
Qed.
End Greedy.

Lemma Inv_init : forall dist piles sinks, nonneg_hist piles -> nonneg_hist sinks -> total piles == total sinks ->
  Inv dist piles sinks piles sinks [].
Proof.
  intros dist piles sinks Hp Hs Ht. constructor; try reflexivity; try assumption.
  - unfold shipped_total. cbn. ring.
  - intros x. unfold shipped_out. cbn. ring.
  - intros y. unfold shipped_in. cbn. ring.
  - constructor.
Qed.

(* B: the greedy plan is feasible (with strictly positive masses and the metric's distances) *)
Theorem greedy_feasible_strong : forall dist piles sinks fuel,
  NoDup (map fst piles) -> NoDup (map fst sinks) -> nonneg_hist piles -> nonneg_hist sinks ->
  total piles == total sinks -> (length piles + length sinks <= fuel)%nat ->
  let mv := greedyQ dist fuel piles sinks [] in
  Forall (fun m => 0 < mv_mass m /\ mv_dist m = dist (mv_src m) (mv_dst m)) mv /\
  (forall x, shipped_out x mv == lookup x piles) /\
  (forall y, shipped_in y mv == lookup y sinks) /\
  shipped_total mv == total piles.
Proof.
  intros dist piles sinks fuel Hndp Hnds Hp Hs Ht Hfuel. cbv zeta.
  assert (Hc : (count_pos piles + count_pos sinks <= fuel)%nat).
  { pose proof (count_pos_le_length piles). pose proof (count_pos_le_length sinks). lia. }
  destruct (greedy_inv dist piles sinks Hndp Hnds fuel piles sinks [] (Inv_init dist piles sinks Hp Hs Ht) Hc)
    as (p' & s' & HI & Hz).
  destruct HI as [Hpk Hsk Hpn Hsn Htot Hship Hout Hin Hmv].
  pose proof (count_pos_zero p' Hz Hpn) as Hpz.
  assert (Htp : total p' == 0).
  { clear - Hpz. induction Hpz as [|[k v] l H0 Hl IH]; [reflexivity|]. rewrite total_cons. cbn [snd] in H0. lra. }
  assert (Hsz : Forall (fun kv => snd kv == 0) s') by (apply nonneg_total_zero; [exact Hsn|lra]).
  split; [exact Hmv|]. split; [|split].
  - intros x. specialize (Hout x). rewrite (zero_hist_lookup x p' Hpz), Qplus_0_l in Hout. exact Hout.
  - intros y. specialize (Hin y). rewrite (zero_hist_lookup y s' Hsz), Qplus_0_l in Hin. exact Hin.
  - rewrite Htp, Qplus_0_l in Hship. exact Hship.
Qed.

Theorem greedy_feasible : forall dist piles sinks fuel,
  NoDup (map fst piles) -> NoDup (map fst sinks) -> nonneg_hist piles -> nonneg_hist sinks ->
  total piles == total sinks -> (length piles + length sinks <= fuel)%nat ->
  feasible_plan dist piles sinks (greedyQ dist fuel piles sinks []).
Proof.
  intros dist piles sinks fuel Hndp Hnds Hp Hs Ht Hfuel.
  destruct (greedy_feasible_strong dist piles sinks fuel Hndp Hnds Hp Hs Ht Hfuel) as (Hmv & Hout & Hin & _).
  split; [|split; assumption].
  eapply Forall_impl; [|exact Hmv]. intros m [H1 H2]. split; [lra|]. rewrite H2. reflexivity.
Qed.

Theorem greedy_cost_ge_any_lower_bound : forall dist piles sinks fuel L,
  NoDup (map fst piles) -> NoDup (map fst sinks) -> nonneg_hist piles -> nonneg_hist sinks ->
  total piles == total sinks -> (length piles + length sinks <= fuel)%nat ->
  (forall mv, feasible_plan dist piles sinks mv -> L <= greedy_costQ mv) ->
  L <= greedy_costQ (greedyQ dist fuel piles sinks []).
Proof.
  intros dist piles sinks fuel L Hndp Hnds Hp Hs Ht Hfuel HL.
  apply HL. now apply greedy_feasible.
Qed.
