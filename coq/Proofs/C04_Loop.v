(* Proofs/C04_Loop.v -- the two nested loops of Showdown.settle: a partial-correctness rule for
   loop invariants, and totality (no panic, the fuel suffices) for EVERY ledger. *)
From Coq Require Import ZArith NArith List Bool Lia.
From RP Require Import Model.Showdown Proofs.C04_Lists.
Import ListNotations.
Open Scope Z_scope.

Definition nonfold (p : pay) : bool := negb (is_fold (status p)).
(* winners of the slice above ceiling D for strength b *)
Definition wset (D : Z) (b : N) (p : pay) : bool := nonfold p && N.eqb (skey p) b && (D <? risked p).
Definition cands (ps : list pay) (D : Z) (b : N) : list pay := filter (wset D b) ps.
Definition strongest_of (ps : list pay) (bst : option N) : option N :=
  maxN (map skey (filter nonfold (filter (fun p => lt_best (skey p) bst) ps))).
(* the strength bst has been served completely up to ceiling D *)
Definition exh (ps : list pay) (D : Z) (bst : option N) : Prop :=
  match bst with None => True | Some b => cands ps D b = [] end.
(* the slice step: pays after distributing the slice (D, amt] to the winners of strength b *)
Definition slice_chips (ps : list pay) (D amt : Z) : Z :=
  sumZ (map (fun p => Z.max (Z.min (risked p) amt - D) 0) ps).
Definition slice_pays (ps : list pay) (D amt : Z) (b : N) : list pay :=
  let n := Z.of_nat (length (cands ps D b)) in
  give ps (mkSd ps amt D (Some b)) (Z.quot (slice_chips ps D amt) n) (Z.rem (slice_chips ps D amt) n).

Lemma is_winner_wset : forall ps amt D b p, is_winner (mkSd ps amt D (Some b)) p = wset D b p.
Proof. reflexivity. Qed.

Lemma strongest_eq : forall s, strongest s = strongest_of (pays s) (best s).
Proof. reflexivity. Qed.

Lemma remaining_eq : forall s b, best s = Some b ->
  remaining s = (mkSd (pays s) (distributing s) (distributing s) (Some b),
                 minZ (map risked (cands (pays s) (distributing s) b))).
Proof.
  intros s b Hb. unfold remaining. rewrite Hb. cbn [pays distributed best]. f_equal. f_equal. f_equal.
  rewrite !filter_filter. unfold cands. apply filter_ext. intros p. unfold wset, nonfold.
  cbn [eq_best]. destruct (N.eqb (skey p) b), (distributing s <? risked p), (negb (is_fold (status p))); reflexivity.
Qed.

Lemma distribute_eq : forall ps amt D b,
  distribute (mkSd ps amt D (Some b)) =
  if Z.of_nat (length (cands ps D b)) =? 0 then None
  else Some (mkSd (slice_pays ps D amt b) amt D (Some b)).
Proof. reflexivity. Qed.

Lemma give_length : forall ps s sh bo, length (give ps s sh bo) = length ps.
Proof.
  induction ps as [|p ps IH]; intros s sh bo; cbn [give length]; [reflexivity|].
  destruct (is_winner s p); cbn [length]; rewrite IH; reflexivity.
Qed.

Lemma slice_pays_length : forall ps D amt b, length (slice_pays ps D amt b) = length ps.
Proof. intros. unfold slice_pays. apply give_length. Qed.

(* one unfolding of the inner loop *)
Lemma pots_S : forall f s b, best s = Some b ->
  pots (S f) s =
  match minZ (map risked (cands (pays s) (distributing s) b)) with
  | None => More (mkSd (pays s) (distributing s) (distributing s) (Some b))
  | Some amt =>
      if Z.of_nat (length (cands (pays s) (distributing s) b)) =? 0 then Panic
      else let s2 := mkSd (slice_pays (pays s) (distributing s) amt b) amt (distributing s) (Some b) in
           if is_complete s2 then Done s2 else pots f s2
  end.
Proof.
  intros f s b Hb. cbn [pots]. rewrite (remaining_eq s b Hb).
  destruct (minZ (map risked (cands (pays s) (distributing s) b))) as [amt|]; [|reflexivity].
  cbn [pays distributed best]. rewrite distribute_eq.
  destruct (Z.of_nat (length (cands (pays s) (distributing s) b)) =? 0); reflexivity.
Qed.

Lemma minZ_cands_Some : forall ps D b amt, minZ (map risked (cands ps D b)) = Some amt ->
  exists q, In q ps /\ wset D b q = true /\ risked q = amt /\
            (forall p, In p ps -> wset D b p = true -> amt <= risked p).
Proof.
  intros ps D b amt H. apply minZ_Some in H. destruct H as [Hin Hmin].
  apply in_map_iff in Hin. destruct Hin as [q [Hq Hqin]]. unfold cands in Hqin.
  apply filter_In in Hqin. destruct Hqin as [Hqps Hw].
  exists q. repeat split; try assumption.
  intros p Hp Hwp. apply Hmin. apply in_map. unfold cands. apply filter_In. split; assumption.
Qed.

(* ---------- partial correctness: a rule for loop invariants ---------- *)
Section Hoare.
  Variable Inv : list pay -> Z -> option N -> Prop.   (* pays, ceiling (= distributing), best *)
  Hypothesis H_enter : forall ps D bst b,
    Inv ps D bst -> exh ps D bst -> strongest_of ps bst = Some b -> Inv ps D (Some b).
  Hypothesis H_step : forall ps D b amt,
    Inv ps D (Some b) -> minZ (map risked (cands ps D b)) = Some amt ->
    Inv (slice_pays ps D amt b) amt (Some b).

  Lemma pots_hoare : forall fuel s b, best s = Some b -> Inv (pays s) (distributing s) (Some b) ->
    match pots fuel s with
    | Done s' => Inv (pays s') (distributing s') (best s') /\ is_complete s' = true
    | More s' => Inv (pays s') (distributing s') (best s') /\ exh (pays s') (distributing s') (best s')
    | _ => True
    end.
  Proof.
    induction fuel as [|f IH]; intros s b Hb HI; [exact I|].
    rewrite (pots_S f s b Hb).
    destruct (minZ (map risked (cands (pays s) (distributing s) b))) as [amt|] eqn:Hmin.
    - destruct (Z.of_nat (length (cands (pays s) (distributing s) b)) =? 0); [exact I|].
      cbv zeta.
      assert (Inv (slice_pays (pays s) (distributing s) amt b) amt (Some b)) as HI2
        by (apply H_step; assumption).
      destruct (is_complete _) eqn:Hc.
      + cbn [pays distributing best]. split; [exact HI2|exact Hc].
      + apply (IH (mkSd (slice_pays (pays s) (distributing s) amt b) amt (distributing s) (Some b)) b eq_refl HI2).
    - cbn [pays distributing best exh]. split; [exact HI|].
      apply minZ_None in Hmin. destruct (cands (pays s) (distributing s) b); [reflexivity|discriminate].
  Qed.

  Lemma winners_hoare : forall fuel s s',
    Inv (pays s) (distributing s) (best s) -> exh (pays s) (distributing s) (best s) ->
    winners fuel s = Done s' ->
    Inv (pays s') (distributing s') (best s') /\
    (is_complete s' = true \/
     (exh (pays s') (distributing s') (best s') /\ strongest_of (pays s') (best s') = None)).
  Proof.
    induction fuel as [|f IH]; intros s s' HI He Hw; [discriminate|].
    cbn [winners] in Hw. rewrite strongest_eq in Hw.
    destruct (strongest_of (pays s) (best s)) as [b|] eqn:Hs.
    - pose proof (pots_hoare (S (S (length (pays s)))) (mkSd (pays s) (distributing s) (distributed s) (Some b)) b eq_refl) as Hp.
      cbn [pays distributing] in Hp.
      specialize (Hp (H_enter _ _ _ _ HI He Hs)).
      destruct (pots (S (S (length (pays s)))) (mkSd (pays s) (distributing s) (distributed s) (Some b))) as [s1|s1| |].
      + injection Hw as <-. destruct Hp as [Hp1 Hp2]. split; [exact Hp1|left; exact Hp2].
      + destruct Hp as [Hp1 Hp2]. apply (IH s1 s' Hp1 Hp2 Hw).
      + discriminate.
      + discriminate.
    - injection Hw as <-. split; [exact HI|]. right. split; assumption.
  Qed.
End Hoare.

(* ---------- totality ---------- *)
Definition inner_measure (ps : list pay) (D : Z) : nat := length (filter (fun p => D <? risked p) ps).
Definition outer_measure (ps : list pay) (bst : option N) : nat :=
  length (filter (fun p => lt_best (skey p) bst) ps).

Lemma give_proj : forall ps s sh bo,
  map risked (give ps s sh bo) = map risked ps /\ map skey (give ps s sh bo) = map skey ps
  /\ map status (give ps s sh bo) = map status ps.
Proof.
  induction ps as [|p ps IH]; intros s sh bo; cbn [give map]; [auto|].
  destruct (is_winner s p); cbn [map risked skey status];
    destruct (IH s sh bo) as [H1 [H2 H3]]; try destruct (IH s sh (bo - 1)) as [H1' [H2' H3']];
    repeat split; f_equal; assumption.
Qed.

Lemma filter_length_map : forall (A B : Type) (g : A -> B) (f : B -> bool) (l1 l2 : list A),
  map g l1 = map g l2 -> length (filter (fun p => f (g p)) l1) = length (filter (fun p => f (g p)) l2).
Proof.
  intros A B g f. induction l1 as [|x l1 IH]; intros [|y l2] H; try discriminate; [reflexivity|].
  cbn [map] in H. injection H as Hxy Hr. cbn [filter]. rewrite Hxy.
  destruct (f (g y)); cbn [length]; rewrite (IH l2 Hr); reflexivity.
Qed.

Lemma inner_measure_step : forall ps D b amt,
  minZ (map risked (cands ps D b)) = Some amt ->
  (inner_measure (slice_pays ps D amt b) amt < inner_measure ps D)%nat /\ D < amt.
Proof.
  intros ps D b amt H. apply minZ_cands_Some in H. destruct H as [q [Hq [Hw [Hr _]]]].
  unfold wset in Hw. apply andb_prop in Hw. destruct Hw as [_ Hlt]. apply Z.ltb_lt in Hlt.
  split; [|lia]. unfold inner_measure.
  rewrite (filter_length_map pay Z risked (fun r => amt <? r) (slice_pays ps D amt b) ps).
  - apply (filter_length_lt pay (fun p => D <? risked p) (fun p => amt <? risked p) ps q).
    + intros x _ Hx. apply Z.ltb_lt in Hx. apply Z.ltb_lt. lia.
    + exact Hq.
    + apply Z.ltb_lt. lia.
    + apply Z.ltb_ge. lia.
  - unfold slice_pays. apply give_proj.
Qed.

Lemma cands_nonempty : forall ps D b amt,
  minZ (map risked (cands ps D b)) = Some amt -> (Z.of_nat (length (cands ps D b)) =? 0) = false.
Proof.
  intros ps D b amt H. apply Z.eqb_neq. destruct (cands ps D b); [discriminate|]. cbn [length]. lia.
Qed.

Lemma pots_total : forall fuel s b, best s = Some b ->
  (inner_measure (pays s) (distributing s) < fuel)%nat ->
  exists s', (pots fuel s = Done s' \/ pots fuel s = More s') /\ best s' = Some b /\
             map skey (pays s') = map skey (pays s) /\ length (pays s') = length (pays s).
Proof.
  induction fuel as [|f IH]; intros s b Hb Hm; [lia|].
  rewrite (pots_S f s b Hb).
  destruct (minZ (map risked (cands (pays s) (distributing s) b))) as [amt|] eqn:Hmin.
  - rewrite (cands_nonempty _ _ _ _ Hmin). cbv zeta.
    destruct (inner_measure_step _ _ _ _ Hmin) as [Hlt _].
    destruct (is_complete _).
    + eexists. split; [left; reflexivity|]. cbn [best pays]. split; [reflexivity|].
      split; [apply give_proj|apply slice_pays_length].
    + destruct (IH (mkSd (slice_pays (pays s) (distributing s) amt b) amt (distributing s) (Some b)) b eq_refl)
        as [s' [Hr [Hb' [Hk Hl]]]].
      { cbn [pays distributing]. lia. }
      exists s'. split; [exact Hr|]. split; [exact Hb'|]. cbn [pays] in Hk, Hl.
      split; [rewrite Hk; apply give_proj|rewrite Hl; apply slice_pays_length].
  - eexists. split; [right; reflexivity|]. cbn [best pays]. auto.
Qed.

Lemma outer_measure_step : forall ps ps' bst b,
  strongest_of ps bst = Some b -> map skey ps' = map skey ps ->
  (outer_measure ps' (Some b) < outer_measure ps bst)%nat.
Proof.
  intros ps ps' bst b Hs Hk. unfold outer_measure.
  rewrite (filter_length_map pay N skey (fun k => lt_best k (Some b)) ps' ps Hk).
  unfold strongest_of in Hs. apply maxN_Some in Hs. destruct Hs as [Hin Hmax].
  apply in_map_iff in Hin. destruct Hin as [q [Hqk Hq]].
  apply filter_In in Hq. destruct Hq as [Hq _]. apply filter_In in Hq. destruct Hq as [Hq Hlt].
  apply (filter_length_lt pay (fun p => lt_best (skey p) bst) (fun p => lt_best (skey p) (Some b)) ps q).
  - intros x _ Hx. cbn [lt_best] in Hx. apply N.ltb_lt in Hx.
    destruct bst as [b0|]; cbn [lt_best]; [|reflexivity].
    cbn [lt_best] in Hlt. apply N.ltb_lt in Hlt. apply N.ltb_lt. lia.
  - exact Hq.
  - exact Hlt.
  - cbn [lt_best]. apply N.ltb_ge. lia.
Qed.

Lemma winners_total : forall fuel s,
  (outer_measure (pays s) (best s) < fuel)%nat ->
  exists s', winners fuel s = Done s' /\ length (pays s') = length (pays s).
Proof.
  induction fuel as [|f IH]; intros s Hm; [lia|].
  cbn [winners]. rewrite strongest_eq.
  destruct (strongest_of (pays s) (best s)) as [b|] eqn:Hs.
  - destruct (pots_total (S (S (length (pays s)))) (mkSd (pays s) (distributing s) (distributed s) (Some b)) b eq_refl)
      as [s1 [Hr [Hb1 [Hk Hl]]]].
    { cbn [pays distributing]. unfold inner_measure.
      pose proof (filter_length_le pay (fun p => distributing s <? risked p) (pays s)). lia. }
    cbn [pays] in Hk, Hl.
    destruct Hr as [Hr|Hr]; rewrite Hr.
    + exists s1. split; [reflexivity|exact Hl].
    + destruct (IH s1) as [s' [Hw Hl']].
      { rewrite Hb1. pose proof (outer_measure_step (pays s) (pays s1) (best s) b Hs Hk). lia. }
      exists s'. split; [exact Hw|]. rewrite Hl'. exact Hl.
  - exists s. split; reflexivity.
Qed.

(* settle never panics and never runs out of fuel, whatever the ledger *)
Lemma settle_total : forall l, exists s, settle_result l = Done s /\ length (pays s) = length l.
Proof.
  intros l. unfold settle_result.
  destruct (winners_total (S (S (length l))) (mkSd l 0 0 None)) as [s' [Hw Hl]].
  - cbn [pays best]. unfold outer_measure.
    pose proof (filter_length_le pay (fun p => lt_best (skey p) None) l). lia.
  - exists s'. split; [exact Hw|exact Hl].
Qed.
