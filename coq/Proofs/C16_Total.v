(* Proofs/C16_Total.v -- property C16, part 1: the text parsers never abort, and the values
   they return are valid.  The three generated flags of Gen/GenFixes.v enter the proofs as
   [reflexivity]-facts ([flag_card], [flag_obs], [flag_action]): if the Rust code regresses, the
   regenerated flag is [false], these facts fail and so does everything below. *)
From Coq Require Import NArith ZArith List Bool Lia.
From RP Require Import Base.Bits Gen.GenLib Gen.GenFixes Model.Codec Model.Parse
                       Spec.SpecParseVariants.
Import ListNotations.
Open Scope N_scope.

Arguments N.add : simpl never. Arguments N.mul : simpl never. Arguments N.sub : simpl never.
Arguments N.shiftl : simpl never. Arguments N.shiftr : simpl never.
Arguments N.land : simpl never. Arguments N.lor : simpl never.

(* ---------- the generated flags ---------- *)
Lemma flag_card : CARD_PARSE_CHECKS_BOUNDARY = true. Proof. reflexivity. Qed.
Lemma flag_obs : OBS_PARSE_CHECKS_DISJOINT = true. Proof. reflexivity. Qed.
Lemma flag_action : ACTION_PARSE_CHECKS_EMPTY = true. Proof. reflexivity. Qed.

(* The parameterised copies of Spec/SpecParseVariants.v are the model's parsers. *)
Lemma parse_card_with_flag : forall s, parse_card s = parse_card_with CARD_PARSE_CHECKS_BOUNDARY s.
Proof. intros s. reflexivity. Qed.
Lemma parse_obs_with_flag : forall s, parse_obs s = parse_obs_with OBS_PARSE_CHECKS_DISJOINT s.
Proof. intros s. reflexivity. Qed.
Lemma parse_action_with_flag : forall s, parse_action s = parse_action_with ACTION_PARSE_CHECKS_EMPTY s.
Proof. intros s. reflexivity. Qed.

(* Case analysis on a code point compared against numeric literals in a [match]. *)
Ltac case_N c :=
  let p := fresh "p" in
  destruct c as [|p];
  [|repeat (destruct p as [p|p|]; try reflexivity; try congruence)];
  try reflexivity; try congruence.

(* ---------- byte lengths ---------- *)
Lemma utf8_len_pos : forall c, 1 <= utf8_len c.
Proof.
  intros c. unfold utf8_len.
  destruct (c <? 128); [lia|]. destruct (c <? 2048); [lia|]. destruct (c <? 65536); lia.
Qed.

Lemma byte_len_fold_ge : forall s a,
  a + N.of_nat (length s) <= fold_left (fun a c => a + utf8_len c) s a.
Proof.
  induction s as [|c r IH]; intros a.
  - cbn [fold_left length]. lia.
  - cbn [fold_left length]. specialize (IH (a + utf8_len c)). pose proof (utf8_len_pos c) as Hc. lia.
Qed.

(* A string of two bytes in which offset 1 is a character boundary consists of two code points. *)
Lemma two_bytes_boundary : forall t, byte_len t = 2 -> is_boundary t 1 = true ->
  exists a b, t = [a; b].
Proof.
  intros t Hlen Hb. destruct t as [|a [|b [|c r]]].
  - unfold byte_len in Hlen. cbn [fold_left] in Hlen. lia.
  - exfalso. unfold byte_len in Hlen. cbn [fold_left] in Hlen.
    cbn [is_boundary] in Hb. change (1 =? 0) with false in Hb. cbv iota in Hb.
    assert (Hu : utf8_len a = 2) by lia. rewrite Hu in Hb.
    change (1 <? 2) with true in Hb. cbv iota in Hb. discriminate Hb.
  - exists a, b. reflexivity.
  - exfalso. unfold byte_len in Hlen.
    pose proof (byte_len_fold_ge (a :: b :: c :: r) 0) as Hge.
    rewrite Hlen in Hge. cbn [length] in Hge. lia.
Qed.

(* ---------- rank, suit, card ---------- *)
Lemma parse_rank_total : forall s, parse_rank s <> PPanic.
Proof.
  intros s. unfold parse_rank. destruct (to_upper (trim s)) as [|c [|d r]]; try discriminate.
  destruct (position (N.eqb c) rank_chars); discriminate.
Qed.

Lemma parse_suit_total : forall s, parse_suit s <> PPanic.
Proof.
  intros s. unfold parse_suit. destruct (to_lower (trim s)) as [|c [|d r]]; try discriminate.
  destruct (position (N.eqb c) suit_chars); [discriminate|].
  destruct (position (N.eqb c) suit_symbols); discriminate.
Qed.

Lemma total_card : forall s : str, parse_card s <> PPanic.
Proof.
  intros s. unfold parse_card. rewrite flag_card. cbv zeta.
  destruct (byte_len (trim s) =? 2) eqn:Hlen; [|discriminate].
  destruct (is_boundary (trim s) 1) eqn:Hb; cbn [negb andb]; [|discriminate].
  apply N.eqb_eq in Hlen.
  destruct (two_bytes_boundary _ Hlen Hb) as [a [b Ht]]. rewrite Ht.
  pose proof (parse_rank_total [a]) as Hr. pose proof (parse_suit_total [b]) as Hs.
  destruct (parse_rank [a]) as [r| |]; [|discriminate|congruence].
  destruct (parse_suit [b]) as [su| |]; [discriminate|discriminate|congruence].
Qed.

(* ---------- hand, hole ---------- *)
Lemma parse_token_total : forall t, parse_token t <> PPanic.
Proof.
  intros t. unfold parse_token. induction (chunks2 t) as [|ch l IH]; cbn [fold_right].
  - discriminate.
  - pose proof (total_card ch) as Hc.
    destruct (parse_card ch) as [c| |]; [| |congruence];
    match goal with |- context [fold_right ?f ?a l] => destruct (fold_right f a l) as [cs| |] end;
    try discriminate; congruence.
Qed.

Lemma parse_hand_fold_total : forall ts acc, acc <> PPanic ->
  fold_left (fun acc t => match acc, parse_token t with
                          | PPanic, _ | _, PPanic => PPanic
                          | POk h, POk cs => POk (fold_left (fun a c => N.lor a (N.shiftl 1 c)) cs h)
                          | POk h, PErr => POk h
                          | PErr, _ => PErr end) ts acc <> PPanic.
Proof.
  induction ts as [|t r IH]; intros acc Hacc; cbn [fold_left].
  - exact Hacc.
  - apply IH. pose proof (parse_token_total t) as Ht.
    destruct acc as [h| |]; [| |congruence]; destruct (parse_token t) as [cs| |];
    try discriminate; congruence.
Qed.

Lemma total_hand : forall s : str, parse_hand s <> PPanic.
Proof. intros s. unfold parse_hand. apply parse_hand_fold_total. discriminate. Qed.

Lemma total_hole : forall s : str, parse_hole s <> PPanic.
Proof.
  intros s. unfold parse_hole. pose proof (total_hand s) as Hh.
  destruct (parse_hand s) as [h| |]; [|discriminate|congruence].
  destruct (hand_size h =? 2); discriminate.
Qed.

(* ---------- observation ---------- *)
Lemma total_obs : forall s : str, parse_obs s <> PPanic.
Proof.
  intros s. unfold parse_obs. cbv zeta.
  destruct (match split_once 126 (trim s) [] with Some p => p | None => (trim s, []) end) as [a b].
  pose proof (total_hand a) as Ha. pose proof (total_hand b) as Hb.
  destruct (parse_hand a) as [pk| |]; [| |congruence];
  destruct (parse_hand b) as [pb| |]; try discriminate; try congruence.
  match goal with |- (if ?c then _ else _) <> _ => destruct c end; discriminate.
Qed.

Lemma obs_valid : forall s o, parse_obs s = POk o ->
  hand_size (pocket o) = 2 /\
  (hand_size (public o) = 0 \/ hand_size (public o) = 3 \/
   hand_size (public o) = 4 \/ hand_size (public o) = 5) /\
  N.land (pocket o) (public o) = 0.
Proof.
  intros s o. unfold parse_obs. rewrite flag_obs. cbv zeta.
  destruct (match split_once 126 (trim s) [] with Some p => p | None => (trim s, []) end) as [a b].
  destruct (parse_hand a) as [pk| |]; destruct (parse_hand b) as [pb| |]; try discriminate.
  destruct ((hand_size pk =? 2) &&
            ((hand_size pb =? 0) || (hand_size pb =? 3) || (hand_size pb =? 4) || (hand_size pb =? 5)) &&
            (N.land pk pb =? 0)) eqn:Hc; [|discriminate].
  intros H. injection H as Ho. subst o. cbn [pocket public].
  apply andb_true_iff in Hc. destruct Hc as [Hc Hd].
  apply andb_true_iff in Hc. destruct Hc as [Hp Hn].
  apply N.eqb_eq in Hp. apply N.eqb_eq in Hd.
  repeat rewrite orb_true_iff in Hn. repeat rewrite N.eqb_eq in Hn.
  split; [exact Hp|]. split; [|exact Hd]. tauto.
Qed.

Lemma hole_valid : forall s h, parse_hole s = POk h -> hand_size h = 2.
Proof.
  intros s h. unfold parse_hole. destruct (parse_hand s) as [h'| |]; try discriminate.
  destruct (hand_size h' =? 2) eqn:Hs; [|discriminate].
  intros H. injection H as Hh. subst h'. apply N.eqb_eq. exact Hs.
Qed.

(* ---------- street, abstraction ---------- *)
Lemma parse_street_eq : forall s, parse_street s =
  match to_upper s with
  | c :: _ => if c =? 80 then POk 0%Z else if c =? 70 then POk 1%Z else if c =? 84 then POk 2%Z
              else if c =? 82 then POk 3%Z else PErr
  | [] => PErr end.
Proof.
  intros s. unfold parse_street. destruct (to_upper s) as [|c r]; [reflexivity|]. case_N c.
Qed.

Lemma total_street : forall s : str, parse_street s <> PPanic.
Proof.
  intros s. rewrite parse_street_eq. destruct (to_upper s) as [|c r]; [discriminate|].
  destruct (c =? 80); [discriminate|]. destruct (c =? 70); [discriminate|].
  destruct (c =? 84); [discriminate|]. destruct (c =? 82); discriminate.
Qed.

Lemma parse_street_range : forall s z, parse_street s = POk z -> (0 <= z <= 3)%Z.
Proof.
  intros s z. rewrite parse_street_eq. destruct (to_upper s) as [|c r]; [discriminate|].
  destruct (c =? 80); [intros H; injection H as Hz; lia|].
  destruct (c =? 70); [intros H; injection H as Hz; lia|].
  destruct (c =? 84); [intros H; injection H as Hz; lia|].
  destruct (c =? 82); [intros H; injection H as Hz; lia|discriminate].
Qed.

Lemma abs_make_some : forall st ix, st <= 3 -> abs_make st ix <> None.
Proof.
  intros st ix Hst. unfold abs_make. cbv zeta.
  assert (Hc : st = 0 \/ st = 1 \/ st = 2 \/ st = 3) by lia.
  destruct Hc as [Hc|[Hc|[Hc|Hc]]]; subst st; cbn [variant_of_street]; discriminate.
Qed.

Lemma total_abs : forall s : str, parse_abs s <> PPanic.
Proof.
  intros s. unfold parse_abs. destruct (split_dcolon (trim s) []) as [|a [|b r]]; try discriminate.
  pose proof (total_street a) as Ha. pose proof (parse_street_range a) as Hr.
  destruct (parse_street a) as [st| |]; [|discriminate|congruence].
  destruct (parse_unsigned 16 b) as [ix|]; [|discriminate].
  specialize (Hr st eq_refl).
  pose proof (abs_make_some (Z.to_N st) ix) as Hm.
  destruct (abs_make (Z.to_N st) ix) as [x|]; [discriminate|]. exfalso. apply Hm; [lia|reflexivity].
Qed.

(* ---------- action, turn ---------- *)
Lemma total_action : forall s : str, parse_action s <> PPanic.
Proof.
  intros s. unfold parse_action. rewrite flag_action.
  destruct (split_ws s) as [|w rest]; [discriminate|]. cbv zeta.
  assert (Hamt : forall mk : Z -> action,
            match rest with
            | a :: _ => match parse_i16 a with Some z => POk (mk z) | None => PErr end
            | [] => PErr end <> PPanic).
  { intros mk. destruct rest as [|a r]; [discriminate|]. destruct (parse_i16 a); discriminate. }
  destruct (str_eqb (to_upper w) w_check); [discriminate|].
  destruct (str_eqb (to_upper w) w_fold); [discriminate|].
  destruct (str_eqb (to_upper w) w_call); [apply Hamt|].
  destruct (str_eqb (to_upper w) w_raise); [apply Hamt|].
  destruct (str_eqb (to_upper w) w_shove); [apply Hamt|].
  destruct (str_eqb (to_upper w) w_blind); [apply Hamt|].
  destruct (str_eqb (to_upper w) w_deal); [|discriminate].
  pose proof (total_hand (join_sp rest)) as Hh.
  destruct (parse_hand (join_sp rest)) as [h| |]; [discriminate|discriminate|congruence].
Qed.

Lemma parse_turn_eq : forall s, parse_turn s =
  if str_eqb s [88; 88] then POk TTerminal
  else if str_eqb s [63; 63] then POk TChance
  else match s with
       | c :: r => if c =? 80 then match parse_unsigned 10 r with Some i => POk (TChoice i) | None => PErr end
                   else PErr
       | [] => PErr end.
Proof.
  intros s. unfold parse_turn. destruct (str_eqb s [88; 88]); [reflexivity|].
  destruct (str_eqb s [63; 63]); [reflexivity|]. destruct s as [|c r]; [reflexivity|]. case_N c.
Qed.

Lemma total_turn : forall s : str, parse_turn s <> PPanic.
Proof.
  intros s. rewrite parse_turn_eq. destruct (str_eqb s [88; 88]); [discriminate|].
  destruct (str_eqb s [63; 63]); [discriminate|]. destruct s as [|c r]; [discriminate|].
  destruct (c =? 80); [|discriminate]. destruct (parse_unsigned 10 r); discriminate.
Qed.

(* ---------- the properties fail on the unrepaired shapes ---------- *)
(* "é": one code point, two bytes; slicing at byte 1 aborts. *)
Example refuted_card : parse_card_with false [233] = PPanic.
Proof. vm_compute. reflexivity. Qed.
(* the empty string: parts[0] is out of bounds. *)
Example refuted_action : parse_action_with false [] = PPanic.
Proof. vm_compute. reflexivity. Qed.
(* "As Ks ~ As Qd Jh": the ace of spades is both a private and a board card. *)
Definition overlap_str : str := [65; 115; 32; 75; 115; 32; 126; 32; 65; 115; 32; 81; 100; 32; 74; 104].
Example refuted_obs : exists o, parse_obs_with false overlap_str = POk o /\ N.land (pocket o) (public o) <> 0.
Proof. eexists. split; [vm_compute; reflexivity|]. vm_compute. discriminate. Qed.
(* ... and with the flags as generated the same inputs are handled. *)
Example repaired_card : parse_card_with CARD_PARSE_CHECKS_BOUNDARY [233] = PErr.
Proof. vm_compute. reflexivity. Qed.
Example repaired_action : parse_action_with ACTION_PARSE_CHECKS_EMPTY [] = PErr.
Proof. vm_compute. reflexivity. Qed.
Example repaired_obs : parse_obs_with OBS_PARSE_CHECKS_DISJOINT overlap_str = PErr.
Proof. vm_compute. reflexivity. Qed.
