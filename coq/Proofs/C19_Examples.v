(* Proofs/C19_Examples.v -- concrete instances for C19: numbers, satisfiable hypotheses, and the
   failure of the weight bounds when a discount factor exceeds one. *)
From Coq Require Import ZArith QArith Qpower Lia List Bool.
From RP Require Import Gen.GenLib Gen.GenDiscount Model.Discount Spec.SpecDiscount.
Import ListNotations.
Open Scope Q_scope.

(* ---------- the generated exponent ---------- *)
Example ex_gamma_integral : gamma_is_integral = true.
Proof. reflexivity. Qed.
Example ex_gamma_int_value : gamma_int = 2%Z.
Proof. reflexivity. Qed.

(* ---------- stored average strategy ---------- *)
(* three epochs 0,1,2 from the (irrelevant) initial value 7 *)
Example ex_policy_numbers :
  policy_run 0 7 [1#2; 1#4; 1] == (1#2) * (1/3)^2 + (1#4) * (2/3)^2 + 1.
Proof. vm_compute. reflexivity. Qed.

Example ex_policy_closed_form_numbers :
  sum_policy 0 (Z.of_nat (length [1#2; 1#4; 1]) - 1) [1#2; 1#4; 1] == 7 # 6.
Proof. vm_compute. reflexivity. Qed.

(* a run resumed at epoch 3: the initial value 7 survives with weight (3/5)^2 *)
Example ex_policy_general_numbers :
  policy_run 3 7 [1#2; 1#3] == 7 * (3/5)^2 + (1#2) * (4/5)^2 + (1#3) * (5/5)^2.
Proof. vm_compute. reflexivity. Qed.

Example ex_policy_general_hyp :
  (0 <= 3)%Z /\ ([1#2; 1#3] <> [] \/ (0 < 3)%Z).
Proof. split; [ lia | left; discriminate ]. Qed.

Example ex_policy_closed_form_hyp : [1#2; 1#4; 1] <> ([] : list Q).
Proof. discriminate. Qed.

(* two actions, three epochs, per-epoch strategies (1/2,1/2) (1/4,3/4) (1,0) *)
Definition ex_pss : list (list Q) := [[1#2; 1#4; 1]; [1#2; 3#4; 0]].

Example ex_weighted_mean_hyp :
  (1 <= 3)%nat /\ Forall (fun ps => length ps = 3%nat) ex_pss /\ (0 < length ex_pss)%nat /\
  ~ pow_weighted_sum 0 (colsum 3 ex_pss) == 0.
Proof.
  split; [ lia | ]. split; [ repeat constructor | ]. split; [ cbn; lia | ].
  vm_compute. discriminate.
Qed.

(* weights 1,4,9: action 0 gets (1/2 + 1 + 9)/14 = 3/4, action 1 gets (1/2 + 3)/14 = 1/4 *)
Example ex_weighted_mean_numbers :
  let stored := map (policy_run 0 0) ex_pss in
  nth 0 stored 0 / sumQ stored == 3 # 4 /\ nth 1 stored 0 / sumQ stored == 1 # 4 /\
  pow_weighted_sum 0 (nth 0 ex_pss []) / pow_weighted_sum 0 (colsum 3 ex_pss) == 3 # 4.
Proof. vm_compute. repeat split. Qed.

(* ---------- accumulated regret ---------- *)
(* the factor at epoch 0 is 0 (x = 0^alpha = 0, x/(x+1) = 0): only the factors of the epochs >= 1
   are constrained by the hypotheses *)
Definition ex_drs : list (Q * Q) := [(0, 5); (1#2, -3 # 1); (3#4, 2); (1, 1)].

Example ex_regret_numbers :
  regret_run 10 ex_drs == 21 # 8 /\
  10 * prodQ (map fst ex_drs) + sum_regret ex_drs == 21 # 8 /\
  sum_weighted ex_drs == 5 * (3#8) + (-3 # 1) * (3#4) + 2 * 1 + 1 * 1.
Proof. vm_compute. repeat split. Qed.

Example ex_regret_weights_values :
  map (weight ex_drs) [0; 1; 2; 3]%nat = [3#8; 3#4; 1; 1].
Proof. vm_compute. reflexivity. Qed.

Lemma small_nat_cases : forall (Pr : nat -> Prop) (n : nat),
  Forall Pr (seq 0 n) -> forall u, (u < n)%nat -> Pr u.
Proof.
  intros Pr n Hall u Hu. rewrite Forall_forall in Hall. apply Hall. apply in_seq. lia.
Qed.

Example ex_regret_weights_hyp :
  (forall u, (1 <= u < length ex_drs)%nat -> 0 < factor_at ex_drs u /\ factor_at ex_drs u <= 1) /\
  (forall u, (3 <= u < length ex_drs)%nat -> factor_at ex_drs u == 1).
Proof.
  split.
  - intros u Hu. cbn [ex_drs length] in Hu.
    assert (Hc : u = 1%nat \/ u = 2%nat \/ u = 3%nat) by lia.
    destruct Hc as [ Hc | [ Hc | Hc ] ]; subst u; split; vm_compute; solve [ reflexivity | discriminate ].
  - intros u Hu. cbn [ex_drs length] in Hu. assert (Hc : u = 3%nat) by lia. subst u. reflexivity.
Qed.

(* a sequence longer than the discount phase: factor 1/2 while discounting, 1 afterwards *)
Definition ex_long : list (Q * Q) :=
  repeat (1#2, 1) (Z.to_nat CFR_DISCOUNT_PHASE) ++ repeat (1, -1 # 1) 5.

Example ex_regret_phase_hyp :
  (forall u, (u < length ex_long)%nat -> in_discount_phase (Z.of_nat u) = false ->
             factor_at ex_long u == 1) /\
  (exists s, (s < length ex_long)%nat /\ in_discount_phase (Z.of_nat (S s)) = false) /\
  (forall u, (1 <= u < length ex_long)%nat -> 0 < factor_at ex_long u /\ factor_at ex_long u <= 1).
Proof.
  assert (Hchk : forallb (fun u =>
            implb (negb (in_discount_phase (Z.of_nat u))) (Qeq_bool (factor_at ex_long u) 1)
            && Qle_bool (factor_at ex_long u) 1
            && negb (Qle_bool (factor_at ex_long u) 0))
          (seq 0 (length ex_long)) = true) by (vm_compute; reflexivity).
  rewrite forallb_forall in Hchk.
  assert (Hall : forall u, (u < length ex_long)%nat ->
            (in_discount_phase (Z.of_nat u) = false -> factor_at ex_long u == 1) /\
            factor_at ex_long u <= 1 /\ 0 < factor_at ex_long u).
  { intros u Hu. specialize (Hchk u). rewrite in_seq in Hchk. specialize (Hchk ltac:(lia)).
    apply andb_prop in Hchk. destruct Hchk as [ Hchk Hpos ].
    apply andb_prop in Hchk. destruct Hchk as [ Himp Hle ].
    split; [ | split ].
    - intros Hph. rewrite Hph in Himp. cbn [negb implb] in Himp. apply Qeq_bool_iff. exact Himp.
    - apply Qle_bool_iff. exact Hle.
    - apply Qnot_le_lt. intros Hneg. apply Qle_bool_iff in Hneg. rewrite Hneg in Hpos. discriminate. }
  split; [ | split ].
  - intros u Hu. apply Hall. exact Hu.
  - exists (Z.to_nat CFR_DISCOUNT_PHASE). split; [ apply Nat.ltb_lt; vm_compute; reflexivity | reflexivity ].
  - intros u Hu. destruct (Hall u) as [ _ [ Hle Hpos ] ]; [ lia | ]. split; assumption.
Qed.

Example ex_regret_phase_numbers :
  weight ex_long (Z.to_nat CFR_DISCOUNT_PHASE - 1) == 1 /\
  weight ex_long (Z.to_nat CFR_DISCOUNT_PHASE - 2) == 1 # 2 /\
  weight ex_long (Z.to_nat CFR_DISCOUNT_PHASE - 4) == 1 # 8.
Proof. vm_compute. repeat split. Qed.

(* ---------- the hypothesis 0 < d <= 1 carries the weight claims ---------- *)
(* a factor above one at epoch 1: the weight of epoch 0 exceeds one and exceeds the weight of the
   more recent epoch 1 *)
Example ex_factor_above_one_refutes_bounds :
  let drs := [(1, 1); (2, 1); (1, 1)] in
  ~ weight drs 0 <= 1 /\ ~ weight drs 0 <= weight drs 1.
Proof. cbv zeta. split; apply Qlt_not_le; reflexivity. Qed.

(* a factor zero at an epoch >= 1: the weight is not positive *)
Example ex_factor_zero_refutes_positivity :
  ~ 0 < weight [(1, 1); (0, 1); (1, 1)] 0.
Proof. apply Qle_not_lt. vm_compute. discriminate. Qed.

(* ---------- walker ---------- *)
Example ex_walker : map walker [0; 1; 2; 3; 4; 5]%Z = [0; 1; 0; 1; 0; 1]%Z.
Proof. reflexivity. Qed.
