(* Proofs/C19_Regret.v -- accumulated regret as a weighted combination of the per-epoch regrets;
   range, monotonicity in recency and post-phase value of the weights. *)
From Coq Require Import ZArith QArith Lqa Lia List.
From RP Require Import Gen.GenLib Gen.GenDiscount Model.Discount Spec.SpecDiscount.
Import ListNotations.
Open Scope Q_scope.

(* ---------- C19_regret_general ---------- *)

Lemma regret_general : forall drs acc,
  regret_run acc drs == acc * prodQ (map fst drs) + sum_regret drs.
Proof.
  induction drs as [ | [d r] rest IH ]; intros acc.
  - cbn [regret_run map prodQ sum_regret]. ring.
  - cbn [regret_run map prodQ sum_regret fst]. rewrite IH. unfold accumulate. ring.
Qed.

(* ---------- sum_regret as sum_s r_s * weight s ---------- *)

Lemma weight_cons_0 : forall x rest, weight (x :: rest) 0 = prodQ (map fst rest).
Proof. reflexivity. Qed.

Lemma weight_cons_S : forall x rest s, weight (x :: rest) (S s) = weight rest s.
Proof. reflexivity. Qed.

Lemma sumQ_map_ext : forall (A : Type) (f h : A -> Q) (l : list A),
  (forall x, In x l -> f x == h x) -> sumQ (map f l) == sumQ (map h l).
Proof.
  intros A f h l. induction l as [ | x r IH ]; intros Hfh.
  - reflexivity.
  - cbn [map sumQ]. rewrite (Hfh x) by (left; reflexivity).
    rewrite IH by (intros y Hy; apply Hfh; right; exact Hy). reflexivity.
Qed.

Lemma sum_regret_weighted : forall drs, sum_regret drs == sum_weighted drs.
Proof.
  induction drs as [ | [d r] rest IH ].
  - reflexivity.
  - unfold sum_weighted. cbn [length seq map sumQ sum_regret].
    rewrite <- seq_shift, map_map.
    rewrite IH. unfold sum_weighted.
    rewrite weight_cons_0. unfold regret_at at 1. cbn [nth snd].
    apply Qplus_comp; [ reflexivity | ].
    apply sumQ_map_ext. intros s Hs. rewrite weight_cons_S. unfold regret_at. cbn [nth].
    reflexivity.
Qed.

Lemma regret_weighted : forall acc drs,
  regret_run acc drs == acc * prodQ (map fst drs) + sum_weighted drs.
Proof.
  intros acc drs. rewrite regret_general, sum_regret_weighted. reflexivity.
Qed.

(* ---------- weights ---------- *)

Lemma Forall_skipn_nth : forall (A : Type) (Pr : A -> Prop) (def : A) (l : list A) (k : nat),
  (forall u, (k <= u < length l)%nat -> Pr (nth u l def)) -> Forall Pr (skipn k l).
Proof.
  intros A Pr def. induction l as [ | a l IH ]; intros k Hk.
  - rewrite skipn_nil. constructor.
  - destruct k as [ | k ].
    + cbn [skipn]. constructor.
      * apply (Hk 0%nat). cbn [length]. lia.
      * change l with (skipn 0 l). apply IH. intros u Hu.
        apply (Hk (S u)). cbn [length]. lia.
    + cbn [skipn]. apply IH. intros u Hu. apply (Hk (S u)). cbn [length]. lia.
Qed.

Lemma prodQ_range : forall l, Forall (fun d => 0 < d /\ d <= 1) l -> 0 < prodQ l /\ prodQ l <= 1.
Proof.
  intros l Hl. induction Hl as [ | d r [Hd0 Hd1] Hr [IH0 IH1] ].
  - cbn [prodQ]. split; lra.
  - cbn [prodQ]. split.
    + apply Qmult_lt_0_compat; assumption.
    + apply Qle_trans with (1 * prodQ r); [ | lra ].
      apply Qmult_le_compat_r; [ exact Hd1 | lra ].
Qed.

Lemma prodQ_ones : forall l, Forall (fun d => d == 1) l -> prodQ l == 1.
Proof.
  intros l Hl. induction Hl as [ | d r Hd Hr IH ].
  - reflexivity.
  - cbn [prodQ]. rewrite Hd, IH. ring.
Qed.

Lemma weight_factors : forall (Pr : Q -> Prop) (drs : list (Q * Q)) (s : nat),
  (forall u, (S s <= u < length drs)%nat -> Pr (factor_at drs u)) ->
  Forall Pr (map fst (skipn (S s) drs)).
Proof.
  intros Pr drs s Hu. rewrite Forall_map.
  apply (Forall_skipn_nth (Q * Q) (fun x => Pr (fst x)) (1, 0)). exact Hu.
Qed.

(* one more factor: weight s = d_(s+1) * weight (s+1) *)
Lemma weight_step : forall drs s, (S s < length drs)%nat ->
  weight drs s == factor_at drs (S s) * weight drs (S s).
Proof.
  induction drs as [ | x rest IH ]; intros s Hs.
  - cbn [length] in Hs. lia.
  - destruct s as [ | s ].
    + destruct rest as [ | y rest' ]; [ cbn [length] in Hs; lia | ].
      unfold weight, factor_at. cbn [skipn map prodQ nth]. reflexivity.
    + rewrite !weight_cons_S. unfold factor_at. cbn [nth].
      apply IH. cbn [length] in Hs. lia.
Qed.

Lemma weight_beyond : forall drs s, (length drs <= S s)%nat -> weight drs s = 1.
Proof.
  intros drs s Hs. unfold weight. rewrite skipn_all2 by exact Hs. reflexivity.
Qed.

Lemma weight_range : forall drs,
  (forall u, (1 <= u < length drs)%nat -> 0 < factor_at drs u /\ factor_at drs u <= 1) ->
  forall s, 0 < weight drs s /\ weight drs s <= 1.
Proof.
  intros drs Hd s. unfold weight. apply prodQ_range.
  apply (weight_factors (fun d => 0 < d /\ d <= 1)). intros u Hu. apply Hd. lia.
Qed.

Lemma weight_monotone : forall drs,
  (forall u, (1 <= u < length drs)%nat -> 0 < factor_at drs u /\ factor_at drs u <= 1) ->
  forall s, weight drs s <= weight drs (S s).
Proof.
  intros drs Hd s. destruct (Nat.lt_ge_cases (S s) (length drs)) as [ Hlt | Hge ].
  - rewrite (weight_step drs s Hlt).
    destruct (Hd (S s)) as [ Hf0 Hf1 ]; [ lia | ].
    destruct (weight_range drs Hd (S s)) as [ Hw0 Hw1 ].
    apply Qle_trans with (1 * weight drs (S s)); [ | lra ].
    apply Qmult_le_compat_r; [ exact Hf1 | lra ].
  - rewrite (weight_beyond drs s Hge), (weight_beyond drs (S s)) by lia. lra.
Qed.

Lemma weight_monotone_le : forall drs,
  (forall u, (1 <= u < length drs)%nat -> 0 < factor_at drs u /\ factor_at drs u <= 1) ->
  forall s s', (s <= s')%nat -> weight drs s <= weight drs s'.
Proof.
  intros drs Hd s s' Hss. induction Hss as [ | s' Hss IH ].
  - lra.
  - apply Qle_trans with (weight drs s'); [ exact IH | apply weight_monotone; exact Hd ].
Qed.

Lemma weight_after_phase : forall drs (P : nat),
  (forall u, (P <= u < length drs)%nat -> factor_at drs u == 1) ->
  forall s, (P <= S s)%nat -> weight drs s == 1.
Proof.
  intros drs P Hone s Hs. unfold weight. apply prodQ_ones.
  apply (weight_factors (fun d => d == 1)). intros u Hu. apply Hone. lia.
Qed.

(* the four claims together, with P abstract *)
Lemma regret_weights : forall (drs : list (Q * Q)) (P : nat),
  (forall u, (1 <= u < length drs)%nat -> 0 < factor_at drs u /\ factor_at drs u <= 1) ->
  sum_regret drs == sum_weighted drs /\
  (forall s, 0 < weight drs s /\ weight drs s <= 1) /\
  (forall s, weight drs s <= weight drs (S s)) /\
  ((forall u, (P <= u < length drs)%nat -> factor_at drs u == 1) ->
   forall s, (P <= S s)%nat -> weight drs s == 1).
Proof.
  intros drs P Hd. split; [ | split; [ | split ] ].
  - apply sum_regret_weighted.
  - apply weight_range. exact Hd.
  - apply weight_monotone. exact Hd.
  - intros Hone. apply weight_after_phase. exact Hone.
Qed.

(* ---------- the discount phase ---------- *)

Lemma in_discount_phase_false : forall u : Z,
  in_discount_phase u = false <-> (CFR_DISCOUNT_PHASE <= u)%Z.
Proof.
  intros u. unfold in_discount_phase. rewrite Z.ltb_ge. reflexivity.
Qed.

Lemma discount_phase_nonneg : (0 <= CFR_DISCOUNT_PHASE)%Z.
Proof. discriminate. Qed.

Lemma phase_nat : forall u : nat,
  (Z.to_nat CFR_DISCOUNT_PHASE <= u)%nat <-> in_discount_phase (Z.of_nat u) = false.
Proof.
  intros u. rewrite in_discount_phase_false. pose proof discount_phase_nonneg as Hp.
  generalize dependent CFR_DISCOUNT_PHASE. intros c Hc. lia.
Qed.

Lemma regret_phase : forall drs : list (Q * Q),
  (forall u, (u < length drs)%nat -> in_discount_phase (Z.of_nat u) = false -> factor_at drs u == 1) ->
  forall s, (s < length drs)%nat -> in_discount_phase (Z.of_nat (S s)) = false -> weight drs s == 1.
Proof.
  intros drs Hone s Hs Hph.
  apply (weight_after_phase drs (Z.to_nat CFR_DISCOUNT_PHASE)).
  - intros u Hu. apply Hone; [ lia | ]. apply phase_nat. lia.
  - apply phase_nat. exact Hph.
Qed.

(* once every factor is one the accumulated regret is a plain running sum *)
Lemma regret_run_undiscounted : forall drs acc,
  Forall (fun dr => fst dr == 1) drs -> regret_run acc drs == acc + sumQ (map snd drs).
Proof.
  induction drs as [ | [d r] rest IH ]; intros acc Hall.
  - cbn [regret_run map sumQ]. ring.
  - inversion Hall as [ | x l Hd Hrest ]; subst. cbn [fst] in Hd.
    cbn [regret_run map sumQ snd]. rewrite IH by exact Hrest.
    unfold accumulate. rewrite Hd. ring.
Qed.
