(* Proofs/C04_Layers.v -- the layers of the specification versus the slices of the algorithm:
   every slice (D, amt] served to strength b is a block of consecutive specification layers whose
   winner flags are exactly the algorithm's winners of that slice.  C04_best. *)
From Coq Require Import ZArith NArith List Bool Lia Sorted.
From RP Require Import Model.Showdown Spec.SpecPots Proofs.C04_Lists Proofs.C04_Loop Proofs.C04_Basic.
Import ListNotations.
Open Scope Z_scope.

(* ---------- levels: membership and strict order ---------- *)
Lemma insert_sorted_In : forall x l y, In y (insert_sorted x l) <-> y = x \/ In y l.
Proof.
  intros x l y. induction l as [|z l IH]; cbn [insert_sorted].
  - cbn [In]. intuition.
  - destruct (x <? z) eqn:H1.
    + cbn [In]. intuition.
    + destruct (x =? z) eqn:H2.
      * apply Z.eqb_eq in H2. subst z. cbn [In]. intuition.
      * cbn [In]. rewrite IH. intuition.
Qed.

Lemma insert_sorted_sorted : forall x l, StronglySorted Z.lt l -> StronglySorted Z.lt (insert_sorted x l).
Proof.
  intros x l H. induction H as [|z l Hs IH Hall]; cbn [insert_sorted].
  - constructor; constructor.
  - destruct (x <? z) eqn:H1.
    + apply Z.ltb_lt in H1. constructor.
      * constructor; assumption.
      * constructor; [exact H1|]. rewrite Forall_forall in Hall |- *. intros y Hy. specialize (Hall y Hy). lia.
    + apply Z.ltb_ge in H1. destruct (x =? z) eqn:H2.
      * constructor; assumption.
      * apply Z.eqb_neq in H2. constructor; [exact IH|].
        rewrite Forall_forall in Hall |- *. intros y Hy. apply insert_sorted_In in Hy.
        destruct Hy as [->|Hy]; [lia|apply Hall; exact Hy].
Qed.

Lemma levels_sorted : forall l, StronglySorted Z.lt (levels l).
Proof.
  intros l. unfold levels. induction (filter (fun r => 0 <? r) (map risked (contesting l))) as [|x xs IH].
  - constructor.
  - cbn [fold_right]. apply insert_sorted_sorted. exact IH.
Qed.

Lemma levels_In : forall l x,
  In x (levels l) <-> (0 < x /\ exists p, In p l /\ nonfold p = true /\ risked p = x).
Proof.
  intros l x. unfold levels.
  assert (forall xs, In x (fold_right insert_sorted [] xs) <-> In x xs) as Hfold.
  { induction xs as [|y xs IH]; cbn [fold_right]; [reflexivity|].
    rewrite insert_sorted_In, IH. cbn [In]. intuition. }
  rewrite Hfold. rewrite filter_In, in_map_iff. unfold contesting. split.
  - intros [[p [Hr Hp]] Hpos]. apply filter_In in Hp. destruct Hp as [Hp Hnf]. apply Z.ltb_lt in Hpos.
    split; [exact Hpos|]. exists p. repeat split; assumption.
  - intros [Hpos [p [Hp [Hnf Hr]]]]. split.
    + exists p. split; [exact Hr|]. apply filter_In. split; assumption.
    + apply Z.ltb_lt. exact Hpos.
Qed.

Lemma filter_all_id : forall (A : Type) (f : A -> bool) (l : list A),
  (forall x, In x l -> f x = true) -> filter f l = l.
Proof.
  intros A f l. induction l as [|x l IH]; intros H; [reflexivity|].
  cbn [filter]. rewrite (H x (or_introl eq_refl)). f_equal. apply IH. intros y Hy. apply H. right. exact Hy.
Qed.

Lemma sorted_filter : forall (f : Z -> bool) (s : list Z),
  StronglySorted Z.lt s -> StronglySorted Z.lt (filter f s).
Proof.
  intros f s H. induction H as [|z s Hs IH Hall]; [constructor|].
  cbn [filter]. destruct (f z); [|exact IH]. constructor; [exact IH|].
  rewrite Forall_forall in Hall |- *. intros y Hy. apply filter_In in Hy. apply Hall. apply Hy.
Qed.

Lemma sorted_split : forall (a : Z) (s : list Z), StronglySorted Z.lt s ->
  s = filter (fun x => x <=? a) s ++ filter (fun x => a <? x) s.
Proof.
  intros a s H. induction H as [|z s Hs IH Hall]; [reflexivity|].
  cbn [filter]. destruct (z <=? a) eqn:H1.
  - assert (a <? z = false) as -> by (apply Z.leb_le in H1; apply Z.ltb_ge; lia).
    cbn [app]. f_equal. exact IH.
  - apply Z.leb_gt in H1. assert (a <? z = true) as -> by (apply Z.ltb_lt; lia).
    assert (filter (fun x => x <=? a) s = []) as ->.
    { apply filter_nil_iff. intros y Hy. rewrite Forall_forall in Hall. specialize (Hall y Hy).
      apply Z.leb_gt. lia. }
    cbn [app]. f_equal.
    symmetry. apply filter_all_id.
    rewrite Forall_forall in Hall. intros y Hy. specialize (Hall y Hy). apply Z.ltb_lt. lia.
Qed.

Lemma sorted_last : forall (s : list Z) (a d : Z), StronglySorted Z.lt s ->
  In a s -> (forall x, In x s -> x <= a) -> last s d = a.
Proof.
  intros s a d H. revert d. induction H as [|z s Hs IH Hall]; intros d Hin Hmax; [destruct Hin|].
  destruct s as [|y s'].
  - destruct Hin as [->|[]]. reflexivity.
  - change (last (z :: y :: s') d) with (last (y :: s') d). apply IH.
    + destruct Hin as [->|Hin]; [|exact Hin]. exfalso.
      rewrite Forall_forall in Hall. specialize (Hall y (or_introl eq_refl)).
      specialize (Hmax y (or_intror (or_introl eq_refl))). lia.
    + intros x Hx. apply Hmax. right. exact Hx.
Qed.

Definition mid_levels (l : list pay) (D amt : Z) : list Z :=
  filter (fun x => (D <? x) && (x <=? amt)) (levels l).

Lemma levels_step : forall l D amt, D < amt -> In amt (levels l) ->
  filter (fun x => D <? x) (levels l) = mid_levels l D amt ++ filter (fun x => amt <? x) (levels l)
  /\ last (mid_levels l D amt) D = amt
  /\ mid_levels l D amt <> []
  /\ (forall hi, In hi (mid_levels l D amt) -> D < hi <= amt /\ In hi (levels l)).
Proof.
  intros l D amt Hlt Hin. unfold mid_levels.
  assert (forall hi, In hi (filter (fun x => (D <? x) && (x <=? amt)) (levels l)) -> D < hi <= amt /\ In hi (levels l)) as Hmid.
  { intros hi Hhi. apply filter_In in Hhi. destruct Hhi as [Hl Hb]. apply andb_prop in Hb.
    destruct Hb as [H1 H2]. apply Z.ltb_lt in H1. apply Z.leb_le in H2. split; [lia|exact Hl]. }
  assert (In amt (filter (fun x => (D <? x) && (x <=? amt)) (levels l))) as Hamt.
  { apply filter_In. split; [exact Hin|]. apply andb_true_intro. split; [apply Z.ltb_lt|apply Z.leb_le]; lia. }
  split; [|split; [|split]].
  - rewrite (sorted_split amt (levels l) (levels_sorted l)) at 1. rewrite filter_app, !filter_filter. f_equal.
    + apply filter_ext. intros x. apply andb_comm.
    + apply filter_ext. intros x. destruct (amt <? x) eqn:H1; [|reflexivity].
      apply Z.ltb_lt in H1. cbn [andb]. apply Z.ltb_lt. lia.
  - apply sorted_last.
    + apply sorted_filter. apply levels_sorted.
    + exact Hamt.
    + intros x Hx. apply Hmid in Hx. lia.
  - intros E. rewrite E in Hamt. destruct Hamt.
  - exact Hmid.
Qed.

(* ---------- winner flags ---------- *)
Lemma count_true_map : forall (f : pay -> bool) l, count_true (map f l) = Z.of_nat (length (filter f l)).
Proof.
  intros f l. unfold count_true. f_equal. induction l as [|p l IH]; [reflexivity|].
  cbn [map filter]. destruct (f p); cbn [length]; rewrite IH; reflexivity.
Qed.

Lemma nth_map_strip : forall (f : pay -> bool) ps i p, (forall x, f (strip x) = f x) ->
  nth_error ps i = Some p -> nth i (map f (map strip ps)) false = f p.
Proof.
  intros f ps i p Hf. revert i. induction ps as [|x ps IH]; intros i Hi.
  - destruct i; discriminate.
  - destruct i as [|i]; cbn [nth_error] in Hi; cbn [map nth].
    + injection Hi as ->. apply Hf.
    + apply IH. exact Hi.
Qed.

Section Layers.
  Variable l : list pay.

  (* the layers inside the slice (D, amt] of strength b all have the winners of that slice *)
  Lemma layer_winners_slice : forall D b amt hi,
    (forall p, In p l -> nonfold p = true -> (b < skey p)%N -> risked p <= D) ->
    (exists q, In q l /\ wset D b q = true /\ risked q = amt) ->
    (forall p, In p l -> wset D b p = true -> amt <= risked p) ->
    D < hi <= amt ->
    layer_winners l hi = map (wset D b) l.
  Proof.
    intros D b amt hi Hab [q [Hq [Hwq Hrq]]] Hmin Hhi.
    unfold wset in Hwq. apply andb_prop in Hwq. destruct Hwq as [Hwq Hq3].
    apply andb_prop in Hwq. destruct Hwq as [Hq1 Hq2]. apply N.eqb_eq in Hq2.
    assert (maxN (map skey (filter (eligible hi) l)) = Some b) as Hmax.
    { apply maxN_Some. split.
      - rewrite <- Hq2. apply in_map. apply filter_In. split; [exact Hq|].
        unfold eligible. fold (nonfold q). rewrite Hq1. cbn [andb]. apply Z.leb_le. lia.
      - intros x Hx. apply in_map_iff in Hx. destruct Hx as [p [<- Hp]].
        apply filter_In in Hp. destruct Hp as [Hp He]. unfold eligible in He. fold (nonfold p) in He.
        apply andb_prop in He. destruct He as [He1 He2]. apply Z.leb_le in He2.
        destruct (N.le_gt_cases (skey p) b) as [Hle|Hgt]; [exact Hle|].
        specialize (Hab p Hp He1 Hgt). lia. }
    unfold layer_winners. rewrite Hmax. apply map_ext_in. intros p Hp.
    unfold eligible, wset. fold (nonfold p).
    destruct (nonfold p) eqn:Hnf; [|reflexivity].
    destruct (N.eqb (skey p) b) eqn:Hk; [|cbn [andb]; apply andb_false_r].
    cbn [andb]. rewrite andb_true_r.
    destruct (D <? risked p) eqn:H1.
    - apply Z.leb_le. assert (amt <= risked p); [|lia]. apply Hmin; [exact Hp|].
      unfold wset. rewrite Hnf, Hk, H1. reflexivity.
    - apply Z.ltb_ge in H1. apply Z.leb_gt. lia.
  Qed.

  Hypothesis Hwf : wf_ledger l = true.

  (* facts about a slice, in terms of the specification *)
  Lemma slice_layers : forall ps D b amt c n sh bo,
    Binv l ps D (Some b) -> slice_facts l ps D amt b c n sh bo ->
    In amt (levels l) /\
    (forall hi, D < hi <= amt -> layer_winners l hi = map (wset D b) l) /\
    count_true (map (wset D b) l) = Z.of_nat (length (cands l D b)).
  Proof.
    intros ps D b amt c n sh bo HB SF.
    destruct SF as [Hlt [q [Hq [Hwq Hrq]]] Hmn Hc Hn Heq Hsh0 Hbo Hcpos].
    split; [|split].
    - apply levels_In. split; [pose proof (B_pos _ _ _ _ HB); lia|].
      exists q. split; [exact Hq|]. split; [|exact Hrq].
      unfold wset in Hwq. destruct (nonfold q); [reflexivity|discriminate].
    - intros hi Hhi. apply (layer_winners_slice D b amt hi); try assumption.
      + intros p Hp Hnf Hgt. apply (B_above _ _ _ _ HB p Hp Hnf). exact Hgt.
      + exists q. repeat split; assumption.
    - apply count_true_map.
  Qed.

  (* ---------- invariant for C04_best ---------- *)
  Definition Linv (ps : list pay) : Prop :=
    forall i p, nth_error ps i = Some p -> 0 < reward p ->
    exists hi, In hi (levels l) /\ nth i (layer_winners l hi) false = true.

  Lemma Linv_init : Forall (fun p => reward p = 0) l -> Linv l.
  Proof.
    intros H0 i p Hi Hr. rewrite Forall_forall in H0.
    rewrite (H0 p) in Hr; [lia|]. apply nth_error_In in Hi. exact Hi.
  Qed.

  Lemma Linv_step : forall ps D b amt,
    Binv l ps D (Some b) -> Linv ps -> minZ (map risked (cands ps D b)) = Some amt ->
    Linv (slice_pays ps D amt b).
  Proof.
    intros ps D b amt HB HL Hmin i p' Hi Hr.
    pose proof (slice_facts_intro l ps D b amt (B_shape _ _ _ _ HB) (B_pos _ _ _ _ HB) Hmin) as SF.
    destruct (slice_layers _ _ _ _ _ _ _ _ HB SF) as [Hamt [Hlw _]].
    unfold slice_pays in Hi.
    destruct (Forall2_nth_error_r _ _ _ _ _ _ _ (give_Forall2 ps (mkSd ps amt D (Some b)) _ _) Hi)
      as [p [Hp [Hst [Hno Hyes]]]].
    destruct (is_winner (mkSd ps amt D (Some b)) p) eqn:Hw.
    - exists amt. split; [exact Hamt|]. rewrite Hlw by (destruct SF; lia).
      rewrite <- (B_shape _ _ _ _ HB). rewrite (nth_map_strip (wset D b) ps i p); [|reflexivity|exact Hp].
      exact Hw.
    - rewrite (Hno eq_refl) in Hr. apply (HL i p Hp Hr).
  Qed.
End Layers.
