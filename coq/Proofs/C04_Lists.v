(* Proofs/C04_Lists.v -- list, sum, min, max lemmas used by the showdown proofs (C04). *)
From Coq Require Import ZArith NArith List Bool Lia.
From RP Require Import Model.Showdown.
Import ListNotations.
Open Scope Z_scope.

(* ---------- sumZ ---------- *)
Lemma fold_add_acc : forall (l : list Z) (a : Z), fold_left Z.add l a = a + fold_left Z.add l 0.
Proof.
  induction l as [|x l IH]; intros a; cbn [fold_left].
  - lia.
  - rewrite IH. rewrite (IH (0 + x)). lia.
Qed.

Lemma sumZ_nil : sumZ [] = 0.
Proof. reflexivity. Qed.

Lemma sumZ_cons : forall x l, sumZ (x :: l) = x + sumZ l.
Proof. intros x l. unfold sumZ. cbn [fold_left]. rewrite fold_add_acc. lia. Qed.

Lemma sumZ_app : forall l1 l2, sumZ (l1 ++ l2) = sumZ l1 + sumZ l2.
Proof.
  induction l1 as [|x l1 IH]; intros l2; cbn [app].
  - rewrite sumZ_nil. lia.
  - rewrite !sumZ_cons, IH. lia.
Qed.

Lemma sumZ_map_le : forall (A : Type) (f g : A -> Z) (l : list A),
  (forall x, In x l -> f x <= g x) -> sumZ (map f l) <= sumZ (map g l).
Proof.
  intros A f g l. induction l as [|x l IH]; intros H; cbn [map].
  - lia.
  - rewrite !sumZ_cons. assert (f x <= g x) by (apply H; left; reflexivity).
    assert (sumZ (map f l) <= sumZ (map g l)) by (apply IH; intros y Hy; apply H; right; exact Hy).
    lia.
Qed.

Lemma sumZ_map_ext : forall (A : Type) (f g : A -> Z) (l : list A),
  (forall x, In x l -> f x = g x) -> sumZ (map f l) = sumZ (map g l).
Proof.
  intros A f g l H. f_equal. apply map_ext_in. exact H.
Qed.

Lemma sumZ_map_add : forall (A : Type) (f g : A -> Z) (l : list A),
  sumZ (map (fun x => f x + g x) l) = sumZ (map f l) + sumZ (map g l).
Proof.
  intros A f g l. induction l as [|x l IH]; cbn [map].
  - reflexivity.
  - rewrite !sumZ_cons, IH. lia.
Qed.

Lemma sumZ_map_nonneg : forall (A : Type) (f : A -> Z) (l : list A),
  (forall x, In x l -> 0 <= f x) -> 0 <= sumZ (map f l).
Proof.
  intros A f l. induction l as [|x l IH]; intros H; cbn [map].
  - rewrite sumZ_nil. lia.
  - rewrite sumZ_cons. assert (0 <= f x) by (apply H; left; reflexivity).
    assert (0 <= sumZ (map f l)) by (apply IH; intros y Hy; apply H; right; exact Hy). lia.
Qed.

Lemma sumZ_map_In_le : forall (A : Type) (f : A -> Z) (l : list A) (a : A),
  (forall x, In x l -> 0 <= f x) -> In a l -> f a <= sumZ (map f l).
Proof.
  intros A f l a. induction l as [|x l IH]; intros Hnn Hin.
  - destruct Hin.
  - cbn [map]. rewrite sumZ_cons.
    assert (0 <= f x) by (apply Hnn; left; reflexivity).
    assert (0 <= sumZ (map f l)) by (apply sumZ_map_nonneg; intros y Hy; apply Hnn; right; exact Hy).
    destruct Hin as [->|Hin].
    + lia.
    + assert (f a <= sumZ (map f l)) by (apply IH; [intros y Hy; apply Hnn; right; exact Hy|exact Hin]). lia.
Qed.

(* ---------- maxN / minZ ---------- *)
Lemma fold_max_spec : forall (l : list N) (a : N),
  (In (fold_left N.max l a) (a :: l)) /\ (forall x, In x (a :: l) -> (x <= fold_left N.max l a)%N).
Proof.
  induction l as [|y l IH]; intros a; cbn [fold_left].
  - split; [left; reflexivity|]. intros x [->|[]]. lia.
  - destruct (IH (N.max a y)) as [Hin Hle]. split.
    + destruct Hin as [Hin|Hin].
      * rewrite <- Hin. destruct (N.max_spec a y) as [[_ ->]|[_ ->]]; [right; left|left]; reflexivity.
      * right; right; exact Hin.
    + intros x Hx.
      assert (N.max a y <= fold_left N.max l (N.max a y))%N as Hm by (apply Hle; left; reflexivity).
      destruct Hx as [->|[->|Hx]].
      * lia.
      * lia.
      * apply Hle. right. exact Hx.
Qed.

Lemma maxN_Some : forall (l : list N) (b : N),
  maxN l = Some b <-> (In b l /\ forall x, In x l -> (x <= b)%N).
Proof.
  intros l b. destruct l as [|a l]; cbn [maxN].
  - split; [discriminate|]. intros [[] _].
  - destruct (fold_max_spec l a) as [Hin Hle]. split.
    + intros H. injection H as <-. split; assumption.
    + intros [Hb Hall]. f_equal.
      assert (fold_left N.max l a <= b)%N by (apply Hall; exact Hin).
      assert (b <= fold_left N.max l a)%N by (apply Hle; exact Hb). lia.
Qed.

Lemma maxN_None : forall (l : list N), maxN l = None <-> l = [].
Proof. intros [|a l]; cbn [maxN]; split; intros H; try reflexivity; discriminate. Qed.

Lemma fold_min_spec : forall (l : list Z) (a : Z),
  (In (fold_left Z.min l a) (a :: l)) /\ (forall x, In x (a :: l) -> fold_left Z.min l a <= x).
Proof.
  induction l as [|y l IH]; intros a; cbn [fold_left].
  - split; [left; reflexivity|]. intros x [->|[]]. lia.
  - destruct (IH (Z.min a y)) as [Hin Hle]. split.
    + destruct Hin as [Hin|Hin].
      * rewrite <- Hin. destruct (Z.min_spec a y) as [[_ ->]|[_ ->]]; [left|right; left]; reflexivity.
      * right; right; exact Hin.
    + intros x Hx.
      assert (fold_left Z.min l (Z.min a y) <= Z.min a y) as Hm by (apply Hle; left; reflexivity).
      destruct Hx as [->|[->|Hx]].
      * lia.
      * lia.
      * apply Hle. right. exact Hx.
Qed.

Lemma minZ_Some : forall (l : list Z) (b : Z),
  minZ l = Some b <-> (In b l /\ forall x, In x l -> b <= x).
Proof.
  intros l b. destruct l as [|a l]; cbn [minZ].
  - split; [discriminate|]. intros [[] _].
  - destruct (fold_min_spec l a) as [Hin Hle]. split.
    + intros H. injection H as <-. split; assumption.
    + intros [Hb Hall]. f_equal.
      assert (b <= fold_left Z.min l a) by (apply Hall; exact Hin).
      assert (fold_left Z.min l a <= b) by (apply Hle; exact Hb). lia.
Qed.

Lemma minZ_None : forall (l : list Z), minZ l = None <-> l = [].
Proof. intros [|a l]; cbn [minZ]; split; intros H; try reflexivity; discriminate. Qed.

Lemma fold_maxZ_spec : forall (l : list Z) (a : Z),
  (In (fold_left Z.max l a) (a :: l)) /\ (forall x, In x (a :: l) -> x <= fold_left Z.max l a).
Proof.
  induction l as [|y l IH]; intros a; cbn [fold_left].
  - split; [left; reflexivity|]. intros x [->|[]]. lia.
  - destruct (IH (Z.max a y)) as [Hin Hle]. split.
    + destruct Hin as [Hin|Hin].
      * rewrite <- Hin. destruct (Z.max_spec a y) as [[_ ->]|[_ ->]]; [right; left|left]; reflexivity.
      * right; right; exact Hin.
    + intros x Hx.
      assert (Z.max a y <= fold_left Z.max l (Z.max a y)) as Hm by (apply Hle; left; reflexivity).
      destruct Hx as [->|[->|Hx]].
      * lia.
      * lia.
      * apply Hle. right. exact Hx.
Qed.

(* ---------- filter ---------- *)
Lemma filter_filter : forall (A : Type) (f g : A -> bool) (l : list A),
  filter f (filter g l) = filter (fun x => g x && f x) l.
Proof.
  intros A f g l. induction l as [|x l IH]; cbn [filter].
  - reflexivity.
  - destruct (g x); cbn [filter andb].
    + destruct (f x); rewrite IH; reflexivity.
    + exact IH.
Qed.

Lemma filter_nil_iff : forall (A : Type) (f : A -> bool) (l : list A),
  filter f l = [] <-> (forall x, In x l -> f x = false).
Proof.
  intros A f l. induction l as [|x l IH]; cbn [filter].
  - split; [intros _ y []|reflexivity].
  - destruct (f x) eqn:Hfx.
    + split; [discriminate|]. intros H. rewrite (H x) in Hfx; [discriminate|left; reflexivity].
    + rewrite IH. split.
      * intros H y [<-|Hy]; [exact Hfx|apply H; exact Hy].
      * intros H y Hy. apply H. right. exact Hy.
Qed.

Lemma filter_length_le : forall (A : Type) (f : A -> bool) (l : list A), (length (filter f l) <= length l)%nat.
Proof.
  intros A f l. induction l as [|x l IH]; cbn [filter length]; [lia|].
  destruct (f x); cbn [length]; lia.
Qed.

(* a filter that keeps strictly fewer elements *)
Lemma filter_length_lt : forall (A : Type) (f g : A -> bool) (l : list A) (a : A),
  (forall x, In x l -> g x = true -> f x = true) -> In a l -> f a = true -> g a = false ->
  (length (filter g l) < length (filter f l))%nat.
Proof.
  intros A f g l a. induction l as [|x l IH]; intros Himp Hin Hfa Hga.
  - destruct Hin.
  - cbn [filter].
    assert (length (filter g l) <= length (filter f l))%nat as Hle.
    { clear IH Hin. induction l as [|y l IHl]; cbn [filter length]; [lia|].
      assert (length (filter g l) <= length (filter f l))%nat as Hr.
      { apply IHl. intros z [->|Hz] Hg; apply Himp; try exact Hg; [left; reflexivity|right; right; exact Hz]. }
      destruct (g y) eqn:Hgy.
      - rewrite (Himp y); [cbn [length]; lia|right; left; reflexivity|exact Hgy].
      - destruct (f y); cbn [length]; lia. }
    destruct Hin as [->|Hin].
    + rewrite Hfa, Hga. cbn [length]. lia.
    + assert (length (filter g l) < length (filter f l))%nat as Hlt.
      { apply IH; try assumption. intros z Hz Hg. apply Himp; [right; exact Hz|exact Hg]. }
      destruct (g x) eqn:Hgx.
      * rewrite (Himp x); [cbn [length]; lia|left; reflexivity|exact Hgx].
      * destruct (f x); cbn [length]; lia.
Qed.
