(* Proofs/C06_Count.v -- number of free cards; Observation::children (theorem 5). *)
From Coq Require Import NArith ZArith List Bool Lia ZifyBool ZifyN ZifyNat Sorted.
From RP Require Import Base.Bits Gen.GenCards Gen.GenStreet Model.Codec Model.Hands.
From RP Require Import Spec.SpecCodec Spec.SpecIsoWf Spec.SpecCombs Spec.SpecIter.
From RP Require Import Proofs.BitsLemmas Proofs.C15_Hand Proofs.C06_Cat Proofs.C06_Gosper Proofs.C06_Fuel
  Proofs.C06_Combs Proofs.C06_Iter Proofs.C06_Hands Proofs.C06_Main.
Import ListNotations.
Open Scope N_scope.

Arguments N.add : simpl never.
Arguments N.mul : simpl never.
Arguments N.sub : simpl never.
Arguments N.shiftl : simpl never.
Arguments N.shiftr : simpl never.
Arguments N.land : simpl never.
Arguments N.lor : simpl never.
Arguments N.lxor : simpl never.
Arguments N.pow : simpl never.
Arguments N.testbit : simpl never.

Lemma pc_add_disjoint : forall n a b, a < 2 ^ n -> b < 2 ^ n -> N.land a b = 0 -> pc (a + b) = pc a + pc b.
Proof.
  induction n as [|n IH] using N.peano_ind; intros a b Ha Hb Hd.
  - change (2 ^ 0) with 1 in *. assert (a = 0) by lia. assert (b = 0) by lia. subst. reflexivity.
  - rewrite <- N.add_1_r in *. rewrite pow2_succ in *.
    pose proof (N.div_mod a 2 ltac:(discriminate)) as Hdma.
    pose proof (N.div_mod b 2 ltac:(discriminate)) as Hdmb.
    assert (Ha0 : a mod 2 < 2) by (apply N.mod_lt; discriminate).
    assert (Hb0 : b mod 2 < 2) by (apply N.mod_lt; discriminate).
    assert (H0 : N.testbit (N.land a b) 0 = false) by (rewrite Hd; apply N.bits_0).
    rewrite N.land_spec in H0.
    pose proof (N.bit0_mod a) as Ba. pose proof (N.bit0_mod b) as Bb.
    assert (Hd' : N.land (a / 2) (b / 2) = 0).
    { change 2 with (2 ^ 1). rewrite <- !N.shiftr_div_pow2, <- N.shiftr_land, Hd. apply N.shiftr_0_l. }
    set (a0 := a mod 2) in *. set (b0 := b mod 2) in *. set (a' := a / 2) in *. set (b' := b / 2) in *.
    assert (Hsum : a0 + b0 < 2).
    { destruct (N.testbit a 0), (N.testbit b 0); cbn in Ba, Bb, H0; try discriminate; lia. }
    replace (a + b) with ((a0 + b0) + 2 * (a' + b')) by lia.
    rewrite pc_bit_add by exact Hsum.
    rewrite (IH a' b') by (try assumption; lia).
    assert (Ea : pc a = a0 + pc a') by (rewrite <- (pc_bit_add a0 a' Ha0); f_equal; lia).
    assert (Eb : pc b = b0 + pc b') by (rewrite <- (pc_bit_add b0 b' Hb0); f_equal; lia).
    lia.
Qed.

Lemma hand_size_lor_disjoint : forall a b, a < 2 ^ 52 -> b < 2 ^ 52 -> N.land a b = 0 ->
  hand_size (N.lor a b) = hand_size a + hand_size b.
Proof.
  intros a b Ha Hb Hd. unfold hand_size.
  rewrite !popcount64_pc by (try apply pow2_52_64; try apply lor_lt_pow2; assumption).
  rewrite lor_add_disjoint by exact Hd. apply (pc_add_disjoint 52); assumption.
Qed.

Lemma free_split : forall d mask, wf_mask d mask ->
  N.lor mask (free_cards d mask) = hand_mask d /\ N.land mask (free_cards d mask) = 0.
Proof.
  intros d mask Hm. split; apply N.bits_inj; intros i.
  - rewrite N.lor_spec, testbit_free, testbit_hand_mask.
    pose proof (mask_in_deck d mask Hm i) as H.
    destruct (N.testbit mask i), (in_deck d i); try reflexivity. discriminate (H eq_refl).
  - rewrite N.land_spec, testbit_free, N.bits_0.
    destruct (N.testbit mask i), (in_deck d i); reflexivity.
Qed.

Lemma n_free_eq : forall d mask, wf_mask d mask ->
  n_free d mask = (deck_size d - N.to_nat (hand_size mask))%nat.
Proof.
  intros d mask Hm. destruct (free_split d mask Hm) as [Hl Hd].
  pose proof (hand_size_lor_disjoint mask (free_cards d mask) (mask_lt d mask Hm) (free_cards_lt d mask) Hd) as Hs.
  rewrite Hl in Hs. unfold deck_size. fold (hand_size (hand_mask d)). rewrite Hs.
  rewrite (hand_size_length (free_cards d mask)). unfold n_free. lia.
Qed.

Lemma deck_size_val : forall d, deck_size d = match d with Standard => 52%nat | Short => 36%nat end.
Proof. intros [|]; vm_compute; reflexivity. Qed.

Lemma choose_pos : forall n k, (k <= n)%nat -> 0 < choose n k.
Proof.
  induction n as [|n IH]; intros k Hk.
  - assert (k = 0%nat) by lia. subst k. cbn. lia.
  - destruct k as [|j]; [cbn; lia|]. cbn [choose].
    assert (0 < choose n j) by (apply IH; lia). lia.
Qed.

(* ---------- theorem 5: Observation::children ---------- *)
Lemma wf_mask_lor : forall d a b, wf_mask d a -> wf_mask d b -> wf_mask d (N.lor a b).
Proof. intros d a b Ha Hb. unfold wf_mask in *. rewrite N.land_lor_distr_l, Ha, Hb. reflexivity. Qed.

Lemma street_cases : forall o s n, wf_obs o -> obs_street o = Some s -> n_revealed_of s = Some n ->
  (hand_size (public o) = 0 /\ n = 3) \/ (hand_size (public o) = 3 /\ n = 1) \/ (hand_size (public o) = 4 /\ n = 1).
Proof.
  intros o s n (_ & _ & _ & _ & Hsz) Hs Hn. unfold obs_street in Hs.
  destruct Hsz as [E | [E | [E | E]]]; rewrite E in Hs; vm_compute in Hs; inversion Hs; subst s;
    vm_compute in Hn; inversion Hn; subst; auto.
Qed.

Lemma children_enum : forall d o s n, wf_obs_d d o -> obs_street o = Some s -> n_revealed_of s = Some n ->
  let removed := N.lor (pocket o) (public o) in
  let l := spec_hands d (N.to_nat n) removed in
  exists it, hand_iter d n removed = Some it /\ hands_all d it l /\
    N.of_nat (length l) = n_children d (N.to_nat (hand_size (pocket o) + hand_size (public o))) (N.to_nat n) /\
    Forall (fun h => hand_add (public o) h = Some (N.lor (public o) h) /\
                     obs_from_parts (pocket o) (N.lor (public o) h) = Some (mkObs (pocket o) (N.lor (public o) h)) /\
                     N.land h removed = 0 /\ hand_size h = n) l.
Proof.
  intros d o s n (Hwf & Hpk & Hpb) Hs Hn removed l.
  pose proof (street_cases o s n Hwf Hs Hn) as Hcases.
  destruct Hwf as (Hpk52 & Hpb52 & Hdisj & Hsz2 & Hszp).
  assert (Hrm : wf_mask d removed) by (apply wf_mask_lor; assumption).
  assert (Hn13 : (1 <= N.to_nat n <= 8)%nat) by lia.
  destruct (hands_enum d removed (N.to_nat n) Hrm Hn13) as (it & E & Hall).
  rewrite N2Nat.id in E.
  exists it. split; [exact E|]. split; [exact Hall|]. split.
  - unfold l. rewrite spec_hands_length, (n_free_eq d removed Hrm). unfold n_children.
    unfold removed. rewrite hand_size_lor_disjoint by assumption. reflexivity.
  - apply Forall_forall. intros h Hh. unfold l in Hh. apply spec_hands_in in Hh.
    destruct Hh as (Hpc & Hh52 & Hdis).
    assert (Hhr : N.land h removed = 0).
    { apply N.bits_inj. intros i. rewrite N.bits_0.
      assert (Hb : N.testbit (N.land h (iter_mask d removed)) i = false) by (rewrite Hdis; apply N.bits_0).
      rewrite N.land_spec, testbit_iter_mask in Hb. rewrite N.land_spec.
      destruct d; [exact Hb|]. destruct (N.testbit h i); [|reflexivity].
      cbn [andb] in *. apply orb_false_iff in Hb. tauto. }
    assert (Hhp : N.land (public o) h = 0).
    { apply N.bits_inj. intros i. rewrite N.bits_0.
      assert (Hb : N.testbit (N.land h removed) i = false) by (rewrite Hhr; apply N.bits_0).
      unfold removed in Hb. rewrite N.land_spec, N.lor_spec in Hb. rewrite N.land_spec.
      destruct (N.testbit h i), (N.testbit (public o) i); try reflexivity.
      rewrite orb_true_r in Hb. discriminate. }
    assert (Hhs : hand_size h = n).
    { unfold hand_size. rewrite popcount64_pc by (apply pow2_52_64; exact Hh52). lia. }
    split; [unfold hand_add; rewrite Hhp; reflexivity|]. split; [|split; assumption].
    unfold obs_from_parts. rewrite hand_size_lor_disjoint by assumption. rewrite Hsz2, Hhs.
    destruct Hcases as [[E1 E2] | [[E1 E2] | [E1 E2]]]; rewrite E1, E2; reflexivity.
Qed.
