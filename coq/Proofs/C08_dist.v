(* Proofs/C08_dist.v -- finite distributions over Q (Spec/SpecSampling.v): linearity of the expectation,
   image / scaled / concatenated distributions, Fubini for the independent product, supports. *)
From Coq Require Import NArith QArith List Bool Lia Lqa Field Qfield Setoid Morphisms.
From RP Require Import Model.Cfr Spec.SpecCfr Spec.SpecSampling Proofs.C08_base.
Import ListNotations.
Open Scope Q_scope.

(* ---------- sumQ ---------- *)
Lemma sumQ_cons : forall x l, sumQ (x :: l) = x + sumQ l.
Proof. reflexivity. Qed.

Lemma sumQ_qsum : forall l, sumQ l = qsum l.
Proof. induction l as [|x l IH]; [reflexivity|]. rewrite sumQ_cons, IH. reflexivity. Qed.

Lemma sigma_sum_sumQ : forall ch, sigma_sum ch = sumQ (map prob ch).
Proof. intros ch. rewrite sigma_sum_qsum. symmetry. exact (sumQ_qsum (map prob ch)). Qed.

(* ---------- expectation: unfolding ---------- *)
Section Expect.
Context {A : Type}.

Lemma expect_nil : forall (f : A -> Q), expect f [] = 0.
Proof. reflexivity. Qed.

Lemma expect_cons : forall (f : A -> Q) pa d, expect f (pa :: d) = fst pa * f (snd pa) + expect f d.
Proof. reflexivity. Qed.

Lemma total_nil : total (@nil (Q * A)) = 0.
Proof. reflexivity. Qed.

Lemma total_cons : forall (pa : Q * A) d, total (pa :: d) = fst pa + total d.
Proof. reflexivity. Qed.

Lemma expect_app : forall (f : A -> Q) d1 d2, expect f (d1 ++ d2) == expect f d1 + expect f d2.
Proof.
  intros f d1 d2. induction d1 as [|pa d1 IH]; cbn [app].
  - rewrite expect_nil. ring.
  - rewrite !expect_cons, IH. ring.
Qed.

Lemma expect_ext_in : forall (f g : A -> Q) d,
  (forall p a, In (p, a) d -> f a == g a) -> expect f d == expect g d.
Proof.
  intros f g d. induction d as [|[p a] d IH]; intros H.
  - reflexivity.
  - rewrite !expect_cons. cbn [fst snd]. rewrite (H p a (or_introl eq_refl)). rewrite IH.
    + reflexivity.
    + intros p' a' Hin. apply (H p' a'). right. exact Hin.
Qed.

Lemma expect_ext : forall (f g : A -> Q) d, (forall a, f a == g a) -> expect f d == expect g d.
Proof. intros f g d H. apply expect_ext_in. intros p a _. apply H. Qed.

Lemma expect_plus : forall (f g : A -> Q) d, expect (fun a => f a + g a) d == expect f d + expect g d.
Proof.
  intros f g d. induction d as [|pa d IH].
  - rewrite !expect_nil. ring.
  - rewrite !expect_cons, IH. ring.
Qed.

Lemma expect_minus : forall (f g : A -> Q) d, expect (fun a => f a - g a) d == expect f d - expect g d.
Proof.
  intros f g d. induction d as [|pa d IH].
  - rewrite !expect_nil. ring.
  - rewrite !expect_cons, IH. ring.
Qed.

Lemma expect_scale : forall c (f : A -> Q) d, expect (fun a => c * f a) d == c * expect f d.
Proof.
  intros c f d. induction d as [|pa d IH].
  - rewrite !expect_nil. ring.
  - rewrite !expect_cons, IH. ring.
Qed.

Lemma expect_const : forall c (d : dist A), expect (fun _ => c) d == c * total d.
Proof.
  intros c d. induction d as [|pa d IH].
  - rewrite expect_nil, total_nil. ring.
  - rewrite expect_cons, total_cons, IH. ring.
Qed.

Lemma expect_zero : forall (d : dist A), expect (fun _ => 0) d == 0.
Proof. intros d. rewrite expect_const. ring. Qed.

Lemma total_expect : forall (d : dist A), total d == expect (fun _ => 1) d.
Proof. intros d. rewrite expect_const. ring. Qed.

Lemma expect_dscale : forall c (f : A -> Q) d, expect f (dscale c d) == c * expect f d.
Proof.
  intros c f d. induction d as [|pa d IH].
  - cbn [dscale map]. rewrite !expect_nil. ring.
  - unfold dscale in *. cbn [map]. rewrite !expect_cons, IH. cbn [fst snd]. ring.
Qed.

Lemma total_dscale : forall c (d : dist A), total (dscale c d) == c * total d.
Proof. intros c d. rewrite !total_expect, expect_dscale. reflexivity. Qed.

Lemma total_app : forall (d1 d2 : dist A), total (d1 ++ d2) == total d1 + total d2.
Proof. intros d1 d2. rewrite !total_expect, expect_app. reflexivity. Qed.
End Expect.

Lemma expect_dmap : forall (A B : Type) (f : B -> Q) (g : A -> B) d,
  expect f (dmap g d) = expect (fun a => f (g a)) d.
Proof.
  intros A B f g d. induction d as [|pa d IH]; [reflexivity|].
  unfold dmap in *. cbn [map]. rewrite !expect_cons, IH. reflexivity.
Qed.

Lemma total_dmap : forall (A B : Type) (g : A -> B) d, total (dmap g d) = total d.
Proof.
  intros A B g d. induction d as [|pa d IH]; [reflexivity|].
  unfold dmap in *. cbn [map]. rewrite !total_cons, IH. reflexivity.
Qed.

Lemma dmap_dmap : forall (A B C : Type) (g : A -> B) (h : B -> C) d, dmap h (dmap g d) = dmap (fun a => h (g a)) d.
Proof. intros A B C g h d. unfold dmap. rewrite map_map. reflexivity. Qed.

Lemma in_dmap : forall (A B : Type) (g : A -> B) d q y,
  In (q, y) (dmap g d) -> exists a, y = g a /\ In (q, a) d.
Proof.
  intros A B g d q y H. unfold dmap in H. apply in_map_iff in H. destruct H as [[q' a] [E Hin]].
  cbn [fst snd] in E. inversion E; subst. exists a. split; [reflexivity | exact Hin].
Qed.

Lemma in_dscale : forall (A : Type) c (d : dist A) q a,
  In (q, a) (dscale c d) -> exists q', q = c * q' /\ In (q', a) d.
Proof.
  intros A c d q a H. unfold dscale in H. apply in_map_iff in H. destruct H as [[q' a'] [E Hin]].
  cbn [fst snd] in E. inversion E; subst. exists q'. split; [reflexivity | exact Hin].
Qed.

(* ---------- the independent product ---------- *)
Lemma dprod_nil : forall A : Type, dprod (@nil (dist A)) = [(1, [])].
Proof. reflexivity. Qed.

Lemma dprod_cons : forall (A : Type) (d : dist A) ds,
  dprod (d :: ds) = flat_map (fun pa => map (fun ql => (fst pa * fst ql, snd pa :: snd ql)) (dprod ds)) d.
Proof. reflexivity. Qed.

Lemma expect_map_scale : forall (A B : Type) (F : B -> Q) c (g : A -> B) (D : dist A),
  expect F (map (fun ql => (c * fst ql, g (snd ql))) D) == c * expect (fun l => F (g l)) D.
Proof.
  intros A B F c g D. induction D as [|ql D IH]; cbn [map].
  - rewrite !expect_nil. ring.
  - rewrite !expect_cons, IH. cbn [fst snd]. ring.
Qed.

(* Fubini: draw the first component, then the others *)
Lemma expect_dprod_cons : forall (A : Type) (F : list A -> Q) (d : dist A) ds,
  expect F (dprod (d :: ds)) == expect (fun x => expect (fun l => F (x :: l)) (dprod ds)) d.
Proof.
  intros A F d ds. rewrite dprod_cons. induction d as [|pa d IH]; cbn [flat_map].
  - reflexivity.
  - rewrite expect_app, IH, expect_cons.
    rewrite (expect_map_scale _ _ F (fst pa) (fun l => snd pa :: l)). reflexivity.
Qed.

Lemma total_dprod_one : forall (A : Type) (ds : list (dist A)),
  Forall (fun d => total d == 1) ds -> total (dprod ds) == 1.
Proof.
  intros A ds H. induction H as [|d ds Hd _ IH].
  - rewrite dprod_nil, total_cons, total_nil. cbn [fst]. ring.
  - rewrite total_expect, expect_dprod_cons.
    rewrite (expect_ext _ (fun _ => 1)).
    + rewrite <- total_expect. exact Hd.
    + intros x. rewrite <- total_expect. exact IH.
Qed.

(* a sum of one term per component: the expectation is the sum of the component expectations *)
Lemma expect_dprod_qsum : forall (A : Type) (g : A -> Q) (ds : list (dist A)),
  Forall (fun d => total d == 1) ds ->
  expect (fun l => qsum (map g l)) (dprod ds) == qsum (map (expect g) ds).
Proof.
  intros A g ds H. induction H as [|d ds Hd Hds IH].
  - rewrite dprod_nil, expect_cons, expect_nil. cbn [map qsum fst snd]. ring.
  - rewrite expect_dprod_cons. cbn [map qsum].
    rewrite (expect_ext _ (fun x => g x + qsum (map (expect g) ds))).
    + rewrite expect_plus, expect_const, Hd. ring.
    + intros x. rewrite expect_plus, expect_const, IH.
      rewrite (total_dprod_one _ ds Hds). ring.
Qed.

(* a function of the j-th component only *)
Lemma expect_dprod_nth : forall (A : Type) (G : option A -> Q) (ds : list (dist A)) j,
  Forall (fun d => total d == 1) ds ->
  expect (fun l => G (nth_error l j)) (dprod ds)
  == match nth_error ds j with Some d => expect (fun x => G (Some x)) d | None => G None end.
Proof.
  intros A G ds j H. revert j. induction H as [|d ds Hd Hds IH]; intros j.
  - rewrite dprod_nil, expect_cons, expect_nil. cbn [fst snd]. destruct j; cbn [nth_error]; ring.
  - rewrite expect_dprod_cons. destruct j as [|j]; cbn [nth_error].
    + apply expect_ext. intros x. rewrite expect_const, (total_dprod_one _ ds Hds). ring.
    + rewrite (expect_ext _ (fun _ => match nth_error ds j with
                                      | Some d0 => expect (fun x => G (Some x)) d0 | None => G None end)).
      * rewrite expect_const, Hd. ring.
      * intros x. apply IH.
Qed.

(* supports *)
Lemma in_dprod_cons : forall (A : Type) (d : dist A) ds q l,
  In (q, l) (dprod (d :: ds)) ->
  exists p x q' l', In (p, x) d /\ In (q', l') (dprod ds) /\ q = p * q' /\ l = x :: l'.
Proof.
  intros A d ds q l H. rewrite dprod_cons in H. apply in_flat_map in H.
  destruct H as [[p x] [Hpx H]]. apply in_map_iff in H. destruct H as [[q' l'] [E Hql]].
  cbn [fst snd] in E. inversion E; subst.
  exists p, x, q', l'. repeat split; assumption.
Qed.

Lemma in_dprod_support : forall (A : Type) (ds : list (dist A)) q l,
  In (q, l) (dprod ds) -> Forall2 (fun x d => exists p, In (p, x) d) l ds.
Proof.
  intros A ds. induction ds as [|d ds IH]; intros q l H.
  - rewrite dprod_nil in H. destruct H as [E | []]. inversion E; subst. constructor.
  - apply in_dprod_cons in H. destruct H as [p [x [q' [l' [Hpx [Hql [Eq El]]]]]]]. subst l.
    constructor.
    + exists p. exact Hpx.
    + apply (IH q'). exact Hql.
Qed.

(* ---------- non-negative probabilities ---------- *)
Definition dnonneg {A : Type} (d : dist A) : Prop := forall q a, In (q, a) d -> 0 <= q.

Lemma dnonneg_dmap : forall (A B : Type) (g : A -> B) d, dnonneg d -> dnonneg (dmap g d).
Proof.
  intros A B g d H q y Hin. apply in_dmap in Hin. destruct Hin as [a [_ Hin]]. exact (H q a Hin).
Qed.

Lemma dnonneg_dscale : forall (A : Type) c (d : dist A), 0 <= c -> dnonneg d -> dnonneg (dscale c d).
Proof.
  intros A c d Hc H q a Hin. apply in_dscale in Hin. destruct Hin as [q' [E Hin]]. subst q.
  pose proof (H q' a Hin) as Hq. apply Qmult_le_0_compat; assumption.
Qed.

Lemma dnonneg_app : forall (A : Type) (d1 d2 : dist A), dnonneg d1 -> dnonneg d2 -> dnonneg (d1 ++ d2).
Proof.
  intros A d1 d2 H1 H2 q a Hin. apply in_app_or in Hin. destruct Hin as [Hin | Hin].
  - exact (H1 q a Hin).
  - exact (H2 q a Hin).
Qed.

Lemma dnonneg_dprod : forall (A : Type) (ds : list (dist A)), Forall dnonneg ds -> dnonneg (dprod ds).
Proof.
  intros A ds H. induction H as [|d ds Hd _ IH]; intros q l Hin.
  - rewrite dprod_nil in Hin. destruct Hin as [E | []]. inversion E; subst. lra.
  - apply in_dprod_cons in Hin. destruct Hin as [p [x [q' [l' [Hpx [Hql [Eq El]]]]]]]. subst q.
    apply Qmult_le_0_compat; [exact (Hd p x Hpx) | exact (IH q' l' Hql)].
Qed.

Lemma Qmult_pos_factors : forall p q, 0 <= p -> 0 <= q -> 0 < p * q -> 0 < p /\ 0 < q.
Proof.
  intros p q Hp Hq H. split.
  - destruct (Qlt_le_dec 0 p) as [Hlt | Hle]; [exact Hlt|].
    exfalso. assert (E : p == 0) by lra. rewrite E in H. lra.
  - destruct (Qlt_le_dec 0 q) as [Hlt | Hle]; [exact Hlt|].
    exfalso. assert (E : q == 0) by lra. rewrite E in H. lra.
Qed.

(* an outcome of positive probability of the product has components of positive probability *)
Lemma in_dprod_support_pos : forall (A : Type) (ds : list (dist A)) q l,
  Forall dnonneg ds -> In (q, l) (dprod ds) -> 0 < q ->
  Forall2 (fun x d => exists p, 0 < p /\ In (p, x) d) l ds.
Proof.
  intros A ds. induction ds as [|d ds IH]; intros q l Hnn H Hq.
  - rewrite dprod_nil in H. destruct H as [E | []]. inversion E; subst. constructor.
  - inversion Hnn as [|d' ds' Hd Hds]; subst.
    apply in_dprod_cons in H. destruct H as [p [x [q' [l' [Hpx [Hql [Eq El]]]]]]]. subst l q.
    destruct (Qmult_pos_factors p q' (Hd p x Hpx) (dnonneg_dprod _ ds Hds q' l' Hql) Hq) as [Hp Hq'].
    constructor.
    + exists p. split; assumption.
    + apply (IH q'); assumption.
Qed.
