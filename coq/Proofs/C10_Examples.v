(* Proofs/C10_Examples.v -- property C10: concrete tree paths (checked by computation) showing that
   the hypotheses of the C10 theorems are satisfiable, that rounds of 7 edges occur, and what the
   original Node::subgame (walk from the root) would have offered. *)
From Coq Require Import ZArith NArith List Bool Lia.
From RP Require Import Base.Bits Gen.GenLib Gen.GenFixes Gen.GenAbstract Model.Codec Model.Showdown Model.Game
                       Model.Tree Spec.SpecGameInv Spec.SpecMenu Spec.SpecTree
                       Proofs.C03_Examples Proofs.C10_Cap.
Import ListNotations.
Open Scope Z_scope.

(* follow edges (with the cards dealt at EDraw edges) from a node, checking the menu each time *)
Fixpoint walk (d : deck) (g : game) (pre : list edge) (es : list (edge * N)) : option game :=
  match es with
  | [] => Some g
  | (e, c) :: r =>
      if on_menu g pre e
      then match child_game d g e c with Some g' => walk d g' (pre ++ [e]) r | None => None end
      else None
  end.

Lemma walk_sound : forall d g0 es pre g g', tree_path d g0 pre g -> walk d g pre es = Some g' ->
  tree_path d g0 (pre ++ map fst es) g'.
Proof.
  intros d g0 es. induction es as [|[e c] r IH]; intros pre g g' Hp Hw.
  - cbn in Hw. injection Hw as <-. cbn. rewrite app_nil_r. exact Hp.
  - cbn [walk] in Hw. destruct (on_menu g pre e) eqn:Hon; [|discriminate Hw].
    destruct (child_game d g e c) as [g1|] eqn:Hc; [|discriminate Hw].
    destruct (on_menu_sound g pre e Hon) as (m & Hm & Hin).
    cbn [map fst]. replace (pre ++ e :: map fst r) with ((pre ++ [e]) ++ map fst r)
      by (rewrite <- app_assoc; reflexivity).
    apply (IH (pre ++ [e]) g1 g'); [|exact Hw].
    eapply tp_child; eassumption.
Qed.

Definition ex_root : game :=
  mkGame [mkSeat Betting 98 2 2 3377699720527872%N; mkSeat Betting 99 1 1 3298534883328%N] 3 0%N 0 3.
Lemma ex_root_ok : root Standard ex_holes = Some ex_root.
Proof. vm_compute. reflexivity. Qed.

(* limp, check, flop, four half-pot raises *)
Definition ex_line_edges : list (edge * N) :=
  [(ECall, 0%N); (ECheck, 0%N); (EDraw, ex_flop);
   (ERaise 1 2, 0%N); (ERaise 1 2, 0%N); (ERaise 1 2, 0%N); (ERaise 1 2, 0%N)].
Definition ex_line_history : list edge := map fst ex_line_edges.
Definition ex_line_node : game :=
  mkGame [mkSeat Betting 87 11 13 3377699720527872%N; mkSeat Betting 91 7 9 3298534883328%N] 22 7%N 0 5.

Lemma ex_line_path : tree_path Standard ex_root ex_line_history ex_line_node.
Proof.
  apply (walk_sound Standard ex_root ex_line_edges [] ex_root ex_line_node (tp_root _ _)).
  vm_compute. reflexivity.
Qed.

(* at that node the repaired count is MAX_RAISE_REPEATS + 1 and no raise is on the menu; the
   original count (walk from the root: only the pre-flop round [ECall; ECheck] is seen) is 0, the
   menu built from it offers all flop raise sizes, and the engine would carry out a fifth raise *)
Lemma ex_line_needs_fix :
  n_raises ex_line_history = MAX_RAISE_REPEATS + 1 /\
  node_menu ex_line_node ex_line_history = Some [EShove; ECall; EFold] /\
  n_raises_with false ex_line_history = 0 /\
  choices ex_line_node (n_raises_with false ex_line_history)
  = Some (map (fun o => ERaise (fst o) (snd o)) FLOP_RAISES ++ [EShove; ECall; EFold]) /\
  child_game Standard ex_line_node (ERaise 1 2) 0 <> None /\
  max_raise_edges_per_round (ex_line_history ++ [ERaise 1 2]) = MAX_RAISE_REPEATS + 2.
Proof. repeat split; try (vm_compute; reflexivity). vm_compute. discriminate. Qed.

(* a betting round of 7 edges: limp, four raises, all-in, all-in *)
Definition ex_long_edges : list (edge * N) :=
  [(ECall, 0%N); (ERaise 1 4, 0%N); (ERaise 1 4, 0%N); (ERaise 1 4, 0%N); (ERaise 1 4, 0%N);
   (EShove, 0%N); (EShove, 0%N)].
Lemma ex_long_path : exists g, tree_path Standard ex_root (map fst ex_long_edges) g /\
  turn_of g = Chance /\ max_round_length (map fst ex_long_edges) = 7 /\
  max_raise_edges_per_round (map fst ex_long_edges) = MAX_RAISE_REPEATS + 1.
Proof.
  destruct (walk Standard ex_root [] ex_long_edges) as [g|] eqn:Hw; [|vm_compute in Hw; discriminate Hw].
  exists g. split; [exact (walk_sound Standard ex_root ex_long_edges [] ex_root g (tp_root _ _) Hw)|].
  vm_compute in Hw. injection Hw as <-. repeat split; vm_compute; reflexivity.
Qed.

(* a leaf and a chance node of the tree *)
Definition ex_leaf_edges : list (edge * N) := [(ERaise 1 1, 0%N); (EFold, 0%N)].
Lemma ex_leaf_path : exists g, tree_path Standard ex_root (map fst ex_leaf_edges) g /\ turn_of g = Terminal /\
  settlements Standard g = Some [0; 6].
Proof.
  destruct (walk Standard ex_root [] ex_leaf_edges) as [g|] eqn:Hw; [|vm_compute in Hw; discriminate Hw].
  exists g. split; [exact (walk_sound Standard ex_root ex_leaf_edges [] ex_root g (tp_root _ _) Hw)|].
  vm_compute in Hw. injection Hw as <-. split; vm_compute; reflexivity.
Qed.

Definition ex_chance_node : game :=
  mkGame [mkSeat Betting 98 2 2 3377699720527872%N; mkSeat Betting 98 2 2 3298534883328%N] 4 0%N 0 5.
Lemma ex_chance_path : tree_path Standard ex_root [ECall; ECheck] ex_chance_node /\
  turn_of ex_chance_node = Chance /\ is_allowed Standard ex_chance_node (Draw ex_flop) = Some true.
Proof.
  split; [|split; vm_compute; reflexivity].
  apply (walk_sound Standard ex_root [(ECall, 0%N); (ECheck, 0%N)] [] ex_root ex_chance_node (tp_root _ _)).
  vm_compute. reflexivity.
Qed.

Lemma ex_reachable_of_path : forall h g, tree_path Standard ex_root h g -> reachable Standard ex_holes g.
Proof.
  intros h g Hp. induction Hp as [|h g m e dealt g' Hp IH Hm Hin Hc].
  - exists ex_root, []. split; [exact ex_root_ok|reflexivity].
  - destruct IH as (g0 & acts & Hroot & Hrun).
    assert (Ha : exists a, apply Standard g a = Some g') by (destruct e; cbn [child_game] in Hc; eexists; exact Hc).
    destruct Ha as (a & Ha). exists g0, (acts ++ [a]). split; [exact Hroot|].
    clear -Hrun Ha. revert g0 Hrun. induction acts as [|x r IHr]; intros g0 Hrun.
    + cbn in Hrun. injection Hrun as ->. cbn. rewrite Ha. reflexivity.
    + cbn [run app] in *. destruct (apply Standard g0 x) as [g1|]; [|discriminate Hrun]. apply IHr. exact Hrun.
Qed.
