(* Proofs/C16_Examples.v -- concrete witnesses showing that the hypotheses of the C16 theorems
   are satisfiable by non-trivial values, and a few concrete parses. *)
From Coq Require Import NArith ZArith List Bool Lia.
From RP Require Import Base.Bits Gen.GenFixes Model.Codec Model.Parse Spec.SpecCodec Spec.SpecParseVariants.
From RP Require Import Proofs.C15_Examples.
Import ListNotations.
Open Scope N_scope.

(* "As Ks ~ Qd Jh 2c" *)
Definition ex_obs_str : str := [65; 115; 32; 75; 115; 32; 126; 32; 81; 100; 32; 74; 104; 32; 50; 99].
Definition ex_obs_val : obs := mkObs (2 ^ 51 + 2 ^ 47) (2 ^ 41 + 2 ^ 38 + 1).
Lemma ex_parse_obs : parse_obs ex_obs_str = POk ex_obs_val.
Proof. vm_compute. reflexivity. Qed.

(* "  AsKs " *)
Definition ex_hole_str : str := [32; 32; 65; 115; 75; 115; 32].
Lemma ex_parse_hole : parse_hole ex_hole_str = POk (2 ^ 51 + 2 ^ 47).
Proof. vm_compute. reflexivity. Qed.

Lemma ex_card_lt : 51 < 52.
Proof. reflexivity. Qed.

(* the full deck *)
Lemma ex_hand_lt : 2 ^ 52 - 1 < 2 ^ 52.
Proof. vm_compute. reflexivity. Qed.

Lemma ex_hole : 2 ^ 51 + 2 ^ 47 < 2 ^ 52 /\ hand_size (2 ^ 51 + 2 ^ 47) = 2.
Proof. split; vm_compute; reflexivity. Qed.

Lemma ex_obs_wfs : wf_obs ex_obs /\ wf_obs ex_obs0 /\ wf_obs ex_obs_val.
Proof.
  split; [exact ex_obs_wf|]. split; [exact ex_obs0_wf|].
  unfold wf_obs, ex_obs_val. cbn [pocket public].
  split; [vm_compute; reflexivity|]. split; [vm_compute; reflexivity|].
  split; [vm_compute; reflexivity|]. split; [vm_compute; reflexivity|].
  right; left. vm_compute; reflexivity.
Qed.

Lemma ex_street : (0 <= 2 <= 3)%Z.
Proof. lia. Qed.

Lemma ex_abs : 2 <= 3 /\ 4095 < 4096 /\ exists a, abs_make 2 4095 = Some a.
Proof. split; [lia|]. split; [lia|]. eexists. vm_compute. reflexivity. Qed.

Lemma ex_actions : wf_action' (Raise (-32768)) /\ wf_action' (Call 32767) /\
                   wf_action' (Draw (2 ^ 52 - 1)) /\ wf_action' (Draw 0).
Proof. cbn [wf_action']. repeat split; try lia; vm_compute; reflexivity. Qed.

Lemma ex_turn : wf_turn (TChoice (2 ^ 64 - 1)) /\ wf_turn TTerminal.
Proof. cbn [wf_turn]. split; [vm_compute; reflexivity|exact I]. Qed.

(* concrete prints: "2cAs ~ 2d2h2sJsQs"-style strings are produced and parsed back *)
Lemma ex_print_obs0 : print_obs ex_obs0 = [65; 104; 65; 115; 32; 126; 32].     (* "AhAs ~ " *)
Proof. vm_compute. reflexivity. Qed.
Lemma ex_print_draw0 : print_action (Draw 0) = [68; 69; 65; 76; 32; 32].         (* "DEAL  " *)
Proof. vm_compute. reflexivity. Qed.
Lemma ex_print_raise : print_action (Raise (-32768)) = [82; 65; 73; 83; 69; 32; 45; 51; 50; 55; 54; 56]. (* "RAISE -32768" *)
Proof. vm_compute. reflexivity. Qed.

(* malformed inputs of the kinds that used to abort *)
Lemma ex_bad_inputs :
  parse_card [233] = PErr /\                         (* "é" *)
  parse_hand [65; 233; 75; 115] = POk 0 /\           (* "AéKs": the whole token is dropped *)
  parse_action [] = PErr /\ parse_action [32; 9] = PErr /\
  parse_abs [80; 58; 58] = PErr /\                   (* "P::" *)
  parse_turn [80] = PErr.
Proof. repeat split; vm_compute; reflexivity. Qed.
