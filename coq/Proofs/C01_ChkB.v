(* Proofs/C01_ChkB.v -- exhaustive check by vm_compute: 7-card count vectors starting 0,0 (Standard). *)
From Coq Require Import NArith List Bool.
From RP Require Import Model.Codec Proofs.C01_Enum.
Import ListNotations.
Open Scope N_scope.

Lemma chk_std7_00 : forallb (check_nf Standard) (chunk [0; 0] 7) = true.
Proof. vm_cast_no_check (@eq_refl bool true). Qed.
