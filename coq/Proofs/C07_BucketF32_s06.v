(* Proofs/C07_BucketF32_s06.v -- shard: rows 701 <= sum < 757, every 0 <= won <= sum, by evaluation (check_pair). *)
From Coq Require Import ZArith.
From RP Require Import Model.BucketF32 Proofs.C07_BucketF32_chk.
Open Scope Z_scope.
Lemma block : check_block 701 757 = true.
Proof. vm_compute. reflexivity. Qed.
Lemma rows : forall sum won, 701 <= sum < 757 -> 0 <= won <= sum -> pair_ok won sum.
Proof. exact (check_block_ok 701 757 ltac:(discriminate) block). Qed.
