(* Proofs/C02_Cards.v -- card bookkeeping of the betting engine (C14, and the disjointness facts
   needed by the settlement theorem of C02).
   card_inv holds after ANY history (also for `Draw h` with bits above 63, which the model's
   is_allowed does not look at); card_inv64 (board inside the deck mask) needs the drawn sets to
   be u64 values, as they are in Rust. *)
From Coq Require Import ZArith NArith List Bool Lia ZifyBool ZifyN.
From RP Require Import Base.Bits Gen.GenLib Gen.GenStreet Gen.GenCards Gen.GenFixes
                       Model.Codec Model.Evaluator Model.Showdown Model.Game
                       Spec.SpecGameInv Spec.SpecSettle Proofs.BitsLemmas Proofs.C02_Basics.
Import ListNotations.
Open Scope N_scope.

Definition ones64 : N := 18446744073709551615.

Notation card_inv := cards_inv_any.
Definition card_inv64 (d : deck) (g : game) : Prop :=
  card_inv d g /\ N.land (board g) (hand_mask d) = board g.

(* ---------- bitwise reasoning ---------- *)
Ltac bit_hyps i :=
  repeat match goal with
  | H : @eq N _ _ |- _ =>
      apply (f_equal (fun x => N.testbit x i)) in H; cbv beta in H;
      repeat first [rewrite N.land_spec in H | rewrite N.lor_spec in H
                   | rewrite N.lxor_spec in H | rewrite N.bits_0 in H]; revert H
  end; intros.
Ltac bit_cases i :=
  repeat match goal with
  | |- context [N.testbit ?x i] => destruct (N.testbit x i)
  | H : context [N.testbit ?x i] |- _ => destruct (N.testbit x i)
  end; cbv [andb orb xorb] in *; congruence.
Ltac bitwise :=
  let i := fresh "i" in
  apply N.bits_inj; intros i;
  repeat first [rewrite N.land_spec | rewrite N.lor_spec | rewrite N.lxor_spec | rewrite N.bits_0];
  bit_hyps i; bit_cases i.

Lemma mask_in_ones64 : forall d, N.land (hand_mask d) ones64 = hand_mask d.
Proof. intros d. destruct d; reflexivity. Qed.

Lemma land_ones64_small : forall h, h < 2 ^ 64 -> N.land h ones64 = h.
Proof.
  intros h Hh. change ones64 with (N.ones 64). rewrite N.land_ones. apply N.mod_small. exact Hh.
Qed.

Lemma bw_removed : forall A B bd : N,
  N.land A B = 0 -> N.land bd A = 0 -> N.land bd B = 0 -> N.land (N.lor bd A) B = 0.
Proof. intros A B bd H4 H5 H6. bitwise. Qed.

Lemma bw_draw_A : forall m o A B bd h : N,
  N.land A m = A -> N.land B m = B -> N.land m o = m -> N.land A B = 0 ->
  N.land bd A = 0 -> N.land bd B = 0 -> N.land (N.land bd o) m = N.land bd o ->
  N.land h (N.lxor (N.lxor (N.lor (N.lor bd A) B) m) o) = 0 -> N.land bd h = 0 ->
  N.land (N.lor bd h) A = 0.
Proof. intros m o A B bd h H1 H2 H3 H4 H5 H6 H7 H8 H9. bitwise. Qed.
Lemma bw_draw_B : forall m o A B bd h : N,
  N.land A m = A -> N.land B m = B -> N.land m o = m -> N.land A B = 0 ->
  N.land bd A = 0 -> N.land bd B = 0 -> N.land (N.land bd o) m = N.land bd o ->
  N.land h (N.lxor (N.lxor (N.lor (N.lor bd A) B) m) o) = 0 -> N.land bd h = 0 ->
  N.land (N.lor bd h) B = 0.
Proof. intros m o A B bd h H1 H2 H3 H4 H5 H6 H7 H8 H9. bitwise. Qed.
Lemma bw_draw_low : forall m o A B bd h : N,
  N.land A m = A -> N.land B m = B -> N.land m o = m -> N.land A B = 0 ->
  N.land bd A = 0 -> N.land bd B = 0 -> N.land (N.land bd o) m = N.land bd o ->
  N.land h (N.lxor (N.lxor (N.lor (N.lor bd A) B) m) o) = 0 -> N.land bd h = 0 ->
  N.land (N.land (N.lor bd h) o) m = N.land (N.lor bd h) o.
Proof. intros m o A B bd h H1 H2 H3 H4 H5 H6 H7 H8 H9. bitwise. Qed.
Lemma bw_draw_fresh : forall m o A B bd h : N,
  N.land A m = A -> N.land B m = B -> N.land m o = m -> N.land A B = 0 ->
  N.land bd A = 0 -> N.land bd B = 0 -> N.land (N.land bd o) m = N.land bd o ->
  N.land h (N.lxor (N.lxor (N.lor (N.lor bd A) B) m) o) = 0 -> N.land bd h = 0 ->
  N.land h (N.lor (N.lor bd A) B) = 0.
Proof. intros m o A B bd h H1 H2 H3 H4 H5 H6 H7 H8 H9. bitwise. Qed.
Lemma bw_draw_mask : forall m o A B bd h : N,
  N.land A m = A -> N.land B m = B -> N.land m o = m -> N.land A B = 0 ->
  N.land bd A = 0 -> N.land bd B = 0 ->
  N.land h (N.lxor (N.lxor (N.lor (N.lor bd A) B) m) o) = 0 ->
  N.land h o = h -> N.land bd m = bd -> N.land (N.lor bd h) m = N.lor bd h.
Proof. intros m o A B bd h H1 H2 H3 H4 H5 H6 H8 H10 H11. bitwise. Qed.
Lemma bw_deck_disjoint : forall m A B bd : N,
  N.land A m = A -> N.land B m = B -> N.land bd m = bd ->
  N.land (N.lxor (N.lor (N.lor bd A) B) m) (N.lor (N.lor bd A) B) = 0.
Proof. intros m A B bd H1 H2 H11. bitwise. Qed.
Lemma bw_deck_cover : forall m A B bd : N,
  N.land A m = A -> N.land B m = B -> N.land bd m = bd ->
  N.lor (N.lxor (N.lor (N.lor bd A) B) m) (N.lor (N.lor bd A) B) = m.
Proof. intros m A B bd H1 H2 H11. bitwise. Qed.

(* ---------- popcount of a disjoint union ---------- *)
Lemma popcount_upto_lor : forall n a b, N.land a b = 0 ->
  popcount_upto n (N.lor a b) = popcount_upto n a + popcount_upto n b.
Proof.
  induction n as [|n IH]; intros a b H.
  - reflexivity.
  - cbn [popcount_upto].
    assert (Hd : N.land (N.div2 a) (N.div2 b) = 0).
    { rewrite !N.div2_spec, <- N.shiftr_land, H. apply N.shiftr_0_l. }
    assert (Hl : N.div2 (N.lor a b) = N.lor (N.div2 a) (N.div2 b)).
    { rewrite !N.div2_spec. apply N.shiftr_lor. }
    rewrite Hl, (IH _ _ Hd).
    assert (Ho : N.odd (N.lor a b) = N.odd a || N.odd b).
    { rewrite <- !N.bit0_odd. apply N.lor_spec. }
    assert (Hn : N.odd a && N.odd b = false).
    { rewrite <- !N.bit0_odd, <- N.land_spec, H. apply N.bits_0. }
    rewrite Ho. destruct (N.odd a), (N.odd b); cbn [orb andb] in *; try discriminate Hn; lia.
Qed.

Lemma hand_size_lor : forall a b, N.land a b = 0 -> hand_size (N.lor a b) = hand_size a + hand_size b.
Proof. intros a b H. unfold hand_size, popcount64. apply popcount_upto_lor. exact H. Qed.

Lemma hand_size_pos_nonzero : forall a, hand_size a <> 0 -> a <> 0.
Proof. intros a H E. subst a. apply H. reflexivity. Qed.

(* ---------- streets ---------- *)
Lemma street_of_size_eq : forall z,
  street_of_size z =
  (if (0 =? z)%Z then Some 0%Z else if (3 =? z)%Z then Some 1%Z
   else if (4 =? z)%Z then Some 2%Z else if (5 =? z)%Z then Some 3%Z else None).
Proof.
  intros z. unfold street_of_size, STREET_OF_SIZE. cbn [find fst snd].
  destruct (0 =? z)%Z; [reflexivity|]. destruct (3 =? z)%Z; [reflexivity|].
  destruct (4 =? z)%Z; [reflexivity|]. destruct (5 =? z)%Z; reflexivity.
Qed.

Lemma street_of_size_cases : forall z s, street_of_size z = Some s ->
  (z = 0 /\ s = 0)%Z \/ (z = 3 /\ s = 1)%Z \/ (z = 4 /\ s = 2)%Z \/ (z = 5 /\ s = 3)%Z.
Proof.
  intros z s H. rewrite street_of_size_eq in H.
  destruct (0 =? z)%Z eqn:E0; [injection H as H; lia|].
  destruct (3 =? z)%Z eqn:E3; [injection H as H; lia|].
  destruct (4 =? z)%Z eqn:E4; [injection H as H; lia|].
  destruct (5 =? z)%Z eqn:E5; [injection H as H; lia|].
  discriminate H.
Qed.

(* the board after an accepted draw again has a legal size *)
Lemma board_ok_draw : forall g h nb ss p dl tk n,
  board_ok g = true -> must_deal g = true ->
  n_revealed (street g) = Some n -> Z.of_N (hand_size h) = n ->
  N.land (board g) h = 0 -> nb = N.lor (board g) h ->
  board_ok (mkGame ss p nb dl tk) = true.
Proof.
  intros g h nb ss p dl tk n Hok Hdl Hn Hh Hdis Hnb.
  unfold board_ok. cbn [board]. subst nb. rewrite (hand_size_lor _ _ Hdis).
  unfold must_deal in Hdl. unfold street in Hdl, Hn. unfold board_ok in Hok.
  destruct (street_of_size (Z.of_N (hand_size (board g)))) as [s|] eqn:E; [|discriminate Hok].
  destruct (street_of_size_cases _ _ E) as [(Hz & Hs) | [(Hz & Hs) | [(Hz & Hs) | (Hz & Hs)]]];
    subst s; cbn in Hdl; try discriminate Hdl;
    cbv in Hn; injection Hn as Hn; subst n;
    replace (Z.of_N (hand_size (board g) + hand_size h)) with
            (Z.of_N (hand_size (board g)) + Z.of_N (hand_size h))%Z by lia;
    rewrite Hz, Hh; reflexivity.
Qed.

(* ---------- frame: what an action does to the cards ---------- *)
Lemma next_player_frame : forall g g', next_player g = Some g' ->
  seats g' = seats g /\ board g' = board g.
Proof. intros g g' H. apply next_player_spec in H. tauto. Qed.

Lemma bet_frame : forall g c g1, bet g c = Some g1 ->
  map cards (seats g1) = map cards (seats g) /\ board g1 = board g.
Proof.
  intros g c g1 H. unfold bet in H.
  destruct (stack (actor g) <? c)%Z; [discriminate H|].
  match type of H with (if ?c then _ else _) = _ => destruct c end;
    injection H as H; subst g1; cbn [set_seats seats board]; (split; [|reflexivity]);
    unfold upd_actor; cbn [seats];
    rewrite ?upd_nth_map by (intros x; reflexivity); reflexivity.
Qed.

Lemma act_frame : forall g a g', act_unchecked g a = Some g' ->
  map cards (seats g') = map cards (seats g) /\
  match a with
  | Draw h => N.land (board g) h = 0 /\ board g' = N.lor (board g) h
  | _ => board g' = board g
  end.
Proof.
  intros g a g' H.
  assert (Hbet : forall c, match bet g c with Some g1 => next_player g1 | None => None end = Some g' ->
                 map cards (seats g') = map cards (seats g) /\ board g' = board g).
  { intros c Hc. destruct (bet g c) as [g1|] eqn:Hb; [|discriminate Hc].
    destruct (bet_frame _ _ _ Hb) as (F1 & F2). destruct (next_player_frame _ _ Hc) as (N1 & N2).
    rewrite N1, N2, F1, F2. split; reflexivity. }
  destruct a as [h | | c | | c | c | c]; cbn [act_unchecked] in H; try (apply (Hbet c); exact H).
  - unfold hand_add in H. destruct (N.land (board g) h =? 0) eqn:E; [|discriminate H].
    apply N.eqb_eq in E.
    destruct (next_player (mkGame (seats g) (pot g) (N.lor (board g) h) (dealer g) (dealer g))) as [g2|] eqn:Hnp;
      [|discriminate H].
    injection H as H. subst g'. destruct (next_player_frame _ _ Hnp) as (N1 & N2).
    cbn [seats board] in N1, N2. unfold reset_stakes. cbn [set_seats seats board].
    rewrite N1, N2, map_map. cbn [cards]. split; [reflexivity|]. split; [exact E | reflexivity].
  - destruct (next_player_frame _ _ H) as (N1 & N2). rewrite N1, N2.
    unfold fold_actor. cbn [set_seats seats board]. split; [|reflexivity].
    unfold upd_actor. apply upd_nth_map. intros x. reflexivity.
  - destruct (next_player_frame _ _ H) as (N1 & N2). rewrite N1, N2. split; reflexivity.
Qed.

(* ---------- the deck ---------- *)
Lemma seats_of_cards : forall g A B, map cards (seats g) = [A; B] ->
  exists a b, seats g = [a; b] /\ cards a = A /\ cards b = B.
Proof.
  intros g A B H. destruct (seats g) as [|a [|b [|c l]]]; try discriminate H.
  injection H as Ha Hb. exists a, b. auto.
Qed.

Lemma deck_of_two : forall d g A B, map cards (seats g) = [A; B] ->
  N.land (board g) A = 0 -> N.land (N.lor (board g) A) B = 0 ->
  deck_of d g = Some (N.lxor (N.lor (N.lor (board g) A) B) (hand_mask d)).
Proof.
  intros d g A B Hm HA HB. destruct (seats_of_cards g A B Hm) as (a & b & Hs & Ea & Eb).
  unfold deck_of, removed. rewrite Hs. cbn [fold_left]. rewrite Ea, Eb.
  unfold hand_add. rewrite HA. cbn [N.eqb]. rewrite HB. reflexivity.
Qed.

Lemma union_two : forall g A B, map cards (seats g) = [A; B] ->
  fold_left N.lor (map cards (seats g)) (board g) = N.lor (N.lor (board g) A) B.
Proof. intros g A B Hm. rewrite Hm. reflexivity. Qed.

(* ---------- the step ---------- *)
Theorem card_inv_step : forall d g a g', card_inv d g -> apply d g a = Some g' -> card_inv d g'.
Proof.
  intros d g a g' (A & B & Hm & HA & HB & SA & SB & HAB & HbA & HbB & Hok & Hlow) H.
  unfold apply in H. destruct (is_allowed d g a) as [[|]|] eqn:Hal; try discriminate H.
  destruct (act_frame _ _ _ H) as (Fm & Fb).
  pose proof (bw_removed A B (board g) HAB HbA HbB) as Hrem.
  assert (Hsame : board g' = board g -> card_inv d g').
  { intros E. exists A, B. rewrite Fm, E. unfold board_ok. rewrite E.
    repeat split; assumption. }
  destruct a as [h | | c | | c | c | c]; try (apply Hsame; exact Fb).
  destruct Fb as (Hdis & Enb).
  destruct (allowed_draw _ _ _ Hal) as (Hst & Hdl & dk & n & Hdk & Hin & Hn & Hh).
  rewrite (deck_of_two d g A B Hm HbA Hrem) in Hdk. injection Hdk as Hdk. subst dk.
  pose proof (mask_in_ones64 d) as Hmo.
  exists A, B. rewrite Fm, Enb.
  split; [exact Hm|]. split; [exact HA|]. split; [exact HB|]. split; [exact SA|]. split; [exact SB|].
  split; [exact HAB|].
  split; [exact (bw_draw_A (hand_mask d) ones64 A B (board g) h HA HB Hmo HAB HbA HbB Hlow Hin Hdis)|].
  split; [exact (bw_draw_B (hand_mask d) ones64 A B (board g) h HA HB Hmo HAB HbA HbB Hlow Hin Hdis)|].
  split; [|exact (bw_draw_low (hand_mask d) ones64 A B (board g) h HA HB Hmo HAB HbA HbB Hlow Hin Hdis)].
  destruct g' as [ss p nb dl tk]. cbn [board] in Enb.
  eapply board_ok_draw; eassumption.
Qed.

Theorem card_inv64_step : forall d g a g',
  card_inv64 d g -> action_u64 a -> apply d g a = Some g' -> card_inv64 d g'.
Proof.
  intros d g a g' (Hc & Hbm) Hu H. split; [eapply card_inv_step; eassumption|].
  destruct Hc as (A & B & Hm & HA & HB & SA & SB & HAB & HbA & HbB & Hok & Hlow).
  unfold apply in H. destruct (is_allowed d g a) as [[|]|] eqn:Hal; try discriminate H.
  destruct (act_frame _ _ _ H) as (Fm & Fb).
  destruct a as [h | | c | | c | c | c]; try (rewrite Fb; exact Hbm).
  destruct Fb as (Hdis & Enb).
  destruct (allowed_draw _ _ _ Hal) as (Hst & Hdl & dk & n & Hdk & Hin & Hn & Hh).
  pose proof (bw_removed A B (board g) HAB HbA HbB) as Hrem.
  rewrite (deck_of_two d g A B Hm HbA Hrem) in Hdk. injection Hdk as Hdk. subst dk.
  pose proof (mask_in_ones64 d) as Hmo. cbn [action_u64] in Hu.
  rewrite Enb.
  exact (bw_draw_mask (hand_mask d) ones64 A B (board g) h HA HB Hmo HAB HbA HbB Hin
                      (land_ones64_small h Hu) Hbm).
Qed.

(* ---------- the root ---------- *)
Lemma card_inv64_root : forall d hs g0, wf_holes d hs -> root d hs = Some g0 -> card_inv64 d g0.
Proof.
  intros d hs g0 (A & B & E & HA & HB & SA & SB & HAB) Hr. subst hs.
  assert (Hg : map cards (seats g0) = [A; B] /\ board g0 = 0).
  { revert Hr. vm_compute. intros Hr. injection Hr as Hr. subst g0. split; reflexivity. }
  destruct Hg as (Hm & Hb).
  split; [|rewrite Hb; apply N.land_0_l].
  exists A, B. unfold board_ok. rewrite Hm, Hb.
  repeat split; try assumption; try reflexivity.
Qed.

Lemma card_inv_run : forall d acts g g', card_inv d g -> run d g acts = Some g' -> card_inv d g'.
Proof.
  intros d acts. induction acts as [|a r IH]; intros g g' Hg H.
  - cbn [run] in H. injection H as H. subst g'. exact Hg.
  - cbn [run] in H. destruct (apply d g a) as [g1|] eqn:E; [|discriminate H].
    eapply IH; [|exact H]. eapply card_inv_step; eassumption.
Qed.

Lemma card_inv64_run : forall d acts g g',
  card_inv64 d g -> Forall action_u64 acts -> run d g acts = Some g' -> card_inv64 d g'.
Proof.
  intros d acts. induction acts as [|a r IH]; intros g g' Hg Hu H.
  - cbn [run] in H. injection H as H. subst g'. exact Hg.
  - cbn [run] in H. destruct (apply d g a) as [g1|] eqn:E; [|discriminate H].
    inversion Hu as [|a' r' Ha Hr]; subst.
    eapply IH; [|exact Hr|exact H]. eapply card_inv64_step; eassumption.
Qed.

Theorem card_inv_reachable : forall d hs g, wf_holes d hs -> reachable d hs g -> card_inv d g.
Proof.
  intros d hs g Hw (g0 & acts & Hr & Hrun).
  eapply card_inv_run; [|exact Hrun]. apply (card_inv64_root d hs g0 Hw Hr).
Qed.

Theorem card_inv64_reachable : forall d hs g, wf_holes d hs -> reachable64 d hs g -> card_inv64 d g.
Proof.
  intros d hs g Hw (g0 & acts & Hr & Hu & Hrun).
  eapply card_inv64_run; [|exact Hu|exact Hrun]. apply (card_inv64_root d hs g0 Hw Hr).
Qed.

(* ---------- cards_inv of Spec/SpecGameInv.v ---------- *)
Lemma card_inv64_cards_inv : forall d g, card_inv64 d g -> cards_inv d g.
Proof.
  intros d g ((A & B & Hm & HA & HB & SA & SB & HAB & HbA & HbB & Hok & Hlow) & Hbm).
  pose proof (bw_removed A B (board g) HAB HbA HbB) as Hrem.
  pose proof (mask_in_ones64 d) as Hmo.
  unfold cards_inv. split; [exact Hok|]. split; [exact Hbm|].
  eexists. split; [apply (deck_of_two d g A B Hm HbA Hrem)|].
  rewrite (union_two g A B Hm). split.
  - exact (bw_deck_disjoint (hand_mask d) A B (board g) HA HB Hbm).
  - exact (bw_deck_cover (hand_mask d) A B (board g) HA HB Hbm).
Qed.

(* an accepted draw is disjoint from everything visible and is added to the board *)
Theorem draw_fresh : forall d g h g', card_inv d g -> apply d g (Draw h) = Some g' ->
  N.land h (fold_left N.lor (map cards (seats g)) (board g)) = 0 /\ board g' = N.lor (board g) h.
Proof.
  intros d g h g' (A & B & Hm & HA & HB & SA & SB & HAB & HbA & HbB & Hok & Hlow) H.
  unfold apply in H. destruct (is_allowed d g (Draw h)) as [[|]|] eqn:Hal; try discriminate H.
  destruct (act_frame _ _ _ H) as (Fm & Hdis & Enb).
  destruct (allowed_draw _ _ _ Hal) as (Hst & Hdl & dk & n & Hdk & Hin & Hn & Hh).
  pose proof (bw_removed A B (board g) HAB HbA HbB) as Hrem.
  rewrite (deck_of_two d g A B Hm HbA Hrem) in Hdk. injection Hdk as Hdk. subst dk.
  pose proof (mask_in_ones64 d) as Hmo.
  split; [|exact Enb]. rewrite (union_two g A B Hm).
  exact (bw_draw_fresh (hand_mask d) ones64 A B (board g) h HA HB Hmo HAB HbA HbB Hlow Hin Hdis).
Qed.

(* ---------- top-level forms ---------- *)
Theorem cards_inv_reachable64 : forall d hs g, wf_holes d hs -> reachable64 d hs g -> cards_inv d g.
Proof. intros d hs g Hw Hr. apply card_inv64_cards_inv. eapply card_inv64_reachable; eassumption. Qed.

Theorem draw_fresh_reachable : forall d hs g h g', wf_holes d hs -> reachable d hs g ->
  apply d g (Draw h) = Some g' ->
  N.land h (fold_left N.lor (map cards (seats g)) (board g)) = 0 /\ board g' = N.lor (board g) h.
Proof.
  intros d hs g h g' Hw Hr H. eapply draw_fresh; [|exact H]. eapply card_inv_reachable; eassumption.
Qed.

Lemma reachable64_reachable : forall d hs g, reachable64 d hs g -> reachable d hs g.
Proof. intros d hs g (g0 & acts & Hr & _ & Hrun). exists g0, acts. auto. Qed.

(* the model accepts a drawn set with bits above 63 (a Rust Hand cannot have them): after such a
   draw the board is not inside the deck mask, so cards_inv fails for plain `reachable` *)
Theorem cards_inv_reachable_false :
  ~ (forall d hs g, wf_holes d hs -> reachable d hs g -> cards_inv d g).
Proof.
  intros H.
  assert (Hw : wf_holes Standard [3; 12]).
  { exists 3, 12. repeat split; reflexivity. }
  set (g0 := mkGame [mkSeat Betting 98 2 2 3; mkSeat Betting 99 1 1 12] 3 0 0 3).
  set (g := mkGame [mkSeat Betting 98 0 2 3; mkSeat Betting 98 0 2 12] 4 (2 ^ 64 + 112) 0 1).
  assert (Hr : reachable Standard [3; 12] g).
  { exists g0, [Call 1%Z; Check; Draw (2 ^ 64 + 112)]. split; vm_compute; reflexivity. }
  destruct (H Standard [3; 12] g Hw Hr) as (_ & Hb & _).
  vm_compute in Hb. discriminate Hb.
Qed.
