(* Proofs/C07_BucketF32_s01.v -- shard: rows 286 <= sum < 405, every 0 <= won <= sum, by evaluation (check_pair). *)
From Coq Require Import ZArith.
From RP Require Import Model.BucketF32 Proofs.C07_BucketF32_chk.
Open Scope Z_scope.
Lemma block : check_block 286 405 = true.
Proof. vm_compute. reflexivity. Qed.
Lemma rows : forall sum won, 286 <= sum < 405 -> 0 <= won <= sum -> pair_ok won sum.
Proof. exact (check_block_ok 286 405 ltac:(discriminate) block). Qed.
