(* Proofs/C05_Examples.v -- property C05: concrete observations (hypotheses are satisfiable) and the
   instances asserted by the Rust unit tests of src/cards/isomorphism.rs and permutation.rs. *)
From Coq Require Import NArith ZArith List Bool Lia.
From RP Require Import Base.Bits Gen.GenPerm Model.Codec Model.Evaluator Model.Iso.
From RP Require Import Spec.SpecCodec Spec.SpecIso Spec.SpecIsoWf.
Import ListNotations.
Open Scope N_scope.

(* card = 4 * rank + suit; ranks 2..A = 0..12, suits c d h s = 0..3 *)
Definition cd (r s : N) : N := 4 * r + s.
Definition hand (l : list N) : N := mask_of_bits l.

Ltac wf_by_compute :=
  unfold wf_obs_d, wf_obs; vm_compute;
  repeat match goal with |- _ /\ _ => split end;
  try reflexivity; auto 6.

(* a river observation of the standard deck: 2s Ks | 2d 5h 8c Tc Th *)
Definition ex_std : obs := mkObs (hand [cd 0 3; cd 11 3]) (hand [cd 0 1; cd 3 2; cd 6 0; cd 8 0; cd 8 2]).
Lemma ex_std_wf : wf_obs_d Standard ex_std.
Proof. wf_by_compute. Qed.

(* 2s Ks | 2h 5c 8d Tc Td *)
Definition ex_std_b : obs := mkObs (hand [cd 0 3; cd 11 3]) (hand [cd 0 2; cd 3 0; cd 6 1; cd 8 0; cd 8 1]).
Lemma ex_std_b_wf : wf_obs_d Standard ex_std_b.
Proof. wf_by_compute. Qed.

(* a river observation of the short deck (ranks 6..A): As Ks | 6c 7d 8h Ts Jc *)
Definition ex_short : obs := mkObs (hand [cd 12 3; cd 11 3]) (hand [cd 4 0; cd 5 1; cd 6 2; cd 8 3; cd 9 0]).
Lemma ex_short_wf : wf_obs_d Short ex_short.
Proof. wf_by_compute. Qed.

(* flop, turn and preflop observations *)
Definition ex_flop : obs := mkObs (hand [cd 12 0; cd 12 1]) (hand [cd 9 0; cd 8 3; cd 3 3]).
Lemma ex_flop_wf : wf_obs_d Standard ex_flop.
Proof. wf_by_compute. Qed.
Definition ex_turn_short : obs := mkObs (hand [cd 12 0; cd 4 1]) (hand [cd 9 0; cd 8 3; cd 5 3; cd 5 2]).
Lemma ex_turn_short_wf : wf_obs_d Short ex_turn_short.
Proof. wf_by_compute. Qed.
Definition ex_pre : obs := mkObs (hand [cd 12 2; cd 12 3]) 0.
Lemma ex_pre_wf : wf_obs_d Standard ex_pre /\ wf_obs_d Short ex_pre.
Proof. split; wf_by_compute. Qed.

(* a permutation of EXHAUST and a hand inside each deck *)
Definition ex_perm : perm := [2; 0; 3; 1].
Lemma ex_perm_in : In ex_perm EXHAUST.
Proof. vm_compute. auto 20. Qed.
Lemma ex_hand_in_mask :
  N.land (public ex_std) (hand_mask Standard) = public ex_std /\
  N.land (public ex_short) (hand_mask Short) = public ex_short.
Proof. split; vm_compute; reflexivity. Qed.

(* canonical forms exist and are not the input (the examples are not degenerate) *)
Lemma ex_std_canon : canon Standard ex_std = Some (relabel_obs (perm_of_obs Standard ex_std) ex_std) /\
                     canon Standard ex_std <> Some ex_std /\ perm_of_obs Standard ex_std = [2; 0; 1; 3].
Proof. vm_compute. repeat split; try reflexivity; discriminate. Qed.
Lemma ex_short_canon : canon Short ex_short <> None /\ canon Short ex_short <> Some ex_short.
Proof. vm_compute. split; discriminate. Qed.

(* an observation with two suits whose six keys tie: Ac Ad | Kc Kd 2h, suits c and d *)
Definition ex_tie : obs := mkObs (hand [cd 12 0; cd 12 1]) (hand [cd 11 0; cd 11 1; cd 0 2]).
Lemma ex_tie_wf : wf_obs_d Standard ex_tie.
Proof. wf_by_compute. Qed.
Lemma ex_tie_keys : forall k, k <> KSuit -> cmp_key k (colex Standard ex_tie 0) (colex Standard ex_tie 1) = Eq.
Proof. intros k Hk. destruct k; try (vm_compute; reflexivity). congruence. Qed.

(* ---------- Rust unit tests: isomorphism.rs ---------- *)

(* super_symmetry *)
Lemma test_super_symmetry : canon Standard ex_std = canon Standard ex_std_b /\ canon Standard ex_std <> None.
Proof. vm_compute. split; [reflexivity | discriminate]. Qed.

(* false_positives on a fixed river observation: every permuted copy has the same canonical form *)
Lemma test_false_positives :
  forallb (fun p => match permute Standard p ex_std with
                    | Some o => match canon Standard o, canon Standard ex_std with
                                | Some x, Some y => obs_eqb x y | _, _ => false end
                    | None => false end) EXHAUST = true /\
  forallb (fun p => match permute Short p ex_short with
                    | Some o => match canon Short o, canon Short ex_short with
                                | Some x, Some y => obs_eqb x y | _, _ => false end
                    | None => false end) EXHAUST = true.
Proof. vm_compute. split; reflexivity. Qed.

(* false_negatives: some permutation of the canonical form gives the observation back *)
Lemma test_false_negatives :
  match canon Standard ex_std with
  | Some c => existsb (fun p => match permute Standard p c with Some o => obs_eqb o ex_std | None => false end) EXHAUST
  | None => false end = true.
Proof. vm_compute. reflexivity. Qed.

Ltac same_canon_compute := vm_compute; split; [reflexivity | discriminate].

(* pocket_rank_symmetry: Ac Ad | Jc Ts 5s  ~  As Ah | Js Tc 5c *)
Definition t_prs_a : obs := mkObs (hand [cd 12 0; cd 12 1]) (hand [cd 9 0; cd 8 3; cd 3 3]).
Definition t_prs_b : obs := mkObs (hand [cd 12 3; cd 12 2]) (hand [cd 9 3; cd 8 0; cd 3 0]).
Lemma test_pocket_rank_symmetry :
  canon Standard t_prs_a = canon Standard t_prs_b /\ canon Standard t_prs_a <> None.
Proof. same_canon_compute. Qed.
(* public_rank_symmetry: Td As | Ts Ks Kh  ~  Tc Ad | Td Kd Kh *)
Definition t_pub_a : obs := mkObs (hand [cd 8 1; cd 12 3]) (hand [cd 8 3; cd 11 3; cd 11 2]).
Definition t_pub_b : obs := mkObs (hand [cd 8 0; cd 12 1]) (hand [cd 8 1; cd 11 1; cd 11 2]).
Lemma test_public_rank_symmetry :
  canon Standard t_pub_a = canon Standard t_pub_b /\ canon Standard t_pub_a <> None.
Proof. same_canon_compute. Qed.
(* offsuit_backdoor: As Jh | Ks Js 2d  ~  Ah Jd | Kh Jh 2c *)
Definition t_obd_a : obs := mkObs (hand [cd 12 3; cd 9 2]) (hand [cd 11 3; cd 9 3; cd 0 1]).
Definition t_obd_b : obs := mkObs (hand [cd 12 2; cd 9 1]) (hand [cd 11 2; cd 9 2; cd 0 0]).
Lemma test_offsuit_backdoor :
  canon Standard t_obd_a = canon Standard t_obd_b /\ canon Standard t_obd_a <> None.
Proof. same_canon_compute. Qed.
(* offsuit_draw: As Qh | Ks Js 2s  ~  Ad Qh | Kd Jd 2d *)
Definition t_odr_a : obs := mkObs (hand [cd 12 3; cd 10 2]) (hand [cd 11 3; cd 9 3; cd 0 3]).
Definition t_odr_b : obs := mkObs (hand [cd 12 1; cd 10 2]) (hand [cd 11 1; cd 9 1; cd 0 1]).
Lemma test_offsuit_draw :
  canon Standard t_odr_a = canon Standard t_odr_b /\ canon Standard t_odr_a <> None.
Proof. same_canon_compute. Qed.
(* monochrome: Ad Kd | Qd Jd Td  ~  As Ks | Qs Js Ts (also a short-deck observation) *)
Definition t_mono_a : obs := mkObs (hand [cd 12 1; cd 11 1]) (hand [cd 10 1; cd 9 1; cd 8 1]).
Definition t_mono_b : obs := mkObs (hand [cd 12 3; cd 11 3]) (hand [cd 10 3; cd 9 3; cd 8 3]).
Lemma test_monochrome :
  (canon Standard t_mono_a = canon Standard t_mono_b /\ canon Standard t_mono_a <> None) /\
  (canon Short t_mono_a = canon Short t_mono_b /\ canon Short t_mono_a <> None).
Proof. split; same_canon_compute. Qed.
(* antichrome: Ac Kc | Qs Js Ts  ~  As Ks | Qh Jh Th *)
Definition t_anti_a : obs := mkObs (hand [cd 12 0; cd 11 0]) (hand [cd 10 3; cd 9 3; cd 8 3]).
Definition t_anti_b : obs := mkObs (hand [cd 12 3; cd 11 3]) (hand [cd 10 2; cd 9 2; cd 8 2]).
Lemma test_antichrome :
  canon Standard t_anti_a = canon Standard t_anti_b /\ canon Standard t_anti_a <> None.
Proof. same_canon_compute. Qed.
(* semichrome: Ac Ks | Qc Js Ts  ~  Ad Kh | Qd Jh Th *)
Definition t_semi_a : obs := mkObs (hand [cd 12 0; cd 11 3]) (hand [cd 10 0; cd 9 3; cd 8 3]).
Definition t_semi_b : obs := mkObs (hand [cd 12 1; cd 11 2]) (hand [cd 10 1; cd 9 2; cd 8 2]).
Lemma test_semichrome :
  canon Standard t_semi_a = canon Standard t_semi_b /\ canon Standard t_semi_a <> None.
Proof. same_canon_compute. Qed.

(* a canonical observation (the canonical form of ex_std), and an isomorphic pair *)
Definition ex_canonical : obs := mkObs 140737488355336 25836920833.
Lemma ex_canonical_ok : wf_obs_d Standard ex_canonical /\ is_canonical Standard ex_canonical = true /\
                        canon Standard ex_std = Some ex_canonical.
Proof. split; [wf_by_compute | vm_compute; split; reflexivity]. Qed.
Lemma ex_isomorphic : isomorphic ex_std ex_std_b = true.
Proof. vm_compute. reflexivity. Qed.
Lemma ex_permute : permute Standard ex_perm ex_std = Some (relabel_obs ex_perm ex_std).
Proof. vm_compute. reflexivity. Qed.

(* ---------- Rust unit tests: permutation.rs ---------- *)

(* permute_simple: [H, C, S, D] maps the hearts lane onto the spades lane *)
Lemma test_permute_simple :
  image Standard [2; 0; 3; 1] 1145324612 (* 0b0100...0100, 8 ranks *) = Some 2290649224.
Proof. vm_compute. reflexivity. Qed.
(* permute_complex: [D, H, C, S] *)
Lemma test_permute_complex : image Standard [1; 2; 0; 3] 2863285316 = Some 3435925777.
Proof. vm_compute. reflexivity. Qed.
(* permute_unique: the 24 images of Ac Kd Qh Js are pairwise different *)
Lemma test_permute_unique :
  NoDup (map (fun p => image Standard p (hand [cd 12 0; cd 11 1; cd 10 2; cd 9 3])) EXHAUST).
Proof.
  vm_compute. repeat (constructor; [cbn [In]; intuition discriminate|]). constructor.
Qed.
