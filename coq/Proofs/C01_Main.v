(* Proofs/C01_Main.v -- (T1) the evaluator's strength denotes the best five-card value; (T2) order. *)
From Coq Require Import NArith List Bool Lia.
From RP Require Import Base.Bits Gen.GenCards Model.Codec Model.Evaluator Spec.SpecPoker Spec.SpecStrength
  Spec.SpecHand Proofs.C01_Lists Proofs.C01_Abs Proofs.C01_Bits Proofs.C01_Enum
  Proofs.C01_ChkA Proofs.C01_ChkB Proofs.C01_ChkC Proofs.C01_ChkD Proofs.C01_ChkE Proofs.C01_Order.
Import ListNotations.
Open Scope N_scope.

(* ---------- every abstract hand has been checked ---------- *)
Lemma in_le4 : forall x, x <= 4 -> In x [0; 1; 2; 3; 4].
Proof.
  intros x Hx. assert (x = 0 \/ x = 1 \/ x = 2 \/ x = 3 \/ x = 4) as H by lia.
  cbn [In]. destruct H as [H|[H|[H|[H|H]]]]; subst x; tauto.
Qed.

Lemma check_nf_all : forall d c,
  length c = 13%nat -> Forall (fun x => x <= 4) c -> 5 <= sumN c -> sumN c <= 7 ->
  (d = Short -> firstn 4 c = short_prefix) -> check_nf d c = true.
Proof.
  intros d c Hlen Hall H5 H7 Hshort.
  assert (sumN c = 5 \/ sumN c = 6 \/ sumN c = 7) as Hn by lia.
  destruct d.
  - destruct Hn as [Hn|[Hn|Hn]].
    + pose proof (in_chunk c 5 0 Hlen Hall Hn) as Hin. cbn [firstn] in Hin.
      exact (proj1 (forallb_forall _ _) chk_std5 c Hin).
    + pose proof (in_chunk c 6 0 Hlen Hall Hn) as Hin. cbn [firstn] in Hin.
      exact (proj1 (forallb_forall _ _) chk_std6 c Hin).
    + destruct c as [|c0 [|c1 rest]]; try discriminate.
      inversion Hall as [|x0 l0 Hc0 Hall1]; subst x0 l0.
      inversion Hall1 as [|x1 l1 Hc1 _]; subst x1 l1.
      destruct (N.eq_dec c0 0) as [->|Hnz0].
      * destruct (N.eq_dec c1 0) as [->|Hnz1].
        -- pose proof (in_chunk _ 7 2 Hlen Hall Hn) as Hin. cbn [firstn] in Hin.
           exact (proj1 (forallb_forall _ _) chk_std7_00 _ Hin).
        -- pose proof (in_chunk _ 7 2 Hlen Hall Hn) as Hin. cbn [firstn] in Hin.
           pose proof (proj1 (forallb_forall _ _) chk_std7_0x [0; c1]) as Hp. cbv beta in Hp.
           refine (proj1 (forallb_forall _ _) (Hp _) _ Hin).
           assert (c1 = 1 \/ c1 = 2 \/ c1 = 3 \/ c1 = 4) as Hc by lia.
           cbn [In]. destruct Hc as [H|[H|[H|H]]]; subst c1; tauto.
      * pose proof (in_chunk _ 7 1 Hlen Hall Hn) as Hin. cbn [firstn] in Hin.
        pose proof (proj1 (forallb_forall _ _) chk_std7_x [c0]) as Hp. cbv beta in Hp.
        refine (proj1 (forallb_forall _ _) (Hp _) _ Hin).
        assert (c0 = 1 \/ c0 = 2 \/ c0 = 3 \/ c0 = 4) as Hc by lia.
        cbn [In]. destruct Hc as [H|[H|[H|H]]]; subst c0; tauto.
  - specialize (Hshort eq_refl).
    pose proof (in_chunk c (sumN c) 4 Hlen Hall eq_refl) as Hin. rewrite Hshort in Hin.
    pose proof (proj1 (forallb_forall _ _) chk_short (sumN c)) as Hp. cbv beta in Hp.
    refine (proj1 (forallb_forall _ _) (Hp _) _ Hin).
    cbn [In]. destruct Hn as [H|[H|H]]; rewrite H; tauto.
Qed.

Lemma check_fl_all : forall d m, m < 8192 -> check_fl d m = true.
Proof.
  intros d m Hm.
  pose proof (proj1 (forallb_forall _ _) chk_fl d) as Hp. cbv beta in Hp.
  refine (proj1 (forallb_forall _ _) (Hp _) m _).
  - destruct d; cbn [In]; tauto.
  - apply nseq_in; [lia|]. rewrite N2Nat.id. lia.
Qed.

(* ---------- which suit, if any, holds a flush ---------- *)
Lemma position4 : forall f : N -> bool,
  position f [0; 1; 2; 3] =
  if f 0 then Some 0 else if f 1 then Some 1 else if f 2 then Some 2 else if f 3 then Some 3 else None.
Proof. intros f. cbn [position]. destruct (f 0), (f 1), (f 2), (f 3); reflexivity. Qed.

Lemma filter_len_le : forall (f : N -> bool) l, (length (filter f l) <= length l)%nat.
Proof.
  intros f l. induction l as [|x l IH]; [cbn; lia|].
  cbn [filter]. destruct (f x); cbn [length]; lia.
Qed.

Lemma flush_cases : forall d h, valid_hand d h ->
  (flush_mask d h = None /\ forall s, s < 4 -> (length (suited s (hand_cards h)) < 5)%nat)
  \/ (exists s, s < 4 /\ flush_mask d h = Some (rank_mask (hand_of_suit d h s))
        /\ (5 <= length (suited s (hand_cards h)) <= 7)%nat
        /\ forall t, t < 4 -> t <> s -> (length (suited t (hand_cards h)) < 5)%nat).
Proof.
  intros d h (Hm & H5 & H7).
  assert (length (hand_cards h) <= 7)%nat as Hlen.
  { rewrite popcount64_length in H7. unfold hand_cards. lia. }
  unfold flush_mask, find_suit_of_flush. rewrite position4.
  rewrite !(suit_count_length d h) by (try exact Hm; lia).
  pose proof (fun s t Hne => suited_disjoint s t (hand_cards h) Hne) as Hdis.
  assert (forall s, (length (suited s (hand_cards h)) <= 7)%nat) as Hle.
  { intros s. unfold suited. pose proof (filter_len_le (fun c => suit_of c =? s) (hand_cards h)). lia. }
  destruct (5 <=? N.of_nat (length (suited 0 (hand_cards h)))) eqn:E0;
  [|destruct (5 <=? N.of_nat (length (suited 1 (hand_cards h)))) eqn:E1;
    [|destruct (5 <=? N.of_nat (length (suited 2 (hand_cards h)))) eqn:E2;
      [|destruct (5 <=? N.of_nat (length (suited 3 (hand_cards h)))) eqn:E3]]].
  - right. exists 0. apply N.leb_le in E0. pose proof (Hle 0).
    repeat split; try lia. intros t _ Hne. pose proof (Hdis 0 t (not_eq_sym Hne)). lia.
  - right. exists 1. apply N.leb_le in E1. pose proof (Hle 1).
    repeat split; try lia. intros t _ Hne. pose proof (Hdis 1 t (not_eq_sym Hne)). lia.
  - right. exists 2. apply N.leb_le in E2. pose proof (Hle 2).
    repeat split; try lia. intros t _ Hne. pose proof (Hdis 2 t (not_eq_sym Hne)). lia.
  - right. exists 3. apply N.leb_le in E3. pose proof (Hle 3).
    repeat split; try lia. intros t _ Hne. pose proof (Hdis 3 t (not_eq_sym Hne)). lia.
  - left. split; [reflexivity|]. apply N.leb_gt in E0, E1, E2, E3.
    intros s Hs. apply lt4_cases in Hs. destruct Hs as [Hs|[Hs|[Hs|Hs]]]; subst s; lia.
Qed.

Lemma suit_part_none : forall d cs, (forall s, s < 4 -> (length (suited s cs) < 5)%nat) ->
  lmax (map (fun t => FL d (map rank_of (suited t cs))) [0; 1; 2; 3]) = 0.
Proof.
  intros d cs Hsmall. apply N.le_antisymm; [|lia].
  apply lmax_le. intros x Hx. apply in_map_iff in Hx. destruct Hx as [t [<- Ht]].
  assert (t < 4) as Ht4 by (cbn [In] in Ht; lia).
  rewrite FL_short by (rewrite map_length; apply Hsmall; exact Ht4). lia.
Qed.

Lemma suit_part_some : forall d cs s R, s < 4 -> map rank_of (suited s cs) = R ->
  (forall t, t < 4 -> t <> s -> (length (suited t cs) < 5)%nat) ->
  lmax (map (fun t => FL d (map rank_of (suited t cs))) [0; 1; 2; 3]) = FL d R.
Proof.
  intros d cs s R Hs HR Hother. apply N.le_antisymm.
  - apply lmax_le. intros x Hx. apply in_map_iff in Hx. destruct Hx as [t [<- Ht]].
    assert (t < 4) as Ht4 by (cbn [In] in Ht; lia).
    destruct (N.eq_dec t s) as [->|Hne]; [rewrite HR; lia|].
    rewrite FL_short by (rewrite map_length; apply Hother; assumption). lia.
  - rewrite <- HR. apply lmax_in.
    apply (in_map (fun t => FL d (map rank_of (suited t cs)))). apply suit_cases. exact Hs.
Qed.

(* ---------- T1 (with well-formedness) ---------- *)
Lemma nf_checked : forall d h, valid_hand d h -> check_nf d (cvec h) = true.
Proof.
  intros d h (Hm & H5 & H7). apply check_nf_all.
  - apply cvec_length.
  - apply cvec_le4.
  - rewrite (cvec_sum d h Hm). exact H5.
  - rewrite (cvec_sum d h Hm). exact H7.
  - intros ->. apply cvec_short_low. exact Hm.
Qed.

Definition goal_T1 (d : deck) (h : N) (fl : option N) : Prop :=
  exists s, SAcore d (cvec h) (rmA (cvec h)) fl = Some s
    /\ strength_value d s =
       N.max (NF d (expand (cvec h)))
             (lmax (map (fun t => FL d (map rank_of (suited t (hand_cards h)))) [0; 1; 2; 3]))
    /\ wf_strength d s.

Lemma case_no_flush : forall d h, valid_hand d h ->
  (forall s, s < 4 -> (length (suited s (hand_cards h)) < 5)%nat) -> goal_T1 d h None.
Proof.
  intros d h Hv Hsmall. pose proof (nf_checked d h Hv) as Hnf. unfold check_nf in Hnf. unfold goal_T1.
  destruct (SAcore d (cvec h) (rmA (cvec h)) None) as [st|]; [|discriminate].
  apply andb_prop in Hnf. destruct Hnf as [Hnf _]. apply andb_prop in Hnf. destruct Hnf as [Hval Hwf].
  exists st. split; [reflexivity|]. split; [|apply wfb_sound; exact Hwf].
  apply N.eqb_eq in Hval. rewrite Hval.
  rewrite (suit_part_none d _ Hsmall). symmetry. apply N.max_0_r.
Qed.

Lemma nf_below_floor : forall d h, valid_hand d h ->
  (5 <= length (rbits (rmA (cvec h))))%nat -> NF d (expand (cvec h)) < flush_floor d.
Proof.
  intros d h Hv Hlen. pose proof (nf_checked d h Hv) as Hnf. unfold check_nf in Hnf.
  destruct (SAcore d (cvec h) (rmA (cvec h)) None) as [st0|]; [|discriminate].
  apply andb_prop in Hnf. destruct Hnf as [_ Hlow].
  replace (5 <=? N.of_nat (length (rbits (rmA (cvec h))))) with true in Hlow by (symmetry; apply N.leb_le; lia).
  apply N.ltb_lt. exact Hlow.
Qed.

Lemma fl_checked : forall d m, m < 8192 -> (5 <= length (rbits m) <= 7)%nat ->
  exists st, SAflush d m = Some st /\ rank_of_mask m <> None /\
    strength_value d st = FL d (rbits m) /\ wfb st = true /\ flush_floor d <= FL d (rbits m).
Proof.
  intros d m Hm Hlen. pose proof (check_fl_all d m Hm) as Hcf. unfold check_fl in Hcf.
  replace (5 <=? N.of_nat (length (rbits m))) with true in Hcf by (symmetry; apply N.leb_le; lia).
  replace (N.of_nat (length (rbits m)) <=? 7) with true in Hcf by (symmetry; apply N.leb_le; lia).
  cbn [andb] in Hcf.
  destruct (SAflush d m) as [st|]; [|discriminate].
  destruct (rank_of_mask m) as [top|]; [|discriminate].
  apply andb_prop in Hcf. destruct Hcf as [Hcf Hfloor]. apply andb_prop in Hcf. destruct Hcf as [Hval Hwf].
  exists st. split; [reflexivity|]. split; [discriminate|].
  split; [apply N.eqb_eq; exact Hval|]. split; [exact Hwf|apply N.leb_le; exact Hfloor].
Qed.

Lemma case_flush : forall d h s, valid_hand d h -> s < 4 ->
  (5 <= length (suited s (hand_cards h)) <= 7)%nat ->
  (forall t, t < 4 -> t <> s -> (length (suited t (hand_cards h)) < 5)%nat) ->
  goal_T1 d h (Some (rank_mask (hand_of_suit d h s))).
Proof.
  intros d h s Hv Hs Hlen Hother. pose proof Hv as (Hm & _ & _). unfold goal_T1.
  pose proof (suited_ranks d h s Hm Hs) as HR.
  pose proof (suit_ranks_sub d h s Hm Hs) as Hsub. rewrite (rank_mask_rmA h) in Hsub.
  pose proof (rank_mask_lt (hand_of_suit d h s)) as Hlt.
  remember (rank_mask (hand_of_suit d h s)) as m eqn:Hmdef. clear Hmdef.
  assert (length (rbits m) = length (suited s (hand_cards h))) as HLm
    by (rewrite <- HR; apply map_length).
  destruct (fl_checked d m Hlt) as [st [Hst [Htop [Hval [Hwf Hfloor]]]]]; [lia|].
  rewrite (SAcore_flush d _ _ m Htop), Hst.
  exists st. split; [reflexivity|]. split; [|apply wfb_sound; exact Hwf].
  rewrite Hval, (suit_part_some d (hand_cards h) s (rbits m) Hs HR Hother).
  assert (NF d (expand (cvec h)) < flush_floor d) as Hlow by (apply nf_below_floor; [exact Hv|lia]).
  lia.
Qed.

Theorem strength_is_best5_wf : forall d h, valid_hand d h ->
  exists s, strength_of d h = Some s /\ strength_value d s = best5 d (hand_cards h) /\ wf_strength d s.
Proof.
  intros d h Hv. pose proof Hv as (Hm & _ & _).
  rewrite strength_of_SAcore, (rank_mask_rmA h), best5_split, (hand_ranks_expand d h Hm).
  destruct (flush_cases d h Hv) as [[Hfl Hsmall]|[s [Hs [Hfl [Hlen Hother]]]]]; rewrite Hfl.
  - exact (case_no_flush d h Hv Hsmall).
  - exact (case_flush d h s Hv Hs Hlen Hother).
Qed.

Theorem strength_is_best5 : forall d h, valid_hand d h ->
  exists s, strength_of d h = Some s /\ strength_value d s = best5 d (hand_cards h).
Proof.
  intros d h Hv. destruct (strength_is_best5_wf d h Hv) as [s [Hs [Hval _]]].
  exists s. split; assumption.
Qed.

Theorem strength_wf : forall d h s, valid_hand d h -> strength_of d h = Some s -> wf_strength d s.
Proof.
  intros d h s Hv Hs. destruct (strength_is_best5_wf d h Hv) as [s' [Hs' [_ Hwf]]].
  rewrite Hs in Hs'. injection Hs' as ->. exact Hwf.
Qed.

(* ---------- T2 ---------- *)
Theorem strength_order : forall d h1 h2, valid_hand d h1 -> valid_hand d h2 ->
  exists s1 s2, strength_of d h1 = Some s1 /\ strength_of d h2 = Some s2 /\
    cmp_strength d s1 s2 = cmp_spec d (hand_cards h1) (hand_cards h2).
Proof.
  intros d h1 h2 Hv1 Hv2.
  destruct (strength_is_best5_wf d h1 Hv1) as [s1 [Hs1 [Hval1 Hwf1]]].
  destruct (strength_is_best5_wf d h2 Hv2) as [s2 [Hs2 [Hval2 Hwf2]]].
  exists s1, s2. split; [exact Hs1|]. split; [exact Hs2|].
  rewrite (cmp_strength_value d s1 s2 Hwf1 Hwf2), Hval1, Hval2. reflexivity.
Qed.
