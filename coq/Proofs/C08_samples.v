(* Proofs/C08_samples.v -- the distribution of external-sampling trees (Spec/SpecSampling.v): unfolding
   equations, total probability 1, non-negative probabilities, every sample has external-sampling shape
   and normalised traverser strategies. *)
From Coq Require Import NArith QArith List Bool Lia Lqa Field Qfield Setoid Morphisms.
From RP Require Import Model.Cfr Spec.SpecCfr Spec.SpecSampling Proofs.C08_base Proofs.C08_dist.
Import ListNotations.
Open Scope Q_scope.

Lemma kind_eq_walker : forall k : kind, k = KWalker \/ k <> KWalker.
Proof. intros k. destruct k; [left; reflexivity | right; discriminate | right; discriminate]. Qed.

(* ---------- unfolding ---------- *)
Definition mk_edge (k : kind) (j : nat) (est : N * Q * qtree) (s : stree) : sedge :=
  (j, code est, kept_sigma k (prob est), s).

(* the per-child distributions used by isamples at a node of kind k whose children (numbered from j) are ch *)
Definition eds (k : kind) (j : nat) (ch : list (N * Q * qtree)) : list (Q * dist sedge) :=
  edge_dists k j ch (map (fun est => isamples (snd est)) ch).

Lemma eds_nil : forall k j, eds k j [] = [].
Proof. reflexivity. Qed.

Lemma eds_cons : forall k j est ch,
  eds k j (est :: ch) = (prob est, dmap (mk_edge k j est) (isamples (snd est))) :: eds k (S j) ch.
Proof. reflexivity. Qed.

Definition pick_one (l : list (Q * dist sedge)) : dist sedge :=
  flat_map (fun pd => dscale (fst pd) (snd pd)) l.

Lemma isamples_leaf : forall k b p, isamples (T k b p []) = [(1, ST k b p [])].
Proof. reflexivity. Qed.

Lemma isamples_walker : forall b p ch, ch <> [] ->
  isamples (T KWalker b p ch) = dmap (fun l => ST KWalker b p l) (dprod (map snd (eds KWalker 0 ch))).
Proof. intros b p ch Hne. destruct ch as [|x l]; [congruence | reflexivity]. Qed.

Lemma isamples_other : forall k b p ch, ch <> [] -> k <> KWalker ->
  isamples (T k b p ch) = dmap (fun x => ST k b p [x]) (pick_one (eds k 0 ch)).
Proof.
  intros k b p ch Hne Hk. destruct ch as [|x l]; [congruence|]. destruct k; [congruence | reflexivity | reflexivity].
Qed.

Definition fedge (x : sedge) : N * Q * qtree := let '(j, e, s, c) := x in (e, s, forget c).

Lemma forget_eq : forall k b p l, forget (ST k b p l) = T k b p (map fedge l).
Proof. reflexivity. Qed.

Lemma fedge_mk : forall k j est s, fedge (mk_edge k j est s) = (code est, kept_sigma k (prob est), forget s).
Proof. reflexivity. Qed.

Lemma pick_one_cons : forall pd l, pick_one (pd :: l) = dscale (fst pd) (snd pd) ++ pick_one l.
Proof. reflexivity. Qed.

(* expectation over "keep exactly one child": first child or one of the others *)
Lemma expect_pick_cons : forall (F : sedge -> Q) k j est ch,
  expect F (pick_one (eds k j (est :: ch)))
  == prob est * expect (fun s => F (mk_edge k j est s)) (isamples (snd est))
     + expect F (pick_one (eds k (S j) ch)).
Proof.
  intros F k j est ch. rewrite eds_cons, pick_one_cons, expect_app. cbn [fst snd].
  rewrite expect_dscale, expect_dmap. reflexivity.
Qed.

(* ---------- total probability 1, non-negative probabilities ---------- *)
Lemma full_ok_inv : forall k b p ch, full_ok (T k b p ch) ->
  (forall est, In est ch -> 0 <= prob est) /\
  (ch <> [] -> sigma_sum ch == 1) /\
  (forall est, In est ch -> full_ok (snd est)).
Proof.
  intros k b p ch H. inversion H as [k' b' p' ch' H1 H2 H3]; subst.
  rewrite Forall_forall in H1, H3. repeat split; assumption.
Qed.

Lemma eds_totals : forall k ch j,
  (forall est, In est ch -> total (isamples (snd est)) == 1) ->
  Forall (fun d => total d == 1) (map snd (eds k j ch)).
Proof.
  intros k ch. induction ch as [|est ch IH]; intros j H.
  - rewrite eds_nil. constructor.
  - rewrite eds_cons. cbn [map snd]. constructor.
    + rewrite total_dmap. apply H. left. reflexivity.
    + apply IH. intros est' Hin. apply H. right. exact Hin.
Qed.

Lemma pick_total : forall k ch j,
  (forall est, In est ch -> total (isamples (snd est)) == 1) ->
  total (pick_one (eds k j ch)) == sumQ (map prob ch).
Proof.
  intros k ch. induction ch as [|est ch IH]; intros j H.
  - reflexivity.
  - rewrite total_expect, expect_pick_cons, <- !total_expect. cbn [map]. rewrite sumQ_cons.
    rewrite (H est (or_introl eq_refl)). rewrite IH.
    + ring.
    + intros est' Hin. apply H. right. exact Hin.
Qed.

Lemma isamples_total : forall t, full_ok t -> total (isamples t) == 1.
Proof.
  intros t. induction t as [k b p ch IH] using qtree_ind'. intros Hok.
  destruct (full_ok_inv _ _ _ _ Hok) as [_ [Hsum Hsub]]. rewrite Forall_forall in IH.
  assert (Hch : forall est, In est ch -> total (isamples (snd est)) == 1).
  { intros est Hin. apply IH; [exact Hin | apply Hsub; exact Hin]. }
  destruct ch as [|x l].
  - rewrite isamples_leaf, total_cons, total_nil. cbn [fst]. ring.
  - assert (Hne : x :: l <> []) by discriminate.
    destruct (kind_eq_walker k) as [Ek | Ek].
    + subst k. rewrite (isamples_walker b p _ Hne), total_dmap.
      apply total_dprod_one. apply eds_totals. exact Hch.
    + rewrite (isamples_other k b p _ Hne Ek), total_dmap.
      rewrite (pick_total k _ 0%nat Hch). rewrite <- sigma_sum_sumQ. apply Hsum. exact Hne.
Qed.

Lemma eds_nonneg : forall k ch j,
  (forall est, In est ch -> dnonneg (isamples (snd est))) ->
  Forall dnonneg (map snd (eds k j ch)).
Proof.
  intros k ch. induction ch as [|est ch IH]; intros j H.
  - rewrite eds_nil. constructor.
  - rewrite eds_cons. cbn [map snd]. constructor.
    + apply dnonneg_dmap. apply H. left. reflexivity.
    + apply IH. intros est' Hin. apply H. right. exact Hin.
Qed.

Lemma pick_nonneg : forall k ch j,
  (forall est, In est ch -> 0 <= prob est) ->
  (forall est, In est ch -> dnonneg (isamples (snd est))) ->
  dnonneg (pick_one (eds k j ch)).
Proof.
  intros k ch. induction ch as [|est ch IH]; intros j Hp H.
  - rewrite eds_nil. intros q a [].
  - rewrite eds_cons, pick_one_cons. cbn [fst snd]. apply dnonneg_app.
    + apply dnonneg_dscale; [apply Hp; left; reflexivity|].
      apply dnonneg_dmap. apply H. left. reflexivity.
    + apply IH; intros est' Hin; [apply Hp | apply H]; right; exact Hin.
Qed.

Lemma isamples_nonneg : forall t, full_ok t -> dnonneg (isamples t).
Proof.
  intros t. induction t as [k b p ch IH] using qtree_ind'. intros Hok.
  destruct (full_ok_inv _ _ _ _ Hok) as [Hp [_ Hsub]]. rewrite Forall_forall in IH.
  assert (Hch : forall est, In est ch -> dnonneg (isamples (snd est))).
  { intros est Hin. apply IH; [exact Hin | apply Hsub; exact Hin]. }
  destruct ch as [|x l].
  - rewrite isamples_leaf. intros q a [E | []]. inversion E; subst. lra.
  - assert (Hne : x :: l <> []) by discriminate.
    destruct (kind_eq_walker k) as [Ek | Ek].
    + subst k. rewrite (isamples_walker b p _ Hne). apply dnonneg_dmap.
      apply dnonneg_dprod. apply eds_nonneg. exact Hch.
    + rewrite (isamples_other k b p _ Hne Ek). apply dnonneg_dmap.
      apply pick_nonneg; assumption.
Qed.

Theorem samples_total : forall t, full_ok t ->
  total (samples t) == 1 /\ Forall (fun ps => 0 <= fst ps) (samples t).
Proof.
  intros t Hok. unfold samples. split.
  - rewrite total_dmap. apply isamples_total. exact Hok.
  - apply Forall_forall. intros [q s] Hin. cbn [fst].
    exact (dnonneg_dmap _ _ forget _ (isamples_nonneg t Hok) q s Hin).
Qed.

(* ---------- supports ---------- *)
(* x is a kept copy of one of the edges ch of a node of kind k, with a sample of the subtree below it *)
Definition edge_of (k : kind) (ch : list (N * Q * qtree)) (x : sedge) : Prop :=
  exists j est q s, In est ch /\ In (q, s) (isamples (snd est)) /\ x = mk_edge k j est s.

Lemma edge_of_cons : forall k est ch x, edge_of k ch x -> edge_of k (est :: ch) x.
Proof.
  intros k est ch x [j [est' [q [s [Hin [Hs E]]]]]]. exists j, est', q, s.
  split; [right; exact Hin | split; assumption].
Qed.

Lemma eds_support : forall k ch j l,
  Forall2 (fun x (d : dist sedge) => exists q, In (q, x) d) l (map snd (eds k j ch)) ->
  Forall (edge_of k ch) l /\ length l = length ch.
Proof.
  intros k ch. induction ch as [|est ch IH]; intros j l H.
  - rewrite eds_nil in H. inversion H; subst. split; [constructor | reflexivity].
  - rewrite eds_cons in H. cbn [map snd] in H.
    inversion H as [|x d l' ds' Hx Hl E1 E2]; subst.
    destruct (IH _ _ Hl) as [IH1 IH2]. split.
    + constructor.
      * destruct Hx as [q Hq]. apply in_dmap in Hq. destruct Hq as [s [E Hs]].
        exists j, est, q, s. split; [left; reflexivity | split; assumption].
      * apply Forall_forall. intros y Hy. apply edge_of_cons.
        rewrite Forall_forall in IH1. apply IH1. exact Hy.
    + cbn [length]. rewrite IH2. reflexivity.
Qed.

Lemma walker_support : forall k ch q l,
  In (q, l) (dprod (map snd (eds k 0 ch))) -> Forall (edge_of k ch) l /\ length l = length ch.
Proof. intros k ch q l H. apply (eds_support k ch 0%nat). apply (in_dprod_support _ _ q). exact H. Qed.

Lemma pick_support : forall k ch j q x, In (q, x) (pick_one (eds k j ch)) -> edge_of k ch x.
Proof.
  intros k ch. induction ch as [|est ch IH]; intros j q x H.
  - rewrite eds_nil in H. destruct H.
  - rewrite eds_cons, pick_one_cons in H. cbn [fst snd] in H. apply in_app_or in H.
    destruct H as [H | H].
    + apply in_dscale in H. destruct H as [q' [_ H]]. apply in_dmap in H. destruct H as [s [E Hs]].
      exists j, est, q', s. split; [left; reflexivity | split; assumption].
    + apply edge_of_cons. exact (IH _ _ _ H).
Qed.

(* ---------- every sample has external-sampling shape ---------- *)
Lemma full_pos_inv : forall k b p ch, full_pos (T k b p ch) ->
  (k <> KChance -> forall est, In est ch -> 0 < prob est) /\
  (forall est, In est ch -> full_pos (snd est)).
Proof.
  intros k b p ch H. inversion H as [k' b' p' ch' H1 H2]; subst.
  rewrite Forall_forall in H2. split; [|exact H2].
  intros Hk. specialize (H1 Hk). rewrite Forall_forall in H1. exact H1.
Qed.

Lemma sigma_ok_kept : forall k p, (k <> KChance -> 0 < p) -> sigma_ok k (kept_sigma k p).
Proof.
  intros k p H. destruct k; cbn [sigma_ok kept_sigma].
  - apply H. discriminate.
  - apply H. discriminate.
  - reflexivity.
Qed.

Lemma isamples_es_shape : forall t, full_pos t -> forall q s, In (q, s) (isamples t) -> es_shape (forget s).
Proof.
  intros t. induction t as [k b p ch IH] using qtree_ind'. intros Hpos q s Hin.
  destruct (full_pos_inv _ _ _ _ Hpos) as [Hp Hsub]. rewrite Forall_forall in IH.
  assert (Hedge : forall x, edge_of k ch x -> sigma_ok k (snd (fst (fedge x))) /\ es_shape (snd (fedge x))).
  { intros x [j [est [q' [s' [Hest [Hs E]]]]]]. subst x. rewrite fedge_mk. cbn [fst snd]. split.
    - apply sigma_ok_kept. intros Hk. apply Hp; assumption.
    - apply (IH est Hest (Hsub est Hest) q' s' Hs). }
  destruct ch as [|x0 l0].
  - rewrite isamples_leaf in Hin. destruct Hin as [E | []]. inversion E; subst.
    rewrite forget_eq. cbn [map]. constructor; [intros _; cbn [length]; lia | constructor | constructor].
  - assert (Hne : x0 :: l0 <> []) by discriminate.
    destruct (kind_eq_walker k) as [Ek | Ek].
    + subst k. rewrite (isamples_walker b p _ Hne) in Hin. apply in_dmap in Hin.
      destruct Hin as [l [E Hl]]. subst s. rewrite forget_eq.
      destruct (walker_support _ _ _ _ Hl) as [Hall _]. rewrite Forall_forall in Hall.
      constructor.
      * intros Hk. congruence.
      * apply Forall_forall. intros est' Hin'. apply in_map_iff in Hin'. destruct Hin' as [x [E Hx]]. subst est'.
        apply (Hedge x (Hall x Hx)).
      * apply Forall_forall. intros est' Hin'. apply in_map_iff in Hin'. destruct Hin' as [x [E Hx]]. subst est'.
        apply (Hedge x (Hall x Hx)).
    + rewrite (isamples_other k b p _ Hne Ek) in Hin. apply in_dmap in Hin.
      destruct Hin as [x [E Hx]]. subst s. rewrite forget_eq. apply pick_support in Hx.
      destruct (Hedge x Hx) as [H1 H2]. cbn [map]. constructor.
      * intros _. cbn [length]. lia.
      * constructor; [exact H1 | constructor].
      * constructor; [exact H2 | constructor].
Qed.

Theorem samples_es_shape : forall t, full_pos t -> forall q s, In (q, s) (samples t) -> es_shape s.
Proof.
  intros t Hpos q s Hin. unfold samples in Hin. apply in_dmap in Hin. destruct Hin as [s' [E Hs]]. subst s.
  exact (isamples_es_shape t Hpos q s' Hs).
Qed.

(* ---------- ... and normalised traverser strategies ---------- *)
Lemma walker_sigma_sum : forall ch j q l,
  In (q, l) (dprod (map snd (eds KWalker j ch))) -> sigma_sum (map fedge l) = sigma_sum ch.
Proof.
  intros ch. induction ch as [|est ch IH]; intros j q l H.
  - rewrite eds_nil in H. cbn [map] in H. rewrite dprod_nil in H. destruct H as [E | []].
    inversion E; subst. reflexivity.
  - rewrite eds_cons in H. cbn [map snd] in H. apply in_dprod_cons in H.
    destruct H as [p0 [x [q' [l' [Hx [Hl [Eq El]]]]]]]. subst l.
    apply in_dmap in Hx. destruct Hx as [s [E Hs]]. subst x.
    cbn [map sigma_sum fold_right]. rewrite fedge_mk. cbn [fst snd kept_sigma].
    fold (sigma_sum (map fedge l')). fold (sigma_sum ch). rewrite (IH _ _ _ Hl). reflexivity.
Qed.

Lemma isamples_normalised : forall t, full_ok t ->
  forall q s, In (q, s) (isamples t) -> sigma_normalised (forget s).
Proof.
  intros t. induction t as [k b p ch IH] using qtree_ind'. intros Hok q s Hin.
  destruct (full_ok_inv _ _ _ _ Hok) as [_ [Hsum Hsub]]. rewrite Forall_forall in IH.
  assert (Hedge : forall x, edge_of k ch x -> sigma_normalised (snd (fedge x))).
  { intros x [j [est [q' [s' [Hest [Hs E]]]]]]. subst x. rewrite fedge_mk. cbn [fst snd].
    apply (IH est Hest (Hsub est Hest) q' s' Hs). }
  destruct ch as [|x0 l0].
  - rewrite isamples_leaf in Hin. destruct Hin as [E | []]. inversion E; subst.
    rewrite forget_eq. cbn [map]. constructor; [intros _ Hc; congruence | constructor].
  - assert (Hne : x0 :: l0 <> []) by discriminate.
    destruct (kind_eq_walker k) as [Ek | Ek].
    + subst k. rewrite (isamples_walker b p _ Hne) in Hin. apply in_dmap in Hin.
      destruct Hin as [l [E Hl]]. subst s. rewrite forget_eq.
      destruct (walker_support _ _ _ _ Hl) as [Hall _]. rewrite Forall_forall in Hall.
      constructor.
      * intros _ _. rewrite (walker_sigma_sum _ _ _ _ Hl). apply Hsum. exact Hne.
      * apply Forall_forall. intros est' Hin'. apply in_map_iff in Hin'. destruct Hin' as [x [E Hx]]. subst est'.
        apply (Hedge x (Hall x Hx)).
    + rewrite (isamples_other k b p _ Hne Ek) in Hin. apply in_dmap in Hin.
      destruct Hin as [x [E Hx]]. subst s. rewrite forget_eq. apply pick_support in Hx.
      cbn [map]. constructor.
      * intros Hk. congruence.
      * constructor; [exact (Hedge x Hx) | constructor].
Qed.

Theorem samples_normalised : forall t, full_ok t -> forall q s, In (q, s) (samples t) -> sigma_normalised s.
Proof.
  intros t Hok q s Hin. unfold samples in Hin. apply in_dmap in Hin. destruct Hin as [s' [E Hs]]. subst s.
  exact (isamples_normalised t Hok q s' Hs).
Qed.

(* ---------- external-sampling shape of the samples of positive probability ----------
   when only the traverser's strategy is strictly positive *)
Definition edge_of_pos (k : kind) (ch : list (N * Q * qtree)) (x : sedge) : Prop :=
  exists j est q s, In est ch /\ (k <> KWalker -> 0 < prob est) /\ 0 < q /\
                    In (q, s) (isamples (snd est)) /\ x = mk_edge k j est s.

Lemma edge_of_pos_cons : forall k est ch x, edge_of_pos k ch x -> edge_of_pos k (est :: ch) x.
Proof.
  intros k est ch x [j [est' [q [s [Hin H]]]]]. exists j, est', q, s.
  split; [right; exact Hin | exact H].
Qed.

Lemma eds_support_pos : forall ch j l,
  Forall2 (fun x (d : dist sedge) => exists q, 0 < q /\ In (q, x) d) l (map snd (eds KWalker j ch)) ->
  Forall (edge_of_pos KWalker ch) l.
Proof.
  intros ch. induction ch as [|est ch IH]; intros j l H.
  - rewrite eds_nil in H. inversion H; subst. constructor.
  - rewrite eds_cons in H. cbn [map snd] in H.
    inversion H as [|x d l' ds' Hx Hl E1 E2]; subst.
    constructor.
    + destruct Hx as [q [Hq0 Hq]]. apply in_dmap in Hq. destruct Hq as [s [E Hs]].
      exists j, est, q, s. split; [left; reflexivity|]. split; [intros Hk; congruence|].
      split; [exact Hq0 | split; assumption].
    + apply Forall_forall. intros y Hy. apply edge_of_pos_cons.
      pose proof (IH _ _ Hl) as IH1. rewrite Forall_forall in IH1. apply IH1. exact Hy.
Qed.

Lemma pick_support_pos : forall k ch j q x,
  (forall est, In est ch -> 0 <= prob est) ->
  (forall est, In est ch -> dnonneg (isamples (snd est))) ->
  In (q, x) (pick_one (eds k j ch)) -> 0 < q -> edge_of_pos k ch x.
Proof.
  intros k ch. induction ch as [|est ch IH]; intros j q x Hp Hnn H Hq.
  - rewrite eds_nil in H. destruct H.
  - rewrite eds_cons, pick_one_cons in H. cbn [fst snd] in H. apply in_app_or in H.
    destruct H as [H | H].
    + apply in_dscale in H. destruct H as [q' [Eq H]]. apply in_dmap in H. destruct H as [s [E Hs]].
      subst q.
      destruct (Qmult_pos_factors _ _ (Hp est (or_introl eq_refl)) (Hnn est (or_introl eq_refl) q' s Hs) Hq)
        as [Hp0 Hq0].
      exists j, est, q', s. split; [left; reflexivity|]. split; [intros _; exact Hp0|].
      split; [exact Hq0 | split; assumption].
    + apply edge_of_pos_cons. apply (IH (S j) q x); try assumption.
      * intros est' Hin. apply Hp. right. exact Hin.
      * intros est' Hin. apply Hnn. right. exact Hin.
Qed.

Lemma walker_pos_inv : forall k b p ch, walker_pos (T k b p ch) ->
  (k = KWalker -> forall est, In est ch -> 0 < prob est) /\
  (forall est, In est ch -> walker_pos (snd est)).
Proof.
  intros k b p ch H. inversion H as [k' b' p' ch' H1 H2]; subst.
  rewrite Forall_forall in H2. split; [|exact H2].
  intros Hk. specialize (H1 Hk). rewrite Forall_forall in H1. exact H1.
Qed.

Lemma isamples_es_shape_support : forall t, full_ok t -> walker_pos t ->
  forall q s, In (q, s) (isamples t) -> 0 < q -> es_shape (forget s).
Proof.
  intros t. induction t as [k b p ch IH] using qtree_ind'. intros Hok Hpos q s Hin Hq.
  destruct (full_ok_inv _ _ _ _ Hok) as [Hp [_ Hsub]].
  destruct (walker_pos_inv _ _ _ _ Hpos) as [Hwp Hwsub]. rewrite Forall_forall in IH.
  assert (Hnn : forall est, In est ch -> dnonneg (isamples (snd est))).
  { intros est Hest. apply isamples_nonneg. apply Hsub. exact Hest. }
  assert (Hedge : forall x, edge_of_pos k ch x -> sigma_ok k (snd (fst (fedge x))) /\ es_shape (snd (fedge x))).
  { intros x [j [est [q' [s' [Hest [Hpe [Hq' [Hs E]]]]]]]]. subst x. rewrite fedge_mk. cbn [fst snd]. split.
    - apply sigma_ok_kept. intros _. destruct (kind_eq_walker k) as [Ek | Ek].
      + apply Hwp; assumption.
      + apply Hpe. exact Ek.
    - apply (IH est Hest (Hsub est Hest) (Hwsub est Hest) q' s' Hs Hq'). }
  destruct ch as [|x0 l0].
  - rewrite isamples_leaf in Hin. destruct Hin as [E | []]. inversion E; subst.
    rewrite forget_eq. cbn [map]. constructor; [intros _; cbn [length]; lia | constructor | constructor].
  - assert (Hne : x0 :: l0 <> []) by discriminate.
    destruct (kind_eq_walker k) as [Ek | Ek].
    + subst k. rewrite (isamples_walker b p _ Hne) in Hin. apply in_dmap in Hin.
      destruct Hin as [l [E Hl]]. subst s. rewrite forget_eq.
      pose proof (eds_support_pos _ 0%nat l
                    (in_dprod_support_pos _ _ q l (eds_nonneg KWalker _ 0%nat Hnn) Hl Hq)) as Hall.
      rewrite Forall_forall in Hall.
      constructor.
      * intros Hk. congruence.
      * apply Forall_forall. intros est' Hin'. apply in_map_iff in Hin'. destruct Hin' as [x [E Hx]]. subst est'.
        apply (Hedge x (Hall x Hx)).
      * apply Forall_forall. intros est' Hin'. apply in_map_iff in Hin'. destruct Hin' as [x [E Hx]]. subst est'.
        apply (Hedge x (Hall x Hx)).
    + rewrite (isamples_other k b p _ Hne Ek) in Hin. apply in_dmap in Hin.
      destruct Hin as [x [E Hx]]. subst s. rewrite forget_eq.
      pose proof (pick_support_pos k _ 0%nat q x Hp Hnn Hx Hq) as Hx'.
      destruct (Hedge x Hx') as [H1 H2]. cbn [map]. constructor.
      * intros _. cbn [length]. lia.
      * constructor; [exact H1 | constructor].
      * constructor; [exact H2 | constructor].
Qed.

Theorem samples_es_shape_support : forall t, full_ok t -> walker_pos t ->
  forall q s, In (q, s) (samples t) -> 0 < q -> es_shape s.
Proof.
  intros t Hok Hpos q s Hin Hq. unfold samples in Hin. apply in_dmap in Hin.
  destruct Hin as [s' [E Hs]]. subst s.
  exact (isamples_es_shape_support t Hok Hpos q s' Hs Hq).
Qed.
