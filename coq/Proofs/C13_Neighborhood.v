(* Proofs/C13_Neighborhood.v -- Layer::neighborhood: the first index attaining the minimum;
   abort on a NaN. *)
From Coq Require Import Arith NArith List Bool Lia.
From RP Require Import Model.Kmeans Spec.SpecKmeans.
Import ListNotations.

Lemma strict_total_is_weak : forall (F : Type) (flt : F -> F -> bool),
  strict_total_order flt -> strict_weak_order flt.
Proof.
  intros F flt [Hi Ht Htot]. constructor; [exact Hi | exact Ht |].
  intros x y z Hxy.
  destruct (Htot x z) as [H | [H | H]].
  - left. exact H.
  - subst z. right. exact Hxy.
  - right. exact (Ht z x y H Hxy).
Qed.

Lemma nth_error_snoc : forall (A : Type) (l : list A) (a b : A) (i : nat),
  nth_error (l ++ [a]) i = Some b ->
  nth_error l i = Some b \/ (i = length l /\ a = b).
Proof.
  intros A l a b i H.
  destruct (Nat.lt_ge_cases i (length l)) as [Hlt | Hge].
  - left. rewrite nth_error_app1 in H by exact Hlt. exact H.
  - right. rewrite nth_error_app2 in H by exact Hge.
    destruct (i - length l)%nat as [|d] eqn:E.
    + cbn [nth_error] in H. injection H as H. split; [lia | exact H].
    + cbn [nth_error] in H. destruct d; discriminate H.
Qed.

Section Order.
Variable F : Type.
Variable flt : F -> F -> bool.
Hypothesis Hswo : strict_weak_order flt.

(* x, at index j of the list, is a minimum of the list and the first one *)
Definition first_min (l : list (option F)) (j : nat) (x : F) : Prop :=
  nth_error l j = Some (Some x) /\
  (forall i y, nth_error l i = Some (Some y) -> flt y x = false) /\
  (forall i y, (i < j)%nat -> nth_error l i = Some (Some y) -> flt x y = true).

Definition inv (pre : list (option F)) (best : option (nat * F)) : Prop :=
  match best with
  | None => pre = []
  | Some (j, x) => first_min pre j x
  end.

Lemma inv_step : forall pre best x,
  inv pre best ->
  inv (pre ++ [Some x])
      (match best with
       | None => Some (length pre, x)
       | Some (j, y) => if flt x y then Some (length pre, x) else best
       end).
Proof.
  intros pre best x Hinv.
  destruct Hswo as [Hirr Htr Hco].
  destruct best as [[j y]|].
  - cbn [inv] in Hinv. destruct Hinv as (Hj & Hmin & Hfirst).
    destruct (flt x y) eqn:Exy.
    + cbn [inv]. split; [|split].
      * rewrite nth_error_app2 by lia. rewrite Nat.sub_diag. reflexivity.
      * intros i z Hz. apply nth_error_snoc in Hz. destruct Hz as [Hz | [_ Hz]].
        -- pose proof (Hmin i z Hz) as Hzy.
           destruct (flt z x) eqn:Ezx; [|reflexivity].
           rewrite (Htr z x y Ezx Exy) in Hzy. discriminate Hzy.
        -- injection Hz as Hz. subst z. apply Hirr.
      * intros i z Hi Hz. apply nth_error_snoc in Hz. destruct Hz as [Hz | [Hz _]]; [|lia].
        pose proof (Hmin i z Hz) as Hzy.
        destruct (Hco x y z Exy) as [H | H]; [exact H|].
        rewrite H in Hzy. discriminate Hzy.
    + cbn [inv]. split; [|split].
      * assert (Hlt : (j < length pre)%nat) by (apply nth_error_Some; rewrite Hj; discriminate).
        rewrite nth_error_app1 by exact Hlt. exact Hj.
      * intros i z Hz. apply nth_error_snoc in Hz. destruct Hz as [Hz | [_ Hz]].
        -- exact (Hmin i z Hz).
        -- injection Hz as Hz. subst z. exact Exy.
      * intros i z Hi Hz. apply nth_error_snoc in Hz. destruct Hz as [Hz | [Hz _]].
        -- exact (Hfirst i z Hi Hz).
        -- assert (Hlt : (j < length pre)%nat) by (apply nth_error_Some; rewrite Hj; discriminate).
           lia.
  - cbn [inv] in Hinv. subst pre. cbn [inv app length]. split; [|split].
    + reflexivity.
    + intros i z Hz. destruct i as [|i].
      * cbn [nth_error] in Hz. injection Hz as Hz. subst z. apply Hirr.
      * cbn [nth_error] in Hz. destruct i; discriminate Hz.
    + intros i z Hi. lia.
Qed.

Lemma argmin_aux_spec : forall ds pre best,
  ~ In None ds -> inv pre best ->
  inv (pre ++ ds) (argmin_aux F flt ds (length pre) best) /\
  (pre ++ ds <> [] -> argmin_aux F flt ds (length pre) best <> None).
Proof.
  induction ds as [|d ds IH]; intros pre best Hsome Hinv.
  - rewrite app_nil_r. cbn [argmin_aux]. split; [exact Hinv|].
    intros Hne. destruct best as [b|]; [discriminate|]. cbn [inv] in Hinv. contradiction.
  - destruct d as [x|]; [|exfalso; apply Hsome; left; reflexivity].
    assert (Hsome' : ~ In None ds) by (intros H; apply Hsome; right; exact H).
    pose proof (inv_step pre best x Hinv) as Hstep.
    assert (Hlen : length (pre ++ [Some x]) = S (length pre))
      by (rewrite app_length; cbn [length]; lia).
    assert (Happ : pre ++ Some x :: ds = (pre ++ [Some x]) ++ ds)
      by (rewrite <- app_assoc; reflexivity).
    rewrite Happ.
    assert (Hne : (pre ++ [Some x]) ++ ds <> []).
    { intros H. apply app_eq_nil in H. destruct H as [H _].
      apply app_eq_nil in H. destruct H as [_ H]. discriminate H. }
    cbn [argmin_aux]. destruct best as [[j y]|].
    + destruct (flt x y).
      * specialize (IH (pre ++ [Some x]) (Some (length pre, x)) Hsome' Hstep).
        rewrite Hlen in IH. exact IH.
      * specialize (IH (pre ++ [Some x]) (Some (j, y)) Hsome' Hstep).
        rewrite Hlen in IH. exact IH.
    + specialize (IH (pre ++ [Some x]) (Some (length pre, x)) Hsome' Hstep).
      rewrite Hlen in IH. exact IH.
Qed.

Lemma neighborhood_first_min : forall column,
  ~ In None column -> column <> [] ->
  exists j x, neighborhood F flt column = Some (j, x) /\ first_min column j x.
Proof.
  intros column Hsome Hne.
  destruct (argmin_aux_spec column [] None Hsome eq_refl) as [Hinv Hnn].
  cbn [app length] in Hinv, Hnn. specialize (Hnn Hne).
  assert (Hn : neighborhood F flt column = argmin_aux F flt column 0 None).
  { unfold neighborhood. destruct column; [contradiction | reflexivity]. }
  rewrite Hn.
  destruct (argmin_aux F flt column 0 None) as [[j x]|]; [|contradiction].
  exists j, x. split; [reflexivity | exact Hinv].
Qed.

Theorem neighborhood_nearest : forall column,
  ~ In None column -> column <> [] ->
  exists j x, neighborhood F flt column = Some (j, x) /\
              nth_error column j = Some (Some x) /\
              (forall i y, nth_error column i = Some (Some y) -> flt y x = false) /\
              (forall i y, (i < j)%nat -> nth_error column i = Some (Some y) -> flt x y = true).
Proof. exact neighborhood_first_min. Qed.

(* the index lies within the column *)
Lemma neighborhood_index : forall column j x,
  ~ In None column -> neighborhood F flt column = Some (j, x) ->
  (j < length column)%nat /\ nth_error column j = Some (Some x).
Proof.
  intros column j x Hsome Hn.
  assert (Hne : column <> []) by (intros H; subst column; discriminate Hn).
  destruct (neighborhood_first_min column Hsome Hne) as (j' & x' & Hn' & Hj & _).
  rewrite Hn in Hn'. injection Hn' as Hj' Hx'. subst j' x'.
  split; [|exact Hj]. apply nth_error_Some. rewrite Hj. discriminate.
Qed.

End Order.

(* no hypothesis on the order is needed for the NaN case *)
Lemma argmin_aux_nan : forall (F : Type) (flt : F -> F -> bool) ds i best,
  In None ds -> argmin_aux F flt ds i best = None.
Proof.
  intros F flt. induction ds as [|d ds IH]; intros i best Hin.
  - destruct Hin.
  - destruct d as [x|]; [|reflexivity].
    destruct Hin as [Hin | Hin]; [discriminate Hin|].
    cbn [argmin_aux]. destruct best as [[j y]|]; [destruct (flt x y)|]; apply IH; exact Hin.
Qed.

Theorem neighborhood_nan : forall (F : Type) (flt : F -> F -> bool) column,
  In None column -> neighborhood F flt column = None.
Proof.
  intros F flt column Hin. unfold neighborhood.
  destruct column as [|d ds]; [reflexivity|]. apply argmin_aux_nan. exact Hin.
Qed.

Theorem neighborhood_empty : forall (F : Type) (flt : F -> F -> bool),
  neighborhood F flt [] = None.
Proof. reflexivity. Qed.

(* Conversely: the step succeeds only on a non-empty column without NaN. *)
Theorem neighborhood_some_inv : forall (F : Type) (flt : F -> F -> bool) column r,
  neighborhood F flt column = Some r -> ~ In None column /\ column <> [].
Proof.
  intros F flt column r H. split.
  - intros Hin. rewrite (neighborhood_nan F flt column Hin) in H. discriminate H.
  - intros E. subst column. discriminate H.
Qed.
