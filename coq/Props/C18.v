(* Props/C18.v -- property C18: a truncated table file is never loaded.  Every strict prefix of a
   saved file is rejected by the loader -- exactly because a short read of the field count is an
   error (X_LOADER_EOF_IS_ERROR = true in Gen/GenTables.v).
   Statements use only Base/ Gen/ Model/ Spec/ definitions; proofs live in Proofs/. *)
From Coq Require Import NArith ZArith List Bool.
From RP Require Import Base.Bits Gen.GenTables Model.Codec Model.Pgcopy.
From RP Require Import Spec.SpecCodec Spec.SpecPgcopy Spec.SpecTables.
From RP Require Proofs.C17_Bytes Proofs.C17_Layout Proofs.C17_Pg Proofs.C17_Tables Proofs.C17_Examples.
Import ListNotations.
Open Scope N_scope.

Theorem C18_prefix_metric : forall t, wf_metric_table t ->
  forall n, (n < length (save_metric t))%nat -> load_metric (firstn n (save_metric t)) = LError.
Proof. exact C17_Tables.prefix_metric. Qed.
Print Assumptions C18_prefix_metric.
Example C18_metric_hyp : wf_metric_table C17_Examples.ex_metric.
Proof. exact C17_Examples.ex_metric_wf. Qed.

Theorem C18_prefix_lookup : forall t, wf_lookup_table t ->
  forall n, (n < length (save_lookup t))%nat -> load_lookup (firstn n (save_lookup t)) = LError.
Proof. exact C17_Tables.prefix_lookup. Qed.
Print Assumptions C18_prefix_lookup.
Example C18_lookup_hyp : wf_lookup_table C17_Examples.ex_lookup.
Proof. exact C17_Examples.ex_lookup_wf. Qed.

Theorem C18_prefix_profile : forall t, wf_profile_table t ->
  forall n, (n < length (save_profile t))%nat -> load_profile (firstn n (save_profile t)) = LError.
Proof. exact C17_Tables.prefix_profile. Qed.
Print Assumptions C18_prefix_profile.
Example C18_profile_hyp : wf_profile_table C17_Examples.ex_profile.
Proof. exact C17_Examples.ex_profile_wf. Qed.

Theorem C18_prefix_transitions : forall rows, Forall wf_transitions_row rows ->
  (forall n, (n < length (save_bytes transitions_layout rows))%nat ->
     load_transitions_rows (firstn n (save_bytes transitions_layout rows)) = LError) /\
  load_transitions_rows (save_bytes transitions_layout rows) = LOk rows.
Proof. exact C17_Tables.prefix_transitions. Qed.
Print Assumptions C18_prefix_transitions.
Example C18_transitions_hyp : Forall wf_transitions_row C17_Examples.ex_transitions.
Proof. exact C17_Examples.ex_transitions_wf. Qed.

(* generic form: any layout satisfying the side conditions, with the strict EOF rule *)
Theorem C18_prefix_generic : forall L rows, layout_ok L -> l_strict L = true ->
  Forall (fun r => length r = N.to_nat (l_nfields L)) rows ->
  forall n, (n < length (save_bytes L rows))%nat ->
  load_rows L (firstn n (save_bytes L rows)) = LError.
Proof. exact C17_Layout.load_rows_prefix. Qed.
Print Assumptions C18_prefix_generic.

(* The theorem depends on the generated flag: with the original loaders' rule (l_strict = false:
   `while reader.read_exact(..).is_ok()`), a 5-entry metric file cut at a row boundary (byte
   85 = 19 + 3 * 22) loads as LOk of the first 3 entries; the repaired loader rejects it. *)
Theorem C18_needs_strict_eof :
  exists t n, wf_metric_table t /\ sorted_strict t /\ (n < length (save_metric t))%nat /\
    load_with (lax metric_layout) metric_decode (firstn n (save_metric t)) = LOk (firstn 3 t) /\
    (length (firstn 3 t) < length t)%nat /\
    load_metric (firstn n (save_metric t)) = LError.
Proof. exact C17_Examples.needs_strict_eof. Qed.
Print Assumptions C18_needs_strict_eof.
