(* Props/C07.v -- property C07: river equity (Observation::equity, src/cards/observation.rs) and the
   turn histogram (Histogram::from, src/clustering/histogram.rs) are well defined, count what they
   should count, lie in range, and do not depend on the names of the four suits.
   Statements use only Base/ Gen/ Model/ Spec/ definitions; proofs live in Proofs/C07_*.v. *)
From Coq Require Import NArith ZArith QArith List Bool Sorted.
From RP Require Import Base.Bits Gen.GenPerm Model.Codec Model.Evaluator Model.Equity.
From RP Require Import Spec.SpecCodec Spec.SpecPoker Spec.SpecStrength Spec.SpecIso Spec.SpecIsoWf
  Spec.SpecCombs Spec.SpecEquity.
From RP Require Proofs.C07_SpecCounts Proofs.C07_Counts Proofs.C07_Relabel Proofs.C07_Invariant Proofs.C07_Hist Proofs.C07_Examples
  Proofs.C05_Examples.
Import ListNotations.
Open Scope N_scope.

(* ---------- 1. equity_counts never fails on a well-formed river observation ---------- *)
Theorem C07_counts_defined : forall d o, wf_obs_d d o -> hand_size (public o) = 5 ->
  exists w n, equity_counts d o = Some (w, n).
Proof. exact C07_Counts.counts_defined. Qed.
Print Assumptions C07_counts_defined.
Example C07_river_hyp :
  (wf_obs_d Standard C07_Examples.royal_std /\ hand_size (public C07_Examples.royal_std) = 5) /\
  (wf_obs_d Short C07_Examples.royal_short /\ hand_size (public C07_Examples.royal_short) = 5) /\
  (wf_obs_d Standard C05_Examples.ex_std /\ hand_size (public C05_Examples.ex_std) = 5) /\
  (wf_obs_d Short C05_Examples.ex_short /\ hand_size (public C05_Examples.ex_short) = 5).
Proof.
  exact (conj C07_Examples.royal_std_hyp (conj C07_Examples.royal_short_hyp C07_Examples.ex_river_hyp)).
Qed.

(* ---------- 2. what the two counts are ---------- *)
(* holdings d o: every two-card hand of unseen cards; showdown d o v: cmp_strength of hero's seven cards
   against the board plus v.  wins = #{v : hero > villain}, decided = #{v : hero <> villain};
   hence wins <= decided <= #holdings = C(deck - 7, 2) *)
Theorem C07_counts_meaning : forall d o w n, wf_obs_d d o -> hand_size (public o) = 5 ->
  equity_counts d o = Some (w, n) ->
  w = N.of_nat (length (filter (hero_wins d o) (holdings d o))) /\
  n = N.of_nat (length (filter (hero_decided d o) (holdings d o))) /\
  w <= n /\ n <= N.of_nat (length (holdings d o)) /\
  N.of_nat (length (holdings d o)) = choose (deck_size d - 7) 2.
Proof. exact C07_Counts.counts_meaning. Qed.
Print Assumptions C07_counts_meaning.
Example C07_counts_examples :
  (equity_counts Standard C07_Examples.royal_std = Some (990, 990) /\
   equity_counts Short C07_Examples.royal_short = Some (406, 406)) /\
  equity_counts Standard C05_Examples.ex_std = Some (600, 984) /\
  equity_counts Short C05_Examples.ex_short = Some (24, 397) /\
  length (holdings Standard C05_Examples.ex_std) = 990%nat /\
  length (holdings Short C05_Examples.ex_short) = 406%nat.
Proof. exact (conj C07_Examples.royal_counts C07_Examples.ex_river_counts). Qed.

(* every showdown that enters the counts is defined, between two valid seven-card hands, and is the
   rule-book comparison (cmp_spec of property C01) of the two hands *)
Theorem C07_showdown_spec : forall d o v, wf_obs_d d o -> hand_size (public o) = 5 -> In v (holdings d o) ->
  showdown d o v = Some (cmp_spec d (hand_cards (hero_hand o)) (hand_cards (villain_hand o v))).
Proof. exact C07_Counts.showdown_spec_wf. Qed.
Print Assumptions C07_showdown_spec.

(* the oracle evaluated on the implementation in every run: both counts from the rule book alone *)
Theorem C07_counts_are_spec_counts : forall d o w n, wf_obs_d d o -> hand_size (public o) = 5 ->
  equity_counts d o = Some (w, n) -> spec_counts d o = (w, n).
Proof. exact C07_SpecCounts.counts_are_spec_counts. Qed.
Print Assumptions C07_counts_are_spec_counts.

Corollary C07_range_standard : forall o w n, wf_obs_d Standard o -> hand_size (public o) = 5 ->
  equity_counts Standard o = Some (w, n) -> w <= n /\ n <= 990.
Proof. exact C07_Counts.range_standard. Qed.
Print Assumptions C07_range_standard.
Corollary C07_range_short : forall o w n, wf_obs_d Short o -> hand_size (public o) = 5 ->
  equity_counts Short o = Some (w, n) -> w <= n /\ n <= 406.
Proof. exact C07_Counts.range_short. Qed.
Print Assumptions C07_range_short.

(* ---------- 3. the equity is a number between 0 and 1 ---------- *)
Theorem C07_equity_unit : forall d o w n, wf_obs_d d o -> hand_size (public o) = 5 ->
  equity_counts d o = Some (w, n) -> (0 <= equity_Q (w, n) <= 1)%Q.
Proof. exact C07_Counts.equity_unit. Qed.
Print Assumptions C07_equity_unit.
Example C07_equity_examples :
  (equity_Q (600%N, 984%N) == 25 # 41)%Q /\ (equity_Q (990%N, 990%N) == 1)%Q /\ (equity_Q (0%N, 0%N) == 1 # 2)%Q.
Proof. exact C07_Examples.ex_river_equity. Qed.

(* ---------- 4. relabeling the suits changes nothing ---------- *)
Theorem C07_suit_invariant : forall d p o, wf_obs_d d o -> hand_size (public o) = 5 -> In p EXHAUST ->
  equity_counts d (relabel_obs p o) = equity_counts d o.
Proof. exact C07_Invariant.suit_invariant. Qed.
Print Assumptions C07_suit_invariant.
Example C07_suit_invariant_hyp :
  In C05_Examples.ex_perm EXHAUST /\ relabel_obs C05_Examples.ex_perm C05_Examples.ex_std <> C05_Examples.ex_std /\
  equity_counts Standard (relabel_obs C05_Examples.ex_perm C05_Examples.ex_std) = Some (600, 984).
Proof. exact C07_Examples.ex_relabel_moves. Qed.

(* the villain holdings of the relabeled observation are the relabeled villain holdings *)
Theorem C07_holdings_relabel : forall d p o, wf_obs_d d o -> hand_size (public o) = 5 -> In p EXHAUST ->
  Permutation.Permutation (holdings d (relabel_obs p o)) (map (relabel_hand p) (holdings d o)).
Proof. exact C07_Invariant.holdings_relabel_wf. Qed.
Print Assumptions C07_holdings_relabel.

(* hence any bucket computed from the two counts is the same *)
Theorem C07_bucket_invariant : forall (bucket_of : N * N -> N) d p o,
  wf_obs_d d o -> hand_size (public o) = 5 -> In p EXHAUST ->
  option_map bucket_of (equity_counts d (relabel_obs p o)) = option_map bucket_of (equity_counts d o) /\
  bucket_of (counts_or_zero d (relabel_obs p o)) = bucket_of (counts_or_zero d o).
Proof. exact C07_Invariant.bucket_invariant. Qed.
Print Assumptions C07_bucket_invariant.

(* ---------- 5. the turn histogram ---------- *)
(* defined; it is the count list of the buckets of the river successors, each of which is a well-formed
   river observation with defined counts; there are (deck - 6) successors *)
Theorem C07_histogram_meaning : forall bucket_of d o, wf_obs_d d o -> hand_size (public o) = 4 ->
  turn_histogram bucket_of d o
  = Some (hist_of (map (fun o' => bucket_of (counts_or_zero d o')) (river_successors d o))) /\
  (forall o', In o' (river_successors d o) ->
     wf_obs_d d o' /\ hand_size (public o') = 5 /\ equity_counts d o' = Some (counts_or_zero d o')) /\
  N.of_nat (length (river_successors d o)) = choose (deck_size d - 6) 1.
Proof. exact C07_Invariant.histogram_meaning. Qed.
Print Assumptions C07_histogram_meaning.

(* the count list: keys strictly increasing; (k, c) is an entry iff k occurs c > 0 times *)
Theorem C07_hist_of_spec : forall ks,
  StronglySorted (fun a b => fst a < fst b) (hist_of ks) /\
  (forall k c, In (k, c) (hist_of ks) <-> (c = occurrences k ks /\ 0 < c)).
Proof. exact C07_Hist.hist_of_spec. Qed.
Print Assumptions C07_hist_of_spec.
(* ... so it depends on the multiset of keys only *)
Theorem C07_hist_of_perm : forall l l', Permutation.Permutation l l' -> hist_of l = hist_of l'.
Proof. exact C07_Invariant.hist_of_perm. Qed.
Print Assumptions C07_hist_of_perm.

Theorem C07_histogram_invariant : forall bucket_of d p o, wf_obs_d d o -> hand_size (public o) = 4 ->
  In p EXHAUST -> turn_histogram bucket_of d (relabel_obs p o) = turn_histogram bucket_of d o.
Proof. exact C07_Invariant.histogram_invariant. Qed.
Print Assumptions C07_histogram_invariant.
Example C07_turn_hyp :
  (wf_obs_d Short C05_Examples.ex_turn_short /\ hand_size (public C05_Examples.ex_turn_short) = 4) /\
  (wf_obs_d Standard C07_Examples.ex_turn_std /\ hand_size (public C07_Examples.ex_turn_std) = 4).
Proof. exact C07_Examples.ex_turn_hyp. Qed.
Example C07_histogram_examples :
  turn_histogram C07_Examples.ex_bucket Short C05_Examples.ex_turn_short
    = Some [(0, 5); (1, 11); (3, 11); (6, 3)] /\
  turn_histogram C07_Examples.ex_bucket Standard C07_Examples.ex_turn_std
    = Some [(3, 4); (4, 28); (5, 1); (6, 8); (9, 5)] /\
  relabel_obs C05_Examples.ex_perm C05_Examples.ex_turn_short <> C05_Examples.ex_turn_short.
Proof. exact C07_Examples.ex_turn_histograms. Qed.

(* ---------- 6. the binary32 bucket of a river observation (Flocq model, Model/BucketF32.v) ---------- *)
(* bucket32 won sum: (equity * 100f32).round() as usize with equity = won as f32 / sum as f32 (0.5 when
   sum = 0), every operation IEEE binary32 round-to-nearest-even, round() = halves away from zero.
   bucket_exact won sum = (2*NN*won + sum) / (2*sum): the nearest percent, exact halves up, the oracle of
   the differential harness.  All statements on the reachable range 0 <= won <= sum <= 990
   (C07_range_standard; the short deck's 406 is inside it).
   FINDING.  The statement asked for,
       C07_bucket32_is_rounded_percent : forall won sum, 0 <= won <= sum -> sum <= 990 ->
         bucket32 won sum = bucket_exact won sum,
   is FALSE: at the 36 pairs with won/sum one of 21/40, 53/200, 59/200, 117/200 (exact ties x.5 percent)
   the binary32 product falls just below the half and the implementation returns bucket_exact - 1.
   Everywhere else on the range the two agree.  Proved below: the complete characterisation, the
   equality with those ties excluded (_partial), the refutation, and the facts that survive unchanged:
   bucket32 is always a nearest integer to 100*won/sum, lies in [0, NN], and is monotone in won. *)
From RP Require Import Model.BucketF32.
From RP Require Proofs.C07_BucketF32.
Open Scope Z_scope.

Theorem C07_bucket32_characterised : forall won sum, 0 <= won <= sum -> sum <= 990 ->
  bucket32 won sum = if rounds_down_tie won sum then bucket_exact won sum - 1 else bucket_exact won sum.
Proof. exact C07_BucketF32.bucket32_characterised. Qed.
Print Assumptions C07_bucket32_characterised.

Theorem C07_bucket32_is_rounded_percent_partial : forall won sum, 0 <= won <= sum -> sum <= 990 ->
  rounds_down_tie won sum = false -> bucket32 won sum = bucket_exact won sum.
Proof. exact C07_BucketF32.bucket32_exact_partial. Qed.
Print Assumptions C07_bucket32_is_rounded_percent_partial.

Theorem C07_bucket32_is_rounded_percent_refuted : forall won sum, 0 <= won <= sum -> sum <= 990 ->
  rounds_down_tie won sum = true ->
  bucket32 won sum = bucket_exact won sum - 1 /\ bucket32 won sum <> bucket_exact won sum.
Proof. exact C07_BucketF32.bucket32_exact_refuted. Qed.
Print Assumptions C07_bucket32_is_rounded_percent_refuted.
(* the excluded pairs are exact ties, never at bucket 0 *)
Theorem C07_rounds_down_is_tie : forall won sum, 0 <= won <= sum -> sum <= 990 ->
  rounds_down_tie won sum = true -> is_tie won sum = true /\ 1 <= bucket_exact won sum.
Proof. exact C07_BucketF32.rounds_down_is_tie. Qed.
Print Assumptions C07_rounds_down_is_tie.
Example C07_bucket32_refuted_instances :
  (bucket32 21 40 = 52 /\ bucket_exact 21 40 = 53) /\ (bucket32 53 200 = 26 /\ bucket_exact 53 200 = 27) /\
  (bucket32 59 200 = 29 /\ bucket_exact 59 200 = 30) /\ (bucket32 117 200 = 58 /\ bucket_exact 117 200 = 59) /\
  (bucket32 504 960 = 52 /\ bucket_exact 504 960 = 53).
Proof. exact C07_BucketF32.bucket32_refuted_instances. Qed.
Example C07_bucket32_hyps :
  (0 <= 600 <= 984 /\ 984 <= 990 /\ rounds_down_tie 600 984 = false /\ bucket32 600 984 = 61) /\
  (0 <= 21 <= 40 /\ 40 <= 990 /\ rounds_down_tie 21 40 = true /\ is_tie 21 40 = true) /\
  (0 <= 1 <= 200 /\ is_tie 1 200 = true /\ rounds_down_tie 1 200 = false /\ bucket32 1 200 = 1) /\
  bucket32 0 0 = 50 /\ bucket_of32 (600%N, 984%N) = 61%N.
Proof. exact C07_BucketF32.bucket32_hyps. Qed.

(* within one half of NN * won / sum, ties included *)
Theorem C07_bucket32_nearest : forall won sum, 0 <= won <= sum -> sum <= 990 -> 0 < sum ->
  2 * sum * bucket32 won sum - sum <= 2 * NN * won <= 2 * sum * bucket32 won sum + sum.
Proof. exact C07_BucketF32.bucket32_nearest. Qed.
Print Assumptions C07_bucket32_nearest.
Corollary C07_bucket32_nearest_abs : forall won sum, 0 <= won <= sum -> sum <= 990 ->
  Z.abs (2 * NN * won - 2 * sum * bucket32 won sum) <= sum.
Proof. exact C07_BucketF32.bucket32_nearest_abs. Qed.
Print Assumptions C07_bucket32_nearest_abs.

Theorem C07_bucket32_range : forall won sum, 0 <= won <= sum -> sum <= 990 -> 0 <= bucket32 won sum <= NN.
Proof. exact C07_BucketF32.bucket32_range. Qed.
Print Assumptions C07_bucket32_range.

Theorem C07_bucket32_monotone : forall won won' sum, 0 <= won <= won' -> won' <= sum -> sum <= 990 ->
  bucket32 won sum <= bucket32 won' sum.
Proof. exact C07_BucketF32.bucket32_monotone. Qed.
Print Assumptions C07_bucket32_monotone.

(* the instance bucket_of32 of the parameter `bucket_of` of the theorems of parts 4 and 5.
   FALSE as asked (same 36 pairs):
     C07_bucket_of32_meaning : forall w n, (w <= n)%N -> (n <= 990)%N ->
       bucket_of32 (w, n) = Z.to_N (bucket_exact (Z.of_N w) (Z.of_N n)) *)
Theorem C07_bucket_of32_characterised : forall w n, (w <= n)%N -> (n <= 990)%N ->
  bucket_of32 (w, n) = Z.to_N (if rounds_down_tie (Z.of_N w) (Z.of_N n)
                               then bucket_exact (Z.of_N w) (Z.of_N n) - 1 else bucket_exact (Z.of_N w) (Z.of_N n)).
Proof. exact C07_BucketF32.bucket_of32_characterised. Qed.
Print Assumptions C07_bucket_of32_characterised.
Theorem C07_bucket_of32_meaning_partial : forall w n, (w <= n)%N -> (n <= 990)%N ->
  rounds_down_tie (Z.of_N w) (Z.of_N n) = false ->
  bucket_of32 (w, n) = Z.to_N (bucket_exact (Z.of_N w) (Z.of_N n)).
Proof. exact C07_BucketF32.bucket_of32_meaning_partial. Qed.
Print Assumptions C07_bucket_of32_meaning_partial.
Theorem C07_bucket_of32_range : forall w n, (w <= n)%N -> (n <= 990)%N -> (bucket_of32 (w, n) <= Z.to_N NN)%N.
Proof. exact C07_BucketF32.bucket_of32_range. Qed.
Print Assumptions C07_bucket_of32_range.
(* the implementation's river bucket does not depend on the names of the suits *)
Corollary C07_bucket32_suit_invariant : forall d p o,
  wf_obs_d d o -> hand_size (public o) = 5%N -> In p EXHAUST ->
  option_map bucket_of32 (equity_counts d (relabel_obs p o)) = option_map bucket_of32 (equity_counts d o) /\
  bucket_of32 (counts_or_zero d (relabel_obs p o)) = bucket_of32 (counts_or_zero d o).
Proof. exact (C07_Invariant.bucket_invariant bucket_of32). Qed.
Print Assumptions C07_bucket32_suit_invariant.
