(* Props/C07.v -- property C07 (provisional instance; the general theorems are being added) *)
From Coq Require Import NArith List.
From RP Require Import Base.Bits Gen.GenPerm Model.Codec Model.Evaluator Model.Equity Spec.SpecIso.
Import ListNotations.
Open Scope N_scope.
Definition c (r s : N) : N := 4 * r + s.
(* hero As Ks on Qs Js Ts 2d 3c holds the nuts: wins against every holding; the same under every relabeling *)
Definition ex_river := mkObs (mask_of_bits [c 12 3; c 11 3]) (mask_of_bits [c 10 3; c 9 3; c 8 3; c 0 1; c 1 0]).
Theorem C07_nuts_instance :
  equity_counts Standard ex_river = Some (990, 990) /\
  forallb (fun p => match equity_counts Standard (relabel_obs p ex_river) with Some (990, 990) => true | _ => false end) EXHAUST = true.
Proof. vm_compute. split; reflexivity. Qed.
Print Assumptions C07_nuts_instance.
