(* Props/C02.v -- property C02 (provisional instance; the general theorems are being added) *)
From Coq Require Import ZArith NArith List.
From RP Require Import Base.Bits Model.Codec Model.Showdown Model.Game Spec.SpecGameInv.
Import ListNotations.
Open Scope Z_scope.
Definition ex_holes : list N := [mask_of_bits [51; 50]%N; mask_of_bits [41; 40]%N].
Theorem C02_root_instance :
  match root Standard ex_holes with
  | Some g => pot g = 3 /\ map stack (seats g) = [98; 99] /\ map spent (seats g) = [2; 1]
  | None => False end.
Proof. vm_compute. repeat split; reflexivity. Qed.
Print Assumptions C02_root_instance.
