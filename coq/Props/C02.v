(* Props/C02.v -- chip conservation and zero-sum settlement of the betting engine, for EVERY state
   reachable from a freshly dealt heads-up hand by any list of accepted actions.
   C02_step is stated for the strengthened invariant game_inv (Spec/SpecSettle.v): with the plain
   chips_inv the one-step claim is false (C02_step_plain_false below: a state that still has to
   post accepts `Blind c` for ANY c, also negative), game_inv additionally records that the
   blinds are posted. *)
From Coq Require Import ZArith NArith List Bool.
From RP Require Import Base.Bits Gen.GenLib Model.Codec Model.Evaluator Model.Showdown Model.Game
                       Spec.SpecGameInv Spec.SpecSettle
                       Proofs.C02_Basics Proofs.C02_Inv Proofs.C02_Cards Proofs.C02_Settle.
Import ListNotations.
Open Scope Z_scope.

(* ---------- the hypotheses are satisfiable ---------- *)
Definition ex_holes : list N := [3%N; 12%N].                 (* 2c2d / 2h2s *)
Definition ex_root : game :=
  mkGame [mkSeat Betting 98 2 2 3%N; mkSeat Betting 99 1 1 12%N] 3 0%N 0 3.
(* call, check, flop, check-check, turn, check-check, river, check-check: a showdown *)
Definition ex_history : list action :=
  [Call 1; Check; Draw 112%N; Check; Check; Draw 128%N; Check; Check; Draw 256%N; Check; Check].
Definition ex_terminal : game :=
  mkGame [mkSeat Betting 98 0 2 3%N; mkSeat Betting 98 0 2 12%N] 4 496%N 0 3.

Example ex_wf_holes : wf_holes Standard ex_holes.
Proof. exists 3%N, 12%N. repeat split; reflexivity. Qed.
Example ex_root_ok : root Standard ex_holes = Some ex_root.
Proof. vm_compute. reflexivity. Qed.
Example ex_reachable : reachable Standard ex_holes ex_terminal.
Proof. exists ex_root, ex_history. split; vm_compute; reflexivity. Qed.
Example ex_terminal_stops : must_stop ex_terminal = true.
Proof. vm_compute. reflexivity. Qed.
Example ex_terminal_settles : settlements Standard ex_terminal = Some [2; 2].
Proof. vm_compute. reflexivity. Qed.
(* a fold: the other seat takes the pot *)
Example ex_reachable_fold :
  exists g, run Standard ex_root [Raise 10; Fold] = Some g /\ must_stop g = true
            /\ settlements Standard g = Some [0; 13].
Proof. eexists. split; [vm_compute; reflexivity|]. split; vm_compute; reflexivity. Qed.
Example ex_step : exists g', apply Standard ex_root (Raise 10) = Some g'.
Proof. eexists. vm_compute. reflexivity. Qed.
Example ex_rejected : is_allowed Standard ex_root (Raise 1) <> Some true.
Proof. vm_compute. discriminate. Qed.


(* ---------- theorems ---------- *)
Theorem C02_root : forall d hs, wf_holes d hs -> exists g0, root d hs = Some g0 /\ chips_inv g0.
Proof. exact chips_root. Qed.
Print Assumptions C02_root.

Theorem C02_root_inv : forall d hs, wf_holes d hs -> exists g0, root d hs = Some g0 /\ game_inv g0.
Proof. exact game_inv_root. Qed.
Print Assumptions C02_root_inv.

Example ex_root_inv : game_inv ex_root.
Proof.
  destruct (C02_root_inv Standard ex_holes ex_wf_holes) as (g0 & Hr & Hg).
  rewrite ex_root_ok in Hr. injection Hr as Hr. subst g0. exact Hg.
Qed.

Theorem C02_inv_chips : forall g, game_inv g -> chips_inv g.
Proof. exact game_inv_chips. Qed.
Print Assumptions C02_inv_chips.

(* the one-step invariant (strengthened: game_inv implies chips_inv by C02_inv_chips) *)
Theorem C02_step : forall d g a g', game_inv g -> apply d g a = Some g' -> game_inv g'.
Proof. exact game_inv_step. Qed.
Print Assumptions C02_step.

(* the literal statement with chips_inv on both sides does not hold in the model *)
Theorem C02_step_plain_false :
  ~ (forall d g a g', chips_inv g -> apply d g a = Some g' -> chips_inv g').
Proof. exact chips_step_plain_false. Qed.
Print Assumptions C02_step_plain_false.

Theorem C02_reachable : forall d hs g, wf_holes d hs -> reachable d hs g -> chips_inv g.
Proof. exact chips_reachable. Qed.
Print Assumptions C02_reachable.

Theorem C02_reachable_inv : forall d hs g, wf_holes d hs -> reachable d hs g -> game_inv g.
Proof. exact game_inv_reachable. Qed.
Print Assumptions C02_reachable_inv.

Theorem C02_no_overflow : forall d hs g, wf_holes d hs -> reachable d hs g ->
  0 <= pot g <= N_PLAYERS * STACK /\ N_PLAYERS * STACK < 2 ^ (CHIPS_BITS - 1).
Proof. exact no_overflow_reachable. Qed.
Print Assumptions C02_no_overflow.

Theorem C02_rejected_unchanged : forall d g a, is_allowed d g a <> Some true -> apply d g a = None.
Proof. exact rejected_unchanged. Qed.
Print Assumptions C02_rejected_unchanged.

Theorem C02_settle : forall d hs g, wf_holes d hs -> reachable d hs g -> must_stop g = true ->
  exists rw, settlements d g = Some rw /\ sumZ rw = pot g
    /\ (forall i s r, nth_error (seats g) i = Some s -> nth_error rw i = Some r -> st s = Folding -> r = 0)
    /\ winner_takes_or_split d g rw.
Proof. exact settle_reachable_top. Qed.
Print Assumptions C02_settle.

(* the blinds are posted exactly once: after the root every `Blind c` is rejected (is_allowed
   accepts `Blind c` for ANY c while must_post holds, so this is what keeps amounts sane) *)
Theorem C02_no_post : forall d hs g c, wf_holes d hs -> reachable d hs g ->
  must_post g = false /\ apply d g (Blind c) = None.
Proof. exact no_post_reachable. Qed.
Print Assumptions C02_no_post.

(* ---------- the settlement in terms of the rule-book hand order ---------- *)
From RP Require Spec.SpecPoker Spec.SpecHand Spec.SpecSettleRules Proofs.C02_RuleBook.

(* winner_takes_or_split compares the numeric keys `strength_key` of the two strengths.  On the
   well-formed strengths the evaluator produces (C01_strength_wf) that comparison IS derive(Ord)
   on Strength (cmp_strength) ... *)
Theorem C02_key_is_strength_order : forall d a b, SpecHand.wf_strength d a -> SpecHand.wf_strength d b ->
  N.compare (strength_key d a) (strength_key d b) = cmp_strength d a b.
Proof. exact C02_RuleBook.key_compare. Qed.
Print Assumptions C02_key_is_strength_order.

(* ... in the three forms the settlement uses it (kb < ka, ka < kb, ka = kb) *)
Theorem C02_key_order : forall d a b, SpecHand.wf_strength d a -> SpecHand.wf_strength d b ->
  ((strength_key d b < strength_key d a)%N <-> cmp_strength d a b = Gt) /\
  ((strength_key d a < strength_key d b)%N <-> cmp_strength d a b = Lt) /\
  (strength_key d a = strength_key d b <-> cmp_strength d a b = Eq).
Proof. exact C02_RuleBook.key_order. Qed.
Print Assumptions C02_key_order.

(* ... and therefore (C01_order, C01_strength_wf) the keys of the strengths of two actual hands of
   5..7 cards compare as the rule book compares the hands (best five cards, Spec/SpecPoker.v) *)
Theorem C02_key_is_rule_book : forall d h1 h2 a b, SpecHand.valid_hand d h1 -> SpecHand.valid_hand d h2 ->
  strength_of d h1 = Some a -> strength_of d h2 = Some b ->
  N.compare (strength_key d a) (strength_key d b)
  = SpecPoker.cmp_spec d (hand_cards h1) (hand_cards h2).
Proof. exact C02_RuleBook.key_rule_book. Qed.
Print Assumptions C02_key_is_rule_book.

Example ex_key_hyps :
  SpecHand.valid_hand Standard 499%N /\ SpecHand.valid_hand Standard 508%N /\
  (exists a b, strength_of Standard 499%N = Some a /\ strength_of Standard 508%N = Some b /\
               SpecHand.wf_strength Standard a /\ SpecHand.wf_strength Standard b /\
               N.compare (strength_key Standard a) (strength_key Standard b) = Eq).
Proof.
  split; [repeat split; vm_compute; congruence|]. split; [repeat split; vm_compute; congruence|].
  eexists. eexists. split; [vm_compute; reflexivity|]. split; [vm_compute; reflexivity|].
  split; [|split]; [repeat split; vm_compute; congruence ..|vm_compute; reflexivity].
Qed.

(* the conclusion of C02_settle with the rule-book order: at a showdown the board has five cards,
   both seats hold a valid seven-card hand (hole cards + board), and the pot goes to the seat whose
   hand is the better one by cmp_spec (equal hands: each takes back its own chips).
   Stated for histories whose drawn card sets are u64 values (reachable64, as in Rust, where Hand
   is a u64): the model's `Draw (h : N)` also accepts an h with bits above 63 and the board is then
   not a hand of the deck (C14 / cards_inv_reachable_false); C02_settle itself covers those too. *)
Theorem C02_split_is_rule_book : forall d g rw, C02_Cards.card_inv64 d g -> must_stop g = true ->
  winner_takes_or_split d g rw -> SpecSettleRules.rule_book_settlement d g rw.
Proof. exact C02_RuleBook.split_rule_book. Qed.
Print Assumptions C02_split_is_rule_book.

Theorem C02_settle_rule_book : forall d hs g, wf_holes d hs -> reachable64 d hs g -> must_stop g = true ->
  exists rw, settlements d g = Some rw /\ sumZ rw = pot g /\ SpecSettleRules.rule_book_settlement d g rw.
Proof. exact C02_RuleBook.settle_rule_book. Qed.
Print Assumptions C02_settle_rule_book.

(* the hypotheses are satisfiable: the showdown above (2c2d against 2h2s on 3c3d3h3s4c: a split),
   and AcAd in the second seat (four threes with an ace beats four threes with a four) *)
Example ex_reachable64 : reachable64 Standard ex_holes ex_terminal.
Proof. exists ex_root, ex_history. split; [vm_compute; reflexivity|]. split; [|vm_compute; reflexivity].
  repeat constructor. Qed.
Example ex_rule_book_winner :
  let hs := [3%N; 844424930131968%N] in
  wf_holes Standard hs /\
  exists g0 g, root Standard hs = Some g0 /\ run Standard g0 ex_history = Some g /\
    Forall action_u64 ex_history /\ must_stop g = true /\ settlements Standard g = Some [0; 4] /\
    match seats g with
    | [a; b] => SpecPoker.cmp_spec Standard (hand_cards (SpecSettleRules.showdown_hand g a))
                                            (hand_cards (SpecSettleRules.showdown_hand g b)) = Lt
    | _ => False end.
Proof.
  split; [eexists; eexists; repeat split; reflexivity|].
  eexists. eexists. split; [vm_compute; reflexivity|]. split; [vm_compute; reflexivity|].
  split; [repeat constructor|]. split; [vm_compute; reflexivity|]. split; vm_compute; reflexivity.
Qed.
