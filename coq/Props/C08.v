(* Props/C08.v -- property C08: the regrets computed by the model of src/mccfr/profile.rs (Model/Cfr.v,
   at the flag values generated from the Rust source) are the textbook external-sampling MCCFR estimator
   on every tree of external-sampling shape; consequences (payoff-shift invariance, zero regret at
   indifferent nodes), the regret clamp, and the necessity of both generated flags.
   Definitions used in the statements: Model/Cfr.v and Spec/SpecCfr.v. *)
From Coq Require Import NArith QArith List.
From RP Require Import Gen.GenFixes Model.Cfr Spec.SpecCfr.
From RP Require Proofs.C08_estimator Proofs.C08_shift Proofs.C08_flags Proofs.C08_examples.
Import ListNotations.
Open Scope Q_scope.

(* ---------- the estimator ---------- *)
Theorem C08_estimator : forall t, es_shape t -> triples_eq (immediate_regrets_Q t) (regret_estimator_Q t).
Proof. exact Proofs.C08_estimator.estimator. Qed.
Print Assumptions C08_estimator.

(* summed per information set (bucket, edge) -- what immediate_regret returns for an infoset with several roots *)
Theorem C08_estimator_infoset : forall t b e, es_shape t ->
  sum_gains Q 0 Qplus (immediate_regrets_Q t) b e == sum_gains Q 0 Qplus (regret_estimator_Q t) b e.
Proof. exact Proofs.C08_estimator.estimator_infoset. Qed.
Print Assumptions C08_estimator_infoset.

(* hypotheses satisfiable: a 3-level tree (chance / opponent / nested traverser nodes / opponent) *)
Example C08_example_shape : es_shape ex_tree3 /\ sigma_normalised ex_tree3.
Proof. exact Proofs.C08_examples.ex_tree3_shape. Qed.
Print Assumptions C08_example_shape.

Example C08_example_values :
  map (fun x => (fst x, Qred (snd x))) (immediate_regrets_Q ex_tree3)
  = [(2%N, 2%N, - (7#4)); (2%N, 3%N, 7#12); (4%N, 2%N, - (16#3)); (4%N, 4%N, 8#3)]
  /\ map (fun x => (fst x, Qred (snd x))) (regret_estimator_Q ex_tree3)
  = [(2%N, 2%N, - (7#4)); (2%N, 3%N, 7#12); (4%N, 2%N, - (16#3)); (4%N, 4%N, 8#3)]
  /\ map (fun x => (fst x, Qred (snd x))) (regret_estimator_Q (shift_payoffs (5#7) ex_tree3))
  = [(2%N, 2%N, - (7#4)); (2%N, 3%N, 7#12); (4%N, 2%N, - (16#3)); (4%N, 4%N, 8#3)]
  /\ Qred (mass ex_tree3) = 1.
Proof. exact Proofs.C08_examples.ex_tree3_values. Qed.
Print Assumptions C08_example_values.

(* the provisional instance (kept) *)
Theorem C08_estimator_instance :
  map (fun x => Qred (snd x)) (immediate_regrets_Q ex_tree) = map (fun x => Qred (snd x)) (regret_estimator_Q ex_tree)
  /\ map (fun x => Qred (snd x)) (regret_estimator_Q ex_tree) = [- (3#2); 1#2].
Proof. exact Proofs.C08_examples.estimator_instance. Qed.
Print Assumptions C08_estimator_instance.

(* ---------- both generated flags are needed ---------- *)
(* the flag-parameterised copy of Spec/SpecCfr.v is the model at the generated flag values *)
Theorem C08_flags_generated : forall t,
  immediate_regrets_with CFR_ESTIMATOR_EXTERNAL RELATIVE_REACH_STOPS_AT_NODE t = immediate_regrets_Q t.
Proof. exact Proofs.C08_flags.immediate_regrets_with_generated. Qed.
Print Assumptions C08_flags_generated.

(* CFR_ESTIMATOR_EXTERNAL = false (original estimator shape): C08_estimator fails *)
Theorem C08_external_flag_needed :
  es_shape ex_flag_tree /\ sigma_normalised ex_flag_tree /\
  ~ triples_eq (immediate_regrets_with false true ex_flag_tree) (regret_estimator_Q ex_flag_tree).
Proof. exact Proofs.C08_flags.external_flag_needed. Qed.
Print Assumptions C08_external_flag_needed.

(* RELATIVE_REACH_STOPS_AT_NODE = false (relative reach restarts at nodes sharing the head's bucket): fails *)
Theorem C08_stops_at_node_flag_needed :
  es_shape ex_flag_tree /\ sigma_normalised ex_flag_tree /\
  ~ triples_eq (immediate_regrets_with true false ex_flag_tree) (regret_estimator_Q ex_flag_tree).
Proof. exact Proofs.C08_flags.stops_at_node_flag_needed. Qed.
Print Assumptions C08_stops_at_node_flag_needed.

(* ---------- invariance under adding a constant to all payoffs ---------- *)
Theorem C08_mass_one : forall t, es_shape t -> sigma_normalised t -> mass t == 1.
Proof. exact Proofs.C08_shift.mass_one. Qed.
Print Assumptions C08_mass_one.

Theorem C08_shift_invariant : forall t c, es_shape t -> sigma_normalised t ->
  triples_eq (regret_estimator_Q (shift_payoffs c t)) (regret_estimator_Q t).
Proof. exact Proofs.C08_shift.shift_invariant. Qed.
Print Assumptions C08_shift_invariant.

(* with C08_estimator: the regrets the code records are unchanged as well *)
Theorem C08_shift_invariant_immediate : forall t c, es_shape t -> sigma_normalised t ->
  triples_eq (immediate_regrets_Q (shift_payoffs c t)) (immediate_regrets_Q t).
Proof. exact Proofs.C08_shift.shift_invariant_immediate. Qed.
Print Assumptions C08_shift_invariant_immediate.

(* ---------- zero regret at an indifferent traverser node ---------- *)
(* the regret list of a node is its own regrets (one per child, traverser nodes only) followed by the lists
   of its subtrees: so `firstn (length ch)` below is "every regret of that node", and every traverser node
   of a tree contributes the regrets of its own subtree *)
Theorem C08_regrets_of_subtrees : forall k b p ch,
  regret_estimator_Q (T k b p ch) =
  firstn (match k with KWalker => length ch | _ => O end) (regret_estimator_Q (T k b p ch))
  ++ flat_map (fun est => regret_estimator_Q (snd est)) ch.
Proof. exact Proofs.C08_shift.regrets_of_subtrees. Qed.
Print Assumptions C08_regrets_of_subtrees.

Theorem C08_zero_when_indifferent : forall b p ch v,
  ch <> [] -> sigma_sum ch == 1 ->
  Forall (fun est => utilde_Q (snd est) == v) ch ->
  Forall (fun x => snd x == 0) (firstn (length ch) (regret_estimator_Q (T KWalker b p ch))).
Proof. exact Proofs.C08_shift.zero_when_indifferent. Qed.
Print Assumptions C08_zero_when_indifferent.

Example C08_example_indifferent :
  ex_indifferent <> [] /\ sigma_sum ex_indifferent == 1 /\
  Forall (fun est => utilde_Q (snd est) == 2) ex_indifferent.
Proof. exact Proofs.C08_examples.ex_indifferent_hyps. Qed.
Print Assumptions C08_example_indifferent.

(* ---------- the clamp of regret_vector ---------- *)
Theorem C08_clamp : forall r,
  regret_min_Q <= clamp_regret_Q r /\ (regret_min_Q <= r -> clamp_regret_Q r == r).
Proof. exact Proofs.C08_shift.clamp. Qed.
Print Assumptions C08_clamp.

Example C08_example_clamp :
  regret_min_Q == - (300000 # 1) /\ regret_min_Q <= 0 /\
  clamp_regret_Q (- (400000 # 1)) == - (300000 # 1) /\ clamp_regret_Q (7 # 2) == 7 # 2.
Proof. exact Proofs.C08_examples.clamp_values. Qed.
Print Assumptions C08_example_clamp.
