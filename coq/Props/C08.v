(* Props/C08.v -- property C08: the regrets computed by the model of src/mccfr/profile.rs (Model/Cfr.v,
   at the flag values generated from the Rust source) are the textbook external-sampling MCCFR estimator
   on every tree of external-sampling shape; consequences (payoff-shift invariance, zero regret at
   indifferent nodes), the regret clamp, and the necessity of both generated flags.
   Definitions used in the statements: Model/Cfr.v and Spec/SpecCfr.v. *)
From Coq Require Import NArith QArith List.
From RP Require Import Gen.GenFixes Model.Cfr Spec.SpecCfr.
From RP Require Proofs.C08_estimator Proofs.C08_shift Proofs.C08_flags Proofs.C08_examples.
Import ListNotations.
Open Scope Q_scope.

(* ---------- the estimator ---------- *)
Theorem C08_estimator : forall t, es_shape t -> triples_eq (immediate_regrets_Q t) (regret_estimator_Q t).
Proof. exact Proofs.C08_estimator.estimator. Qed.
Print Assumptions C08_estimator.

(* summed per information set (bucket, edge) -- what immediate_regret returns for an infoset with several roots *)
Theorem C08_estimator_infoset : forall t b e, es_shape t ->
  sum_gains Q 0 Qplus (immediate_regrets_Q t) b e == sum_gains Q 0 Qplus (regret_estimator_Q t) b e.
Proof. exact Proofs.C08_estimator.estimator_infoset. Qed.
Print Assumptions C08_estimator_infoset.

(* hypotheses satisfiable: a 3-level tree (chance / opponent / nested traverser nodes / opponent) *)
Example C08_example_shape : es_shape ex_tree3 /\ sigma_normalised ex_tree3.
Proof. exact Proofs.C08_examples.ex_tree3_shape. Qed.
Print Assumptions C08_example_shape.

Example C08_example_values :
  map (fun x => (fst x, Qred (snd x))) (immediate_regrets_Q ex_tree3)
  = [(2%N, 2%N, - (7#4)); (2%N, 3%N, 7#12); (4%N, 2%N, - (16#3)); (4%N, 4%N, 8#3)]
  /\ map (fun x => (fst x, Qred (snd x))) (regret_estimator_Q ex_tree3)
  = [(2%N, 2%N, - (7#4)); (2%N, 3%N, 7#12); (4%N, 2%N, - (16#3)); (4%N, 4%N, 8#3)]
  /\ map (fun x => (fst x, Qred (snd x))) (regret_estimator_Q (shift_payoffs (5#7) ex_tree3))
  = [(2%N, 2%N, - (7#4)); (2%N, 3%N, 7#12); (4%N, 2%N, - (16#3)); (4%N, 4%N, 8#3)]
  /\ Qred (mass ex_tree3) = 1.
Proof. exact Proofs.C08_examples.ex_tree3_values. Qed.
Print Assumptions C08_example_values.

(* the provisional instance (kept) *)
Theorem C08_estimator_instance :
  map (fun x => Qred (snd x)) (immediate_regrets_Q ex_tree) = map (fun x => Qred (snd x)) (regret_estimator_Q ex_tree)
  /\ map (fun x => Qred (snd x)) (regret_estimator_Q ex_tree) = [- (3#2); 1#2].
Proof. exact Proofs.C08_examples.estimator_instance. Qed.
Print Assumptions C08_estimator_instance.

(* ---------- both generated flags are needed ---------- *)
(* the flag-parameterised copy of Spec/SpecCfr.v is the model at the generated flag values *)
Theorem C08_flags_generated : forall t,
  immediate_regrets_with CFR_ESTIMATOR_EXTERNAL RELATIVE_REACH_STOPS_AT_NODE t = immediate_regrets_Q t.
Proof. exact Proofs.C08_flags.immediate_regrets_with_generated. Qed.
Print Assumptions C08_flags_generated.

(* CFR_ESTIMATOR_EXTERNAL = false (original estimator shape): C08_estimator fails *)
Theorem C08_external_flag_needed :
  es_shape ex_flag_tree /\ sigma_normalised ex_flag_tree /\
  ~ triples_eq (immediate_regrets_with false true ex_flag_tree) (regret_estimator_Q ex_flag_tree).
Proof. exact Proofs.C08_flags.external_flag_needed. Qed.
Print Assumptions C08_external_flag_needed.

(* RELATIVE_REACH_STOPS_AT_NODE = false (relative reach restarts at nodes sharing the head's bucket): fails *)
Theorem C08_stops_at_node_flag_needed :
  es_shape ex_flag_tree /\ sigma_normalised ex_flag_tree /\
  ~ triples_eq (immediate_regrets_with true false ex_flag_tree) (regret_estimator_Q ex_flag_tree).
Proof. exact Proofs.C08_flags.stops_at_node_flag_needed. Qed.
Print Assumptions C08_stops_at_node_flag_needed.

(* ---------- invariance under adding a constant to all payoffs ---------- *)
Theorem C08_mass_one : forall t, es_shape t -> sigma_normalised t -> mass t == 1.
Proof. exact Proofs.C08_shift.mass_one. Qed.
Print Assumptions C08_mass_one.

Theorem C08_shift_invariant : forall t c, es_shape t -> sigma_normalised t ->
  triples_eq (regret_estimator_Q (shift_payoffs c t)) (regret_estimator_Q t).
Proof. exact Proofs.C08_shift.shift_invariant. Qed.
Print Assumptions C08_shift_invariant.

(* with C08_estimator: the regrets the code records are unchanged as well *)
Theorem C08_shift_invariant_immediate : forall t c, es_shape t -> sigma_normalised t ->
  triples_eq (immediate_regrets_Q (shift_payoffs c t)) (immediate_regrets_Q t).
Proof. exact Proofs.C08_shift.shift_invariant_immediate. Qed.
Print Assumptions C08_shift_invariant_immediate.

(* ---------- zero regret at an indifferent traverser node ---------- *)
(* the regret list of a node is its own regrets (one per child, traverser nodes only) followed by the lists
   of its subtrees: so `firstn (length ch)` below is "every regret of that node", and every traverser node
   of a tree contributes the regrets of its own subtree *)
Theorem C08_regrets_of_subtrees : forall k b p ch,
  regret_estimator_Q (T k b p ch) =
  firstn (match k with KWalker => length ch | _ => O end) (regret_estimator_Q (T k b p ch))
  ++ flat_map (fun est => regret_estimator_Q (snd est)) ch.
Proof. exact Proofs.C08_shift.regrets_of_subtrees. Qed.
Print Assumptions C08_regrets_of_subtrees.

Theorem C08_zero_when_indifferent : forall b p ch v,
  ch <> [] -> sigma_sum ch == 1 ->
  Forall (fun est => utilde_Q (snd est) == v) ch ->
  Forall (fun x => snd x == 0) (firstn (length ch) (regret_estimator_Q (T KWalker b p ch))).
Proof. exact Proofs.C08_shift.zero_when_indifferent. Qed.
Print Assumptions C08_zero_when_indifferent.

Example C08_example_indifferent :
  ex_indifferent <> [] /\ sigma_sum ex_indifferent == 1 /\
  Forall (fun est => utilde_Q (snd est) == 2) ex_indifferent.
Proof. exact Proofs.C08_examples.ex_indifferent_hyps. Qed.
Print Assumptions C08_example_indifferent.

(* ---------- the clamp of regret_vector ---------- *)
Theorem C08_clamp : forall r,
  regret_min_Q <= clamp_regret_Q r /\ (regret_min_Q <= r -> clamp_regret_Q r == r).
Proof. exact Proofs.C08_shift.clamp. Qed.
Print Assumptions C08_clamp.

Example C08_example_clamp :
  regret_min_Q == - (300000 # 1) /\ regret_min_Q <= 0 /\
  clamp_regret_Q (- (400000 # 1)) == - (300000 # 1) /\ clamp_regret_Q (7 # 2) == 7 # 2.
Proof. exact Proofs.C08_examples.clamp_values. Qed.
Print Assumptions C08_example_clamp.

(* ---------- the estimator is unbiased: expectations over external sampling ----------
   Definitions: Spec/SpecSampling.v.  A `qtree` is read as the FULL game tree (all actions at every node; the
   edge number is the traverser's strategy probability below KWalker nodes, the opponent's below KOpponent
   nodes, the chance probability below KChance nodes); `full_ok`: the numbers are >= 0 and sum to 1 at every
   internal node; `value`: expected payoff; `isamples t`: the finite distribution of external-sampling trees
   of t (all children kept at KWalker nodes, exactly one child j kept with probability p_j at KOpponent /
   KChance nodes, the kept edge carrying p_j resp. 1), every kept edge annotated with its index in the full
   tree; `samples t = dmap forget (isamples t)`: the same distribution on the plain sampled trees the model
   (Model/Cfr.v) works on; `expect f d = sum of p * f s`. *)
From RP Require Import Spec.SpecSampling.
From RP Require Proofs.C08_samples Proofs.C08_unbiased.

(* the sample probabilities are >= 0 and sum to 1 *)
Theorem C08_samples_total : forall t, full_ok t ->
  total (samples t) == 1 /\ Forall (fun ps => 0 <= fst ps) (samples t).
Proof. exact Proofs.C08_samples.samples_total. Qed.
Print Assumptions C08_samples_total.

(* every sample is a tree of external-sampling shape (so C08_estimator applies to it), provided the strategy
   probabilities below traverser and opponent nodes are > 0 (es_shape demands sigma > 0 there) ... *)
Theorem C08_samples_es_shape : forall t, full_pos t -> forall q s, In (q, s) (samples t) -> es_shape s.
Proof. exact Proofs.C08_samples.samples_es_shape. Qed.
Print Assumptions C08_samples_es_shape.

(* ... and when only the traverser's strategy is > 0 (the opponent may never play some action): every sample
   of positive probability *)
Theorem C08_samples_es_shape_support : forall t, full_ok t -> walker_pos t ->
  forall q s, In (q, s) (samples t) -> 0 < q -> es_shape s.
Proof. exact Proofs.C08_samples.samples_es_shape_support. Qed.
Print Assumptions C08_samples_es_shape_support.

(* the traverser's strategy stays normalised in every sample (second hypothesis of C08_shift_invariant) *)
Theorem C08_samples_normalised : forall t, full_ok t -> forall q s, In (q, s) (samples t) -> sigma_normalised s.
Proof. exact Proofs.C08_samples.samples_normalised. Qed.
Print Assumptions C08_samples_normalised.

(* the sampled counterfactual value is an unbiased estimate of the value of the tree *)
Theorem C08_utilde_unbiased : forall t, full_ok t -> expect utilde_Q (samples t) == value t.
Proof. exact Proofs.C08_unbiased.utilde_unbiased. Qed.
Print Assumptions C08_utilde_unbiased.

(* `root_regret s a` is the value of the a-th entry of regret_estimator_Q s; at a traverser root with more
   than a actions that is: sampled value of action a minus the strategy-weighted sampled value of the node *)
Theorem C08_root_regret_meaning : forall b p ch a x,
  nth_error ch a = Some x ->
  root_regret (T KWalker b p ch) a == utilde_Q (snd x) - utilde_Q (T KWalker b p ch).
Proof. exact Proofs.C08_unbiased.root_regret_walker. Qed.
Print Assumptions C08_root_regret_meaning.

(* root: the expected estimated regret of action a is value(child a) - value(root), the true counterfactual
   regret (the others' reach of the root is 1) *)
Theorem C08_root_regret_unbiased : forall b p ch a ca,
  full_ok (T KWalker b p ch) -> nth_error ch a = Some ca ->
  expect (fun s => root_regret s a) (samples (T KWalker b p ch))
  == value (snd ca) - value (T KWalker b p ch).
Proof. exact Proofs.C08_unbiased.root_regret_unbiased. Qed.
Print Assumptions C08_root_regret_unbiased.

(* the same for the regrets computed by the implementation model (C08_estimator on every sample; needs the
   samples to have external-sampling shape, hence full_pos) *)
Theorem C08_root_regret_impl_unbiased : forall b p ch a ca,
  full_ok (T KWalker b p ch) -> full_pos (T KWalker b p ch) -> nth_error ch a = Some ca ->
  expect (fun s => root_regret_impl s a) (samples (T KWalker b p ch))
  == value (snd ca) - value (T KWalker b p ch).
Proof. exact Proofs.C08_unbiased.root_regret_impl_unbiased. Qed.
Print Assumptions C08_root_regret_impl_unbiased.

(* any traverser node h of the full tree, given by its path (child indices from the root):
     fnode t path = Some h         h is the node of the full tree at the path,
     node_regret path a s          the estimated regret for action a at the copy of h in the sampled tree s
                                   (= root_regret (forget n) a for the node n that `snode` finds by following
                                   the kept edges annotated with the indices of the path), 0 if s did not
                                   keep h,
     reach_others t path           product of the edge probabilities along the path at KOpponent / KChance
                                   nodes only: the counterfactual reach of h.
   The expectation is the counterfactual regret of a at h. *)
Theorem C08_node_regret_unbiased : forall t path h a ca,
  full_ok t ->
  fnode t path = Some h -> kind_of h = KWalker -> nth_error (children_of h) a = Some ca ->
  expect (node_regret path a) (isamples t) == reach_others t path * (value (snd ca) - value h).
Proof. exact Proofs.C08_unbiased.node_regret_unbiased. Qed.
Print Assumptions C08_node_regret_unbiased.

(* hypotheses satisfiable: a 3-level full tree (chance -> opponent -> traverser -> leaf / nested traverser ->
   opponent), its four samples, and both sides of the theorems evaluated *)
Example C08_example_full : full_ok ex_full /\ full_pos ex_full /\ walker_pos ex_full.
Proof. exact Proofs.C08_unbiased.ex_full_ok. Qed.
Print Assumptions C08_example_full.

Example C08_example_node_hyps :
  full_ok ex_full /\ fnode ex_full [1; 0; 1]%nat = Some ex_full_walker2 /\
  kind_of ex_full_walker2 = KWalker /\
  nth_error (children_of ex_full_walker2) 1 =
    Some (4%N, 2#3, T KOpponent 6%N 0 [(5%N, 1#5, T KWalker 7%N 6 []); (6%N, 4#5, T KWalker 8%N 1 [])]).
Proof. exact Proofs.C08_unbiased.ex_node_hyps. Qed.
Print Assumptions C08_example_node_hyps.

Example C08_example_samples :
  map (fun ps => (Qred (fst ps), snd ps)) (samples ex_full)
  = [(1#3, T KChance 0%N 0 [(8%N, 1, T KWalker 10%N 5 [])]);
     (1#15,
      T KChance 0%N 0
        [(9%N, 1,
          T KOpponent 1%N 0
            [(7%N, 1#2,
              T KWalker 2%N 0
                [(2%N, 1#4, T KWalker 3%N 1 []);
                 (3%N, 3#4,
                  T KWalker 4%N 0
                    [(2%N, 1#3, T KChance 5%N (-2) []);
                     (4%N, 2#3, T KOpponent 6%N 0 [(5%N, 1#5, T KWalker 7%N 6 [])])])])])]);
     (4#15,
      T KChance 0%N 0
        [(9%N, 1,
          T KOpponent 1%N 0
            [(7%N, 1#2,
              T KWalker 2%N 0
                [(2%N, 1#4, T KWalker 3%N 1 []);
                 (3%N, 3#4,
                  T KWalker 4%N 0
                    [(2%N, 1#3, T KChance 5%N (-2) []);
                     (4%N, 2#3, T KOpponent 6%N 0 [(6%N, 4#5, T KWalker 8%N 1 [])])])])])]);
     (1#3,
      T KChance 0%N 0
        [(9%N, 1,
          T KOpponent 1%N 0
            [(6%N, 1#2,
              T KWalker 11%N 0 [(2%N, 1#2, T KWalker 12%N 4 []); (3%N, 1#2, T KWalker 13%N (-1) [])])])])].
Proof. exact Proofs.C08_unbiased.ex_full_samples. Qed.
Print Assumptions C08_example_samples.

(* left-hand sides (expectations over the samples) and right-hand sides (reach * value difference, computed on
   the full tree) for the three traverser nodes of ex_full and both of their actions *)
Example C08_example_unbiased_values :
  Qred (total (samples ex_full)) = 1
  /\ Qred (expect utilde_Q (samples ex_full)) = 29#12 /\ Qred (value ex_full) = 29#12
  /\ fnode ex_full [1; 0; 1]%nat = Some ex_full_walker2 /\ Qred (reach_others ex_full [1; 0; 1]%nat) = 1#3
  /\ map (fun pa => Qred (expect (node_regret (fst pa) (snd pa)) (isamples ex_full)))
       [([1; 0], 0); ([1; 0], 1); ([1; 0; 1], 0); ([1; 0; 1], 1); ([1; 1], 0); ([1; 1], 1)]%nat
     = [1#12; -(1#36); -(8#9); 4#9; 5#6; -(5#6)]
  /\ map (fun pa => Qred (true_regret ex_full (fst pa) (snd pa)))
       [([1; 0], 0); ([1; 0], 1); ([1; 0; 1], 0); ([1; 0; 1], 1); ([1; 1], 0); ([1; 1], 1)]%nat
     = [1#12; -(1#36); -(8#9); 4#9; 5#6; -(5#6)].
Proof. exact Proofs.C08_unbiased.ex_full_values. Qed.
Print Assumptions C08_example_unbiased_values.

Example C08_example_root :
  full_ok ex_full_walker /\ full_pos ex_full_walker /\
  ex_full_walker = T KWalker 2%N 0 [(2%N, 1#4, T KWalker 3%N 1 []); (3%N, 3#4, ex_full_walker2)] /\
  Qred (expect (fun s => root_regret s 1) (samples ex_full_walker)) = - (1#12) /\
  Qred (expect (fun s => root_regret_impl s 1) (samples ex_full_walker)) = - (1#12) /\
  Qred (value ex_full_walker2 - value ex_full_walker) = - (1#12).
Proof. exact Proofs.C08_unbiased.ex_root_hyps. Qed.
Print Assumptions C08_example_root.

(* ---------- the estimator for ANY traverser profile (sigma = 0 allowed on traverser edges) ----------
   es_shape demands sigma > 0 on every edge below a traverser node, but the regret computation never
   divides by the traverser's own probabilities.  es_shape_any (Spec/SpecCfrAny.v) demands nothing
   of them (so an action the current strategy plays with probability 0 is covered), keeps sigma > 0
   below opponent nodes and sigma == 1 below chance nodes, and drops the at-most-one-child clause. *)
From RP Require Import Spec.SpecCfrAny.
From RP Require Proofs.C08_any.

Theorem C08_es_shape_any_weaker : forall t, es_shape t -> es_shape_any t.
Proof. exact Proofs.C08_any.es_shape_any_of_es_shape. Qed.
Print Assumptions C08_es_shape_any_weaker.

Theorem C08_estimator_any_profile : forall t, es_shape_any t ->
  triples_eq (immediate_regrets_Q t) (regret_estimator_Q t).
Proof. exact Proofs.C08_any.estimator_any. Qed.
Print Assumptions C08_estimator_any_profile.

Theorem C08_estimator_infoset_any_profile : forall t b e, es_shape_any t ->
  sum_gains Q 0 Qplus (immediate_regrets_Q t) b e == sum_gains Q 0 Qplus (regret_estimator_Q t) b e.
Proof. exact Proofs.C08_any.estimator_infoset_any. Qed.
Print Assumptions C08_estimator_infoset_any_profile.

(* hypothesis satisfiable by a tree that es_shape rejects: ex_tree3 with the first action of the top
   traverser node played with probability 0 *)
Example C08_example_any_profile : es_shape_any ex_tree3_zero /\ ~ es_shape ex_tree3_zero.
Proof. exact Proofs.C08_any.ex_tree3_zero_shape. Qed.
Example C08_example_any_profile_values :
  map (fun x => (fst x, Qred (snd x))) (immediate_regrets_Q ex_tree3_zero)
  = map (fun x => (fst x, Qred (snd x))) (regret_estimator_Q ex_tree3_zero)
  /\ map (fun x => (fst x, Qred (snd x))) (regret_estimator_Q ex_tree3_zero)
  = [(2%N, 2%N, - (7#3)); (2%N, 3%N, 0); (4%N, 2%N, - (16#3)); (4%N, 4%N, 8#3)].
Proof. exact Proofs.C08_any.ex_tree3_zero_values. Qed.

(* with es_shape_any no positivity hypothesis on anybody's strategy is left: for every full tree with
   probabilities >= 0 summing to 1 (full_ok), every external-sampling sample of positive probability has
   the weak shape, so C08_estimator_any_profile applies to it (compare C08_samples_es_shape_support,
   which needs walker_pos).  Hypothesis satisfiable: C08_example_full (ex_full) above. *)
Theorem C08_samples_es_shape_any : forall t, full_ok t ->
  forall q s, In (q, s) (samples t) -> 0 < q -> es_shape_any s.
Proof. exact Proofs.C08_any.samples_es_shape_any_support. Qed.
Print Assumptions C08_samples_es_shape_any.
