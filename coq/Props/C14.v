(* Props/C14.v -- property C14 (provisional instance; the general theorems are being added) *)
From Coq Require Import ZArith NArith List.
From RP Require Import Base.Bits Model.Codec Model.Showdown Model.Game Spec.SpecNLHE Spec.SpecGameInv.
Import ListNotations.
Open Scope Z_scope.
Definition ex_holes : list N := [mask_of_bits [51; 50]%N; mask_of_bits [41; 40]%N].
(* after Call(1), Check pre-flop the engine and the rule book both await the flop, and a raise is rejected *)
Theorem C14_chance_instance :
  match root Standard ex_holes with
  | Some g0 => match run Standard g0 [Call 1; Check] with
               | Some g => turn_of g = Chance /\ is_allowed Standard g (Raise 2) = Some false
               | None => False end
  | None => False end.
Proof. vm_compute. split; reflexivity. Qed.
Print Assumptions C14_chance_instance.
