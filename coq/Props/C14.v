(* Props/C14.v -- card bookkeeping of the betting engine (the card part of C14).
   C14_cards_reachable as asked (cards_inv after ANY action list) is FALSE in the model:
   `Draw (h : N)` is unbounded, is_allowed only inspects the low 64 bits of h
   (C14_cards_reachable_false).  Proved instead:
     - C14_cards_reachable_partial : cards_inv for every history whose drawn sets are u64 values
       (reachable64, Spec/SpecSettle.v) -- the only histories the Rust engine can see;
     - C14_cards_any_reachable : for EVERY history the mask-independent part (cards_inv_any);
     - C14_draw_fresh : at full strength. *)
From Coq Require Import ZArith NArith List Bool.
From RP Require Import Base.Bits Gen.GenLib Model.Codec Model.Evaluator Model.Showdown Model.Game
                       Spec.SpecGameInv Spec.SpecSettle
                       Proofs.C02_Basics Proofs.C02_Cards.
Import ListNotations.
Open Scope N_scope.

(* ---------- the hypotheses are satisfiable ---------- *)
Definition ex_holes : list N := [3; 12].
Definition ex_root : game :=
  mkGame [mkSeat Betting 98 2 2 3; mkSeat Betting 99 1 1 12] 3 0 0 3.
Definition ex_preflop_closed : game :=
  mkGame [mkSeat Betting 98 2 2 3; mkSeat Betting 98 2 2 12] 4 0 0 5.

Example ex_wf_holes : wf_holes Standard ex_holes.
Proof. exists 3, 12. repeat split; reflexivity. Qed.
Example ex_wf_holes_short : wf_holes Short [196608; 786432].
Proof. exists 196608, 786432. repeat split; reflexivity. Qed.
Example ex_reachable64 : reachable64 Standard ex_holes ex_preflop_closed.
Proof.
  exists ex_root, [Call 1%Z; Check]. split; [vm_compute; reflexivity|].
  split; [repeat constructor | vm_compute; reflexivity].
Qed.
Example ex_draw : exists g', apply Standard ex_preflop_closed (Draw 112) = Some g'.
Proof. eexists. vm_compute. reflexivity. Qed.
(* a card already dealt is refused *)
Example ex_draw_refused : apply Standard ex_preflop_closed (Draw 7) = None.
Proof. vm_compute. reflexivity. Qed.

(* ---------- theorems ---------- *)
(* full statement (false in the model, see below):
   forall d hs g, wf_holes d hs -> reachable d hs g -> cards_inv d g *)
Theorem C14_cards_reachable_partial : forall d hs g, wf_holes d hs -> reachable64 d hs g -> cards_inv d g.
Proof. exact cards_inv_reachable64. Qed.
Print Assumptions C14_cards_reachable_partial.

Theorem C14_cards_reachable_false :
  ~ (forall d hs g, wf_holes d hs -> reachable d hs g -> cards_inv d g).
Proof. exact cards_inv_reachable_false. Qed.
Print Assumptions C14_cards_reachable_false.

Theorem C14_reachable64_reachable : forall d hs g, reachable64 d hs g -> reachable d hs g.
Proof. exact reachable64_reachable. Qed.
Print Assumptions C14_reachable64_reachable.

Example ex_reachable : reachable Standard ex_holes ex_preflop_closed.
Proof. exact (C14_reachable64_reachable _ _ _ ex_reachable64). Qed.

Theorem C14_cards_any_reachable : forall d hs g, wf_holes d hs -> reachable d hs g -> cards_inv_any d g.
Proof. exact card_inv_reachable. Qed.
Print Assumptions C14_cards_any_reachable.

Theorem C14_draw_fresh : forall d hs g h g', wf_holes d hs -> reachable d hs g ->
  apply d g (Draw h) = Some g' ->
  N.land h (fold_left N.lor (map cards (seats g)) (board g)) = 0 /\ board g' = N.lor (board g) h.
Proof. exact draw_fresh_reachable. Qed.
Print Assumptions C14_draw_fresh.
