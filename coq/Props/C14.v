(* Props/C14.v -- card bookkeeping of the betting engine (the card part of C14).
   C14_cards_reachable as asked (cards_inv after ANY action list) is FALSE in the model:
   `Draw (h : N)` is unbounded, is_allowed only inspects the low 64 bits of h
   (C14_cards_reachable_false).  Proved instead:
     - C14_cards_reachable_partial : cards_inv for every history whose drawn sets are u64 values
       (reachable64, Spec/SpecSettle.v) -- the only histories the Rust engine can see;
     - C14_cards_any_reachable : for EVERY history the mask-independent part (cards_inv_any);
     - C14_draw_fresh : at full strength. *)
From Coq Require Import ZArith NArith List Bool.
From RP Require Import Base.Bits Gen.GenLib Model.Codec Model.Evaluator Model.Showdown Model.Game
                       Spec.SpecGameInv Spec.SpecSettle
                       Proofs.C02_Basics Proofs.C02_Cards.
Import ListNotations.
Open Scope N_scope.

(* ---------- the hypotheses are satisfiable ---------- *)
Definition ex_holes : list N := [3; 12].
Definition ex_root : game :=
  mkGame [mkSeat Betting 98 2 2 3; mkSeat Betting 99 1 1 12] 3 0 0 3.
Definition ex_preflop_closed : game :=
  mkGame [mkSeat Betting 98 2 2 3; mkSeat Betting 98 2 2 12] 4 0 0 5.

Example ex_wf_holes : wf_holes Standard ex_holes.
Proof. exists 3, 12. repeat split; reflexivity. Qed.
Example ex_wf_holes_short : wf_holes Short [196608; 786432].
Proof. exists 196608, 786432. repeat split; reflexivity. Qed.
Example ex_reachable64 : reachable64 Standard ex_holes ex_preflop_closed.
Proof.
  exists ex_root, [Call 1%Z; Check]. split; [vm_compute; reflexivity|].
  split; [repeat constructor | vm_compute; reflexivity].
Qed.
Example ex_draw : exists g', apply Standard ex_preflop_closed (Draw 112) = Some g'.
Proof. eexists. vm_compute. reflexivity. Qed.
(* a card already dealt is refused *)
Example ex_draw_refused : apply Standard ex_preflop_closed (Draw 7) = None.
Proof. vm_compute. reflexivity. Qed.

(* ---------- theorems ---------- *)
(* full statement (false in the model, see below):
   forall d hs g, wf_holes d hs -> reachable d hs g -> cards_inv d g *)
Theorem C14_cards_reachable_partial : forall d hs g, wf_holes d hs -> reachable64 d hs g -> cards_inv d g.
Proof. exact cards_inv_reachable64. Qed.
Print Assumptions C14_cards_reachable_partial.

Theorem C14_cards_reachable_false :
  ~ (forall d hs g, wf_holes d hs -> reachable d hs g -> cards_inv d g).
Proof. exact cards_inv_reachable_false. Qed.
Print Assumptions C14_cards_reachable_false.

Theorem C14_reachable64_reachable : forall d hs g, reachable64 d hs g -> reachable d hs g.
Proof. exact reachable64_reachable. Qed.
Print Assumptions C14_reachable64_reachable.

Example ex_reachable : reachable Standard ex_holes ex_preflop_closed.
Proof. exact (C14_reachable64_reachable _ _ _ ex_reachable64). Qed.

Theorem C14_cards_any_reachable : forall d hs g, wf_holes d hs -> reachable d hs g -> cards_inv_any d g.
Proof. exact card_inv_reachable. Qed.
Print Assumptions C14_cards_any_reachable.

Theorem C14_draw_fresh : forall d hs g h g', wf_holes d hs -> reachable d hs g ->
  apply d g (Draw h) = Some g' ->
  N.land h (fold_left N.lor (map cards (seats g)) (board g)) = 0 /\ board g' = N.lor (board g) h.
Proof. exact draw_fresh_reachable. Qed.
Print Assumptions C14_draw_fresh.

(* ===== the draw part (Deck::draw) ===== *)
(* Props/C14_Draw.v -- property C14 (draw part): drawing from a deck returns each remaining card for
   exactly one value of the random index (so a uniform index gives a uniform card), the card is
   removed, and successive draws never repeat a card.
   Model: Model/Deck.v (walk / draw_at / draw / draws); the loop condition is read from the Rust
   source through Gen.GenFixes.DECK_DRAW_INCLUSIVE.  nseq' and draws_ok: Spec/DeckSpec.v. *)
From Coq Require Import NArith List Bool.
From RP Require Import Base.Bits Gen.GenFixes Gen.GenCards Model.Deck Spec.DeckSpec.
From RP Require Proofs.C14_Draw.
Import ListNotations.
Open Scope N_scope.

(* the repaired loop returns the (i+1)-th lowest set bit of the deck *)
Theorem C14_draw_is_nth : forall d i, d < 2 ^ 64 -> i < popcount64 d ->
  draw_at_with true d i = nth (N.to_nat i) (set_bits64 d) 0.
Proof. exact Proofs.C14_Draw.C14_draw_is_nth. Qed.
Print Assumptions C14_draw_is_nth.

(* index |-> card enumerates the cards of the deck in ascending order, each exactly once *)
Theorem C14_draw_bijective : forall d, d < 2 ^ 64 ->
  map (draw_at d) (nseq' (popcount64 d)) = set_bits64 d.
Proof. exact Proofs.C14_Draw.C14_draw_bijective. Qed.
Print Assumptions C14_draw_bijective.

Theorem C14_draw_each_card_once : forall d c, d < 2 ^ 64 -> In c (set_bits64 d) ->
  exists! i, i < popcount64 d /\ draw_at d i = c.
Proof. exact Proofs.C14_Draw.C14_draw_each_card_once. Qed.
Print Assumptions C14_draw_each_card_once.

(* among the popcount64 d equally likely indices exactly one yields a given card of the deck and
   none yields anything else: the drawn card is uniformly distributed over the deck *)
Theorem C14_draw_uniform : forall d c, d < 2 ^ 64 ->
  count_occ N.eq_dec (map (draw_at d) (nseq' (popcount64 d))) c
  = if N.testbit d c then 1%nat else 0%nat.
Proof. exact Proofs.C14_Draw.C14_draw_uniform. Qed.
Print Assumptions C14_draw_uniform.

Theorem C14_every_card_drawable : forall d c, d < 2 ^ 64 -> N.testbit d c = true ->
  exists i, i < popcount64 d /\ draw_at d i = c.
Proof. exact Proofs.C14_Draw.C14_every_card_drawable. Qed.
Print Assumptions C14_every_card_drawable.

(* every card of the full 52-card deck (Hand::mask()) can be the first card dealt *)
Theorem C14_full_deck_first_card : forall c, c < 52 ->
  exists i, i < 52 /\ draw_at HAND_MASK_STD i = c.
Proof. exact Proofs.C14_Draw.C14_full_deck_first_card. Qed.
Print Assumptions C14_full_deck_first_card.

Theorem C14_draw_in_deck : forall d i, d < 2 ^ 64 -> i < popcount64 d ->
  N.testbit d (draw_at d i) = true.
Proof. exact Proofs.C14_Draw.C14_draw_in_deck. Qed.
Print Assumptions C14_draw_in_deck.

Theorem C14_draw_removes : forall d i, d < 2 ^ 64 -> i < popcount64 d ->
  let (c, d') := draw d i in
  N.testbit d' c = false /\
  (forall k, k <> c -> N.testbit d' k = N.testbit d k) /\
  popcount64 d' = popcount64 d - 1.
Proof. exact Proofs.C14_Draw.C14_draw_removes. Qed.
Print Assumptions C14_draw_removes.

(* successive draws (each index below the current deck size) return pairwise distinct cards of d *)
Theorem C14_draws_distinct : forall d is, d < 2 ^ 64 -> draws_ok d is ->
  NoDup (fst (draws d is)) /\
  Forall (fun c => N.testbit d c = true) (fst (draws d is)) /\
  length (fst (draws d is)) = length is.
Proof. exact Proofs.C14_Draw.C14_draws_distinct. Qed.
Print Assumptions C14_draws_distinct.

(* and the deck that is left is d minus exactly the drawn cards *)
Theorem C14_draws_remaining : forall d is, d < 2 ^ 64 -> draws_ok d is ->
  (forall k, N.testbit (snd (draws d is)) k
             = N.testbit d k && negb (existsb (N.eqb k) (fst (draws d is)))) /\
  popcount64 (snd (draws d is)) = popcount64 d - N.of_nat (length is).
Proof. exact Proofs.C14_Draw.C14_draws_remaining. Qed.
Print Assumptions C14_draws_remaining.

(* draws_ok holds when the j-th index is below size - j (what gen_range(0..size) provides) *)
Theorem C14_draws_ok_of_bounds : forall is d, d < 2 ^ 64 ->
  (forall j, (j < length is)%nat -> nth j is 0 + N.of_nat j < popcount64 d) -> draws_ok d is.
Proof. exact Proofs.C14_Draw.draws_ok_of_bounds. Qed.
Print Assumptions C14_draws_ok_of_bounds.

(* Deck::hole: the two hole cards differ *)
Theorem C14_hole_distinct : forall d i j, d < 2 ^ 64 -> i < popcount64 d -> j + 1 < popcount64 d ->
  exists a b, fst (draws d [i; j]) = [a; b] /\ a <> b /\
              N.testbit d a = true /\ N.testbit d b = true.
Proof. exact Proofs.C14_Draw.C14_hole_distinct. Qed.
Print Assumptions C14_hole_distinct.

(* with the original loop (`ones < i`) indices 0 and 1 collide and the top card is never drawn:
   C14_draw_bijective depends on the generated flag *)
Example C14_needs_inclusive :
  popcount64 11 = 3 /\ set_bits64 11 = [0; 1; 3] /\
  draw_at_with false 11 0 = 0 /\ draw_at_with false 11 1 = 0 /\ draw_at_with false 11 2 = 1 /\
  ~ In 3 (map (draw_at_with false 11) (nseq' (popcount64 11))) /\
  map (draw_at_with true 11) (nseq' (popcount64 11)) = [0; 1; 3].
Proof. exact Proofs.C14_Draw.C14_needs_inclusive. Qed.
Print Assumptions C14_needs_inclusive.

(* the hypotheses are satisfiable: the 3-card deck {0, 1, 3} *)
Example C14_draw_hyps_sat :
  11 < 2 ^ 64 /\ 2 < popcount64 11 /\ draw_at 11 2 = 3 /\ In 3 (set_bits64 11) /\
  draw 11 2 = (3, 3) /\ draws_ok 11 [2; 0; 0] /\ draws 11 [2; 0; 0] = ([3; 0; 1], 0).
Proof. exact Proofs.C14_Draw.C14_draw_hyps_sat. Qed.
Print Assumptions C14_draw_hyps_sat.
