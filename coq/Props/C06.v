(* Props/C06.v -- property C06 (arithmetic part; the enumeration theorems are being added) *)
From Coq Require Import NArith ZArith List.
From RP Require Import Gen.GenStreet Model.Codec Spec.SpecCombs.
Import ListNotations.
Open Scope N_scope.

Definition zs (l : list (option Z)) : list N := flat_map (fun o => match o with Some z => [Z.to_N z] | None => [] end) l.
(* the library's published per-street constants equal the counting formulas and Burnside's lemma *)
Theorem C06_observation_counts :
  map (n_observations Standard) [0; 3; 4; 5]%nat = zs N_OBSERVATIONS_STD /\
  map (n_observations Short) [0; 3; 4; 5]%nat = zs N_OBSERVATIONS_SHORT.
Proof. split; vm_compute; reflexivity. Qed.
Print Assumptions C06_observation_counts.
Theorem C06_burnside_counts :
  map (burnside Standard) [0; 3; 4; 5]%nat = zs N_ISOMORPHISMS_STD /\
  map (burnside Short) [0; 3; 4; 5]%nat = zs N_ISOMORPHISMS_SHORT /\
  map (burnside Standard) [0; 3; 4; 5]%nat = [169; 1286792; 13960050; 123156254].
Proof. repeat split; vm_compute; reflexivity. Qed.
Print Assumptions C06_burnside_counts.
Theorem C06_children_counts :
  [n_children Standard 2 3; n_children Standard 5 1; n_children Standard 6 1] = zs N_CHILDREN_STD /\
  [n_children Short 2 3; n_children Short 5 1; n_children Short 6 1] = zs N_CHILDREN_SHORT.
Proof. split; vm_compute; reflexivity. Qed.
Print Assumptions C06_children_counts.
