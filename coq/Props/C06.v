(* Props/C06.v -- property C06: the exhaustive iterators (src/cards/hands.rs, observations.rs,
   isomorphisms.rs, Observation::children) yield every hand / observation exactly once, in increasing
   order, without overflow; the published per-street counts equal the counting formulas.
   Statements use only Base/ Gen/ Model/ Spec/ definitions; proofs live in Proofs/C06_*.v. *)
From Coq Require Import NArith ZArith List Bool Sorted.
From RP Require Import Base.Bits Gen.GenStreet Gen.GenPerm Model.Codec Model.Evaluator Model.Iso Model.Hands.
From RP Require Import Spec.SpecCodec Spec.SpecIso Spec.SpecIsoWf Spec.SpecCombs Spec.SpecIter.
From RP Require Proofs.C06_Hands Proofs.C06_Main Proofs.C06_Count Proofs.C06_Obs Proofs.C06_ObsSpec Proofs.C06_Examples.
Import ListNotations.
Open Scope N_scope.

(* ================= A. arithmetic: the published constants ================= *)
Definition zs (l : list (option Z)) : list N := flat_map (fun o => match o with Some z => [Z.to_N z] | None => [] end) l.
(* the library's published per-street constants equal the counting formulas and Burnside's lemma *)
Theorem C06_observation_counts :
  map (n_observations Standard) [0; 3; 4; 5]%nat = zs N_OBSERVATIONS_STD /\
  map (n_observations Short) [0; 3; 4; 5]%nat = zs N_OBSERVATIONS_SHORT.
Proof. split; vm_compute; reflexivity. Qed.
Print Assumptions C06_observation_counts.
Theorem C06_burnside_counts :
  map (burnside Standard) [0; 3; 4; 5]%nat = zs N_ISOMORPHISMS_STD /\
  map (burnside Short) [0; 3; 4; 5]%nat = zs N_ISOMORPHISMS_SHORT /\
  map (burnside Standard) [0; 3; 4; 5]%nat = [169; 1286792; 13960050; 123156254].
Proof. repeat split; vm_compute; reflexivity. Qed.
Print Assumptions C06_burnside_counts.
Theorem C06_children_counts :
  [n_children Standard 2 3; n_children Standard 5 1; n_children Standard 6 1] = zs N_CHILDREN_STD /\
  [n_children Short 2 3; n_children Short 5 1; n_children Short 6 1] = zs N_CHILDREN_SHORT.
Proof. split; vm_compute; reflexivity. Qed.
Print Assumptions C06_children_counts.

(* ================= 1. HandIterator::permute is the colex successor ================= *)
(* x = 0^a 1^(b+1) 0 r (from the least significant bit)  |->  1^b 0^(a+1) 1 r ; no overflow branch fires *)
Theorem C06_permute_succ : forall a b r,
  2 ^ a * (2 ^ (b + 1) - 1) + 2 ^ (a + b + 2) * r < 2 ^ 63 ->
  permute_next (2 ^ a * (2 ^ (b + 1) - 1) + 2 ^ (a + b + 2) * r)
  = Some ((2 ^ b - 1) + 2 ^ (a + b + 1) + 2 ^ (a + b + 2) * r).
Proof. exact C06_Main.C06_permute_succ. Qed.
Print Assumptions C06_permute_succ.
Example C06_permute_succ_hyp :
  2 ^ 1 * (2 ^ (1 + 1) - 1) + 2 ^ (1 + 1 + 2) * 1 = 22 /\ 22 < 2 ^ 63 /\ 0 < 22 /\
  permute_next 22 = Some 25 /\ (2 ^ 1 - 1) + 2 ^ (1 + 1 + 1) + 2 ^ (1 + 1 + 2) * 1 = 25.
Proof. exact C06_Examples.ex_permute. Qed.

(* the same for any 64-bit word whose block of ones is not the topmost one *)
Theorem C06_permute_succ_wide : forall a b r,
  a + b + 2 <= 64 -> 2 ^ a * (2 ^ (b + 1) - 1) + 2 ^ (a + b + 2) * r < 2 ^ 64 ->
  permute_next (2 ^ a * (2 ^ (b + 1) - 1) + 2 ^ (a + b + 2) * r)
  = Some ((2 ^ b - 1) + 2 ^ (a + b + 1) + 2 ^ (a + b + 2) * r).
Proof. exact C06_Main.C06_permute_succ_wide. Qed.
Print Assumptions C06_permute_succ_wide.

(* every positive number has that shape, so C06_permute_succ covers every 0 < x < 2^63 *)
Theorem C06_permute_shape_exists : forall x, 0 < x ->
  exists a b r, x = 2 ^ a * (2 ^ (b + 1) - 1) + 2 ^ (a + b + 2) * r.
Proof. exact C06_Main.C06_shape_exists. Qed.
Print Assumptions C06_permute_shape_exists.

(* the result is the NEXT larger word with the same number of bits; it still fits 64 bits *)
Theorem C06_permute_next_least : forall x, 0 < x -> x < 2 ^ 63 ->
  exists y, permute_next x = Some y /\ x < y /\ y < 2 ^ 64 /\ popcount64 y = popcount64 x /\
            forall z, x < z -> z < y -> popcount64 z <> popcount64 x.
Proof. exact C06_Main.C06_permute_next_least. Qed.
Print Assumptions C06_permute_next_least.

(* permute() on the empty word underflows (x - 1): the iterator must never call it with 0 *)
Theorem C06_permute_zero : permute_next 0 = None.
Proof. exact C06_Main.C06_permute_zero. Qed.
Print Assumptions C06_permute_zero.

(* ================= 2. fuel ================= *)
(* a loop that says Go n times and then Stop/Crash is computed exactly by repeat_until, given n < fuel *)
Theorem C06_fuel : forall (A : Type) (step : A -> outcome A) fuel a n r,
  reaches step a n r -> N.of_nat n < Npos fuel -> repeat_until fuel step a = r.
Proof. exact C06_Main.C06_fuel. Qed.
Print Assumptions C06_fuel.
Example C06_fuel_hyp : reaches (advance_step 4) 11 2 (Stop 19) /\ N.of_nat 2 < Npos big_fuel.
Proof. exact C06_Examples.ex_reaches. Qed.

(* advance(): the words strictly increase and stay <= 2^52 * (2^k - 1) < 2^60 = big_fuel, so the loop
   ends (without overflow) at the least larger k-bit word disjoint from the mask *)
Theorem C06_advance_spec : forall k m x, 1 <= k -> k <= 8 -> m < 2 ^ 52 ->
  popcount64 x = k -> x < 2 ^ 52 * (2 ^ k - 1) ->
  exists n y, reaches (advance_step m) x n (Stop y) /\ N.of_nat n < Npos big_fuel /\
    advance (mkHiter x m) = Some (mkHiter y m) /\
    x < y /\ y <= 2 ^ 52 * (2 ^ k - 1) /\ popcount64 y = k /\ N.land y m = 0 /\
    (forall z, x < z -> z < y -> popcount64 z = k -> N.land z m <> 0).
Proof. exact C06_Main.C06_advance_spec. Qed.
Print Assumptions C06_advance_spec.
Example C06_advance_spec_hyp : 1 <= 3 /\ 3 <= 8 /\ 4 < 2 ^ 52 /\ popcount64 11 = 3 /\ 11 < 2 ^ 52 * (2 ^ 3 - 1).
Proof. exact C06_Examples.ex_advance_hyp. Qed.

(* ================= 3. the hand iterator ================= *)
(* what the specification list is: exactly the k-card hands made of free cards ... *)
Theorem C06_spec_hands_in : forall d mask k z,
  In z (spec_hands d k mask) <-> (popcount64 z = N.of_nat k /\ N.land z (free_cards d mask) = z).
Proof. exact C06_Main.C06_spec_hands_in. Qed.
Print Assumptions C06_spec_hands_in.
(* ... in strictly increasing order, hence without repeats ... *)
Theorem C06_hands_sorted : forall d k mask, StronglySorted N.lt (spec_hands d k mask).
Proof. exact C06_Main.C06_hands_sorted. Qed.
Print Assumptions C06_hands_sorted.
Theorem C06_hands_nodup : forall d k mask, NoDup (spec_hands d k mask).
Proof. exact C06_Main.C06_hands_nodup. Qed.
Print Assumptions C06_hands_nodup.
(* ... and there are (free cards choose k) of them *)
Theorem C06_hands_count : forall d k mask,
  N.of_nat (length (spec_hands d k mask)) = choose (n_free d mask) k.
Proof. exact C06_Main.C06_hands_count. Qed.
Print Assumptions C06_hands_count.
Theorem C06_n_free : forall d mask, N.land mask (hand_mask d) = mask ->
  n_free d mask = (deck_size d - N.to_nat (hand_size mask))%nat.
Proof. exact C06_Count.n_free_eq. Qed.
Print Assumptions C06_n_free.

(* HandIterator::from((k, mask)) followed by next() until None yields exactly that list *)
Theorem C06_hands_enum : forall d k mask, (1 <= k <= 7)%nat -> N.land mask (hand_mask d) = mask ->
  exists it, hand_iter d (N.of_nat k) mask = Some it /\
             hands_all d it (spec_hands d k mask) /\
             hands_take (S (length (spec_hands d k mask))) d it = Some (spec_hands d k mask).
Proof. exact C06_Main.C06_hands_enum. Qed.
Print Assumptions C06_hands_enum.
Example C06_hands_enum_hyp :
  (1 <= 2 <= 7)%nat /\ N.land 15 (hand_mask Standard) = 15 /\ N.land 983040 (hand_mask Short) = 983040.
Proof. exact C06_Examples.ex_mask_hyp. Qed.

(* hands_all is functional (a complete run is unique) and determines hands_take *)
Theorem C06_hands_all_unique : forall d it l l', hands_all d it l -> hands_all d it l' -> l = l'.
Proof. exact C06_Hands.hands_all_deterministic. Qed.
Print Assumptions C06_hands_all_unique.
Theorem C06_hands_all_take : forall d it l, hands_all d it l ->
  forall limit, (length l < limit)%nat -> hands_take limit d it = Some l.
Proof. exact C06_Hands.hands_all_take. Qed.
Print Assumptions C06_hands_all_take.

(* no call of next() panics, however many items are requested: the 12 bit positions above the deck
   make room for the final successor *)
Theorem C06_hands_no_overflow : forall d k mask, (1 <= k <= 7)%nat -> N.land mask (hand_mask d) = mask ->
  exists it, hand_iter d (N.of_nat k) mask = Some it /\ forall limit, hands_take limit d it <> None.
Proof. exact C06_Main.C06_hands_no_overflow. Qed.
Print Assumptions C06_hands_no_overflow.

(* the unit tests of hands.rs *)
Theorem C06_test_choose_3 :
  C06_Examples.take_from Standard 3 0 10 = Some [7; 11; 13; 14; 19; 21; 22; 25; 26; 28].
Proof. exact C06_Examples.test_choose_3. Qed.
Print Assumptions C06_test_choose_3.
Theorem C06_test_choose_3_from_5 :
  C06_Examples.take_from Standard 3 C06_Examples.mask_3_from_5 11 = Some [25; 41; 49; 56; 73; 81; 88; 97; 104; 112] /\
  spec_hands Standard 3 C06_Examples.mask_3_from_5 = [25; 41; 49; 56; 73; 81; 88; 97; 104; 112] /\
  N.land C06_Examples.mask_3_from_5 (hand_mask Standard) = C06_Examples.mask_3_from_5.
Proof. exact C06_Examples.test_choose_3_from_5. Qed.
Print Assumptions C06_test_choose_3_from_5.
Theorem C06_test_counts :
  C06_Examples.take_from Standard 0 0 5 = Some [] /\ C06_Examples.take_from Standard 0 15 5 = Some [] /\
  option_map (@length N) (C06_Examples.take_from Standard 1 0 2000) = Some 52%nat /\
  option_map (@length N) (C06_Examples.take_from Short 1 0 2000) = Some 36%nat /\
  option_map (@length N) (C06_Examples.take_from Standard 2 0 2000) = Some 1326%nat /\
  option_map (@length N) (C06_Examples.take_from Standard 1 15 2000) = Some 48%nat /\
  option_map (@length N) (C06_Examples.take_from Standard 2 15 2000) = Some 1128%nat.
Proof. exact C06_Examples.test_counts. Qed.
Print Assumptions C06_test_counts.
Theorem C06_test_choose_2_shortdeck : C06_Examples.take_from Short 2 0 1 = Some [196608].
Proof. exact C06_Examples.test_choose_2_shortdeck. Qed.
Print Assumptions C06_test_choose_2_shortdeck.

(* ================= 4. k = 0 (known finding D4) ================= *)
Theorem C06_hands_k0 : forall d mask, N.land mask (hand_mask d) = mask ->
  exists it, hand_iter d 0 mask = Some it /\ hand_next d it = Some None.
Proof. exact C06_Main.C06_hands_k0. Qed.
Print Assumptions C06_hands_k0.
(* the iterator for zero cards yields NOTHING, although there is exactly one hand of zero cards *)
Theorem C06_k0_finding : forall d mask, N.land mask (hand_mask d) = mask ->
  (exists it, hand_iter d 0 mask = Some it /\ hands_all d it []) /\ spec_hands d 0 mask = [0].
Proof. exact C06_Main.C06_k0_finding. Qed.
Print Assumptions C06_k0_finding.

(* ================= 5. Observation::children ================= *)
(* the hand iterator over (n_revealed, pocket | public) yields every set of n_revealed unseen cards once;
   there are n_children of them and each extends the board to a valid observation *)
Theorem C06_children_enum : forall d o s n,
  wf_obs_d d o -> obs_street o = Some s -> n_revealed_of s = Some n ->
  let removed := N.lor (pocket o) (public o) in
  let l := spec_hands d (N.to_nat n) removed in
  exists it, hand_iter d n removed = Some it /\ hands_all d it l /\
    N.of_nat (length l) = n_children d (N.to_nat (hand_size (pocket o) + hand_size (public o))) (N.to_nat n) /\
    Forall (fun h => hand_add (public o) h = Some (N.lor (public o) h) /\
                     obs_from_parts (pocket o) (N.lor (public o) h) = Some (mkObs (pocket o) (N.lor (public o) h)) /\
                     N.land h removed = 0 /\ hand_size h = n) l.
Proof. exact C06_Count.children_enum. Qed.
Print Assumptions C06_children_enum.
Example C06_children_enum_hyp :
  wf_obs_d Standard C06_Examples.ex_flop /\ obs_street C06_Examples.ex_flop = Some 1%Z /\ n_revealed_of 1 = Some 1.
Proof. exact C06_Examples.ex_flop_hyp. Qed.

(* ================= 6. the observation iterator ================= *)
(* ObservationIterator::from(street) followed by next() until None yields exactly spec_obs *)
Theorem C06_obs_enum : forall d s, (0 <= s <= 3)%Z ->
  exists it, obs_iter d s = Some it /\ obs_all d it (spec_obs d s) /\
    (forall limit, (length (spec_obs d s) < limit)%nat -> obs_take limit d it = Some (spec_obs d s)) /\
    (forall limit, obs_take limit d it <> None).
Proof.
  intros d s Hs. destruct (C06_Obs.obs_enum d s Hs) as (it & E & Hall).
  exists it. split; [exact E|]. split; [exact Hall|]. split.
  - exact (C06_ObsSpec.obs_all_take d it _ Hall).
  - intros limit. destruct (Nat.lt_ge_cases (length (spec_obs d s)) limit) as [H | H].
    + rewrite (C06_ObsSpec.obs_all_take d it _ Hall limit H). discriminate.
    + rewrite (C06_ObsSpec.obs_all_take_prefix d it _ Hall limit H). discriminate.
Qed.
Print Assumptions C06_obs_enum.
Example C06_obs_enum_hyp : (0 <= 2 <= 3)%Z.
Proof. exact C06_Examples.ex_street_hyp. Qed.
Theorem C06_obs_all_unique : forall d it l l', obs_all d it l -> obs_all d it l' -> l = l'.
Proof. exact C06_ObsSpec.obs_all_deterministic. Qed.
Print Assumptions C06_obs_all_unique.
(* spec_obs is: every well-formed observation of the street, each exactly once; their number *)
Theorem C06_obs_spec_in : forall d s o, (0 <= s <= 3)%Z ->
  (In o (spec_obs d s) <-> (wf_obs_d d o /\ hand_size (public o) = n_observed s)).
Proof. exact C06_ObsSpec.spec_obs_in. Qed.
Print Assumptions C06_obs_spec_in.
Theorem C06_obs_nodup : forall d s, NoDup (spec_obs d s).
Proof. exact C06_ObsSpec.spec_obs_NoDup. Qed.
Print Assumptions C06_obs_nodup.
Theorem C06_obs_count : forall d s,
  N.of_nat (length (spec_obs d s)) = n_observations d (N.to_nat (n_observed s)).
Proof. exact C06_ObsSpec.spec_obs_length. Qed.
Print Assumptions C06_obs_count.
(* pre-flop: the inner iterator has k = 0 and yields nothing; one observation per pocket, empty board *)
Theorem C06_obs_pref : forall d, spec_obs d 0 = map (fun p => mkObs p 0) (spec_hands d 2 0).
Proof. exact C06_Obs.spec_obs_pref. Qed.
Print Assumptions C06_obs_pref.
Theorem C06_obs_examples :
  C06_Examples.obs_take_from Standard 1 3 = Some [mkObs 3 28; mkObs 3 44; mkObs 3 52] /\
  C06_Examples.obs_take_from Short 2 2 = Some [mkObs 196608 3932160; mkObs 196608 6029312] /\
  C06_Examples.obs_take_from Standard 0 2000 = Some (spec_obs Standard 0) /\
  C06_Examples.obs_take_from Short 0 2000 = Some (spec_obs Short 0) /\
  length (spec_obs Standard 0) = 1326%nat /\ length (spec_obs Short 0) = 630%nat.
Proof.
  exact (conj C06_Examples.ex_obs_flop (conj C06_Examples.ex_obs_turn_short C06_Examples.ex_obs_pref)).
Qed.
Print Assumptions C06_obs_examples.

(* ================= 7. the isomorphism iterator ================= *)
(* filtering the observation sequence by is_canonical yields every canonical observation of the street once *)
Theorem C06_iso_enum : forall d s o, (0 <= s <= 3)%Z ->
  (In o (iso_filter d (spec_obs d s)) <->
   (wf_obs_d d o /\ hand_size (public o) = n_observed s /\ is_canonical d o = true)).
Proof. exact C06_ObsSpec.iso_filter_in. Qed.
Print Assumptions C06_iso_enum.
Theorem C06_iso_nodup : forall d s, NoDup (iso_filter d (spec_obs d s)).
Proof. exact C06_ObsSpec.iso_filter_NoDup. Qed.
Print Assumptions C06_iso_nodup.

(* exactly one representative per suit-isomorphism class, GIVEN the facts of property C05.
   The hypotheses are verbatim the statements of C05_faithful, C05_permute_is_relabel,
   C05_isomorphic_iff_same_canon, C05_idem, C05_is_canonical_iff (Props/C05.v) and of
   relabel_hand_size (Proofs/C05_Bits.v); instantiate them with those theorems. *)
Section C06_with_C05.
Hypothesis H_C05_faithful : forall d o, wf_obs_d d o ->
  exists p c, In p EXHAUST /\ canon d o = Some c /\ c = relabel_obs p o.
Hypothesis H_C05_permute_is_relabel : forall d p o, In p EXHAUST -> wf_obs_d d o ->
  permute d p o = Some (relabel_obs p o) /\ wf_obs_d d (relabel_obs p o).
Hypothesis H_C05_isomorphic_iff_same_canon : forall d o1 o2, wf_obs_d d o1 -> wf_obs_d d o2 ->
  (isomorphic o1 o2 = true <-> canon d o1 = canon d o2).
Hypothesis H_C05_idem : forall d o c, wf_obs_d d o -> canon d o = Some c ->
  canon d c = Some c /\ is_canonical d c = true.
Hypothesis H_C05_is_canonical_iff : forall d o, wf_obs_d d o ->
  (is_canonical d o = true <-> canon d o = Some o).
Hypothesis H_C05_relabel_hand_size : forall p h, In p EXHAUST -> h < 2 ^ 52 ->
  hand_size (relabel_hand p h) = hand_size h.

Theorem C06_iso_representative : forall d s o, (0 <= s <= 3)%Z ->
  wf_obs_d d o -> hand_size (public o) = n_observed s ->
  exists c, (In c (iso_filter d (spec_obs d s)) /\ isomorphic o c = true) /\
            forall c', In c' (iso_filter d (spec_obs d s)) -> isomorphic o c' = true -> c' = c.
Proof.
  exact (C06_ObsSpec.iso_representative H_C05_faithful H_C05_permute_is_relabel
           H_C05_isomorphic_iff_same_canon H_C05_idem H_C05_is_canonical_iff H_C05_relabel_hand_size).
Qed.
End C06_with_C05.
Print Assumptions C06_iso_representative.
Example C06_iso_representative_hyp :
  wf_obs_d Standard (mkObs 3 0) /\ hand_size (public (mkObs 3 0)) = n_observed 0.
Proof. exact C06_Examples.ex_pref_obs_hyp. Qed.

(* the section above instantiated with the C05 theorems: exactly one representative per suit-equivalence class *)
From RP Require Props.C05 Proofs.C05_Bits.
Theorem C06_iso_one_per_class : forall d s o, (0 <= s <= 3)%Z ->
  wf_obs_d d o -> hand_size (public o) = n_observed s ->
  exists c, (In c (iso_filter d (spec_obs d s)) /\ isomorphic o c = true) /\
            forall c', In c' (iso_filter d (spec_obs d s)) -> isomorphic o c' = true -> c' = c.
Proof.
  exact (C06_iso_representative C05.C05_faithful C05.C05_permute_is_relabel
           C05.C05_isomorphic_iff_same_canon C05.C05_idem C05.C05_is_canonical_iff
           C05_Bits.relabel_hand_size).
Qed.
Print Assumptions C06_iso_one_per_class.

(* the pre-flop street enumerated outright: filtering the 1326 (short deck: 630) observations by
   is_canonical leaves 169 (81) of them, the published constant N_ISOMORPHISMS[0] of each deck
   (= burnside d 0, C06_burnside_counts).  By computation over the whole street.
   (The flop -- 25,989,600 observations, 3,769,920 in the short deck -- is out of reach of
   vm_compute at roughly 0.7 ms per observation; for the later streets the count is tied to the
   constant only through C06_iso_one_per_class and Burnside's formula.) *)
Theorem C06_preflop_classes :
  length (iso_filter Standard (spec_obs Standard 0)) = 169%nat /\
  length (iso_filter Short (spec_obs Short 0)) = 81%nat /\
  nth_error N_ISOMORPHISMS_STD 0 = Some (Some (Z.of_nat (length (iso_filter Standard (spec_obs Standard 0))))) /\
  nth_error N_ISOMORPHISMS_SHORT 0 = Some (Some (Z.of_nat (length (iso_filter Short (spec_obs Short 0))))).
Proof. repeat split; vm_compute; reflexivity. Qed.
Print Assumptions C06_preflop_classes.
