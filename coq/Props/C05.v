(* Props/C05.v -- property C05 (provisional instance; the general theorems are being added) *)
From Coq Require Import NArith List.
From RP Require Import Base.Bits Gen.GenPerm Model.Codec Model.Iso Spec.SpecIso.
Import ListNotations.
Open Scope N_scope.
Definition c (r s : N) : N := 4 * r + s.
(* pocket 2s Ks; boards 2d 5h 8c Tc Th and 2h 5c 8d Tc Td (unit test super_symmetry) *)
Definition ex_a := mkObs (mask_of_bits [c 0 3; c 11 3]) (mask_of_bits [c 0 1; c 3 2; c 6 0; c 8 0; c 8 2]).
Definition ex_b := mkObs (mask_of_bits [c 0 3; c 11 3]) (mask_of_bits [c 0 2; c 3 0; c 6 1; c 8 0; c 8 1]).
Theorem C05_super_symmetry_instance :
  canon Standard ex_a = canon Standard ex_b /\ canon Standard ex_a <> None /\
  forallb (fun p => match permute Standard p ex_a with
                    | Some o => match canon Standard o, canon Standard ex_a with
                                | Some x, Some y => obs_eqb x y | _, _ => false end
                    | None => false end) EXHAUST = true.
Proof. vm_compute. repeat split; try reflexivity; discriminate. Qed.
Print Assumptions C05_super_symmetry_instance.
