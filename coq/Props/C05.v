(* Props/C05.v -- property C05: suit-isomorphism canonicalisation (src/cards/permutation.rs,
   src/cards/isomorphism.rs) is a faithful, invariant, idempotent canonical form.
   Statements use only Base/ Gen/ Model/ Spec/ definitions; proofs live in Proofs/C05_*.v. *)
From Coq Require Import NArith List Bool.
From RP Require Import Base.Bits Gen.GenPerm Model.Codec Model.Evaluator Model.Iso.
From RP Require Import Spec.SpecCodec Spec.SpecIso Spec.SpecIsoWf.
From RP Require Proofs.C05_Bits Proofs.C05_Canon Proofs.C05_Examples.
Import ListNotations.
Open Scope N_scope.

(* ---------- 1. L0 -> spec: shift-and-mask is the mathematical relabeling ---------- *)
Theorem C05_image_is_relabel : forall d p h, In p EXHAUST -> N.land h (hand_mask d) = h ->
  image d p h = Some (relabel_hand p h).
Proof. exact C05_Bits.C05_image_is_relabel. Qed.
Print Assumptions C05_image_is_relabel.
Example C05_image_is_relabel_hyp :
  In C05_Examples.ex_perm EXHAUST /\
  N.land (public C05_Examples.ex_std) (hand_mask Standard) = public C05_Examples.ex_std /\
  N.land (public C05_Examples.ex_short) (hand_mask Short) = public C05_Examples.ex_short.
Proof. exact (conj C05_Examples.ex_perm_in C05_Examples.ex_hand_in_mask). Qed.

(* card (rank r, suit s) is in h  iff  card (rank r, suit p s) is in the image *)
Theorem C05_image_testbit : forall d p h v r s, In p EXHAUST -> N.land h (hand_mask d) = h ->
  image d p h = Some v -> s < 4 ->
  N.testbit v (4 * r + perm_map p s) = N.testbit h (4 * r + s).
Proof. exact C05_Bits.C05_image_testbit. Qed.
Print Assumptions C05_image_testbit.

Theorem C05_permute_is_relabel : forall d p o, In p EXHAUST -> wf_obs_d d o ->
  permute d p o = Some (relabel_obs p o) /\ wf_obs_d d (relabel_obs p o).
Proof. exact C05_Bits.C05_permute_is_relabel. Qed.
Print Assumptions C05_permute_is_relabel.
Example C05_wf_obs_d_hyp :
  wf_obs_d Standard C05_Examples.ex_std /\ wf_obs_d Short C05_Examples.ex_short /\
  wf_obs_d Standard C05_Examples.ex_flop /\ wf_obs_d Short C05_Examples.ex_turn_short /\
  wf_obs_d Standard C05_Examples.ex_pre /\ wf_obs_d Short C05_Examples.ex_pre.
Proof.
  exact (conj C05_Examples.ex_std_wf (conj C05_Examples.ex_short_wf (conj C05_Examples.ex_flop_wf
        (conj C05_Examples.ex_turn_short_wf C05_Examples.ex_pre_wf)))).
Qed.

(* ---------- 2. the sorting permutation is one of the 24 ---------- *)
Theorem C05_perm_in_exhaust : forall d o, wf_obs_d d o -> In (perm_of_obs d o) EXHAUST.
Proof. exact C05_Canon.C05_perm_in_exhaust. Qed.
Print Assumptions C05_perm_in_exhaust.

(* ---------- 3. faithful: the canonical form is a relabeling of the observation ---------- *)
Theorem C05_faithful : forall d o, wf_obs_d d o ->
  exists p c, In p EXHAUST /\ canon d o = Some c /\ c = relabel_obs p o.
Proof. exact C05_Canon.C05_faithful. Qed.
Print Assumptions C05_faithful.

Theorem C05_same_canon_isomorphic : forall d o1 o2, wf_obs_d d o1 -> wf_obs_d d o2 ->
  canon d o1 = canon d o2 -> isomorphic o1 o2 = true.
Proof. exact C05_Canon.C05_same_canon_isomorphic. Qed.
Print Assumptions C05_same_canon_isomorphic.
Example C05_same_canon_isomorphic_hyp :
  wf_obs_d Standard C05_Examples.ex_std /\ wf_obs_d Standard C05_Examples.ex_std_b /\
  canon Standard C05_Examples.ex_std = canon Standard C05_Examples.ex_std_b /\
  canon Standard C05_Examples.ex_std <> None.
Proof.
  exact (conj C05_Examples.ex_std_wf (conj C05_Examples.ex_std_b_wf C05_Examples.test_super_symmetry)).
Qed.

(* ---------- 4. key completeness: lanes whose six keys tie are equal up to the suit shift ---------- *)
Theorem C05_key_complete : forall d o s t, wf_obs_d d o -> s < 4 -> t < 4 ->
  (forall k, k <> KSuit -> cmp_key k (colex d o s) (colex d o t) = Eq) ->
  (forall r, N.testbit (pocket o) (4 * r + s) = N.testbit (pocket o) (4 * r + t)) /\
  (forall r, N.testbit (public o) (4 * r + s) = N.testbit (public o) (4 * r + t)).
Proof. exact C05_Canon.C05_key_complete. Qed.
Print Assumptions C05_key_complete.
Example C05_key_complete_hyp :
  wf_obs_d Standard C05_Examples.ex_tie /\ 0 < 4 /\ 1 < 4 /\
  (forall k, k <> KSuit ->
     cmp_key k (colex Standard C05_Examples.ex_tie 0) (colex Standard C05_Examples.ex_tie 1) = Eq).
Proof.
  exact (conj C05_Examples.ex_tie_wf (conj (eq_refl : (0 ?= 4) = Lt) (conj (eq_refl : (1 ?= 4) = Lt)
        C05_Examples.ex_tie_keys))).
Qed.

(* the same, on the lanes of Permutation::colex themselves *)
Theorem C05_key_complete_lanes : forall d o s t, wf_obs_d d o -> s < 4 -> t < 4 ->
  (forall k, k <> KSuit -> cmp_key k (colex d o s) (colex d o t) = Eq) ->
  N.shiftl (lpocket (colex d o s)) t = N.shiftl (lpocket (colex d o t)) s /\
  N.shiftl (lpublic (colex d o s)) t = N.shiftl (lpublic (colex d o t)) s.
Proof. exact C05_Canon.C05_key_complete_lanes. Qed.
Print Assumptions C05_key_complete_lanes.

(* ---------- 5. invariance: relabeled observations have the same canonical form ---------- *)
Theorem C05_invariant : forall d p o, In p EXHAUST -> wf_obs_d d o ->
  canon d (relabel_obs p o) = canon d o.
Proof. exact C05_Canon.C05_invariant. Qed.
Print Assumptions C05_invariant.

Theorem C05_invariant_permute : forall d p o o', In p EXHAUST -> wf_obs_d d o ->
  permute d p o = Some o' -> canon d o' = canon d o.
Proof. exact C05_Canon.C05_invariant_permute. Qed.
Print Assumptions C05_invariant_permute.
Example C05_invariant_permute_hyp :
  permute Standard C05_Examples.ex_perm C05_Examples.ex_std
  = Some (relabel_obs C05_Examples.ex_perm C05_Examples.ex_std).
Proof. exact C05_Examples.ex_permute. Qed.

Theorem C05_isomorphic_iff_same_canon : forall d o1 o2, wf_obs_d d o1 -> wf_obs_d d o2 ->
  (isomorphic o1 o2 = true <-> canon d o1 = canon d o2).
Proof. exact C05_Canon.C05_isomorphic_iff_same_canon. Qed.
Print Assumptions C05_isomorphic_iff_same_canon.
Example C05_isomorphic_hyp : isomorphic C05_Examples.ex_std C05_Examples.ex_std_b = true.
Proof. exact C05_Examples.ex_isomorphic. Qed.

(* ---------- 6. idempotence and is_canonical ---------- *)
Theorem C05_idem : forall d o c, wf_obs_d d o -> canon d o = Some c ->
  canon d c = Some c /\ is_canonical d c = true.
Proof. exact C05_Canon.C05_idem. Qed.
Print Assumptions C05_idem.
Example C05_idem_hyp :
  canon Standard C05_Examples.ex_std
    = Some (relabel_obs (perm_of_obs Standard C05_Examples.ex_std) C05_Examples.ex_std) /\
  canon Standard C05_Examples.ex_std <> Some C05_Examples.ex_std /\
  perm_of_obs Standard C05_Examples.ex_std = [2; 0; 1; 3].
Proof. exact C05_Examples.ex_std_canon. Qed.

Theorem C05_is_canonical_iff : forall d o, wf_obs_d d o ->
  (is_canonical d o = true <-> canon d o = Some o).
Proof. exact C05_Canon.C05_is_canonical_iff. Qed.
Print Assumptions C05_is_canonical_iff.
Example C05_is_canonical_hyp :
  wf_obs_d Standard C05_Examples.ex_canonical /\ is_canonical Standard C05_Examples.ex_canonical = true /\
  canon Standard C05_Examples.ex_std = Some C05_Examples.ex_canonical.
Proof. exact C05_Examples.ex_canonical_ok. Qed.

(* ---------- 7. instances asserted by the Rust unit tests ---------- *)
Theorem C05_test_super_symmetry :
  canon Standard C05_Examples.ex_std = canon Standard C05_Examples.ex_std_b /\
  canon Standard C05_Examples.ex_std <> None.
Proof. exact C05_Examples.test_super_symmetry. Qed.
Print Assumptions C05_test_super_symmetry.

Theorem C05_test_symmetries :
  (canon Standard C05_Examples.t_prs_a = canon Standard C05_Examples.t_prs_b /\
   canon Standard C05_Examples.t_prs_a <> None) /\
  (canon Standard C05_Examples.t_pub_a = canon Standard C05_Examples.t_pub_b /\
   canon Standard C05_Examples.t_pub_a <> None) /\
  (canon Standard C05_Examples.t_obd_a = canon Standard C05_Examples.t_obd_b /\
   canon Standard C05_Examples.t_obd_a <> None) /\
  (canon Standard C05_Examples.t_odr_a = canon Standard C05_Examples.t_odr_b /\
   canon Standard C05_Examples.t_odr_a <> None) /\
  (canon Standard C05_Examples.t_anti_a = canon Standard C05_Examples.t_anti_b /\
   canon Standard C05_Examples.t_anti_a <> None) /\
  (canon Standard C05_Examples.t_semi_a = canon Standard C05_Examples.t_semi_b /\
   canon Standard C05_Examples.t_semi_a <> None) /\
  (canon Standard C05_Examples.t_mono_a = canon Standard C05_Examples.t_mono_b /\
   canon Standard C05_Examples.t_mono_a <> None) /\
  (canon Short C05_Examples.t_mono_a = canon Short C05_Examples.t_mono_b /\
   canon Short C05_Examples.t_mono_a <> None).
Proof.
  exact (conj C05_Examples.test_pocket_rank_symmetry (conj C05_Examples.test_public_rank_symmetry
        (conj C05_Examples.test_offsuit_backdoor (conj C05_Examples.test_offsuit_draw
        (conj C05_Examples.test_antichrome (conj C05_Examples.test_semichrome
        C05_Examples.test_monochrome)))))).
Qed.
Print Assumptions C05_test_symmetries.

Theorem C05_test_false_positives :
  forallb (fun p => match permute Standard p C05_Examples.ex_std with
                    | Some o => match canon Standard o, canon Standard C05_Examples.ex_std with
                                | Some x, Some y => obs_eqb x y | _, _ => false end
                    | None => false end) EXHAUST = true /\
  forallb (fun p => match permute Short p C05_Examples.ex_short with
                    | Some o => match canon Short o, canon Short C05_Examples.ex_short with
                                | Some x, Some y => obs_eqb x y | _, _ => false end
                    | None => false end) EXHAUST = true.
Proof. exact C05_Examples.test_false_positives. Qed.
Print Assumptions C05_test_false_positives.

(* ---------- the generated table EXHAUST is all of S4 ---------- *)
From RP Require Proofs.C05_Exhaust.

(* EXHAUST (read from the Rust source by the translator) is used throughout C05/C06/C07 as "every
   relabeling of the four suits": a list p is a permutation of the suits 0..3 (is_perm4: length
   four and each of 0, 1, 2, 3 occurs) exactly when it is a row of the table *)
Theorem C05_exhaust_is_S4 : forall p, is_perm4 p = true <-> In p EXHAUST.
Proof. exact C05_Exhaust.exhaust_is_S4. Qed.
Print Assumptions C05_exhaust_is_S4.

(* 24 rows, no row twice *)
Theorem C05_exhaust_24 : length EXHAUST = 24%nat /\ NoDup EXHAUST /\ Forall (fun p => is_perm4 p = true) EXHAUST.
Proof.
  exact (conj C05_Exhaust.exhaust_length24 (conj C05_Exhaust.exhaust_nodup
          (proj2 (Forall_forall _ _) C05_Exhaust.exhaust_sound))).
Qed.
Print Assumptions C05_exhaust_24.

(* completeness without is_perm4: every duplicate-free list of four suits below 4 is a row *)
Theorem C05_exhaust_complete : forall p, length p = 4%nat -> Forall (fun s => s < 4) p -> NoDup p ->
  In p EXHAUST.
Proof. exact C05_Exhaust.exhaust_complete_nodup. Qed.
Print Assumptions C05_exhaust_complete.
Example C05_exhaust_complete_hyp :
  length [2; 0; 3; 1] = 4%nat /\ Forall (fun s => s < 4) [2; 0; 3; 1] /\ NoDup [2; 0; 3; 1] /\
  is_perm4 [2; 0; 3; 1] = true.
Proof.
  split; [reflexivity|]. split; [repeat constructor|]. split; [|reflexivity].
  repeat (constructor; [cbn [In]; intros H; repeat (destruct H as [H|H]; [discriminate H|]); exact H|]).
  constructor.
Qed.
