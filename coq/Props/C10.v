(* Props/C10.v -- property C10 (provisional instance through the generated estimator flags; the general theorems are being added) *)
From Coq Require Import NArith QArith List.
From RP Require Import Gen.GenFixes Model.Cfr.
Import ListNotations.
Open Scope Q_scope.
(* traverser node with two actions worth 1 and 3 played with probabilities 1/4 and 3/4, below an opponent edge of probability 1/2 *)
Definition ex_tree : qtree :=
  T KOpponent 0%N 0 [(7%N, 1#2, T KWalker 1%N 0 [(2%N, 1#4, T KWalker 2%N 1 []); (3%N, 3#4, T KWalker 3%N 3 [])])].
Theorem C10_estimator_instance :
  map (fun x => Qred (snd x)) (immediate_regrets_Q ex_tree) = map (fun x => Qred (snd x)) (regret_estimator_Q ex_tree)
  /\ map (fun x => Qred (snd x)) (regret_estimator_Q ex_tree) = [- (3#2); 1#2].
Proof. vm_compute. split; reflexivity. Qed.
Print Assumptions C10_estimator_instance.
