(* Props/C10.v -- property C10: the sampled game tree (src/mccfr/{blueprint,tree,node}.rs).
   The per-run check validates every node of real sampled trees against Model/Tree.v; here the
   for-all part:
     - the raise cap of the abstract menu: a raise edge needs n_raises <= MAX_RAISE_REPEATS
       (C10_raise_needs_room); every betting round of a sampled history holds at most
       MAX_RAISE_REPEATS + 1 raise edges PROVIDED the rounds fit the window of Node::subgame
       (C10_raise_cap: hypothesis max_round_length h <= MAX_DEPTH_SUBGAME; it cannot be dropped
       for bare menu-disciplined histories, C10_raise_cap_needs_short_rounds); along the paths of
       a tree over reachable game states a round has at most MAX_RAISE_REPEATS + 5 = 8 <= 16
       edges (C10_round_short), so there the cap holds with no side condition
       (C10_raise_cap_tree); with the original subgame the cap is not enforced
       (C10_raise_cap_needs_fix);
     - children are the parent after a permitted action, at decision and at chance nodes;
       leaves are zero-sum; paths have at most max_history edges; the menu of a traverser node is
       non-empty and duplicate-free and each of its edges has a child;
     - the inverse-CDF sampler picks index i exactly on an interval of length w_i; the uniform
       initial strategy.
   Definitions: Spec/SpecTree.v. *)
From Coq Require Import ZArith NArith List Bool QArith.
From RP Require Import Base.Bits Gen.GenLib Gen.GenFixes Gen.GenAbstract Model.Codec Model.Showdown Model.Game
                       Model.Tree Spec.SpecGameInv Spec.SpecMenu Spec.SpecTree
                       Proofs.C03_Examples Proofs.C10_Cap Proofs.C10_Step Proofs.C10_Tree
                       Proofs.C10_Sampler Proofs.C10_Examples.
Import ListNotations.
Open Scope Z_scope.

(* ---------- the raise cap ---------- *)
Theorem C10_raise_needs_room : forall g h m a b,
  node_menu g h = Some m -> In (ERaise a b) m -> n_raises h <= MAX_RAISE_REPEATS.
Proof. exact raise_needs_room. Qed.
Print Assumptions C10_raise_needs_room.

(* every betting round of a sampled history has at most MAX_RAISE_REPEATS + 1 raise edges, as long
   as no round is longer than the window of Node::subgame *)
Theorem C10_raise_cap : forall h, sampled_history h -> max_round_length h <= MAX_DEPTH_SUBGAME ->
  max_raise_edges_per_round h <= MAX_RAISE_REPEATS + 1.
Proof. exact raise_cap. Qed.
Print Assumptions C10_raise_cap.

(* the hypothesis on the round length is needed: sampled_history lets ANY game state stand behind
   a node; 4 raises, 16 checks, and the menu offers a raise again (ex_long_round, Proofs/C10_Cap.v) *)
Theorem C10_raise_cap_needs_short_rounds :
  ~ (forall h, sampled_history h -> max_raise_edges_per_round h <= MAX_RAISE_REPEATS + 1).
Proof. exact raise_cap_needs_short_rounds. Qed.
Print Assumptions C10_raise_cap_needs_short_rounds.

(* the hypothesis holds along every path of a tree over reachable game states: two passive
   edges, MAX_RAISE_REPEATS + 1 raises and one all-in per seat at most *)
Theorem C10_round_short : forall d hs g0 h g,
  wf_holes d hs -> root d hs = Some g0 -> tree_path d g0 h g ->
  max_round_length h <= MAX_RAISE_REPEATS + 5.
Proof. exact round_short. Qed.
Print Assumptions C10_round_short.

Theorem C10_round_fits_window : forall d hs g0 h g,
  wf_holes d hs -> root d hs = Some g0 -> tree_path d g0 h g ->
  max_round_length h <= MAX_DEPTH_SUBGAME.
Proof. exact round_fits_window. Qed.
Print Assumptions C10_round_fits_window.

Theorem C10_tree_path_sampled : forall d g0 h g, tree_path d g0 h g -> sampled_history h.
Proof. exact tree_path_sampled. Qed.
Print Assumptions C10_tree_path_sampled.

(* hence: the cap on every path of a sampled tree, no side condition *)
Theorem C10_raise_cap_tree : forall d hs g0 h g,
  wf_holes d hs -> root d hs = Some g0 -> tree_path d g0 h g ->
  max_raise_edges_per_round h <= MAX_RAISE_REPEATS + 1.
Proof. exact raise_cap_tree. Qed.
Print Assumptions C10_raise_cap_tree.

(* aggressive edges (raises and all-ins; Model.Tree.max_raises_per_round) per round of a tree path:
   the raises plus one all-in per seat; attained by ex_long_edges below *)
Theorem C10_aggro_per_round : forall d hs g0 h g,
  wf_holes d hs -> root d hs = Some g0 -> tree_path d g0 h g ->
  max_raises_per_round h <= MAX_RAISE_REPEATS + 3.
Proof. exact aggro_per_round. Qed.
Print Assumptions C10_aggro_per_round.

(* subgame_with is Node::subgame with the direction of the walk as a parameter ... *)
Theorem C10_subgame_with : forall h,
  subgame_with SUBGAME_FROM_NODE h = subgame h /\ n_raises_with SUBGAME_FROM_NODE h = n_raises h.
Proof. exact (fun h => conj (subgame_with_fix h) (n_raises_with_fix h)). Qed.
Print Assumptions C10_subgame_with.

(* ... and walking from the root (the original code) the flop round of this history, which
   already holds MAX_RAISE_REPEATS + 1 raises, is counted as 1 (the pre-flop raise): on every
   flop state all raise sizes are still offered -- the cap is not enforced *)
Theorem C10_raise_cap_needs_fix :
  n_raises_with false [ERaise 1 1; ECall; EDraw; ERaise 1 1; ERaise 1 1; ERaise 1 1; ERaise 1 1] = 1 /\
  n_raises_with true [ERaise 1 1; ECall; EDraw; ERaise 1 1; ERaise 1 1; ERaise 1 1; ERaise 1 1]
  = MAX_RAISE_REPEATS + 1 /\
  max_raise_edges_per_round [ERaise 1 1; ECall; EDraw; ERaise 1 1; ERaise 1 1; ERaise 1 1; ERaise 1 1]
  = MAX_RAISE_REPEATS + 1 /\
  (forall g, street g = 1 ->
     raises g (n_raises_with false [ERaise 1 1; ECall; EDraw; ERaise 1 1; ERaise 1 1; ERaise 1 1; ERaise 1 1])
     = FLOP_RAISES /\
     raises g (n_raises_with true [ERaise 1 1; ECall; EDraw; ERaise 1 1; ERaise 1 1; ERaise 1 1; ERaise 1 1])
     = []).
Proof. exact raise_cap_needs_fix_ex. Qed.
Print Assumptions C10_raise_cap_needs_fix.

(* the same on a node of an actual tree path (limp, check, flop, four half-pot raises): the
   repaired menu has no raise; the original count is 0, its menu offers every flop size and the
   engine would carry out the fifth raise *)
Theorem C10_raise_cap_needs_fix_node :
  tree_path Standard ex_root ex_line_history ex_line_node /\
  n_raises ex_line_history = MAX_RAISE_REPEATS + 1 /\
  node_menu ex_line_node ex_line_history = Some [EShove; ECall; EFold] /\
  n_raises_with false ex_line_history = 0 /\
  choices ex_line_node (n_raises_with false ex_line_history)
  = Some (map (fun o => ERaise (fst o) (snd o)) FLOP_RAISES ++ [EShove; ECall; EFold]) /\
  child_game Standard ex_line_node (ERaise 1 2) 0 <> None /\
  max_raise_edges_per_round (ex_line_history ++ [ERaise 1 2]) = MAX_RAISE_REPEATS + 2.
Proof. exact (conj ex_line_path ex_line_needs_fix). Qed.
Print Assumptions C10_raise_cap_needs_fix_node.

(* ---------- nodes and children ---------- *)
(* every child of a decision node is the parent after a permitted action *)
Theorem C10_child_permitted : forall d hs g i h m e,
  wf_holes d hs -> reachable d hs g -> turn_of g = Choice i ->
  node_menu g h = Some m -> In e m ->
  exists g', child_game d g e 0 = Some g' /\ reachable d hs g'.
Proof. exact child_permitted. Qed.
Print Assumptions C10_child_permitted.

Theorem C10_chance_child : forall d hs g c,
  wf_holes d hs -> reachable d hs g -> turn_of g = Chance -> is_allowed d g (Draw c) = Some true ->
  exists g', child_game d g EDraw c = Some g' /\ reachable d hs g'.
Proof. exact chance_child. Qed.
Print Assumptions C10_chance_child.

(* behind both: Game::act never panics once Game::is_allowed has accepted the action *)
Theorem C10_progress : forall d hs g a, wf_holes d hs -> reachable d hs g ->
  is_allowed d g a = Some true -> exists g', apply d g a = Some g' /\ reachable d hs g'.
Proof. exact reachable_progress. Qed.
Print Assumptions C10_progress.

(* the menu of a chance node is the single edge EDraw, a leaf has no edge *)
Theorem C10_chance_menu : forall g h, turn_of g = Chance -> node_menu g h = Some [EDraw].
Proof. exact chance_menu. Qed.
Print Assumptions C10_chance_menu.
Theorem C10_leaf_menu : forall g h, turn_of g = Terminal -> node_menu g h = Some [].
Proof. exact leaf_menu. Qed.
Print Assumptions C10_leaf_menu.

(* a leaf is zero-sum: the payoffs (reward minus chips put in) of the seats add up to 0 *)
Theorem C10_leaf_zero_sum : forall d hs g,
  wf_holes d hs -> reachable d hs g -> turn_of g = Terminal ->
  exists rw, settlements d g = Some rw /\
             sumZ (map (fun '(r, s) => r - spent s) (combine rw (seats g))) = 0.
Proof. exact leaf_zero_sum. Qed.
Print Assumptions C10_leaf_zero_sum.

(* every path from the root has at most max_history = 2 * STACK + 16 edges *)
Theorem C10_finite : forall d hs g0 h g,
  wf_holes d hs -> root d hs = Some g0 -> tree_path d g0 h g ->
  Z.of_nat (length h) <= max_history.
Proof. exact finite. Qed.
Print Assumptions C10_finite.

Theorem C10_tree_path_reachable : forall d hs g0 h g,
  root d hs = Some g0 -> tree_path d g0 h g -> reachable d hs g.
Proof. exact tree_path_reachable. Qed.
Print Assumptions C10_tree_path_reachable.

(* at a traverser node the menu is non-empty and duplicate-free and every edge has its child *)
Theorem C10_menu_traverser : forall d hs g h walker,
  wf_holes d hs -> reachable d hs g -> who_acts g walker = WTraverser ->
  exists m, node_menu g h = Some m /\ m <> [] /\ NoDup m /\
            forall e, In e m -> exists g', child_game d g e 0 = Some g' /\ reachable d hs g'.
Proof. exact menu_traverser. Qed.
Print Assumptions C10_menu_traverser.

(* ---------- the sampler ---------- *)
(* non-negative weights, 0 <= u < total (so the total is positive): index i is picked exactly
   when u lies in [prefix_sum i, prefix_sum (i+1)), an interval of length w_i; the intervals tile
   [0, total).  A uniform u in [0, total) therefore picks i with probability w_i / total. *)
Theorem C10_sampler_measure : forall ws u,
  (forall w, In w ws -> (0 <= w)%Q) -> (0 <= u)%Q -> (u < sumQ ws)%Q ->
  (forall i, pick ws u = i <-> (prefix_sum ws i <= u)%Q /\ (u < prefix_sum ws (S i))%Q) /\
  (forall i, (i < length ws)%nat -> (prefix_sum ws (S i) - prefix_sum ws i == nth i ws 0)%Q) /\
  (prefix_sum ws 0 == 0)%Q /\ (prefix_sum ws (length ws) == sumQ ws)%Q /\
  (pick ws u < length ws)%nat.
Proof. exact sampler_measure. Qed.
Print Assumptions C10_sampler_measure.

Theorem C10_uniform_init : forall n, (1 <= n)%nat ->
  length (uniform_policy n) = n /\
  (sumQ (uniform_policy n) == 1)%Q /\
  (forall p, In p (uniform_policy n) -> (0 < p)%Q /\ (p == 1 / inject_Z (Z.of_nat n))%Q).
Proof. exact uniform_init. Qed.
Print Assumptions C10_uniform_init.

(* ---------- examples: the hypotheses are satisfiable ---------- *)
Example C10_hyps_wf : wf_holes Standard ex_holes.
Proof. exact ex_holes_wf. Qed.
Example C10_hyps_root : root Standard ex_holes = Some ex_root.
Proof. exact ex_root_ok. Qed.
(* a tree path of 7 edges to a flop decision node (also a sampled history with short rounds) *)
Example C10_hyps_path : tree_path Standard ex_root ex_line_history ex_line_node.
Proof. exact ex_line_path. Qed.
Example C10_hyps_sampled :
  sampled_history ex_line_history /\ max_round_length ex_line_history <= MAX_DEPTH_SUBGAME.
Proof.
  split; [exact (C10_tree_path_sampled _ _ _ _ ex_line_path)|].
  exact (C10_round_fits_window _ _ _ _ _ ex_holes_wf ex_root_ok ex_line_path).
Qed.
(* rounds of 7 edges occur (limp, four raises, all-in, all-in), with exactly MAX_RAISE_REPEATS + 1 raises *)
Example C10_hyps_long_round : exists g, tree_path Standard ex_root (map fst ex_long_edges) g /\
  turn_of g = Chance /\ max_round_length (map fst ex_long_edges) = 7 /\
  max_raise_edges_per_round (map fst ex_long_edges) = MAX_RAISE_REPEATS + 1.
Proof. exact ex_long_path. Qed.
Example C10_hyps_long_round_aggro : max_raises_per_round (map fst ex_long_edges) = MAX_RAISE_REPEATS + 3.
Proof. vm_compute. reflexivity. Qed.
(* a raise edge on a menu *)
Example C10_hyps_raise_on_menu : exists m, node_menu ex_root [] = Some m /\ In (ERaise 1 1) m.
Proof. apply on_menu_sound. vm_compute. reflexivity. Qed.
(* a decision node, a chance node with an accepted deal, a leaf *)
Example C10_hyps_choice : reachable Standard ex_holes ex_line_node /\ turn_of ex_line_node = Choice 1 /\
  who_acts ex_line_node 1 = WTraverser.
Proof.
  split; [exact (ex_reachable_of_path _ _ ex_line_path)|]. split; vm_compute; reflexivity.
Qed.
Example C10_hyps_chance : reachable Standard ex_holes ex_chance_node /\ turn_of ex_chance_node = Chance /\
  is_allowed Standard ex_chance_node (Draw ex_flop) = Some true.
Proof.
  destruct ex_chance_path as (Hp & Ht & Ha). split; [exact (ex_reachable_of_path _ _ Hp)|]. split; assumption.
Qed.
Example C10_hyps_leaf : exists g, reachable Standard ex_holes g /\ turn_of g = Terminal /\
  settlements Standard g = Some [0; 6].
Proof.
  destruct ex_leaf_path as (g & Hp & Ht & Hs). exists g.
  split; [exact (ex_reachable_of_path _ _ Hp)|]. split; assumption.
Qed.
(* the sampler on weights 1/2, 0, 1/4, 1/4 *)
Example C10_hyps_sampler :
  map (pick [1 # 2; 0; 1 # 4; 1 # 4]%Q) [0; 49 # 100; 1 # 2; 74 # 100; 3 # 4; 99 # 100]%Q
  = [0; 0; 2; 2; 3; 3]%nat.
Proof. vm_compute. reflexivity. Qed.
