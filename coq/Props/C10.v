(* Props/C10.v -- property C10: the sampled game tree (src/mccfr/{blueprint,tree,node}.rs).
   The per-run check validates every node of real sampled trees against Model/Tree.v; here the
   for-all part:
     - the raise cap of the abstract menu: a raise edge needs n_raises <= MAX_RAISE_REPEATS
       (C10_raise_needs_room); every betting round of a sampled history holds at most
       MAX_RAISE_REPEATS + 1 raise edges PROVIDED the rounds fit the window of Node::subgame
       (C10_raise_cap: hypothesis max_round_length h <= MAX_DEPTH_SUBGAME; it cannot be dropped
       for bare menu-disciplined histories, C10_raise_cap_needs_short_rounds); along the paths of
       a tree over reachable game states a round has at most MAX_RAISE_REPEATS + 5 = 8 <= 16
       edges (C10_round_short), so there the cap holds with no side condition
       (C10_raise_cap_tree); with the original subgame the cap is not enforced
       (C10_raise_cap_needs_fix);
     - children are the parent after a permitted action, at decision and at chance nodes;
       leaves are zero-sum; paths have at most max_history edges; the menu of a traverser node is
       non-empty and duplicate-free and each of its edges has a child;
     - the inverse-CDF sampler picks index i exactly on an interval of length w_i; the uniform
       initial strategy.
   Definitions: Spec/SpecTree.v. *)
From Coq Require Import ZArith NArith List Bool QArith.
From RP Require Import Base.Bits Gen.GenLib Gen.GenFixes Gen.GenAbstract Model.Codec Model.Showdown Model.Game
                       Model.Tree Spec.SpecGameInv Spec.SpecMenu Spec.SpecTree
                       Proofs.C03_Examples Proofs.C10_Cap Proofs.C10_Step Proofs.C10_Tree
                       Proofs.C10_Sampler Proofs.C10_Examples.
Import ListNotations.
Open Scope Z_scope.

(* ---------- the raise cap ---------- *)
Theorem C10_raise_needs_room : forall g h m a b,
  node_menu g h = Some m -> In (ERaise a b) m -> n_raises h <= MAX_RAISE_REPEATS.
Proof. exact raise_needs_room. Qed.
Print Assumptions C10_raise_needs_room.

(* every betting round of a sampled history has at most MAX_RAISE_REPEATS + 1 raise edges, as long
   as no round is longer than the window of Node::subgame *)
Theorem C10_raise_cap : forall h, sampled_history h -> max_round_length h <= MAX_DEPTH_SUBGAME ->
  max_raise_edges_per_round h <= MAX_RAISE_REPEATS + 1.
Proof. exact raise_cap. Qed.
Print Assumptions C10_raise_cap.

(* the hypothesis on the round length is needed: sampled_history lets ANY game state stand behind
   a node; 4 raises, 16 checks, and the menu offers a raise again (ex_long_round, Proofs/C10_Cap.v) *)
Theorem C10_raise_cap_needs_short_rounds :
  ~ (forall h, sampled_history h -> max_raise_edges_per_round h <= MAX_RAISE_REPEATS + 1).
Proof. exact raise_cap_needs_short_rounds. Qed.
Print Assumptions C10_raise_cap_needs_short_rounds.

(* the hypothesis holds along every path of a tree over reachable game states: two passive
   edges, MAX_RAISE_REPEATS + 1 raises and one all-in per seat at most *)
Theorem C10_round_short : forall d hs g0 h g,
  wf_holes d hs -> root d hs = Some g0 -> tree_path d g0 h g ->
  max_round_length h <= MAX_RAISE_REPEATS + 5.
Proof. exact round_short. Qed.
Print Assumptions C10_round_short.

Theorem C10_round_fits_window : forall d hs g0 h g,
  wf_holes d hs -> root d hs = Some g0 -> tree_path d g0 h g ->
  max_round_length h <= MAX_DEPTH_SUBGAME.
Proof. exact round_fits_window. Qed.
Print Assumptions C10_round_fits_window.

Theorem C10_tree_path_sampled : forall d g0 h g, tree_path d g0 h g -> sampled_history h.
Proof. exact tree_path_sampled. Qed.
Print Assumptions C10_tree_path_sampled.

(* hence: the cap on every path of a sampled tree, no side condition *)
Theorem C10_raise_cap_tree : forall d hs g0 h g,
  wf_holes d hs -> root d hs = Some g0 -> tree_path d g0 h g ->
  max_raise_edges_per_round h <= MAX_RAISE_REPEATS + 1.
Proof. exact raise_cap_tree. Qed.
Print Assumptions C10_raise_cap_tree.

(* aggressive edges (raises and all-ins; Model.Tree.max_raises_per_round) per round of a tree path:
   the raises plus one all-in per seat; attained by ex_long_edges below *)
Theorem C10_aggro_per_round : forall d hs g0 h g,
  wf_holes d hs -> root d hs = Some g0 -> tree_path d g0 h g ->
  max_raises_per_round h <= MAX_RAISE_REPEATS + 3.
Proof. exact aggro_per_round. Qed.
Print Assumptions C10_aggro_per_round.

(* subgame_with is Node::subgame with the direction of the walk as a parameter ... *)
Theorem C10_subgame_with : forall h,
  subgame_with SUBGAME_FROM_NODE h = subgame h /\ n_raises_with SUBGAME_FROM_NODE h = n_raises h.
Proof. exact (fun h => conj (subgame_with_fix h) (n_raises_with_fix h)). Qed.
Print Assumptions C10_subgame_with.

(* ... and walking from the root (the original code) the flop round of this history, which
   already holds MAX_RAISE_REPEATS + 1 raises, is counted as 1 (the pre-flop raise): on every
   flop state all raise sizes are still offered -- the cap is not enforced *)
Theorem C10_raise_cap_needs_fix :
  n_raises_with false [ERaise 1 1; ECall; EDraw; ERaise 1 1; ERaise 1 1; ERaise 1 1; ERaise 1 1] = 1 /\
  n_raises_with true [ERaise 1 1; ECall; EDraw; ERaise 1 1; ERaise 1 1; ERaise 1 1; ERaise 1 1]
  = MAX_RAISE_REPEATS + 1 /\
  max_raise_edges_per_round [ERaise 1 1; ECall; EDraw; ERaise 1 1; ERaise 1 1; ERaise 1 1; ERaise 1 1]
  = MAX_RAISE_REPEATS + 1 /\
  (forall g, street g = 1 ->
     raises g (n_raises_with false [ERaise 1 1; ECall; EDraw; ERaise 1 1; ERaise 1 1; ERaise 1 1; ERaise 1 1])
     = FLOP_RAISES /\
     raises g (n_raises_with true [ERaise 1 1; ECall; EDraw; ERaise 1 1; ERaise 1 1; ERaise 1 1; ERaise 1 1])
     = []).
Proof. exact raise_cap_needs_fix_ex. Qed.
Print Assumptions C10_raise_cap_needs_fix.

(* the same on a node of an actual tree path (limp, check, flop, four half-pot raises): the
   repaired menu has no raise; the original count is 0, its menu offers every flop size and the
   engine would carry out the fifth raise *)
Theorem C10_raise_cap_needs_fix_node :
  tree_path Standard ex_root ex_line_history ex_line_node /\
  n_raises ex_line_history = MAX_RAISE_REPEATS + 1 /\
  node_menu ex_line_node ex_line_history = Some [EShove; ECall; EFold] /\
  n_raises_with false ex_line_history = 0 /\
  choices ex_line_node (n_raises_with false ex_line_history)
  = Some (map (fun o => ERaise (fst o) (snd o)) FLOP_RAISES ++ [EShove; ECall; EFold]) /\
  child_game Standard ex_line_node (ERaise 1 2) 0 <> None /\
  max_raise_edges_per_round (ex_line_history ++ [ERaise 1 2]) = MAX_RAISE_REPEATS + 2.
Proof. exact (conj ex_line_path ex_line_needs_fix). Qed.
Print Assumptions C10_raise_cap_needs_fix_node.

(* ---------- nodes and children ---------- *)
(* every child of a decision node is the parent after a permitted action *)
Theorem C10_child_permitted : forall d hs g i h m e,
  wf_holes d hs -> reachable d hs g -> turn_of g = Choice i ->
  node_menu g h = Some m -> In e m ->
  exists g', child_game d g e 0 = Some g' /\ reachable d hs g'.
Proof. exact child_permitted. Qed.
Print Assumptions C10_child_permitted.

Theorem C10_chance_child : forall d hs g c,
  wf_holes d hs -> reachable d hs g -> turn_of g = Chance -> is_allowed d g (Draw c) = Some true ->
  exists g', child_game d g EDraw c = Some g' /\ reachable d hs g'.
Proof. exact chance_child. Qed.
Print Assumptions C10_chance_child.

(* behind both: Game::act never panics once Game::is_allowed has accepted the action *)
Theorem C10_progress : forall d hs g a, wf_holes d hs -> reachable d hs g ->
  is_allowed d g a = Some true -> exists g', apply d g a = Some g' /\ reachable d hs g'.
Proof. exact reachable_progress. Qed.
Print Assumptions C10_progress.

(* the menu of a chance node is the single edge EDraw, a leaf has no edge *)
Theorem C10_chance_menu : forall g h, turn_of g = Chance -> node_menu g h = Some [EDraw].
Proof. exact chance_menu. Qed.
Print Assumptions C10_chance_menu.
Theorem C10_leaf_menu : forall g h, turn_of g = Terminal -> node_menu g h = Some [].
Proof. exact leaf_menu. Qed.
Print Assumptions C10_leaf_menu.

(* a leaf is zero-sum: the payoffs (reward minus chips put in) of the seats add up to 0 *)
Theorem C10_leaf_zero_sum : forall d hs g,
  wf_holes d hs -> reachable d hs g -> turn_of g = Terminal ->
  exists rw, settlements d g = Some rw /\
             sumZ (map (fun '(r, s) => r - spent s) (combine rw (seats g))) = 0.
Proof. exact leaf_zero_sum. Qed.
Print Assumptions C10_leaf_zero_sum.

(* every path from the root has at most max_history = 2 * STACK + 16 edges *)
Theorem C10_finite : forall d hs g0 h g,
  wf_holes d hs -> root d hs = Some g0 -> tree_path d g0 h g ->
  Z.of_nat (length h) <= max_history.
Proof. exact finite. Qed.
Print Assumptions C10_finite.

Theorem C10_tree_path_reachable : forall d hs g0 h g,
  root d hs = Some g0 -> tree_path d g0 h g -> reachable d hs g.
Proof. exact tree_path_reachable. Qed.
Print Assumptions C10_tree_path_reachable.

(* at a traverser node the menu is non-empty and duplicate-free and every edge has its child *)
Theorem C10_menu_traverser : forall d hs g h walker,
  wf_holes d hs -> reachable d hs g -> who_acts g walker = WTraverser ->
  exists m, node_menu g h = Some m /\ m <> [] /\ NoDup m /\
            forall e, In e m -> exists g', child_game d g e 0 = Some g' /\ reachable d hs g'.
Proof. exact menu_traverser. Qed.
Print Assumptions C10_menu_traverser.

(* ---------- the sampler ---------- *)
(* non-negative weights, 0 <= u < total (so the total is positive): index i is picked exactly
   when u lies in [prefix_sum i, prefix_sum (i+1)), an interval of length w_i; the intervals tile
   [0, total).  A uniform u in [0, total) therefore picks i with probability w_i / total. *)
Theorem C10_sampler_measure : forall ws u,
  (forall w, In w ws -> (0 <= w)%Q) -> (0 <= u)%Q -> (u < sumQ ws)%Q ->
  (forall i, pick ws u = i <-> (prefix_sum ws i <= u)%Q /\ (u < prefix_sum ws (S i))%Q) /\
  (forall i, (i < length ws)%nat -> (prefix_sum ws (S i) - prefix_sum ws i == nth i ws 0)%Q) /\
  (prefix_sum ws 0 == 0)%Q /\ (prefix_sum ws (length ws) == sumQ ws)%Q /\
  (pick ws u < length ws)%nat.
Proof. exact sampler_measure. Qed.
Print Assumptions C10_sampler_measure.

Theorem C10_uniform_init : forall n, (1 <= n)%nat ->
  length (uniform_policy n) = n /\
  (sumQ (uniform_policy n) == 1)%Q /\
  (forall p, In p (uniform_policy n) -> (0 < p)%Q /\ (p == 1 / inject_Z (Z.of_nat n))%Q).
Proof. exact uniform_init. Qed.
Print Assumptions C10_uniform_init.

(* ---------- examples: the hypotheses are satisfiable ---------- *)
Example C10_hyps_wf : wf_holes Standard ex_holes.
Proof. exact ex_holes_wf. Qed.
Example C10_hyps_root : root Standard ex_holes = Some ex_root.
Proof. exact ex_root_ok. Qed.
(* a tree path of 7 edges to a flop decision node (also a sampled history with short rounds) *)
Example C10_hyps_path : tree_path Standard ex_root ex_line_history ex_line_node.
Proof. exact ex_line_path. Qed.
Example C10_hyps_sampled :
  sampled_history ex_line_history /\ max_round_length ex_line_history <= MAX_DEPTH_SUBGAME.
Proof.
  split; [exact (C10_tree_path_sampled _ _ _ _ ex_line_path)|].
  exact (C10_round_fits_window _ _ _ _ _ ex_holes_wf ex_root_ok ex_line_path).
Qed.
(* rounds of 7 edges occur (limp, four raises, all-in, all-in), with exactly MAX_RAISE_REPEATS + 1 raises *)
Example C10_hyps_long_round : exists g, tree_path Standard ex_root (map fst ex_long_edges) g /\
  turn_of g = Chance /\ max_round_length (map fst ex_long_edges) = 7 /\
  max_raise_edges_per_round (map fst ex_long_edges) = MAX_RAISE_REPEATS + 1.
Proof. exact ex_long_path. Qed.
Example C10_hyps_long_round_aggro : max_raises_per_round (map fst ex_long_edges) = MAX_RAISE_REPEATS + 3.
Proof. vm_compute. reflexivity. Qed.
(* a raise edge on a menu *)
Example C10_hyps_raise_on_menu : exists m, node_menu ex_root [] = Some m /\ In (ERaise 1 1) m.
Proof. apply on_menu_sound. vm_compute. reflexivity. Qed.
(* a decision node, a chance node with an accepted deal, a leaf *)
Example C10_hyps_choice : reachable Standard ex_holes ex_line_node /\ turn_of ex_line_node = Choice 1 /\
  who_acts ex_line_node 1 = WTraverser.
Proof.
  split; [exact (ex_reachable_of_path _ _ ex_line_path)|]. split; vm_compute; reflexivity.
Qed.
Example C10_hyps_chance : reachable Standard ex_holes ex_chance_node /\ turn_of ex_chance_node = Chance /\
  is_allowed Standard ex_chance_node (Draw ex_flop) = Some true.
Proof.
  destruct ex_chance_path as (Hp & Ht & Ha). split; [exact (ex_reachable_of_path _ _ Hp)|]. split; assumption.
Qed.
Example C10_hyps_leaf : exists g, reachable Standard ex_holes g /\ turn_of g = Terminal /\
  settlements Standard g = Some [0; 6].
Proof.
  destruct ex_leaf_path as (g & Hp & Ht & Hs). exists g.
  split; [exact (ex_reachable_of_path _ _ Hp)|]. split; assumption.
Qed.
(* the sampler on weights 1/2, 0, 1/4, 1/4 *)
Example C10_hyps_sampler :
  map (pick [1 # 2; 0; 1 # 4; 1 # 4]%Q) [0; 49 # 100; 1 # 2; 74 # 100; 3 # 4; 99 # 100]%Q
  = [0; 0; 2; 2; 3; 3]%nat.
Proof. vm_compute. reflexivity. Qed.

(* ====================================================================================
   The construction of the sampled tree itself: Model/Sample.v (grow: Blueprint::tree / sample /
   touch_any / touch_one / touch_all with Encoder::branches, Node::realize, the explore_*
   functions and their assertions; infosets: Partition::from(Tree); witness: Profile::witness).
   The card abstraction `abs`, the sampler's picks `pk` and the dealer `deal` are arbitrary
   functions.  Predicates: Spec/SpecSample.v.  A node of the tree is given as the subtree
   hanging from it (subtrees t lists all of them), so that its children are at hand.
   The tree is grown from any node (g, h) on a tree path from the root of a hand; the root itself
   is the case h = [], g = g0 (tp_root).
   ==================================================================================== *)
From Coq Require Import Permutation.
From RP Require Import Model.Sample Spec.SpecSample
                       Proofs.C10_Grow Proofs.C10_Infosets Proofs.C10_View Proofs.C10_SampleEx.

(* (a) every node has the external-sampling shape (traverser: the children's edges are the menu,
   which has no repetition; opponent and chance: exactly one child, on the menu; nobody to act: no
   child), every child is the parent after the action of its edge, which Game::is_allowed accepts,
   every leaf is a finished hand whose payoffs add up to zero, the stored bucket is Node::realize
   of the node, and the node lies on a tree path in the sense of C10_raise_cap_tree *)
Theorem C10_grow_shape : forall d hs g0 abs pk deal walker fuel h g t,
  wf_holes d hs -> root d hs = Some g0 -> tree_path d g0 h g ->
  grow d abs pk deal fuel walker g h = Some t ->
  forall s, In s (subtrees t) ->
    es_node walker s /\ child_ok d s /\ leaf_ok d s /\ bucket_ok abs s /\ on_tree_path d g0 s.
Proof. exact grow_sound. Qed.
Print Assumptions C10_grow_shape.

(* the tree of a whole hand, from its root *)
Theorem C10_tree_shape : forall d hs g0 abs pk deal walker fuel t,
  wf_holes d hs -> root d hs = Some g0 ->
  grow d abs pk deal fuel walker g0 [] = Some t ->
  forall s, In s (subtrees t) ->
    es_node walker s /\ child_ok d s /\ leaf_ok d s /\ bucket_ok abs s /\ on_tree_path d g0 s.
Proof.
  exact (fun d hs g0 abs pk deal walker fuel t Hwf Hroot =>
           grow_sound d hs g0 abs pk deal walker fuel [] g0 t Hwf Hroot (tp_root d g0)).
Qed.
Print Assumptions C10_tree_shape.

(* (b) with a dealer whose cards Game::is_allowed accepts (Game::draw() takes them from
   Game::deck()) none of the MODELLED assertions fires (Path::from's length assert, Game::apply's
   legality assert, the is_choice / is_chance asserts of explore_*; NOT modelled: WeightedIndex::new on an
   all-zero or NaN strategy, a loaded strategy with another edge set, a missing abstraction) and any fuel
   beyond max_history - length h suffices, in particular max_history + 1; more fuel gives the same tree *)
Theorem C10_grow_enough_fuel : forall d hs g0 abs pk deal walker fuel h g,
  wf_holes d hs -> root d hs = Some g0 -> deal_ok d hs deal -> tree_path d g0 h g ->
  max_history < Z.of_nat (length h) + Z.of_nat fuel ->
  exists t, grow d abs pk deal fuel walker g h = Some t.
Proof. exact grow_total. Qed.
Print Assumptions C10_grow_enough_fuel.

Theorem C10_grow_terminates : forall d hs g0 abs pk deal walker h g,
  wf_holes d hs -> root d hs = Some g0 -> deal_ok d hs deal -> tree_path d g0 h g ->
  exists t, grow d abs pk deal (Z.to_nat (max_history + 1)) walker g h = Some t.
Proof. exact grow_terminates. Qed.
Print Assumptions C10_grow_terminates.

Theorem C10_grow_fuel_mono : forall d abs pk deal walker fuel fuel' g h t, (fuel <= fuel')%nat ->
  grow d abs pk deal fuel walker g h = Some t -> grow d abs pk deal fuel' walker g h = Some t.
Proof. exact grow_fuel_mono. Qed.
Print Assumptions C10_grow_fuel_mono.

(* (c) Partition::from, for any tree: the groups together hold exactly the traverser's nodes that
   have children, each as often as it occurs among the nodes (once); no bucket heads two groups;
   every group is non-empty and holds nodes of its bucket only.  Hence two listed nodes are in one
   group iff their buckets are equal. *)
Theorem C10_infosets_partition : forall walker t,
  Permutation (concat (map snd (infosets walker t)))
              (map root_node (filter (is_infoset_node walker) (subtrees t))) /\
  NoDup (map fst (infosets walker t)) /\
  forall b ns, In (b, ns) (infosets walker t) -> ns <> [] /\ forall n, In n ns -> n_bucket n = b.
Proof. exact infosets_partition. Qed.
Print Assumptions C10_infosets_partition.

Theorem C10_infosets_iff : forall walker t b1 ns1 b2 ns2 n1 n2,
  In (b1, ns1) (infosets walker t) -> In (b2, ns2) (infosets walker t) -> In n1 ns1 -> In n2 ns2 ->
  (n_bucket n1 = n_bucket n2 <-> (b1, ns1) = (b2, ns2)).
Proof. exact infosets_iff. Qed.
Print Assumptions C10_infosets_iff.

(* every listed node is a traverser node of the tree with a child, and every such node is listed *)
Theorem C10_infosets_members : forall walker t,
  (forall b ns n, In (b, ns) (infosets walker t) -> In n ns ->
     exists s, In s (subtrees t) /\ root_node s = n /\ kids s <> [] /\
               who_acts (s_game s) walker = WTraverser /\ n_bucket n = b) /\
  (forall s, In s (subtrees t) -> kids s <> [] -> who_acts (s_game s) walker = WTraverser ->
     exists ns, In (n_bucket (root_node s), ns) (infosets walker t) /\ In (root_node s) ns).
Proof. exact (fun walker t => conj (infosets_member walker t) (infosets_complete walker t)). Qed.
Print Assumptions C10_infosets_members.

(* on a sampled tree no two nodes have the same history, so every traverser node with a child is
   listed exactly once *)
Theorem C10_infosets_once : forall d hs g0 abs pk deal walker fuel h g t,
  wf_holes d hs -> root d hs = Some g0 -> tree_path d g0 h g ->
  grow d abs pk deal fuel walker g h = Some t ->
  NoDup (map s_history (subtrees t)) /\
  NoDup (concat (map snd (infosets walker t))).
Proof. exact infosets_once. Qed.
Print Assumptions C10_infosets_once.

(* on a sampled tree the nodes of one information set agree on the recalled history, the menu
   and the abstraction (the packed paths of the bucket determine the edge lists, C15_path) *)
Theorem C10_infosets_same : forall d hs g0 abs pk deal walker fuel h g t,
  wf_holes d hs -> root d hs = Some g0 -> tree_path d g0 h g ->
  grow d abs pk deal fuel walker g h = Some t ->
  forall b ns n1 n2, In (b, ns) (infosets walker t) -> In n1 ns -> In n2 ns -> same_infoset_ok abs n1 n2.
Proof. exact infosets_same. Qed.
Print Assumptions C10_infosets_same.

(* (d) the menu does not look at hole cards; so if the abstraction depends on the cards of the
   seat to act and on the public state only, every state that differs from a node's state only in
   the hole cards of the other seat gets the node's bucket *)
Theorem C10_menu_public : forall g g' h, same_view g g' ->
  node_menu g h = node_menu g' h /\ turn_of g = turn_of g'.
Proof. exact (fun g g' h Hv => conj (same_view_menu g g' h Hv) (same_view_turn g g' Hv)). Qed.
Print Assumptions C10_menu_public.

(* Encoder::abstraction looks up Game::sweat() = (cards of the seat to act, board): every function
   of these two is an abstraction of that kind *)
Theorem C10_abs_of_sweat : forall f : N -> N -> N, abs_own_cards (fun g => f (cards (actor g)) (board g)).
Proof. exact abs_of_own_cards. Qed.
Print Assumptions C10_abs_of_sweat.

Theorem C10_bucket_own_cards : forall d hs g0 abs pk deal walker fuel h g t,
  abs_own_cards abs ->
  wf_holes d hs -> root d hs = Some g0 -> tree_path d g0 h g ->
  grow d abs pk deal fuel walker g h = Some t ->
  forall s g', In s (subtrees t) -> same_view (s_game s) g' ->
    realize abs g' (s_history s) = Some (n_bucket (root_node s)).
Proof. exact bucket_own_cards. Qed.
Print Assumptions C10_bucket_own_cards.

(* (e) Profile::witness, called with the edges of the bucket's menu (anything else trips its
   assertion): a bucket that is not in the profile gets 1 / n on each of its n edges and every
   other bucket keeps what it had; a known bucket -- and an empty menu -- leave the profile as it is *)
Theorem C10_witness_uniform : forall p b es, path_unpack (b_menu b) = Some es ->
  (lookup b p = None -> es <> [] ->
     exists p', witness p b es = Some p' /\ uniform_new p' b es /\ others_unchanged p p' b) /\
  (lookup b p <> None -> witness p b es = Some p) /\
  (es = [] -> witness p b es = Some p).
Proof. exact witness_spec. Qed.
Print Assumptions C10_witness_uniform.

Theorem C10_witness_assert : forall p b es m,
  path_unpack (b_menu b) = Some m -> m <> es -> witness p b es = None.
Proof. exact witness_assert. Qed.
Print Assumptions C10_witness_assert.

(* the witness calls of touch_one / touch_all replayed over a sampled tree: no assertion fails;
   what was known stays; a bucket first met at a decision node of the tree (of either player)
   holds 1 / n on each of the n edges of that node's menu; nothing else is added *)
Theorem C10_witness_tree : forall d hs g0 abs pk deal walker fuel h g t p,
  wf_holes d hs -> root d hs = Some g0 -> tree_path d g0 h g ->
  grow d abs pk deal fuel walker g h = Some t ->
  exists p', witness_tree walker p t = Some p' /\
    (forall b s, lookup b p = Some s -> lookup b p' = Some s) /\
    (forall s m, In s (subtrees t) -> is_witnessed walker s = true -> menu_of s = Some m ->
       lookup (n_bucket (root_node s)) p = None -> uniform_new p' (n_bucket (root_node s)) m) /\
    (forall b, lookup b p = None ->
       (forall s, In s (subtrees t) -> is_witnessed walker s = true -> n_bucket (root_node s) <> b) ->
       lookup b p' = None).
Proof. exact witness_tree_spec. Qed.
Print Assumptions C10_witness_tree.

(* (f) every node of the sampled tree lies on a tree path from the root of the hand, so the raise
   cap of C10_raise_cap_tree holds on every root-to-node path of the sampled tree *)
Theorem C10_grow_raise_cap : forall d hs g0 abs pk deal walker fuel h g t,
  wf_holes d hs -> root d hs = Some g0 -> tree_path d g0 h g ->
  grow d abs pk deal fuel walker g h = Some t ->
  forall s, In s (subtrees t) ->
    tree_path d g0 (s_history s) (s_game s) /\
    max_raise_edges_per_round (s_history s) <= MAX_RAISE_REPEATS + 1.
Proof. exact grow_raise_cap. Qed.
Print Assumptions C10_grow_raise_cap.

(* ---------- examples: the hypotheses are satisfiable ---------- *)
(* a dealer accepted at every reachable chance node, for every deck and all well-formed hole cards:
   the lowest cards of Game::deck() *)
Example C10_hyps_deal : forall d hs, wf_holes d hs -> deal_ok d hs (low_deal d).
Proof. exact low_deal_ok. Qed.
(* an abstraction of the own cards and the board; two different states with the same view *)
Example C10_hyps_abs : abs_own_cards ex_abs.
Proof. exact ex_abs_own. Qed.
Example C10_hyps_same_view : same_view ex_shoved ex_shoved_other /\ ex_shoved <> ex_shoved_other.
Proof. exact ex_same_view. Qed.
(* a node on a tree path (the small blind has gone all-in) and the tree sampled below it for the
   big blind as traverser: call all-in or fold; after the call three chance nodes and a showdown.
   Per node: history, bucket, edges of the children, who is to act *)
Example C10_hyps_node : tree_path Standard ex_root [EShove] ex_shoved.
Proof. exact ex_shoved_path. Qed.
Example C10_hyps_grow :
  option_map (fun t => map (fun s => (s_history s, n_bucket (root_node s), map fst (kids s), turn_of (s_game s)))
                           (subtrees t))
             (grow Standard ex_abs ex_pick (low_deal Standard) 10 0 ex_shoved [EShove])
  = Some [([EShove], (5, 3377699720527872, 37)%N, [EShove; EFold], Choice 0);
          ([EShove; EShove], (85, 3377699720527872, 1)%N, [EDraw], Chance);
          ([EShove; EShove; EDraw], (341, 3377699720527879, 1)%N, [EDraw], Chance);
          ([EShove; EShove; EDraw; EDraw], (4437, 3377699720527887, 1)%N, [EDraw], Chance);
          ([EShove; EShove; EDraw; EDraw; EDraw], (69973, 3377699720527903, 0)%N, [], Terminal);
          ([EShove; EFold], (37, 3377699720527872, 0)%N, [], Terminal)].
Proof. exact ex_tree_nodes. Qed.
(* its leaves (rewards; chips put in), its one information set, the profile after witness *)
Example C10_hyps_grow_leaves :
  option_map (fun t => map (fun s => (settlements Standard (s_game s), map spent (seats (s_game s))))
                           (filter (fun s => match kids s with [] => true | _ => false end) (subtrees t)))
             (grow Standard ex_abs ex_pick (low_deal Standard) 10 0 ex_shoved [EShove])
  = Some [(Some [200; 0], [100; 100]); (Some [0; 102], [2; 100])].
Proof. exact ex_tree_leaves. Qed.
Example C10_hyps_grow_infosets :
  option_map (fun t => map (fun bn => (fst bn, map n_history (snd bn))) (infosets 0 t))
             (grow Standard ex_abs ex_pick (low_deal Standard) 10 0 ex_shoved [EShove])
  = Some [((5, 3377699720527872, 37)%N, [[EShove]])].
Proof. exact ex_tree_infosets. Qed.
Example C10_hyps_grow_witness :
  match grow Standard ex_abs ex_pick (low_deal Standard) 10 0 ex_shoved [EShove] with
  | Some t => witness_tree 0 [] t | None => None end
  = Some [((5, 3377699720527872, 37)%N, [(EShove, 1 # 2); (EFold, 1 # 2)]%Q)].
Proof. exact ex_tree_witness. Qed.
(* with the small blind as traverser the big blind's answer is sampled: one child *)
Example C10_hyps_grow_opponent :
  option_map (fun t => map (fun s => (s_history s, map fst (kids s), turn_of (s_game s))) (subtrees t))
             (grow Standard ex_abs ex_pick (low_deal Standard) 10 1 ex_shoved [EShove])
  = Some [([EShove], [EFold], Choice 0); ([EShove; EFold], [], Terminal)].
Proof. exact ex_tree_opponent. Qed.
(* witness: a bucket whose menu unpacks to two edges, not yet in the (empty) profile *)
Example C10_hyps_witness :
  path_unpack (b_menu (5, 3377699720527872, 37)%N) = Some [EShove; EFold] /\
  lookup (5, 3377699720527872, 37)%N [] = None.
Proof. split; vm_compute; reflexivity. Qed.
