(* Props/C20.v -- property C20.  In the model the sampler's choice and the centroid seeding are FUNCTIONS of
   (epoch, bucket, weights) resp. (street, points, distances), so "same inputs, same output" is reflexivity;
   that the implementation really is such a function (no hidden thread-local RNG, hasher seeding or scheduler
   order leaking in) is runtime behaviour that only the per-run differential check can exhibit (see DESIGN.md). *)
From Coq Require Import ZArith QArith List.
Import ListNotations.
Section Sampler.
Variable pick : Z -> list Z -> list Q -> nat.      (* epoch, bucket code, weights -> chosen branch *)
Theorem C20_choice_is_a_function : forall e b w e' b' w', e = e' -> b = b' -> w = w' -> pick e b w = pick e' b' w'.
Proof. intros; subst; reflexivity. Qed.
End Sampler.
Print Assumptions C20_choice_is_a_function.
