(* Props/C20.v -- property C20.  In the model the sampler's choice and the centroid seeding are FUNCTIONS of
   (epoch, bucket, weights) resp. (street, points, distances), so "same inputs, same output" is reflexivity;
   that the implementation really is such a function (no hidden thread-local RNG, hasher seeding or scheduler
   order leaking in) is runtime behaviour that only the per-run differential check can exhibit (see DESIGN.md). *)
From Coq Require Import ZArith QArith List.
Import ListNotations.
Section Sampler.
Variable pick : Z -> list Z -> list Q -> nat.      (* epoch, bucket code, weights -> chosen branch *)
Theorem C20_choice_is_a_function : forall e b w e' b' w', e = e' -> b = b' -> w = w' -> pick e b w = pick e' b' w'.
Proof. intros; subst; reflexivity. Qed.
End Sampler.
Print Assumptions C20_choice_is_a_function.

(* What the regenerated flag says about the source: Profile::rng hashes (epochs, node.bucket()) and nothing
   else, and explore_one / explore_any draw only from that generator (the translator refuses any other shape of
   the three functions).  With the hash H as an uninterpreted function, nodes of one information set - whatever
   their tree, their position or the part of their history a Bucket does not recall - get one seed. *)
From RP Require Import Gen.GenFixes.
Section Seed.
Variables (bucket rest : Type) (H : Z -> bucket -> Z) (H' : Z -> bucket -> rest -> Z).
Record node := mkNode { n_bucket : bucket; n_rest : rest }.
Definition seed (e : Z) (n : node) : Z :=
  if SAMPLER_SEEDED_BY_EPOCH_AND_INFOSET then H e (n_bucket n) else H' e (n_bucket n) (n_rest n).
Theorem C20_seed_depends_on_epoch_and_infoset_only :
  forall e n n', n_bucket n = n_bucket n' -> seed e n = seed e n'.
Proof. intros e n n' Hb. unfold seed. change SAMPLER_SEEDED_BY_EPOCH_AND_INFOSET with true. cbv iota. rewrite Hb. reflexivity. Qed.
End Seed.
Print Assumptions C20_seed_depends_on_epoch_and_infoset_only.
