(* Props/C03.v -- property C03: the betting engine (Model/Game.v) is bisimilar to the rule-book
   No-Limit Hold'em machine (Spec/SpecNLHE.v) on ALL reachable states (induction over arbitrary
   action lists); rejected actions do not change the state; every hand ends within max_history
   actions; the hand is over exactly when the rule book says so.
   The relation R is defined in Spec/SpecRel.v. *)
From Coq Require Import ZArith NArith List Bool.
From RP Require Import Base.Bits Gen.GenLib Gen.GenFixes Model.Codec Model.Showdown Model.Game
                       Spec.SpecNLHE Spec.SpecGameInv Spec.SpecRel
                       Proofs.C03_Settle Proofs.C03_Moves Proofs.C03_Bisim Proofs.C03_Examples.
Import ListNotations.
Open Scope Z_scope.

(* in every reachable state the engine shows the same turn as the rule book and accepts exactly
   the rule-book actions (every kind, every Z amount, well- and ill-formed draws) *)
Theorem C03_bisim : forall d hs acts g0 g,
  wf_holes d hs -> root d hs = Some g0 -> run d g0 acts = Some g ->
  exists s, srun d (sroot hs) acts = Some s /\ same_moves d g s.
Proof. exact bisim_moves. Qed.
Print Assumptions C03_bisim.

(* the relation behind C03_bisim: at the root, preserved by every accepted action (together with
   legality in the rule book and a strict drop of the potential), and implying same_moves.
   The hypothesis RAISE_ARM_CHECKS_TURN = true is discharged by computation on the generated
   constant in C03_bisim / C03_terminates / C03_end. *)
Theorem C03_rel_root : forall d hs g0, wf_holes d hs -> root d hs = Some g0 -> R d g0 (sroot hs).
Proof. exact R_root. Qed.
Print Assumptions C03_rel_root.
Theorem C03_rel_step : RAISE_ARM_CHECKS_TURN = true ->
  forall d g s a g', R d g s -> apply d g a = Some g' ->
  slegal d s a = true /\ R d g' (sstep s a) /\ potential g' + 1 <= potential g.
Proof. exact R_step. Qed.
Print Assumptions C03_rel_step.
Theorem C03_rel_moves : RAISE_ARM_CHECKS_TURN = true -> forall d g s, R d g s -> same_moves d g s.
Proof. exact R_same_moves. Qed.
Print Assumptions C03_rel_moves.
Theorem C03_rel_reachable : RAISE_ARM_CHECKS_TURN = true ->
  forall d hs acts g0 g, wf_holes d hs -> root d hs = Some g0 -> run d g0 acts = Some g ->
  exists s, srun d (sroot hs) acts = Some s /\ R d g s.
Proof. exact bisim. Qed.
Print Assumptions C03_rel_reachable.

(* an action that is not allowed is refused and the state is untouched (apply returns None) *)
Theorem C03_reject : forall d g a, is_allowed d g a <> Some true -> apply d g a = None.
Proof. exact reject. Qed.
Print Assumptions C03_reject.

(* every line of play has at most max_history = 2 * STACK + 16 actions after the blinds *)
Theorem C03_terminates : forall d hs acts g0 g,
  wf_holes d hs -> root d hs = Some g0 -> run d g0 acts = Some g ->
  Z.of_nat (length acts) <= max_history.
Proof. exact terminates. Qed.
Print Assumptions C03_terminates.

(* the hand is over for the engine iff it is over for the related rule-book state, i.e. iff
   exactly one seat has not folded, or it is the river and betting is closed *)
Theorem C03_end : forall d hs g, wf_holes d hs -> reachable d hs g ->
  exists acts s, srun d (sroot hs) acts = Some s /\ R d g s /\
    (turn_of g = Terminal <-> over s = true) /\
    (over s = true <-> (length (slive s) = 1%nat \/ (nstreet s = 3 /\ closed s = true))) /\
    (turn_of g = Terminal <-> (length (live g) = 1%nat \/ (street g = 3 /\ closed s = true))).
Proof. exact hand_end. Qed.
Print Assumptions C03_end.

(* the rule book's settle_round: after a move from a state that is not over, the hand is over iff
   one player is left or betting is closed on the river *)
Theorem C03_over_settle : forall s, over s = false ->
  over (settle_round s) = (Nat.eqb (length (slive s)) 1 || (closed s && (nstreet s =? 3))).
Proof. exact settle_round_over. Qed.
Print Assumptions C03_over_settle.

(* ---------- examples ---------- *)
(* the hypotheses are satisfiable: a 12-action line (limp, check, flop, bet, raise, call, turn,
   check, check, river, all-in, call) from well-formed hole cards, ending at showdown *)
Example C03_hyps_wf : wf_holes Standard ex_holes.
Proof. exact ex_holes_wf. Qed.
Example C03_hyps_run :
  exists g0 g, root Standard ex_holes = Some g0 /\ run Standard g0 ex_line = Some g /\ turn_of g = Terminal.
Proof. exact ex_line_runs. Qed.
Example C03_hyps_reachable : exists g, reachable Standard ex_holes g /\ turn_of g = Terminal.
Proof. exact ex_reachable. Qed.
Example C03_hyps_reject :
  exists g0, root Standard ex_holes = Some g0 /\ is_allowed Standard g0 (Raise 1) <> Some true
             /\ is_allowed Standard g0 (Call (-1)) <> Some true.
Proof. exact ex_reject. Qed.

(* D3 witness: after [Call 1; Check] pre-flop the engine awaits the flop and rejects Raise 2 *)
Theorem C03_d3_witness :
  exists g0 g, root Standard ex_holes = Some g0 /\ run Standard g0 [Call 1; Check] = Some g /\
    turn_of g = Chance /\ is_allowed Standard g (Raise 2) = Some false /\ apply Standard g (Raise 2) = None.
Proof. exact d3_witness. Qed.
Print Assumptions C03_d3_witness.

(* is_allowed_with is is_allowed with the guard of the Raise arm as a parameter ... *)
Theorem C03_is_allowed_with : forall d g a, is_allowed_with RAISE_ARM_CHECKS_TURN d g a = is_allowed d g a.
Proof. exact is_allowed_with_guard. Qed.
Print Assumptions C03_is_allowed_with.
(* ... and without the guard same_moves fails at the D3 state: the engine would accept Raise 2
   while the rule book, awaiting the flop, refuses it *)
Theorem C03_needs_turn_check :
  exists g0 g s, root Standard ex_holes = Some g0 /\ run Standard g0 [Call 1; Check] = Some g /\
    srun Standard (sroot ex_holes) [Call 1; Check] = Some s /\
    sturn s = (1, 0) /\
    is_allowed_with false Standard g (Raise 2) = Some true /\ slegal Standard s (Raise 2) = false /\
    ~ (forall a, is_allowed_with false Standard g a = Some (slegal Standard s a)).
Proof. exact needs_turn_check. Qed.
Print Assumptions C03_needs_turn_check.
