(* Props/C01.v -- property C01: the bitwise hand evaluator computes the rule-book ranking. *)
From Coq Require Import NArith List Bool.
From RP Require Import Base.Bits Gen.GenCards Model.Codec Model.Evaluator
  Spec.SpecPoker Spec.SpecStrength Spec.SpecHand
  Proofs.C01_Order Proofs.C01_Main Proofs.C01_Suits Proofs.C01_Examples.
Import ListNotations.
Open Scope N_scope.

(* T1: on every hand of 5..7 cards of the configured deck the evaluator returns a strength,
   and that strength denotes the value of the best five-card sub-hand *)
Theorem C01_strength_is_best5 : forall d h, valid_hand d h ->
  exists s, strength_of d h = Some s /\ strength_value d s = best5 d (hand_cards h).
Proof. exact strength_is_best5. Qed.
Print Assumptions C01_strength_is_best5.

(* T2: the derived order on strengths is the rule-book order on hands *)
Theorem C01_order : forall d h1 h2, valid_hand d h1 -> valid_hand d h2 ->
  exists s1 s2, strength_of d h1 = Some s1 /\ strength_of d h2 = Some s2 /\
    cmp_strength d s1 s2 = cmp_spec d (hand_cards h1) (hand_cards h2).
Proof. exact strength_order. Qed.
Print Assumptions C01_order.

(* the evaluator only produces well-formed strengths *)
Theorem C01_strength_wf : forall d h s, valid_hand d h -> strength_of d h = Some s -> wf_strength d s.
Proof. exact strength_wf. Qed.
Print Assumptions C01_strength_wf.

(* T3: on well-formed strengths, derive(Ord) (variant position from the generated enum order,
   then fields, then kicker mask) is the numeric order of the rule-book value *)
Theorem C01_value_mono : forall d s1 s2, wf_strength d s1 -> wf_strength d s2 ->
  cmp_strength d s1 s2 = N.compare (strength_value d s1) (strength_value d s2).
Proof. exact cmp_strength_value. Qed.
Print Assumptions C01_value_mono.

(* T4: suits never matter -- relabelling the four suits by any permutation keeps the hand valid,
   leaves the evaluator's strength unchanged, and leaves the rule-book value unchanged *)
Theorem C01_suits_irrelevant : forall d p h, suit_perm p -> valid_hand d h ->
  strength_of d (relabel_hand p h) = strength_of d h.
Proof. exact relabel_strength. Qed.
Print Assumptions C01_suits_irrelevant.

Theorem C01_suits_irrelevant_spec : forall d p h, suit_perm p -> valid_hand d h ->
  best5 d (hand_cards (relabel_hand p h)) = best5 d (hand_cards h).
Proof. exact relabel_best5. Qed.
Print Assumptions C01_suits_irrelevant_spec.

Theorem C01_relabel_valid : forall d p h, suit_perm p -> valid_hand d h -> valid_hand d (relabel_hand p h).
Proof. exact relabel_valid. Qed.
Print Assumptions C01_relabel_valid.

(* hypotheses are satisfiable: concrete valid hands (5 and 7 cards), concrete well-formed strengths *)
Example C01_ex_valid : forall d, Forall (valid_hand d) (h_flush8 :: h_seven :: nine_hands).
Proof. exact ex_valid. Qed.
Example C01_ex_wf : forall d, wf_strength d (mkStrength (mkRanking TwoPair 12 11) 1024)
                           /\ wf_strength d (mkStrength (mkRanking Flush 12 0) 2696).
Proof. exact ex_wf. Qed.

(* a non-trivial suit permutation (clubs <-> spades) that really moves a valid 7-card hand *)
Example C01_ex_perm : suit_perm swap03.
Proof. exact swap03_perm. Qed.
Example C01_ex_relabel : forall d,
  relabel_hand swap03 h_seven <> h_seven /\
  strength_of d (relabel_hand swap03 h_seven) = strength_of d h_seven.
Proof. exact ex_relabel. Qed.

(* each of the nine classes is hit, in both decks *)
Example C01_ex_nine_classes : forall d,
  map (fun h => option_map (fun s => rcat (svalue s)) (strength_of d h)) nine_hands
  = map Some [HighCard; OnePair; TwoPair; ThreeOAK; Straight; Flush; FullHouse; FourOAK; StraightFlush].
Proof. exact ex_nine_classes. Qed.

(* the lowest straight of each deck *)
Example C01_ex_wheels :
  option_map svalue (strength_of Standard h_wheel_std) = Some (mkRanking Straight 3 0) /\
  option_map svalue (strength_of Short h_wheel_short) = Some (mkRanking Straight 7 0).
Proof. exact ex_wheels. Qed.

(* AsKsQsJs9s (flush) < AhAdAcKhKd (full house) in Standard, > in Short; model and spec *)
Example C01_ex_flush_vs_full :
  cmp_hands Standard h_flush h_full = Some Lt /\ cmp_hands Short h_flush h_full = Some Gt /\
  cmp_spec Standard (hand_cards h_flush) (hand_cards h_full) = Lt /\
  cmp_spec Short (hand_cards h_flush) (hand_cards h_full) = Gt.
Proof. exact ex_flush_vs_full. Qed.

(* AsKsQsJs9s > AsKsQsJs8s: the kickers of a flush count *)
Example C01_ex_flush_kickers : forall d,
  cmp_hands d h_flush h_flush8 = Some Gt /\ cmp_spec d (hand_cards h_flush) (hand_cards h_flush8) = Gt.
Proof. exact ex_flush_kickers. Qed.
