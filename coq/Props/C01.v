(* Props/C01.v -- property C01 (provisional: the general theorems are being added;
   these instances already go through the generated enum order and kicker table) *)
From Coq Require Import NArith List.
From RP Require Import Base.Bits Model.Codec Model.Evaluator Spec.SpecPoker Spec.SpecStrength.
Import ListNotations.
Open Scope N_scope.

Definition hand_of (cs : list N) : N := mask_of_bits cs.
Definition card (r s : N) : N := 4 * r + s.
(* AsKsQsJs9s, AhAdAcKhKd, AsKsQsJs8s *)
Definition flush_A9 := hand_of [card 12 3; card 11 3; card 10 3; card 9 3; card 7 3].
Definition flush_A8 := hand_of [card 12 3; card 11 3; card 10 3; card 9 3; card 6 3].
Definition full_AK := hand_of [card 12 2; card 12 1; card 12 0; card 11 2; card 11 1].
Definition cmp_hands (d : deck) (a b : N) : option comparison :=
  match strength_of d a, strength_of d b with Some x, Some y => Some (cmp_strength d x y) | _, _ => None end.

Theorem C01_flush_below_full_house_standard :
  cmp_hands Standard flush_A9 full_AK = Some Lt /\ cmp_spec Standard (hand_cards flush_A9) (hand_cards full_AK) = Lt.
Proof. split; vm_compute; reflexivity. Qed.
Print Assumptions C01_flush_below_full_house_standard.
Theorem C01_flush_above_full_house_short :
  cmp_hands Short flush_A9 full_AK = Some Gt /\ cmp_spec Short (hand_cards flush_A9) (hand_cards full_AK) = Gt.
Proof. split; vm_compute; reflexivity. Qed.
Print Assumptions C01_flush_above_full_house_short.
Theorem C01_flush_kickers_count :
  cmp_hands Standard flush_A9 flush_A8 = Some Gt /\ cmp_spec Standard (hand_cards flush_A9) (hand_cards flush_A8) = Gt.
Proof. split; vm_compute; reflexivity. Qed.
Print Assumptions C01_flush_kickers_count.
