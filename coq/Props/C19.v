(* Props/C19.v -- property C19: "After any sequence of training epochs the stored average strategy
   of an information set equals the average of the per-epoch strategies weighted by
   (epoch+1)^gamma; accumulated regret is a combination of the per-epoch regrets with weights in
   (0,1] that do not decrease with recency and are exactly one once the discount phase is over;
   the traversing player alternates every epoch starting with the first player."
   All equalities over Q are Qeq (==).  Statements use only Model/Discount.v and Spec/SpecDiscount.v. *)
From Coq Require Import ZArith QArith List.
From RP Require Import Gen.GenLib Gen.GenDiscount Model.Discount Spec.SpecDiscount.
From RP Require Import Proofs.C19_Policy Proofs.C19_Regret Proofs.C19_Walker Proofs.C19_Examples.
Import ListNotations.
Open Scope Q_scope.

(* the model's integral exponent is only meaningful if DISCOUNT_GAMMA is an integer:
   this fails (and with it the file) if the generated constant becomes non-integral *)
Example gamma_integral : gamma_is_integral = true.
Proof. reflexivity. Qed.
Print Assumptions gamma_integral.

Theorem C19_gamma_positive : (0 < gamma_int)%Z.
Proof. exact gamma_int_pos. Qed.
Print Assumptions C19_gamma_positive.

(* ---------------- stored average strategy ---------------- *)

(* epochs t0, t0+1, ..., t0+n-1: the initial value keeps weight (t0/(t0+n))^gamma and the value fed
   in at epoch t0+i gets weight ((t0+i+1)/(t0+n))^gamma  (sum_policy t0 T with T+1 = t0+n) *)
Theorem C19_policy_general : forall (t0 : Z) (acc : Q) (ps : list Q),
  (0 <= t0)%Z -> (ps <> [] \/ 0 < t0)%Z ->
  policy_run t0 acc ps ==
    acc * (inject_Z t0 / inject_Z (t0 + Z.of_nat (length ps))) ^ gamma_int
    + sum_policy t0 (t0 + Z.of_nat (length ps) - 1) ps.
Proof. exact policy_general. Qed.
Print Assumptions C19_policy_general.

Example C19_policy_general_hyp : (0 <= 3)%Z /\ ([1#2; 1#3] <> [] \/ (0 < 3)%Z).
Proof. exact ex_policy_general_hyp. Qed.
Example C19_policy_general_numbers :
  policy_run 3 7 [1#2; 1#3] == 7 * (3/5)^2 + (1#2) * (4/5)^2 + (1#3) * (5/5)^2.
Proof. exact ex_policy_general_numbers. Qed.

(* the case excluded above (no update, t0 = 0) *)
Theorem C19_policy_no_update : forall (t0 : Z) (acc : Q), policy_run t0 acc [] = acc.
Proof. exact policy_run_nil. Qed.
Print Assumptions C19_policy_no_update.

Theorem C19_policy_closed_form : forall (acc : Q) (ps : list Q), ps <> [] ->
  policy_run 0 acc ps == sum_policy 0 (Z.of_nat (length ps) - 1) ps.
Proof. exact policy_closed_form. Qed.
Print Assumptions C19_policy_closed_form.

Example C19_policy_closed_form_hyp : [1#2; 1#4; 1] <> ([] : list Q).
Proof. exact ex_policy_closed_form_hyp. Qed.
Example C19_policy_numbers :
  policy_run 0 7 [1#2; 1#4; 1] == (1#2) * (1/3)^2 + (1#4) * (2/3)^2 + 1.
Proof. exact ex_policy_numbers. Qed.

(* stored * (T+1)^gamma = sum_s (s+1)^gamma p_s, T + 1 = number of epochs *)
Theorem C19_policy_unnormalised : forall (acc : Q) (ps : list Q), ps <> [] ->
  policy_run 0 acc ps * inject_Z (Z.of_nat (length ps)) ^ gamma_int == pow_weighted_sum 0 ps.
Proof. exact policy_unnormalised. Qed.
Print Assumptions C19_policy_unnormalised.

(* actions updated in lock step from epoch 0, pss = per-action input sequences of length n >= 1:
   the normalised stored strategy is the (s+1)^gamma-weighted mean of the per-epoch strategies
   (colsum n pss is the list of the per-epoch totals sum_b p_s(b)) *)
Theorem C19_policy_weighted_mean : forall (n : nat) (pss : list (list Q)) (i : nat),
  (1 <= n)%nat -> Forall (fun ps => length ps = n) pss -> (i < length pss)%nat ->
  ~ pow_weighted_sum 0 (colsum n pss) == 0 ->
  let stored := map (policy_run 0 0) pss in
  ~ sumQ stored == 0 /\
  nth i stored 0 / sumQ stored ==
    pow_weighted_sum 0 (nth i pss []) / pow_weighted_sum 0 (colsum n pss).
Proof. exact policy_weighted_mean. Qed.
Print Assumptions C19_policy_weighted_mean.

Theorem C19_policy_weighted_mean_denominator : forall (n : nat) (pss : list (list Q)) (s : Z),
  Forall (fun ps => length ps = n) pss ->
  pow_weighted_sum s (colsum n pss) == sumQ (map (pow_weighted_sum s) pss).
Proof. exact pow_weighted_sum_colsum. Qed.
Print Assumptions C19_policy_weighted_mean_denominator.

Example C19_policy_weighted_mean_hyp :
  (1 <= 3)%nat /\ Forall (fun ps => length ps = 3%nat) ex_pss /\ (0 < length ex_pss)%nat /\
  ~ pow_weighted_sum 0 (colsum 3 ex_pss) == 0.
Proof. exact ex_weighted_mean_hyp. Qed.
Example C19_policy_weighted_mean_numbers :
  let stored := map (policy_run 0 0) ex_pss in
  nth 0 stored 0 / sumQ stored == 3 # 4 /\ nth 1 stored 0 / sumQ stored == 1 # 4 /\
  pow_weighted_sum 0 (nth 0 ex_pss []) / pow_weighted_sum 0 (colsum 3 ex_pss) == 3 # 4.
Proof. exact ex_weighted_mean_numbers. Qed.

(* ---------------- accumulated regret ---------------- *)

Theorem C19_regret_general : forall (acc : Q) (drs : list (Q * Q)),
  regret_run acc drs == acc * prodQ (map fst drs) + sum_regret drs.
Proof. intros acc drs. exact (regret_general drs acc). Qed.
Print Assumptions C19_regret_general.

Example C19_regret_numbers :
  regret_run 10 ex_drs == 21 # 8 /\
  10 * prodQ (map fst ex_drs) + sum_regret ex_drs == 21 # 8 /\
  sum_weighted ex_drs == 5 * (3#8) + (-3 # 1) * (3#4) + 2 * 1 + 1 * 1.
Proof. exact ex_regret_numbers. Qed.

(* weight drs s = product of the factors applied after position s; P = position from which the
   discount phase is over *)
Theorem C19_regret_weights : forall (drs : list (Q * Q)) (P : nat),
  (forall u, (1 <= u < length drs)%nat -> 0 < factor_at drs u /\ factor_at drs u <= 1) ->
  sum_regret drs == sum_weighted drs /\
  (forall s, 0 < weight drs s /\ weight drs s <= 1) /\
  (forall s, weight drs s <= weight drs (S s)) /\
  ((forall u, (P <= u < length drs)%nat -> factor_at drs u == 1) ->
   forall s, (P <= S s)%nat -> weight drs s == 1).
Proof. exact regret_weights. Qed.
Print Assumptions C19_regret_weights.

(* the decomposition itself needs no hypothesis *)
Theorem C19_regret_weighted_sum : forall (acc : Q) (drs : list (Q * Q)),
  regret_run acc drs == acc * prodQ (map fst drs) + sum_weighted drs.
Proof. exact regret_weighted. Qed.
Print Assumptions C19_regret_weighted_sum.

Example C19_regret_weights_hyp :
  (forall u, (1 <= u < length ex_drs)%nat -> 0 < factor_at ex_drs u /\ factor_at ex_drs u <= 1) /\
  (forall u, (3 <= u < length ex_drs)%nat -> factor_at ex_drs u == 1).
Proof. exact ex_regret_weights_hyp. Qed.
Example C19_regret_weights_values : map (weight ex_drs) [0; 1; 2; 3]%nat = [3#8; 3#4; 1; 1].
Proof. exact ex_regret_weights_values. Qed.

Theorem C19_in_discount_phase_false : forall u : Z,
  in_discount_phase u = false <-> (CFR_DISCOUNT_PHASE <= u)%Z.
Proof. exact in_discount_phase_false. Qed.
Print Assumptions C19_in_discount_phase_false.

(* sequences starting at epoch 0 (position u = epoch u): if the factor is one at every epoch
   outside the discount phase, every regret whose successor epoch is outside the phase
   (s + 1 >= CFR_DISCOUNT_PHASE) is kept with weight exactly one *)
Theorem C19_regret_phase : forall drs : list (Q * Q),
  (forall u, (u < length drs)%nat -> in_discount_phase (Z.of_nat u) = false -> factor_at drs u == 1) ->
  forall s, (s < length drs)%nat -> in_discount_phase (Z.of_nat (S s)) = false -> weight drs s == 1.
Proof. exact regret_phase. Qed.
Print Assumptions C19_regret_phase.

Example C19_regret_phase_hyp :
  (forall u, (u < length ex_long)%nat -> in_discount_phase (Z.of_nat u) = false ->
             factor_at ex_long u == 1) /\
  (exists s, (s < length ex_long)%nat /\ in_discount_phase (Z.of_nat (S s)) = false) /\
  (forall u, (1 <= u < length ex_long)%nat -> 0 < factor_at ex_long u /\ factor_at ex_long u <= 1).
Proof. exact ex_regret_phase_hyp. Qed.
Example C19_regret_phase_numbers :
  weight ex_long (Z.to_nat CFR_DISCOUNT_PHASE - 1) == 1 /\
  weight ex_long (Z.to_nat CFR_DISCOUNT_PHASE - 2) == 1 # 2 /\
  weight ex_long (Z.to_nat CFR_DISCOUNT_PHASE - 4) == 1 # 8.
Proof. exact ex_regret_phase_numbers. Qed.

(* with all factors one the accumulated regret is the plain running sum *)
Theorem C19_regret_undiscounted : forall (drs : list (Q * Q)) (acc : Q),
  Forall (fun dr => fst dr == 1) drs -> regret_run acc drs == acc + sumQ (map snd drs).
Proof. exact regret_run_undiscounted. Qed.
Print Assumptions C19_regret_undiscounted.

(* the policy discount itself lies in (0,1] from epoch 1 on and is 0 at epoch 0 *)
Theorem C19_policy_discount_range : forall t : Z, (0 < t)%Z ->
  0 < policy_discount t /\ policy_discount t <= 1.
Proof. exact policy_discount_range. Qed.
Print Assumptions C19_policy_discount_range.
Theorem C19_policy_discount_0 : policy_discount 0 == 0.
Proof. exact policy_discount_0. Qed.
Print Assumptions C19_policy_discount_0.

(* the hypothesis 0 < d <= 1 is what carries the weight claims *)
Example C19_mutant_refuted :
  let drs := [(1, 1); (2, 1); (1, 1)] in
  ~ weight drs 0 <= 1 /\ ~ weight drs 0 <= weight drs 1.
Proof. exact ex_factor_above_one_refutes_bounds. Qed.
Print Assumptions C19_mutant_refuted.
Example C19_mutant_zero_factor : ~ 0 < weight [(1, 1); (0, 1); (1, 1)] 0.
Proof. exact ex_factor_zero_refutes_positivity. Qed.

(* ---------------- walker ---------------- *)

Theorem C19_walker :
  walker 0 = 0%Z /\
  forall k, (0 <= k)%Z -> walker (k + 1) = (1 - walker k)%Z /\ (walker k = 0 \/ walker k = 1)%Z.
Proof. exact walker_spec. Qed.
Print Assumptions C19_walker.

Example C19_walker_values : map walker [0; 1; 2; 3; 4; 5]%Z = [0; 1; 0; 1; 0; 1]%Z.
Proof. exact ex_walker. Qed.
