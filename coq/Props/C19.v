(* Props/C19.v -- property C19 (provisional instances on the generated parameters; the general theorems are being added) *)
From Coq Require Import ZArith QArith List.
From RP Require Import Gen.GenLib Gen.GenDiscount Model.Discount.
Import ListNotations.
Open Scope Q_scope.
Theorem C19_instance :
  gamma_is_integral = true /\
  policy_run 0 7 [1#2; 1#4; 1] == sum_policy 0 2 [1#2; 1#4; 1] /\
  map walker [0; 1; 2; 3]%Z = [0; 1; 0; 1]%Z.
Proof. split; [reflexivity|]. split; [vm_compute; reflexivity | reflexivity]. Qed.
Print Assumptions C19_instance.
