(* Props/C19.v -- property C19: "After any sequence of training epochs the stored average strategy
   of an information set equals the average of the per-epoch strategies weighted by
   (epoch+1)^gamma; accumulated regret is a combination of the per-epoch regrets with weights in
   (0,1] that do not decrease with recency and are exactly one once the discount phase is over;
   the traversing player alternates every epoch starting with the first player."
   All equalities over Q are Qeq (==).  Statements use only Model/Discount.v and Spec/SpecDiscount.v. *)
From Coq Require Import ZArith QArith List.
From RP Require Import Gen.GenLib Gen.GenDiscount Model.Discount Spec.SpecDiscount.
From RP Require Import Proofs.C19_Policy Proofs.C19_Regret Proofs.C19_Walker Proofs.C19_Examples.
Import ListNotations.
Open Scope Q_scope.

(* the model's integral exponent is only meaningful if DISCOUNT_GAMMA is an integer:
   this fails (and with it the file) if the generated constant becomes non-integral *)
Example gamma_integral : gamma_is_integral = true.
Proof. reflexivity. Qed.
Print Assumptions gamma_integral.

Theorem C19_gamma_positive : (0 < gamma_int)%Z.
Proof. exact gamma_int_pos. Qed.
Print Assumptions C19_gamma_positive.

(* ---------------- stored average strategy ---------------- *)

(* epochs t0, t0+1, ..., t0+n-1: the initial value keeps weight (t0/(t0+n))^gamma and the value fed
   in at epoch t0+i gets weight ((t0+i+1)/(t0+n))^gamma  (sum_policy t0 T with T+1 = t0+n) *)
Theorem C19_policy_general : forall (t0 : Z) (acc : Q) (ps : list Q),
  (0 <= t0)%Z -> (ps <> [] \/ 0 < t0)%Z ->
  policy_run t0 acc ps ==
    acc * (inject_Z t0 / inject_Z (t0 + Z.of_nat (length ps))) ^ gamma_int
    + sum_policy t0 (t0 + Z.of_nat (length ps) - 1) ps.
Proof. exact policy_general. Qed.
Print Assumptions C19_policy_general.

Example C19_policy_general_hyp : (0 <= 3)%Z /\ ([1#2; 1#3] <> [] \/ (0 < 3)%Z).
Proof. exact ex_policy_general_hyp. Qed.
Example C19_policy_general_numbers :
  policy_run 3 7 [1#2; 1#3] == 7 * (3/5)^2 + (1#2) * (4/5)^2 + (1#3) * (5/5)^2.
Proof. exact ex_policy_general_numbers. Qed.

(* the case excluded above (no update, t0 = 0) *)
Theorem C19_policy_no_update : forall (t0 : Z) (acc : Q), policy_run t0 acc [] = acc.
Proof. exact policy_run_nil. Qed.
Print Assumptions C19_policy_no_update.

Theorem C19_policy_closed_form : forall (acc : Q) (ps : list Q), ps <> [] ->
  policy_run 0 acc ps == sum_policy 0 (Z.of_nat (length ps) - 1) ps.
Proof. exact policy_closed_form. Qed.
Print Assumptions C19_policy_closed_form.

Example C19_policy_closed_form_hyp : [1#2; 1#4; 1] <> ([] : list Q).
Proof. exact ex_policy_closed_form_hyp. Qed.
Example C19_policy_numbers :
  policy_run 0 7 [1#2; 1#4; 1] == (1#2) * (1/3)^2 + (1#4) * (2/3)^2 + 1.
Proof. exact ex_policy_numbers. Qed.

(* stored * (T+1)^gamma = sum_s (s+1)^gamma p_s, T + 1 = number of epochs *)
Theorem C19_policy_unnormalised : forall (acc : Q) (ps : list Q), ps <> [] ->
  policy_run 0 acc ps * inject_Z (Z.of_nat (length ps)) ^ gamma_int == pow_weighted_sum 0 ps.
Proof. exact policy_unnormalised. Qed.
Print Assumptions C19_policy_unnormalised.

(* actions updated in lock step from epoch 0, pss = per-action input sequences of length n >= 1:
   the normalised stored strategy is the (s+1)^gamma-weighted mean of the per-epoch strategies
   (colsum n pss is the list of the per-epoch totals sum_b p_s(b)) *)
Theorem C19_policy_weighted_mean : forall (n : nat) (pss : list (list Q)) (i : nat),
  (1 <= n)%nat -> Forall (fun ps => length ps = n) pss -> (i < length pss)%nat ->
  ~ pow_weighted_sum 0 (colsum n pss) == 0 ->
  let stored := map (policy_run 0 0) pss in
  ~ sumQ stored == 0 /\
  nth i stored 0 / sumQ stored ==
    pow_weighted_sum 0 (nth i pss []) / pow_weighted_sum 0 (colsum n pss).
Proof. exact policy_weighted_mean. Qed.
Print Assumptions C19_policy_weighted_mean.

Theorem C19_policy_weighted_mean_denominator : forall (n : nat) (pss : list (list Q)) (s : Z),
  Forall (fun ps => length ps = n) pss ->
  pow_weighted_sum s (colsum n pss) == sumQ (map (pow_weighted_sum s) pss).
Proof. exact pow_weighted_sum_colsum. Qed.
Print Assumptions C19_policy_weighted_mean_denominator.

Example C19_policy_weighted_mean_hyp :
  (1 <= 3)%nat /\ Forall (fun ps => length ps = 3%nat) ex_pss /\ (0 < length ex_pss)%nat /\
  ~ pow_weighted_sum 0 (colsum 3 ex_pss) == 0.
Proof. exact ex_weighted_mean_hyp. Qed.
Example C19_policy_weighted_mean_numbers :
  let stored := map (policy_run 0 0) ex_pss in
  nth 0 stored 0 / sumQ stored == 3 # 4 /\ nth 1 stored 0 / sumQ stored == 1 # 4 /\
  pow_weighted_sum 0 (nth 0 ex_pss []) / pow_weighted_sum 0 (colsum 3 ex_pss) == 3 # 4.
Proof. exact ex_weighted_mean_numbers. Qed.

(* ---------------- accumulated regret ---------------- *)

Theorem C19_regret_general : forall (acc : Q) (drs : list (Q * Q)),
  regret_run acc drs == acc * prodQ (map fst drs) + sum_regret drs.
Proof. intros acc drs. exact (regret_general drs acc). Qed.
Print Assumptions C19_regret_general.

Example C19_regret_numbers :
  regret_run 10 ex_drs == 21 # 8 /\
  10 * prodQ (map fst ex_drs) + sum_regret ex_drs == 21 # 8 /\
  sum_weighted ex_drs == 5 * (3#8) + (-3 # 1) * (3#4) + 2 * 1 + 1 * 1.
Proof. exact ex_regret_numbers. Qed.

(* weight drs s = product of the factors applied after position s; P = position from which the
   discount phase is over *)
Theorem C19_regret_weights : forall (drs : list (Q * Q)) (P : nat),
  (forall u, (1 <= u < length drs)%nat -> 0 < factor_at drs u /\ factor_at drs u <= 1) ->
  sum_regret drs == sum_weighted drs /\
  (forall s, 0 < weight drs s /\ weight drs s <= 1) /\
  (forall s, weight drs s <= weight drs (S s)) /\
  ((forall u, (P <= u < length drs)%nat -> factor_at drs u == 1) ->
   forall s, (P <= S s)%nat -> weight drs s == 1).
Proof. exact regret_weights. Qed.
Print Assumptions C19_regret_weights.

(* the decomposition itself needs no hypothesis *)
Theorem C19_regret_weighted_sum : forall (acc : Q) (drs : list (Q * Q)),
  regret_run acc drs == acc * prodQ (map fst drs) + sum_weighted drs.
Proof. exact regret_weighted. Qed.
Print Assumptions C19_regret_weighted_sum.

Example C19_regret_weights_hyp :
  (forall u, (1 <= u < length ex_drs)%nat -> 0 < factor_at ex_drs u /\ factor_at ex_drs u <= 1) /\
  (forall u, (3 <= u < length ex_drs)%nat -> factor_at ex_drs u == 1).
Proof. exact ex_regret_weights_hyp. Qed.
Example C19_regret_weights_values : map (weight ex_drs) [0; 1; 2; 3]%nat = [3#8; 3#4; 1; 1].
Proof. exact ex_regret_weights_values. Qed.

Theorem C19_in_discount_phase_false : forall u : Z,
  in_discount_phase u = false <-> (CFR_DISCOUNT_PHASE <= u)%Z.
Proof. exact in_discount_phase_false. Qed.
Print Assumptions C19_in_discount_phase_false.

(* sequences starting at epoch 0 (position u = epoch u): if the factor is one at every epoch
   outside the discount phase, every regret whose successor epoch is outside the phase
   (s + 1 >= CFR_DISCOUNT_PHASE) is kept with weight exactly one *)
Theorem C19_regret_phase : forall drs : list (Q * Q),
  (forall u, (u < length drs)%nat -> in_discount_phase (Z.of_nat u) = false -> factor_at drs u == 1) ->
  forall s, (s < length drs)%nat -> in_discount_phase (Z.of_nat (S s)) = false -> weight drs s == 1.
Proof. exact regret_phase. Qed.
Print Assumptions C19_regret_phase.

Example C19_regret_phase_hyp :
  (forall u, (u < length ex_long)%nat -> in_discount_phase (Z.of_nat u) = false ->
             factor_at ex_long u == 1) /\
  (exists s, (s < length ex_long)%nat /\ in_discount_phase (Z.of_nat (S s)) = false) /\
  (forall u, (1 <= u < length ex_long)%nat -> 0 < factor_at ex_long u /\ factor_at ex_long u <= 1).
Proof. exact ex_regret_phase_hyp. Qed.
Example C19_regret_phase_numbers :
  weight ex_long (Z.to_nat CFR_DISCOUNT_PHASE - 1) == 1 /\
  weight ex_long (Z.to_nat CFR_DISCOUNT_PHASE - 2) == 1 # 2 /\
  weight ex_long (Z.to_nat CFR_DISCOUNT_PHASE - 4) == 1 # 8.
Proof. exact ex_regret_phase_numbers. Qed.

(* with all factors one the accumulated regret is the plain running sum *)
Theorem C19_regret_undiscounted : forall (drs : list (Q * Q)) (acc : Q),
  Forall (fun dr => fst dr == 1) drs -> regret_run acc drs == acc + sumQ (map snd drs).
Proof. exact regret_run_undiscounted. Qed.
Print Assumptions C19_regret_undiscounted.

(* the policy discount itself lies in (0,1] from epoch 1 on and is 0 at epoch 0 *)
Theorem C19_policy_discount_range : forall t : Z, (0 < t)%Z ->
  0 < policy_discount t /\ policy_discount t <= 1.
Proof. exact policy_discount_range. Qed.
Print Assumptions C19_policy_discount_range.
Theorem C19_policy_discount_0 : policy_discount 0 == 0.
Proof. exact policy_discount_0. Qed.
Print Assumptions C19_policy_discount_0.

(* the hypothesis 0 < d <= 1 is what carries the weight claims *)
Example C19_mutant_refuted :
  let drs := [(1, 1); (2, 1); (1, 1)] in
  ~ weight drs 0 <= 1 /\ ~ weight drs 0 <= weight drs 1.
Proof. exact ex_factor_above_one_refutes_bounds. Qed.
Print Assumptions C19_mutant_refuted.
Example C19_mutant_zero_factor : ~ 0 < weight [(1, 1); (0, 1); (1, 1)] 0.
Proof. exact ex_factor_zero_refutes_positivity. Qed.

(* ---------------- walker ---------------- *)

Theorem C19_walker :
  walker 0 = 0%Z /\
  forall k, (0 <= k)%Z -> walker (k + 1) = (1 - walker k)%Z /\ (walker k = 0 \/ walker k = 1)%Z.
Proof. exact walker_spec. Qed.
Print Assumptions C19_walker.

Example C19_walker_values : map walker [0; 1; 2; 3; 4; 5]%Z = [0; 1; 0; 1; 0; 1]%Z.
Proof. exact ex_walker. Qed.

(* ---------------- the regret discount factors themselves ---------------- *)
(* C19_regret_weights / C19_regret_phase above take the factors as an input list and assume
   0 < factor <= 1 and factor = 1 outside the phase.  Model/DiscountR.v models the function that
   produces them (Discount::regret with the phase switch of Profile::add_regret, over the reals,
   powf = Rpower, period / alpha / omega / CFR_DISCOUNT_PHASE the generated constants); the
   theorems below prove those assumptions of it and restate the weight claims for the run whose
   factor list IS the list of its values (`concrete_pairs`), with no hypothesis about the factors.
   Over R the theorems depend on the standard-library axioms of the classical reals. *)
From Coq Require Import Reals Qreals.
From RP Require Import Model.DiscountR Spec.SpecDiscountR Proofs.C19_Factor.

(* from epoch 1 on the factor lies in (0, 1], whatever the regret *)
Theorem C19_factor_range : forall (t : Z) (r : R), (1 <= t)%Z -> (0 < regret_factor t r <= 1)%R.
Proof. exact factor_range. Qed.
Print Assumptions C19_factor_range.
Example C19_factor_range_hyp : (1 <= 4)%Z.
Proof. discriminate. Qed.

(* it is exactly one off the period, for a zero regret, and once the discount phase is over *)
Theorem C19_factor_one : forall (t : Z) (r : R),
  ((t mod DISCOUNT_PERIOD <> 0)%Z -> regret_factor t r = 1%R) /\
  regret_factor t 0 = 1%R /\
  ((CFR_DISCOUNT_PHASE <= t)%Z -> regret_factor t r = 1%R).
Proof.
  exact (fun t r => conj (factor_off_period t r) (conj (factor_zero_regret t) (factor_after_phase t r))).
Qed.
Print Assumptions C19_factor_one.
(* with the generated DISCOUNT_PERIOD = 1 every epoch is on the period: the first case is empty *)
Example C19_factor_one_hyp : (forall t : Z, (t mod DISCOUNT_PERIOD = 0)%Z) /\ (CFR_DISCOUNT_PHASE <= 390)%Z.
Proof. split; [ exact on_period_any | discriminate ]. Qed.

(* epoch 0 is the exception to the range: (0 / period)^a = 0, so a non-zero regret gets the factor
   0 / (0 + 1) = 0.  It multiplies an accumulator that is still empty on a fresh profile (and wipes
   it otherwise, C19_regret_epoch0_erases below); it is never a factor "after" a recorded regret,
   so it enters no weight. *)
Theorem C19_factor_epoch_0 : forall r : R, r <> 0%R -> regret_factor 0 r = 0%R.
Proof. exact factor_epoch_0. Qed.
Print Assumptions C19_factor_epoch_0.
Theorem C19_factor_nonneg : forall (t : Z) (r : R), (0 <= t)%Z -> (0 <= regret_factor t r <= 1)%R.
Proof. exact factor_nonneg. Qed.
Print Assumptions C19_factor_nonneg.

(* inside the phase, on the period: x / (x + 1) with x = (t / period)^alpha resp. ^omega *)
Theorem C19_factor_closed_form : forall (t : Z) (r : R),
  (t < CFR_DISCOUNT_PHASE)%Z -> (t mod DISCOUNT_PERIOD = 0)%Z ->
  ((0 < r)%R -> regret_factor t r = squash (powfR (periodsR t) alphaR)) /\
  ((r < 0)%R -> regret_factor t r = squash (powfR (periodsR t) omegaR)).
Proof.
  exact (fun t r Ht Hm => conj (factor_pos_regret t r Ht Hm) (factor_neg_regret t r Ht Hm)).
Qed.
Print Assumptions C19_factor_closed_form.

(* along the multiples of the period, for a fixed sign of the regret, later epochs discount less;
   strictly so inside the phase *)
Theorem C19_factor_monotone : forall (t t' : Z) (r r' : R), (0 <= t <= t')%Z ->
  (t mod DISCOUNT_PERIOD = 0)%Z -> (t' mod DISCOUNT_PERIOD = 0)%Z ->
  ((0 < r /\ 0 < r') \/ (r < 0 /\ r' < 0))%R ->
  (regret_factor t r <= regret_factor t' r')%R.
Proof. exact factor_monotone. Qed.
Print Assumptions C19_factor_monotone.
Theorem C19_factor_strictly_monotone : forall (t t' : Z) (r r' : R),
  (0 <= t < t')%Z -> (t' < CFR_DISCOUNT_PHASE)%Z ->
  (t mod DISCOUNT_PERIOD = 0)%Z -> (t' mod DISCOUNT_PERIOD = 0)%Z ->
  ((0 < r /\ 0 < r') \/ (r < 0 /\ r' < 0))%R ->
  (regret_factor t r < regret_factor t' r')%R.
Proof. exact factor_strictly_monotone. Qed.
Print Assumptions C19_factor_strictly_monotone.
Example C19_factor_monotone_hyp :
  (0 <= 1 < 4)%Z /\ (4 < CFR_DISCOUNT_PHASE)%Z /\ (1 mod DISCOUNT_PERIOD = 0)%Z /\
  (4 mod DISCOUNT_PERIOD = 0)%Z /\ ((0 < 5 /\ 0 < 7) \/ (5 < 0 /\ 7 < 0))%R.
Proof. repeat split; try reflexivity; try discriminate. left. split; apply IZR_lt; reflexivity. Qed.
(* at one epoch a negative regret is discounted at least as much as a positive one (omega <= alpha) *)
Theorem C19_factor_neg_le_pos : forall (t : Z) (r r' : R), (0 <= t)%Z -> (r < 0)%R -> (0 < r')%R ->
  (regret_factor t r <= regret_factor t r')%R.
Proof. exact factor_neg_le_pos. Qed.
Print Assumptions C19_factor_neg_le_pos.

Example C19_factor_values :
  (forall r : R, r <> 0%R -> regret_factor 0 r = 0%R) /\
  (forall r : R, r <> 0%R -> regret_factor 1 r = (/ 2)%R) /\
  regret_factor 4 5 = (8 / 9)%R /\ regret_factor 4 (-5) = (2 / 3)%R /\ regret_factor 4 0 = 1%R /\
  (regret_factor 389 7 < 1)%R /\ regret_factor 390 7 = 1%R /\ regret_factor 1000 (-7) = 1%R.
Proof. exact ex_factor_values. Qed.
Print Assumptions C19_factor_values.

(* regret_runR is the transcription over R of regret_run *)
Theorem C19_regret_run_transcription : forall (drs : list (Q * Q)) (acc : Q),
  Q2R (regret_run acc drs) =
  regret_runR (Q2R acc) (map (fun dr => (Q2R (fst dr), Q2R (snd dr))) drs).
Proof. exact regret_runR_of_Q. Qed.
Print Assumptions C19_regret_run_transcription.

(* THE RUN WITH THE REAL FACTORS.  trs = [(t_0, r_0); (t_1, r_1); ...]: the epochs at which one
   action of one information set is updated (strictly increasing, t_0 >= 0) and the regrets fed in;
   concrete_pairs trs = [(regret_factor t_0 r_0, r_0); ...] is what Memory::add_regret receives when the information set is
   updated at strictly increasing epochs (the API-level reading of the property; Blueprint::solve updates a bucket
   once per tree of a batch at the SAME epoch: for t >= 1 a repeated epoch keeps every factor in (0,1], at t = 0 each
   repeated update wipes the earlier ones).
   C19_regret_weights with its hypothesis about the factors discharged: *)
Theorem C19_regret_weights_concrete : forall trs : list (Z * R), increasing_from 0 trs ->
  let drs := concrete_pairs trs in
  sum_regretR drs = sum_weightedR drs /\
  (forall s, 0 < weightR drs s <= 1)%R /\
  (forall s, weightR drs s <= weightR drs (S s))%R /\
  (forall s, ((S s < length trs)%nat -> (CFR_DISCOUNT_PHASE <= epoch_at trs (S s))%Z) ->
             weightR drs s = 1%R).
Proof. exact regret_weights_concrete. Qed.
Print Assumptions C19_regret_weights_concrete.

Theorem C19_regret_weighted_sum_concrete : forall (acc : R) (trs : list (Z * R)),
  concrete_run acc trs =
    (acc * prodR (map fst (concrete_pairs trs)) + sum_weightedR (concrete_pairs trs))%R.
Proof. exact regret_weighted_sum_concrete. Qed.
Print Assumptions C19_regret_weighted_sum_concrete.

(* an update at epoch 0 with a non-zero regret erases whatever the accumulator held *)
Theorem C19_regret_epoch0_erases : forall (acc r : R) (trs : list (Z * R)), r <> 0%R ->
  concrete_run acc ((0%Z, r) :: trs) = sum_weightedR (concrete_pairs ((0%Z, r) :: trs)).
Proof. exact regret_epoch0_erases. Qed.
Print Assumptions C19_regret_epoch0_erases.

(* the same for an information set updated at every epoch t0, t0 + 1, ...: position u is epoch
   t0 + u, its factor is regret_factor (t0 + u) r_u *)
Theorem C19_regret_weights_consecutive : forall (t0 : Z) (rs : list R), (0 <= t0)%Z ->
  let drs := concrete_pairs (from_epoch t0 rs) in
  (forall u, (u < length rs)%nat ->
     factor_atR drs u = regret_factor (t0 + Z.of_nat u) (nth u rs 0%R) /\
     regret_atR drs u = nth u rs 0%R) /\
  sum_regretR drs = sum_weightedR drs /\
  (forall s, 0 < weightR drs s <= 1)%R /\
  (forall s, weightR drs s <= weightR drs (S s))%R /\
  (forall s, (CFR_DISCOUNT_PHASE <= t0 + Z.of_nat (S s))%Z -> weightR drs s = 1%R).
Proof. exact regret_weights_consecutive. Qed.
Print Assumptions C19_regret_weights_consecutive.

Example C19_regret_weights_concrete_hyp : increasing_from 0 ex_trs /\ (0 <= 388)%Z.
Proof. split; [ exact ex_trs_increasing | discriminate ]. Qed.
(* updates at epochs 0, 1, 4, 390 with regrets 5, -3, -2, 1 *)
Example C19_regret_weights_concrete_numbers :
  ex_trs = [(0%Z, 5%R); (1%Z, (-3)%R); (4%Z, (-2)%R); (390%Z, 1%R)] /\
  concrete_pairs ex_trs = [(0, 5); (/ 2, -3); (2 / 3, -2); (1, 1)]%R /\
  map (weightR (concrete_pairs ex_trs)) [0; 1; 2; 3]%nat = [/ 3; 2 / 3; 1; 1]%R /\
  forall acc : R, concrete_run acc ex_trs = (5 * / 3 + (-3) * (2 / 3) + (-2) * 1 + 1 * 1)%R.
Proof. exact (conj eq_refl (conj ex_trs_pairs ex_trs_numbers)). Qed.
Print Assumptions C19_regret_weights_concrete_numbers.

(* C19_regret_phase with its hypothesis discharged: a regret whose next update falls outside the
   discount phase (or that has no next update) is kept with weight exactly one *)
Theorem C19_regret_phase_concrete : forall (trs : list (Z * R)) (s : nat), increasing_from 0 trs ->
  ((S s < length trs)%nat -> in_discount_phase (epoch_at trs (S s)) = false) ->
  weightR (concrete_pairs trs) s = 1%R.
Proof. exact regret_phase_concrete. Qed.
Print Assumptions C19_regret_phase_concrete.
(* in the shape of C19_regret_phase: sequences starting at epoch 0, position u = epoch u *)
Theorem C19_regret_phase_concrete_from_0 : forall (rs : list R) (s : nat),
  (s < length rs)%nat -> in_discount_phase (Z.of_nat (S s)) = false ->
  weightR (concrete_pairs (from_epoch 0 rs)) s = 1%R.
Proof. exact regret_phase_consecutive. Qed.
Print Assumptions C19_regret_phase_concrete_from_0.

Example C19_regret_phase_concrete_hyp :
  increasing_from 0 ex_trs /\ ((S 2 < length ex_trs)%nat -> in_discount_phase (epoch_at ex_trs (S 2)) = false).
Proof. split; [ exact ex_trs_increasing | intros _; reflexivity ]. Qed.
(* epochs 388 .. 391: the regret of epoch 388 is still discounted at epoch 389; that of 389 is not *)
Example C19_regret_phase_concrete_numbers :
  let drs := concrete_pairs (from_epoch 388 [1; 1; 1; 1]%R) in
  (weightR drs 0 < 1)%R /\ weightR drs 1 = 1%R /\ weightR drs 2 = 1%R.
Proof. exact ex_consecutive_numbers. Qed.
Print Assumptions C19_regret_phase_concrete_numbers.
