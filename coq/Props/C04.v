(* Props/C04.v -- property C04: Showdown::settle (src/gameplay/showdown.rs, model Model/Showdown.v)
   distributes main and side pots according to the layered-pot specification Spec/SpecPots.v,
   for EVERY well-formed ledger of ANY number of players (arbitrary list length, arbitrary Z
   commitments, arbitrary N strength keys with ties).  Hypotheses of all theorems:
     wf_ledger l = true                      (Spec/SpecPots.v; includes 0 <= largest commitment)
     Forall (fun p => reward p = 0) l        (Showdown::from starts from zero rewards). *)
From Coq Require Import ZArith NArith QArith Qabs List Bool.
From RP Require Import Model.Showdown Spec.SpecPots Proofs.C04_Main.
Import ListNotations.
Open Scope Z_scope.

(* no panic (division by zero winners) and the loops terminate within the fuel *)
Theorem C04_settles : forall l, wf_ledger l = true -> Forall (fun p => reward p = 0) l ->
  exists rw, settle l = Some rw /\ length rw = length l.
Proof. exact C04_settles_wf_proof. Qed.
Print Assumptions C04_settles.

(* in fact this needs no hypothesis: no ledger whatsoever makes settle panic or run out of fuel *)
Theorem C04_settles_any : forall l, exists rw, settle l = Some rw /\ length rw = length l.
Proof. exact C04_settles_proof. Qed.
Print Assumptions C04_settles_any.

(* pays out exactly the chips put in *)
Theorem C04_total : forall l, wf_ledger l = true -> Forall (fun p => reward p = 0) l ->
  forall rw, settle l = Some rw -> sumZ rw = sumZ (map risked l).
Proof. exact C04_total_proof. Qed.
Print Assumptions C04_total.

(* a folded player gets nothing *)
Theorem C04_folded : forall l, wf_ledger l = true -> Forall (fun p => reward p = 0) l ->
  forall rw i p, settle l = Some rw -> nth_error l i = Some p -> status p = Folding ->
  nth_error rw i = Some 0.
Proof. exact C04_folded_proof. Qed.
Print Assumptions C04_folded.

(* every reward is non-negative *)
Theorem C04_nonneg : forall l, wf_ledger l = true -> Forall (fun p => reward p = 0) l ->
  forall rw, settle l = Some rw -> Forall (fun r => 0 <= r) rw.
Proof. exact C04_nonneg_proof. Qed.
Print Assumptions C04_nonneg.

(* nobody receives more than what the others' contributions up to his own commitment allow *)
Theorem C04_cap : forall l, wf_ledger l = true -> Forall (fun p => reward p = 0) l ->
  forall rw i p r, settle l = Some rw -> nth_error l i = Some p -> nth_error rw i = Some r ->
  r <= sumZ (map (fun q => Z.min (risked q) (risked p)) l).
Proof. exact C04_cap_proof. Qed.
Print Assumptions C04_cap.

(* only a winner of some layer is paid *)
Theorem C04_best : forall l, wf_ledger l = true -> Forall (fun p => reward p = 0) l ->
  forall rw i r, settle l = Some rw -> nth_error rw i = Some r -> r > 0 ->
  exists hi, In hi (levels l) /\ nth i (layer_winners l hi) false = true.
Proof. exact C04_best_proof. Qed.
Print Assumptions C04_best.

(* every layer goes to the strongest eligible hands and is split equally, with only whole odd chips
   left over, per merged pot: the reward differs from the rational fair share by less than the number
   of merged pots won (and is 0 when the fair share is 0) *)
Theorem C04_fair : forall l, wf_ledger l = true -> Forall (fun p => reward p = 0) l ->
  forall rw i r f, settle l = Some rw -> nth_error rw i = Some r ->
  nth_error (fair_share l) i = Some f ->
  ((f == 0)%Q -> r = 0) /\
  (~ (f == 0)%Q -> (Qabs ((r # 1) - f) < (Z.max 1 (pots_won l i) # 1))%Q).
Proof. exact C04_fair_proof. Qed.
Print Assumptions C04_fair.

(* umbrella: the payout passes the complete oracle of the specification *)
Theorem C04_payout_ok : forall l, wf_ledger l = true -> Forall (fun p => reward p = 0) l ->
  forall rw, settle l = Some rw -> payout_ok l rw = true.
Proof. exact C04_payout_ok_proof. Qed.
Print Assumptions C04_payout_ok.

(* ---------- the hypotheses are satisfiable: the unit-test ledgers of showdown.rs ---------- *)
(* multiway_all_in_with_uneven_stacks *)
Definition ex_uneven : list pay :=
  [mkPay 0 150 Shoving 4%N; mkPay 0 200 Shoving 3%N; mkPay 0 350 Shoving 1%N; mkPay 0 50 Shoving 0%N].
Example ex_uneven_wf : wf_ledger ex_uneven = true.
Proof. vm_compute. reflexivity. Qed.
Example ex_uneven_zero : Forall (fun p => reward p = 0) ex_uneven.
Proof. repeat constructor. Qed.
Example ex_uneven_settle : settle ex_uneven = Some [500; 100; 150; 0].
Proof. vm_compute. reflexivity. Qed.
Example ex_uneven_ok : payout_ok ex_uneven [500; 100; 150; 0] = true.
Proof. vm_compute. reflexivity. Qed.

(* multiway_all_in_with_side_pot *)
Definition ex_side : list pay :=
  [mkPay 0 50 Shoving 4%N; mkPay 0 100 Shoving 3%N; mkPay 0 150 Betting 1%N; mkPay 0 150 Betting 0%N].
Example ex_side_wf : wf_ledger ex_side = true.
Proof. vm_compute. reflexivity. Qed.
Example ex_side_zero : Forall (fun p => reward p = 0) ex_side.
Proof. repeat constructor. Qed.
Example ex_side_settle : settle ex_side = Some [200; 150; 100; 0].
Proof. vm_compute. reflexivity. Qed.
Example ex_side_ok : payout_ok ex_side [200; 150; 100; 0] = true.
Proof. vm_compute. reflexivity. Qed.

(* winners_folded: the strongest hands folded (hypotheses of C04_folded) *)
Definition ex_folded : list pay :=
  [mkPay 0 50 Folding 9%N; mkPay 0 100 Betting 2%N; mkPay 0 75 Folding 9%N; mkPay 0 100 Betting 1%N].
Example ex_folded_wf : wf_ledger ex_folded = true.
Proof. vm_compute. reflexivity. Qed.
Example ex_folded_zero : Forall (fun p => reward p = 0) ex_folded.
Proof. repeat constructor. Qed.
Example ex_folded_settle : settle ex_folded = Some [0; 325; 0; 0].
Proof. vm_compute. reflexivity. Qed.
Example ex_folded_hyp : exists p, nth_error ex_folded 2 = Some p /\ status p = Folding.
Proof. eexists. split; reflexivity. Qed.

(* a tie with an odd chip: 15 chips between two equal hands, fair shares 15/2 (hypotheses of
   C04_best / C04_fair with a non-integral fair share) *)
Definition ex_tie : list pay :=
  [mkPay 0 5 Betting 7%N; mkPay 0 5 Betting 7%N; mkPay 0 5 Folding 9%N].
Example ex_tie_wf : wf_ledger ex_tie = true.
Proof. vm_compute. reflexivity. Qed.
Example ex_tie_zero : Forall (fun p => reward p = 0) ex_tie.
Proof. repeat constructor. Qed.
Example ex_tie_settle : settle ex_tie = Some [8; 7; 0].
Proof. vm_compute. reflexivity. Qed.
Example ex_tie_fair : nth_error (fair_share ex_tie) 1 = Some ((0 + (15 # 1) / (2 # 1))%Q) /\ pots_won ex_tie 1 = 1.
Proof. split; vm_compute; reflexivity. Qed.
Example ex_tie_best : nth_error [8; 7; 0] 0 = Some 8 /\ 8 > 0.
Proof. split; reflexivity. Qed.
