(* Props/C04.v -- property C04 (provisional instances; the general theorems are being added) *)
From Coq Require Import ZArith NArith List.
From RP Require Import Model.Showdown Spec.SpecPots.
Import ListNotations.
Open Scope Z_scope.
Definition unit_ledger_1 := [mkPay 0 150 Shoving 4; mkPay 0 200 Shoving 3; mkPay 0 350 Shoving 1; mkPay 0 50 Shoving 0]%N.
Theorem C04_unit_ledger_instance :
  wf_ledger unit_ledger_1 = true /\ settle unit_ledger_1 = Some [500; 100; 150; 0] /\ payout_ok unit_ledger_1 [500; 100; 150; 0] = true.
Proof. vm_compute. repeat split; reflexivity. Qed.
Print Assumptions C04_unit_ledger_instance.
