(* Props/C13.v -- property C13 (provisional instance; the general theorems are being added) *)
From Coq Require Import NArith ZArith QArith List.
From RP Require Import Model.Kmeans.
Import ListNotations.
(* three points, two centroids, distances as rationals: the first of two equally near centroids wins *)
Definition lt (a b : Q) := Qle_bool a b && negb (Qeq_bool a b).
Theorem C13_instance :
  next_step Q lt 2 [[(1, 2)]; [(1, 1); (2, 3)]; [(2, 1)]]%N [[Some (1#2); Some (1#2)]; [Some (3#4); Some (1#4)]; [Some 0; Some 1]]%Q
  = Some [[(1, 2); (2, 1)]; [(1, 1); (2, 3)]]%N.
Proof. vm_compute. reflexivity. Qed.
Print Assumptions C13_instance.
